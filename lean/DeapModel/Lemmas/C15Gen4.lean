import DeapModel.Lemmas.C15Gen3
/-!
C15 — the general case of `hvRecursive` (level `j + 1 ≥ 2`): the reset loop and the removal loop with what they
guarantee for the invariant.
-/
namespace HvSweep
open Hypervolume
set_option linter.unusedVariables false

/-- the reset loop: marks below the level are cleared on the nodes of the list, nothing else changes -/
theorem resetLoop_spec {dims n : ℕ} (k : ℕ) : ∀ (l : List ℕ) (q : ℕ) (S : St) (fuel : ℕ),
    Seg S k 0 l q → l.length + 1 ≤ fuel → Shape dims n S → S.ignore.length = n + 1 → (q :: l).Nodup →
    (∀ a ∈ q :: l, a ≠ 0 ∧ a ≤ n) →
    ∃ S', resetLoop k fuel q S = some S' ∧ PtrEq S S' ∧ Shape dims n S' ∧ S'.area = S.area ∧ S'.volume = S.volume ∧
      S'.bounds = S.bounds ∧ S'.ignore.length = n + 1 ∧
      (∀ y, y ∉ q :: l → ign S' y = ign S y) ∧
      (∀ y ∈ q :: l, (ign S y < k → ign S' y = 0) ∧ (k ≤ ign S y → ign S' y = ign S y)) := by
  intro l
  induction l using List.reverseRecOn with
  | nil =>
    intro q S fuel hs hf hS hlen hnd hr
    obtain ⟨f, rfl⟩ : ∃ f, fuel = f + 1 := ⟨fuel - 1, by simp at hf; omega⟩
    have hq := hr q (by simp)
    unfold resetLoop
    rw [if_neg hq.1]
    set S1 := (if ign S q < k then setIgn S q 0 else S) with hS1
    have hpe : PtrEq S S1 := by rw [hS1]; split; exact fun _ _ => ⟨rfl, rfl⟩; exact PtrEq.refl S
    have hpv : pv S1 k q = 0 := by rw [(hpe k q).2]; exact hs.2
    dsimp only
    rw [hpv]
    have hres : resetLoop k f 0 S1 = some S1 := by cases f <;> simp [resetLoop]
    rw [hres]
    refine ⟨S1, rfl, hpe, ?_, ?_, ?_, ?_, ?_, ?_, ?_⟩
    · rw [hS1]; split; exact hS; exact hS
    · rw [hS1]; split <;> rfl
    · rw [hS1]; split <;> rfl
    · rw [hS1]; split <;> rfl
    · rw [hS1]; split
      · show (S.ignore.set q 0).length = _; rw [List.length_set]; exact hlen
      · exact hlen
    · intro y hy
      have hyq : y ≠ q := fun e => hy (by simp [e])
      rw [hS1]; split
      · exact ign_setIgn_ne S q 0 y hyq
      · rfl
    · intro y hy
      have hyq : y = q := by simpa using hy
      subst hyq
      constructor
      · intro h; rw [hS1, if_pos h]; exact ign_setIgn_self S y 0 (by rw [hlen]; omega)
      · intro h; rw [hS1, if_neg (by omega)]
  | append_singleton l b ih =>
    intro q S fuel hs hf hS hlen hnd hr
    obtain ⟨f, rfl⟩ : ∃ f, fuel = f + 1 := ⟨fuel - 1, by simp at hf; omega⟩
    have hs' := (seg_append S k l 0 b [] q).mp hs
    have hq := hr q (by simp)
    have hnd' := List.nodup_cons.mp hnd
    have hqb : q ≠ b := fun e => hnd'.1 (by simp [e])
    unfold resetLoop
    rw [if_neg hq.1]
    set S1 := (if ign S q < k then setIgn S q 0 else S) with hS1
    have hpe : PtrEq S S1 := by rw [hS1]; split; exact fun _ _ => ⟨rfl, rfl⟩; exact PtrEq.refl S
    have hsh : Shape dims n S1 := by rw [hS1]; split; exact hS; exact hS
    have hlen1 : S1.ignore.length = n + 1 := by
      rw [hS1]; split
      · show (S.ignore.set q 0).length = _; rw [List.length_set]; exact hlen
      · exact hlen
    have hign1 : ∀ y, y ≠ q → ign S1 y = ign S y := by
      intro y hy; rw [hS1]; split
      · exact ign_setIgn_ne S q 0 y hy
      · rfl
    have hpv : pv S1 k q = b := by rw [(hpe k q).2]; exact hs'.2.2
    dsimp only
    rw [hpv]
    have hnd_bl : (b :: l).Nodup := by
      have := hnd'.2
      rw [List.nodup_append] at this
      refine List.nodup_cons.mpr ⟨fun hb => this.2.2 b hb b (by simp) rfl, this.1⟩
    obtain ⟨S', h1, h2, h3, h4, h5, h6, h7, h8, h9⟩ := ih b S1 f (seg_congr (hpe.dim k) l 0 b hs'.1)
      (by simp at hf; omega) hsh hlen1 hnd_bl
      (fun a ha => hr a (by
        rcases List.mem_cons.mp ha with rfl | ha
        · simp
        · simp [ha]))
    refine ⟨S', h1, hpe.trans h2, h3, ?_, ?_, ?_, h7, ?_, ?_⟩
    · rw [h4, hS1]; split <;> rfl
    · rw [h5, hS1]; split <;> rfl
    · rw [h6, hS1]; split <;> rfl
    · intro y hy
      have hyq : y ≠ q := fun e => hy (by simp [e])
      have hybl : y ∉ b :: l := fun h => hy (by
        rcases List.mem_cons.mp h with rfl | h
        · simp
        · simp [h])
      rw [h8 y hybl, hign1 y hyq]
    · intro y hy
      by_cases hyq : y = q
      · subst hyq
        have hybl : y ∉ b :: l := by
          intro h
          rcases List.mem_cons.mp h with h | h
          · exact hqb h
          · exact hnd'.1 (by simp [h])
        rw [h8 y hybl]
        constructor
        · intro h; rw [hS1, if_pos h]; exact ign_setIgn_self S y 0 (by rw [hlen]; omega)
        · intro h; rw [hS1, if_neg (by omega)]
      · have hybl : y ∈ b :: l := by
          rcases List.mem_cons.mp hy with h | h
          · exact absurd h hyq
          · rcases List.mem_append.mp h with h | h
            · exact List.mem_cons_of_mem _ h
            · simp at h; rw [h]; simp
        have := h9 y hybl
        rw [hign1 y hyq] at this
        exact this

/-- the removal loop: which nodes it removes, and why it stopped -/
theorem removeLoop_stop (C : Cargo) (k : ℕ) : ∀ (len : ℕ) (pre : List ℕ) (q : ℕ) (suf : List ℕ) (p : ℕ) (S : St),
    len = pre.length + 1 → Seg S k 0 (pre ++ q :: suf) 0 →
    ∃ pre' q' rs, removeLoop C k len p q S = ((rs.reverse ++ [p]).headD 0, q', pre'.length + 1, removeSeq C k S rs) ∧
      pre ++ [q] = pre' ++ q' :: rs.reverse ∧
      ∀ d0 p0, pre' = d0 ++ [p0] →
        ∃ b, S.bounds.getD k none = some b ∧ cg C q' k ≤ b ∧ cg C p0 k < b
  | 0, pre, q, suf, p, S, hl, _ => by omega
  | 1, pre, q, suf, p, S, hl, _ => by
    have : pre = [] := List.length_eq_zero_iff.mp (by omega)
    subst this
    exact ⟨[], q, [], rfl, rfl, fun d0 p0 h => by simp at h⟩
  | len + 2, pre, q, suf, p, S, hl, hs => by
    unfold removeLoop
    have hpre : pre ≠ [] := by intro h; rw [h] at hl; simp at hl
    obtain ⟨pre0, q1, rfl⟩ : ∃ pre0 q1, pre = pre0 ++ [q1] := ⟨pre.dropLast, pre.getLast hpre, (List.dropLast_append_getLast hpre).symm⟩
    have hpvS : pv S k q = q1 := by
      have := (seg_node S k (pre0 ++ [q1]) 0 q suf 0 hs).1
      rw [this]; simp
    split
    · set S1 := remove C S q k with hS1
      have hge : DimEq k S S1 := remove_ge C q k S k (le_refl _)
      have hpv : pv S1 k q = q1 := by rw [(hge q).2]; exact hpvS
      dsimp only
      rw [hpv]
      have hs1 : Seg S1 k 0 (pre0 ++ q1 :: q :: suf) 0 := by
        have := seg_congr hge _ 0 0 hs
        simpa using this
      obtain ⟨pre', q', rs', h1, h2, h3⟩ := removeLoop_stop C k (len + 1) pre0 q1 (q :: suf) q S1
        (by simp at hl; omega) hs1
      refine ⟨pre', q', q :: rs', ?_, ?_, ?_⟩
      · rw [h1, removeSeq_cons]
        congr 1
        simp only [List.reverse_cons, List.append_assoc]
        cases rs'.reverse <;> simp
      · rw [List.reverse_cons, ← List.cons_append, ← List.append_assoc, ← h2]
      · intro d0 p0 hd
        obtain ⟨b, hb1, hb2, hb3⟩ := h3 d0 p0 hd
        refine ⟨b, ?_, hb2, hb3⟩
        rw [← (remove_bframe C q k S).bounds_ge k (le_refl _)]; exact hb1
    · rename_i hcond
      refine ⟨pre0 ++ [q1], q, [], by simp [removeSeq, hl], by simp, ?_⟩
      intro d0 p0 hd
      have hp0 : p0 = q1 := by
        have := congrArg List.getLast? hd
        simp at this
        exact this.symm
      have hc : (gtBound S k (cg C q k) || geBound S k (cg C (pv S k q) k)) = false := by
        simpa using hcond
      rw [Bool.or_eq_false_iff] at hc
      unfold gtBound geBound at hc
      cases hb : S.bounds.getD k none with
      | none => rw [hb] at hc; simp at hc
      | some b =>
        rw [hb] at hc
        simp only [decide_eq_false_iff_not, not_lt, not_le] at hc
        exact ⟨b, rfl, hc.1, by rw [hp0, ← hpvS]; exact hc.2⟩

/-! ### small frame facts about the setters -/

theorem tshape_setAr {dims n : ℕ} {S : St} (h : TShape dims n S) (a i : ℕ) (v : ℚ) : TShape dims n (setAr S a i v) :=
  ⟨shaped_tset h.1 a i v, h.2.1, h.2.2⟩
theorem tshape_setVl {dims n : ℕ} {S : St} (h : TShape dims n S) (a i : ℕ) (v : ℚ) : TShape dims n (setVl S a i v) :=
  ⟨h.1, shaped_tset h.2.1 a i v, h.2.2⟩
theorem tshape_setIgn {dims n : ℕ} {S : St} (h : TShape dims n S) (a v : ℕ) : TShape dims n (setIgn S a v) :=
  ⟨h.1, h.2.1, by show (S.ignore.set a v).length = _; rw [List.length_set]; exact h.2.2⟩
theorem tshape_of_fields {dims n : ℕ} {S T : St} (h : TShape dims n S) (h1 : T.area = S.area) (h2 : T.volume = S.volume)
    (h3 : T.ignore = S.ignore) : TShape dims n T := by
  unfold TShape; rw [h1, h2, h3]; exact h

theorem ar_setAr_self' {dims n : ℕ} {S : St} (h : TShape dims n S) {a i : ℕ} (ha : a ≤ n) (hi : i < dims) (v : ℚ) :
    ar (setAr S a i v) a i = v := by
  unfold ar setAr
  exact tget_tset_self _ _ _ _ _ (by rw [h.1.1]; omega) (by rw [h.1.2 a (by omega)]; exact hi)

theorem vl_setVl_self' {dims n : ℕ} {S : St} (h : TShape dims n S) {a i : ℕ} (ha : a ≤ n) (hi : i < dims) (v : ℚ) :
    vl (setVl S a i v) a i = v := by
  unfold vl setVl
  exact tget_tset_self _ _ _ _ _ (by rw [h.2.1.1]; omega) (by rw [h.2.1.2 a (by omega)]; exact hi)

theorem vl_setVl_ne (S : St) (a i b j : ℕ) (v : ℚ) (h : b ≠ a ∨ j ≠ i) : vl (setVl S a i v) b j = vl S b j := by
  unfold vl setVl
  exact tget_tset_ne _ _ _ _ _ _ _ h

section ctx
variable {C : Cargo} {dims n : ℕ} {O : ℕ → List ℕ} {pt : ℕ → List ℚ} {ref : List ℚ}

/-- **the area step** (l.154-162 / l.177-182) for the node `p` just (re)inserted after `q`: its area cache gets the
ideal value — copied from `q` when `p` is marked dominated, computed by the level below otherwise -/
theorem area_step_ok (g : GCtx C dims n O pt ref) (j : ℕ) (hj1 : 1 ≤ j) (hj : j + 1 < dims) (F : ℕ)
    (hrec : LevelOK C dims n O pt ref F j) (A : List ℕ) (hA : ∀ a ∈ A, a ∈ ids n)
    (d0 : List ℕ) (q p : ℕ) (todo : List ℕ) (hsplit : RL O (j + 1) A = d0 ++ q :: p :: todo)
    (T : St) (inv : Inv C dims n O pt ref T j (d0 ++ [q] ++ [p]))
    (hpv : pv T (j + 1) p = q) (hq : ar T q (j + 1) = ARv ref pt O j A q)
    (hmark : ign T p = 0 ∨ (j + 1 ≤ ign T p ∧ ∃ b ∈ A, Dom C O (ign T p) b p)) :
    ∃ T', areaStep (hvRecursive C F j) (j + 1) (d0 ++ [q] ++ [p]).length p T = some T' ∧ PtrEq T T' ∧
      Inv C dims n O pt ref T' j (d0 ++ [q] ++ [p]) ∧ ar T' p (j + 1) = ARv ref pt O j A p ∧
      (∀ y, y ∉ d0 ++ [q] ++ [p] → y ≠ 0 → ign T' y = ign T y) ∧
      (∀ a i, j < i → (a ≠ p ∨ i ≠ j + 1) → ar T' a i = ar T a i) ∧
      (∀ a i, j < i → vl T' a i = vl T a i) ∧
      (∀ i, j < i → T'.bounds.getD i none = T.bounds.getD i none) := by
  have hpL : p ∈ RL O (j + 1) A := by rw [hsplit]; simp
  have hpA : p ∈ A := ((mem_RL O (j + 1) A p).mp hpL).2
  have hpn : p ≤ n := ((mem_ids n p).mp (hA p hpA)).2
  have hsplit' : RL O (j + 1) A = (d0 ++ [q]) ++ p :: todo := by rw [hsplit]; simp
  obtain ⟨hp1, _⟩ := pos_lt_of_split O (j + 1) (g.nodup hj) (RL O (j + 1) A) (d0 ++ [q]) todo p
    (RL_sublist O (j + 1) A) hsplit'
  unfold areaStep
  by_cases hign : j + 1 ≤ ign T p
  · -- p is marked: copy the area of q
    rw [if_pos hign, hpv, hq]
    obtain ⟨b, hbA, hdom⟩ : ∃ b ∈ A, Dom C O (ign T p) b p := by
      rcases hmark with h0 | ⟨_, h⟩
      · omega
      · exact h
    have hAR : ARv ref pt O j A p = ARv ref pt O j A q :=
      ARv_of_dominated g j hj A hA d0 todo q p hsplit b (ign T p) hbA hign hdom
    refine ⟨_, rfl, fun _ _ => ⟨rfl, rfl⟩, ?_, ?_, fun _ _ _ => rfl, ?_, fun _ _ _ => rfl, fun _ _ => rfl⟩
    · exact
        { shape := inv.shape
          tshape := tshape_setAr inv.tshape _ _ _
          nodup := inv.nodup
          sub := inv.sub
          lists := fun i hi => dl_ptrEq (S := T) (fun _ _ => ⟨rfl, rfl⟩) (inv.lists i hi)
          cv := cv_frame (S := T) (fun a i hi => ar_setAr_ne T p (j + 1) a i _ (Or.inr (by omega)))
            (fun _ _ _ => rfl) (fun _ _ => rfl) inv.cv
          ig := inv.ig }
    · rw [ar_setAr_self' inv.tshape hpn hj, hAR]
    · intro a i hi hne
      exact ar_setAr_ne T p (j + 1) a i _ hne
  · -- p is not marked: the level below computes the area of the nodes present
    rw [if_neg hign]
    have hp0 : ign T p = 0 := by
      rcases hmark with h0 | ⟨h, _⟩
      · exact h0
      · omega
    obtain ⟨v, T1, hrun, post⟩ := hrec T (d0 ++ [q] ++ [p]) inv (by simp)
    rw [hrun]
    dsimp only
    have hv : v = ARv ref pt O j A p := by
      rw [post.val]
      unfold ARv
      apply Hj_congr
      intro b
      exact (mem_preSet_of_split g hj A hA (d0 ++ [q]) todo p hsplit' b).symm
    set T2 := setAr T1 p (j + 1) v with hT2
    have hT2inv : Inv C dims n O pt ref T2 j (d0 ++ [q] ++ [p]) :=
      { shape := post.inv.shape
        tshape := tshape_setAr post.inv.tshape _ _ _
        nodup := inv.nodup
        sub := inv.sub
        lists := fun i hi => dl_ptrEq (S := T1) (fun _ _ => ⟨rfl, rfl⟩) (post.inv.lists i hi)
        cv := cv_frame (S := T1) (fun a i hi => ar_setAr_ne T1 p (j + 1) a i _ (Or.inr (by omega)))
          (fun _ _ _ => rfl) (fun _ _ => rfl) post.inv.cv
        ig := post.inv.ig }
    have har2 : ar T2 p (j + 1) = ARv ref pt O j A p := by
      rw [hT2, ar_setAr_self' post.inv.tshape hpn hj, hv]
    have hframes2 : (∀ y, y ∉ d0 ++ [q] ++ [p] → y ≠ 0 → ign T2 y = ign T y) ∧
        (∀ a i, j < i → (a ≠ p ∨ i ≠ j + 1) → ar T2 a i = ar T a i) ∧
        (∀ a i, j < i → vl T2 a i = vl T a i) ∧
        (∀ i, j < i → T2.bounds.getD i none = T.bounds.getD i none) :=
      ⟨fun y hy hy0 => post.ign_out y hy hy0,
       fun a i hi hne => (ar_setAr_ne T1 p (j + 1) a i _ hne).trans (post.cache_hi a i hi).1,
       fun a i hi => (post.cache_hi a i hi).2,
       fun i hi => post.bounds_hi i hi⟩
    have hsub : j + 1 - 1 = j := by omega
    rw [hsub]
    by_cases hprom : ign T2 p = j
    · -- promotion: dominated in the coordinates below, and last in this one
      rw [if_pos hprom]
      have hig1 := post.inv.ig p (by simp) (by
        have : ign T1 p = j := hprom
        omega)
      have e1 : ign T1 p = j := hprom
      rw [e1] at hig1
      obtain ⟨b, hbB, hdom⟩ := hig1
      have hbpos : pos O (j + 1) b < pos O (j + 1) p := by
        rcases List.mem_append.mp hbB with h | h
        · exact hp1 b h
        · simp at h; exact absurd h hdom.1
      have hdom' : Dom C O (j + 1) b p := by
        refine ⟨hdom.1, hdom.2.1, fun i hi1 hi2 => ?_⟩
        rcases Nat.lt_or_ge i (j + 1) with h | h
        · exact hdom.2.2 i hi1 (by omega)
        · have : i = j + 1 := by omega
          rw [this]; exact hbpos
      have hlen : p < T2.ignore.length := by rw [hT2inv.tshape.2.2]; omega
      refine ⟨_, rfl, post.ptr.trans (fun _ _ => ⟨rfl, rfl⟩), ?_, ?_, ?_, hframes2.2.1, hframes2.2.2.1, hframes2.2.2.2⟩
      · exact
          { shape := hT2inv.shape
            tshape := tshape_setIgn hT2inv.tshape _ _
            nodup := inv.nodup
            sub := inv.sub
            lists := fun i hi => dl_ptrEq (S := T2) (fun _ _ => ⟨rfl, rfl⟩) (hT2inv.lists i hi)
            cv := cv_frame (S := T2) (fun _ _ _ => rfl) (fun _ _ _ => rfl) (fun _ _ => rfl) hT2inv.cv
            ig := by
              intro y hy hm
              by_cases hyp : y = p
              · subst hyp
                rw [ign_setIgn_self T2 y (j + 1) hlen]
                exact ⟨b, hbB, hdom'⟩
              · rw [ign_setIgn_ne T2 p (j + 1) y hyp] at hm ⊢
                exact hT2inv.ig y hy hm }
      · exact har2
      · intro y hy hy0
        have hyp : y ≠ p := fun e => hy (by simp [e])
        rw [ign_setIgn_ne T2 p (j + 1) y hyp]
        exact hframes2.1 y hy hy0
    · rw [if_neg hprom]
      exact ⟨T2, rfl, post.ptr.trans (fun _ _ => ⟨rfl, rfl⟩), hT2inv, har2, hframes2.1, hframes2.2.1,
        hframes2.2.2.1, hframes2.2.2.2⟩

end ctx

end HvSweep
