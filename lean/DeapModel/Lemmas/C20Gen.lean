/-
C20 — helper lemmas of the TRANSLATOR TIE (`harness/py2lean.py`, `GenEq/C20.lean.tmpl`): the prelude of the
generated definitions (`Core/GenPrelude.lean`) at `α = ℝ`, Python's slices / indices / ranges on the list shapes the
models use, and the tactics the committed equality theorems `Gen.f = Bench.f` are proved with.
-/
import DeapModel.Core.GenPrelude
import DeapModel.Lemmas.C20Real
import DeapModel.Lemmas.C20Front
import DeapModel.Core.MovingPeaks
import DeapModel.Core.BenchBinary
import DeapModel.Core.BenchTools
import Mathlib.Analysis.SpecialFunctions.Sqrt
import Mathlib.Analysis.SpecialFunctions.Pow.Real
import Mathlib.Analysis.SpecialFunctions.Pow.NNReal
import Mathlib.Tactic.Ring
import Mathlib.Tactic.FieldSimp
import Mathlib.Tactic.NormNum
import Mathlib.Tactic.Push
import Mathlib.Tactic.FailIfNoProgress
import Mathlib.Tactic.Linarith

set_option linter.unusedSimpArgs false
set_option linter.unusedVariables false
set_option linter.unusedTactic false
set_option linter.unreachableTactic false

namespace GenL
open RealLike

/-! ### the prelude at ℝ -/

@[simp] theorem real_ofInt (i : Int) : (Gen.ofInt i : ℝ) = (i : ℝ) := by
  cases i with
  | ofNat n => simp [Gen.ofInt]
  | negSucc n => simp [Gen.ofInt, Int.negSucc_eq]

@[simp] theorem real_idiv (a b : Int) : (Gen.idiv a b : ℝ) = (a : ℝ) / (b : ℝ) := by
  unfold Gen.idiv
  split
  · rename_i h
    simp only [real_ofRatio]
    congr 1
    exact_mod_cast (Int.toNat_of_nonneg h)
  · rename_i h
    simp only [real_ofRatio]
    have hb : ((-b).toNat : Int) = -b := Int.toNat_of_nonneg (by omega)
    have : (((-b).toNat : ℕ) : ℝ) = -(b : ℝ) := by exact_mod_cast hb
    rw [this]; push_cast; rw [neg_div_neg_eq]

@[simp] theorem real_ipow (x : ℝ) (n : Nat) : Gen.ipow x n = x ^ n := by
  induction n using Nat.strongRecOn with
  | _ n ih =>
    match n with
    | 0 => simp [Gen.ipow]
    | 1 => simp [Gen.ipow]
    | k + 2 => rw [Gen.ipow, ih (k + 1) (by omega)]; simp only [real_mul]; ring

end GenL

namespace GenL
open RealLike

/-! ### Python list idioms on the shapes the models use -/

/-- `zip(l[:-1], l[1:])` is the model's `adjacent` -/
theorem zip_dropLast_tail {β : Type} (l : List β) : l.dropLast.zip l.tail = l.zip l.tail := by
  induction l with
  | nil => simp
  | cons a t ih =>
    cases t with
    | nil => simp
    | cons b u => simp only [List.dropLast_cons_cons, List.tail_cons, List.zip_cons_cons] at ih ⊢; rw [ih]

/-- a `for`-accumulation `v += f p` -/
theorem foldl_add_map {β : Type} (f : β → ℝ) (l : List β) (a : ℝ) :
    List.foldl (fun acc p => acc + f p) a l = a + (l.map f).sum := by
  induction l generalizing a with
  | nil => simp
  | cons x t ih => simp only [List.foldl_cons, List.map_cons, List.sum_cons]; rw [ih]; ring

theorem nz_zero : Gen.nz 0 = none := rfl
theorem nz_of_ne {i : Int} (h : i ≠ 0) : Gen.nz i = some i := by simp [Gen.nz, h]

theorem nz_length_cons {β : Type} (a : β) (l : List β) :
    Gen.nz ((a :: l).length : Int) = some ((a :: l).length : Int) := nz_of_ne (by simp; omega)
theorem nz_length_cons_sub_one {β : Type} (a b : β) (l : List β) :
    Gen.nz (((a :: b :: l).length : Int) - 1) = some (((a :: b :: l).length : Int) - 1) :=
  nz_of_ne (by simp; omega)
theorem nz_length_one_sub_one {β : Type} (a : β) : Gen.nz ((([a] : List β).length : Int) - 1) = none := by
  simp [Gen.nz]
theorem nz_length_nil_sub_one {β : Type} : Gen.nz ((([] : List β).length : Int) - 1) = some (-1) := by
  simp [Gen.nz]
theorem nz_length_nil {β : Type} : Gen.nz (([] : List β).length : Int) = none := by
  simp [Gen.nz]

/-- `x ** 0.5` and `sqrt(x)` -/
theorem sqrt_eq_rpow_half (x : ℝ) : √x = x ^ ((1 : ℝ) / 2) := by rw [Real.sqrt_eq_rpow]

theorem rpow_half (x : ℝ) : x ^ ((5 : ℝ) / 10) = √x := by
  rw [Real.sqrt_eq_rpow]; norm_num

/-- `enumerate` counts with Python ints, the model's `enumFrom` with naturals -/
theorem enumFrom_eq {β : Type} (k : Nat) (l : List β) :
    Gen.enumFrom (k : Int) l = (Bench.enumFrom k l).map fun p => ((p.1 : Int), p.2) := by
  induction l generalizing k with
  | nil => simp [Gen.enumFrom, Bench.enumFrom]
  | cons a t ih =>
    simp only [Gen.enumFrom, Bench.enumFrom, List.map_cons]
    have := ih (k + 1)
    push_cast at this
    rw [this]

theorem enumerate_eq {β : Type} (l : List β) :
    Gen.enumerate l = (Bench.enumFrom 0 l).map fun p => ((p.1 : Int), p.2) := by
  have := enumFrom_eq 0 l
  simpa [Gen.enumerate] using this

end GenL

namespace GenL
open RealLike Bench

/-! ### slices, indices, ranges with natural-number arguments -/

theorem bound_natCast (n k : ℕ) : Gen.bound n (k : ℤ) = min k n := by
  simp [Gen.bound]

theorem slice_drop {β : Type} (l : List β) (k : ℕ) : Gen.slice l (some (k : ℤ)) none = l.drop k := by
  simp only [Gen.slice, bound_natCast, List.take_length]
  rcases Nat.le_total k l.length with h | h
  · rw [Nat.min_eq_left h]
  · rw [Nat.min_eq_right h, List.drop_length, List.drop_eq_nil_of_le h]

theorem slice_take {β : Type} (l : List β) (k : ℕ) : Gen.slice l none (some (k : ℤ)) = l.take k := by
  simp only [Gen.slice, bound_natCast, List.drop_zero]
  rcases Nat.le_total k l.length with h | h
  · rw [Nat.min_eq_left h]
  · rw [Nat.min_eq_right h, List.take_length, List.take_of_length_le h]

theorem slice_take_drop {β : Type} (l : List β) (a b : ℕ) :
    Gen.slice l (some (a : ℤ)) (some (b : ℤ)) = (l.take b).drop a := by
  simp only [Gen.slice, bound_natCast]
  rcases Nat.le_total b l.length with h | h
  · rw [Nat.min_eq_left h]
    rcases Nat.le_total a l.length with h' | h'
    · rw [Nat.min_eq_left h']
    · rw [Nat.min_eq_right h', List.drop_eq_nil_of_le (by first | (simp; done) | (simp; omega)), List.drop_eq_nil_of_le (by first | (simp; done) | (simp; omega))]
  · rw [Nat.min_eq_right h, List.take_length, List.take_of_length_le h]
    rcases Nat.le_total a l.length with h' | h'
    · rw [Nat.min_eq_left h']
    · rw [Nat.min_eq_right h', List.drop_length, List.drop_eq_nil_of_le h']

theorem index_natCast {β : Type} (l : List β) (m : ℕ) : Gen.index l (m : ℤ) = l[m]? := by
  simp [Gen.index]

theorem range_zero_natCast (k : ℕ) : Gen.range 0 (k : ℤ) = (List.range k).map Int.ofNat := by
  simp [Gen.range]

theorem range_one_natCast (k : ℕ) : Gen.range 1 ((k + 1 : ℕ) : ℤ) = (List.range k).map fun m => ((m + 1 : ℕ) : ℤ) := by
  simp only [Gen.range]
  have : (((k + 1 : ℕ) : ℤ) - 1).toNat = k := by push_cast; simp
  rw [this]
  apply List.map_congr_left
  intro a _
  push_cast; ring

theorem rangeDown_natCast (k : ℕ) : Gen.rangeDown ((k : ℤ) - 1) (-1) = (List.range k).reverse.map Int.ofNat := by
  simp only [Gen.rangeDown]
  have : ((k : ℤ) - 1 - (-1)).toNat = k := by simp
  rw [this]
  apply List.ext_getElem
  · simp
  · intro i h1 h2
    simp at h1
    simp [List.getElem_reverse, List.getElem_range]
    omega

/-! ### comprehensions whose element can raise -/

theorem mapM_some' {β γ : Type} (f : β → γ) (l : List β) :
    l.mapM (fun a => some (f a)) = some (l.map f) := by
  induction l with
  | nil => rfl
  | cons a t ih => simp [List.mapM_cons, ih]

theorem mapM_congr_some {β γ : Type} {g : β → Option γ} {f : β → γ} {l : List β}
    (h : ∀ a ∈ l, g a = some (f a)) : l.mapM g = some (l.map f) := by
  induction l with
  | nil => rfl
  | cons a t ih =>
    simp [List.mapM_cons, h a (by simp), ih (fun b hb => h b (by simp [hb]))]

theorem mapM_none_of_mem {β γ : Type} {g : β → Option γ} {l : List β} {a : β} (ha : a ∈ l) (h : g a = none) :
    l.mapM g = none := by
  induction l with
  | nil => simp at ha
  | cons b t ih =>
    rcases List.mem_cons.mp ha with rfl | hm
    · simp [List.mapM_cons, h]
    · simp only [List.mapM_cons, ih hm]
      cases g b <;> simp

/-- `[G(m, l[m]) for m in idx]` when every index exists -/
theorem mapM_index_some {β γ : Type} (l : List β) (d : β) (G : ℤ → β → γ) (idx : List ℕ)
    (h : ∀ m ∈ idx, m < l.length) :
    (idx.map Int.ofNat).mapM (fun p => (Gen.index l p).bind fun t => some (G p t))
      = some (idx.map fun (m : ℕ) => G (m : ℤ) (l.getD m d)) := by
  have : (idx.map Int.ofNat).mapM (fun p => (Gen.index l p).bind fun t => some (G p t))
      = some ((idx.map Int.ofNat).map fun p => G p (l.getD p.toNat d)) := by
    apply mapM_congr_some
    intro a ha
    obtain ⟨m, hm, rfl⟩ := List.mem_map.mp ha
    have hl := h m hm
    have hneg : ¬ ((m : ℤ) < 0) := by omega
    simp [Gen.index, List.getD, List.getElem?_eq_getElem hl, hneg]
  rw [this, List.map_map]
  congr 1

/-- … and when one does not: IndexError -/
theorem mapM_index_none {β γ : Type} (l : List β) (G : ℤ → β → γ) (idx : List ℕ) (m : ℕ) (hm : m ∈ idx)
    (h : l.length ≤ m) :
    (idx.map Int.ofNat).mapM (fun p => (Gen.index l p).bind fun t => some (G p t)) = none := by
  apply mapM_none_of_mem (a := Int.ofNat m) (List.mem_map.mpr ⟨m, hm, rfl⟩)
  have hneg : ¬ ((m : ℤ) < 0) := by omega
  simp [Gen.index, List.getElem?_eq_none h, hneg]

/-! ### the DTLZ objective shape `Bench.front` as the source writes it: one product per objective -/

theorem front_fold_map (pre post : ℝ) (c s : ℝ → ℝ) (xc : List ℝ) (acc : ℝ) (out : List ℝ) :
    (xc.map fun v => (c v, s v)).foldl (frontStep pre post) (acc, out)
      = (acc * (xc.map c).prod,
          ((List.range xc.length).reverse.map fun m =>
            pre * (acc * ((xc.take m).map c).prod) * s (xc.getD m 0) * post) ++ out) := by
  induction xc generalizing acc out with
  | nil => simp
  | cons a t ih =>
    simp only [List.map_cons, List.foldl_cons, frontStep, List.length_cons]
    rw [ih]
    rw [List.range_succ_eq_map]
    simp only [List.reverse_cons, List.map_append, List.map_cons, List.map_nil, List.append_assoc, List.cons_append,
      List.nil_append, List.prod_cons, List.take_zero, List.prod_nil, List.map_reverse, List.map_map]
    refine Prod.ext (by simp only [real_mul]; ring) ?_
    simp only
    congr 1
    · congr 1
      apply List.map_congr_left
      intro m _
      simp only [Function.comp, List.take_succ_cons, List.map_cons, List.prod_cons, List.getD_cons_succ, real_mul]
      ring
    · simp [real_mul]

theorem front_map_eq (pre post : ℝ) (c s : ℝ → ℝ) (xc : List ℝ) :
    front pre post (xc.map fun v => (c v, s v))
      = (pre * (xc.map c).prod * post) ::
          ((List.range xc.length).reverse.map fun m => pre * ((xc.take m).map c).prod * s (xc.getD m 0) * post) := by
  simp only [front]
  have h := front_fold_map pre post c s xc 1 []
  have e1 : (1 : ℝ) = @OfNat.ofNat ℝ 1 (RealLike.instOfNat 1) := by simp [RealLike.real_lit]
  rw [← e1, h]
  simp [real_mul]

end GenL

namespace GenL

theorem getD_take_of_lt {β : Type} (l : List β) (d : β) {m k : ℕ} (h : m < k) : (l.take k).getD m d = l.getD m d := by
  simp [List.getD, List.getElem?_take, h]
theorem map_range_reverse_congr {γ : Type} (k : ℕ) (F G : ℕ → γ) (h : ∀ m, m < k → F m = G m) :
    (List.range k).reverse.map F = (List.range k).reverse.map G := by
  apply List.map_congr_left
  intro m hm
  exact h m (by simpa using hm)

end GenL

namespace GenL
open RealLike Bench

theorem slice_one_take {β : Type} (l : List β) (b : ℕ) : Gen.slice l (some 1) (some (b : ℤ)) = (l.take b).drop 1 := by
  simpa using slice_take_drop l 1 b

theorem mapM_getElem_some {β γ : Type} (l : List β) (d : β) (G : ℕ → β → γ) (idx : List ℕ)
    (h : ∀ m ∈ idx, m < l.length) :
    idx.mapM (fun m => l[m]?.bind fun t => some (G m t)) = some (idx.map fun m => G m (l.getD m d)) := by
  apply mapM_congr_some
  intro m hm
  have hl := h m hm
  simp [List.getD, List.getElem?_eq_getElem hl]

theorem mapM_getElem_none {β γ : Type} (l : List β) (G : ℕ → β → γ) (idx : List ℕ) (m : ℕ) (hm : m ∈ idx)
    (h : l.length ≤ m) :
    idx.mapM (fun m => l[m]?.bind fun t => some (G m t)) = none := by
  apply mapM_none_of_mem hm
  simp [List.getElem?_eq_none h]

/-- `for m in reversed(range(1, k + 2))`: the objectives `m = k+1 … 2`, then `m = 1` -/
theorem mapM_reverse_range_one {γ : Type} (k : ℕ) (g : ℤ → Option γ) :
    (List.reverse (Gen.range 1 ((k + 2 : ℕ) : ℤ))).mapM g
      = ((List.range k).reverse.mapM fun m => g ((m + 2 : ℕ) : ℤ)).bind fun a => (g 1).bind fun b => some (a ++ [b]) := by
  have : ((k + 2 : ℕ) : ℤ) = ((k + 1 + 1 : ℕ) : ℤ) := rfl
  rw [this, range_one_natCast, List.range_succ_eq_map]
  simp only [List.map_cons, List.map_map, List.reverse_cons, List.mapM_append, ← List.map_reverse, List.mapM_map]
  simp only [Function.comp_def, List.mapM_cons, List.mapM_nil]
  have e0 : (((0 + 1 : ℕ)) : ℤ) = 1 := by norm_num
  have e2 : ∀ x : ℕ, ((x.succ + 1 : ℕ) : ℤ) = ((x + 2 : ℕ) : ℤ) := fun x => rfl
  simp only [e0, e2, Option.bind_eq_bind, Option.pure_def, bind_assoc]
  cases List.mapM (fun m => g ((m + 2 : ℕ) : ℤ)) (List.range k).reverse <;> simp
  cases g 1 <;> simp

theorem natCast_add_two_eq_one (m : ℕ) : (((m + 2 : ℕ) : ℤ) = 1) = False := by
  simp; omega
theorem natCast_add_two_sub_one (m : ℕ) : ((m + 2 : ℕ) : ℤ) - 1 = ((m + 1 : ℕ) : ℤ) := by
  push_cast; ring

theorem front_cons_map (pre post : ℝ) (p0 : ℝ × ℝ) (c s : ℝ → ℝ) (r : List ℝ) :
    front pre post (p0 :: r.map fun v => (c v, s v))
      = (pre * (p0.1 * (r.map c).prod) * post) ::
          (((List.range r.length).reverse.map fun m => pre * (p0.1 * ((r.take m).map c).prod) * s (r.getD m 0) * post)
            ++ [pre * p0.2 * post]) := by
  simp only [front, List.foldl_cons, frontStep]
  rw [front_fold_map]
  simp [real_mul, RealLike.real_lit]

theorem slice_zero_none {β : Type} (l : List β) : Gen.slice l (some 0) none = l := by
  simp [Gen.slice, Gen.bound]
theorem slice_one_zero {β : Type} (l : List β) : Gen.slice l (some 1) (some 0) = [] := by
  simp [Gen.slice, Gen.bound]
theorem range_one_one : Gen.range 1 1 = [] := by simp [Gen.range]

end GenL

namespace GenL

/-- the Python bit list (ints 0/1) of a model bit string -/
def bits (b : List Bool) : List ℤ := b.map fun v => if v then 1 else 0

theorem isum_eq_sum (l : List ℤ) : Gen.isum l = l.sum := by
  have : ∀ (a : ℤ), List.foldl (· + ·) a l = a + l.sum := by
    induction l with
    | nil => simp
    | cons x t ih => intro a; simp only [List.foldl_cons, List.sum_cons]; rw [ih]; ring
  simpa [Gen.isum] using this 0

theorem isum_bits (b : List Bool) : Gen.isum (bits b) = (BenchBin.ones b : ℤ) := by
  rw [isum_eq_sum]
  induction b with
  | nil => simp [bits, BenchBin.ones]
  | cons v t ih =>
    simp only [bits, BenchBin.ones, List.map_cons, List.sum_cons] at ih ⊢
    rw [ih]
    cases v <;> simp [List.count_cons]
    ring

theorem length_bits (b : List Bool) : (bits b).length = b.length := by simp [bits]

end GenL

namespace GenL
open RealLike Bench

/-- `[G(x[j], r) for j, r in enumerate(row)]`: every `x[j]` must exist -/
theorem mapM_enumFrom_index {γ : Type} (x row : List ℝ) (G : ℝ → ℝ → γ) (k : ℕ) :
    (Gen.enumFrom (k : ℤ) row).mapM (fun p => (Gen.index x p.1).bind fun t => some (G t p.2))
      = if (x.drop k).length < row.length then none else some (((x.drop k).zip row).map fun p => G p.1 p.2) := by
  induction row generalizing k with
  | nil => simp [Gen.enumFrom]
  | cons r rs ih =>
    simp only [Gen.enumFrom, List.mapM_cons, index_natCast]
    have hk : ((k : ℤ) + 1) = ((k + 1 : ℕ) : ℤ) := by push_cast; ring
    rw [hk, ih (k + 1)]
    rcases hx : x.drop k with _ | ⟨v, rest⟩
    · have : x.length ≤ k := by simpa using hx
      simp [List.getElem?_eq_none this]
    · have hlt : k < x.length := by
        by_contra h
        have : x.drop k = [] := List.drop_eq_nil_of_le (by omega)
        rw [this] at hx; cases hx
      have hv : x[k]? = some v := by
        have := List.getElem?_drop (xs := x) (i := k) (j := 0)
        rw [hx] at this
        simpa using this.symm
      have hr : x.drop (k + 1) = rest := by
        have : x.drop (k + 1) = (x.drop k).drop 1 := by rw [List.drop_drop]; 
        rw [this, hx]; rfl
      rw [hv, hr]
      by_cases hl : rest.length < rs.length
      · simp [hl]
      · simp [hl]

theorem mapM_enumerate_index {γ : Type} (x row : List ℝ) (G : ℝ → ℝ → γ) :
    (Gen.enumerate row).mapM (fun p => (Gen.index x p.1).bind fun t => some (G t p.2))
      = if x.length < row.length then none else some ((x.zip row).map fun p => G p.1 p.2) := by
  have := mapM_enumFrom_index x row G 0
  simpa [Gen.enumerate] using this

/-- `[F(c[i], a[i]) for i in range(len(c))]` -/
theorem mapM_range_getElem2 {β β' γ : Type} (c : List β) (a : List β') (F : β → β' → Option γ) :
    (List.range c.length).mapM (fun m => c[m]?.bind fun ci => a[m]?.bind fun row => F ci row)
      = if a.length < c.length then none else (c.zip a).mapM fun p => F p.1 p.2 := by
  induction c generalizing a with
  | nil => simp
  | cons ci c' ih =>
    rw [List.length_cons, List.range_succ_eq_map, List.mapM_cons, List.mapM_map]
    simp only [List.getElem?_cons_zero, Option.bind_some, Function.comp_def, Nat.succ_eq_add_one, List.getElem?_cons_succ]
    rcases a with _ | ⟨r, a'⟩
    · simp
    · simp only [List.getElem?_cons_zero, Option.bind_some, List.getElem?_cons_succ, List.length_cons, List.zip_cons_cons,
        List.mapM_cons]
      rw [ih a']
      by_cases hl : a'.length < c'.length
      · have : a'.length + 1 < c'.length + 1 := by omega
        simp only [hl, this, if_true]
        cases F ci r <;> simp
      · have : ¬ (a'.length + 1 < c'.length + 1) := by omega
        simp only [hl, this, if_false]

end GenL


/-! ### round 8: the binary benchmarks (bit lists, stepped ranges, binary numerals, `while`) -/
namespace GenL

/-- the Python int of a model bit -/
def bit (v : Bool) : ℤ := if v then 1 else 0

theorem bits_eq_map (b : List Bool) : bits b = b.map bit := rfl

theorem bit_eq_zero (v : Bool) : (bit v = 0) = (v = false) := by cases v <;> simp [bit]
theorem bit_eq_one (v : Bool) : (bit v = 1) = (v = true) := by cases v <;> simp [bit]

theorem bits_take (b : List Bool) (n : ℕ) : (bits b).take n = bits (b.take n) := by simp [bits]
theorem bits_drop (b : List Bool) (n : ℕ) : (bits b).drop n = bits (b.drop n) := by simp [bits]
theorem bits_append (a b : List Bool) : bits a ++ bits b = bits (a ++ b) := by simp [bits]

theorem index_bits_neg_one (b : List Bool) : Gen.index (bits b) (-1) = b.getLast?.map bit := by
  rcases List.eq_nil_or_concat b with rfl | ⟨t, a, rfl⟩
  · simp [Gen.index, bits]
  · simp [Gen.index, bits, bit]

theorem index_bits_neg_two (b : List Bool) :
    Gen.index (bits b) (-2) = if b.length < 2 then none else some (bit (b.getD (b.length - 2) false)) := by
  by_cases h : b.length < 2
  · simp only [h, if_true, Gen.index, length_bits]
    have : (-2 : ℤ) + (b.length : ℤ) < 0 := by omega
    simp [this]
  · simp only [h, if_false, Gen.index, length_bits]
    have h1 : ¬ ((-2 : ℤ) + (b.length : ℤ) < 0) := by omega
    have h2 : ((-2 : ℤ) + (b.length : ℤ)).toNat = b.length - 2 := by omega
    have h3 : b.length - 2 < b.length := by omega
    simp [h1, h2, bits, bit, h3]

theorem getLast?_eq_getD (b : List Bool) (h : ¬ b.length < 2) : b.getLast? = some (b.getD (b.length - 1) false) := by
  have h3 : b.length - 1 < b.length := by omega
  simp [List.getLast?_eq_getElem?, h3]

theorem slice_bits_gen (b : List Bool) (i w : ℕ) (lo hi : ℤ) (hlo : lo = i) (hhi : hi = i + w) :
    Gen.slice (bits b) (some lo) (some hi) = bits (BenchBin.slice b i w) := by
  subst hlo
  have : hi = ((i + w : ℕ) : ℤ) := by rw [hhi]; push_cast; rfl
  rw [this, slice_take_drop, List.drop_take, BenchBin.slice, bits_drop, bits_take]
  simp

theorem slice_bits_4 (b : List Bool) (i : ℕ) :
    Gen.slice (bits b) (some (i : ℤ)) (some ((i : ℤ) + 4)) = bits (BenchBin.slice b i 4) :=
  slice_bits_gen b i 4 _ _ rfl (by norm_num)

theorem slice_bits_4_8 (b : List Bool) (i : ℕ) :
    Gen.slice (bits b) (some ((i : ℤ) + 4)) (some ((i : ℤ) + 8)) = bits (BenchBin.slice b (i + 4) 4) :=
  slice_bits_gen b (i + 4) 4 _ _ (by push_cast; rfl) (by push_cast; ring)

theorem slice_bits_neg_two (b : List Bool) : Gen.slice (bits b) (some (-2)) none = bits (b.drop (b.length - 2)) := by
  simp only [Gen.slice, Gen.bound, length_bits]
  have : ((-2 : ℤ) + (b.length : ℤ)).toNat = b.length - 2 := by omega
  have h2 : List.take b.length (bits b) = bits b := by rw [← length_bits b, List.take_length]
  simp [this, h2, bits_drop]

theorem rangeStep_natCast (a n c k : ℕ) (hk : 0 < k) :
    Gen.rangeStep (a : ℤ) ((n : ℤ) - (c : ℤ)) k = (BenchBin.rangeStep a (n - c) k).map fun (m : ℕ) => (m : ℤ) := by
  simp only [Gen.rangeStep, BenchBin.rangeStep, List.map_map]
  have hN : (((n : ℤ) - (c : ℤ) - (a : ℤ) + ((k : ℤ) - 1)) / (k : ℤ)).toNat = (n - c - a + k - 1) / k := by
    by_cases h : a + c ≤ n
    · have : (n : ℤ) - (c : ℤ) - (a : ℤ) + ((k : ℤ) - 1) = ((n - c - a + k - 1 : ℕ) : ℤ) := by omega
      rw [this, ← Int.natCast_ediv, Int.toNat_natCast]
    · have h0 : (n - c - a + k - 1) / k = 0 := by
        apply Nat.div_eq_of_lt; omega
      rw [h0]
      have : ((n : ℤ) - (c : ℤ) - (a : ℤ) + ((k : ℤ) - 1)) / (k : ℤ) ≤ 0 := by
        have hlt : (n : ℤ) - (c : ℤ) - (a : ℤ) + ((k : ℤ) - 1) < (k : ℤ) := by omega
        have := Int.ediv_lt_of_lt_mul (by exact_mod_cast hk : (0 : ℤ) < k) (by linarith : (n : ℤ) - (c : ℤ) - (a : ℤ) + ((k : ℤ) - 1) < 1 * (k : ℤ))
        omega
      omega
  rw [hN]
  apply List.map_congr_left
  intro j _
  simp

theorem foldl_add_eq (f : ℤ → ℤ) (l : List ℤ) (a : ℤ) :
    List.foldl (fun acc p => acc + f p) a l = List.foldl (· + ·) a (l.map f) := by
  rw [List.foldl_map]

/-- the inlined `trap` / `inv_trap` on a bit list -/
theorem trap_bits (c : List Bool) :
    (if Gen.isum (bits c) = ((bits c).length : ℤ) then ((bits c).length : ℤ)
      else ((bits c).length : ℤ) - 1 - Gen.isum (bits c)) = BenchBin.trap c := by
  simp only [isum_bits, length_bits, BenchBin.trap, Nat.cast_inj]

theorem invTrap_bits (c : List Bool) :
    (if Gen.isum (bits c) = 0 then ((bits c).length : ℤ) else Gen.isum (bits c) - 1) = BenchBin.invTrap c := by
  simp only [isum_bits, length_bits, BenchBin.invTrap, Nat.cast_eq_zero]

/-- the same, after `isum_bits` / `length_bits` have fired -/
theorem trap_cast (c : List Bool) :
    (if (BenchBin.ones c : ℤ) = (c.length : ℤ) then (c.length : ℤ) else (c.length : ℤ) - 1 - (BenchBin.ones c : ℤ))
      = BenchBin.trap c := by
  simp only [BenchBin.trap, Nat.cast_inj]

theorem invTrap_cast (c : List Bool) :
    (if (BenchBin.ones c : ℤ) = 0 then (c.length : ℤ) else (BenchBin.ones c : ℤ) - 1) = BenchBin.invTrap c := by
  simp only [BenchBin.invTrap, Nat.cast_eq_zero]

end GenL

namespace GenL

theorem fdiv_natCast (a b : ℕ) : Int.fdiv (a : ℤ) (b : ℤ) = ((a / b : ℕ) : ℤ) := by
  rw [Int.fdiv_eq_ediv_of_nonneg _ (by omega)]; simp

theorem ipowInt_natCast (a : ℤ) (n : ℕ) : Gen.ipowInt a (n : ℤ) = some (a ^ n) := by
  simp [Gen.ipowInt]

theorem two_pow_sub_one (n : ℕ) : (2 : ℤ) ^ n - 1 = ((2 ^ n - 1 : ℕ) : ℤ) := by
  have : 1 ≤ 2 ^ n := Nat.one_le_two_pow
  rw [Nat.cast_sub this]; simp

theorem two_pow_sub_one_ne (n : ℕ) (h : n ≠ 0) : ((2 ^ n - 1 : ℕ) : ℤ) ≠ 0 := by
  have : 2 ≤ 2 ^ n := by
    calc 2 = 2 ^ 1 := rfl
      _ ≤ 2 ^ n := Nat.pow_le_pow_right (by norm_num) (by omega)
  omega

theorem binVal_cast (c : List Bool) (a : ℕ) :
    List.foldl (fun (acc : ℤ) (v : Bool) => 2 * acc + if v = true then 1 else 0) (a : ℤ) c
      = ((List.foldl (fun acc bit => 2 * acc + bit.toNat) a c : ℕ) : ℤ) := by
  induction c generalizing a with
  | nil => rfl
  | cons v t ih =>
    simp only [List.foldl_cons]
    have e : (2 * (a : ℤ) + if v = true then 1 else 0) = ((2 * a + v.toNat : ℕ) : ℤ) := by cases v <;> simp
    rw [e]
    exact ih _

theorem binNumeral_bits (c : List Bool) (h : c ≠ []) : Gen.binNumeral (bits c) = some (BenchBin.binVal c : ℤ) := by
  have h1 : (bits c).isEmpty = false := by cases c <;> simp_all [bits]
  have h2 : (bits c).all (fun d => d == 0 || d == 1) = true := by
    rw [List.all_eq_true]; intro x hx
    simp only [bits, List.mem_map] at hx
    obtain ⟨v, _, rfl⟩ := hx
    cases v <;> simp
  simp only [Gen.binNumeral, h1, h2, if_true, Bool.false_eq_true, if_false]
  simp only [BenchBin.binVal, bits, List.foldl_map]
  congr 1
  simpa using binVal_cast c 0

theorem foldlM_nat (f : ℤ → ℤ → Option ℤ) (h : ℕ → ℕ) (l : List ℕ)
    (hf : ∀ i ∈ l, ∀ acc, f acc (i : ℤ) = some (acc + (h i : ℤ))) (a : ℕ) :
    List.foldlM f (a : ℤ) (l.map Int.ofNat) = some (((l.map h).foldl (· + ·) a : ℕ) : ℤ) := by
  induction l generalizing a with
  | nil => rfl
  | cons i t ih =>
    simp only [List.map_cons, List.foldlM_cons, List.foldl_cons]
    have := hf i (by simp) (a : ℤ)
    simp only [Int.ofNat_eq_natCast] at this ⊢
    rw [this]
    simp only [Option.bind_eq_bind, Option.bind_some]
    have e : (a : ℤ) + (h i : ℤ) = ((a + h i : ℕ) : ℤ) := by push_cast; rfl
    rw [e]
    exact ih (fun j hj => hf j (by simp [hj])) _

theorem foldlM_nat0 (f : ℤ → ℤ → Option ℤ) (h : ℕ → ℕ) (l : List ℕ)
    (hf : ∀ i ∈ l, ∀ acc, f acc (i : ℤ) = some (acc + (h i : ℤ))) :
    List.foldlM f 0 (l.map Int.ofNat) = some (((l.map h).foldl (· + ·) 0 : ℕ) : ℤ) := by
  simpa using foldlM_nat f h l hf 0

theorem slice_length (b : List Bool) (i order : ℕ) (hi : i < b.length / order) :
    (BenchBin.slice b (i * order) order).length = order := by
  have ho : 0 < order := by
    rcases Nat.eq_zero_or_pos order with rfl | h
    · simp at hi
    · exact h
  have : (i + 1) * order ≤ b.length := (Nat.le_div_iff_mul_le ho).1 hi
  simp only [BenchBin.slice, List.length_take, List.length_drop]
  have : i * order + order ≤ b.length := by rw [← Nat.succ_mul]; exact this
  omega

end GenL

namespace GenL

theorem rr2_loop (b : List Bool) (order : ℕ) (cond : ℤ × ℤ → Bool) (body : ℤ × ℤ → Option (ℤ × ℤ))
    (hc : ∀ (n t : ℕ), cond ((n : ℤ), (t : ℤ)) = decide (n < order * order))
    (hb : ∀ (n t : ℕ), body ((n : ℤ), (t : ℤ)) =
      (BenchBin.royalRoad1 b n).map fun (v : ℕ) => (((n * 2 : ℕ) : ℤ), ((t + v : ℕ) : ℤ)))
    (fuel : ℕ) : ∀ (fuel' n t : ℕ), (1 ≤ n ∨ order * order ≤ n) → order * order < n + fuel → order * order < n + fuel' →
      (Gen.whileLoop cond body fuel ((n : ℤ), (t : ℤ))).map Prod.snd
        = (BenchBin.royalRoad2Loop b order fuel' n t).map fun (v : ℕ) => (v : ℤ) := by
  induction fuel with
  | zero =>
    intro fuel' n t _ h2 _
    have hlt : ¬ n < order * order := by omega
    cases fuel' <;> simp [Gen.whileLoop, BenchBin.royalRoad2Loop, hc, hlt]
  | succ fuel ih =>
    intro fuel' n t h1 h2 h3
    by_cases hlt : n < order * order
    · obtain ⟨f'', rfl⟩ : ∃ f'', fuel' = f'' + 1 := ⟨fuel' - 1, by omega⟩
      simp only [Gen.whileLoop, BenchBin.royalRoad2Loop, hc, hlt, decide_true, if_true, hb]
      cases hv : BenchBin.royalRoad1 b n with
      | none => rfl
      | some v =>
        simp only [Option.map_some, Option.bind_some]
        exact ih f'' (n * 2) (t + v) (by omega) (by omega) (by omega)
    · cases fuel' <;> simp [Gen.whileLoop, BenchBin.royalRoad2Loop, hc, hlt]

/-- the shape of the regenerated `royal_road2`: any fuel ≥ order² + 1 suffices -/
theorem rr2_main (b : List Bool) (order : ℕ) (cond : ℤ × ℤ → Bool) (body : ℤ × ℤ → Option (ℤ × ℤ)) (fuel : ℕ)
    (hfuel : order * order + 1 ≤ fuel)
    (hc : ∀ (n t : ℕ), cond ((n : ℤ), (t : ℤ)) = decide (n < order * order))
    (hb : ∀ (n t : ℕ), body ((n : ℤ), (t : ℤ)) =
      (BenchBin.royalRoad1 b n).map fun (v : ℕ) => (((n * 2 : ℕ) : ℤ), ((t + v : ℕ) : ℤ))) :
    (Option.bind (Gen.whileLoop cond body fuel ((order : ℤ), (0 : ℤ))) fun w => some [w.2])
      = (BenchBin.royalRoad2 b order).map fun (v : ℕ) => [(v : ℤ)] := by
  have h1 : (1 ≤ order ∨ order * order ≤ order) := by
    rcases Nat.eq_zero_or_pos order with rfl | h
    · right; simp
    · left; exact h
  have := rr2_loop b order cond body hc hb fuel (order * order + 1) order 0 h1 (by omega) (by omega)
  simp only [Nat.cast_zero] at this
  rw [BenchBin.royalRoad2]
  cases hw : Gen.whileLoop cond body fuel ((order : ℤ), (0 : ℤ)) with
  | none => rw [hw] at this; cases hm : BenchBin.royalRoad2Loop b order (order * order + 1) order 0 <;> simp_all
  | some w => rw [hw] at this; cases hm : BenchBin.royalRoad2Loop b order (order * order + 1) order 0 <;> simp_all

end GenL

namespace GenL

theorem listMul_singleton {β : Type} (z : β) (n : ℕ) : Gen.listMul [z] (n : ℤ) = List.replicate n z := by
  simp only [Gen.listMul, Int.toNat_natCast]
  induction n with
  | zero => rfl
  | succ k ih => simp [List.replicate_succ, ih]

theorem setItem_natCast {β : Type} (l : List β) (i : ℕ) (v : β) (h : i < l.length) :
    Gen.setItem l (i : ℤ) v = some (l.set i v) := by
  have : ¬ ((i : ℤ) < 0) := by omega
  simp [Gen.setItem, this, h]

/-- the decoding loop `for i in range(n): dec[i] = g i` on a list of length `n` builds `[g 0, …, g (n-1)]` -/
theorem foldlM_setItem {β : Type} (n : ℕ) (f : List β → ℤ → Option (List β)) (g : ℕ → β) (z : β)
    (hf : ∀ i, i < n → ∀ l : List β, l.length = n → f l (i : ℤ) = some (l.set i (g i))) :
    List.foldlM f (List.replicate n z) ((List.range n).map Int.ofNat) = some ((List.range n).map g) := by
  have key : ∀ k, k ≤ n → List.foldlM f (List.replicate n z) ((List.range k).map Int.ofNat)
      = some ((List.range k).map g ++ List.replicate (n - k) z) := by
    intro k
    induction k with
    | zero => intro _; simp
    | succ k ih =>
      intro hk
      rw [List.range_succ, List.map_append, List.foldlM_append, ih (by omega)]
      simp only [List.map_cons, List.map_nil, List.foldlM_cons, List.foldlM_nil, Option.bind_eq_bind, Option.bind_some,
        Int.ofNat_eq_natCast]
      rw [hf k (by omega) _ (by simp; omega)]
      simp only [Option.bind_some, Option.pure_def, Option.some.injEq]
      have e : n - k = (n - (k + 1)) + 1 := by omega
      rw [e, List.replicate_succ, List.set_append_right _ _ (by simp)]
      simp [List.range_succ]
  simpa using key n (le_refl n)

end GenL

namespace GenL
theorem mapM_guard_some {β γ : Type} (c : β → Prop) [DecidablePred c] (g : β → γ) (l : List β) (r : List γ)
    (h : l.mapM (fun f => if c f then some (g f) else none) = some r) : r = l.map g := by
  induction l generalizing r with
  | nil => simp at h; simp [← h]
  | cons a t ih =>
    rw [List.mapM_cons] at h
    by_cases ha : c a
    · simp only [ha, if_true, Option.pure_def, Option.bind_eq_bind, Option.bind_some] at h
      cases ht : List.mapM (fun f => if c f then some (g f) else none) t with
      | none => rw [ht] at h; simp at h
      | some r' =>
        rw [ht] at h
        simp only [Option.bind_some, Option.some.injEq] at h
        rw [← h, ih r' ht]; rfl
    · simp [ha] at h
end GenL

/-- guards on list lengths, `enumerate` (before the lists are evaluated) -/
macro "gen_guards" : tactic =>
  `(tactic| (
    try (simp only [GenL.nz_length_cons, GenL.nz_length_cons_sub_one, GenL.nz_length_one_sub_one,
      GenL.nz_length_nil_sub_one, GenL.nz_length_nil, GenL.enumerate_eq, List.map_map, Function.comp_def])))

/-- evaluate list accesses / option binds / Python list idioms without touching the arithmetic -/
macro "gen_lists" : tactic =>
  `(tactic| (
    try (simp only [List.getElem?_cons_zero, List.getElem?_cons_succ, List.getElem?_nil, Option.bind_some, Option.bind_none,
      Option.map_some, Option.map_none, List.drop_one, List.tail_cons, List.drop_succ_cons, List.drop_zero,
      GenL.zip_dropLast_tail, GenL.foldl_add_map, List.length_cons, List.length_nil, List.map_map, Function.comp_def,
      List.singleton_append, List.cons_append, List.nil_append, List.map_id', List.map_id_fun', id_eq,
      List.map_nil, List.prod_nil, List.sum_nil, List.take_nil, List.drop_nil, List.zip_nil_left, List.zip_nil_right,
      Nat.add_sub_cancel, Nat.add_one_sub_one, Nat.zero_add])))

/-- rewrite the `RealLike` operations and the translator's prelude at ℝ to Mathlib's -/
macro "gen_bridge" : tactic =>
  `(tactic| (
    try (simp only [RealLike.real_lit, RealLike.real_add, RealLike.real_sub, RealLike.real_mul,
      RealLike.real_div, RealLike.real_neg, RealLike.real_ofNat, RealLike.real_ofRatio, RealLike.real_sqrt,
      RealLike.real_exp, RealLike.real_log, RealLike.real_sin, RealLike.real_cos, RealLike.real_pi,
      RealLike.real_pow, RealLike.real_abs, RealLike.real_lt, RealLike.real_le,
      C20L.real_sum, C20L.real_prod, C20L.real_dec, C20L.real_nat, C20L.real_sq, C20L.real_npow,
      GenL.real_ofInt, GenL.real_idiv, GenL.real_ipow])
    try push_cast
    try (simp only [GenL.rpow_half, add_sub_cancel_right, List.prod_nil, List.sum_nil, mul_one, one_mul])))

/-- closes an equation between two renderings of the same formula: syntactic equality, `ring1`, ring normal forms
(also under binders), else one congruence step (an argument, a list element, a function body) and again.  Descending
before normalising keeps the bound variable of two paired `fun`s the same atom on both sides; `ring_nf` orders atoms by
first appearance, so `π` is made the first atom (the dummy hypothesis) before it meets a bound variable. -/
syntax "gen_arith" : tactic
macro_rules
  | `(tactic| gen_arith) => `(tactic| first
      | rfl
      | ring1
      | (funext _; gen_arith)
      | ((fail_if_no_progress congr 1) <;> gen_arith)
      | (have hpi : Real.pi * 1 = Real.pi := mul_one _
         revert hpi; ring_nf; first | done | (intro _; first | done | trivial | rfl))
      | (ring_nf; done)
      | (ring_nf; (fail_if_no_progress congr 1) <;> gen_arith))

/-- the closing step of the equality theorems: guards, list accesses, bridge to ℝ, `gen_arith` -/
macro "gen_eq" : tactic =>
  `(tactic| (
    gen_guards
    gen_lists
    gen_bridge
    first | done | gen_arith))

/-- DTLZ with fewer variables than position variables: the comprehension meets `xc[k-1]` first (IndexError) and the
model's guard `dtlzOk` is false -/
macro "gen_dtlz_short" x:term:max k:term:max hk:term:max : tactic =>
  `(tactic| (
    have hd : decide (1 ≤ $k + 1 ∧ $k ≤ ($x).length) = false := by simp [$hk:term]
    have hlen : (($x).take $k).length = ($x).length := by simp; omega
    have hm : $k - 1 ∈ (List.range $k).reverse := by simp; omega
    have hh : (($x).take $k).length ≤ $k - 1 := by rw [hlen]; omega
    rw [GenL.mapM_index_none (m := $k - 1) (hm := hm) (h := hh)]
    simp only [hd]
    rfl))

/-- syntactic equality at every scalar (`_eq_model_poly`): after unfolding, the regenerated definition and the model
are the same term -/
macro "gen_poly_rfl" : tactic => `(tactic| rfl)
