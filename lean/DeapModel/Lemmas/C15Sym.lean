import DeapModel.Lemmas.C15Stair
/-!
C15 — coordinate symmetry of the specification: moving the leading coordinate to the end (`rot`) does not
change `hvCells`; hence the slab decomposition also holds along the LAST coordinate, which is the one the
sweep of pyhv / `_hv.c` works on.
-/
namespace Hypervolume
set_option linter.unusedVariables false

/-- move the leading coordinate to the end -/
def rot (p : Pt) : Pt := p.tail ++ [p.headD 0]

/-- move the last coordinate to the front -/
def unrot (p : Pt) : Pt := p.getLastD 0 :: p.dropLast

theorem boxVol_cons (a : ℚ) (ref : List ℚ) (b : ℚ) (p : Pt) :
    boxVol (a :: ref) (b :: p) = (if b < a then a - b else 0) * boxVol ref p := rfl

theorem pmax_cons (a : ℚ) (ref : List ℚ) (b : ℚ) (p : Pt) (c : ℚ) (q : Pt) :
    pmax (a :: ref) (b :: p) (c :: q) = (if b ≤ c then c else b) :: pmax ref p q := rfl

theorem boxVol_snoc (r x : ℚ) : ∀ (ref : List ℚ) (p : Pt), p.length = ref.length →
    boxVol (ref ++ [r]) (p ++ [x]) = boxVol ref p * (if x < r then r - x else 0)
  | [], [], _ => by simp [boxVol]
  | [], _ :: _, h => by simp at h
  | _ :: _, [], h => by simp at h
  | a :: ref, b :: p, h => by
    have ih := boxVol_snoc r x ref p (by simpa using h)
    rw [List.cons_append, List.cons_append, boxVol_cons, boxVol_cons, ih]
    ring

theorem length_pmax : ∀ (ref : List ℚ) (p q : Pt), (pmax ref p q).length = ref.length
  | [], _, _ => rfl
  | _ :: ref, p, q => by simp [pmax, length_pmax ref p.tail q.tail]

theorem pmax_snoc (r x y : ℚ) : ∀ (ref : List ℚ) (p q : Pt), p.length = ref.length → q.length = ref.length →
    pmax (ref ++ [r]) (p ++ [x]) (q ++ [y]) = pmax ref p q ++ [if x ≤ y then y else x]
  | [], [], [], _, _ => by simp [pmax]
  | [], _ :: _, _, h, _ => by simp at h
  | [], [], _ :: _, _, h => by simp at h
  | _ :: _, [], _, h, _ => by simp at h
  | _ :: _, _ :: _, [], _, h => by simp at h
  | a :: ref, b :: p, c :: q, hp, hq => by
    have ih := pmax_snoc r x y ref p q (by simpa using hp) (by simpa using hq)
    rw [List.cons_append, List.cons_append, List.cons_append, pmax_cons, pmax_cons, ih, List.cons_append]

theorem boxVol_rot (r : ℚ) (ref : List ℚ) (p : Pt) (h : p.length = ref.length + 1) :
    boxVol (ref ++ [r]) (rot p) = boxVol (r :: ref) p := by
  match p, h with
  | x :: p', h =>
    show boxVol (ref ++ [r]) (p' ++ [x]) = boxVol (r :: ref) (x :: p')
    rw [boxVol_snoc r x ref p' (by simpa using h), boxVol_cons]
    ring

theorem pmax_rot (r : ℚ) (ref : List ℚ) (p q : Pt) (hp : p.length = ref.length + 1) (hq : q.length = ref.length + 1) :
    pmax (ref ++ [r]) (rot p) (rot q) = rot (pmax (r :: ref) p q) := by
  match p, q, hp, hq with
  | x :: p', y :: q', hp, hq =>
    show pmax (ref ++ [r]) (p' ++ [x]) (q' ++ [y]) = rot (pmax (r :: ref) (x :: p') (y :: q'))
    rw [pmax_cons]
    exact pmax_snoc r x y ref p' q' (by simpa using hp) (by simpa using hq)

theorem hvIE_rot (r : ℚ) (ref : List ℚ) : ∀ (n : ℕ) (S : List Pt), S.length ≤ n →
    (∀ p ∈ S, p.length = ref.length + 1) → hvIE (ref ++ [r]) (S.map rot) = hvIE (r :: ref) S := by
  intro n
  induction n with
  | zero =>
    intro S h _
    have : S = [] := List.length_eq_zero_iff.mp (Nat.le_zero.mp h)
    subst this
    rw [List.map_nil, hvIE_nil, hvIE_nil]
  | succ n ih =>
    intro S h hl
    cases S with
    | nil => rw [List.map_nil, hvIE_nil, hvIE_nil]
    | cons q S =>
      have h' : S.length ≤ n := by simpa using h
      have hq := hl q (by simp)
      have hS : ∀ p ∈ S, p.length = ref.length + 1 := fun p hp => hl p (by simp [hp])
      rw [List.map_cons, hvIE_cons, hvIE_cons, ih S h' hS, boxVol_rot r ref q hq]
      have hmap : (S.map rot).map (fun p => pmax (ref ++ [r]) p (rot q)) = (S.map (fun p => pmax (r :: ref) p q)).map rot := by
        rw [List.map_map, List.map_map]
        apply List.map_congr_left
        intro p hp
        exact pmax_rot r ref p q (hS p hp) hq
      rw [hmap, ih _ (by simpa using h')]
      intro p hp
      obtain ⟨s, _, rfl⟩ := List.mem_map.mp hp
      rw [length_pmax]; simp

/-- **Coordinate symmetry** (rotation): the hypervolume does not depend on which coordinate comes first. -/
theorem hvCells_rot (r : ℚ) (ref : List ℚ) (S : List Pt) (hl : ∀ p ∈ S, p.length = ref.length + 1) :
    hvCells (ref ++ [r]) (S.map rot) = hvCells (r :: ref) S := by
  rw [hvCells_eq_hvIE _ _ _ (le_refl _), hvCells_eq_hvIE _ _ _ (le_refl _)]
  exact hvIE_rot r ref S.length S (le_refl _) hl

theorem rot_unrot (p : Pt) (h : p ≠ []) : rot (unrot p) = p := by
  simp only [rot, unrot, List.tail_cons, List.headD_cons]
  rw [List.getLastD_eq_getLast?, List.getLast?_eq_some_getLast h]
  exact List.dropLast_append_getLast h

theorem length_unrot (p : Pt) (h : p ≠ []) : (unrot p).length = p.length := by
  simp only [unrot, List.length_cons, List.length_dropLast]
  have : 0 < p.length := List.length_pos_of_ne_nil h
  omega

/-- the same statement, seen from the last coordinate -/
theorem hvCells_unrot (r : ℚ) (ref : List ℚ) (S : List Pt) (hl : ∀ p ∈ S, p.length = ref.length + 1) :
    hvCells (ref ++ [r]) S = hvCells (r :: ref) (S.map unrot) := by
  have hne : ∀ p ∈ S, p ≠ [] := fun p hp h => by have := hl p hp; rw [h] at this; simp at this
  have h1 : (S.map unrot).map rot = S := by
    rw [List.map_map]
    conv_rhs => rw [← List.map_id S]
    apply List.map_congr_left
    intro p hp
    exact rot_unrot p (hne p hp)
  conv_lhs => rw [← h1]
  apply hvCells_rot
  intro p hp
  obtain ⟨s, hs, rfl⟩ := List.mem_map.mp hp
  rw [length_unrot s (hne s hs)]; exact hl s hs

/-- **The recursive step along the LAST coordinate** (the one the sweep works on): adding a point whose last
coordinate `z` is the largest adds the slab `(r − z) × ((d−1)-dimensional hypervolume of the projections with
the point − without it)`. -/
theorem hvCells_add_top_slab_last (r : ℚ) (ref : List ℚ) (P : List Pt) (p : Pt)
    (hl : ∀ s ∈ p :: P, s.length = ref.length + 1)
    (hz : ∀ s ∈ P, s.getLastD 0 ≤ p.getLastD 0) (hr : p.getLastD 0 ≤ r) :
    hvCells (ref ++ [r]) (p :: P) = hvCells (ref ++ [r]) P
      + (r - p.getLastD 0) * (hvCells ref ((p :: P).map List.dropLast) - hvCells ref (P.map List.dropLast)) := by
  rw [hvCells_unrot r ref (p :: P) hl, hvCells_unrot r ref P (fun s hs => hl s (by simp [hs])), List.map_cons]
  have := hvCells_add_top_slab r ref (P.map unrot) (unrot p)
    (by intro s hs; obtain ⟨t, ht, rfl⟩ := List.mem_map.mp hs; exact hz t ht) hr
  rw [this]
  simp only [List.map_cons, List.map_map]
  rfl

end Hypervolume
