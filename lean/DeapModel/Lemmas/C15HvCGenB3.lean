import DeapModel.Lemmas.C15HvCGenB1
/-!
C15 — the general case of `hv_recursive` in `_hv.c`, second phase: what `reinsert` (l.672-684) and `reinsert_dom`
(l.687-700) do to a state whose pointers are those left by the deletion (`delStep`) of the same node: the pointers are
those before the deletion; frames for the other fields.
-/
namespace HvC
set_option linter.unusedVariables false
open Hypervolume
open HvSweep (GCtx Hj RL preSet pos ARv VOLv ids Shaped Shape DL Seg Link DimEq NodeFacts)

/-! ### the dimensions `2 .. dim-1` -/

theorem gB3_mem_dimRange (dim i : ℕ) : i ∈ dimRange dim ↔ 2 ≤ i ∧ i < dim := by
  unfold dimRange stopDimension
  simp only [List.mem_map, List.mem_range]
  constructor
  · rintro ⟨a, ha, rfl⟩; omega
  · rintro ⟨h1, h2⟩; exact ⟨i - 2, by omega, by omega⟩

theorem gB3_nodup_dimRange (dim : ℕ) : (dimRange dim).Nodup := by
  unfold dimRange
  exact List.Nodup.map (fun a b h => by simpa using h) List.nodup_range

/-! ### the bodies of the four loops -/

/-- the body of the loop of `delete` -/
def gB3_dStep (C : Cargo) (x : ℕ) (S : St) (i : ℕ) : St :=
  lowerBound C (setPv (setNx S i (pv S i x) (nx S i x)) i (nx (setNx S i (pv S i x) (nx S i x)) i x)
    (pv (setNx S i (pv S i x) (nx S i x)) i x)) x i
/-- the body of the loop of `delete_dom` -/
def gB3_ddStep (x : ℕ) (S : St) (i : ℕ) : St :=
  setPv (setNx S i (pv S i x) (nx S i x)) i (nx (setNx S i (pv S i x) (nx S i x)) i x)
    (pv (setNx S i (pv S i x) (nx S i x)) i x)
/-- the body of the loop of `reinsert` -/
def gB3_rStep (C : Cargo) (x : ℕ) (S : St) (i : ℕ) : St :=
  lowerBound C (setPv (setNx S i (pv S i x) x) i (nx (setNx S i (pv S i x) x) i x) x) x i
/-- the two pointer assignments of `reinsert` / `reinsert_dom` -/
def gB3_rl (x : ℕ) (S : St) (i : ℕ) : St :=
  setPv (setNx S i (pv S i x) x) i (nx (setNx S i (pv S i x) x) i x) x
/-- the body of the loop of `reinsert_dom` -/
def gB3_rdStep (C : Cargo) (x : ℕ) (S : St) (i : ℕ) : St :=
  setVl (setAr (gB3_rl x S i) x i (ar (gB3_rl x S i) (pv S i x) i)) x i
    (vl (setAr (gB3_rl x S i) x i (ar (gB3_rl x S i) (pv S i x) i)) (pv S i x) i +
      ar (setAr (gB3_rl x S i) x i (ar (gB3_rl x S i) (pv S i x) i)) (pv S i x) i * (cg C x i - cg C (pv S i x) i))

theorem gB3_delete_eq (C : Cargo) (S : St) (x dim : ℕ) : delete C S x dim = (dimRange dim).foldl (gB3_dStep C x) S := rfl
theorem gB3_deleteDom_eq (S : St) (x dim : ℕ) : deleteDom S x dim = (dimRange dim).foldl (gB3_ddStep x) S := rfl
theorem gB3_reinsert_eq (C : Cargo) (S : St) (x dim : ℕ) :
    reinsert C S x dim = (dimRange dim).foldl (gB3_rStep C x) S := rfl
theorem gB3_reinsertDom_eq (C : Cargo) (S : St) (x dim : ℕ) :
    reinsertDom C S x dim = (dimRange dim).foldl (gB3_rdStep C x) S := rfl

theorem gB3_toSw_lowerBound (C : Cargo) (S : St) (x i : ℕ) : toSw (lowerBound C S x i) = toSw S := by
  unfold lowerBound; split <;> rfl

theorem gB3_toSw_ddStep {x : ℕ} {S : St} {i : ℕ} (h : pv S i x ≠ x) :
    toSw (gB3_ddStep x S i) = HvSweep.unlink (toSw S) i x := by
  unfold gB3_ddStep
  rw [nx_setNx_ne _ _ _ _ _ _ (Or.inr (Ne.symm h)), pv_setNx]
  rfl

theorem gB3_toSw_dStep (C : Cargo) {x : ℕ} {S : St} {i : ℕ} (h : pv S i x ≠ x) :
    toSw (gB3_dStep C x S i) = HvSweep.unlink (toSw S) i x := by
  unfold gB3_dStep
  rw [gB3_toSw_lowerBound]
  exact gB3_toSw_ddStep h

theorem gB3_toSw_rl (x : ℕ) (S : St) (i : ℕ) : toSw (gB3_rl x S i) = HvSweep.relink (toSw S) i x := rfl

theorem gB3_toSw_rStep (C : Cargo) (x : ℕ) (S : St) (i : ℕ) :
    toSw (gB3_rStep C x S i) = HvSweep.relink (toSw S) i x := by
  unfold gB3_rStep
  rw [gB3_toSw_lowerBound]
  rfl

theorem gB3_toSw_rdStep (C : Cargo) (x : ℕ) (S : St) (i : ℕ) :
    toSw (gB3_rdStep C x S i) = HvSweep.relink (toSw S) i x := rfl

/-! ### generic folds -/

/-- a loop body that unlinks `x` in the dimension of the iteration -/
structure gB3_UStep (d n x : ℕ) (f : St → ℕ → St) : Prop where
  self : ∀ S i, pv S i x ≠ x → toSw (f S i) = HvSweep.unlink (toSw S) i x
  other : ∀ S i j, j ≠ i → DimEq j (toSw S) (toSw (f S i))
  shape : ∀ S i, ShapeC d n S → ShapeC d n (f S i)

/-- a loop body that relinks `x` in the dimension of the iteration -/
structure gB3_RStep (d n x : ℕ) (f : St → ℕ → St) : Prop where
  self : ∀ S i, toSw (f S i) = HvSweep.relink (toSw S) i x
  other : ∀ S i j, j ≠ i → DimEq j (toSw S) (toSw (f S i))
  shape : ∀ S i, ShapeC d n S → ShapeC d n (f S i)

theorem gB3_ddStep_other (x : ℕ) (S : St) (i j : ℕ) (hj : j ≠ i) : DimEq j (toSw S) (toSw (gB3_ddStep x S i)) := by
  intro a
  have e1 : nx (gB3_ddStep x S i) j a = nx S j a := by
    unfold gB3_ddStep
    rw [nx_setPv, nx_setNx_ne _ _ _ _ _ _ (Or.inl hj)]
  have e2 : pv (gB3_ddStep x S i) j a = pv S j a := by
    unfold gB3_ddStep
    rw [pv_setPv_ne _ _ _ _ _ _ (Or.inl hj), pv_setNx]
  exact ⟨e1, e2⟩

theorem gB3_uStep_dd (d n x : ℕ) : gB3_UStep d n x (gB3_ddStep x) :=
  ⟨fun S i h => gB3_toSw_ddStep h, fun S i j hj => gB3_ddStep_other x S i j hj,
    fun S i h => shapeC_setPv (shapeC_setNx h _ _ _) _ _ _⟩

theorem gB3_uStep_d (C : Cargo) (d n x : ℕ) : gB3_UStep d n x (gB3_dStep C x) := by
  refine ⟨fun S i h => gB3_toSw_dStep C h, fun S i j hj => ?_, fun S i h => ?_⟩
  · have : toSw (gB3_dStep C x S i) = toSw (gB3_ddStep x S i) := by
      unfold gB3_dStep; rw [gB3_toSw_lowerBound]; rfl
    rw [this]; exact gB3_ddStep_other x S i j hj
  · have : toSw (gB3_dStep C x S i) = toSw (gB3_ddStep x S i) := by
      unfold gB3_dStep; rw [gB3_toSw_lowerBound]; rfl
    unfold ShapeC
    rw [this]
    exact shapeC_setPv (shapeC_setNx h _ _ _) _ _ _

theorem gB3_rStep_r (C : Cargo) (d n x : ℕ) : gB3_RStep d n x (gB3_rStep C x) := by
  refine ⟨gB3_toSw_rStep C x, fun S i j hj => ?_, fun S i h => ?_⟩
  · rw [gB3_toSw_rStep]; exact HvSweep.relink_other (toSw S) i x j hj
  · unfold ShapeC; rw [gB3_toSw_rStep]; exact HvSweep.shape_relink h i x

theorem gB3_rStep_rd (C : Cargo) (d n x : ℕ) : gB3_RStep d n x (gB3_rdStep C x) := by
  refine ⟨gB3_toSw_rdStep C x, fun S i j hj => ?_, fun S i h => ?_⟩
  · rw [gB3_toSw_rdStep]; exact HvSweep.relink_other (toSw S) i x j hj
  · unfold ShapeC; rw [gB3_toSw_rdStep]; exact HvSweep.shape_relink h i x

theorem gB3_fold_other (f : St → ℕ → St) (ho : ∀ S i j, j ≠ i → DimEq j (toSw S) (toSw (f S i))) :
    ∀ (ds : List ℕ) (S : St) (j : ℕ), j ∉ ds → DimEq j (toSw S) (toSw (ds.foldl f S))
  | [], S, j, _ => DimEq.refl _ _
  | i :: ds, S, j, h => by
    rw [List.foldl_cons]
    exact (ho S i j (fun e => h (by simp [e]))).trans
      (gB3_fold_other f ho ds (f S i) j (fun hm => h (List.mem_cons_of_mem _ hm)))

theorem gB3_fold_shape {d n : ℕ} (f : St → ℕ → St) (hs : ∀ S i, ShapeC d n S → ShapeC d n (f S i)) :
    ∀ (ds : List ℕ) (S : St), ShapeC d n S → ShapeC d n (ds.foldl f S)
  | [], S, h => h
  | i :: ds, S, h => by
    rw [List.foldl_cons]
    exact gB3_fold_shape f hs ds (f S i) (hs S i h)

theorem gB3_unlink_congr {d n : ℕ} {S0 U : HvSweep.St} (h0 : Shape d n S0) (hU : Shape d n U) {i x : ℕ} (hi : i < d)
    (nf : NodeFacts n S0 i x) (h : DimEq i S0 U) : DimEq i (HvSweep.unlink S0 i x) (HvSweep.unlink U i x) := by
  have hp : HvSweep.pv U i x = HvSweep.pv S0 i x := (h x).2
  have hn : HvSweep.nx U i x = HvSweep.nx S0 i x := (h x).1
  intro a
  refine ⟨?_, ?_⟩
  · rw [HvSweep.nx_unlink hU hi (by rw [hp]; exact nf.pv_le), HvSweep.nx_unlink h0 hi nf.pv_le, hp, hn, (h a).1]
  · rw [HvSweep.pv_unlink hU hi (by rw [hn]; exact nf.nx_le), HvSweep.pv_unlink h0 hi nf.nx_le, hp, hn, (h a).2]

/-- the deletion fold: in a dimension of the loop, the pointers are those of `unlink` -/
theorem gB3_fold_unlink {d n x : ℕ} {f : St → ℕ → St} (hf : gB3_UStep d n x f) {S0 : HvSweep.St} (h0 : Shape d n S0) :
    ∀ (ds : List ℕ) (U : St), ds.Nodup → (∀ i ∈ ds, i < d) → ShapeC d n U → ∀ i ∈ ds, NodeFacts n S0 i x →
      DimEq i S0 (toSw U) → DimEq i (HvSweep.unlink S0 i x) (toSw (ds.foldl f U))
  | [], U, _, _, _, i, hi, _, _ => absurd hi List.not_mem_nil
  | j :: ds, U, hnd, hlt, hU, i, hi, nf, h => by
    rw [List.foldl_cons]
    have hnd' := List.nodup_cons.mp hnd
    by_cases hij : i = j
    · subst hij
      have hp : pv U i x ≠ x := by
        have : pv U i x = HvSweep.pv S0 i x := (h x).2
        rw [this]; exact nf.pv_ne
      have h1 : DimEq i (HvSweep.unlink S0 i x) (toSw (f U i)) := by
        rw [hf.self U i hp]
        exact gB3_unlink_congr h0 hU (hlt i (by simp)) nf h
      exact h1.trans (gB3_fold_other f hf.other ds (f U i) i hnd'.1)
    · have him : i ∈ ds := by
        rcases List.mem_cons.mp hi with e | e
        · exact absurd e hij
        · exact e
      exact gB3_fold_unlink hf h0 ds (f U j) hnd'.2 (fun k hk => hlt k (List.mem_cons_of_mem _ hk)) (hf.shape U j hU)
        i him nf (h.trans (hf.other U j i hij))

/-- the reinsertion fold: in a dimension of the loop, `relink` undoes `unlink` -/
theorem gB3_fold_relink {d n x : ℕ} {f : St → ℕ → St} (hf : gB3_RStep d n x f) {S0 : HvSweep.St} (h0 : Shape d n S0) :
    ∀ (ds : List ℕ) (T : St), ds.Nodup → (∀ i ∈ ds, i < d) → ShapeC d n T → ∀ i ∈ ds, NodeFacts n S0 i x →
      DimEq i (HvSweep.unlink S0 i x) (toSw T) → DimEq i S0 (toSw (ds.foldl f T))
  | [], T, _, _, _, i, hi, _, _ => absurd hi List.not_mem_nil
  | j :: ds, T, hnd, hlt, hT, i, hi, nf, h => by
    rw [List.foldl_cons]
    have hnd' := List.nodup_cons.mp hnd
    by_cases hij : i = j
    · subst hij
      have h1 : DimEq i S0 (toSw (f T i)) := by
        rw [hf.self T i]
        exact HvSweep.relink_unlink h0 hT (hlt i (by simp)) nf h
      exact h1.trans (gB3_fold_other f hf.other ds (f T i) i hnd'.1)
    · have him : i ∈ ds := by
        rcases List.mem_cons.mp hi with e | e
        · exact absurd e hij
        · exact e
      exact gB3_fold_relink hf h0 ds (f T j) hnd'.2 (fun k hk => hlt k (List.mem_cons_of_mem _ hk)) (hf.shape T j hT)
        i him nf (h.trans (hf.other T j i hij))

/-- the pointers after `delStep` -/
theorem gB3_delStep_ptr {d n : ℕ} (C : Cargo) (x dim : ℕ) (U : St) (hU : ShapeC d n U) (hdim : dim ≤ d)
    (hnf : ∀ i, 2 ≤ i → i < dim → NodeFacts n (toSw U) i x) :
    (∀ i, 2 ≤ i → i < dim → DimEq i (HvSweep.unlink (toSw U) i x) (toSw (delStep C dim U x))) ∧
      (∀ i, (i < 2 ∨ dim ≤ i) → DimEq i (toSw U) (toSw (delStep C dim U x))) := by
  have hlt : ∀ i ∈ dimRange dim, i < d := fun i hi => by
    have := (gB3_mem_dimRange dim i).mp hi; omega
  have hnot : ∀ i, (i < 2 ∨ dim ≤ i) → i ∉ dimRange dim := fun i hi hm => by
    have := (gB3_mem_dimRange dim i).mp hm; omega
  unfold delStep
  split
  · rw [gB3_deleteDom_eq]
    refine ⟨fun i h2 hid => ?_, fun i hi => ?_⟩
    · exact gB3_fold_unlink (gB3_uStep_dd d n x) hU (dimRange dim) U (gB3_nodup_dimRange dim) hlt hU i
        ((gB3_mem_dimRange dim i).mpr ⟨h2, hid⟩) (hnf i h2 hid) (DimEq.refl _ _)
    · exact gB3_fold_other _ (gB3_uStep_dd d n x).other (dimRange dim) U i (hnot i hi)
  · rw [gB3_delete_eq]
    refine ⟨fun i h2 hid => ?_, fun i hi => ?_⟩
    · exact gB3_fold_unlink (gB3_uStep_d C d n x) hU (dimRange dim) U (gB3_nodup_dimRange dim) hlt hU i
        ((gB3_mem_dimRange dim i).mpr ⟨h2, hid⟩) (hnf i h2 hid) (DimEq.refl _ _)
    · exact gB3_fold_other _ (gB3_uStep_d C d n x).other (dimRange dim) U i (hnot i hi)

/-- a relinking loop over `2 .. dim-1` undoes `delStep` on the pointers -/
theorem gB3_undo {d n : ℕ} (C : Cargo) (x dim : ℕ) (U T : St) (hU : ShapeC d n U) (hT : ShapeC d n T) (hdim : dim ≤ d)
    (hnf : ∀ i, 2 ≤ i → i < dim → NodeFacts n (toSw U) i x)
    (hpe : PtrEqC (delStep C dim U x) T) {f : St → ℕ → St} (hf : gB3_RStep d n x f) :
    PtrEqC U ((dimRange dim).foldl f T) ∧ ShapeC d n ((dimRange dim).foldl f T) := by
  obtain ⟨p1, p2⟩ := gB3_delStep_ptr C x dim U hU hdim hnf
  have hlt : ∀ i ∈ dimRange dim, i < d := fun i hi => by
    have := (gB3_mem_dimRange dim i).mp hi; omega
  refine ⟨?_, gB3_fold_shape f hf.shape _ T hT⟩
  intro i
  have hpi : DimEq i (toSw (delStep C dim U x)) (toSw T) := fun a => hpe i a
  by_cases hi : 2 ≤ i ∧ i < dim
  · exact gB3_fold_relink hf hU (dimRange dim) T (gB3_nodup_dimRange dim) hlt hT i
      ((gB3_mem_dimRange dim i).mpr hi) (hnf i hi.1 hi.2) ((p1 i hi.1 hi.2).trans hpi)
  · have hi' : i < 2 ∨ dim ≤ i := by omega
    have hm : i ∉ dimRange dim := fun hm => hi ((gB3_mem_dimRange dim i).mp hm)
    exact ((p2 i hi').trans hpi).trans (gB3_fold_other f hf.other (dimRange dim) T i hm)

/-- the node keeps its own `prev` pointer through `delStep` -/
theorem gB3_pv_self {d n : ℕ} (C : Cargo) (x dim : ℕ) (U T : St) (hU : ShapeC d n U) (hdim : dim ≤ d)
    (hnf : ∀ i, 2 ≤ i → i < dim → NodeFacts n (toSw U) i x)
    (hpe : PtrEqC (delStep C dim U x) T) (i : ℕ) (h2 : 2 ≤ i) (hid : i < dim) : pv T i x = pv U i x := by
  obtain ⟨p1, _⟩ := gB3_delStep_ptr C x dim U hU hdim hnf
  have nf := hnf i h2 hid
  have e1 : pv T i x = pv (delStep C dim U x) i x := (hpe i x).2
  have e2 : pv (delStep C dim U x) i x = HvSweep.pv (HvSweep.unlink (toSw U) i x) i x := (p1 i h2 hid x).2
  rw [e1, e2, HvSweep.pv_unlink hU (by omega) nf.nx_le, if_neg (Ne.symm nf.nx_ne)]
  rfl

/-! ### the other fields: `reinsert` -/

theorem gB3_lowerBound_frame (C : Cargo) (S : St) (x i : ℕ) :
    (lowerBound C S x i).ignore = S.ignore ∧ (lowerBound C S x i).area = S.area ∧ (lowerBound C S x i).vol = S.vol ∧
    (lowerBound C S x i).domr = S.domr ∧ (lowerBound C S x i).tree = S.tree ∧ (lowerBound C S x i).calls = S.calls ∧
    (lowerBound C S x i).bound.length = S.bound.length ∧
    (∀ j, j ≠ i → (lowerBound C S x i).bound.getD j none = S.bound.getD j none) ∧
    (∀ b', (lowerBound C S x i).bound.getD i none = some b' →
      ∃ b, S.bound.getD i none = some b ∧ b' ≤ b ∧ b' ≤ cg C x i) := by
  unfold lowerBound
  cases hb : S.bound.getD i none with
  | none =>
    have hbg : boundGt S i (cg C x i) = false := by unfold boundGt; rw [hb]
    rw [hbg, if_neg Bool.false_ne_true]
    exact ⟨rfl, rfl, rfl, rfl, rfl, rfl, rfl, fun _ _ => rfl, fun b' h => by rw [hb] at h; cases h⟩
  | some b =>
    by_cases hlt : cg C x i < b
    · have hbg : boundGt S i (cg C x i) = true := by unfold boundGt; rw [hb]; simpa using hlt
      rw [hbg, if_pos rfl]
      refine ⟨rfl, rfl, rfl, rfl, rfl, rfl, ?_, fun j hj => ?_, fun b' h => ?_⟩
      · show (S.bound.set i _).length = _
        exact List.length_set
      · exact gB_bound_setBound_ne S i j _ hj
      · have hi := HvSweep.getD_some_lt S.bound i b hb
        rw [gB_bound_setBound_self S i _ hi] at h
        cases h
        exact ⟨b, rfl, le_of_lt hlt, le_refl _⟩
    · have hbg : boundGt S i (cg C x i) = false := by unfold boundGt; rw [hb]; simpa using hlt
      rw [hbg, if_neg Bool.false_ne_true]
      refine ⟨rfl, rfl, rfl, rfl, rfl, rfl, rfl, fun _ _ => rfl, fun b' h => ?_⟩
      rw [hb] at h
      cases h
      exact ⟨b, rfl, le_refl _, not_lt.mp hlt⟩

theorem gB3_rStep_frame (C : Cargo) (x : ℕ) (S : St) (i : ℕ) :
    (gB3_rStep C x S i).ignore = S.ignore ∧ (gB3_rStep C x S i).area = S.area ∧ (gB3_rStep C x S i).vol = S.vol ∧
    (gB3_rStep C x S i).domr = S.domr ∧ (gB3_rStep C x S i).tree = S.tree ∧ (gB3_rStep C x S i).calls = S.calls ∧
    (gB3_rStep C x S i).bound.length = S.bound.length ∧
    (∀ j, j ≠ i → (gB3_rStep C x S i).bound.getD j none = S.bound.getD j none) ∧
    (∀ b', (gB3_rStep C x S i).bound.getD i none = some b' →
      ∃ b, S.bound.getD i none = some b ∧ b' ≤ b ∧ b' ≤ cg C x i) :=
  gB3_lowerBound_frame C (gB3_rl x S i) x i

theorem gB3_rfold_frame (C : Cargo) (x : ℕ) : ∀ (ds : List ℕ) (T : St), ds.Nodup →
    (ds.foldl (gB3_rStep C x) T).ignore = T.ignore ∧ (ds.foldl (gB3_rStep C x) T).area = T.area ∧
    (ds.foldl (gB3_rStep C x) T).vol = T.vol ∧ (ds.foldl (gB3_rStep C x) T).domr = T.domr ∧
    (ds.foldl (gB3_rStep C x) T).tree = T.tree ∧ (ds.foldl (gB3_rStep C x) T).calls = T.calls ∧
    (ds.foldl (gB3_rStep C x) T).bound.length = T.bound.length ∧
    (∀ j, j ∉ ds → (ds.foldl (gB3_rStep C x) T).bound.getD j none = T.bound.getD j none) ∧
    (∀ j ∈ ds, ∀ b', (ds.foldl (gB3_rStep C x) T).bound.getD j none = some b' →
      ∃ b, T.bound.getD j none = some b ∧ b' ≤ b ∧ b' ≤ cg C x j)
  | [], T, _ => ⟨rfl, rfl, rfl, rfl, rfl, rfl, rfl, fun _ _ => rfl, fun j hj => absurd hj List.not_mem_nil⟩
  | i :: ds, T, hnd => by
    have hnd' := List.nodup_cons.mp hnd
    obtain ⟨a1, a2, a3, a4, a5, a6, a7, a8, a9⟩ := gB3_rStep_frame C x T i
    obtain ⟨b1, b2, b3, b4, b5, b6, b7, b8, b9⟩ := gB3_rfold_frame C x ds (gB3_rStep C x T i) hnd'.2
    rw [List.foldl_cons]
    refine ⟨b1.trans a1, b2.trans a2, b3.trans a3, b4.trans a4, b5.trans a5, b6.trans a6, b7.trans a7, ?_, ?_⟩
    · intro j hj
      rw [b8 j (fun hm => hj (List.mem_cons_of_mem _ hm))]
      exact a8 j (fun e => hj (by simp [e]))
    · intro j hj b' hb'
      by_cases hji : j = i
      · subst hji
        rw [b8 j hnd'.1] at hb'
        exact a9 b' hb'
      · have hjm : j ∈ ds := by
          rcases List.mem_cons.mp hj with e | e
          · exact absurd e hji
          · exact e
        obtain ⟨b, h1, h2, h3⟩ := b9 j hjm b' hb'
        rw [a8 j hji] at h1
        exact ⟨b, h1, h2, h3⟩

/-- **`reinsert` undoes `delStep`** on the pointers (whatever happened to the other fields in between); it writes
nothing but the pointers and the bounds `2 .. dim-1`, which drop to at most the coordinates of the node -/
theorem reinsert_spec {d n : ℕ} (C : Cargo) (x dim : ℕ) (U T : St) (hU : ShapeC d n U) (hT : ShapeC d n T) (hdim : dim ≤ d)
    (hnf : ∀ i, 2 ≤ i → i < dim → NodeFacts n (toSw U) i x)
    (hpe : PtrEqC (delStep C dim U x) T) :
    PtrEqC U (reinsert C T x dim) ∧ ShapeC d n (reinsert C T x dim) ∧
      (reinsert C T x dim).ignore = T.ignore ∧ (reinsert C T x dim).area = T.area ∧ (reinsert C T x dim).vol = T.vol ∧
      (reinsert C T x dim).domr = T.domr ∧ (reinsert C T x dim).tree = T.tree ∧ (reinsert C T x dim).calls = T.calls ∧
      (reinsert C T x dim).bound.length = T.bound.length ∧
      (∀ i, (i < 2 ∨ dim ≤ i) → (reinsert C T x dim).bound.getD i none = T.bound.getD i none) ∧
      (∀ i, 2 ≤ i → i < dim → ∀ b', (reinsert C T x dim).bound.getD i none = some b' →
        ∃ b, T.bound.getD i none = some b ∧ b' ≤ b ∧ b' ≤ cg C x i) := by
  obtain ⟨p1, p2⟩ := gB3_undo C x dim U T hU hT hdim hnf hpe (gB3_rStep_r C d n x)
  obtain ⟨b1, b2, b3, b4, b5, b6, b7, b8, b9⟩ := gB3_rfold_frame C x (dimRange dim) T (gB3_nodup_dimRange dim)
  rw [gB3_reinsert_eq]
  refine ⟨p1, p2, b1, b2, b3, b4, b5, b6, b7, ?_, ?_⟩
  · intro i hi
    exact b8 i (fun hm => by have := (gB3_mem_dimRange dim i).mp hm; omega)
  · intro i h2 hid
    exact b9 i ((gB3_mem_dimRange dim i).mpr ⟨h2, hid⟩)

/-! ### the other fields: `reinsert_dom` -/

theorem gB3_tsh_rl {d n : ℕ} {S : St} (h : TSh d n S) (x i : ℕ) : TSh d n (gB3_rl x S i) :=
  ⟨h.area, h.vol, h.ign, h.domr, h.bound⟩

theorem gB3_rdStep_frame {d n : ℕ} (C : Cargo) (x : ℕ) (S : St) (i : ℕ) (hS : TSh d n S) :
    (gB3_rdStep C x S i).ignore = S.ignore ∧ (gB3_rdStep C x S i).bound = S.bound ∧
    (gB3_rdStep C x S i).domr = S.domr ∧ (gB3_rdStep C x S i).tree = S.tree ∧ (gB3_rdStep C x S i).calls = S.calls ∧
    TSh d n (gB3_rdStep C x S i) ∧
    (∀ a j, (a ≠ x ∨ j ≠ i) → ar (gB3_rdStep C x S i) a j = ar S a j ∧ vl (gB3_rdStep C x S i) a j = vl S a j) := by
  refine ⟨rfl, rfl, rfl, rfl, rfl, gB_tsh_setVl (gB_tsh_setAr (gB3_tsh_rl hS x i) _ _ _) _ _ _, ?_⟩
  intro a j h
  refine ⟨?_, ?_⟩
  · have e1 : ar (gB3_rdStep C x S i) a j =
        ar (setAr (gB3_rl x S i) x i (ar (gB3_rl x S i) (pv S i x) i)) a j := rfl
    rw [e1, gB_ar_setAr_ne _ x i a j _ h]
    rfl
  · unfold gB3_rdStep
    rw [gB_vl_setVl_ne _ x i a j _ h]
    rfl

theorem gB3_rdStep_self {d n : ℕ} (C : Cargo) (x : ℕ) (S : St) (i : ℕ) (hS : TSh d n S) (hx : x ≤ n) (hi : i < d)
    (hp : pv S i x ≠ x) :
    ar (gB3_rdStep C x S i) x i = ar S (pv S i x) i ∧
    vl (gB3_rdStep C x S i) x i = vl S (pv S i x) i + ar S (pv S i x) i * (cg C x i - cg C (pv S i x) i) := by
  have hrl := gB3_tsh_rl hS x i
  refine ⟨?_, ?_⟩
  · have e1 : ar (gB3_rdStep C x S i) x i =
        ar (setAr (gB3_rl x S i) x i (ar (gB3_rl x S i) (pv S i x) i)) x i := rfl
    rw [e1, gB_ar_setAr_self hrl.area hx hi]
    rfl
  · unfold gB3_rdStep
    rw [gB_vl_setVl_self (gB_tsh_setAr hrl x i _).vol hx hi, gB_ar_setAr_ne _ x i (pv S i x) i _ (Or.inl hp)]
    rfl

theorem gB3_rdStep_pv_other (C : Cargo) (x : ℕ) (S : St) (i j a : ℕ) (hj : j ≠ i) :
    pv (gB3_rdStep C x S i) j a = pv S j a := by
  have := (HvSweep.relink_other (toSw S) i x j hj a).2
  rw [← gB3_toSw_rdStep C x S i] at this
  exact this

theorem gB3_rdfold_frame {d n : ℕ} (C : Cargo) (x : ℕ) (hx : x ≤ n) : ∀ (ds : List ℕ) (T : St), ds.Nodup →
    (∀ i ∈ ds, i < d) → TSh d n T →
    (ds.foldl (gB3_rdStep C x) T).ignore = T.ignore ∧ (ds.foldl (gB3_rdStep C x) T).bound = T.bound ∧
    (ds.foldl (gB3_rdStep C x) T).domr = T.domr ∧ (ds.foldl (gB3_rdStep C x) T).tree = T.tree ∧
    (ds.foldl (gB3_rdStep C x) T).calls = T.calls ∧ TSh d n (ds.foldl (gB3_rdStep C x) T) ∧
    (∀ a j, (a ≠ x ∨ j ∉ ds) →
      ar (ds.foldl (gB3_rdStep C x) T) a j = ar T a j ∧ vl (ds.foldl (gB3_rdStep C x) T) a j = vl T a j) ∧
    (∀ j ∈ ds, pv T j x ≠ x →
      ar (ds.foldl (gB3_rdStep C x) T) x j = ar T (pv T j x) j ∧
      vl (ds.foldl (gB3_rdStep C x) T) x j = vl T (pv T j x) j + ar T (pv T j x) j * (cg C x j - cg C (pv T j x) j))
  | [], T, _, _, hT => ⟨rfl, rfl, rfl, rfl, rfl, hT, fun _ _ _ => ⟨rfl, rfl⟩, fun j hj => absurd hj List.not_mem_nil⟩
  | i :: ds, T, hnd, hlt, hT => by
    have hnd' := List.nodup_cons.mp hnd
    obtain ⟨a1, a2, a3, a4, a5, a6, a7⟩ := gB3_rdStep_frame C x T i hT
    obtain ⟨b1, b2, b3, b4, b5, b6, b7, b8⟩ := gB3_rdfold_frame C x hx ds (gB3_rdStep C x T i) hnd'.2
      (fun k hk => hlt k (List.mem_cons_of_mem _ hk)) a6
    rw [List.foldl_cons]
    refine ⟨b1.trans a1, b2.trans a2, b3.trans a3, b4.trans a4, b5.trans a5, b6, ?_, ?_⟩
    · intro a j h
      have h1 : a ≠ x ∨ j ∉ ds := by
        rcases h with h | h
        · exact Or.inl h
        · exact Or.inr (fun hm => h (List.mem_cons_of_mem _ hm))
      have h2 : a ≠ x ∨ j ≠ i := by
        rcases h with h | h
        · exact Or.inl h
        · exact Or.inr (fun e => h (by simp [e]))
      obtain ⟨c1, c2⟩ := b7 a j h1
      obtain ⟨c3, c4⟩ := a7 a j h2
      exact ⟨c1.trans c3, c2.trans c4⟩
    · intro j hj hp
      by_cases hji : j = i
      · subst hji
        obtain ⟨c1, c2⟩ := b7 x j (Or.inr hnd'.1)
        obtain ⟨c3, c4⟩ := gB3_rdStep_self C x T j hT hx (hlt j (by simp)) hp
        exact ⟨c1.trans c3, c2.trans c4⟩
      · have hjm : j ∈ ds := by
          rcases List.mem_cons.mp hj with e | e
          · exact absurd e hji
          · exact e
        have hpv : pv (gB3_rdStep C x T i) j x = pv T j x := gB3_rdStep_pv_other C x T i j x hji
        obtain ⟨c1, c2⟩ := b8 j hjm (by rw [hpv]; exact hp)
        rw [hpv] at c1 c2
        obtain ⟨c3, c4⟩ := a7 (pv T j x) j (Or.inl hp)
        rw [c3] at c1 c2
        rw [c4] at c2
        exact ⟨c1, c2⟩

/-- **`reinsert_dom` undoes `delStep`** on the pointers; it writes nothing but the pointers and the caches
`area[x][i]`, `vol[x][i]`, `2 ≤ i < dim`, which are computed from those of the predecessor of `x` in dimension `i` -/
theorem reinsertDom_spec {d n : ℕ} (C : Cargo) (x dim : ℕ) (U T : St) (hU : ShapeC d n U) (hT : ShapeC d n T) (hdim : dim ≤ d)
    (hTs : TSh d n T) (hx : x ≤ n)
    (hnf : ∀ i, 2 ≤ i → i < dim → NodeFacts n (toSw U) i x)
    (hpe : PtrEqC (delStep C dim U x) T) :
    PtrEqC U (reinsertDom C T x dim) ∧ ShapeC d n (reinsertDom C T x dim) ∧ TSh d n (reinsertDom C T x dim) ∧
      (reinsertDom C T x dim).ignore = T.ignore ∧ (reinsertDom C T x dim).bound = T.bound ∧
      (reinsertDom C T x dim).domr = T.domr ∧ (reinsertDom C T x dim).tree = T.tree ∧
      (reinsertDom C T x dim).calls = T.calls ∧
      (∀ a i, (a ≠ x ∨ i < 2 ∨ dim ≤ i) →
        ar (reinsertDom C T x dim) a i = ar T a i ∧ vl (reinsertDom C T x dim) a i = vl T a i) ∧
      (∀ i, 2 ≤ i → i < dim →
        ar (reinsertDom C T x dim) x i = ar T (pv U i x) i ∧
        vl (reinsertDom C T x dim) x i = vl T (pv U i x) i + ar T (pv U i x) i * (cg C x i - cg C (pv U i x) i)) := by
  obtain ⟨p1, p2⟩ := gB3_undo C x dim U T hU hT hdim hnf hpe (gB3_rStep_rd C d n x)
  have hlt : ∀ i ∈ dimRange dim, i < d := fun i hi => by
    have := (gB3_mem_dimRange dim i).mp hi; omega
  obtain ⟨b1, b2, b3, b4, b5, b6, b7, b8⟩ := gB3_rdfold_frame C x hx (dimRange dim) T (gB3_nodup_dimRange dim) hlt hTs
  rw [gB3_reinsertDom_eq]
  refine ⟨p1, p2, b6, b1, b2, b3, b4, b5, ?_, ?_⟩
  · intro a i h
    refine b7 a i ?_
    rcases h with h | h
    · exact Or.inl h
    · exact Or.inr (fun hm => by have := (gB3_mem_dimRange dim i).mp hm; omega)
  · intro i h2 hid
    have hpv := gB3_pv_self C x dim U T hU hdim hnf hpe i h2 hid
    have hne : pv T i x ≠ x := by rw [hpv]; exact (hnf i h2 hid).pv_ne
    have := b8 i ((gB3_mem_dimRange dim i).mpr ⟨h2, hid⟩) hne
    rw [hpv] at this
    exact this

end HvC
