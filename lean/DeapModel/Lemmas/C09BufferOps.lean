/-
Helper lemmas for C09: every buffer-level operator of `Core/CrossMutBuf.lean` simulated by the list
model `Core/CrossMut.lean` (forward simulation: under the guard of the operator the run completes —
no subscript fails — and the argument buffers end up holding what the list model computes), and the
exact result of the slice-swapping operators under the `view` discipline.
-/
import DeapModel.Lemmas.C09Buffer
import DeapModel.Lemmas.C09PMX

set_option linter.unusedSectionVars false
set_option linter.unusedSimpArgs false
set_option linter.unusedVariables false
set_option linter.unnecessarySeqFocus false

namespace C09B
open Buffer C09L

variable {α β γ : Type}

/-! ### frames: what an operator leaves alone -/

/-- a two-parent operator that does not allocate: every other buffer keeps its contents, no id is used up -/
def Frame2 (ind1 ind2 : Nat) (h h' : Heap α) : Prop :=
  (∀ o, o ≠ ind1 → o ≠ ind2 → h'.cell o = h.cell o) ∧ h'.next = h.next

theorem Frame2.refl (ind1 ind2 : Nat) (h : Heap α) : Frame2 ind1 ind2 h h := ⟨fun _ _ _ => rfl, rfl⟩

theorem Frame2.trans {ind1 ind2 : Nat} {h h1 h2 : Heap α} (a : Frame2 ind1 ind2 h h1) (b : Frame2 ind1 ind2 h1 h2) :
    Frame2 ind1 ind2 h h2 :=
  ⟨fun o o1 o2 => by rw [b.1 o o1 o2, a.1 o o1 o2], by rw [b.2, a.2]⟩

theorem Frame2.write1 (ind1 ind2 : Nat) (h : Heap α) (v : List α) : Frame2 ind1 ind2 h (h.write ind1 v) :=
  ⟨fun o o1 _ => cell_write_ne _ _ _ _ o1, rfl⟩

theorem Frame2.write2 (ind1 ind2 : Nat) (h : Heap α) (v : List α) : Frame2 ind1 ind2 h (h.write ind2 v) :=
  ⟨fun o _ o2 => cell_write_ne _ _ _ _ o2, rfl⟩

/-! ### PMX / UPMX -/

theorem getElem?_g (l : List Nat) (i : Nat) (h : i < l.length) : l[i]? = some (g l i) := by
  rw [g_eq_getElem l i h]; exact List.getElem?_eq_getElem h

/-- all of the first `n` entries are below `n` -/
def AllLt (n : Nat) (l : List Nat) : Prop := ∀ j < n, g l j < n

theorem AllLt.set {n : Nat} {l : List Nat} (hl : AllLt n l) (i a : Nat) (ha : a < n) : AllLt n (l.set i a) := by
  intro j hj
  rw [g_set]
  split
  · exact ha
  · exact hl j hj

/-- the in-range invariant of the PMX / UPMX loop: the first `n` genes and all table entries are
indices below `n`, the tables have length `n` — no subscript of the loop body can fail -/
def PMQ (n : Nat) (s : CrossMut.PMState) : Prop :=
  n ≤ s.ind1.length ∧ n ≤ s.ind2.length ∧ s.p1.length = n ∧ s.p2.length = n ∧
  AllLt n s.ind1 ∧ AllLt n s.ind2 ∧ AllLt n s.p1 ∧ AllLt n s.p2

theorem pmq_step (n : Nat) (s : CrossMut.PMState) (i : Nat) (hi : i < n) (q : PMQ n s) : PMQ n (CrossMut.pmStep s i) := by
  obtain ⟨q1, q2, q3, q4, q5, q6, q7, q8⟩ := q
  have t1 : g s.ind1 i < n := q5 i hi
  have t2 : g s.ind2 i < n := q6 i hi
  refine ⟨?_, ?_, ?_, ?_, ?_, ?_, ?_, ?_⟩
  · simp only [CrossMut.pmStep, List.length_set]; exact q1
  · simp only [CrossMut.pmStep, List.length_set]; exact q2
  · simp only [CrossMut.pmStep, List.length_set]; exact q3
  · simp only [CrossMut.pmStep, List.length_set]; exact q4
  · exact (q5.set _ _ t2).set _ _ t1
  · exact (q6.set _ _ t1).set _ _ t2
  · exact (q7.set _ _ (q7 _ t2)).set _ _ (q7 _ t1)
  · exact (q8.set _ _ (q8 _ t2)).set _ _ (q8 _ t1)

theorem pmStep_sim (ind1 ind2 : Nat) (hne : ind1 ≠ ind2) (n : Nat) (hh : Heap Nat) (s : CrossMut.PMState) (i : Nat)
    (hi : i < n) (c1 : hh.cell ind1 = s.ind1) (c2 : hh.cell ind2 = s.ind2) (q : PMQ n s) :
    ∃ h', CrossMutBuf.pmStep ind1 ind2 (s.p1, s.p2) i hh
        = .ok ((CrossMut.pmStep s i).p1, (CrossMut.pmStep s i).p2) h' ∧
      h'.cell ind1 = (CrossMut.pmStep s i).ind1 ∧ h'.cell ind2 = (CrossMut.pmStep s i).ind2 ∧
      Frame2 ind1 ind2 hh h' := by
  obtain ⟨q1, q2, q3, q4, q5, q6, q7, q8⟩ := q
  have t1 : g s.ind1 i < n := q5 i hi
  have t2 : g s.ind2 i < n := q6 i hi
  have j1 : g s.p1 (g s.ind2 i) < n := q7 _ t2
  have j2 : g s.p2 (g s.ind1 i) < n := q8 _ t1
  let hA := hh.write ind1 (s.ind1.set i (g s.ind2 i))
  let hB := hA.write ind1 ((s.ind1.set i (g s.ind2 i)).set (g s.p1 (g s.ind2 i)) (g s.ind1 i))
  let hC := hB.write ind2 (s.ind2.set i (g s.ind1 i))
  let hD := hC.write ind2 ((s.ind2.set i (g s.ind1 i)).set (g s.p2 (g s.ind1 i)) (g s.ind2 i))
  have e1 : getItem ind1 i hh = .ok (g s.ind1 i) hh := getItem_ok (by rw [c1]; exact getElem?_g _ _ (by omega))
  have e2 : getItem ind2 i hh = .ok (g s.ind2 i) hh := getItem_ok (by rw [c2]; exact getElem?_g _ _ (by omega))
  have e3 : setItem ind1 i (g s.ind2 i) hh = .ok () hA := by
    rw [setItem_ok _ (by rw [c1]; omega), c1]
  have e4 : (tabGet s.p1 (g s.ind2 i) : M Nat Nat) hA = .ok (g s.p1 (g s.ind2 i)) hA :=
    tabGet_ok _ (getElem?_g _ _ (by omega))
  have e5 : setItem ind1 (g s.p1 (g s.ind2 i)) (g s.ind1 i) hA = .ok () hB := by
    rw [setItem_ok _ (by rw [cell_write_same]; simp only [List.length_set]; omega), cell_write_same]
  have cB2 : hB.cell ind2 = s.ind2 := by
    rw [cell_write_ne _ _ _ _ (Ne.symm hne), cell_write_ne _ _ _ _ (Ne.symm hne)]; exact c2
  have e6 : setItem ind2 i (g s.ind1 i) hB = .ok () hC := by
    rw [setItem_ok _ (by rw [cB2]; omega), cB2]
  have e7 : (tabGet s.p2 (g s.ind1 i) : M Nat Nat) hC = .ok (g s.p2 (g s.ind1 i)) hC :=
    tabGet_ok _ (getElem?_g _ _ (by omega))
  have e8 : setItem ind2 (g s.p2 (g s.ind1 i)) (g s.ind2 i) hC = .ok () hD := by
    rw [setItem_ok _ (by rw [cell_write_same]; simp only [List.length_set]; omega), cell_write_same]
  have e9 : (tabGet s.p1 (g s.ind2 i) : M Nat Nat) hD = .ok (g s.p1 (g s.ind2 i)) hD :=
    tabGet_ok _ (getElem?_g _ _ (by omega))
  have e10 : (tabGet s.p1 (g s.ind1 i) : M Nat Nat) hD = .ok (g s.p1 (g s.ind1 i)) hD :=
    tabGet_ok _ (getElem?_g _ _ (by omega))
  have e11 : (tabSet s.p1 (g s.ind1 i) (g s.p1 (g s.ind2 i)) : M Nat (List Nat)) hD
      = .ok (s.p1.set (g s.ind1 i) (g s.p1 (g s.ind2 i))) hD := tabSet_ok _ _ (by omega)
  have e12 : (tabSet (s.p1.set (g s.ind1 i) (g s.p1 (g s.ind2 i))) (g s.ind2 i) (g s.p1 (g s.ind1 i)) : M Nat (List Nat)) hD
      = .ok ((s.p1.set (g s.ind1 i) (g s.p1 (g s.ind2 i))).set (g s.ind2 i) (g s.p1 (g s.ind1 i))) hD :=
    tabSet_ok _ _ (by simp only [List.length_set]; omega)
  have e13 : (tabGet s.p2 (g s.ind2 i) : M Nat Nat) hD = .ok (g s.p2 (g s.ind2 i)) hD :=
    tabGet_ok _ (getElem?_g _ _ (by omega))
  have e14 : (tabGet s.p2 (g s.ind1 i) : M Nat Nat) hD = .ok (g s.p2 (g s.ind1 i)) hD :=
    tabGet_ok _ (getElem?_g _ _ (by omega))
  have e15 : (tabSet s.p2 (g s.ind1 i) (g s.p2 (g s.ind2 i)) : M Nat (List Nat)) hD
      = .ok (s.p2.set (g s.ind1 i) (g s.p2 (g s.ind2 i))) hD := tabSet_ok _ _ (by omega)
  have e16 : (tabSet (s.p2.set (g s.ind1 i) (g s.p2 (g s.ind2 i))) (g s.ind2 i) (g s.p2 (g s.ind1 i)) : M Nat (List Nat)) hD
      = .ok ((s.p2.set (g s.ind1 i) (g s.p2 (g s.ind2 i))).set (g s.ind2 i) (g s.p2 (g s.ind1 i))) hD :=
    tabSet_ok _ _ (by simp only [List.length_set]; omega)
  refine ⟨hD, ?_, ?_, ?_, ?_⟩
  · unfold CrossMutBuf.pmStep
    rw [bind_ok e1, bind_ok e2, bind_ok e3, bind_ok e4, bind_ok e5, bind_ok e6, bind_ok e7, bind_ok e8,
      bind_ok e9, bind_ok e10, bind_ok e11, bind_ok e12, bind_ok e13, bind_ok e14, bind_ok e15, bind_ok e16]
    rfl
  · rw [cell_write_ne _ _ _ _ hne, cell_write_ne _ _ _ _ hne]; exact cell_write_same _ _ _
  · exact cell_write_same _ _ _
  · exact (((Frame2.write1 _ _ _ _).trans (Frame2.write1 _ _ _ _)).trans (Frame2.write2 _ _ _ _)).trans
      (Frame2.write2 _ _ _ _)

theorem allLt_of_take (n : Nat) (l : List Nat) (hn : n ≤ l.length) (h : ∀ x ∈ l.take n, x < n) : AllLt n l := by
  intro j hj
  rw [g_eq_getElem l j (by omega)]
  apply h
  rw [List.mem_take_iff_getElem]
  exact ⟨j, by omega, rfl⟩

theorem allLt_replicate (n : Nat) : AllLt n (List.replicate n 0) := by
  intro j hj
  unfold g
  rw [List.getElem?_replicate]
  split <;> simp <;> omega

theorem pmInit_sim (ind1 ind2 : Nat) (h : Heap Nat) (n : Nat)
    (hn : n = min (h.cell ind1).length (h.cell ind2).length)
    (hg : CrossMut.pmGenesOk (h.cell ind1) (h.cell ind2)) :
    CrossMutBuf.pmInit ind1 ind2 n h = .ok (CrossMut.pmInit n (h.cell ind1) (h.cell ind2)) h ∧
    PMQ n ⟨h.cell ind1, h.cell ind2, (CrossMut.pmInit n (h.cell ind1) (h.cell ind2)).1,
      (CrossMut.pmInit n (h.cell ind1) (h.cell ind2)).2⟩ := by
  unfold CrossMut.pmGenesOk at hg
  simp only [← hn] at hg
  have a1 : AllLt n (h.cell ind1) := allLt_of_take n _ (by omega) hg.1
  have a2 : AllLt n (h.cell ind2) := allLt_of_take n _ (by omega) hg.2
  obtain ⟨p, h', hl, ⟨hR1, hR2⟩, q1, q2, q3, q4⟩ := forFold_sim
    (R := fun (p : List Nat × List Nat) (hh : Heap Nat) (t : List Nat × List Nat) => p = t ∧ hh = h)
    (Q := fun t => t.1.length = n ∧ t.2.length = n ∧ AllLt n t.1 ∧ AllLt n t.2)
    (body := fun p i => getItem ind1 i >>= fun x => tabSet p.1 x i >>= fun p1 => getItem ind2 i >>= fun y =>
      tabSet p.2 y i >>= fun p2 => pure (p1, p2))
    (f := fun (p : List Nat × List Nat) i =>
      (p.1.set ((h.cell ind1)[i]?.getD 0) i, p.2.set ((h.cell ind2)[i]?.getD 0) i))
    (l := List.range n)
    (by
      intro p hh t i hi ⟨r1, r2⟩ ⟨q1, q2, q3, q4⟩
      subst r1
      rw [r2]
      have hi' : i < n := by simpa using hi
      have x1 : g (h.cell ind1) i < n := a1 i hi'
      have x2 : g (h.cell ind2) i < n := a2 i hi'
      refine ⟨(p.1.set (g (h.cell ind1) i) i, p.2.set (g (h.cell ind2) i) i), h, ?_, ⟨rfl, rfl⟩, ?_⟩
      · rw [bind_ok (getItem_ok (getElem?_g _ _ (by omega))), bind_ok (tabSet_ok _ _ (by omega)),
          bind_ok (getItem_ok (getElem?_g _ _ (by omega))), bind_ok (tabSet_ok _ _ (by omega))]
        rfl
      · exact ⟨by simp only [List.length_set]; exact q1, by simp only [List.length_set]; exact q2,
          q3.set _ _ hi', q4.set _ _ hi'⟩)
    (List.replicate n 0, List.replicate n 0) h (List.replicate n 0, List.replicate n 0) ⟨rfl, rfl⟩
    ⟨by simp, by simp, allLt_replicate n, allLt_replicate n⟩
  rw [hR2] at hl
  refine ⟨?_, show n ≤ (h.cell ind1).length by omega, show n ≤ (h.cell ind2).length by omega, q1, q2, a1, a2, q3, q4⟩
  unfold CrossMutBuf.pmInit
  rw [hl, hR1]; rfl

/-- the relation between the buffer run and the list model inside the PMX / UPMX loop -/
def PMRel (ind1 ind2 : Nat) (h : Heap Nat) (p : List Nat × List Nat) (hh : Heap Nat) (s : CrossMut.PMState) : Prop :=
  hh.cell ind1 = s.ind1 ∧ hh.cell ind2 = s.ind2 ∧ p = (s.p1, s.p2) ∧ Frame2 ind1 ind2 h hh

theorem pmRel_step (ind1 ind2 : Nat) (hne : ind1 ≠ ind2) (h : Heap Nat) (n : Nat) (p : List Nat × List Nat)
    (hh : Heap Nat) (s : CrossMut.PMState) (i : Nat) (hi : i < n) (r : PMRel ind1 ind2 h p hh s) (q : PMQ n s) :
    ∃ p' h', CrossMutBuf.pmStep ind1 ind2 p i hh = .ok p' h' ∧ PMRel ind1 ind2 h p' h' (CrossMut.pmStep s i) ∧
      PMQ n (CrossMut.pmStep s i) := by
  obtain ⟨r1, r2, r3, r4⟩ := r
  obtain ⟨h', e, c1, c2, fr⟩ := pmStep_sim ind1 ind2 hne n hh s i hi r1 r2 q
  exact ⟨_, h', by rw [r3]; exact e, ⟨c1, c2, rfl, r4.trans fr⟩, pmq_step n s i hi q⟩

theorem pmx_sim (d : Disc) (ind1 ind2 : Nat) (hne : ind1 ≠ ind2) (h : Heap Nat) (c1 c2 : Nat)
    (hok : CrossMut.cxPartialyMatchedOk (h.cell ind1) (h.cell ind2) c1 c2) :
    ∃ h', CrossMutBuf.cxPartialyMatched d ind1 ind2 c1 c2 h = .ok (ind1, ind2) h' ∧
      (h'.cell ind1, h'.cell ind2) = CrossMut.cxPartialyMatched (h.cell ind1) (h.cell ind2) c1 c2 ∧
      Frame2 ind1 ind2 h h' := by
  obtain ⟨hg, hn, hc1, hc2⟩ := hok
  generalize hsize : min (h.cell ind1).length (h.cell ind2).length = n at hn hc1 hc2
  have hcx := normCx_spec0 c1 c2 n hn hc1 hc2
  obtain ⟨ei, qi⟩ := pmInit_sim ind1 ind2 h n hsize.symm hg
  obtain ⟨p, h', hl, ⟨r1, r2, r3, r4⟩, _⟩ := forFold_sim
    (R := PMRel ind1 ind2 h) (Q := PMQ n) (body := CrossMutBuf.pmStep ind1 ind2) (f := CrossMut.pmStep)
    (l := List.range' (CrossMut.normCx c1 c2).1 ((CrossMut.normCx c1 c2).2 - (CrossMut.normCx c1 c2).1))
    (by
      intro p hh s i hi r q
      have : i < n := by
        have := (List.mem_range'_1.1 hi).2
        omega
      exact pmRel_step ind1 ind2 hne h n p hh s i this r q)
    (CrossMut.pmInit n (h.cell ind1) (h.cell ind2)) h
    ⟨h.cell ind1, h.cell ind2, (CrossMut.pmInit n (h.cell ind1) (h.cell ind2)).1,
      (CrossMut.pmInit n (h.cell ind1) (h.cell ind2)).2⟩
    ⟨rfl, rfl, rfl, Frame2.refl _ _ _⟩ qi
  refine ⟨h', ?_, ?_, r4⟩
  · unfold CrossMutBuf.cxPartialyMatched
    rw [bind_ok (len_apply ind1 h), bind_ok (len_apply ind2 h), hsize, bind_ok ei]
    exact (bind_ok hl).trans rfl
  · rw [r1, r2]
    simp only [CrossMut.cxPartialyMatched, hsize]

theorem upmx_sim (d : Disc) (ind1 ind2 : Nat) (hne : ind1 ≠ ind2) (h : Heap Nat) (ds : List Bool)
    (hg : CrossMut.pmGenesOk (h.cell ind1) (h.cell ind2)) :
    ∃ h', CrossMutBuf.cxUniformPartialyMatched d ind1 ind2 ds h = .ok (ind1, ind2) h' ∧
      (h'.cell ind1, h'.cell ind2) = CrossMut.cxUniformPartialyMatched (h.cell ind1) (h.cell ind2) ds ∧
      Frame2 ind1 ind2 h h' := by
  generalize hsize : min (h.cell ind1).length (h.cell ind2).length = n
  obtain ⟨ei, qi⟩ := pmInit_sim ind1 ind2 h n hsize.symm hg
  obtain ⟨p, h', hl, ⟨r1, r2, r3, r4⟩, _⟩ := forFold_sim
    (R := PMRel ind1 ind2 h) (Q := PMQ n)
    (body := fun p (id : Nat × Bool) => if id.2 then CrossMutBuf.pmStep ind1 ind2 p id.1 else pure p)
    (f := fun s (id : Nat × Bool) => if id.2 then CrossMut.pmStep s id.1 else s)
    (l := (List.range n).zip ds)
    (by
      intro p hh s id hid r q
      have : id.1 < n := by
        have := (List.of_mem_zip hid).1
        simpa using this
      by_cases hd : id.2 = true
      · simp only [hd, if_true]
        exact pmRel_step ind1 ind2 hne h n p hh s id.1 this r q
      · simp only [hd]
        exact ⟨p, hh, rfl, r, q⟩)
    (CrossMut.pmInit n (h.cell ind1) (h.cell ind2)) h
    ⟨h.cell ind1, h.cell ind2, (CrossMut.pmInit n (h.cell ind1) (h.cell ind2)).1,
      (CrossMut.pmInit n (h.cell ind1) (h.cell ind2)).2⟩
    ⟨rfl, rfl, rfl, Frame2.refl _ _ _⟩ qi
  refine ⟨h', ?_, ?_, r4⟩
  · unfold CrossMutBuf.cxUniformPartialyMatched
    rw [bind_ok (len_apply ind1 h), bind_ok (len_apply ind2 h), hsize, bind_ok ei]
    exact (bind_ok hl).trans rfl
  · rw [r1, r2]
    simp only [CrossMut.cxUniformPartialyMatched, hsize]

/-- a mutation that does not allocate: every other buffer keeps its contents, no id is used up -/
def Frame1 (ind : Nat) (h h' : Heap α) : Prop :=
  (∀ o, o ≠ ind → h'.cell o = h.cell o) ∧ h'.next = h.next

theorem Frame1.refl (ind : Nat) (h : Heap α) : Frame1 ind h h := ⟨fun _ _ => rfl, rfl⟩

theorem Frame1.trans {ind : Nat} {h h1 h2 : Heap α} (a : Frame1 ind h h1) (b : Frame1 ind h1 h2) : Frame1 ind h h2 :=
  ⟨fun o ho => by rw [b.1 o ho, a.1 o ho], by rw [b.2, a.2]⟩

theorem Frame1.write (ind : Nat) (h : Heap α) (v : List α) : Frame1 ind h (h.write ind v) :=
  ⟨fun o ho => cell_write_ne _ _ _ _ ho, rfl⟩

theorem Frame1.to2l {ind1 ind2 : Nat} {h h' : Heap α} (a : Frame1 ind1 h h') : Frame2 ind1 ind2 h h' :=
  ⟨fun o o1 _ => a.1 o o1, a.2⟩

theorem Frame1.to2r {ind1 ind2 : Nat} {h h' : Heap α} (a : Frame1 ind2 h h') : Frame2 ind1 ind2 h h' :=
  ⟨fun o _ o2 => a.1 o o2, a.2⟩

/-! ### OX -/

/-- hole tables: the heap is only read -/
theorem oxHoles_sim (ind1 ind2 : Nat) (h : Heap Nat) (n a b : Nat)
    (hn1 : n ≤ (h.cell ind1).length) (hn2 : n ≤ (h.cell ind2).length)
    (a1 : AllLt n (h.cell ind1)) (a2 : AllLt n (h.cell ind2)) :
    CrossMutBuf.oxHoles ind1 ind2 n a b h = .ok (CrossMut.oxHoles n a b (h.cell ind1) (h.cell ind2)) h ∧
    (CrossMut.oxHoles n a b (h.cell ind1) (h.cell ind2)).1.length = n ∧
    (CrossMut.oxHoles n a b (h.cell ind1) (h.cell ind2)).2.length = n := by
  obtain ⟨p, h', hl, ⟨hR1, hR2⟩, q1, q2⟩ := forFold_sim
    (R := fun (p : List Bool × List Bool) (hh : Heap Nat) (t : List Bool × List Bool) => p = t ∧ hh = h)
    (Q := fun t => t.1.length = n ∧ t.2.length = n)
    (body := fun hs i =>
      if i < a ∨ i > b then
        (getItem ind2 i >>= fun x => tabSet hs.1 x false >>= fun h1 => getItem ind1 i >>= fun y =>
          tabSet hs.2 y false >>= fun h2 => pure (h1, h2))
      else pure hs)
    (f := fun (hs : List Bool × List Bool) i =>
      if i < a ∨ i > b then (hs.1.set ((h.cell ind2)[i]?.getD 0) false, hs.2.set ((h.cell ind1)[i]?.getD 0) false) else hs)
    (l := List.range n)
    (by
      intro p hh t i hi ⟨r1, r2⟩ ⟨q1, q2⟩
      subst r1
      rw [r2]
      have hi' : i < n := by simpa using hi
      have x1 : g (h.cell ind1) i < n := a1 i hi'
      have x2 : g (h.cell ind2) i < n := a2 i hi'
      by_cases hc : i < a ∨ i > b
      · simp only [if_pos hc]
        refine ⟨(p.1.set (g (h.cell ind2) i) false, p.2.set (g (h.cell ind1) i) false), h, ?_, ⟨rfl, rfl⟩, ?_⟩
        · rw [bind_ok (getItem_ok (getElem?_g _ _ (by omega))), bind_ok (tabSet_ok _ _ (by omega)),
            bind_ok (getItem_ok (getElem?_g _ _ (by omega))), bind_ok (tabSet_ok _ _ (by omega))]
          rfl
        · exact ⟨by simp only [List.length_set]; exact q1, by simp only [List.length_set]; exact q2⟩
      · simp only [if_neg hc]
        exact ⟨p, h, rfl, ⟨rfl, rfl⟩, q1, q2⟩)
    (List.replicate n true, List.replicate n true) h (List.replicate n true, List.replicate n true) ⟨rfl, rfl⟩
    ⟨by simp, by simp⟩
  rw [hR2] at hl
  refine ⟨?_, q1, q2⟩
  unfold CrossMutBuf.oxHoles
  rw [hl, hR1]; rfl

/-- one half of the hole-filling loop body: reads and writes go to the SAME buffer (`temp` is `ind`) -/
theorem oxFill_sim (ind : Nat) (n b : Nat) (hn : 0 < n) (holes : List Bool) (hhl : holes.length = n)
    (hh : Heap Nat) (hl : n ≤ (hh.cell ind).length) (al : AllLt n (hh.cell ind)) (k i : Nat) :
    ∃ h', CrossMutBuf.oxFill ind n b holes k i hh = .ok (CrossMut.oxFillStep n b holes (hh.cell ind, k) i).2 h' ∧
      h'.cell ind = (CrossMut.oxFillStep n b holes (hh.cell ind, k) i).1 ∧ Frame1 ind hh h' := by
  have hm : (i + b + 1) % n < n := Nat.mod_lt _ hn
  have hv : g (hh.cell ind) ((i + b + 1) % n) < n := al _ hm
  have e1 : getItem ind ((i + b + 1) % n) hh = .ok (g (hh.cell ind) ((i + b + 1) % n)) hh :=
    getItem_ok (getElem?_g _ _ (by omega))
  have hx : holes[g (hh.cell ind) ((i + b + 1) % n)]? = some holes[g (hh.cell ind) ((i + b + 1) % n)] :=
    List.getElem?_eq_getElem (by omega)
  have e2 : (tabGet holes (g (hh.cell ind) ((i + b + 1) % n)) : M Nat Bool) hh
      = .ok holes[g (hh.cell ind) ((i + b + 1) % n)] hh := tabGet_ok _ hx
  have hgd : holes[g (hh.cell ind) ((i + b + 1) % n)]?.getD true = holes[g (hh.cell ind) ((i + b + 1) % n)] := by
    rw [hx]; rfl
  have hstep : CrossMut.oxFillStep n b holes (hh.cell ind, k) i
      = if (!holes[g (hh.cell ind) ((i + b + 1) % n)]) = true
        then ((hh.cell ind).set (k % n) (g (hh.cell ind) ((i + b + 1) % n)), k + 1) else (hh.cell ind, k) := by
    rw [← hgd]; rfl
  rw [hstep]
  unfold CrossMutBuf.oxFill
  rw [bind_ok e1, bind_ok e2]
  cases hb : holes[g (hh.cell ind) ((i + b + 1) % n)] with
  | true =>
    exact ⟨hh, rfl, rfl, Frame1.refl _ _⟩
  | false =>
    have hk : k % n < (hh.cell ind).length := by have := Nat.mod_lt k hn; omega
    refine ⟨hh.write ind ((hh.cell ind).set (k % n) (g (hh.cell ind) ((i + b + 1) % n))), ?_, ?_, Frame1.write _ _ _⟩
    · show (getItem ind ((i + b + 1) % n) >>= _) hh = _
      rw [bind_ok e1, bind_ok (setItem_ok _ hk)]; rfl
    · exact cell_write_same _ _ _

theorem oxFillStep_q (n b : Nat) (hn : 0 < n) (holes : List Bool) (l : List Nat) (k i : Nat)
    (hl : n ≤ l.length) (al : AllLt n l) :
    n ≤ (CrossMut.oxFillStep n b holes (l, k) i).1.length ∧ AllLt n (CrossMut.oxFillStep n b holes (l, k) i).1 := by
  have hstep : CrossMut.oxFillStep n b holes (l, k) i
      = if (!(holes[g l ((i + b + 1) % n)]?.getD true)) = true
        then (l.set (k % n) (g l ((i + b + 1) % n)), k + 1) else (l, k) := rfl
  rw [hstep]
  split
  · exact ⟨by simp only [List.length_set]; exact hl, al.set _ _ (al _ (Nat.mod_lt _ hn))⟩
  · exact ⟨hl, al⟩

theorem ox_sim (d : Disc) (ind1 ind2 : Nat) (hne : ind1 ≠ ind2) (h : Heap Nat) (a0 b0 : Nat)
    (hok : CrossMut.cxOrderedOk (h.cell ind1) (h.cell ind2) a0 b0) :
    ∃ h', CrossMutBuf.cxOrdered d ind1 ind2 a0 b0 h = .ok (ind1, ind2) h' ∧
      (h'.cell ind1, h'.cell ind2) = CrossMut.cxOrdered (h.cell ind1) (h.cell ind2) a0 b0 ∧
      Frame2 ind1 ind2 h h' := by
  obtain ⟨hg, hab, ha, hb⟩ := hok
  unfold CrossMut.pmGenesOk at hg
  generalize hsize : min (h.cell ind1).length (h.cell ind2).length = n at hg ha hb
  have hn : 0 < n := by omega
  have l1 : n ≤ (h.cell ind1).length := by omega
  have l2 : n ≤ (h.cell ind2).length := by omega
  have a1 : AllLt n (h.cell ind1) := allLt_of_take n _ l1 hg.1
  have a2 : AllLt n (h.cell ind2) := allLt_of_take n _ l2 hg.2
  generalize hA : (if a0 > b0 then b0 else a0) = a
  generalize hB : (if a0 > b0 then a0 else b0) = b
  have hbn : b < n := by rw [← hB]; split <;> omega
  obtain ⟨eh, hl1, hl2⟩ := oxHoles_sim ind1 ind2 h n a b l1 l2 a1 a2
  generalize hsdef : CrossMut.oxHoles n a b (h.cell ind1) (h.cell ind2) = hs at eh hl1 hl2
  -- the filling loop
  obtain ⟨kk, hF, eF, ⟨r1, r2, r3, r4⟩, q1, q2, q3, q4⟩ := forFold_sim
    (R := fun (k : Nat × Nat) (hh : Heap Nat) (s : CrossMut.OXState) =>
      hh.cell ind1 = s.ind1 ∧ hh.cell ind2 = s.ind2 ∧ k = (s.k1, s.k2) ∧ Frame2 ind1 ind2 h hh)
    (Q := fun s => n ≤ s.ind1.length ∧ n ≤ s.ind2.length ∧ AllLt n s.ind1 ∧ AllLt n s.ind2)
    (body := fun (k : Nat × Nat) i => CrossMutBuf.oxFill ind1 n b hs.1 k.1 i >>= fun k1 =>
      CrossMutBuf.oxFill ind2 n b hs.2 k.2 i >>= fun k2 => pure (k1, k2))
    (f := CrossMut.oxStep n b hs.1 hs.2)
    (l := List.range n)
    (by
      intro k hh s i hi ⟨r1, r2, r3, r4⟩ ⟨q1, q2, q3, q4⟩
      obtain ⟨hX, eX, cX, fX⟩ := oxFill_sim ind1 n b hn hs.1 hl1 hh (by rw [r1]; exact q1) (by rw [r1]; exact q3) s.k1 i
      have cX2 : hX.cell ind2 = s.ind2 := by rw [fX.1 ind2 (Ne.symm hne)]; exact r2
      obtain ⟨hY, eY, cY, fY⟩ := oxFill_sim ind2 n b hn hs.2 hl2 hX (by rw [cX2]; exact q2) (by rw [cX2]; exact q4) s.k2 i
      rw [r1] at eX cX
      rw [cX2] at eY cY
      have w1 := oxFillStep_q n b hn hs.1 s.ind1 s.k1 i q1 q3
      have w2 := oxFillStep_q n b hn hs.2 s.ind2 s.k2 i q2 q4
      refine ⟨_, hY, ?_, ⟨?_, cY, rfl, r4.trans (fX.to2l.trans fY.to2r)⟩, w1.1, w2.1, w1.2, w2.2⟩
      · rw [r3, bind_ok eX, bind_ok eY]; rfl
      · rw [fY.1 ind1 hne]; exact cX)
    (b + 1, b + 1) h ⟨h.cell ind1, b + 1, h.cell ind2, b + 1⟩ ⟨rfl, rfl, rfl, Frame2.refl _ _ _⟩ ⟨l1, l2, a1, a2⟩
  generalize hsF : List.foldl (CrossMut.oxStep n b hs.1 hs.2) ⟨h.cell ind1, b + 1, h.cell ind2, b + 1⟩ (List.range n) = sF
    at r1 r2 r3 q1 q2 q3 q4
  -- the final exchange of the segment
  obtain ⟨u, hS, eS, ⟨t1, t2, t3⟩, _⟩ := forFold_sim
    (R := fun (_ : Unit) (hh : Heap Nat) (p : List Nat × List Nat) =>
      hh.cell ind1 = p.1 ∧ hh.cell ind2 = p.2 ∧ Frame2 ind1 ind2 h hh)
    (Q := fun p => n ≤ p.1.length ∧ n ≤ p.2.length)
    (body := fun _ i => CrossMutBuf.swapItems ind1 ind2 i)
    (f := fun p i => CrossMut.swapAt2 i p)
    (l := List.range' a (b + 1 - a))
    (by
      intro _ hh p i hi ⟨r1, r2, r3⟩ ⟨q1, q2⟩
      have hi' : i < n := by
        have := List.mem_range'_1.1 hi
        omega
      obtain ⟨h', e1, e2, e3, e4⟩ := swapItems_sim ind1 ind2 i hne hh (by rw [r1]; omega) (by rw [r2]; omega)
      rw [r1, r2] at e2
      have e2a := congrArg Prod.fst e2
      have e2b := congrArg Prod.snd e2
      refine ⟨(), h', e1, ⟨e2a, e2b, r3.trans ⟨e3, e4⟩⟩, ?_⟩
      rw [(swapAt2_length i p).1, (swapAt2_length i p).2]; exact ⟨q1, q2⟩)
    () hF (sF.ind1, sF.ind2) ⟨r1, r2, r4⟩ ⟨q1, q2⟩
  refine ⟨hS, ?_, ?_, t3⟩
  · unfold CrossMutBuf.cxOrdered
    rw [bind_ok (len_apply ind1 h), bind_ok (len_apply ind2 h), hsize, hA, hB, bind_ok eh]
    refine (bind_ok eF).trans ?_
    exact (bind_ok eS).trans rfl
  · rw [t1, t2]
    simp only [CrossMut.cxOrdered, hsize, hA, hB, hsdef, hsF]

/-! ### cxUniform -/

theorem uniform_sim (d : Disc) (ind1 ind2 : Nat) (hne : ind1 ≠ ind2) (ds : List Bool) (h : Heap α) :
    ∃ h', CrossMutBuf.cxUniform d ind1 ind2 ds h = .ok (ind1, ind2) h' ∧
      (h'.cell ind1, h'.cell ind2) = CrossMut.cxUniform (h.cell ind1) (h.cell ind2) ds ∧
      Frame2 ind1 ind2 h h' := by
  obtain ⟨u, h', hl, ⟨hR1, hR2, hR3, hR4⟩, _⟩ := forFold_sim
    (R := fun (_ : Unit) (hh : Heap α) (p : List α × List α) =>
      hh.cell ind1 = p.1 ∧ hh.cell ind2 = p.2 ∧ (∀ o, o ≠ ind1 → o ≠ ind2 → hh.cell o = h.cell o) ∧ hh.next = h.next)
    (Q := fun p => p.1.length = (h.cell ind1).length ∧ p.2.length = (h.cell ind2).length)
    (body := fun _ (id : Nat × Bool) => if id.2 then CrossMutBuf.swapItems ind1 ind2 id.1 else pure ())
    (f := fun p (id : Nat × Bool) => if id.2 then CrossMut.swapAt2 id.1 p else p)
    (l := (List.range (min (h.cell ind1).length (h.cell ind2).length)).zip ds)
    (by
      intro s hh p id hid ⟨r1, r2, r3, r4⟩ ⟨q1, q2⟩
      have hlt : id.1 < min (h.cell ind1).length (h.cell ind2).length := by
        have := (List.of_mem_zip hid).1
        simpa using this
      by_cases hd : id.2 = true
      · simp only [hd, if_true]
        obtain ⟨h', e1, e2, e3, e4⟩ := swapItems_sim ind1 ind2 id.1 hne hh (by rw [r1, q1]; omega) (by rw [r2, q2]; omega)
        rw [r1, r2] at e2
        have e2' : h'.cell ind1 = (CrossMut.swapAt2 id.1 p).1 ∧ h'.cell ind2 = (CrossMut.swapAt2 id.1 p).2 := by
          have := congrArg Prod.fst e2; have := congrArg Prod.snd e2; simp_all
        refine ⟨(), h', e1, ⟨e2'.1, e2'.2, fun o o1 o2 => by rw [e3 o o1 o2, r3 o o1 o2], by rw [e4, r4]⟩, ?_⟩
        rw [(swapAt2_length id.1 p).1, (swapAt2_length id.1 p).2]; exact ⟨q1, q2⟩
      · simp only [hd]
        exact ⟨(), hh, rfl, ⟨r1, r2, r3, r4⟩, q1, q2⟩)
    () h (h.cell ind1, h.cell ind2) ⟨rfl, rfl, fun _ _ _ => rfl, rfl⟩ ⟨rfl, rfl⟩
  refine ⟨h', ?_, ?_, hR3, hR4⟩
  · unfold CrossMutBuf.cxUniform
    rw [bind_ok (len_apply ind1 h), bind_ok (len_apply ind2 h)]
    show (forFold _ () _ >>= _) h = _
    rw [bind_ok hl]; rfl
  · rw [hR1, hR2]; rfl

/-! ### the slice-swapping crossovers -/

/-- a two-parent operator that allocates fresh buffers (slices that are copies): every other EXISTING buffer
keeps its contents -/
def Frame2A (ind1 ind2 : Nat) (h h' : Heap α) : Prop :=
  (∀ o, o < h.next → o ≠ ind1 → o ≠ ind2 → h'.cell o = h.cell o) ∧ h.next ≤ h'.next

theorem splice_none (l v : List α) (a : Nat) : splice l a none v = l.take a ++ v := by
  simp only [splice, Option.getD_none]
  rw [List.drop_of_length_le (by omega), List.append_nil]

theorem splice_some (l v : List α) (a b : Nat) : splice l a (some b) v = CrossMut.sliceAssign l a b v := rfl

theorem onepoint_copy_sim (ind1 ind2 : Nat) (hne : ind1 ≠ ind2) (h : Heap α) (h1 : ind1 < h.next) (h2 : ind2 < h.next)
    (cx : Nat) :
    ∃ h', CrossMutBuf.cxOnePoint .copy ind1 ind2 cx h = .ok (ind1, ind2) h' ∧
      (h'.cell ind1, h'.cell ind2) = CrossMut.cxOnePoint (h.cell ind1) (h.cell ind2) cx ∧ Frame2A ind1 ind2 h h' := by
  obtain ⟨h', e, c1, c2, fr⟩ := swapSlices_copy ind1 ind2 hne h h1 h2 cx none cx none
  refine ⟨h', ?_, ?_, fr⟩
  · unfold CrossMutBuf.cxOnePoint; rw [bind_ok e]; rfl
  · rw [c1, c2, splice_none, splice_none]; rfl

theorem twopoint_copy_sim (ind1 ind2 : Nat) (hne : ind1 ≠ ind2) (h : Heap α) (h1 : ind1 < h.next) (h2 : ind2 < h.next)
    (cx1 cx2 : Nat) :
    ∃ h', CrossMutBuf.cxTwoPoint .copy ind1 ind2 cx1 cx2 h = .ok (ind1, ind2) h' ∧
      (h'.cell ind1, h'.cell ind2) = CrossMut.cxTwoPoint (h.cell ind1) (h.cell ind2) cx1 cx2 ∧ Frame2A ind1 ind2 h h' := by
  obtain ⟨h', e, c1, c2, fr⟩ := swapSlices_copy ind1 ind2 hne h h1 h2 (CrossMut.normCx cx1 cx2).1
    (some (CrossMut.normCx cx1 cx2).2) (CrossMut.normCx cx1 cx2).1 (some (CrossMut.normCx cx1 cx2).2)
  refine ⟨h', ?_, ?_, fr⟩
  · unfold CrossMutBuf.cxTwoPoint; rw [bind_ok e]; rfl
  · rw [c1, c2]; rfl

theorem messy_copy_sim (ind1 ind2 : Nat) (hne : ind1 ≠ ind2) (h : Heap α) (h1 : ind1 < h.next) (h2 : ind2 < h.next)
    (cx1 cx2 : Nat) :
    ∃ h', CrossMutBuf.cxMessyOnePoint .copy ind1 ind2 cx1 cx2 h = .ok (ind1, ind2) h' ∧
      (h'.cell ind1, h'.cell ind2) = CrossMut.cxMessyOnePoint (h.cell ind1) (h.cell ind2) cx1 cx2 ∧ Frame2A ind1 ind2 h h' := by
  obtain ⟨h', e, c1, c2, fr⟩ := swapSlices_copy ind1 ind2 hne h h1 h2 cx1 none cx2 none
  refine ⟨h', ?_, ?_, fr⟩
  · unfold CrossMutBuf.cxMessyOnePoint; rw [bind_ok e]; rfl
  · rw [c1, c2, splice_none, splice_none]; rfl

/-- the two-point crossover on numpy-backed individuals: child 1 is what it should be, child 2 is
still parent 2 -/
theorem twopoint_view_sim (ind1 ind2 : Nat) (hne : ind1 ≠ ind2) (h : Heap α) (cx1 cx2 : Nat)
    (hok : CrossMut.cxTwoPointOk (h.cell ind1) (h.cell ind2) cx1 cx2) :
    ∃ h', CrossMutBuf.cxTwoPoint .view ind1 ind2 cx1 cx2 h = .ok (ind1, ind2) h' ∧
      h'.cell ind1 = (CrossMut.cxTwoPoint (h.cell ind1) (h.cell ind2) cx1 cx2).1 ∧ h'.cell ind2 = h.cell ind2 ∧
      Frame2 ind1 ind2 h h' := by
  obtain ⟨g1, g2, g3, g4⟩ := hok
  have hn := normCx_spec cx1 cx2 _ g1 g2 g3 g4
  generalize hc : CrossMut.normCx cx1 cx2 = c at hn
  have k1 : clampSlice (h.cell ind1).length c.1 (some c.2) = (c.1, c.2 - c.1) := by
    simp only [clampSlice]; rw [Nat.min_eq_left (by omega), Nat.min_eq_left (by omega)]
  have k2 : clampSlice (h.cell ind2).length c.1 (some c.2) = (c.1, c.2 - c.1) := by
    simp only [clampSlice]; rw [Nat.min_eq_left (by omega), Nat.min_eq_left (by omega)]
  obtain ⟨h', e, c1, c2, fr⟩ := swapSlices_view ind1 ind2 hne h c.1 (some c.2) c.1 (some c.2) (by rw [k1, k2])
  refine ⟨h', ?_, ?_, c2, fr⟩
  · unfold CrossMutBuf.cxTwoPoint
    rw [hc, bind_ok e]; rfl
  · rw [c1, k1]
    simp only [CrossMut.cxTwoPoint, hc, CrossMut.sliceAssign, CrossMut.pySlice, pySliceO]
    rw [show c.1 + (c.2 - c.1) = max c.1 c.2 by omega]

/-- the one-point crossover on numpy-backed individuals of EQUAL length: child 2 is still parent 2
(for different lengths the stores raise `ValueError` or broadcast, see `C09.slice_swap_view_loses_genes`) -/
theorem onepoint_view_sim (ind1 ind2 : Nat) (hne : ind1 ≠ ind2) (h : Heap α) (cx : Nat)
    (hlen : (h.cell ind1).length = (h.cell ind2).length) :
    ∃ h', CrossMutBuf.cxOnePoint .view ind1 ind2 cx h = .ok (ind1, ind2) h' ∧
      h'.cell ind1 = (CrossMut.cxOnePoint (h.cell ind1) (h.cell ind2) cx).1 ∧ h'.cell ind2 = h.cell ind2 ∧
      Frame2 ind1 ind2 h h' := by
  obtain ⟨h', e, c1, c2, fr⟩ := swapSlices_view ind1 ind2 hne h cx none cx none (by rw [hlen])
  refine ⟨h', ?_, ?_, c2, fr⟩
  · unfold CrossMutBuf.cxOnePoint; rw [bind_ok e]; rfl
  · rw [c1]
    simp only [clampSlice, CrossMut.cxOnePoint, pySliceO]
    have hd : List.drop (min cx (h.cell ind1).length + ((h.cell ind1).length - min cx (h.cell ind1).length)) (h.cell ind1) = [] :=
      List.drop_of_length_le (by omega)
    rw [hd, List.append_nil]
    congr 1
    by_cases hc : cx ≤ (h.cell ind1).length
    · rw [Nat.min_eq_left hc]
    · rw [Nat.min_eq_right (by omega), List.take_of_length_le (by omega), List.take_of_length_le (by omega)]

/-! ### cxESTwoPoint: two heaps -/

theorem twopoint_swap (d : Disc) (ind1 ind2 pt1 pt2 : Nat) (h hg : Heap α)
    (e : CrossMutBuf.cxTwoPoint d ind1 ind2 pt1 pt2 h = .ok (ind1, ind2) hg) :
    CrossMutBuf.swapSlices d ind1 ind2 (CrossMut.normCx pt1 pt2).1 (some (CrossMut.normCx pt1 pt2).2)
      (CrossMut.normCx pt1 pt2).1 (some (CrossMut.normCx pt1 pt2).2) h = .ok () hg := by
  unfold CrossMutBuf.cxTwoPoint at e
  rw [bind_apply] at e
  cases hs : CrossMutBuf.swapSlices d ind1 ind2 (CrossMut.normCx pt1 pt2).1 (some (CrossMut.normCx pt1 pt2).2)
      (CrossMut.normCx pt1 pt2).1 (some (CrossMut.normCx pt1 pt2).2) h with
  | ok u h1 =>
    rw [hs] at e
    have : h1 = hg := by
      have e' : (Res.ok (ind1, ind2) h1 : Res (Heap α) (Nat × Nat)) = Res.ok (ind1, ind2) hg := e
      cases e'; rfl
    rw [this]
  | raise er h1 =>
    rw [hs] at e
    have e' : (Res.raise er h1 : Res (Heap α) (Nat × Nat)) = Res.ok (ind1, ind2) hg := e
    cases e'

theorem es_run {σ : Type} (dg ds : Disc) (ind1 ind2 s1 s2 pt1 pt2 : Nat) (h : Heap α × Heap σ) (hg : Heap α) (hs : Heap σ)
    (eg : CrossMutBuf.swapSlices dg ind1 ind2 (CrossMut.normCx pt1 pt2).1 (some (CrossMut.normCx pt1 pt2).2)
      (CrossMut.normCx pt1 pt2).1 (some (CrossMut.normCx pt1 pt2).2) h.1 = .ok () hg)
    (es : CrossMutBuf.swapSlices ds s1 s2 (CrossMut.normCx pt1 pt2).1 (some (CrossMut.normCx pt1 pt2).2)
      (CrossMut.normCx pt1 pt2).1 (some (CrossMut.normCx pt1 pt2).2) h.2 = .ok () hs) :
    CrossMutBuf.cxESTwoPoint dg ds ind1 ind2 s1 s2 pt1 pt2 h = .ok (ind1, ind2) (hg, hs) := by
  unfold CrossMutBuf.cxESTwoPoint
  simp only [eg, es]

theorem es_copy_sim {σ : Type} (ind1 ind2 s1 s2 : Nat) (hne : ind1 ≠ ind2) (hns : s1 ≠ s2) (h : Heap α × Heap σ)
    (h1 : ind1 < h.1.next) (h2 : ind2 < h.1.next) (h3 : s1 < h.2.next) (h4 : s2 < h.2.next) (pt1 pt2 : Nat) :
    ∃ h', CrossMutBuf.cxESTwoPoint .copy .copy ind1 ind2 s1 s2 pt1 pt2 h = .ok (ind1, ind2) h' ∧
      ((⟨h'.1.cell ind1, h'.2.cell s1⟩ : CrossMut.ESInd α σ), (⟨h'.1.cell ind2, h'.2.cell s2⟩ : CrossMut.ESInd α σ))
        = CrossMut.cxESTwoPoint ⟨h.1.cell ind1, h.2.cell s1⟩ ⟨h.1.cell ind2, h.2.cell s2⟩ pt1 pt2 ∧
      Frame2A ind1 ind2 h.1 h'.1 ∧ Frame2A s1 s2 h.2 h'.2 := by
  obtain ⟨hg, eg, g1, g2, fg⟩ := swapSlices_copy ind1 ind2 hne h.1 h1 h2 (CrossMut.normCx pt1 pt2).1
    (some (CrossMut.normCx pt1 pt2).2) (CrossMut.normCx pt1 pt2).1 (some (CrossMut.normCx pt1 pt2).2)
  obtain ⟨hs, es, t1, t2, fs⟩ := swapSlices_copy s1 s2 hns h.2 h3 h4 (CrossMut.normCx pt1 pt2).1
    (some (CrossMut.normCx pt1 pt2).2) (CrossMut.normCx pt1 pt2).1 (some (CrossMut.normCx pt1 pt2).2)
  refine ⟨(hg, hs), es_run _ _ _ _ _ _ _ _ h hg hs eg es, ?_, fg, fs⟩
  simp only [g1, g2, t1, t2]; rfl

/-- numpy-backed evolution-strategy individuals with numpy strategies: the first individual receives the
segment together with its strategy values, the second individual keeps both — the pairs of the
first parent's segment are lost -/
theorem es_view_sim {σ : Type} (ind1 ind2 s1 s2 : Nat) (hne : ind1 ≠ ind2) (hns : s1 ≠ s2) (h : Heap α × Heap σ)
    (pt1 pt2 : Nat)
    (hok : CrossMut.cxTwoPointOk (h.1.cell ind1) (h.1.cell ind2) pt1 pt2)
    (hl1 : (h.1.cell ind1).length = (h.2.cell s1).length) (hl2 : (h.1.cell ind2).length = (h.2.cell s2).length) :
    ∃ h', CrossMutBuf.cxESTwoPoint .view .view ind1 ind2 s1 s2 pt1 pt2 h = .ok (ind1, ind2) h' ∧
      (⟨h'.1.cell ind1, h'.2.cell s1⟩ : CrossMut.ESInd α σ)
        = (CrossMut.cxESTwoPoint ⟨h.1.cell ind1, h.2.cell s1⟩ ⟨h.1.cell ind2, h.2.cell s2⟩ pt1 pt2).1 ∧
      h'.1.cell ind2 = h.1.cell ind2 ∧ h'.2.cell s2 = h.2.cell s2 ∧
      Frame2 ind1 ind2 h.1 h'.1 ∧ Frame2 s1 s2 h.2 h'.2 := by
  obtain ⟨hg, eg, g1, g2, fg⟩ := twopoint_view_sim ind1 ind2 hne h.1 pt1 pt2 hok
  obtain ⟨hs, es, t1, t2, fs⟩ := twopoint_view_sim s1 s2 hns h.2 pt1 pt2 (by
    unfold CrossMut.cxTwoPointOk at hok ⊢; rw [← hl1, ← hl2]; exact hok)
  refine ⟨(hg, hs), es_run _ _ _ _ _ _ _ _ h hg hs ?_ ?_, ?_, g2, t2, fg, fs⟩
  · exact twopoint_swap _ _ _ _ _ _ _ eg
  · exact twopoint_swap _ _ _ _ _ _ _ es
  · simp only [g1, t1]; rfl

/-! ### mutInversion -/

/-- `mutInversion` on a list / array.array is the list model -/
theorem inversion_copy_sim (ind : Nat) (h : Heap α) (hlt : ind < h.next) (i1 i2 : Nat) :
    ∃ h', CrossMutBuf.mutInversion .copy ind i1 i2 h = .ok ind h' ∧
      h'.cell ind = CrossMut.mutInversion (h.cell ind) i1 i2 ∧
      (∀ o, o < h.next → o ≠ ind → h'.cell o = h.cell o) ∧ h.next ≤ h'.next := by
  unfold CrossMutBuf.mutInversion CrossMut.mutInversion
  rw [bind_ok (len_apply ind h)]
  by_cases h0 : (h.cell ind).length = 0
  · rw [if_pos h0, if_pos h0]
    exact ⟨h, rfl, rfl, fun _ _ _ => rfl, Nat.le_refl _⟩
  · rw [if_neg h0, if_neg h0]
    let s := min i1 i2
    let e := max i1 i2
    let hA := h.alloc (pySliceO (h.cell ind) s (some e))
    let hB := hA.alloc (pySliceO (h.cell ind) s (some e)).reverse
    have s1 : (slice .copy (.buf ind) s (some e) : M α Obj) h = .ok (.buf h.next) hA := rfl
    have s2 : (rev .copy (.buf h.next) : M α Obj) hA = .ok (.buf (h.next + 1)) hB := by
      show Res.ok _ _ = _
      simp only [Heap.read, hA, cell_alloc_next]; rfl
    have cB : hB.cell ind = h.cell ind := by
      rw [cell_alloc_lt _ _ _ (by simp [hA]; omega)]; exact cell_alloc_lt _ _ _ hlt
    have cBn : hB.cell (h.next + 1) = (pySliceO (h.cell ind) s (some e)).reverse := cell_alloc_next hA _
    refine ⟨hB.write ind (CrossMut.sliceAssign (h.cell ind) s e (CrossMut.pySlice (h.cell ind) s e).reverse), ?_,
      cell_write_same _ _ _, ?_, ?_⟩
    · rw [bind_ok s1, bind_ok s2]
      show (sliceAssign .copy ind s (some e) (.buf (h.next + 1)) >>= _) hB = _
      have s3 : (sliceAssign .copy ind s (some e) (.buf (h.next + 1)) : M α Unit) hB
          = .ok () (hB.write ind (CrossMut.sliceAssign (h.cell ind) s e (CrossMut.pySlice (h.cell ind) s e).reverse)) := by
        show Res.ok _ _ = _
        simp only [Heap.read, cB, cBn]; rfl
      rw [bind_ok s3]; rfl
    · intro o ho o1
      rw [cell_write_ne _ _ _ _ o1, cell_alloc_lt _ _ _ (by simp [hA]; omega), cell_alloc_lt _ _ _ ho]
    · show h.next ≤ h.next + 1 + 1
      omega

/-- `mutInversion` on a numpy array: `individual[start:end][::-1]` is a reversed window onto the
individual itself, but the slice assignment reads its whole right-hand side before it writes
(numpy's overlap rule), so the result is the list model's -/
theorem inversion_view_sim (ind : Nat) (h : Heap α) (i1 i2 : Nat)
    (hok : CrossMut.mutInversionOk (h.cell ind) i1 i2) :
    ∃ h', CrossMutBuf.mutInversion .view ind i1 i2 h = .ok ind h' ∧
      h'.cell ind = CrossMut.mutInversion (h.cell ind) i1 i2 ∧
      (∀ o, o ≠ ind → h'.cell o = h.cell o) ∧ h'.next = h.next := by
  unfold CrossMutBuf.mutInversion CrossMut.mutInversion
  rw [bind_ok (len_apply ind h)]
  by_cases h0 : (h.cell ind).length = 0
  · rw [if_pos h0, if_pos h0]
    exact ⟨h, rfl, rfl, fun _ _ => rfl, rfl⟩
  · rw [if_neg h0, if_neg h0]
    have hb : i1 < (h.cell ind).length ∧ i2 < (h.cell ind).length := by
      rcases hok with ⟨e, _, _⟩ | hh
      · exact absurd e h0
      · exact hh
    generalize hs : min i1 i2 = s
    generalize he : max i1 i2 = e
    have hse : s ≤ e ∧ e < (h.cell ind).length := by omega
    have k : clampSlice (h.cell ind).length s (some e) = (s, e - s) := by
      simp only [clampSlice]; rw [Nat.min_eq_left (by omega), Nat.min_eq_left (by omega)]
    have s1 : (slice .view (.buf ind) s (some e) : M α Obj) h = .ok (.win ind s (e - s) false) h := by
      show Res.ok _ _ = _
      simp only [viewSlice, k]
    have s2 : (rev .view (.win ind s (e - s) false) : M α Obj) h = .ok (.win ind s (e - s) true) h := rfl
    have hv : window (h.cell ind) s (e - s) true = (CrossMut.pySlice (h.cell ind) s e).reverse := by
      simp only [window, if_true, CrossMut.pySlice, List.drop_take]
    have hvl : (window (h.cell ind) s (e - s) true).length = e - s := by
      simp only [window, if_true, List.length_reverse]; exact window_length _ _ _ (by omega)
    have s3 : (sliceAssign .view ind s (some e) (.win ind s (e - s) true) : M α Unit) h
        = .ok () (h.write ind (CrossMut.sliceAssign (h.cell ind) s e (CrossMut.pySlice (h.cell ind) s e).reverse)) := by
      unfold sliceAssign
      simp only [Heap.read, k]
      rw [if_pos hvl, hv]
      simp only [CrossMut.sliceAssign]
      rw [show s + (e - s) = max s e by omega]
    refine ⟨h.write ind (CrossMut.sliceAssign (h.cell ind) s e (CrossMut.pySlice (h.cell ind) s e).reverse), ?_,
      cell_write_same _ _ _, fun o o1 => cell_write_ne _ _ _ _ o1, rfl⟩
    rw [bind_ok s1, bind_ok s2, bind_ok s3]; rfl

/-! ### mutFlipBit, mutShuffleIndexes, mutUniformInt -/

theorem flip_sim [CrossMut.PyNot α] (d : Disc) (ind : Nat) (ds : List Bool) (h : Heap α) :
    ∃ h', CrossMutBuf.mutFlipBit d ind ds h = .ok ind h' ∧
      h'.cell ind = CrossMut.mutFlipBit (h.cell ind) ds ∧ Frame1 ind h h' := by
  obtain ⟨u, h', hl, ⟨hR1, hR2⟩, _⟩ := forFold_sim
    (R := fun (_ : Unit) (hh : Heap α) (l : List α) => hh.cell ind = l ∧ Frame1 ind h hh)
    (Q := fun l => l.length = (h.cell ind).length)
    (body := fun _ (id : Nat × Bool) =>
      if id.2 then (getItem ind id.1 >>= fun x => setItem ind id.1 (CrossMut.PyNot.pyNot x)) else pure ())
    (f := fun (l : List α) (id : Nat × Bool) =>
      if id.2 then
        match l[id.1]? with
        | some x => l.set id.1 (CrossMut.PyNot.pyNot x)
        | none => l
      else l)
    (l := (List.range (h.cell ind).length).zip ds)
    (by
      intro s hh l id hid ⟨r1, r2⟩ q
      have hlt : id.1 < (h.cell ind).length := by
        have := (List.of_mem_zip hid).1
        simpa using this
      by_cases hd : id.2 = true
      · simp only [hd, if_true]
        have hi : id.1 < (hh.cell ind).length := by rw [r1, q]; exact hlt
        have hx : (hh.cell ind)[id.1]? = some (hh.cell ind)[id.1] := List.getElem?_eq_getElem hi
        refine ⟨(), hh.write ind ((hh.cell ind).set id.1 (CrossMut.PyNot.pyNot (hh.cell ind)[id.1])), ?_, ⟨?_, ?_⟩, ?_⟩
        · rw [bind_ok (getItem_ok hx), setItem_ok _ hi]
        · rw [cell_write_same, ← r1, hx]
        · exact r2.trans (Frame1.write _ _ _)
        · rw [← r1, hx]; simp only [List.length_set]; rw [r1]; exact q
      · simp only [hd]
        exact ⟨(), hh, rfl, ⟨r1, r2⟩, q⟩)
    () h (h.cell ind) ⟨rfl, Frame1.refl _ _⟩ rfl
  refine ⟨h', ?_, ?_, hR2⟩
  · unfold CrossMutBuf.mutFlipBit
    rw [bind_ok (len_apply ind h)]
    show (forFold _ () _ >>= _) h = _
    rw [bind_ok hl]; rfl
  · rw [hR1]; rfl

theorem shuffle_sim (d : Disc) (ind : Nat) (ds : List (Option Nat)) (h : Heap α)
    (hok : CrossMut.mutShuffleIndexesOk (h.cell ind) ds) :
    ∃ h', CrossMutBuf.mutShuffleIndexes d ind ds h = .ok ind h' ∧
      CrossMut.mutShuffleIndexes (h.cell ind) ds = some (h'.cell ind) ∧ Frame1 ind h h' := by
  obtain ⟨_, hds⟩ := hok
  obtain ⟨u, h', hl, ⟨hR1, hR2⟩, _⟩ := forFold_sim
    (R := fun (_ : Unit) (hh : Heap α) (t : Option (List α)) => t = some (hh.cell ind) ∧ Frame1 ind h hh)
    (Q := fun t => ∃ l, t = some l ∧ l.length = (h.cell ind).length)
    (body := fun _ (id : Nat × Option Nat) =>
      match id.2 with
      | none => pure ()
      | some s =>
        if s + 2 ≤ (h.cell ind).length then
          (getItem ind (if s ≥ id.1 then s + 1 else s) >>= fun x => getItem ind id.1 >>= fun y =>
            setItem ind id.1 x >>= fun _ => setItem ind (if s ≥ id.1 then s + 1 else s) y)
        else raise .value)
    (f := CrossMut.shuffleStep (h.cell ind).length)
    (l := (List.range (h.cell ind).length).zip ds)
    (by
      intro s hh t id hid ⟨r1, r2⟩ ⟨l, q1, q2⟩
      have hlt : id.1 < (h.cell ind).length := by
        have := (List.of_mem_zip hid).1
        simpa using this
      have hl : hh.cell ind = l := by rw [r1] at q1; exact (Option.some.inj q1)
      cases hd : id.2 with
      | none =>
        simp only [hd]
        exact ⟨(), hh, rfl, ⟨by rw [r1]; simp [CrossMut.shuffleStep, hd], r2⟩, l, by rw [q1]; simp [CrossMut.shuffleStep, hd], q2⟩
      | some sv =>
        have hs := hds id.2 (List.of_mem_zip hid).2 sv hd
        simp only [hd, if_pos hs]
        generalize hj : (if sv ≥ id.1 then sv + 1 else sv) = j
        have hjlt : j < (hh.cell ind).length := by rw [hl, q2, ← hj]; split <;> omega
        have hilt : id.1 < (hh.cell ind).length := by rw [hl, q2]; exact hlt
        have hx : (hh.cell ind)[j]? = some (hh.cell ind)[j] := List.getElem?_eq_getElem hjlt
        have hy : (hh.cell ind)[id.1]? = some (hh.cell ind)[id.1] := List.getElem?_eq_getElem hilt
        have hstep : CrossMut.shuffleStep (h.cell ind).length t id
            = some (((hh.cell ind).set id.1 (hh.cell ind)[j]).set j (hh.cell ind)[id.1]) := by
          rw [r1]
          simp only [CrossMut.shuffleStep, hd, if_pos hs, hj, CrossMut.pySwap?, hx, hy]
        refine ⟨(), (hh.write ind ((hh.cell ind).set id.1 (hh.cell ind)[j])).write ind
          (((hh.cell ind).set id.1 (hh.cell ind)[j]).set j (hh.cell ind)[id.1]), ?_, ⟨?_, ?_⟩, ?_⟩
        · rw [bind_ok (getItem_ok hx), bind_ok (getItem_ok hy), bind_ok (setItem_ok _ hilt)]
          rw [setItem_ok _ (by rw [cell_write_same]; simpa using hjlt), cell_write_same]
        · rw [hstep, cell_write_same]
        · exact (r2.trans (Frame1.write _ _ _)).trans (Frame1.write _ _ _)
        · exact ⟨_, hstep, by simp only [List.length_set]; rw [hl, q2]⟩)
    () h (some (h.cell ind)) ⟨rfl, Frame1.refl _ _⟩ ⟨_, rfl, rfl⟩
  refine ⟨h', ?_, ?_, hR2⟩
  · unfold CrossMutBuf.mutShuffleIndexes
    rw [bind_ok (len_apply ind h)]
    exact (bind_ok hl).trans rfl
  · rw [← hR1]; rfl

theorem uniformIntLoop_sim (ind : Nat) (trip : List (Nat × Int × Int)) (ds : List (Option Int)) (h : Heap Int)
    (out : List Int) (hin : ∀ t ∈ trip, t.1 < (h.cell ind).length)
    (hm : CrossMut.mutUniformIntLoop trip ds (h.cell ind) = some out) :
    ∃ h', CrossMutBuf.mutUniformIntLoop ind trip ds h = .ok () h' ∧ h'.cell ind = out ∧ Frame1 ind h h' := by
  induction trip generalizing ds h with
  | nil =>
    simp only [CrossMut.mutUniformIntLoop, Option.some.injEq] at hm
    exact ⟨h, rfl, hm, Frame1.refl _ _⟩
  | cons t rest ih =>
    obtain ⟨i, xl, xu⟩ := t
    cases ds with
    | nil => simp [CrossMut.mutUniformIntLoop] at hm
    | cons dd ds =>
      cases dd with
      | none =>
        simp only [CrossMut.mutUniformIntLoop] at hm
        obtain ⟨h', e, c, fr⟩ := ih ds h (fun t ht => hin t (by simp [ht])) hm
        exact ⟨h', by simp only [CrossMutBuf.mutUniformIntLoop]; exact e, c, fr⟩
      | some v =>
        simp only [CrossMut.mutUniformIntLoop] at hm
        cases hr : CrossMut.randint xl xu v with
        | none => simp [hr] at hm
        | some w =>
          simp only [hr] at hm
          have hi : i < (h.cell ind).length := hin (i, xl, xu) (by simp)
          obtain ⟨h', e, c, fr⟩ := ih ds (h.write ind ((h.cell ind).set i w))
            (fun t ht => by rw [cell_write_same]; simpa using hin t (by simp [ht]))
            (by rw [cell_write_same]; exact hm)
          refine ⟨h', ?_, c, (Frame1.write _ _ _).trans fr⟩
          simp only [CrossMutBuf.mutUniformIntLoop, hr]
          rw [bind_ok (setItem_ok _ hi)]; exact e

theorem uniformInt_sim (d : Disc) (ind : Nat) (low up : CrossMut.Bound) (ds : List (Option Int)) (h : Heap Int)
    (out : List Int) (hm : CrossMut.mutUniformInt (h.cell ind) low up ds = some out) :
    ∃ h', CrossMutBuf.mutUniformInt d ind low up ds h = .ok ind h' ∧ h'.cell ind = out ∧ Frame1 ind h h' := by
  unfold CrossMut.mutUniformInt at hm
  unfold CrossMutBuf.mutUniformInt
  rw [bind_ok (len_apply ind h)]
  cases hlo : low.toSeq (h.cell ind).length with
  | none => simp [hlo] at hm
  | some lo =>
    cases hhi : up.toSeq (h.cell ind).length with
    | none => simp [hlo, hhi] at hm
    | some hi =>
      simp only [hlo, hhi] at hm ⊢
      by_cases hl : ds.length = (h.cell ind).length
      · rw [if_pos hl] at hm ⊢
        obtain ⟨h', e, c, fr⟩ := uniformIntLoop_sim ind _ ds h out (by
          intro t ht
          have := (List.of_mem_zip ht).1
          simpa using this) hm
        exact ⟨h', (bind_ok e).trans rfl, c, fr⟩
      · rw [if_neg hl] at hm; cases hm

end C09B
