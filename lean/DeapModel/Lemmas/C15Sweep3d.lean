import DeapModel.Lemmas.C15Sweep2d
import DeapModel.Lemmas.C15Sym
/-!
C15 — the transcribed algorithm computes the specification in THREE dimensions (`sweep_3d'`): the general
case of `hvRecursive` at `dimIndex = 2`, called once with every bound at −∞: all nodes but the first are
removed, then reinserted one by one in the order of the last coordinate, each time calling the 2-D staircase
on the nodes present; `hvol` accumulates `area(prefix) × thickness` — the slab decomposition along the last
coordinate.  (No cached area / volume is reused and no `ignore` mark is consulted in this call pattern; that
is what remains open for `d ≥ 4`.)
-/
namespace HvSweep
open Hypervolume
set_option linter.unusedVariables false

/-! ### field frames: what the steps leave alone -/

/-- same area table, ignore flags and bounds -/
structure SameAIB (S T : St) : Prop where
  area : T.area = S.area
  ignore : T.ignore = S.ignore
  bounds : T.bounds = S.bounds

theorem SameAIB.refl (S : St) : SameAIB S S := ⟨rfl, rfl, rfl⟩
theorem SameAIB.trans {S T U : St} (h₁ : SameAIB S T) (h₂ : SameAIB T U) : SameAIB S U :=
  ⟨h₂.area.trans h₁.area, h₂.ignore.trans h₁.ignore, h₂.bounds.trans h₁.bounds⟩

theorem extend_fields (i : ℕ) : ∀ (nodes : List ℕ) (S : St), SameAIB S (extend S nodes i)
  | [], S => SameAIB.refl S
  | x :: xs, S => by
    rw [extend_cons]
    exact (show SameAIB S (extendStep S i x) from ⟨rfl, rfl, rfl⟩).trans (extend_fields i xs _)

theorem preLoop_fields (C : Cargo) : ∀ (is : List ℕ) (S : St) (nodes : List ℕ), SameAIB S (preLoop C is S nodes)
  | [], S, _ => SameAIB.refl S
  | i :: is, S, nodes => (extend_fields i _ S).trans (preLoop_fields C is _ _)

theorem preProcess_fields (C : Cargo) (dims n : ℕ) : SameAIB (initSt dims n) (preProcess C dims n) :=
  preLoop_fields C _ _ _

/-- same area and ignore; bounds of the dimensions `≥ k` unchanged -/
structure SameAI (k : ℕ) (S T : St) : Prop where
  area : T.area = S.area
  ignore : T.ignore = S.ignore
  bounds : ∀ j, k ≤ j → T.bounds.getD j none = S.bounds.getD j none

theorem SameAI.refl (k : ℕ) (S : St) : SameAI k S S := ⟨rfl, rfl, fun _ _ => rfl⟩
theorem SameAI.trans {k : ℕ} {S T U : St} (h₁ : SameAI k S T) (h₂ : SameAI k T U) : SameAI k S U :=
  ⟨h₂.area.trans h₁.area, h₂.ignore.trans h₁.ignore, fun j hj => (h₂.bounds j hj).trans (h₁.bounds j hj)⟩

theorem lowerBound_sameAI (C : Cargo) (S : St) (x i k : ℕ) (hik : i < k) : SameAI k S (lowerBound C S x i) := by
  unfold lowerBound
  split
  · refine ⟨rfl, rfl, fun j hj => ?_⟩
    show (S.bounds.set i _).getD j none = _
    exact getD_set_ne _ _ _ _ _ (by omega)
  · exact SameAI.refl k S

theorem remove_sameAI (C : Cargo) (x : ℕ) : ∀ (k : ℕ) (S : St), SameAI k S (remove C S x k)
  | 0, S => SameAI.refl 0 S
  | k + 1, S => by
    rw [remove_succ]
    have h1 := remove_sameAI C x k S
    have h1' : SameAI (k + 1) S (remove C S x k) := ⟨h1.area, h1.ignore, fun j hj => h1.bounds j (by omega)⟩
    have h2 : SameAI (k + 1) (remove C S x k) (unlink (remove C S x k) k x) := ⟨rfl, rfl, fun _ _ => rfl⟩
    exact (h1'.trans h2).trans (lowerBound_sameAI C _ x k (k + 1) (by omega))

theorem reinsert_sameAI (C : Cargo) (x : ℕ) : ∀ (k : ℕ) (S : St), SameAI k S (reinsert C S x k)
  | 0, S => SameAI.refl 0 S
  | k + 1, S => by
    rw [reinsert_succ]
    have h1 := reinsert_sameAI C x k S
    have h1' : SameAI (k + 1) S (reinsert C S x k) := ⟨h1.area, h1.ignore, fun j hj => h1.bounds j (by omega)⟩
    have h2 : SameAI (k + 1) (reinsert C S x k) (relink (reinsert C S x k) k x) := ⟨rfl, rfl, fun _ _ => rfl⟩
    exact (h1'.trans h2).trans (lowerBound_sameAI C _ x k (k + 1) (by omega))

theorem removeSeq_sameAI (C : Cargo) (k : ℕ) : ∀ (rs : List ℕ) (S : St), SameAI k S (removeSeq C k S rs)
  | [], S => SameAI.refl k S
  | x :: rs, S => by
    rw [removeSeq_cons]
    exact (remove_sameAI C x k S).trans (removeSeq_sameAI C k rs _)

/-! ### a well-formed list is determined by the pointers -/

theorem seg_unique (S : St) (i : ℕ) : ∀ (l₁ l₂ : List ℕ) (a : ℕ), Seg S i a l₁ 0 → Seg S i a l₂ 0 →
    (∀ x ∈ l₁, x ≠ 0) → (∀ x ∈ l₂, x ≠ 0) → l₁ = l₂
  | [], [], _, _, _, _, _ => rfl
  | [], b :: l₂, a, h1, h2, _, hn2 => by
    have e1 : nx S i a = 0 := h1.1
    have e2 : nx S i a = b := h2.1.1
    exact absurd (e2.symm.trans e1) (hn2 b (by simp))
  | b :: l₁, [], a, h1, h2, hn1, _ => by
    have e1 : nx S i a = b := h1.1.1
    have e2 : nx S i a = 0 := h2.1
    exact absurd (e1.symm.trans e2) (hn1 b (by simp))
  | b :: l₁, c :: l₂, a, h1, h2, hn1, hn2 => by
    have e1 : nx S i a = b := h1.1.1
    have e2 : nx S i a = c := h2.1.1
    have hbc : b = c := e1.symm.trans e2
    subst hbc
    rw [seg_unique S i l₁ l₂ b h1.2 h2.2 (fun x hx => hn1 x (by simp [hx])) (fun x hx => hn2 x (by simp [hx]))]

theorem dl_unique {n : ℕ} {S : St} {i : ℕ} {L₁ L₂ : List ℕ} (h1 : DL n S i L₁) (h2 : DL n S i L₂) : L₁ = L₂ :=
  seg_unique S i L₁ L₂ 0 h1.1 h2.1 (fun x hx h0 => dl_zero_notMem h1 (h0 ▸ hx)) (fun x hx h0 => dl_zero_notMem h2 (h0 ▸ hx))

theorem dl_mem_of_dl {n : ℕ} {S : St} {i : ℕ} {L₁ L₂ : List ℕ} (h1 : DL n S i L₁) (h2 : DL n S i L₂) (a : ℕ)
    (ha : a ∈ L₁) : a ∈ L₂ := dl_unique h1 h2 ▸ ha

/-! ### the lists after a sequence of removals, explicitly -/

theorem removeSeq_dl {dims n : ℕ} (C : Cargo) {k : ℕ} (hk : k ≤ dims) {i : ℕ} (hi : i < k) :
    ∀ (rs : List ℕ) (S : St) (A L₀ : List ℕ), Shape dims n S → WFlt n S k A → DL n S i L₀ → rs.Nodup →
      (∀ y ∈ rs, y ∈ A) → DL n (removeSeq C k S rs) i (L₀.diff rs)
  | [], S, A, L₀, _, _, hd, _, _ => by rw [List.diff_nil]; exact hd
  | x :: rs, S, A, L₀, hS, hw, hd, hnd, hsub => by
    have hnd' := List.nodup_cons.mp hnd
    have hx : x ∈ A := hsub x (by simp)
    obtain ⟨hw1, hnf⟩ := remove_wf C hS hk hw hx
    have hxL : x ∈ L₀ := by
      obtain ⟨L, hdL, hp⟩ := hw i hi
      rw [dl_unique hd hdL]
      exact hp.mem_iff.mpr hx
    obtain ⟨h1, _, _⟩ := dl_unlink hS (by omega : i < dims) hd hxL
    have hd1 : DL n (remove C S x k) i (L₀.erase x) := dl_congr (remove_lt C x k S hS hk hnf i hi) h1
    rw [removeSeq_cons, List.diff_cons]
    exact removeSeq_dl C hk hi rs _ (A.erase x) (L₀.erase x) (shape_remove C x k S hS) hw1 hd1 hnd'.2
      (fun y hy => (List.mem_erase_of_ne (fun e : y = x => hnd'.1 (e ▸ hy))).mpr (hsub y (by simp [hy])))

/-! ### the loops of the general case when nothing is cached yet -/

theorem set_zero_of_all_zero (l : List ℕ) (q : ℕ) (h : ∀ a, l.getD a 0 = 0) : ∀ a, (l.set q 0).getD a 0 = 0 := by
  intro a
  by_cases ha : a = q
  · subst ha
    by_cases hq : a < l.length
    · exact getD_set_self l a 0 0 hq
    · rw [List.set_eq_of_length_le (by omega)]; exact h a
  · rw [getD_set_ne l q a 0 0 ha]; exact h a

theorem resetLoop_frame (k : ℕ) : ∀ (fuel q : ℕ) (S S' : St), resetLoop k fuel q S = some S' →
    S'.area = S.area ∧ S'.bounds = S.bounds ∧ ((∀ a, ign S a = 0) → ∀ a, ign S' a = 0)
  | 0, q, S, S', h => by
    unfold resetLoop at h
    split at h
    · cases h; exact ⟨rfl, rfl, fun h => h⟩
    · cases h
  | f + 1, q, S, S', h => by
    unfold resetLoop at h
    split at h
    · cases h; exact ⟨rfl, rfl, fun h => h⟩
    · dsimp only at h
      obtain ⟨h1, h2, h3⟩ := resetLoop_frame k f _ _ S' h
      have e1 : (if ign S q < k then setIgn S q 0 else S).area = S.area := by split <;> rfl
      have e2 : (if ign S q < k then setIgn S q 0 else S).bounds = S.bounds := by split <;> rfl
      refine ⟨h1.trans e1, h2.trans e2, fun hz => h3 ?_⟩
      split
      · exact set_zero_of_all_zero S.ignore q hz
      · exact hz

/-- with the bound of the level at −∞ the removal loop goes all the way down to one node -/
theorem removeLoop_none (C : Cargo) (k : ℕ) : ∀ (len : ℕ) (pre : List ℕ) (q : ℕ) (suf : List ℕ) (p : ℕ) (S : St),
    S.bounds.getD k none = none → len = pre.length + 1 → Seg S k 0 (pre ++ q :: suf) 0 →
    ∃ q' rs, removeLoop C k len p q S = ((rs.reverse ++ [p]).headD 0, q', 1, removeSeq C k S rs) ∧
      pre ++ [q] = q' :: rs.reverse
  | 0, pre, q, suf, p, S, _, hl, _ => by omega
  | 1, pre, q, suf, p, S, _, hl, _ => by
    have : pre = [] := List.length_eq_zero_iff.mp (by omega)
    subst this
    exact ⟨q, [], rfl, rfl⟩
  | len + 2, pre, q, suf, p, S, hb, hl, hs => by
    unfold removeLoop
    have hcond : (gtBound S k (cg C q k) || geBound S k (cg C (pv S k q) k)) = true := by
      unfold gtBound; rw [hb]; rfl
    rw [if_pos hcond]
    have hpre : pre ≠ [] := by intro h; rw [h] at hl; simp at hl
    obtain ⟨pre0, q1, rfl⟩ : ∃ pre0 q1, pre = pre0 ++ [q1] := ⟨pre.dropLast, pre.getLast hpre, (List.dropLast_append_getLast hpre).symm⟩
    set S1 := remove C S q k with hS1
    have hge : DimEq k S S1 := remove_ge C q k S k (le_refl _)
    have hpv : pv S1 k q = q1 := by
      rw [(hge q).2]
      have := (seg_node S k (pre0 ++ [q1]) 0 q suf 0 hs).1
      rw [this]
      simp
    dsimp only
    rw [hpv]
    have hs1 : Seg S1 k 0 (pre0 ++ q1 :: q :: suf) 0 := by
      have := seg_congr hge _ 0 0 hs
      simpa using this
    have hb1 : S1.bounds.getD k none = none := by
      rw [(remove_sameAI C q k S).bounds k (le_refl _)]; exact hb
    obtain ⟨q', rs', h1, h2⟩ := removeLoop_none C k (len + 1) pre0 q1 (q :: suf) q S1 hb1 (by simp at hl; omega) hs1
    refine ⟨q', q :: rs', ?_, ?_⟩
    · rw [h1, removeSeq_cons]
      congr 1
      simp only [List.reverse_cons, List.append_assoc]
      cases rs'.reverse <;> simp
    · rw [List.reverse_cons, ← List.cons_append, ← h2]

/-! ### the value of the 2-D base case on any well-formed state -/

/-- what the 2-D loop does to the other fields: nothing but `ignore`, and that only at the nodes it visits -/
theorem loop2d_frame (C : Cargo) : ∀ (fuel p q : ℕ) (h hvol : ℚ) (S S' : St) (r : ℚ × ℚ × ℕ),
    loop2d C fuel p q h hvol S = some (r.1, r.2.1, r.2.2, S') →
    S'.area = S.area ∧ S'.volume = S.volume ∧ S'.bounds = S.bounds ∧
      ∀ y, (∀ m, m ≤ fuel → y ≠ Nat.iterate (fun a => nx S 1 a) m p) → ign S' y = ign S y := by
  intro fuel
  induction fuel with
  | zero =>
    intro p q h hvol S S' r he
    unfold loop2d at he
    split at he
    · simp only [Option.some.injEq, Prod.mk.injEq] at he
      rw [← he.2.2.2]; exact ⟨rfl, rfl, rfl, fun _ _ => rfl⟩
    · cases he
  | succ f ih =>
    intro p q h hvol S S' r he
    unfold loop2d at he
    split at he
    · simp only [Option.some.injEq, Prod.mk.injEq] at he
      rw [← he.2.2.2]; exact ⟨rfl, rfl, rfl, fun _ _ => rfl⟩
    · dsimp only at he
      split at he
      · obtain ⟨h1, h2, h3, h4⟩ := ih _ _ _ _ S S' r he
        refine ⟨h1, h2, h3, fun y hy => h4 y (fun m hm => ?_)⟩
        have := hy (m + 1) (by omega)
        rwa [Function.iterate_succ_apply] at this
      · set S1 := (if ign S p = 0 then setIgn S p 1 else S) with hS1
        have hf : S1.area = S.area ∧ S1.volume = S.volume ∧ S1.bounds = S.bounds := by
          rw [hS1]; split <;> exact ⟨rfl, rfl, rfl⟩
        have hnx : ∀ a, nx S1 1 a = nx S 1 a := by intro a; rw [hS1]; split <;> rfl
        obtain ⟨h1, h2, h3, h4⟩ := ih _ _ _ _ S1 S' r he
        refine ⟨h1.trans hf.1, h2.trans hf.2.1, h3.trans hf.2.2, fun y hy => ?_⟩
        have hyp : y ≠ p := by have := hy 0 (Nat.zero_le _); simpa using this
        have e1 : ign S' y = ign S1 y := by
          apply h4 y
          intro m hm
          have := hy (m + 1) (by omega)
          rw [Function.iterate_succ_apply] at this
          have hit : ∀ (m : ℕ) (a : ℕ), Nat.iterate (fun a => nx S1 1 a) m a = Nat.iterate (fun a => nx S 1 a) m a := by
            intro m
            induction m with
            | zero => intro a; rfl
            | succ m ihm => intro a; rw [Function.iterate_succ_apply, Function.iterate_succ_apply, hnx, ihm]
          rw [hit, hnx]; exact this
        rw [e1, hS1]
        split
        · show (S.ignore.set p 1).getD y 0 = _
          exact getD_set_ne _ _ _ _ _ hyp
        · rfl

theorem dl_nx_closed {n : ℕ} {S : St} {i : ℕ} {L : List ℕ} (hd : DL n S i L) : ∀ a ∈ 0 :: L, nx S i a ∈ 0 :: L := by
  intro a ha
  rcases List.mem_cons.mp ha with rfl | ha
  · have := seg_nx_start S i L 0 0 hd.1
    rw [this]
    cases L with
    | nil => simp
    | cons b l => simp
  · obtain ⟨l₁, l₂, rfl⟩ := List.append_of_mem ha
    have := (seg_node S i l₁ 0 a l₂ 0 hd.1).2.1
    rw [this]
    cases l₂ with
    | nil => simp
    | cons b l => simp

theorem iterate_nx_mem {n : ℕ} {S : St} {i : ℕ} {L : List ℕ} (hd : DL n S i L) :
    ∀ (m : ℕ) (a : ℕ), a ∈ 0 :: L → Nat.iterate (fun a => nx S i a) m a ∈ 0 :: L
  | 0, a, ha => ha
  | m + 1, a, ha => by
    rw [Function.iterate_succ_apply]
    exact iterate_nx_mem hd m _ (dl_nx_closed hd a ha)

/-- **The 2-D base case on any well-formed state**: `hvRecursive(1, len, ·)` returns the area dominated by the
nodes present in the list of dimension 1 (sorted by the second coordinate), and touches nothing but the
`ignore` flags of those nodes (and the call counter). -/
theorem level1_value {dims n : ℕ} (C : Cargo) (r₁ r₂ : ℚ) (XY : ℕ → ℚ × ℚ) (fuel : ℕ) (S : St) (L : List ℕ)
    (len : ℕ) (hlen : len ≠ 0) (hS : Shape dims n S) (hd : DL n S 1 L) (hne : L ≠ []) (hf : L.length ≤ fuel)
    (hcg : ∀ a ∈ L, cg C a 0 = (XY a).1 - r₁ ∧ cg C a 1 = (XY a).2 - r₂)
    (hsorted : L.Pairwise (fun a b => cg C a 1 ≤ cg C b 1))
    (hle : ∀ a ∈ L, (XY a).1 ≤ r₁ ∧ (XY a).2 ≤ r₂) :
    ∃ S', hvRecursive C fuel 1 len S = some (hvCells [r₁, r₂] ((L.map XY).map toPt), S') ∧ PtrEq S S' ∧
      Shape dims n S' ∧ S'.area = S.area ∧ S'.volume = S.volume ∧ S'.bounds = S.bounds ∧
      ∀ y, y ∉ L → y ≠ 0 → ign S' y = ign S y := by
  cases L with
  | nil => exact absurd rfl hne
  | cons a l =>
    unfold hvRecursive
    dsimp only
    rw [if_neg hlen]
    set T := tick S 1 with hT
    have hdT : DL n T 1 (a :: l) := dl_ptrEq (S := S) (fun _ _ => ⟨rfl, rfl⟩) hd
    have hnx0 : nx T 1 0 = a := hdT.1.1.1
    have hne0 : ∀ p ∈ l, p ≠ 0 := fun p hp h0 => dl_zero_notMem hd (h0 ▸ List.mem_cons_of_mem _ hp)
    obtain ⟨S', hrun, hpe⟩ := loop2d_eq C l fuel a (cg C a 0) 0 T (by simp at hf; omega) hdT.1.2 hne0
    rw [hnx0, hrun]
    obtain ⟨f1, f2, f3, f4⟩ := loop2d_frame C fuel (nx T 1 a) a (cg C a 0) 0 T S' _ hrun
    refine ⟨S', ?_, (show PtrEq S T from fun _ _ => ⟨rfl, rfl⟩).trans hpe,
      shape_ptr_fields hS (loop2d_fields C l fuel a (cg C a 0) 0 T S' _ hrun).1
        (loop2d_fields C l fuel a (cg C a 0) 0 T S' _ hrun).2, f1, f2, f3, ?_⟩
    · dsimp only
      congr 1
      congr 1
      rw [stairNodes_XY C r₁ r₂ XY l a (cg C a 0) 0 hcg, (hcg a (by simp)).1]
      have hst := stairXY_eq_hvCells r₁ r₂ (XY a) (l.map XY)
        (by
          have : ((a :: l).map XY).Pairwise (fun p q => p.2 ≤ q.2) := by
            rw [List.pairwise_map]
            refine List.Pairwise.imp_of_mem ?_ hsorted
            intro x y hx hy hxy
            rw [(hcg x hx).2, (hcg y hy).2] at hxy
            linarith
          simpa using this)
        (hle a (by simp)).1
        (by
          intro q hq
          have : q ∈ (a :: l).map XY := by simpa using hq
          obtain ⟨k, hk, rfl⟩ := List.mem_map.mp this
          exact (hle k hk).2)
      rw [hst]; rfl
    · intro y hy hy0
      apply f4 y
      intro m _ heq
      have hmem : nx T 1 a ∈ 0 :: a :: l := dl_nx_closed hdT a (by simp)
      have := iterate_nx_mem hdT m _ hmem
      rw [← heq] at this
      rcases List.mem_cons.mp this with h | h
      · exact hy0 h
      · exact hy h

/-! ### three dimensions -/

def toPt3 (p : ℚ × ℚ × ℚ) : Pt := [p.1, p.2.1, p.2.2]

/-- everything that is fixed during the single call of the general case at `dimIndex = 2` -/
structure Ctx3 (C : Cargo) (n : ℕ) (r₀ r₁ r₂ : ℚ) (P : ℕ → ℚ × ℚ × ℚ) (S₁ : St) (A L₁ L₂ : List ℕ) : Prop where
  shape : Shape 3 n S₁
  wf : WFlt n S₁ 2 A
  d1 : DL n S₁ 1 L₁
  d2 : DL n S₁ 2 L₂
  p1 : L₁.Perm A
  p2 : L₂.Perm A
  cg0 : ∀ a ∈ A, cg C a 0 = (P a).1 - r₀
  cg1 : ∀ a ∈ A, cg C a 1 = (P a).2.1 - r₁
  cg2 : ∀ a ∈ A, cg C a 2 = (P a).2.2 - r₂
  s1 : L₁.Pairwise (fun a b => cg C a 1 ≤ cg C b 1)
  s2 : L₂.Pairwise (fun a b => cg C a 2 ≤ cg C b 2)
  le : ∀ a ∈ A, (P a).1 ≤ r₀ ∧ (P a).2.1 ≤ r₁ ∧ (P a).2.2 ≤ r₂

/-- area dominated by the projections of the nodes `D` -/
def A2 (r₀ r₁ : ℚ) (P : ℕ → ℚ × ℚ × ℚ) (D : List ℕ) : ℚ :=
  hvCells [r₀, r₁] ((D.map (fun a => ((P a).1, (P a).2.1))).map toPt)

/-- volume dominated by the nodes `D` -/
def V3 (r₀ r₁ r₂ : ℚ) (P : ℕ → ℚ × ℚ × ℚ) (D : List ℕ) : ℚ := hvCells [r₀, r₁, r₂] (D.map (fun a => toPt3 (P a)))

theorem A2_congr (r₀ r₁ : ℚ) (P : ℕ → ℚ × ℚ × ℚ) (D E : List ℕ) (h : ∀ a, a ∈ D ↔ a ∈ E) :
    A2 r₀ r₁ P D = A2 r₀ r₁ P E := by
  unfold A2
  apply hvCells_of_mem_iff
  intro q
  simp only [List.mem_map]
  constructor
  · rintro ⟨x, ⟨a, ha, rfl⟩, rfl⟩; exact ⟨_, ⟨a, (h a).mp ha, rfl⟩, rfl⟩
  · rintro ⟨x, ⟨a, ha, rfl⟩, rfl⟩; exact ⟨_, ⟨a, (h a).mpr ha, rfl⟩, rfl⟩

theorem V3_congr (r₀ r₁ r₂ : ℚ) (P : ℕ → ℚ × ℚ × ℚ) (D E : List ℕ) (h : ∀ a, a ∈ D ↔ a ∈ E) :
    V3 r₀ r₁ r₂ P D = V3 r₀ r₁ r₂ P E := by
  unfold V3
  apply hvCells_of_mem_iff
  intro q
  simp only [List.mem_map]
  constructor
  · rintro ⟨a, ha, rfl⟩; exact ⟨a, (h a).mp ha, rfl⟩
  · rintro ⟨a, ha, rfl⟩; exact ⟨a, (h a).mpr ha, rfl⟩

/-- the slab step for nodes: `p` is at least as high as every node of `D` in the last coordinate -/
theorem V3_add_top (r₀ r₁ r₂ : ℚ) (P : ℕ → ℚ × ℚ × ℚ) (D : List ℕ) (p : ℕ)
    (hz : ∀ s ∈ D, (P s).2.2 ≤ (P p).2.2) (hr : (P p).2.2 ≤ r₂) :
    V3 r₀ r₁ r₂ P (p :: D) = V3 r₀ r₁ r₂ P D + (r₂ - (P p).2.2) * (A2 r₀ r₁ P (p :: D) - A2 r₀ r₁ P D) := by
  unfold V3 A2
  have key := hvCells_add_top_slab_last r₂ [r₀, r₁] (D.map (fun a => toPt3 (P a))) (toPt3 (P p))
    (by intro s hs
        rcases List.mem_cons.mp hs with rfl | hs
        · rfl
        · obtain ⟨a, _, rfl⟩ := List.mem_map.mp hs; rfl)
    (by intro s hs; obtain ⟨a, ha, rfl⟩ := List.mem_map.mp hs; exact hz a ha) hr
  have e1 : ([r₀, r₁] ++ [r₂] : List ℚ) = [r₀, r₁, r₂] := rfl
  rw [e1] at key
  rw [List.map_cons, key]
  simp only [List.map_cons, List.map_map]
  rfl

theorem ar_setAr_self {n : ℕ} (S : St) (a i : ℕ) (v : ℚ) (h : Shaped (n + 1) 3 S.area) (ha : a ≤ n) (hi : i < 3) :
    ar (setAr S a i v) a i = v := by
  unfold ar setAr
  exact tget_tset_self _ _ _ _ _ (by rw [h.1]; omega) (by rw [h.2 a (by omega)]; exact hi)

theorem ar_setAr_ne (S : St) (a i b j : ℕ) (v : ℚ) (h : b ≠ a ∨ j ≠ i) : ar (setAr S a i v) b j = ar S b j := by
  unfold ar setAr
  exact tget_tset_ne _ _ _ _ _ _ _ h

theorem shaped_setAr {n : ℕ} (S : St) (a i : ℕ) (v : ℚ) (h : Shaped (n + 1) 3 S.area) :
    Shaped (n + 1) 3 (setAr S a i v).area := shaped_tset h a i v

theorem slab_alg (hvol aold anew vold vnew r zp zq : ℚ) (hinv : hvol + aold * (-(zq - r)) = vold)
    (hstep : vnew = vold + (r - zp) * (anew - aold)) :
    hvol + aold * ((zp - r) - (zq - r)) + anew * (-(zp - r)) = vnew := by
  rw [hstep, ← hinv]; ring

theorem mem_snoc_iff (l : List ℕ) (p a : ℕ) : a ∈ l ++ [p] ↔ a ∈ p :: l := by
  simp only [List.mem_append, List.mem_cons, List.not_mem_nil, or_false]
  constructor
  · rintro (h | h); exact Or.inr h; exact Or.inl h
  · rintro (h | h); exact Or.inr h; exact Or.inl h

/-- the reinsertion loop of the 3-D call: `hvol` accumulates `area(prefix) × thickness` -/
theorem reins3d {C : Cargo} {n : ℕ} {r₀ r₁ r₂ : ℚ} {P : ℕ → ℚ × ℚ × ℚ} {S₁ : St} {A L₁ L₂ : List ℕ}
    (ctx : Ctx3 C n r₀ r₁ r₂ P S₁ A L₁ L₂) (F : ℕ) (hF : n + 1 ≤ F) :
    ∀ (todo d0 : List ℕ) (q : ℕ) (hvol : ℚ) (len : ℕ) (T : St) (g : ℕ),
      L₂ = d0 ++ q :: todo → PtrEq (removeSeq C 2 S₁ todo.reverse) T → Shape 3 n T → Shaped (n + 1) 3 T.area →
      (∀ y ∈ todo, ign T y = 0) → ar T q 2 = A2 r₀ r₁ P (d0 ++ [q]) →
      hvol + A2 r₀ r₁ P (d0 ++ [q]) * (-(cg C q 2)) = V3 r₀ r₁ r₂ P (d0 ++ [q]) → todo.length ≤ g →
      ∃ q' hv' T', reinsLoop (hvRecursive C F 1) C 2 g ((todo ++ [0]).headD 0) q hvol len T = some (q', hv', T') ∧
        hv' - ar T' q' 2 * cg C q' 2 = V3 r₀ r₁ r₂ P L₂ := by
  intro todo
  induction todo with
  | nil =>
    intro d0 q hvol len T g hL _ _ _ _ har hinv _
    refine ⟨q, hvol, T, ?_, ?_⟩
    · cases g <;> simp [reinsLoop]
    · rw [har, hL, ← hinv]; ring
  | cons p todo ih =>
    intro d0 q hvol len T g hL hpe hT hTa hign har hinv hg
    have hnd2 : L₂.Nodup := ctx.d2.2.1
    have hmemA : ∀ a, a ∈ L₂ ↔ a ∈ A := fun a => ctx.p2.mem_iff
    have hAnd : A.Nodup := ctx.p2.nodup_iff.mp hnd2
    have hpL2 : p ∈ L₂ := by rw [hL]; simp
    have hpA : p ∈ A := (hmemA p).mp hpL2
    have hp0 : p ≠ 0 := fun h0 => dl_zero_notMem ctx.d2 (h0 ▸ hpL2)
    have hpn : p ≤ n := (ctx.d2.2.2 p hpL2).2
    obtain ⟨f, rfl⟩ : ∃ f, g = f + 1 := ⟨g - 1, by simp at hg; omega⟩
    -- nodup facts about the split of L₂
    have hsplit : L₂ = (d0 ++ [q]) ++ p :: todo := by rw [hL]; simp
    have hnd_split := List.nodup_append.mp (hsplit ▸ hnd2)
    have hp_todo : p ∉ todo := (List.nodup_cons.mp hnd_split.2.1).1
    have htodo_nd : todo.Nodup := (List.nodup_cons.mp hnd_split.2.1).2
    have hrs_nd : todo.reverse.Nodup := List.nodup_reverse.mpr htodo_nd
    have htodoA : ∀ y ∈ todo.reverse, y ∈ A := by
      intro y hy
      exact (hmemA y).mp (by rw [hL]; simp [List.mem_reverse.mp hy])
    -- the state before p was removed
    obtain ⟨hU, hwU, _, hgeU, hmemU⟩ := removeSeq_wf C (by omega : 2 ≤ 3) todo.reverse S₁ A ctx.shape ctx.wf hrs_nd htodoA
    set U := removeSeq C 2 S₁ todo.reverse with hUdef
    have hpAd : p ∈ A.diff todo.reverse := hmemU p hpA (fun h => hp_todo (List.mem_reverse.mp h))
    obtain ⟨_, hnfU⟩ := remove_wf C hU (by omega : 2 ≤ 3) hwU hpAd
    have hrev : (p :: todo).reverse = todo.reverse ++ [p] := by simp
    rw [hrev, removeSeq_snoc] at hpe
    -- unfold one iteration
    have hhead : ((p :: todo) ++ [0]).headD 0 = p := rfl
    rw [hhead]
    unfold reinsLoop
    rw [if_neg hp0]
    dsimp only
    set hvol1 := hvol + ar T q 2 * (cg C p 2 - cg C q 2) with hhv1
    set T1 := setBound T 2 (cg C p 2) with hT1
    set T2 := reinsert C T1 p 2 with hT2
    set T3 := setVl T2 p 2 hvol1 with hT3
    have hpe1 : PtrEq (remove C U p 2) T1 := hpe.trans (fun _ _ => ⟨rfl, rfl⟩)
    have hback : PtrEq U T2 := reinsert_remove C p 2 U T1 hU hT (by omega) hnfU hpe1
    have hT2s : Shape 3 n T2 := shape_reinsert C p 2 T1 hT
    have hsame2 : SameAI 2 T1 T2 := reinsert_sameAI C p 2 T1
    have hT3s : Shape 3 n T3 := hT2s
    have hpeU3 : PtrEq U T3 := hback.trans (fun _ _ => ⟨rfl, rfl⟩)
    have hT3area : T3.area = T.area := hsame2.area
    have hT3ign : T3.ignore = T.ignore := hsame2.ignore
    have hnext : nx T2 2 p = ((todo ++ [0]).headD 0) := by
      rw [(hback 2 p).1, (hgeU 2 (le_refl _) p).1]
      have hseg := ctx.d2.1
      rw [hsplit] at hseg
      have := (seg_node S₁ 2 (d0 ++ [q]) 0 p todo 0 hseg).2.1
      rw [this]
      cases todo <;> rfl
    -- the area step: p is not ignored
    have hignp : ign T3 p = 0 := by
      show T3.ignore.getD p 0 = 0
      rw [hT3ign]; exact hign p (by simp)
    unfold areaStep
    rw [if_neg (by rw [hignp]; omega)]
    -- the recursive call: the 2-D staircase of the nodes present
    have hd1U : DL n U 1 (L₁.diff todo.reverse) :=
      removeSeq_dl C (by omega : 2 ≤ 3) (by omega : 1 < 2) todo.reverse S₁ A L₁ ctx.shape ctx.wf ctx.d1 hrs_nd htodoA
    have hd1T3 : DL n T3 1 (L₁.diff todo.reverse) := dl_ptrEq hpeU3 hd1U
    have hnd1 : L₁.Nodup := ctx.d1.2.1
    have hmemL : ∀ a, a ∈ L₁.diff todo.reverse ↔ a ∈ d0 ++ [q] ++ [p] := by
      intro a
      rw [hnd1.mem_sdiff_iff, ctx.p1.mem_iff, ← hmemA a, List.mem_reverse]
      constructor
      · rintro ⟨h1, h2⟩
        rw [hsplit] at h1
        rcases List.mem_append.mp h1 with h | h
        · exact List.mem_append_left _ h
        · rcases List.mem_cons.mp h with h | h
          · rw [h]; simp
          · exact absurd h h2
      · intro h
        have h1 : a ∈ L₂ := by
          rw [hsplit]
          rcases List.mem_append.mp h with h | h
          · exact List.mem_append_left _ h
          · simp at h; rw [h]; simp
        refine ⟨h1, fun h2 => ?_⟩
        rcases List.mem_append.mp h with h | h
        · exact hnd_split.2.2 a h a (List.mem_cons_of_mem _ h2) rfl
        · simp at h; rw [h] at h2; exact hp_todo h2
    have hLA : ∀ a ∈ L₁.diff todo.reverse, a ∈ A := fun a ha =>
      ctx.p1.mem_iff.mp ((List.diff_sublist _ _).subset ha)
    obtain ⟨T4, hrec, hpe4, hT4s, hT4area, _, _, hT4ign⟩ :=
      level1_value (dims := 3) (n := n) C r₀ r₁ (fun a => ((P a).1, (P a).2.1)) F T3 (L₁.diff todo.reverse) (len + 1)
        (by omega) hT3s hd1T3
        (by intro h; have := (hmemL p).mpr (by simp); rw [h] at this; simp at this)
        (by have := dl_length_le hd1T3; omega)
        (fun a ha => ⟨ctx.cg0 a (hLA a ha), ctx.cg1 a (hLA a ha)⟩)
        (ctx.s1.sublist (List.diff_sublist _ _))
        (fun a ha => ⟨(ctx.le a (hLA a ha)).1, (ctx.le a (hLA a ha)).2.1⟩)
    rw [hrec]
    dsimp only
    have hA2new : hvCells [r₀, r₁] (((L₁.diff todo.reverse).map (fun a => ((P a).1, (P a).2.1))).map toPt)
        = A2 r₀ r₁ P (d0 ++ [q] ++ [p]) := A2_congr r₀ r₁ P _ _ hmemL
    rw [hA2new]
    set a2 := A2 r₀ r₁ P (d0 ++ [q] ++ [p]) with ha2
    set T5 := setAr T4 p 2 a2 with hT5
    -- whichever way the promotion goes, the next state has the pointers, area and ignore facts we need
    have hfinal : ∀ T6 : St, (T6 = T5 ∨ T6 = setIgn T5 p 2) →
        ∃ q' hv' T', reinsLoop (hvRecursive C F 1) C 2 f (nx T2 2 p) p hvol1 (len + 1) T6 = some (q', hv', T') ∧
          hv' - ar T' q' 2 * cg C q' 2 = V3 r₀ r₁ r₂ P L₂ := by
      intro T6 hT6
      have hT6ptr : PtrEq T5 T6 := by rcases hT6 with rfl | rfl; exact PtrEq.refl _; exact fun _ _ => ⟨rfl, rfl⟩
      have hT6area : T6.area = T5.area := by rcases hT6 with rfl | rfl <;> rfl
      have hT4shaped : Shaped (n + 1) 3 T4.area := by rw [hT4area, hT3area]; exact hTa
      rw [hnext]
      apply ih (d0 ++ [q]) p hvol1 (len + 1) T6 f
      · rw [hsplit]
      · exact ((hpeU3.trans hpe4).trans (fun _ _ => ⟨rfl, rfl⟩)).trans hT6ptr
      · rcases hT6 with rfl | rfl <;> exact hT4s
      · rw [hT6area]; exact shaped_setAr T4 p 2 a2 hT4shaped
      · intro y hy
        have hyp : y ≠ p := fun e => hp_todo (e ▸ hy)
        have hyL2 : y ∈ L₂ := by rw [hL]; simp [hy]
        have hy0 : y ≠ 0 := fun h0 => dl_zero_notMem ctx.d2 (h0 ▸ hyL2)
        have hyL : y ∉ L₁.diff todo.reverse := by
          rw [hnd1.mem_sdiff_iff]; intro h; exact h.2 (List.mem_reverse.mpr hy)
        have e4 : ign T4 y = 0 := by
          rw [hT4ign y hyL hy0]
          show T3.ignore.getD y 0 = 0
          rw [hT3ign]; exact hign y (by simp [hy])
        rcases hT6 with rfl | rfl
        · exact e4
        · show (T4.ignore.set p 2).getD y 0 = 0
          rw [getD_set_ne _ _ _ _ _ hyp]; exact e4
      · show tget T6.area p 2 0 = _
        rw [hT6area]
        exact ar_setAr_self T4 p 2 a2 hT4shaped hpn (by omega)
      · -- the slab step
        have hzs : ∀ s ∈ d0 ++ [q], (P s).2.2 ≤ (P p).2.2 := by
          intro s hs
          have hpw := ctx.s2
          rw [hsplit] at hpw
          have := (List.pairwise_append.mp hpw).2.2 s hs p (by simp)
          have hsA : s ∈ A := (hmemA s).mp (by rw [hsplit]; exact List.mem_append_left _ hs)
          rw [ctx.cg2 s hsA, ctx.cg2 p hpA] at this
          linarith
        have hstep := V3_add_top r₀ r₁ r₂ P (d0 ++ [q]) p hzs (ctx.le p hpA).2.2
        have hVc : V3 r₀ r₁ r₂ P (d0 ++ [q] ++ [p]) = V3 r₀ r₁ r₂ P (p :: (d0 ++ [q])) :=
          V3_congr r₀ r₁ r₂ P (d0 ++ [q] ++ [p]) (p :: (d0 ++ [q])) (mem_snoc_iff (d0 ++ [q]) p)
        have hAc : A2 r₀ r₁ P (d0 ++ [q] ++ [p]) = A2 r₀ r₁ P (p :: (d0 ++ [q])) :=
          A2_congr r₀ r₁ P (d0 ++ [q] ++ [p]) (p :: (d0 ++ [q])) (mem_snoc_iff (d0 ++ [q]) p)
        rw [hVc, hAc, hhv1, har, ctx.cg2 p hpA, ctx.cg2 q ((hmemA q).mp (by rw [hL]; simp))]
        rw [ctx.cg2 q ((hmemA q).mp (by rw [hL]; simp))] at hinv
        exact slab_alg hvol _ _ _ _ r₂ _ _ hinv hstep
      · simp at hg; omega
    split
    · exact hfinal _ (Or.inr rfl)
    · exact hfinal _ (Or.inl rfl)

theorem ctx3_ptrEq {C : Cargo} {n : ℕ} {r₀ r₁ r₂ : ℚ} {P : ℕ → ℚ × ℚ × ℚ} {S T : St} {A L₁ L₂ : List ℕ}
    (ctx : Ctx3 C n r₀ r₁ r₂ P S A L₁ L₂) (h : PtrEq S T) (hT : Shape 3 n T) : Ctx3 C n r₀ r₁ r₂ P T A L₁ L₂ :=
  { ctx with shape := hT, wf := wflt_ptrEq h ctx.wf, d1 := dl_ptrEq h ctx.d1, d2 := dl_ptrEq h ctx.d2 }

theorem A2_single (r₀ r₁ : ℚ) (P : ℕ → ℚ × ℚ × ℚ) (a : ℕ) (h0 : (P a).1 ≤ r₀) (h1 : (P a).2.1 ≤ r₁) :
    A2 r₀ r₁ P [a] = ((P a).1 - r₀) * ((P a).2.1 - r₁) := by
  unfold A2
  simp only [List.map_cons, List.map_nil]
  rw [hvCells_single, boxVol_pair' r₀ r₁ _ _ h1, min_eq_left h0]
  ring

/-- **the general case at `dimIndex = 2`, called with no bound set and no node ignored, returns the volume** -/
theorem general_3d {C : Cargo} {n : ℕ} {r₀ r₁ r₂ : ℚ} {P : ℕ → ℚ × ℚ × ℚ} {S : St} {A L₁ L₂ : List ℕ}
    (ctx : Ctx3 C n r₀ r₁ r₂ P S A L₁ L₂) (F : ℕ) (hF : n + 1 ≤ F) (hTa : Shaped (n + 1) 3 S.area)
    (hign : ∀ a, ign S a = 0) (hb : S.bounds.getD 2 none = none) (hne : L₂ ≠ []) :
    ∃ S', general (hvRecursive C F 1) C F 2 L₂.length S = some (V3 r₀ r₁ r₂ P L₂, S') := by
  obtain ⟨pre, q0, hL2⟩ : ∃ pre q0, L₂ = pre ++ [q0] := ⟨L₂.dropLast, L₂.getLast hne, (List.dropLast_append_getLast hne).symm⟩
  have hLn : L₂.length ≤ n := dl_length_le ctx.d2
  have hseg2 := ctx.d2.1
  rw [hL2] at hseg2
  have hsplit := (seg_append S 2 pre 0 q0 [] 0).mp hseg2
  have hq0 : pv S 2 0 = q0 := hsplit.2.2
  unfold general
  rw [hq0]
  obtain ⟨S1, hr1, hpe1, hS1⟩ := resetLoop_ok (dims := 3) (n := n) 2 pre q0 S F hsplit.1
    (by rw [hL2] at hLn; simp at hLn; omega) ctx.shape
  obtain ⟨f1, f2, f3⟩ := resetLoop_frame 2 F q0 S S1 hr1
  rw [hr1]
  dsimp only
  have hq0' : pv S1 2 0 = q0 := by rw [(hpe1 2 0).2]; exact hq0
  rw [hq0']
  have ctx1 := ctx3_ptrEq ctx hpe1 hS1
  have hseg1 : Seg S1 2 0 (pre ++ q0 :: []) 0 := by
    have := ctx1.d2.1; rw [hL2] at this; exact this
  obtain ⟨q', rs, hr2, hnodes⟩ := removeLoop_none C 2 L₂.length pre q0 [] 0 S1 (by rw [f2]; exact hb)
    (by rw [hL2]; simp) hseg1
  rw [hr2]
  dsimp only
  rw [if_neg (by omega)]
  dsimp only
  -- the state after the removals
  set S2 := removeSeq C 2 S1 rs with hS2
  have hsame := removeSeq_sameAI C 2 rs S1
  have hL2' : L₂ = [] ++ q' :: rs.reverse := by rw [hL2, hnodes]; rfl
  have hq'L : q' ∈ L₂ := by rw [hL2']; simp
  have hq'A : q' ∈ A := ctx.p2.mem_iff.mp hq'L
  have hq'n : q' ≤ n := (ctx.d2.2.2 q' hq'L).2
  have hS2sh : Shape 3 n S2 := by
    have hnd : rs.Nodup := by
      have h1 : (q' :: rs.reverse).Nodup := by have := ctx.d2.2.1; rw [hL2'] at this; simpa using this
      exact List.nodup_reverse.mp (List.nodup_cons.mp h1).2
    have hsub : ∀ y ∈ rs, y ∈ A := fun y hy => ctx.p2.mem_iff.mp (by rw [hL2']; simp [hy])
    exact (removeSeq_wf C (by omega : 2 ≤ 3) rs S1 A hS1 ctx1.wf hnd hsub).1
  have hS2area : Shaped (n + 1) 3 S2.area := by rw [hsame.area, f1]; exact hTa
  -- the areas of the single node
  set Ta := setAr S2 q' 0 1 with hTa0
  have hTaS : Shaped (n + 1) 3 Ta.area := shaped_setAr S2 q' 0 1 hS2area
  have hfold : (List.range 2).foldl (fun S i => setAr S q' (i + 1) (ar S q' i * -(cg C q' i))) Ta
      = setAr (setAr Ta q' 1 (ar Ta q' 0 * -(cg C q' 0))) q' 2
          (ar (setAr Ta q' 1 (ar Ta q' 0 * -(cg C q' 0))) q' 1 * -(cg C q' 1)) := rfl
  rw [hfold]
  have e0 : ar Ta q' 0 = 1 := ar_setAr_self S2 q' 0 1 hS2area hq'n (by omega)
  set Tb := setAr Ta q' 1 (ar Ta q' 0 * -(cg C q' 0)) with hTb
  have hTbS : Shaped (n + 1) 3 Tb.area := shaped_setAr Ta q' 1 _ hTaS
  have e1 : ar Tb q' 1 = -(cg C q' 0) := by
    rw [hTb, ar_setAr_self Ta q' 1 _ hTaS hq'n (by omega), e0, one_mul]
  set Tc := setAr Tb q' 2 (ar Tb q' 1 * -(cg C q' 1)) with hTc
  have hTcS : Shaped (n + 1) 3 Tc.area := shaped_setAr Tb q' 2 _ hTbS
  have e2 : ar Tc q' 2 = cg C q' 0 * cg C q' 1 := by
    rw [hTc, ar_setAr_self Tb q' 2 _ hTbS hq'n (by omega), e1]; ring
  -- the reinsertion loop
  have hle := ctx.le q' hq'A
  obtain ⟨q'', hv', T', hr3, hval⟩ := reins3d ctx1 F hF rs.reverse [] q' 0 1 (setVl Tc q' 2 0) F hL2'
    (by rw [List.reverse_reverse]; exact fun _ _ => ⟨rfl, rfl⟩)
    hS2sh hTcS
    (by
      intro y _
      show Tc.ignore.getD y 0 = 0
      have : Tc.ignore = S1.ignore := hsame.ignore
      rw [this]; exact f3 hign y)
    (by
      show ar Tc q' 2 = _
      rw [e2, List.nil_append, A2_single r₀ r₁ P q' hle.1 hle.2.1, ctx.cg0 q' hq'A, ctx.cg1 q' hq'A])
    (by
      rw [List.nil_append, zero_add]
      have h := V3_add_top r₀ r₁ r₂ P [] q' (by simp) hle.2.2
      have hV0 : V3 r₀ r₁ r₂ P [] = 0 := hvCells_nil_pts _
      have hA0 : A2 r₀ r₁ P [] = 0 := hvCells_nil_pts _
      rw [h, hV0, hA0, ctx.cg2 q' hq'A]; ring)
    (by
      have : rs.reverse.length + 1 = L₂.length := by rw [hL2']; simp
      omega)
  have hp : (rs.reverse ++ [0]).headD 0 = (rs.reverse ++ [0]).headD 0 := rfl
  rw [hr3]
  dsimp only
  exact ⟨T', by rw [hval]⟩

/-- **`sweep_3d`**: for points of dimension 3 at or below the reference, the transcribed algorithm returns
the specification. -/
theorem sweep_3d' (r₀ r₁ r₂ : ℚ) (pts : List (ℚ × ℚ × ℚ)) (hle : ∀ p ∈ pts, p.1 ≤ r₀ ∧ p.2.1 ≤ r₁ ∧ p.2.2 ≤ r₂) :
    compute (pts.map toPt3) [r₀, r₁, r₂] = some (hvCells [r₀, r₁, r₂] (pts.map toPt3)) := by
  unfold compute computeSt
  simp only [List.length_map, List.length_cons, List.length_nil, Nat.zero_add, Nat.add_one_sub_one]
  set C : Cargo := [] :: translate (pts.map toPt3) [r₀, r₁, r₂] with hC
  set n := pts.length with hn
  show Option.map (fun x => x.1) (hvRecursive C (n + 1) 2 n (preProcess C 3 n)) = _
  unfold hvRecursive
  dsimp only
  by_cases hn0 : n = 0
  · have : pts = [] := List.length_eq_zero_iff.mp hn0
    subst this
    rw [if_pos hn0]
    simp [hvCells_nil_pts]
  · rw [if_neg hn0]
    obtain ⟨hS, hD⟩ := preProcess_spec C 3 n
    set L0 := sortByDimension C (ids n) 0 with hL0
    set L1 := sortByDimension C L0 1 with hL1
    set L2 := sortByDimension C L1 2 with hL2
    have hcum : cum C (List.range 3) (ids n) = [(0, L0), (1, L1), (2, L2)] := rfl
    have hd1 := hD 1 L1 (by rw [hcum]; simp)
    have hd2 := hD 2 L2 (by rw [hcum]; simp)
    have hp1 : L1.Perm (ids n) := (sortByDimension_perm C L0 1).trans (sortByDimension_perm C _ 0)
    have hp2 : L2.Perm (ids n) := (sortByDimension_perm C L1 2).trans hp1
    let P : ℕ → ℚ × ℚ × ℚ := fun a => pts.getD (a - 1) (0, 0, 0)
    have hPmem : ∀ a ∈ ids n, P a ∈ pts := by
      intro a ha
      have har := (mem_ids _ a).mp ha
      have h1 : a - 1 < pts.length := by omega
      show pts.getD (a - 1) (0, 0, 0) ∈ pts
      rw [List.getD_eq_getElem?_getD, List.getElem?_eq_getElem h1]; exact List.getElem_mem h1
    have hcg : ∀ a ∈ ids n, ∀ j < 3, cg C a j = (toPt3 (P a)).getD j 0 - ([r₀, r₁, r₂] : List ℚ).getD j 0 := by
      intro a ha j hj
      have har := (mem_ids _ a).mp ha
      have h1 : a - 1 < pts.length := by omega
      have hpt : (pts.map toPt3).getD (a - 1) [] = toPt3 (P a) := by
        show _ = toPt3 (pts.getD (a - 1) (0, 0, 0))
        simp [List.getD_eq_getElem?_getD, List.getElem?_eq_getElem h1]
      have e := cg_translate (pts.map toPt3) [r₀, r₁, r₂] (a - 1) j (by simpa using h1)
        (by rw [hpt]; simpa [toPt3] using hj) (by simpa using hj)
      rw [show a - 1 + 1 = a by omega, hpt] at e
      rw [hC]; exact e
    set S := tick (preProcess C 3 n) 2 with hSt
    have hfields := preProcess_fields C 3 n
    have ctx : Ctx3 C n r₀ r₁ r₂ P S (ids n) L1 L2 :=
      { shape := hS
        wf := wflt_ptrEq (S := preProcess C 3 n) (fun _ _ => ⟨rfl, rfl⟩) (wflt_mono (by omega) (preProcess_wf C 3 n))
        d1 := dl_ptrEq (S := preProcess C 3 n) (fun _ _ => ⟨rfl, rfl⟩) hd1
        d2 := dl_ptrEq (S := preProcess C 3 n) (fun _ _ => ⟨rfl, rfl⟩) hd2
        p1 := hp1
        p2 := hp2
        cg0 := fun a ha => by have := hcg a ha 0 (by omega); simpa [toPt3] using this
        cg1 := fun a ha => by have := hcg a ha 1 (by omega); simpa [toPt3] using this
        cg2 := fun a ha => by have := hcg a ha 2 (by omega); simpa [toPt3] using this
        s1 := sortByDimension_sorted C L0 1
        s2 := sortByDimension_sorted C L1 2
        le := fun a ha => hle _ (hPmem a ha) }
    have hlen : L2.length = n := by rw [hp2.length_eq]; simp [ids]
    have hne : L2 ≠ [] := by intro h; rw [h] at hlen; simp at hlen; exact hn0 hlen.symm
    obtain ⟨S', hgen⟩ := general_3d ctx (n + 1) (le_refl _)
      (by
        show Shaped (n + 1) 3 (preProcess C 3 n).area
        rw [hfields.area]; exact shaped_replicate (n + 1) 3 0)
      (by
        intro a
        show (preProcess C 3 n).ignore.getD a 0 = 0
        rw [hfields.ignore]; exact getD_replicate_self (n + 1) a 0)
      (by
        show (preProcess C 3 n).bounds.getD 2 none = none
        rw [hfields.bounds]; rfl)
      hne
    rw [hlen] at hgen
    rw [hgen]
    simp only [Option.map_some, Option.some.injEq]
    unfold V3
    apply hvCells_of_mem_iff
    intro q
    have hperm : (L2.map (fun a => toPt3 (P a))).Perm (pts.map toPt3) := by
      have h1 := hp2.map P
      rw [show (ids n).map P = pts from ids_map pts (0, 0, 0)] at h1
      have := h1.map toPt3
      rw [List.map_map] at this
      exact this
    exact hperm.mem_iff

theorem list_len3 (p : List ℚ) (h : p.length = 3) : p = toPt3 (p.getD 0 0, p.getD 1 0, p.getD 2 0) := by
  match p, h with
  | [a, b, c], _ => rfl

end HvSweep
