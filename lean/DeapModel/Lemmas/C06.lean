/-
Helper lemmas for C06 (selection operators): the tape combinator, the fitness order on
population indices, Python's `sorted` / `max`.
-/
import DeapModel.Core.Selection
import DeapModel.Props.C01
import Mathlib.Order.Defs.LinearOrder
import Mathlib.Algebra.Order.Ring.Unbundled.Rat
import Mathlib.Data.List.Lex
import Mathlib.Algebra.Order.Field.Rat
import Mathlib.Tactic.NormNum
import Mathlib.Tactic.Linarith

set_option linter.unusedSectionVars false
set_option linter.unusedSimpArgs false
set_option linter.unusedVariables false

namespace C06L
open Selection

/-! ### `repeatM` -/

section Repeat
variable {α : Type} (step : Tape → Option (α × Tape))

theorem repeatM_succ_some {k : Nat} {t t' : Tape} {l : List α} :
    repeatM step (k + 1) t = some (l, t') ↔
      ∃ x t1 l', step t = some (x, t1) ∧ repeatM step k t1 = some (l', t') ∧ l = x :: l' := by
  simp only [Selection.repeatM]
  cases h : step t with
  | none => simp
  | some p =>
    obtain ⟨x, t1⟩ := p
    cases h2 : Selection.repeatM step k t1 with
    | none => simp [h2]
    | some q =>
      obtain ⟨l', t2⟩ := q
      simp only [h2, Option.some.injEq, Prod.mk.injEq]
      constructor
      · rintro ⟨rfl, rfl⟩; exact ⟨x, t1, l', ⟨rfl, rfl⟩, h2, rfl⟩
      · rintro ⟨x', t1', l'', ⟨rfl, rfl⟩, h3, rfl⟩
        rw [h2] at h3
        simp only [Option.some.injEq, Prod.mk.injEq] at h3
        obtain ⟨rfl, rfl⟩ := h3
        exact ⟨rfl, rfl⟩

theorem repeatM_length {k : Nat} {t t' : Tape} {l : List α}
    (h : repeatM step k t = some (l, t')) : l.length = k := by
  induction k generalizing t l with
  | zero => simp [Selection.repeatM] at h; simp [h.1]
  | succ k ih =>
    obtain ⟨x, t1, l', _, h2, rfl⟩ := (repeatM_succ_some step).1 h
    simp [ih h2]

theorem repeatM_forall (P : α → Prop) (hstep : ∀ t x t', step t = some (x, t') → P x)
    {k : Nat} {t t' : Tape} {l : List α} (h : repeatM step k t = some (l, t')) : ∀ x ∈ l, P x := by
  induction k generalizing t l with
  | zero => simp [Selection.repeatM] at h; simp [h.1]
  | succ k ih =>
    obtain ⟨x, t1, l', h1, h2, rfl⟩ := (repeatM_succ_some step).1 h
    intro y hy
    rcases List.mem_cons.1 hy with rfl | hy
    · exact hstep _ _ _ h1
    · exact ih h2 y hy

/-- Every element of the result was produced by one `step` call somewhere on the tape, and the
calls are chained: the full trace of intermediate tapes. -/
theorem repeatM_chain {k : Nat} {t t' : Tape} {l : List α}
    (h : repeatM step k t = some (l, t')) :
    ∃ ts : List Tape, ts.length = k + 1 ∧ ts.head? = some t ∧ ts.getLast? = some t' ∧
      ∀ i (hi : i < l.length), ∃ a b, ts[i]? = some a ∧ ts[i+1]? = some b ∧ step a = some (l[i], b) := by
  induction k generalizing t l with
  | zero =>
    simp [Selection.repeatM] at h; obtain ⟨rfl, rfl⟩ := h
    exact ⟨[t], by simp⟩
  | succ k ih =>
    obtain ⟨x, t1, l', h1, h2, rfl⟩ := (repeatM_succ_some step).1 h
    obtain ⟨ts, hl, hh, hlast, hall⟩ := ih h2
    refine ⟨t :: ts, by simp [hl], by simp, ?_, ?_⟩
    · cases ts with
      | nil => simp at hl
      | cons a as => simpa using hlast
    · intro i hi
      cases i with
      | zero =>
        cases ts with
        | nil => simp at hl
        | cons a as =>
          simp at hh; subst hh
          exact ⟨t, a, by simp, by simp, by simpa using h1⟩
      | succ i =>
        have hi' : i < l'.length := by simpa using hi
        obtain ⟨a, b, ha, hb, hs⟩ := hall i hi'
        exact ⟨a, b, by simpa using ha, by simpa using hb, by simpa using hs⟩

end Repeat

/-! ### `selRandom` -/

theorem popChoice_some {n : Nat} {t t' : Tape} {i : Nat} :
    popChoice n t = some (i, t') ↔ t = Draw.choice i :: t' ∧ i < n := by
  cases t with
  | nil => simp [popChoice]
  | cons d t =>
    cases d <;> simp [popChoice]
    rename_i j
    constructor
    · rintro ⟨h, rfl, rfl⟩; exact ⟨⟨rfl, rfl⟩, h⟩
    · rintro ⟨⟨rfl, rfl⟩, h⟩; exact ⟨h, rfl, rfl⟩

/-- `selRandom` reads exactly `k` choice draws, each a valid index, and returns them. -/
theorem selRandom_spec {n k : Nat} {t t' : Tape} {l : List Nat} :
    selRandom n k t = some (l, t') ↔ t = l.map Draw.choice ++ t' ∧ l.length = k ∧ ∀ i ∈ l, i < n := by
  unfold selRandom
  induction k generalizing t l with
  | zero =>
    simp only [Selection.repeatM, Option.some.injEq, Prod.mk.injEq]
    constructor
    · rintro ⟨rfl, rfl⟩; simp
    · rintro ⟨h1, h2, _⟩
      have : l = [] := List.eq_nil_of_length_eq_zero h2
      subst this; simp at h1; simp [h1]
  | succ k ih =>
    rw [repeatM_succ_some]
    constructor
    · rintro ⟨x, t1, l', h1, h2, rfl⟩
      obtain ⟨rfl, hx⟩ := popChoice_some.1 h1
      obtain ⟨rfl, hl, hall⟩ := ih.1 h2
      refine ⟨by simp, by simp [hl], ?_⟩
      intro i hi
      rcases List.mem_cons.1 hi with rfl | hi
      · exact hx
      · exact hall i hi
    · rintro ⟨h1, h2, h3⟩
      cases l with
      | nil => simp at h2
      | cons x l' =>
        refine ⟨x, l'.map Draw.choice ++ t', l', ?_, ?_, rfl⟩
        · exact popChoice_some.2 ⟨by simpa using h1, h3 x (by simp)⟩
        · exact ih.2 ⟨rfl, by simpa using h2, fun i hi => h3 i (by simp [hi])⟩

/-! ### The fitness order on indices -/

theorem fitLt_iff (pop : Pop) (i j : Nat) : fitLt pop i j = true ↔ wvAt pop i < wvAt pop j := by
  simpa [fitLt] using C01.lt_iff_lex (α := Rat) ⟨wvAt pop i⟩ ⟨wvAt pop j⟩

theorem fitLt_false_iff (pop : Pop) (i j : Nat) : fitLt pop i j = false ↔ wvAt pop j ≤ wvAt pop i := by
  rw [← not_lt, ← fitLt_iff]; simp

theorem fitGt_iff (pop : Pop) (i j : Nat) : fitGt pop i j = true ↔ wvAt pop j < wvAt pop i := by
  unfold fitGt
  rw [C01.gt_iff_swap (α := Rat)]
  exact C01.lt_iff_lex (α := Rat) ⟨wvAt pop j⟩ ⟨wvAt pop i⟩

/-! ### `sorted` -/

theorem sortedDesc_perm (lt : Nat → Nat → Bool) (l : List Nat) : (sortedDesc lt l).Perm l :=
  List.mergeSort_perm _ _

theorem sortedAsc_perm (lt : Nat → Nat → Bool) (l : List Nat) : (sortedAsc lt l).Perm l :=
  List.mergeSort_perm _ _

theorem sortedDesc_pairwise (pop : Pop) (l : List Nat) :
    (sortedDesc (fitLt pop) l).Pairwise (fun i j => fitLt pop i j = false) := by
  have := List.pairwise_mergeSort (le := fun a b => !fitLt pop a b)
    (by
      intro a b c h1 h2
      simp only [Bool.not_eq_true', fitLt_false_iff] at *
      exact le_trans h2 h1)
    (by
      intro a b
      simp only [Bool.or_eq_true, Bool.not_eq_true', fitLt_false_iff]
      exact le_total _ _) l
  simpa [sortedDesc] using this

theorem sortedAsc_pairwise (pop : Pop) (l : List Nat) :
    (sortedAsc (fitLt pop) l).Pairwise (fun i j => fitLt pop j i = false) := by
  have := List.pairwise_mergeSort (le := fun a b => !fitLt pop b a)
    (by
      intro a b c h1 h2
      simp only [Bool.not_eq_true', fitLt_false_iff] at *
      exact le_trans h1 h2)
    (by
      intro a b
      simp only [Bool.or_eq_true, Bool.not_eq_true', fitLt_false_iff]
      exact le_total _ _) l
  simpa [sortedAsc] using this

theorem mem_sortedDesc_range (pop : Pop) (n i : Nat) :
    i ∈ sortedDesc (fitLt pop) (List.range n) ↔ i < n := by
  rw [(sortedDesc_perm _ _).mem_iff]; simp

theorem mem_sortedAsc_range (pop : Pop) (n i : Nat) :
    i ∈ sortedAsc (fitLt pop) (List.range n) ↔ i < n := by
  rw [(sortedAsc_perm _ _).mem_iff]; simp

theorem nodup_sortedDesc_range (pop : Pop) (n : Nat) : (sortedDesc (fitLt pop) (List.range n)).Nodup :=
  (sortedDesc_perm _ _).nodup_iff.2 List.nodup_range

theorem nodup_sortedAsc_range (pop : Pop) (n : Nat) : (sortedAsc (fitLt pop) (List.range n)).Nodup :=
  (sortedAsc_perm _ _).nodup_iff.2 List.nodup_range

/-- In a pairwise-related list, everything kept by `take k` is related to everything dropped. -/
theorem take_rel_drop {R : Nat → Nat → Prop} {s : List Nat} (hs : s.Pairwise R) (k : Nat) :
    ∀ a ∈ s.take k, ∀ b ∈ s.drop k, R a b := by
  have h := hs
  rw [← List.take_append_drop k s, List.pairwise_append] at h
  exact h.2.2

/-! ### `max(seq, key=fitness)` -/

theorem foldl_max_spec (pop : Pop) (xs : List Nat) (x : Nat) :
    xs.foldl (fun best y => if fitGt pop y best then y else best) x ∈ x :: xs ∧
    ∀ a ∈ x :: xs,
      fitLt pop (xs.foldl (fun best y => if fitGt pop y best then y else best) x) a = false := by
  induction xs generalizing x with
  | nil => simp [fitLt_false_iff]
  | cons y ys ih =>
    simp only [List.foldl_cons]
    generalize hb : (if fitGt pop y x = true then y else x) = b
    have hbm : b = x ∨ b = y := by
      rw [← hb]; split <;> simp
    have hbx : wvAt pop x ≤ wvAt pop b ∧ wvAt pop y ≤ wvAt pop b := by
      rw [← hb]
      by_cases hg : fitGt pop y x = true
      · simp only [hg, ↓reduceIte, le_refl, and_true]
        exact le_of_lt ((fitGt_iff _ _ _).1 hg)
      · simp only [hg, le_refl, true_and]
        rw [fitGt_iff, not_lt] at hg; simpa using hg
    obtain ⟨hmem, hmax⟩ := ih b
    refine ⟨?_, ?_⟩
    · rcases List.mem_cons.1 hmem with h | h
      · rw [h]; rcases hbm with h' | h' <;> simp [h']
      · simp [h]
    · intro a ha
      have hwb := (fitLt_false_iff _ _ _).1 (hmax b (by simp))
      rcases List.mem_cons.1 ha with rfl | ha
      · exact (fitLt_false_iff _ _ _).2 (le_trans hbx.1 hwb)
      · rcases List.mem_cons.1 ha with rfl | ha
        · exact (fitLt_false_iff _ _ _).2 (le_trans hbx.2 hwb)
        · exact hmax a (by simp [ha])

theorem pyMax_spec (pop : Pop) {l : List Nat} {w : Nat} (h : pyMax (fitGt pop) l = some w) :
    w ∈ l ∧ ∀ a ∈ l, fitLt pop w a = false := by
  cases l with
  | nil => simp [pyMax] at h
  | cons x xs =>
    simp only [pyMax, Option.some.injEq] at h
    subst h
    exact foldl_max_spec pop xs x

theorem pyMax_isSome (pop : Pop) {l : List Nat} (h : l ≠ []) : ∃ w, pyMax (fitGt pop) l = some w := by
  cases l with
  | nil => exact absurd rfl h
  | cons x xs => exact ⟨_, rfl⟩

/-! ### Tournaments -/

/-- What a `select(individuals, k=m)` callback guarantees: `m` population indices. -/
def SelOK (n : Nat) (select : Nat → Tape → Option (List Nat × Tape)) : Prop :=
  ∀ m t l t', select m t = some (l, t') → l.length = m ∧ ∀ i ∈ l, i < n

theorem selRandom_ok (n : Nat) : SelOK n (selRandom n) := by
  intro m t l t' h
  obtain ⟨_, h2, h3⟩ := selRandom_spec.1 h
  exact ⟨h2, h3⟩

theorem tournStep_spec {pop : Pop} {ts : Nat} {t t' : Tape} {w : Nat}
    (h : tournStep pop ts t = some (w, t')) :
    ∃ asp, selRandom pop.length ts t = some (asp, t') ∧ w ∈ asp ∧ ∀ a ∈ asp, fitLt pop w a = false := by
  unfold tournStep at h
  cases h1 : selRandom pop.length ts t with
  | none => simp [h1] at h
  | some p =>
    obtain ⟨asp, t1⟩ := p
    simp only [h1] at h
    cases h2 : pyMax (fitGt pop) asp with
    | none => simp [h2] at h
    | some w' =>
      simp only [h2, Option.some.injEq, Prod.mk.injEq] at h
      obtain ⟨rfl, rfl⟩ := h
      exact ⟨asp, rfl, pyMax_spec pop h2⟩

theorem fitTournStep_spec {pop : Pop} {fs : Nat} {select : Nat → Tape → Option (List Nat × Tape)}
    {t t' : Tape} {w : Nat} (h : fitTournStep pop fs select t = some (w, t')) :
    ∃ asp, select fs t = some (asp, t') ∧ w ∈ asp ∧ ∀ a ∈ asp, fitLt pop w a = false := by
  unfold fitTournStep at h
  cases h1 : select fs t with
  | none => simp [h1] at h
  | some p =>
    obtain ⟨asp, t1⟩ := p
    simp only [h1] at h
    cases h2 : pyMax (fitGt pop) asp with
    | none => simp [h2] at h
    | some w' =>
      simp only [h2, Option.some.injEq, Prod.mk.injEq] at h
      obtain ⟨rfl, rfl⟩ := h
      exact ⟨asp, rfl, pyMax_spec pop h2⟩

theorem sizeTournStep_spec {pop : Pop} {ps : Rat} {select : Nat → Tape → Option (List Nat × Tape)}
    {t t' : Tape} {w : Nat} (h : sizeTournStep pop ps select t = some (w, t')) :
    ∃ i1 i2 t1 r, select 2 t = some ([i1, i2], t1) ∧ popRandom t1 = some (r, t') ∧ (w = i1 ∨ w = i2) := by
  unfold sizeTournStep at h
  split at h
  · next i1 i2 t1 hsel =>
    simp only at h
    cases hr : popRandom t1 with
    | none => simp [hr] at h
    | some p =>
      obtain ⟨r, t2⟩ := p
      simp only [hr, Option.some.injEq, Prod.mk.injEq] at h
      obtain ⟨h1, rfl⟩ := h
      refine ⟨i1, i2, t1, r, hsel, hr, ?_⟩
      rw [← h1]
      generalize (if decide (sizeAt pop i1 = sizeAt pop i2) = true then (1 : Rat) / 2 else ps / 2) = prob
      by_cases hc : r < prob <;> by_cases hs : sizeAt pop i1 > sizeAt pop i2 <;> simp [hc, hs]
  · simp at h

theorem fitTournament_ok {pop : Pop} {fs : Nat} {select : Nat → Tape → Option (List Nat × Tape)}
    (hs : SelOK pop.length select) : SelOK pop.length (fitTournament pop fs select) := by
  intro m t l t' h
  refine ⟨repeatM_length _ h, repeatM_forall _ (fun i => i < pop.length) ?_ h⟩
  intro t x t' hx
  obtain ⟨asp, h1, h2, _⟩ := fitTournStep_spec hx
  exact (hs _ _ _ _ h1).2 x h2

theorem sizeTournament_ok {pop : Pop} {ps : Rat} {select : Nat → Tape → Option (List Nat × Tape)}
    (hs : SelOK pop.length select) : SelOK pop.length (sizeTournament pop ps select) := by
  intro m t l t' h
  refine ⟨repeatM_length _ h, repeatM_forall _ (fun i => i < pop.length) ?_ h⟩
  intro t x t' hx
  obtain ⟨i1, i2, t1, r, h1, _, h3⟩ := sizeTournStep_spec hx
  have := (hs _ _ _ _ h1).2
  rcases h3 with rfl | rfl
  · exact this _ (by simp)
  · exact this _ (by simp)

end C06L
