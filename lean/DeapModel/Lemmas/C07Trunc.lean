/-
C07 — the "archive too large" branch of `selSPEA2`: the truncation loop removes `N - k` pairwise
distinct positions (a removed position has an all-`inf` row and is never `min_pos` again).
-/
import DeapModel.Lemmas.C07Common
import Mathlib.Data.List.Perm.Subperm
import Mathlib.Data.List.Basic

set_option linter.unusedSectionVars false

namespace C07L
open Spea2

/-! ### the insertion sort produces an injective row with values `< N` -/

theorem shiftLoop_spec (lt : Nat → Nat → Bool) (j : Nat) :
    ∀ (m : Nat) (s : Nat → Nat),
      (shiftLoop lt j m s).2 ≤ m ∧
      ∀ p, (shiftLoop lt j m s).1 p =
        if (shiftLoop lt j m s).2 < p ∧ p ≤ m then s (p - 1) else s p := by
  intro m
  induction m with
  | zero =>
    intro s
    show (0 : Nat) ≤ 0 ∧ ∀ p, s p = if 0 < p ∧ p ≤ 0 then s (p - 1) else s p
    exact ⟨Nat.le_refl _, fun p => by rw [if_neg (by omega)]⟩
  | succ m ih =>
    intro s
    unfold shiftLoop
    split
    · obtain ⟨h1, h2⟩ := ih (upd s (m + 1) (s m))
      refine ⟨by omega, ?_⟩
      intro p
      rw [h2 p]
      by_cases hp : p = m + 1
      · subst hp
        have : ¬ ((shiftLoop lt j m (upd s (m + 1) (s m))).2 < m + 1 ∧ m + 1 ≤ m) := by omega
        rw [if_neg this]
        have : (shiftLoop lt j m (upd s (m + 1) (s m))).2 < m + 1 ∧ m + 1 ≤ m + 1 := by omega
        rw [if_pos this]; simp
      · by_cases hc : (shiftLoop lt j m (upd s (m + 1) (s m))).2 < p ∧ p ≤ m
        · rw [if_pos hc, if_pos (by omega)]
          exact upd_ne _ _ _ _ (by omega)
        · rw [if_neg hc, if_neg (by omega)]
          exact upd_ne _ _ _ _ hp
    · refine ⟨Nat.le_refl _, ?_⟩
      intro p
      have : ¬ (m + 1 < p ∧ p ≤ m + 1) := by omega
      simp [this]

/-- a row is *good up to `i`*: on positions `< i` it is injective with values `< i`. -/
def RowGood (g : Nat → Nat) (i : Nat) : Prop :=
  (∀ p, p < i → g p < i) ∧ (∀ p q, p < i → q < i → g p = g q → p = q)

theorem insert_good (lt : Nat → Nat → Bool) (g : Nat → Nat) (i : Nat) (h : RowGood g i) :
    RowGood (upd (shiftLoop lt i i g).1 (shiftLoop lt i i g).2 i) (i + 1) := by
  obtain ⟨hm, hs⟩ := shiftLoop_spec lt i i g
  obtain ⟨hv, hi⟩ := h
  generalize (shiftLoop lt i i g).2 = m at hm hs
  generalize (shiftLoop lt i i g).1 = s at hs
  have key : ∀ p, p < i + 1 → p ≠ m → ∃ p', p' < i ∧ s p = g p' ∧ (p' = p ∨ p' + 1 = p) ∧
      (p' = p → p < m) ∧ (p' + 1 = p → m < p) := by
    intro p hp hpm
    rw [hs p]
    by_cases hc : m < p ∧ p ≤ i
    · rw [if_pos hc]; exact ⟨p - 1, by omega, rfl, by omega, by omega, by omega⟩
    · rw [if_neg hc]; exact ⟨p, by omega, rfl, by omega, by omega, by omega⟩
  constructor
  · intro p hp
    by_cases hpm : p = m
    · subst hpm; simp
    · rw [upd_ne _ _ _ _ hpm]
      obtain ⟨p', hp', he, _⟩ := key p hp hpm
      rw [he]; have := hv p' hp'; omega
  · intro p q hp hq he
    by_cases hpm : p = m <;> by_cases hqm : q = m
    · omega
    · subst hpm
      rw [upd_same, upd_ne _ _ _ _ hqm] at he
      obtain ⟨q', hq', he', _⟩ := key q hq hqm
      have := hv q' hq'; omega
    · subst hqm
      rw [upd_same, upd_ne _ _ _ _ hpm] at he
      obtain ⟨p', hp', he', _⟩ := key p hp hpm
      have := hv p' hp'; omega
    · rw [upd_ne _ _ _ _ hpm, upd_ne _ _ _ _ hqm] at he
      obtain ⟨p', hp', hep, hp1, hp2, hp3⟩ := key p hp hpm
      obtain ⟨q', hq', heq, hq1, hq2, hq3⟩ := key q hq hqm
      have : p' = q' := hi p' q' hp' hq' (by rw [← hep, ← heq, he])
      omega

theorem sortRow_good (lt : Nat → Nat → Bool) (N : Nat) (hN : 1 ≤ N) :
    RowGood (look (sortRow lt N)) N := by
  have h := forRange_inv (fun i (l : List Nat) => i ≤ N ∧ RowGood (look l) i)
    (fun j (l : List Nat) => let r := shiftLoop lt j j (look l); tab N (upd r.1 r.2 j))
    (N - 1) 1 (tab N (fun _ => 0))
    (by
      refine ⟨hN, ?_, ?_⟩
      · intro p hp; rw [look_tab N _ p (by omega)]; omega
      · intro p q hp hq _; omega)
    (by
      intro i l h1 h2 ⟨_, hg⟩
      refine ⟨by omega, ?_⟩
      have hg' := insert_good lt (look l) i hg
      obtain ⟨ha, hb⟩ := hg'
      constructor
      · intro p hp
        show look (tab N _) p < i + 1
        rw [look_tab N _ p (by omega)]; exact ha p hp
      · intro p q hp hq
        show look (tab N _) p = look (tab N _) q → p = q
        rw [look_tab N _ p (by omega), look_tab N _ q (by omega)]; exact hb p q hp hq)
  have e : 1 + (N - 1) = N := by omega
  rw [e] at h
  exact h.2

/-! ### bubbling `mp` out of positions `1..size-2` -/

theorem bubble_spec (mp size N : Nat) (row : List Nat) (Pr : Nat → Prop) (hsz : size ≤ N)
    (hinj : ∀ p q, p < N → q < N → look row p = look row q → p = q)
    (hP : ∀ p, 1 ≤ p → p < size → Pr (look row p)) :
    (∀ p q, p < N → q < N → look (bubble mp size N row) p = look (bubble mp size N row) q → p = q) ∧
    (∀ p, 1 ≤ p → p < size → Pr (look (bubble mp size N row) p)) ∧
    (∀ p, 1 ≤ p → p + 1 < size → look (bubble mp size N row) p ≠ mp) := by
  have h := forRange_inv
    (fun j (l : List Nat) =>
      (∀ p q, p < N → q < N → look l p = look l q → p = q) ∧
      (∀ p, 1 ≤ p → p < size → Pr (look l p)) ∧
      (∀ p, 1 ≤ p → p < j → look l p ≠ mp))
    (fun j (l : List Nat) =>
      if look l j = mp then tab N (upd (upd (look l) j (look l (j + 1))) (j + 1) mp) else l)
    (size - 2) 1 row ⟨hinj, hP, fun p h1 h2 => by omega⟩
    (by
      intro i l h1 h2 ⟨hi, hp, hne⟩
      by_cases hc : look l i = mp
      · simp only [hc, if_true]
        have hlk : ∀ x, x < N → look (tab N (upd (upd (look l) i (look l (i + 1))) (i + 1) mp)) x
            = look l (if x = i + 1 then i else if x = i then i + 1 else x) := by
          intro x hx
          rw [look_tab N _ x hx, upd_apply, upd_apply]
          by_cases hx1 : x = i + 1
          · simp [hx1, hc]
          · by_cases hx2 : x = i
            · simp [hx2]
            · simp [hx1, hx2]
        refine ⟨?_, ?_, ?_⟩
        · intro p q hp' hq' he
          rw [hlk p hp', hlk q hq'] at he
          have := hi _ _ (by split <;> [omega; (split <;> omega)]) (by split <;> [omega; (split <;> omega)]) he
          split at this <;> split at this <;> (try split at this) <;> (try split at this) <;> omega
        · intro p hp1 hp2
          rw [hlk p (by omega)]
          apply hp <;> (split <;> [omega; (split <;> omega)])
        · intro p hp1 hp2 he
          rw [hlk p (by omega), ← hc] at he
          have := hi _ _ (by split <;> [omega; (split <;> omega)]) (by omega) he
          split at this <;> [omega; (split at this <;> omega)]
      · simp only [hc, if_false]
        refine ⟨hi, hp, ?_⟩
        intro p hp1 hp2
        by_cases hpi : p = i
        · subst hpi; exact hc
        · exact hne p hp1 (by omega))
  obtain ⟨a, b, c⟩ := h
  exact ⟨a, b, fun p h1 h2 => c p h1 (by omega)⟩

/-! ### float facts about matrix entries -/

section DV
variable {α : Type} [LT α] [DecidableLT α]

theorem inf_lt (x : DVal α) : (DVal.inf : DVal α).lt x = false := by cases x <;> rfl

theorem lt_inf (x : DVal α) (h : x ≠ DVal.inf) : x.lt DVal.inf = true := by
  cases x <;> first | rfl | exact absurd rfl h

/-! ### the `min_pos` search never returns a removed position -/

theorem innerCmp_cases (dist : Mat (DVal α)) (sorted : Mat Nat) (i mp : Nat) :
    ∀ (cnt j : Nat), innerCmp dist sorted i mp j cnt = mp ∨
      (innerCmp dist sorted i mp j cnt = i ∧ ∃ j', j ≤ j' ∧ j' < j + cnt ∧
        (look2 dist i (look2 sorted i j')).lt (look2 dist mp (look2 sorted mp j')) = true) := by
  intro cnt
  induction cnt with
  | zero => intro j; left; rfl
  | succ cnt ih =>
    intro j
    unfold innerCmp
    simp only []
    split
    · next h => right; exact ⟨rfl, j, Nat.le_refl _, by omega, h⟩
    · split
      · left; rfl
      · rcases ih (j + 1) with h | ⟨h, j', h1, h2, h3⟩
        · left; exact h
        · right; exact ⟨h, j', by omega, by omega, h3⟩

theorem innerCmp_first (dist : Mat (DVal α)) (sorted : Mat Nat) (i mp j cnt : Nat)
    (h : (look2 dist i (look2 sorted i j)).lt (look2 dist mp (look2 sorted mp j)) = true) :
    innerCmp dist sorted i mp j (cnt + 1) = i := by
  unfold innerCmp; simp [h]

/-- the state of the truncation loop: `R` = positions removed so far. -/
structure TInv (N size : Nat) (dist : Mat (DVal α)) (sorted : Mat Nat) (R : List Nat) : Prop where
  rowInf : ∀ r ∈ R, ∀ x, x < N → look2 dist r x = DVal.inf
  fin : ∀ i, i < N → i ∉ R → ∀ x, x < N → x ∉ R → look2 dist i x ≠ DVal.inf
  inj : ∀ i, i < N → ∀ p q, p < N → q < N → look2 sorted i p = look2 sorted i q → p = q
  live : ∀ i, i < N → ∀ p, 1 ≤ p → p < size → look2 sorted i p < N ∧ look2 sorted i p ∉ R
  lt : ∀ r ∈ R, r < N
  nodup : R.Nodup
  card : R.length + size = N

theorem exists_not_mem (N : Nat) (R : List Nat) (h : R.length < N) : ∃ x, x < N ∧ x ∉ R := by
  by_contra hc
  have hsub : List.range N ⊆ R := by
    intro x hx
    by_contra hx'
    exact hc ⟨x, List.mem_range.1 hx, hx'⟩
  have := ((List.nodup_range (n := N)).subperm hsub).length_le
  simp at this; omega

theorem minPos_live (N size : Nat) (dist : Mat (DVal α)) (sorted : Mat Nat) (R : List Nat)
    (inv : TInv N size dist sorted R) (hsize : 2 ≤ size) :
    minPos dist sorted N size < N ∧ minPos dist sorted N size ∉ R := by
  have hN : 1 ≤ N := by have := inv.card; omega
  obtain ⟨w, hwN, hwR⟩ := exists_not_mem N R (by have := inv.card; omega)
  have h := forRange_inv
    (fun i (mp : Nat) => mp < N ∧ ((∃ x, x < i ∧ x ∉ R) → mp ∉ R))
    (fun i mp => innerCmp dist sorted i mp 1 (size - 1)) (N - 1) 1 0
    ⟨by omega, fun ⟨x, hx, hxR⟩ => by have : x = 0 := by omega
                                      subst this; exact hxR⟩
    (by
      intro i mp h1 h2 ⟨hmpN, hmp⟩
      have hiN : i < N := by omega
      obtain ⟨c, hc⟩ : ∃ c, size - 1 = c + 1 := ⟨size - 2, by omega⟩
      rcases innerCmp_cases dist sorted i mp (size - 1) 1 with h | ⟨h, j', hj1, hj2, hlt⟩
      · -- result is the old mp
        simp only [h]
        refine ⟨hmpN, ?_⟩
        rintro ⟨x, hx, hxR⟩
        by_cases hxi : x = i
        · subst hxi
          -- i is live; if mp were removed the first comparison would have picked i
          by_contra hmpR
          have hb : look2 dist mp (look2 sorted mp 1) = DVal.inf :=
            inv.rowInf mp hmpR _ (inv.live mp hmpN 1 (Nat.le_refl _) (by omega)).1
          have ha : look2 dist x (look2 sorted x 1) ≠ DVal.inf :=
            inv.fin x hiN hxR _ (inv.live x hiN 1 (Nat.le_refl _) (by omega)).1
              (inv.live x hiN 1 (Nat.le_refl _) (by omega)).2
          have := innerCmp_first dist sorted x mp 1 c (by rw [hb]; exact lt_inf _ ha)
          rw [hc] at h
          rw [this] at h
          subst h
          exact hxR hmpR
        · exact hmp ⟨x, by omega, hxR⟩
      · -- result is i, which won a comparison, hence is live
        simp only [h]
        refine ⟨hiN, fun _ hiR => ?_⟩
        have : look2 dist i (look2 sorted i j') = DVal.inf :=
          inv.rowInf i hiR _ (inv.live i hiN j' (by omega) (by omega)).1
        rw [this, inf_lt] at hlt
        exact Bool.false_ne_true hlt)
  have e : 1 + (N - 1) = N := by omega
  rw [e] at h
  exact ⟨h.1, h.2 ⟨w, hwN, hwR⟩⟩

theorem look2_overwrite (dist : Mat (DVal α)) (N mp a b : Nat) (ha : a < N) (hb : b < N) :
    look2 (overwrite dist N mp) a b = if b = mp ∨ a = mp then DVal.inf else look2 dist a b := by
  unfold overwrite; rw [look2_tab2 N _ a b ha hb]

theorem look2_shuffleRows (sorted : Mat Nat) (N size mp i p : Nat) (hi : i < N) :
    look2 (shuffleRows sorted N size mp) i p = look (bubble mp size N (sorted.getD i [])) p := by
  unfold shuffleRows; rw [look2_tab N _ i p hi]

theorem TInv_step (N size : Nat) (dist : Mat (DVal α)) (sorted : Mat Nat) (R : List Nat)
    (inv : TInv N size dist sorted R) (hsize : 2 ≤ size) :
    TInv N (size - 1) (overwrite dist N (minPos dist sorted N size))
      (shuffleRows sorted N size (minPos dist sorted N size)) (R ++ [minPos dist sorted N size]) := by
  obtain ⟨hmN, hmR⟩ := minPos_live N size dist sorted R inv hsize
  generalize minPos dist sorted N size = mp at hmN hmR
  have hszN : size ≤ N := by have := inv.card; omega
  have hb : ∀ i, i < N → _ := fun i hi =>
    bubble_spec mp size N (sorted.getD i []) (fun v => v < N ∧ v ∉ R) hszN
      (fun p q hp hq he => inv.inj i hi p q hp hq he) (fun p h1 h2 => inv.live i hi p h1 h2)
  constructor
  · intro r hr x hx
    have hrN : r < N := by
      rcases List.mem_append.1 hr with h | h
      · exact inv.lt r h
      · simp at h; omega
    rw [look2_overwrite dist N mp r x hrN hx]
    split
    · rfl
    · next hne =>
      rcases List.mem_append.1 hr with h | h
      · exact inv.rowInf r h x hx
      · simp at h; omega
  · intro i hi hiR x hx hxR
    simp only [List.mem_append, List.mem_singleton, not_or] at hiR hxR
    rw [look2_overwrite dist N mp i x hi hx, if_neg (by omega)]
    exact inv.fin i hi hiR.1 x hx hxR.1
  · intro i hi p q hp hq
    rw [look2_shuffleRows sorted N size mp i p hi, look2_shuffleRows sorted N size mp i q hi]
    exact (hb i hi).1 p q hp hq
  · intro i hi p h1 h2
    rw [look2_shuffleRows sorted N size mp i p hi]
    obtain ⟨_, h3, h4⟩ := hb i hi
    have := h3 p h1 (by omega)
    refine ⟨this.1, ?_⟩
    simp only [List.mem_append, List.mem_singleton, not_or]
    exact ⟨this.2, h4 p h1 (by omega)⟩
  · intro r hr
    rcases List.mem_append.1 hr with h | h
    · exact inv.lt r h
    · simp at h; omega
  · exact List.nodup_append.2 ⟨inv.nodup, (by simp), by
      intro a ha b hb; simp at hb; subst hb; intro h; subst h; exact hmR ha⟩
  · have := inv.card; simp; omega

theorem TInv_init (D : Nat → Nat → α) (N : Nat) (hN : 1 ≤ N) :
    TInv N N (dist0 D N) (sorted0 (dist0 D N) N) [] := by
  have hs : ∀ i, i < N → ∀ p, look2 (sorted0 (dist0 D N) N) i p =
      look (sortRow (fun a b => (look2 (dist0 D N) i a).lt (look2 (dist0 D N) i b)) N) p := by
    intro i hi p; unfold sorted0; rw [look2_tab N _ i p hi]
  constructor
  · intro r hr; simp at hr
  · intro i hi _ x hx _
    unfold dist0; rw [look2_tab2 N _ i x hi hx]
    split <;> simp
  · intro i hi p q hp hq
    rw [hs i hi p, hs i hi q]
    exact (sortRow_good _ N hN).2 p q hp hq
  · intro i hi p h1 h2
    rw [hs i hi p]
    exact ⟨(sortRow_good _ N hN).1 p h2, by simp⟩
  · intro r hr; simp at hr
  · exact List.nodup_nil
  · simp

theorem truncLoop_spec (N k : Nat) (hk : 1 ≤ k) :
    ∀ (n : Nat) (dist : Mat (DVal α)) (sorted : Mat Nat) (R : List Nat),
      TInv N (k + n) dist sorted R →
      (truncLoop N k n dist sorted R).Nodup ∧ (∀ r ∈ truncLoop N k n dist sorted R, r < N) ∧
      (truncLoop N k n dist sorted R).length = R.length + n := by
  intro n
  induction n with
  | zero => intro dist sorted R inv; exact ⟨inv.nodup, inv.lt, rfl⟩
  | succ n ih =>
    intro dist sorted R inv
    have st := TInv_step N (k + (n + 1)) dist sorted R inv (by omega)
    have e : k + (n + 1) - 1 = k + n := by omega
    rw [e] at st
    obtain ⟨a, b, c⟩ := ih _ _ _ st
    unfold truncLoop
    refine ⟨a, b, ?_⟩
    rw [c]; simp; omega

/-- `to_remove` consists of `N - k` pairwise distinct positions `< N`. -/
theorem toRemove_spec (D : Nat → Nat → α) (N k : Nat) (hk : 1 ≤ k) (hkN : k ≤ N) :
    (toRemove D N k).Nodup ∧ (∀ r ∈ toRemove D N k, r < N) ∧ (toRemove D N k).length = N - k := by
  have inv := TInv_init D N (by omega)
  have e : N = k + (N - k) := by omega
  have := truncLoop_spec N k hk (N - k) (dist0 D N) (sorted0 (dist0 D N) N) [] (by rw [← e]; exact inv)
  simpa [toRemove] using this

end DV

end C07L
