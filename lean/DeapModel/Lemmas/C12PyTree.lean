/-
Helper lemmas for C12: the Python expression model reads the printed tree back.
`lex (render t) = treeToks t`, `pExpr (treeToks t) = exprOfTree t`, `evalPy (exprOfTree t) = evalTree t`.
-/
import DeapModel.Core.GpCompile
import DeapModel.Lemmas.C12Py

namespace GpCompile
open GpTree PyLang

/-! ### the token list of a printed tree -/

def atomToks (s : Str) : List Tok := (lex s).getD []

/-- `", ".join` at token level -/
def joinToks : List (List Tok) → List Tok
  | [] => []
  | [a] => a
  | a :: b :: rest => a ++ Tok.comma :: joinToks (b :: rest)

mutual
def treeToks : Tree → List Tok
  | .node p as =>
    if p.kind = .prim then Tok.name p.name.toList :: Tok.lpar :: (joinToks (treeToksF as) ++ [Tok.rpar])
    else atomToks p.text.toList
def treeToksF : List Tree → List (List Tok)
  | [] => []
  | t :: ts => treeToks t :: treeToksF ts
end

theorem lex_char {c : Char} {em : List Tok} (h : startChar c = some (.idle, em)) (X : Str) :
    lex (c :: X) = (lex X).map (fun r => em ++ r) := by
  simp only [lex, lexGo, h]

theorem lex_lpar (X : Str) : lex ('(' :: X) = (lex X).map (fun r => Tok.lpar :: r) := lex_char (em := [.lpar]) rfl X
theorem lex_rpar (X : Str) : lex (')' :: X) = (lex X).map (fun r => Tok.rpar :: r) := lex_char (em := [.rpar]) rfl X
theorem lex_comma (X : Str) : lex (',' :: X) = (lex X).map (fun r => Tok.comma :: r) := lex_char (em := [.comma]) rfl X
theorem lex_colon (X : Str) : lex (':' :: X) = (lex X).map (fun r => Tok.colon :: r) := lex_char (em := [.colon]) rfl X
theorem lex_space (X : Str) : lex (' ' :: X) = lex X := by
  have := lex_char (c := ' ') (em := []) rfl X
  simpa using this

theorem srcOK_prim {p : Prim} (h : SrcOK p = true) (hk : p.kind = .prim) : isIdent p.name.toList = true := by
  simpa [SrcOK, hk] using h

theorem srcOK_term {p : Prim} (h : SrcOK p = true) (hk : ¬ p.kind = .prim) :
    ∃ e, atomOf p.text.toList = some e := by
  simp only [SrcOK, hk, if_false, isAtomText, Option.isSome_iff_exists] at h
  exact h

theorem atomToks_eq {s : Str} {toks : List Tok} (h : lex s = some toks) : atomToks s = toks := by
  simp [atomToks, h]

mutual
/-- the tokenizer on a printed tree (followed by anything that starts with a break character) -/
theorem lex_render : ∀ (t : Tree) (rest : Str), (∀ p ∈ flatten t, SrcOK p = true) → Break rest →
    lex (render t ++ rest) = (lex rest).map (fun r => treeToks t ++ r)
  | .node p as, rest, h, hb => by
    have hp := h p (by simp [flatten])
    have has : ∀ q ∈ flattenF as, SrcOK q = true := fun q hq => h q (by simp [flatten, hq])
    by_cases hk : p.kind = .prim
    · have hid := srcOK_prim hp hk
      simp only [render, fmt, treeToks, hk, if_true, List.append_assoc, List.cons_append, List.nil_append]
      rw [lex_append (lex_ident hid) (Or.inr ⟨'(', _, rfl, by decide⟩), lex_lpar, lex_joinArgs as rest has]
      simp [Option.map_map, Function.comp_def]
    · obtain ⟨e, he⟩ := srcOK_term hp hk
      obtain ⟨toks, hl, _, _⟩ := atom_parse he
      simp only [render, fmt, treeToks, hk, if_false]
      rw [lex_append hl hb, atomToks_eq hl]
/-- the tokenizer on the joined arguments up to the closing parenthesis -/
theorem lex_joinArgs : ∀ (as : List Tree) (rest : Str), (∀ p ∈ flattenF as, SrcOK p = true) →
    lex (joinArgs (renderF as) ++ ')' :: rest) =
      (lex rest).map (fun r => joinToks (treeToksF as) ++ Tok.rpar :: r)
  | [], rest, _ => by simp [renderF, joinArgs, treeToksF, joinToks, lex_rpar]
  | a :: as, rest, h => by
    have ha : ∀ q ∈ flatten a, SrcOK q = true := fun q hq => h q (by simp [flattenF, hq])
    have has : ∀ q ∈ flattenF as, SrcOK q = true := fun q hq => h q (by simp [flattenF, hq])
    cases as with
    | nil =>
      simp only [renderF, joinArgs, treeToksF, joinToks]
      rw [lex_render a (')' :: rest) ha (Or.inr ⟨')', _, rfl, by decide⟩), lex_rpar]
      simp [Option.map_map, Function.comp_def]
    | cons b bs =>
      simp only [renderF, joinArgs, treeToksF, joinToks, List.append_assoc, List.cons_append, List.nil_append]
      rw [lex_render a _ ha (Or.inr ⟨',', _, rfl, by decide⟩), lex_comma, lex_space]
      have := lex_joinArgs (b :: bs) rest has
      simp only [renderF, treeToksF] at this
      rw [this]
      simp [Option.map_map, Function.comp_def]
end

/-! ### the parser on the token list of a tree -/

mutual
theorem pExpr_tree : ∀ (t : Tree) (n : Nat) (r : List Tok), (∀ p ∈ flatten t, SrcOK p = true) → Follow r →
    2 * (treeToks t).length ≤ n → pExpr n (treeToks t ++ r) = some (exprOfTree t, r)
  | .node p as, n, r, h, hr, hn => by
    have hp := h p (by simp [flatten])
    have has : ∀ q ∈ flattenF as, SrcOK q = true := fun q hq => h q (by simp [flatten, hq])
    by_cases hk : p.kind = .prim
    · have hid := srcOK_prim hp hk
      simp only [treeToks, hk, if_true, List.length_cons, List.length_append, List.length_nil] at hn
      obtain ⟨m, rfl⟩ : ∃ m, n = m + 1 := ⟨n - 1, by omega⟩
      simp only [treeToks, exprOfTree, hk, if_true, List.cons_append, List.append_assoc, List.nil_append, pExpr, hid]
      rw [pArgs_trees as m r has (by omega)]
    · obtain ⟨e, he⟩ := srcOK_term hp hk
      obtain ⟨toks, hl, _, hparse⟩ := atom_parse he
      simp only [treeToks, hk, if_false, atomToks_eq hl] at hn
      simp only [treeToks, exprOfTree, hk, if_false, atomToks_eq hl, he, Option.getD_some]
      exact hparse n r hr hn
theorem pArgs_trees : ∀ (as : List Tree) (n : Nat) (r : List Tok), (∀ p ∈ flattenF as, SrcOK p = true) →
    2 * (joinToks (treeToksF as)).length + 1 ≤ n →
    pArgs n (joinToks (treeToksF as) ++ Tok.rpar :: r) = some (exprOfF as, r)
  | [], n, r, _, hn => by
    obtain ⟨m, rfl⟩ : ∃ m, n = m + 1 := ⟨n - 1, by omega⟩
    cases m <;> simp [treeToksF, joinToks, exprOfF, pArgs, pExpr]
  | a :: as, n, r, h, hn => by
    have ha : ∀ q ∈ flatten a, SrcOK q = true := fun q hq => h q (by simp [flattenF, hq])
    have has : ∀ q ∈ flattenF as, SrcOK q = true := fun q hq => h q (by simp [flattenF, hq])
    obtain ⟨m, rfl⟩ : ∃ m, n = m + 1 := ⟨n - 1, by omega⟩
    cases as with
    | nil =>
      simp only [treeToksF, joinToks] at hn
      simp only [treeToksF, joinToks, exprOfF, pArgs]
      rw [pExpr_tree a m (Tok.rpar :: r) ha (Or.inr (Or.inr ⟨r, rfl⟩)) (by omega)]
    | cons b bs =>
      simp only [treeToksF, joinToks, List.length_append, List.length_cons] at hn
      simp only [treeToksF, joinToks, exprOfF, pArgs, List.append_assoc, List.cons_append]
      rw [pExpr_tree a m _ ha (Or.inr (Or.inl ⟨_, rfl⟩)) (by omega)]
      have := pArgs_trees (b :: bs) m r has (by simp only [treeToksF]; omega)
      simp only [treeToksF, exprOfF] at this
      simp only [this]
end

/-! ### the parameter list -/

def paramToks : List Str → List Tok
  | [] => []
  | [a] => [Tok.name a]
  | a :: b :: rest => Tok.name a :: Tok.comma :: paramToks (b :: rest)

theorem lex_joinComma : ∀ (args : List Str) (Y : Str), args ≠ [] → (∀ a ∈ args, isIdent a = true) →
    lex (joinComma args ++ ':' :: Y) = (lex Y).map (fun r => paramToks args ++ Tok.colon :: r)
  | [], _, hne, _ => by simp at hne
  | [a], Y, _, h => by
    simp only [joinComma, paramToks]
    rw [lex_append (lex_ident (h a (by simp))) (Or.inr ⟨':', _, rfl, by decide⟩), lex_colon]
    simp [Option.map_map, Function.comp_def]
  | a :: b :: rest, Y, _, h => by
    simp only [joinComma, paramToks, List.append_assoc, List.cons_append, List.nil_append]
    rw [lex_append (lex_ident (h a (by simp))) (Or.inr ⟨',', _, rfl, by decide⟩), lex_comma,
      lex_joinComma (b :: rest) Y (by simp) (fun x hx => h x (by simp [hx]))]
    simp [Option.map_map, Function.comp_def]

theorem pParams_ok : ∀ (args : List Str) (body : List Tok), args ≠ [] → (∀ a ∈ args, isIdent a = true) →
    pParams (paramToks args ++ Tok.colon :: body) = some (args, body)
  | [], _, hne, _ => by simp at hne
  | [a], body, _, h => by simp [paramToks, pParams, h a (by simp)]
  | a :: b :: rest, body, _, h => by
    have := pParams_ok (b :: rest) body (by simp) (fun x hx => h x (by simp [hx]))
    simp only [paramToks, List.cons_append, pParams, h a (by simp), if_true]
    rw [this]

/-! ### evaluation -/

/-- the namespace inside the lambda body -/
def bodyEnv (P : PyEnv) (args : List Str) (vals : List Val) : PyEnv := { P with locals := args.zip vals }

/-- the `evalTree` environment `compile` uses -/
def bodyTreeEnv (env : Env) (args : List Str) (vals : List Val) : Env :=
  { env with vars := bindArgs args vals env.vars, funs := shadowFuns args vals env.funs }

theorem find_zip_ident {args : List Str} {vals : List Val} (ha : ∀ a ∈ args, isIdent a = true) {x : Str}
    {nv : Str × Val} (h : (args.zip vals).find? (fun nv => nv.1 == x) = some nv) : isIdent x = true := by
  have hm := List.mem_of_find?_eq_some h
  have hx := List.find?_some h
  have : nv.1 = x := by simpa using hx
  rw [← this]
  exact ha _ (List.of_mem_zip hm).1

mutual
/-- **Python's evaluation of the printed tree is the tree's own evaluation** -/
theorem evalPy_tree (P : PyEnv) (args : List Str) (vals : List Val) (ha : ∀ a ∈ args, isIdent a = true) :
    ∀ (t : Tree), (∀ p ∈ flatten t, SrcOK p = true) →
      evalPy (bodyEnv P args vals) (exprOfTree t) = evalTree (bodyTreeEnv (envOfPy P) args vals) t
  | .node p as, h => by
    have hp := h p (by simp [flatten])
    have has : ∀ q ∈ flattenF as, SrcOK q = true := fun q hq => h q (by simp [flatten, hq])
    by_cases hk : p.kind = .prim
    · have hid := srcOK_prim hp hk
      simp only [exprOfTree, evalTree, hk, if_true, evalPy, evalArgs_trees P args vals ha as has]
      simp only [bodyEnv, PyEnv.lookup, bodyTreeEnv, shadowFuns, envOfPy, hid, if_true]
      cases hf : (args.zip vals).find? (fun nv => nv.1 == p.name.toList) with
      | some nv => simp
      | none =>
        simp only
        cases hg : P.globals p.name.toList with
        | none => simp
        | some o =>
          cases o with
          | val v => simp
          | fn g =>
            simp only
            generalize evalF _ as = ef
            cases ef <;> rfl
    · obtain ⟨e, he⟩ := srcOK_term hp hk
      simp only [exprOfTree, evalTree, hk, if_false, he, Option.getD_some]
      rcases atom_eval he (bodyEnv P args vals) with ⟨hid, rfl⟩ | ⟨hid, hev⟩
      · simp only [evalPy, bodyEnv, PyEnv.lookup, bodyTreeEnv, bindArgs, envOfPy, hid, if_true]
        cases hf : (args.zip vals).find? (fun nv => nv.1 == p.text.toList) with
        | some nv => simp
        | none =>
          simp only
          have hl : litOf p.text.toList = none := by simp [litOf, he, evalConst]
          cases hg : P.globals p.text.toList with
          | none => simp [hl]
          | some o => cases o <;> simp [hl]
      · rw [hev]
        have hfind : (args.zip vals).find? (fun nv => nv.1 == p.text.toList) = none := by
          cases hf : (args.zip vals).find? (fun nv => nv.1 == p.text.toList) with
          | none => rfl
          | some nv => rw [find_zip_ident ha hf] at hid; cases hid
        simp [bodyTreeEnv, bindArgs, hfind, envOfPy, hid, litOf, he]
theorem evalArgs_trees (P : PyEnv) (args : List Str) (vals : List Val) (ha : ∀ a ∈ args, isIdent a = true) :
    ∀ (as : List Tree), (∀ p ∈ flattenF as, SrcOK p = true) →
      evalArgs (bodyEnv P args vals) (exprOfF as) = evalF (bodyTreeEnv (envOfPy P) args vals) as
  | [], _ => by simp [exprOfF, evalArgs, evalF]
  | a :: as, h => by
    have h1 : ∀ q ∈ flatten a, SrcOK q = true := fun q hq => h q (by simp [flattenF, hq])
    have h2 : ∀ q ∈ flattenF as, SrcOK q = true := fun q hq => h q (by simp [flattenF, hq])
    simp only [exprOfF, evalArgs, evalF, evalPy_tree P args vals ha a h1, evalArgs_trees P args vals ha as h2]
    generalize evalTree _ a = x
    generalize evalF _ as = y
    cases x <;> cases y <;> rfl
end

/-! ### the whole source text -/

theorem pTop_lambda (ts : List Tok) : pTop (Tok.name "lambda".toList :: ts) = none := by
  have h1 : isIdent ['l', 'a', 'm', 'b', 'd', 'a'] = false := by decide
  have h2 : nameExpr ['l', 'a', 'm', 'b', 'd', 'a'] = none := by decide
  unfold pTop
  have : 2 * (Tok.name "lambda".toList :: ts).length + 2 = (2 * ts.length + 3) + 1 := by simp; omega
  rw [this]
  cases ts with
  | nil => simp [pExpr, h2]
  | cons t ts => cases t <;> simp [pExpr, h1, h2]

theorem pTop_tree (t : Tree) (h : ∀ p ∈ flatten t, SrcOK p = true) : pTop (treeToks t) = some (exprOfTree t) := by
  have := pExpr_tree t (2 * (treeToks t).length + 2) [] h (Or.inl rfl) (by omega)
  simp only [List.append_nil] at this
  simp [pTop, this]

theorem lex_tree (t : Tree) (h : ∀ p ∈ flatten t, SrcOK p = true) : lex (render t) = some (treeToks t) := by
  have := lex_render t [] h (Or.inl rfl)
  simpa [lex, lexGo] using this

theorem argsOK_ident {args : List Str} (h : ArgsOK args = true) : ∀ a ∈ args, isIdent a = true := by
  simp only [ArgsOK, Bool.and_eq_true, List.all_eq_true] at h
  exact h.1

theorem argsOK_nodup {args : List Str} (h : ArgsOK args = true) : nodupStr args = true := by
  simp only [ArgsOK, Bool.and_eq_true] at h
  exact h.2

/-- the tokens of `lambda a,b: <render t>` -/
theorem lex_lambda (args : List Str) (t : Tree) (hne : args ≠ []) (ha : ∀ a ∈ args, isIdent a = true)
    (h : ∀ p ∈ flatten t, SrcOK p = true) :
    lex ("lambda ".toList ++ joinComma args ++ ": ".toList ++ render t) =
      some (Tok.name "lambda".toList :: (paramToks args ++ Tok.colon :: treeToks t)) := by
  have e1 : "lambda ".toList ++ joinComma args ++ ": ".toList ++ render t =
      "lambda".toList ++ (' ' :: (joinComma args ++ ':' :: (' ' :: render t))) := by
    simp [List.append_assoc]
  have hl : lex "lambda".toList = some [Tok.name "lambda".toList] := by decide
  rw [e1, lex_append hl (Or.inr ⟨' ', _, rfl, by decide⟩), lex_space, lex_joinComma args _ hne ha, lex_space,
    lex_tree t h]
  simp

/-! ### ADF namespaces -/

theorem envOfPy_withAdfs (P : PyEnv) (d : List (Str × (List Val → Option Val)))
    (hd : ∀ e ∈ d, isIdent e.1 = true) : envOfPy (withAdfsPy P d) = withAdfs (envOfPy P) d := by
  unfold envOfPy withAdfs withAdfsPy
  simp only
  congr 1 <;> funext x <;> cases h : d.find? (fun e => e.1 == x) with
  | none => simp
  | some e =>
    have hx : e.1 = x := by simpa using List.find?_some h
    have := hd e (List.mem_of_find?_eq_some h)
    rw [hx] at this
    simp [this]

end GpCompile
