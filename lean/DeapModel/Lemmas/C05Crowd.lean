/-
C05 lemmas, part 2: `assignCrowdingDist` computes the crowding distance of the statement when the
values of every objective are pairwise distinct.

`crowdSpec vals j` is written from the statement: for every objective, with the column of that
objective, the individual's contribution is infinite when it has no smaller or no larger neighbour,
otherwise (least larger value − greatest smaller value) / (nobj · (max − min)); contributions are
added, infinity absorbing.
-/
import DeapModel.Core.Crowding
import DeapModel.Lemmas.C05Cut
import Mathlib.Algebra.Order.Field.Basic
import Mathlib.Data.List.Basic
import Mathlib.Data.List.Perm.Basic
import Mathlib.Data.List.Nodup

set_option linter.unusedSectionVars false
set_option linter.unusedSimpArgs false
set_option linter.unusedVariables false

namespace C05L
open NDSort Crowding

variable {α : Type} [Field α] [LinearOrder α] [Inhabited α]

/-! ### specification -/

/-- the greatest element (first one, if repeated) -/
def maxOf : List α → Option α
  | [] => none
  | x :: xs => some (xs.foldl (fun m y => if m < y then y else m) x)

/-- the least element -/
def minOf : List α → Option α
  | [] => none
  | x :: xs => some (xs.foldl (fun m y => if y < m then y else m) x)

/-- greatest column value strictly below `v` -/
def predOf (col : List α) (v : α) : Option α := maxOf (col.filter (fun u => decide (u < v)))

/-- least column value strictly above `v` -/
def succOf (col : List α) (v : α) : Option α := minOf (col.filter (fun u => decide (v < u)))

/-- contribution of one objective (its column `col`) to the distance of an individual whose value
is `v`: `none` = infinite = no neighbour on one side -/
def contrib (nobj : Nat) (col : List α) (v : α) : Dist α :=
  match predOf col v, succOf col v, minOf col, maxOf col with
  | some p, some s, some lo, some hi => some ((s - p) / ((nobj : α) * (hi - lo)))
  | _, _, _, _ => none

/-- add a contribution, infinity absorbing -/
def combine (acc : Dist α) : Dist α → Dist α
  | none => none
  | some x => acc.add x

/-- the distance after the first `upto` objectives -/
def crowdPartial (vals : List (List α)) (nobj : Nat) (j : Nat) (upto : Nat) : Dist α :=
  (List.range upto).foldl
    (fun acc i => combine acc (contrib nobj (vals.map (fun v => val v i)) (val (vals.getD j []) i))) (some 0)

/-- the crowding distance of individual `j` of the front `vals`, from the statement -/
def crowdSpec (vals : List (List α)) (j : Nat) : Dist α :=
  crowdPartial vals (vals.headD []).length j (vals.headD []).length

/-! ### extrema -/

theorem foldl_max_spec (xs : List α) (x : α) :
    (xs.foldl (fun m y => if m < y then y else m) x ∈ x :: xs) ∧
    ∀ y ∈ x :: xs, y ≤ xs.foldl (fun m y => if m < y then y else m) x := by
  induction xs generalizing x with
  | nil => simp
  | cons a xs ih =>
    simp only [List.foldl_cons]
    obtain ⟨h1, h2⟩ := ih (if x < a then a else x)
    refine ⟨?_, ?_⟩
    · rcases List.mem_cons.1 h1 with h | h
      · rw [h]; split <;> simp
      · simp [h]
    · intro y hy
      have hm := h2 (if x < a then a else x) (by simp)
      rcases List.mem_cons.1 hy with hyx | hy
      · rw [hyx]; refine le_trans ?_ hm; split
        · next h => exact le_of_lt h
        · exact le_refl _
      · rcases List.mem_cons.1 hy with hya | hy
        · rw [hya]; refine le_trans ?_ hm; split
          · exact le_refl _
          · next h => exact not_lt.1 h
        · exact h2 y (by simp [hy])

theorem foldl_min_spec (xs : List α) (x : α) :
    (xs.foldl (fun m y => if y < m then y else m) x ∈ x :: xs) ∧
    ∀ y ∈ x :: xs, xs.foldl (fun m y => if y < m then y else m) x ≤ y := by
  induction xs generalizing x with
  | nil => simp
  | cons a xs ih =>
    simp only [List.foldl_cons]
    obtain ⟨h1, h2⟩ := ih (if a < x then a else x)
    refine ⟨?_, ?_⟩
    · rcases List.mem_cons.1 h1 with h | h
      · rw [h]; split <;> simp
      · simp [h]
    · intro y hy
      have hm := h2 (if a < x then a else x) (by simp)
      rcases List.mem_cons.1 hy with hyx | hy
      · rw [hyx]; refine le_trans hm ?_; split
        · next h => exact le_of_lt h
        · exact le_refl _
      · rcases List.mem_cons.1 hy with hya | hy
        · rw [hya]; refine le_trans hm ?_; split
          · exact le_refl _
          · next h => exact not_lt.1 h
        · exact h2 y (by simp [hy])

theorem maxOf_eq_some_iff (l : List α) (m : α) : maxOf l = some m ↔ m ∈ l ∧ ∀ y ∈ l, y ≤ m := by
  cases l with
  | nil => simp [maxOf]
  | cons x xs =>
    obtain ⟨h1, h2⟩ := foldl_max_spec xs x
    simp only [maxOf, Option.some.injEq]
    constructor
    · rintro rfl; exact ⟨h1, h2⟩
    · rintro ⟨hm, hle⟩; exact le_antisymm (hle _ h1) (h2 m hm)

theorem minOf_eq_some_iff (l : List α) (m : α) : minOf l = some m ↔ m ∈ l ∧ ∀ y ∈ l, m ≤ y := by
  cases l with
  | nil => simp [minOf]
  | cons x xs =>
    obtain ⟨h1, h2⟩ := foldl_min_spec xs x
    simp only [minOf, Option.some.injEq]
    constructor
    · rintro rfl; exact ⟨h1, h2⟩
    · rintro ⟨hm, hle⟩; exact le_antisymm (h2 m hm) (hle _ h1)

theorem maxOf_eq_none_iff (l : List α) : maxOf l = none ↔ l = [] := by
  cases l <;> simp [maxOf]

theorem minOf_eq_none_iff (l : List α) : minOf l = none ↔ l = [] := by
  cases l <;> simp [minOf]

theorem predOf_eq_some_iff (col : List α) (v p : α) :
    predOf col v = some p ↔ p ∈ col ∧ p < v ∧ ∀ u ∈ col, u < v → u ≤ p := by
  simp only [predOf, maxOf_eq_some_iff, List.mem_filter, decide_eq_true_eq]
  constructor
  · rintro ⟨⟨h1, h2⟩, h3⟩; exact ⟨h1, h2, fun u hu huv => h3 u ⟨hu, huv⟩⟩
  · rintro ⟨h1, h2, h3⟩; exact ⟨⟨h1, h2⟩, fun u hu => h3 u hu.1 hu.2⟩

theorem succOf_eq_some_iff (col : List α) (v s : α) :
    succOf col v = some s ↔ s ∈ col ∧ v < s ∧ ∀ u ∈ col, v < u → s ≤ u := by
  simp only [succOf, minOf_eq_some_iff, List.mem_filter, decide_eq_true_eq]
  constructor
  · rintro ⟨⟨h1, h2⟩, h3⟩; exact ⟨h1, h2, fun u hu huv => h3 u ⟨hu, huv⟩⟩
  · rintro ⟨h1, h2, h3⟩; exact ⟨⟨h1, h2⟩, fun u hu => h3 u hu.1 hu.2⟩

theorem predOf_eq_none_iff (col : List α) (v : α) : predOf col v = none ↔ ∀ u ∈ col, v ≤ u := by
  simp only [predOf, maxOf_eq_none_iff, List.filter_eq_nil_iff, decide_eq_true_eq, not_lt]

theorem succOf_eq_none_iff (col : List α) (v : α) : succOf col v = none ↔ ∀ u ∈ col, u ≤ v := by
  simp only [succOf, minOf_eq_none_iff, List.filter_eq_nil_iff, decide_eq_true_eq, not_lt]

/-! ### consecutive triples of a strictly sorted list -/

section Triples
variable {β : Type} (key : β → α)

theorem triples_mem : ∀ (l : List β) (t : β × β × β), t ∈ triples l → t.1 ∈ l ∧ t.2.1 ∈ l ∧ t.2.2 ∈ l
  | [], t, h => by simp [triples] at h
  | [_], t, h => by simp [triples] at h
  | [_, _], t, h => by simp [triples] at h
  | a :: b :: c :: rest, t, h => by
    rw [triples] at h
    rcases List.mem_cons.1 h with rfl | h
    · simp
    · obtain ⟨h1, h2, h3⟩ := triples_mem (b :: c :: rest) t h
      exact ⟨List.mem_cons_of_mem _ h1, List.mem_cons_of_mem _ h2, List.mem_cons_of_mem _ h3⟩

/-- in a strictly increasing list the outer elements of a consecutive triple are the nearest
neighbours of its centre -/
theorem triples_sorted : ∀ (l : List β), l.Pairwise (fun a b => key a < key b) →
    ∀ t ∈ triples l, key t.1 < key t.2.1 ∧ key t.2.1 < key t.2.2 ∧
      ∀ x ∈ l, key x ≤ key t.1 ∨ key x = key t.2.1 ∨ key t.2.2 ≤ key x
  | [], _, t, h => by simp [triples] at h
  | [_], _, t, h => by simp [triples] at h
  | [_, _], _, t, h => by simp [triples] at h
  | a :: b :: c :: rest, hp, t, h => by
    rw [triples] at h
    have hp' := List.pairwise_cons.1 hp
    have hp'' := List.pairwise_cons.1 hp'.2
    rcases List.mem_cons.1 h with rfl | h
    · refine ⟨hp'.1 b (by simp), hp''.1 c (by simp), ?_⟩
      intro x hx
      rcases List.mem_cons.1 hx with rfl | hx
      · exact Or.inl (le_refl _)
      · rcases List.mem_cons.1 hx with rfl | hx
        · exact Or.inr (Or.inl rfl)
        · rcases List.mem_cons.1 hx with rfl | hx
          · exact Or.inr (Or.inr (le_refl _))
          · exact Or.inr (Or.inr (le_of_lt ((List.pairwise_cons.1 hp''.2).1 x hx)))
    · obtain ⟨h1, h2, h3⟩ := triples_sorted (b :: c :: rest) hp'.2 t h
      refine ⟨h1, h2, ?_⟩
      intro x hx
      rcases List.mem_cons.1 hx with hxa | hx
      · rw [hxa]; exact Or.inl (le_of_lt (hp'.1 _ (triples_mem (b :: c :: rest) t h).1))
      · exact h3 x hx

/-- every element of a list is its head, its last element, or the centre of a consecutive triple -/
theorem head_last_or_centre : ∀ (l : List β) (c : β), c ∈ l →
    l.head? = some c ∨ l.getLast? = some c ∨ ∃ t ∈ triples l, t.2.1 = c
  | [], c, h => by simp at h
  | [a], c, h => by simp at h; subst h; simp
  | [a, b], c, h => by
    simp at h; rcases h with rfl | rfl
    · simp
    · right; left; simp
  | a :: b :: c' :: rest, c, h => by
    rcases List.mem_cons.1 h with rfl | h
    · simp
    · rcases head_last_or_centre (b :: c' :: rest) c h with h1 | h1 | ⟨t, ht, hc⟩
      · simp only [List.head?_cons, Option.some.injEq] at h1
        right; right; exact ⟨(a, b, c'), by rw [triples]; simp, h1⟩
      · right; left; rw [List.getLast?_cons_cons]; exact h1
      · right; right; exact ⟨t, by rw [triples]; exact List.mem_cons_of_mem _ ht, hc⟩

end Triples

/-! ### the loop over the interior of the sorted `crowd` -/

theorem getD_set_self {γ : Type} (l : List γ) (i : Nat) (a dflt : γ) (h : i < l.length) :
    (l.set i a).getD i dflt = a := by
  simp [List.getD_eq_getElem?_getD, List.getElem?_set, h]

theorem getD_set_ne {γ : Type} (l : List γ) {i j : Nat} (a dflt : γ) (h : i ≠ j) :
    (l.set i a).getD j dflt = l.getD j dflt := by
  simp [List.getD_eq_getElem?_getD, List.getElem?_set, h]

theorem triples_centre_tail {β : Type} : ∀ (l : List β) (t : β × β × β), t ∈ triples l → t.2.1 ∈ l.tail
  | [], t, h => by simp [triples] at h
  | [_], t, h => by simp [triples] at h
  | [_, _], t, h => by simp [triples] at h
  | a :: b :: c :: rest, t, h => by
    rw [triples] at h
    rcases List.mem_cons.1 h with rfl | h
    · simp
    · have := triples_centre_tail (b :: c :: rest) t h
      simp only [List.tail_cons] at this ⊢
      exact List.mem_cons_of_mem _ this

theorem triples_fold (i : Nat) (norm : α) : ∀ (l : List (List α × Nat)) (d : List (Dist α)),
    (l.map (·.2)).Nodup → (∀ c ∈ l, c.2 < d.length) →
    (∀ t ∈ triples l, ((triples l).foldl (tripleStep i norm) d).getD t.2.1.2 none =
        (d.getD t.2.1.2 none).add ((val t.2.2.1 i - val t.1.1 i) / norm)) ∧
    (∀ j, (∀ t ∈ triples l, t.2.1.2 ≠ j) →
        ((triples l).foldl (tripleStep i norm) d).getD j none = d.getD j none)
  | [], d, _, _ => by simp [triples]
  | [_], d, _, _ => by simp [triples]
  | [_, _], d, _, _ => by simp [triples]
  | a :: b :: c :: rest, d, hnd, hb => by
    have hnd' : ((b :: c :: rest).map (·.2)).Nodup := by
      simp only [List.map_cons] at hnd ⊢; exact (List.nodup_cons.1 hnd).2
    have hbn : b.2 ∉ (c :: rest).map (·.2) := by
      simp only [List.map_cons] at hnd'; exact (List.nodup_cons.1 hnd').1
    have hlen1 : (tripleStep i norm d (a, b, c)).length = d.length := by simp [tripleStep]
    obtain ⟨ih1, ih2⟩ := triples_fold i norm (b :: c :: rest) (tripleStep i norm d (a, b, c)) hnd'
      (by intro x hx; rw [hlen1]; exact hb x (List.mem_cons_of_mem _ hx))
    have hcentre : ∀ t ∈ triples (b :: c :: rest), t.2.1.2 ≠ b.2 := by
      intro t ht e
      have := triples_centre_tail _ t ht
      simp only [List.tail_cons] at this
      exact hbn (e ▸ List.mem_map_of_mem this)
    have hbb : b.2 < d.length := hb b (by simp)
    rw [triples]
    simp only [List.foldl_cons]
    refine ⟨?_, ?_⟩
    · intro t ht
      rcases List.mem_cons.1 ht with rfl | ht
      · rw [ih2 b.2 hcentre]
        simp only [tripleStep]
        exact getD_set_self _ _ _ _ hbb
      · rw [ih1 t ht]
        simp only [tripleStep]
        rw [getD_set_ne _ _ _ (fun e => hcentre t ht e.symm)]
    · intro j hj
      have hjb : b.2 ≠ j := hj (a, b, c) (by simp)
      rw [ih2 j (fun t ht => hj t (List.mem_cons_of_mem _ ht))]
      simp only [tripleStep]
      exact getD_set_ne _ _ _ hjb

/-! ### one objective -/

theorem pairwise_getLast {β : Type} {R : β → β → Prop} : ∀ (l : List β), l.Pairwise R →
    ∀ last, l.getLast? = some last → ∀ x ∈ l, x = last ∨ R x last
  | [], _, last, h, x, hx => by simp at hx
  | [a], _, last, h, x, hx => by simp at h hx; left; rw [hx, h]
  | a :: b :: rest, hp, last, h, x, hx => by
    rw [List.getLast?_cons_cons] at h
    have hp' := List.pairwise_cons.1 hp
    rcases List.mem_cons.1 hx with rfl | hx
    · right
      have hl : last ∈ b :: rest := List.mem_of_getLast? h
      exact hp'.1 last hl
    · exact pairwise_getLast (b :: rest) hp'.2 last h x hx

theorem snd_inj_of_nodup {l : List (List α × Nat)} (hnd : (l.map (·.2)).Nodup) {c c' : List α × Nat}
    (hc : c ∈ l) (hc' : c' ∈ l) (h : c.2 = c'.2) : c = c' :=
  List.inj_on_of_nodup_map hnd hc hc' h

/-- Effect of one objective on the distances, given what is known about the sorted `crowd`. -/
theorem objStep_spec (nobj i : Nat) (st : List (List α × Nat) × List (Dist α)) (col : List α)
    (hsorted : (sortCrowd i st.1).Pairwise (fun a b => val a.1 i < val b.1 i))
    (hnd : ((sortCrowd i st.1).map (·.2)).Nodup)
    (hbound : ∀ c ∈ sortCrowd i st.1, c.2 < st.2.length)
    (hcol : ((sortCrowd i st.1).map (fun c => val c.1 i)).Perm col) :
    ∀ c ∈ sortCrowd i st.1, (objStep nobj st i).2.getD c.2 none =
      combine (st.2.getD c.2 none) (contrib nobj col (val c.1 i)) := by
  simp only [objStep]
  generalize sortCrowd i st.1 = L at *
  obtain ⟨crowd0, d⟩ := st
  simp only [] at hbound ⊢
  have hkey : ∀ u, u ∈ col ↔ ∃ x ∈ L, val x.1 i = u := by
    intro u; rw [← hcol.mem_iff]; simp
  cases hL : L with
  | nil => intro c hc; simp at hc
  | cons first rest =>
    rw [← hL]
    have hhead : L.head? = some first := by rw [hL]; rfl
    obtain ⟨last, hlast⟩ : ∃ last, L.getLast? = some last := by
      rw [hL]; exact ⟨(first :: rest).getLast (by simp), List.getLast?_eq_getLast_of_ne_nil (by simp)⟩
    have hfirstL : first ∈ L := by rw [hL]; simp
    have hlastL : last ∈ L := List.mem_of_getLast? hlast
    rw [hhead, hlast]
    simp only []
    -- `first` carries the least key, `last` the greatest
    have hmin : ∀ x ∈ L, x = first ∨ val first.1 i < val x.1 i := by
      intro x hx; rw [hL] at hx hsorted
      rcases List.mem_cons.1 hx with rfl | hx
      · exact Or.inl rfl
      · exact Or.inr ((List.pairwise_cons.1 hsorted).1 x hx)
    have hmax := pairwise_getLast L hsorted last hlast
    have hminle : ∀ x ∈ L, val first.1 i ≤ val x.1 i := by
      intro x hx; rcases hmin x hx with rfl | h
      · exact le_refl _
      · exact le_of_lt h
    have hmaxle : ∀ x ∈ L, val x.1 i ≤ val last.1 i := by
      intro x hx; rcases hmax x hx with rfl | h
      · exact le_refl _
      · exact le_of_lt h
    have hpredFirst : predOf col (val first.1 i) = none := by
      rw [predOf_eq_none_iff]; intro u hu
      obtain ⟨x, hx, rfl⟩ := (hkey u).1 hu; exact hminle x hx
    have hsuccLast : succOf col (val last.1 i) = none := by
      rw [succOf_eq_none_iff]; intro u hu
      obtain ⟨x, hx, rfl⟩ := (hkey u).1 hu; exact hmaxle x hx
    have hbf : first.2 < d.length := hbound first hfirstL
    have hbl : last.2 < d.length := hbound last hlastL
    have hd1first : ((d.set first.2 none).set last.2 none).getD first.2 none = none := by
      by_cases e : last.2 = first.2
      · rw [e]; exact getD_set_self _ _ _ _ (by simpa using hbf)
      · rw [getD_set_ne _ _ _ e]; exact getD_set_self _ _ _ _ hbf
    have hd1last : ((d.set first.2 none).set last.2 none).getD last.2 none = none :=
      getD_set_self _ _ _ _ (by simpa using hbl)
    by_cases heq : val last.1 i = val first.1 i
    · -- a single individual
      rw [if_pos heq]
      intro c hc
      have hcf : c = first := by
        rcases hmin c hc with h | h
        · exact h
        · exact absurd (lt_of_lt_of_le h (hmaxle c hc)) (by rw [heq]; exact lt_irrefl _)
      subst hcf
      simp only []
      rw [hd1first]
      simp [contrib, hpredFirst, combine]
    · rw [if_neg heq]
      simp only []
      have hmincol : minOf col = some (val first.1 i) := by
        rw [minOf_eq_some_iff]
        refine ⟨(hkey _).2 ⟨first, hfirstL, rfl⟩, ?_⟩
        intro u hu; obtain ⟨x, hx, rfl⟩ := (hkey u).1 hu; exact hminle x hx
      have hmaxcol : maxOf col = some (val last.1 i) := by
        rw [maxOf_eq_some_iff]
        refine ⟨(hkey _).2 ⟨last, hlastL, rfl⟩, ?_⟩
        intro u hu; obtain ⟨x, hx, rfl⟩ := (hkey u).1 hu; exact hmaxle x hx
      obtain ⟨f1, f2⟩ := triples_fold i ((nobj : α) * (val last.1 i - val first.1 i)) L
        ((d.set first.2 none).set last.2 none) hnd (by intro c hc; simpa using hbound c hc)
      -- a centre of a triple is neither `first` nor `last`
      have hcentre : ∀ t ∈ triples L, t.2.1 ≠ first ∧ t.2.1 ≠ last := by
        intro t ht
        obtain ⟨s1, s2, _⟩ := triples_sorted (fun c : List α × Nat => val c.1 i) L hsorted t ht
        obtain ⟨m1, m2, m3⟩ := triples_mem L t ht
        refine ⟨fun e => ?_, fun e => ?_⟩
        · rw [e] at s1; exact absurd (lt_of_lt_of_le s1 (hminle _ m1)) (lt_irrefl _)
        · rw [e] at s2; exact absurd (lt_of_le_of_lt (hmaxle _ m3) s2) (lt_irrefl _)
      intro c hc
      rcases head_last_or_centre L c hc with h | h | ⟨t, ht, rfl⟩
      · -- the head
        rw [hhead] at h
        have hcf : c = first := (Option.some.inj h).symm
        rw [hcf]
        rw [f2 first.2 (fun t ht e => (hcentre t ht).1 (snd_inj_of_nodup hnd (triples_mem L t ht).2.1 hfirstL e)),
          hd1first]
        simp [contrib, hpredFirst, combine]
      · -- the last element
        rw [hlast] at h
        have hcl : c = last := (Option.some.inj h).symm
        rw [hcl]
        rw [f2 last.2 (fun t ht e => (hcentre t ht).2 (snd_inj_of_nodup hnd (triples_mem L t ht).2.1 hlastL e)),
          hd1last]
        simp [contrib, hsuccLast, combine]
      · -- an interior element with its two neighbours
        obtain ⟨s1, s2, s3⟩ := triples_sorted (fun c : List α × Nat => val c.1 i) L hsorted t ht
        obtain ⟨m1, m2, m3⟩ := triples_mem L t ht
        have hne1 : first.2 ≠ t.2.1.2 := fun e =>
          (hcentre t ht).1 (snd_inj_of_nodup hnd m2 hfirstL e.symm)
        have hne2 : last.2 ≠ t.2.1.2 := fun e =>
          (hcentre t ht).2 (snd_inj_of_nodup hnd m2 hlastL e.symm)
        rw [f1 t ht, getD_set_ne _ _ _ hne2, getD_set_ne _ _ _ hne1]
        have hpred : predOf col (val t.2.1.1 i) = some (val t.1.1 i) := by
          rw [predOf_eq_some_iff]
          refine ⟨(hkey _).2 ⟨t.1, m1, rfl⟩, s1, ?_⟩
          intro u hu hlt
          obtain ⟨x, hx, rfl⟩ := (hkey u).1 hu
          rcases s3 x hx with h | h | h
          · exact h
          · rw [h] at hlt; exact absurd hlt (lt_irrefl _)
          · exact absurd (lt_of_le_of_lt h hlt) (not_lt.2 (le_of_lt s2))
        have hsucc : succOf col (val t.2.1.1 i) = some (val t.2.2.1 i) := by
          rw [succOf_eq_some_iff]
          refine ⟨(hkey _).2 ⟨t.2.2, m3, rfl⟩, s2, ?_⟩
          intro u hu hlt
          obtain ⟨x, hx, rfl⟩ := (hkey u).1 hu
          rcases s3 x hx with h | h | h
          · exact absurd (lt_of_lt_of_le hlt h) (not_lt.2 (le_of_lt s1))
          · rw [h] at hlt; exact absurd hlt (lt_irrefl _)
          · exact h
        simp [contrib, hpred, hsucc, hmincol, hmaxcol, combine]

/-! ### all objectives -/

theorem objStep_fst (nobj i : Nat) (st : List (List α × Nat) × List (Dist α)) :
    (objStep nobj st i).1 = sortCrowd i st.1 := by
  simp only [objStep]
  split
  · split <;> rfl
  · rfl

theorem sortCrowd_facts (vals : List (List α)) (i : Nat) (crowd : List (List α × Nat))
    (hperm : crowd.Perm vals.zipIdx) (hcolnd : (vals.map (fun v => val v i)).Nodup) :
    (sortCrowd i crowd).Perm vals.zipIdx ∧
    (sortCrowd i crowd).Pairwise (fun a b => val a.1 i < val b.1 i) ∧
    ((sortCrowd i crowd).map (·.2)).Nodup ∧
    (∀ c ∈ sortCrowd i crowd, c.2 < vals.length) ∧
    ((sortCrowd i crowd).map (fun c => val c.1 i)).Perm (vals.map (fun v => val v i)) := by
  have hp : (sortCrowd i crowd).Perm vals.zipIdx := (List.mergeSort_perm _ _).trans hperm
  have hcol : ((sortCrowd i crowd).map (fun c => val c.1 i)).Perm (vals.map (fun v => val v i)) := by
    have := hp.map (fun c : List α × Nat => val c.1 i)
    have e : vals.zipIdx.map (fun c : List α × Nat => val c.1 i) = vals.map (fun v => val v i) := by
      conv_rhs => rw [← List.zipIdx_map_fst 0 vals]
      rw [List.map_map]; rfl
    rwa [e] at this
  refine ⟨hp, ?_, ?_, ?_, hcol⟩
  · have hle := List.pairwise_mergeSort
      (le := fun (a b : List α × Nat) => !decide (val b.1 i < val a.1 i))
      (by intro a b c h1 h2
          simp only [Bool.not_eq_true', decide_eq_false_iff_not, not_lt] at h1 h2 ⊢
          exact le_trans h1 h2)
      (by intro a b
          simp only [Bool.or_eq_true, Bool.not_eq_true', decide_eq_false_iff_not, not_lt]
          exact le_total _ _) crowd
    have hne : (sortCrowd i crowd).Pairwise (fun a b => val a.1 i ≠ val b.1 i) := by
      have := hcol.nodup_iff.2 hcolnd
      rwa [List.Nodup, List.pairwise_map] at this
    have := hle.and hne
    refine this.imp ?_
    intro a b ⟨h1, h2⟩
    simp only [Bool.not_eq_true', decide_eq_false_iff_not, not_lt] at h1
    exact lt_of_le_of_ne h1 h2
  · have := (hp.map (·.2)).nodup_iff.2 (by
      rw [show vals.zipIdx.map (·.2) = List.range' 0 vals.length from List.zipIdx_map_snd 0 vals]
      exact List.nodup_range')
    exact this
  · intro c hc
    have := hp.mem_iff.1 hc
    rw [List.mem_zipIdx_iff_getElem?] at this
    exact (List.getElem?_eq_some_iff.1 this).1

theorem crowdPartial_succ (vals : List (List α)) (nobj j k : Nat) :
    crowdPartial vals nobj j (k + 1) =
      combine (crowdPartial vals nobj j k)
        (contrib nobj (vals.map (fun v => val v k)) (val (vals.getD j []) k)) := by
  simp [crowdPartial, List.range_succ]

/-- After the first `k` objectives the distances are the partial sums of the specification and
`crowd` still lists every individual once. -/
theorem foldl_objStep_spec (vals : List (List α)) (nobj : Nat)
    (hdist : ∀ i < nobj, (vals.map (fun v => val v i)).Nodup) : ∀ k ≤ nobj,
    ((List.range k).foldl (objStep nobj) (vals.zipIdx, List.replicate vals.length (some 0))).1.Perm vals.zipIdx ∧
    ((List.range k).foldl (objStep nobj) (vals.zipIdx, List.replicate vals.length (some 0))).2.length = vals.length ∧
    ∀ j < vals.length,
      ((List.range k).foldl (objStep nobj) (vals.zipIdx, List.replicate vals.length (some 0))).2.getD j none =
        crowdPartial vals nobj j k
  | 0, _ => by
    refine ⟨by simp, by simp, ?_⟩
    intro j hj
    simp [crowdPartial, List.getD_eq_getElem?_getD, hj]
  | k + 1, hk => by
    obtain ⟨ih1, ih2, ih3⟩ := foldl_objStep_spec vals nobj hdist k (by omega)
    rw [List.range_succ, List.foldl_append]
    simp only [List.foldl_cons, List.foldl_nil]
    generalize hst : (List.range k).foldl (objStep nobj) (vals.zipIdx, List.replicate vals.length (some 0)) = st
      at ih1 ih2 ih3
    obtain ⟨f1, f2, f3, f4, f5⟩ := sortCrowd_facts vals k st.1 ih1 (hdist k (by omega))
    refine ⟨by rw [objStep_fst]; exact f1, by rw [objStep_length]; exact ih2, ?_⟩
    intro j hj
    have hc : (vals[j], j) ∈ sortCrowd k st.1 := by
      rw [f1.mem_iff, List.mem_zipIdx_iff_getElem?]; simp [hj]
    have := objStep_spec nobj k st (vals.map (fun v => val v k)) f2 f3
      (by intro c hc; rw [ih2]; exact f4 c hc) f5 (vals[j], j) hc
    simp only [] at this
    rw [this, ih3 j hj, crowdPartial_succ]
    have e : vals.getD j [] = vals[j] := by simp [List.getD_eq_getElem?_getD, hj]
    rw [e]

/-- **`assignCrowdingDist` meets the specification** on fronts whose values are pairwise distinct
in every objective. -/
theorem assignCrowdingDist_spec (vals : List (List α))
    (hdist : ∀ i < (vals.headD []).length, (vals.map (fun v => val v i)).Nodup) (j : Nat)
    (hj : j < vals.length) : (assignCrowdingDist vals)[j]? = some (crowdSpec vals j) := by
  cases vals with
  | nil => simp at hj
  | cons v0 rest =>
    simp only [List.headD_cons] at hdist
    obtain ⟨_, h2, h3⟩ := foldl_objStep_spec (v0 :: rest) v0.length hdist v0.length (le_refl _)
    have h := h3 j hj
    simp only [assignCrowdingDist, crowdSpec, List.headD_cons]
    rw [List.getD_eq_getElem?_getD] at h
    have hlt : j < ((List.range v0.length).foldl (objStep v0.length)
        ((v0 :: rest).zipIdx, List.replicate (v0 :: rest).length (some 0))).2.length := by rw [h2]; exact hj
    rw [List.getElem?_eq_getElem hlt] at h ⊢
    simp only [Option.getD_some] at h
    rw [h]

/-! ### the specification, unfolded into the words of the statement -/

/-- the finite contribution of one objective -/
def gap (nobj : Nat) (col : List α) (v : α) : α :=
  ((succOf col v).getD v - (predOf col v).getD v) / ((nobj : α) * ((maxOf col).getD v - (minOf col).getD v))

theorem contrib_eq_none_iff (nobj : Nat) (col : List α) (v : α) (hv : v ∈ col) :
    contrib nobj col v = none ↔ (∀ u ∈ col, v ≤ u) ∨ (∀ u ∈ col, u ≤ v) := by
  have hne : col ≠ [] := List.ne_nil_of_mem hv
  obtain ⟨lo, hlo⟩ : ∃ lo, minOf col = some lo := by
    cases h : minOf col with
    | none => exact absurd ((minOf_eq_none_iff col).1 h) hne
    | some lo => exact ⟨lo, rfl⟩
  obtain ⟨hi, hhi⟩ : ∃ hi, maxOf col = some hi := by
    cases h : maxOf col with
    | none => exact absurd ((maxOf_eq_none_iff col).1 h) hne
    | some hi => exact ⟨hi, rfl⟩
  rw [← predOf_eq_none_iff, ← succOf_eq_none_iff]
  simp only [contrib, hlo, hhi]
  cases predOf col v <;> cases succOf col v <;> simp

theorem contrib_eq_some_gap (nobj : Nat) (col : List α) (v : α) (h : contrib nobj col v ≠ none) :
    contrib nobj col v = some (gap nobj col v) := by
  simp only [contrib, gap] at h ⊢
  cases h1 : predOf col v <;> cases h2 : succOf col v <;> cases h3 : minOf col <;> cases h4 : maxOf col <;>
    simp_all

theorem combine_none (c : Dist α) : combine (none : Dist α) c = none := by
  cases c <;> simp [combine, Dist.add]

theorem crowdPartial_none (vals : List (List α)) (nobj j : Nat) : ∀ (k : Nat),
    (∃ i < k, contrib nobj (vals.map (fun v => val v i)) (val (vals.getD j []) i) = none) →
    crowdPartial vals nobj j k = none
  | 0, h => by obtain ⟨i, hi, _⟩ := h; omega
  | k + 1, h => by
    rw [crowdPartial_succ]
    obtain ⟨i, hi, hc⟩ := h
    by_cases hik : i = k
    · subst hik; rw [hc]; rfl
    · rw [crowdPartial_none vals nobj j k ⟨i, by omega, hc⟩, combine_none]

theorem crowdPartial_some (vals : List (List α)) (nobj j : Nat) : ∀ (k : Nat),
    (∀ i < k, contrib nobj (vals.map (fun v => val v i)) (val (vals.getD j []) i) ≠ none) →
    crowdPartial vals nobj j k =
      some (((List.range k).map (fun i => gap nobj (vals.map (fun v => val v i)) (val (vals.getD j []) i))).sum)
  | 0, _ => by simp [crowdPartial]
  | k + 1, h => by
    rw [crowdPartial_succ, crowdPartial_some vals nobj j k (fun i hi => h i (by omega)),
      contrib_eq_some_gap _ _ _ (h k (by omega))]
    simp [combine, Dist.add, List.range_succ]

end C05L
