/-
C20 — lemmas about the moving-peaks model (`Core/MovingPeaks.lean`) and the decorators.
-/
import DeapModel.RealInst
import DeapModel.Core.MovingPeaks
import DeapModel.Core.BenchTools
import Mathlib.Tactic.Linarith

set_option linter.unusedSimpArgs false
set_option linter.unusedSectionVars false

namespace C20L
open MovingPeaks

variable {α : Type} [RealLike α]

theorem removePeaks_length (n : Nat) (peaks : List (Peak α)) (t : Tape α) (p' : List (Peak α)) (t' : Tape α)
    (h : removePeaks n peaks t = some (p', t')) : p'.length + n = peaks.length := by
  induction n generalizing peaks t with
  | zero => simp only [removePeaks, Option.some.injEq, Prod.mk.injEq] at h; rw [← h.1]; rfl
  | succ m ih =>
    cases t with
    | nil => simp [removePeaks] at h
    | cons d t1 =>
      cases d with
      | randrange idx =>
        simp only [removePeaks] at h
        split at h
        · next hlt =>
          have := ih _ _ h
          rw [List.length_eraseIdx_of_lt hlt] at this
          omega
        · simp at h
      | random x => simp [removePeaks] at h
      | choice i => simp [removePeaks] at h
      | uniform x => simp [removePeaks] at h
      | gauss x => simp [removePeaks] at h
      | sample idx => simp [removePeaks] at h

theorem addPeaks_length (cfg : Config α) (n : Nat) (peaks : List (Peak α)) (t : Tape α) (p' : List (Peak α))
    (t' : Tape α) (h : addPeaks cfg n peaks t = some (p', t')) : p'.length = peaks.length + n := by
  induction n generalizing peaks t with
  | zero => simp only [addPeaks, Option.some.injEq, Prod.mk.injEq] at h; rw [← h.1]; rfl
  | succ m ih =>
    cases t with
    | nil => simp [addPeaks] at h
    | cons d t1 =>
      cases d with
      | choice i =>
        simp only [addPeaks] at h
        split at h
        · simp at h
        · split at h
          · simp at h
          · split at h
            · simp at h
            · split at h
              · simp at h
              · split at h
                · simp at h
                · have := ih _ _ h
                  simp only [List.length_append, List.length_singleton] at this
                  omega
      | random x => simp [addPeaks] at h
      | randrange i => simp [addPeaks] at h
      | uniform x => simp [addPeaks] at h
      | gauss x => simp [addPeaks] at h
      | sample idx => simp [addPeaks] at h

theorem changeAll_length (cfg : Config α) (peaks : List (Peak α)) (t : Tape α) (p' : List (Peak α))
    (t' : Tape α) (h : changeAll cfg peaks t = some (p', t')) : p'.length = peaks.length := by
  induction peaks generalizing t p' t' with
  | nil => simp only [changeAll, Option.some.injEq, Prod.mk.injEq] at h; rw [← h.1]
  | cons pk rest ih =>
    simp only [changeAll] at h
    split at h
    · simp at h
    · split at h
      · simp at h
      · next r' t2 hr =>
        simp only [Option.some.injEq, Prod.mk.injEq] at h
        rw [← h.1, List.length_cons, List.length_cons, ih _ _ _ hr]

/-- the number-of-peaks step keeps the count inside the limits (and does nothing without limits) -/
theorem changeNumber_count (cfg : Config α) (peaks : List (Peak α)) (t : Tape α) (p' : List (Peak α))
    (t' : Tape α) (h : changeNumber cfg peaks t = some (p', t')) :
    match cfg.limits with
    | none => p'.length = peaks.length
    | some (mn, mx) => (mn ≤ (peaks.length : Int) → (peaks.length : Int) ≤ mx →
        mn ≤ (p'.length : Int) ∧ (p'.length : Int) ≤ mx) := by
  unfold changeNumber at h
  cases hl : cfg.limits with
  | none => rw [hl] at h; simp only [Option.some.injEq, Prod.mk.injEq] at h; simp only; rw [← h.1]
  | some lim =>
    obtain ⟨mn, mx⟩ := lim
    rw [hl] at h
    simp only
    intro h1 h2
    simp only at h
    split at h
    · simp at h
    · split at h
      · simp at h
      · split at h
        · have := removePeaks_length _ _ _ _ _ h
          simp only [imin] at this
          split at this <;> omega
        · have := addPeaks_length _ _ _ _ _ _ h
          simp only [imin] at this
          split at this <;> omega

theorem changePeaks_count (cfg : Config α) (peaks : List (Peak α)) (t : Tape α) (p' : List (Peak α))
    (t' : Tape α) (h : changePeaks cfg peaks t = some (p', t')) :
    match cfg.limits with
    | none => p'.length = peaks.length
    | some (mn, mx) => (mn ≤ (peaks.length : Int) → (peaks.length : Int) ≤ mx →
        mn ≤ (p'.length : Int) ∧ (p'.length : Int) ≤ mx) := by
  simp only [changePeaks] at h
  split at h
  · simp at h
  · next p1 t1 h1 =>
    have ha := changeAll_length _ _ _ _ _ h
    have hn := changeNumber_count _ _ _ _ _ h1
    cases hl : cfg.limits with
    | none =>
      rw [hl] at hn
      have hn' : p1.length = peaks.length := hn
      show p'.length = peaks.length
      omega
    | some lim =>
      obtain ⟨mn, mx⟩ := lim
      rw [hl] at hn
      show mn ≤ (peaks.length : Int) → (peaks.length : Int) ≤ mx → mn ≤ (p'.length : Int) ∧ (p'.length : Int) ≤ mx
      rw [ha]; exact hn

/-! ### `max(possible_values)` over ℝ -/

theorem pyMax_fold (t : List ℝ) (a : ℝ) :
    let r := t.foldl (fun m v => if m < v then v else m) a
    r ∈ a :: t ∧ ∀ w ∈ a :: t, w ≤ r := by
  induction t generalizing a with
  | nil => simp
  | cons b t ih =>
    simp only [List.foldl_cons]
    have := ih (if a < b then b else a)
    obtain ⟨hm, hle⟩ := this
    constructor
    · simp only [List.mem_cons] at hm ⊢
      rcases hm with h | h
      · by_cases hc : a < b
        · rw [if_pos hc] at h ⊢; exact Or.inr (Or.inl h)
        · rw [if_neg hc] at h ⊢; exact Or.inl h
      · exact Or.inr (Or.inr h)
    · intro w hw
      simp only [List.mem_cons] at hw
      have hab : a ≤ (if a < b then b else a) ∧ b ≤ (if a < b then b else a) := by
        split <;> constructor <;> linarith
      have h0 := hle (if a < b then b else a) (by simp)
      rcases hw with rfl | rfl | hw
      · linarith [hab.1]
      · linarith [hab.2]
      · exact hle w (by simp [hw])

end C20L
