/-
C03 composed with C08 (hall of fame), list objects and the ask/tell protocol: helper lemmas.

* `best_ge_seen`, `best_monotone`: consequences of the C08 theorems alone (`best_of_seen`, `sorted_desc`,
  `members_shown`) — the best (first) member of a hall of fame is at least as good as everything ever shown,
  and never gets worse.
* `CInv`: the invariant of the composed machine of `Core/LoopsCompose.lean` (the C03 run invariant, "the
  archive is the C08 model run on the batches the loop showed", "the members of the population are listed in
  the feed with their current content", "the variable `population` refers to a list object holding the
  population"), established by generation 0 and kept by every generation.
-/
import DeapModel.Lemmas.C03
import DeapModel.Props.C08
import DeapModel.Core.LoopsCompose

set_option linter.unusedSectionVars false
set_option linter.unusedSimpArgs false
set_option linter.unusedVariables false

namespace LoopsC
open Variation Loops Archive C08L

/-! ### the lexicographic order of the model (`keyLe`, core) and of the C08 theorems (Mathlib) -/

theorem keyLe_iff_not_lt (a b : List Int) : keyLe a b ↔ ¬ b < a := Iff.rfl

theorem keyLe_iff_le (a b : List Int) : keyLe a b ↔ a ≤ b := by
  rw [keyLe_iff_not_lt, not_lt]

/-! ### C08 alone: the best member dominates everything seen -/

section C08only
variable {G α : Type} [LinearOrder α] {sim : Ind G α → Ind G α → Bool} {m base : Nat}
  {hist more : List (List (Ind G α))} {h h₂ : HoF G α}

theorem head_ge_member (hm : 1 ≤ m) (hr : run sim (empty m base) hist = some h) :
    ∀ it ∈ h.items, ∃ b, h.items.head? = some b ∧ it.fit.wvalues ≤ b.fit.wvalues := by
  intro it hit
  have hsorted := C08.sorted_desc sim hm hr
  cases hi : h.items with
  | nil => rw [hi] at hit; simp at hit
  | cons b rest =>
    refine ⟨b, rfl, ?_⟩
    rw [hi] at hit hsorted
    rcases List.mem_cons.1 hit with e | e
    · subst e; exact le_refl _
    · exact (List.pairwise_cons.1 hsorted).1 it e

/-- **Best of everything seen, for the first member.**  Under the C08 reading (`SimHyp`: the similarity is
reflexive, symmetric, blind to object identity, and similar shown individuals carry equal fitness) the first
member of a hall of fame of capacity ≥ 1 is at least as good as every individual ever shown. -/
theorem best_ge_seen (hm : 1 ≤ m) (hh : SimHyp sim hist.flatten)
    (hr : run sim (empty m base) hist = some h) :
    ∀ x ∈ hist.flatten, ∃ b, h.items.head? = some b ∧ x.fit.wvalues ≤ b.fit.wvalues := by
  intro x hx
  rcases C08.best_of_seen hm hh hr x hx with ⟨it, hit, hs⟩ | ⟨hlen, hw⟩
  · obtain ⟨x', hx', hg, hf⟩ := C08.members_shown sim hm hr it hit
    have hsx : sim x x' = true := by
      rw [← hh.same x x it x' (same_refl x) ⟨hg, hf⟩]; exact hs
    have hfx := hh.fit x hx x' hx' hsx
    obtain ⟨b, hb, hle⟩ := head_ge_member hm hr it hit
    exact ⟨b, hb, by rw [hfx, ← hf]; exact hle⟩
  · have hne : h.items ≠ [] := by
      intro e; rw [e] at hlen; simp at hlen; omega
    obtain ⟨w, hw'⟩ : ∃ w, h.items.getLast? = some w := by
      cases hq : h.items.getLast? with
      | none => exact absurd (List.getLast?_eq_none_iff.1 hq) hne
      | some w => exact ⟨w, rfl⟩
    have hnlt := hw w hw'
    obtain ⟨b, hb, hle⟩ := head_ge_member hm hr w (List.mem_of_getLast? hw')
    exact ⟨b, hb, le_trans (not_lt.1 hnlt) hle⟩

/-- **The best member never gets worse** along further updates. -/
theorem best_monotone (hm : 1 ≤ m) (hh : SimHyp sim (hist ++ more).flatten)
    (hr : run sim (empty m base) hist = some h) (hr₂ : run sim (empty m base) (hist ++ more) = some h₂)
    (b : Ind G α) (hb : h.items.head? = some b) :
    ∃ b₂, h₂.items.head? = some b₂ ∧ b.fit.wvalues ≤ b₂.fit.wvalues := by
  have hbm : b ∈ h.items := List.mem_of_head? hb
  obtain ⟨x, hx, _, hf⟩ := C08.members_shown sim hm hr b hbm
  have hx2 : x ∈ (hist ++ more).flatten := by
    rw [List.flatten_append]; exact List.mem_append_left _ hx
  obtain ⟨b₂, hb₂, hle⟩ := best_ge_seen hm hh hr₂ x hx2
  exact ⟨b₂, hb₂, by rw [hf]; exact hle⟩

/-- with capacity ≥ 1 `update` never raises on an archive reached from the empty one -/
theorem update_total (hm : 1 ≤ m) (hr : run sim (empty m base) hist = some h) (batch : List (Ind G α)) :
    ∃ h', update sim h batch = some h' := by
  obtain ⟨h', e, _⟩ := update_str sim hm batch hist.flatten h (hof_hstr sim hm hr)
  exact ⟨h', e⟩

theorem run_snoc (hr : run sim (empty m base) hist = some h) (batch : List (Ind G α)) (h' : HoF G α)
    (hu : update sim h batch = some h') : run sim (empty m base) (hist ++ [batch]) = some h' := by
  rw [run_append, hr]
  simp [run, hu]

end C08only

/-! ### the default similarity -/

theorem simBase_simEq : SimBase simEq where
  refl := by simp [simEq]
  symm := by simp only [simEq, decide_eq_true_eq]; exact fun _ _ e => e.symm
  same := by
    intro x x' y y' h1 h2
    simp only [simEq, h1.1, h2.1]

/-- individuals whose fitness is `evaluate` of their genotype: equal genotypes carry equal fitness -/
theorem simHyp_simEq (ev : List Int → List Int) (U : List HInd)
    (hU : ∀ x ∈ U, x.fit = ⟨ev x.genome⟩) : SimHyp simEq U where
  toSimBase := simBase_simEq
  fit := by
    intro x hx y hy hs
    have hg : x.genome = y.genome := by simpa [simEq] using hs
    rw [hU x hx, hU y hy, hg]

/-! ### what a generation adds to the feed -/

theorem generation_shownObj {σ : Type} {ev : List Int → List Int} {stp : Step σ} {g : Nat} {t t' : σ}
    {s s' : LState} (h : generation ev stp g t s = some (t', s')) :
    ∃ r, stp.produce t s.st s.pop = some r ∧
      s'.shownObj = s.shownObj ++ r.off.map (fun o => (o, s'.st.heap o)) := by
  simp only [generation] at h
  split at h
  · simp at h
  next r hr =>
    split at h
    · simp at h
    next np hnp =>
      simp only [Option.some.injEq, Prod.mk.injEq] at h
      obtain ⟨_, hs⟩ := h
      subst hs
      exact ⟨r, hr, by simp [evalPhase]⟩

theorem gen0_shownObj (ev : List Int → List Int) (s : LState) :
    (gen0 ev s).shownObj = s.shownObj ++ s.pop.map (fun o => (o, (gen0 ev s).st.heap o)) := rfl

theorem newShown_append (s s' : LState) (x : List (Nat × Obj)) (h : s'.shownObj = s.shownObj ++ x) :
    newShown s s' = x.map toInd := by
  simp [newShown, h]

/-! ### the composed invariant -/

/-- every member of the population is listed in the hall-of-fame feed with the content it has now -/
def PopCur (s : LState) : Prop := ∀ p ∈ s.pop, (p, s.st.heap p) ∈ s.shownObj

theorem generation_popCur {σ : Type} {ev : List Int → List Int} {stp : Step σ} (hc : StepContract stp)
    {g : Nat} {t t' : σ} {s s' : LState} (hinv : Inv ev g s) (hcur : PopCur s)
    (h : generation ev stp g t s = some (t', s')) : PopCur s' := by
  obtain ⟨r, np, hr, hnp, _, hpop, hheap, hnext, hevals, hlog, hshown⟩ := generation_unfold h
  obtain ⟨r', hr', hso⟩ := generation_shownObj h
  rw [hr] at hr'
  cases hr'
  have hmem := hc.replace_mem _ _ _ _ hnp
  intro p hp
  rw [hpop] at hp
  rw [hso]
  have hcases : (stp.evalAll = false ∧ p ∈ s.pop) ∨ p ∈ r.off := by
    cases hb : stp.evalAll with
    | true => exact Or.inr (hc.replace_off hb _ _ _ _ hnp p hp)
    | false =>
      rcases hmem p hp with h1 | h1
      · exact Or.inl ⟨rfl, h1⟩
      · exact Or.inr h1
  rcases hcases with ⟨hall, h1⟩ | h1
  · have hfr := hc.frame hall t s.st s.pop r hinv.alloc hr
    have hfresh := hc.fresh hall t s.st s.pop r hinv.alloc hr
    have hold : p ∉ evalSet stp r := by
      intro hin
      have := (hfresh p (evalSet_sub stp r p hin)).1
      have := hinv.alloc p h1
      omega
    have hsame : s'.st.heap p = s.st.heap p := by
      rw [hheap, assignFits_not_mem _ _ _ _ hold, hfr p (hinv.alloc p h1)]
    rw [hsame]
    exact List.mem_append_left _ (hcur p h1)
  · exact List.mem_append_right _ (List.mem_map.2 ⟨p, h1, rfl⟩)

theorem gen0_popCur (ev : List Int → List Int) (s : LState) : PopCur (gen0 ev s) := by
  intro p hp
  rw [gen0_shownObj]
  exact List.mem_append_right _ (List.mem_map.2 ⟨p, hp, rfl⟩)

/-- Invariant of the composed machine at the boundary before generation `g`, for a hall of fame of capacity
`m` whose copies are numbered from `base`. -/
structure CInv (ev : List Int → List Int) (m base g : Nat) (c : CState) : Prop where
  inv : Inv ev g c.ls
  shownOk : ShownOk ev c.ls
  hofRun : Archive.run simEq (Archive.empty m base) c.hist = some c.hof
  flat : c.hist.flatten = c.ls.shownObj.map toInd
  popCur : PopCur c.ls
  refLt : c.popRef < c.nextL
  listPop : c.lists c.popRef = c.ls.pop

theorem hofUpdate_spec {c c' : CState} {ls' : LState} (h : hofUpdate c ls' = some c') :
    c'.ls = ls' ∧ c'.hist = c.hist ++ [newShown c.ls ls'] ∧
    Archive.update simEq c.hof (newShown c.ls ls') = some c'.hof ∧
    c'.lists = c.lists ∧ c'.nextL = c.nextL ∧ c'.popRef = c.popRef ∧ c'.strat = c.strat := by
  simp only [hofUpdate] at h
  split at h
  · simp at h
  next h' hu =>
    simp only [Option.some.injEq] at h
    subst h
    exact ⟨rfl, rfl, hu, rfl, rfl, rfl, rfl⟩

/-- with capacity ≥ 1 the hall of fame never makes a generation fail -/
theorem hofUpdate_total {ev : List Int → List Int} {m base g : Nat} {c : CState} (hm : 1 ≤ m)
    (hi : CInv ev m base g c) (ls' : LState) : ∃ c', hofUpdate c ls' = some c' := by
  obtain ⟨h', hu⟩ := update_total hm hi.hofRun (newShown c.ls ls')
  exact ⟨_, by simp only [hofUpdate, hu]; rfl⟩

theorem assignPop_ls (asg : Assign) (c : CState) :
    (assignPop asg c).ls = c.ls ∧ (assignPop asg c).hof = c.hof ∧ (assignPop asg c).hist = c.hist ∧
    (assignPop asg c).strat = c.strat := by
  cases asg <;> exact ⟨rfl, rfl, rfl, rfl⟩

theorem assignPop_lists (asg : Assign) (c : CState) (hlt : c.popRef < c.nextL) :
    (assignPop asg c).popRef < (assignPop asg c).nextL ∧
    (assignPop asg c).lists (assignPop asg c).popRef = c.ls.pop := by
  cases asg
  · exact ⟨by show c.popRef < c.nextL + 1; omega, by simp [assignPop]⟩
  · exact ⟨by show c.nextL < c.nextL + 1; omega, by simp [assignPop]⟩

/-- the archive part of the invariant after one `halloffame.update` -/
theorem hof_step {m base : Nat} {c c1 : CState} {ls' : LState}
    (hrun : Archive.run simEq (Archive.empty m base) c.hist = some c.hof)
    (hflat : c.hist.flatten = c.ls.shownObj.map toInd)
    (hu : hofUpdate c ls' = some c1) (x : List (Nat × Obj)) (hx : ls'.shownObj = c.ls.shownObj ++ x) :
    Archive.run simEq (Archive.empty m base) c1.hist = some c1.hof ∧
    c1.hist.flatten = c1.ls.shownObj.map toInd := by
  obtain ⟨hls, hhist, hupd, _⟩ := hofUpdate_spec hu
  refine ⟨?_, ?_⟩
  · rw [hhist]; exact run_snoc hrun _ _ hupd
  · rw [hhist, hls, List.flatten_append, hflat, newShown_append _ _ x hx, hx]
    simp

/-- what a successful composed step yields, in terms of the plain loop step -/
theorem cstep_inv {ev : List Int → List Int} {m base g g' : Nat} {c c1 : CState} {ls' : LState}
    (hi : CInv ev m base g c) (hu : hofUpdate c ls' = some c1) (x : List (Nat × Obj))
    (hx : ls'.shownObj = c.ls.shownObj ++ x) (hinv : Inv ev g' ls') (hsh : ShownOk ev ls')
    (hcur : PopCur ls') (asg : Assign) : CInv ev m base g' (assignPop asg c1) := by
  obtain ⟨hls, hhist, hupd, hlists, hnextL, hpopRef, _⟩ := hofUpdate_spec hu
  obtain ⟨als, ahof, ahist, _⟩ := assignPop_ls asg c1
  have hlt1 : c1.popRef < c1.nextL := by rw [hpopRef, hnextL]; exact hi.refLt
  obtain ⟨alt, alist⟩ := assignPop_lists asg c1 hlt1
  obtain ⟨h1, h2⟩ := hof_step hi.hofRun hi.flat hu x hx
  refine ⟨?_, ?_, ?_, ?_, ?_, alt, ?_⟩
  · rw [als, hls]; exact hinv
  · rw [als, hls]; exact hsh
  · rw [ahist, ahof]; exact h1
  · rw [ahist, als]; exact h2
  · rw [als, hls]; exact hcur
  · rw [alist, als]

theorem cgeneration_unfold {σ : Type} {ev : List Int → List Int} {stp : Step σ} {asg : Assign} {g : Nat}
    {t t' : σ} {c c' : CState} (h : cgeneration ev stp asg g t c = some (t', c')) :
    ∃ ls' c1, generation ev stp g t c.ls = some (t', ls') ∧ hofUpdate c ls' = some c1 ∧
      c' = assignPop asg c1 := by
  simp only [cgeneration] at h
  split at h
  · simp at h
  next t1 ls' hg =>
    split at h
    · simp at h
    next c1 hu =>
      simp only [Option.some.injEq, Prod.mk.injEq] at h
      obtain ⟨rfl, rfl⟩ := h
      exact ⟨ls', c1, hg, hu, rfl⟩

theorem cgeneration_inv {σ : Type} {ev : List Int → List Int} {stp : Step σ} (hc : StepContract stp)
    {asg : Assign} {m base g : Nat} {t t' : σ} {c c' : CState} (hi : CInv ev m base g c)
    (h : cgeneration ev stp asg g t c = some (t', c')) : CInv ev m base (g + 1) c' := by
  obtain ⟨ls', c1, hg, hu, rfl⟩ := cgeneration_unfold h
  obtain ⟨r, _, hso⟩ := generation_shownObj hg
  exact cstep_inv hi hu _ hso (generation_inv hc hi.inv hg) (generation_shown hc hi.inv hi.shownOk hg)
    (generation_popCur hc hi.inv hi.popCur hg) asg

/-- the composed generation succeeds exactly when the plain generation does (capacity ≥ 1) -/
theorem cgeneration_isSome {σ : Type} {ev : List Int → List Int} (stp : Step σ) (asg : Assign)
    {m base g : Nat} (hm : 1 ≤ m) (t : σ) {c : CState} (hi : CInv ev m base g c) :
    (cgeneration ev stp asg g t c).isSome = (generation ev stp g t c.ls).isSome := by
  simp only [cgeneration]
  cases hg : generation ev stp g t c.ls with
  | none => rfl
  | some x =>
    obtain ⟨c1, hu⟩ := hofUpdate_total hm hi x.2
    simp [hu]

/-- Generation 0 establishes the composed invariant: the caller's individuals exist, pre-evaluated ones are
truthful, unevaluated ones are distinct objects, nothing logged or shown yet, an empty hall of fame, and the
variable `population` refers to a list object holding the population. -/
theorem cgen0_inv (ev : List Int → List Int) (m base : Nat) (c c0 : CState)
    (halloc : ∀ p ∈ c.ls.pop, p < c.ls.st.next)
    (htruth : ∀ p ∈ c.ls.pop, ∀ f, (c.ls.st.heap p).fit = some f → f = ev (c.ls.st.heap p).genome)
    (hdistinct : (invalidOf c.ls.st.heap c.ls.pop).Nodup)
    (hlog : c.ls.log = []) (hevals : c.ls.evals = []) (hshown : c.ls.shown = []) (hshownObj : c.ls.shownObj = [])
    (hhof : c.hof = Archive.empty m base) (hhist : c.hist = [])
    (hrefLt : c.popRef < c.nextL) (hlistPop : c.lists c.popRef = c.ls.pop)
    (h : cgen0 ev c = some c0) : CInv ev m base 1 c0 := by
  obtain ⟨hls, _, _, hlists, hnextL, hpopRef, _⟩ := hofUpdate_spec h
  obtain ⟨h1, h2⟩ := hof_step (m := m) (base := base) (by rw [hhist, hhof]; rfl) (by rw [hhist, hshownObj]; rfl)
    h _ (gen0_shownObj ev c.ls)
  refine ⟨?_, ?_, h1, h2, ?_, ?_, ?_⟩
  · rw [hls]; exact gen0_inv ev c.ls halloc htruth hdistinct hlog hevals
  · rw [hls]; exact gen0_shown ev c.ls htruth hshown hshownObj
  · rw [hls]; exact gen0_popCur ev c.ls
  · rw [hpopRef, hnextL]; exact hrefLt
  · rw [hlists, hpopRef, hls, hlistPop]; rfl

/-- with capacity ≥ 1 generation 0 never fails because of the hall of fame -/
theorem cgen0_total (ev : List Int → List Int) (m base : Nat) (hm : 1 ≤ m) (c : CState)
    (hhof : c.hof = Archive.empty m base) : ∃ c0, cgen0 ev c = some c0 := by
  obtain ⟨h', hu⟩ := update_total (sim := simEq) (hist := []) hm (by rfl : Archive.run simEq (Archive.empty m base) [] = some _)
    (newShown c.ls (gen0 ev c.ls))
  exact ⟨_, by simp only [cgen0, hofUpdate, hhof, hu]; rfl⟩

theorem crunGens_inv {σ : Type} {ev : List Int → List Int} {m base : Nat} :
    ∀ (steps : List (Step σ × Assign)) (g : Nat) (t t' : σ) (c c' : CState),
      (∀ x ∈ steps, StepContract x.1) → CInv ev m base g c →
      crunGens ev steps g t c = some (t', c') → CInv ev m base (g + steps.length) c'
  | [], g, t, t', c, c', _, hi, h => by
    simp only [crunGens, Option.some.injEq, Prod.mk.injEq] at h
    obtain ⟨_, rfl⟩ := h
    simpa using hi
  | x :: rest, g, t, t', c, c', hc, hi, h => by
    simp only [crunGens] at h
    split at h
    · simp at h
    next t1 c1 hgen =>
      have h1 := cgeneration_inv (hc x (by simp)) hi hgen
      have := crunGens_inv rest (g + 1) t1 t' c1 c' (fun y hy => hc y (by simp [hy])) h1 h
      simpa [Nat.add_assoc, Nat.add_comm 1] using this

theorem crunGens_append {σ : Type} (ev : List Int → List Int) :
    ∀ (a b : List (Step σ × Assign)) (g : Nat) (t : σ) (c : CState),
      crunGens ev (a ++ b) g t c =
        match crunGens ev a g t c with
        | none => none
        | some (t1, c1) => crunGens ev b (g + a.length) t1 c1
  | [], b, g, t, c => by simp [crunGens]
  | x :: rest, b, g, t, c => by
    simp only [List.cons_append, crunGens]
    split
    · rfl
    next t1 c1 h1 =>
      rw [crunGens_append ev rest b (g + 1) t1 c1]
      simp [Nat.add_assoc, Nat.add_comm 1]

/-- the feed only grows: what was shown stays shown -/
theorem cgeneration_shown_mono {σ : Type} {ev : List Int → List Int} {stp : Step σ} {asg : Assign} {g : Nat}
    {t t' : σ} {c c' : CState} (h : cgeneration ev stp asg g t c = some (t', c')) :
    ∀ e ∈ c.ls.shownObj, e ∈ c'.ls.shownObj := by
  obtain ⟨ls', c1, hg, hu, rfl⟩ := cgeneration_unfold h
  obtain ⟨r, _, hso⟩ := generation_shownObj hg
  intro e he
  rw [(assignPop_ls asg c1).1, (hofUpdate_spec hu).1, hso]
  exact List.mem_append_left _ he

theorem crunGens_shown_mono {σ : Type} {ev : List Int → List Int} :
    ∀ (steps : List (Step σ × Assign)) (g : Nat) (t t' : σ) (c c' : CState),
      crunGens ev steps g t c = some (t', c') → ∀ e ∈ c.ls.shownObj, e ∈ c'.ls.shownObj
  | [], g, t, t', c, c', h => by
    simp only [crunGens, Option.some.injEq, Prod.mk.injEq] at h
    obtain ⟨_, rfl⟩ := h
    exact fun e he => he
  | x :: rest, g, t, t', c, c', h => by
    simp only [crunGens] at h
    split at h
    · simp at h
    next t1 c1 hgen =>
      intro e he
      exact crunGens_shown_mono rest (g + 1) t1 t' c1 c' h e (cgeneration_shown_mono hgen e he)

/-- **The composition.**  In a state satisfying the composed invariant, the first member of the hall of fame
(capacity ≥ 1) is at least as good as every individual ever shown, with the fitness it had when it was shown. -/
theorem cinv_best_ge_shown {ev : List Int → List Int} {m base g : Nat} {c : CState} (hm : 1 ≤ m)
    (hi : CInv ev m base g c) :
    ∀ e ∈ c.ls.shownObj, ∃ b, c.hof.items.head? = some b ∧ keyLe (e.2.fit.getD []) b.fit.wvalues := by
  intro e he
  have hU : ∀ x ∈ c.hist.flatten, x.fit = ⟨ev x.genome⟩ := by
    intro x hx
    rw [hi.flat] at hx
    obtain ⟨e', he', rfl⟩ := List.mem_map.1 hx
    simp only [toInd, hi.shownOk.1 e' he', Option.getD_some]
  have hmem : toInd e ∈ c.hist.flatten := by
    rw [hi.flat]; exact List.mem_map.2 ⟨e, he, rfl⟩
  obtain ⟨b, hb, hle⟩ := best_ge_seen hm (simHyp_simEq ev _ hU) hi.hofRun (toInd e) hmem
  exact ⟨b, hb, (keyLe_iff_le _ _).2 hle⟩

/-- the projection of a composed run on the loop state is the plain run -/
theorem crunGens_ls {σ : Type} {ev : List Int → List Int} :
    ∀ (steps : List (Step σ × Assign)) (g : Nat) (t t' : σ) (c c' : CState),
      crunGens ev steps g t c = some (t', c') → runGens ev (steps.map (·.1)) g t c.ls = some (t', c'.ls)
  | [], g, t, t', c, c', h => by
    simp only [crunGens, Option.some.injEq, Prod.mk.injEq] at h
    obtain ⟨rfl, rfl⟩ := h
    rfl
  | x :: rest, g, t, t', c, c', h => by
    simp only [crunGens] at h
    split at h
    · simp at h
    next t1 c1 hgen =>
      simp only [cgeneration] at hgen
      split at hgen
      · simp at hgen
      next t2 ls' hg =>
        split at hgen
        · simp at hgen
        next c2 hu =>
          simp only [Option.some.injEq, Prod.mk.injEq] at hgen
          obtain ⟨rfl, rfl⟩ := hgen
          have hls : (assignPop x.2 c2).ls = ls' := by
            have : c2.ls = ls' := by
              simp only [hofUpdate] at hu
              split at hu
              · simp at hu
              · simp only [Option.some.injEq] at hu; subst hu; rfl
            cases x.2 <;> exact this
          simp only [List.map_cons, runGens, hg]
          rw [← hls]
          exact crunGens_ls rest (g + 1) t2 t' _ c' h


/-- with capacity ≥ 1 the composed run succeeds exactly when the plain run does: the hall of fame, the list
objects and the ghost state never block a generation -/
theorem crunGens_isSome {σ : Type} {ev : List Int → List Int} {m base : Nat} (hm : 1 ≤ m) :
    ∀ (steps : List (Step σ × Assign)) (g : Nat) (t : σ) (c : CState),
      (∀ x ∈ steps, StepContract x.1) → CInv ev m base g c →
      (crunGens ev steps g t c).isSome = (runGens ev (steps.map (·.1)) g t c.ls).isSome
  | [], g, t, c, _, _ => rfl
  | x :: rest, g, t, c, hc, hi => by
    simp only [crunGens, List.map_cons, runGens]
    cases hg : generation ev x.1 g t c.ls with
    | none => simp [cgeneration, hg]
    | some y =>
      obtain ⟨c1, hu⟩ := hofUpdate_total hm hi y.2
      have hcg : cgeneration ev x.1 x.2 g t c = some (y.1, assignPop x.2 c1) := by
        simp [cgeneration, hg, hu]
      have hi1 := cgeneration_inv (hc x (by simp)) hi hcg
      have hls : (assignPop x.2 c1).ls = y.2 := by
        rw [(assignPop_ls x.2 c1).1, (hofUpdate_spec hu).1]
      simp only [hcg]
      rw [crunGens_isSome hm rest (g + 1) y.1 _ (fun z hz => hc z (by simp [hz])) hi1, hls]

end LoopsC
