/-
Helper lemmas for C12: the tokenizer of `from_string` recovers the node texts of a printed tree.
-/
import DeapModel.Core.GpCompile

namespace GpCompile
open GpTree

/-- a printable node text: non-empty and free of the separator characters -/
def NameOK (p : Prim) : Prop :=
  (tok p ≠ [] ∧ ∀ c ∈ tok p, isSep c = false) ∧ (p.kind ≠ .prim → p.args = [])

/-- what may follow a token: the end of the string or a separator -/
def Delim (rest : Str) : Prop := rest = [] ∨ ∃ c r, rest = c :: r ∧ isSep c = true

theorem tokGo_word : ∀ (w rest cur : Str), (∀ c ∈ w, isSep c = false) →
    tokGo (w ++ rest) cur = tokGo rest (w.reverse ++ cur)
  | [], rest, cur, _ => by simp
  | c :: w, rest, cur, h => by
    have hc := h c (by simp)
    simp only [List.cons_append, tokGo, hc]
    rw [tokGo_word w rest (c :: cur) (fun x hx => h x (by simp [hx]))]
    simp

theorem tokGo_end {rest cur : Str} (hd : Delim rest) (hc : cur ≠ []) :
    tokGo rest cur = cur.reverse :: tokGo rest [] := by
  rcases hd with rfl | ⟨c, r, rfl, hs⟩
  · simp [tokGo, hc]
  · simp [tokGo, hs, hc]

theorem tokGo_token {w rest : Str} (hne : w ≠ []) (hw : ∀ c ∈ w, isSep c = false) (hd : Delim rest) :
    tokGo (w ++ rest) [] = w :: tokGo rest [] := by
  rw [tokGo_word w rest [] hw, tokGo_end hd (by simpa using hne)]
  simp

theorem tokGo_sep {c : Char} (hs : isSep c = true) (rest : Str) : tokGo (c :: rest) [] = tokGo rest [] := by
  simp [tokGo, hs]

mutual
theorem tokGo_render : ∀ (t : Tree) (rest : Str), wf t = true → (∀ p ∈ flatten t, NameOK p) → Delim rest →
    tokGo (render t ++ rest) [] = (flatten t).map tok ++ tokGo rest []
  | .node p as, rest, hw, h, hd => by
    have hp := h p (by simp [flatten])
    have has : ∀ q ∈ flattenF as, NameOK q := fun q hq => h q (by simp [flatten, hq])
    simp [wf] at hw
    simp only [render, fmt, flatten, List.map_cons]
    by_cases hk : p.kind = .prim
    · have htok : tok p = p.name.toList := by simp [tok, hk]
      simp only [hk, if_true, List.append_assoc, List.cons_append, List.nil_append]
      rw [tokGo_token (w := p.name.toList) (by rw [← htok]; exact hp.1.1) (by rw [← htok]; exact hp.1.2)
        (Or.inr ⟨'(', _, rfl, by decide⟩)]
      rw [tokGo_sep (by decide), tokGo_renderF as (')' :: rest) hw.2 has (Or.inr ⟨')', rest, rfl, by decide⟩),
        tokGo_sep (by decide)]
      simp [htok]
    · have htok : tok p = p.text.toList := by simp [tok, hk]
      simp only [hk, if_false]
      rw [tokGo_token (w := p.text.toList) (by rw [← htok]; exact hp.1.1) (by rw [← htok]; exact hp.1.2) hd]
      have : as = [] := by
        have := hw.1; rw [Prim.arity, hp.2 hk] at this; exact List.eq_nil_of_length_eq_zero this
      subst this
      simp [flattenF, htok]
theorem tokGo_renderF : ∀ (ts : List Tree) (rest : Str), wfF ts = true → (∀ p ∈ flattenF ts, NameOK p) → Delim rest →
    tokGo (joinArgs (renderF ts) ++ rest) [] = (flattenF ts).map tok ++ tokGo rest []
  | [], rest, _, _, _ => by simp [renderF, joinArgs, flattenF]
  | [t], rest, hw, h, hd => by
    simp [wfF] at hw
    simp only [renderF, joinArgs, flattenF, List.append_nil]
    exact tokGo_render t rest hw (by simpa [flattenF] using h) hd
  | t :: t2 :: ts, rest, hw, h, hd => by
    simp only [wfF, Bool.and_eq_true] at hw
    simp only [renderF, joinArgs, flattenF, List.append_assoc, List.map_append, List.cons_append, List.nil_append]
    rw [tokGo_render t _ hw.1 (fun p hp => h p (by simp [flattenF, hp])) (Or.inr ⟨',', _, rfl, by decide⟩)]
    rw [tokGo_sep (by decide), tokGo_sep (by decide)]
    have := tokGo_renderF (t2 :: ts) rest (by simp [wfF, hw.2]) (fun p hp => h p (by simp [flattenF] at hp ⊢; exact Or.inr hp)) hd
    simp only [renderF, flattenF, List.map_append] at this
    rw [this]; simp [List.append_assoc]
end

theorem tokens_render_flatten {t : Tree} (hw : wf t = true) (h : ∀ p ∈ flatten t, NameOK p) :
    tokens (render t) = (flatten t).map tok := by
  have := tokGo_render t [] hw h (Or.inl rfl)
  simpa [tokens, tokGo] using this

end GpCompile
