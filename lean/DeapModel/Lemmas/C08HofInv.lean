/-
C08 helper lemmas: the invariants of `HallOfFame.update` along a history.
-/
import DeapModel.Lemmas.C08Hof

set_option linter.unusedSectionVars false
set_option linter.unusedSimpArgs false
set_option linter.unusedVariables false

namespace C08L
open Archive
open Fitness (Fit deepcopy)

variable {G α : Type} [LinearOrder α]

/-- Structural invariant of a hall of fame of capacity `m`. -/
structure HStr (base m : Nat) (seen : List (Ind G α)) (h : HoF G α) : Prop extends Str base seen h where
  msz : h.maxsize = m
  size : h.items.length ≤ m

theorem hstr_empty (m base : Nat) : HStr base m ([] : List (Ind G α)) (empty m base : HoF G α) :=
  { str_empty m base with msz := rfl, size := by simp [empty] }

theorem length_erased (h : HoF G α) (j : Nat) (hj : j < h.items.length) :
    (erased h j).items.length = h.items.length - 1 := by
  simp [erased, List.length_eraseIdx, hj]

theorem step_str (sim : Ind G α → Ind G α → Bool) (p0 ind : Ind G α) {base m : Nat}
    {seen : List (Ind G α)} {h : HoF G α} (hs : HStr base m seen h) (hm : 1 ≤ m)
    (hp : h.items = [] → p0 = ind) :
    ∃ h', step sim p0 h ind = some h' ∧ HStr base m (seen ++ [ind]) h' ∧ h'.items ≠ [] := by
  have hs' : Str base (seen ++ [ind]) h := hs.toStr.mono (fun x hx => by simp [hx])
  have hind : ind ∈ seen ++ [ind] := by simp
  have hmm : 1 ≤ h.maxsize := by rw [hs.msz]; exact hm
  rcases step_cases sim p0 ind h hmm hp with ⟨he, e⟩ | ⟨ys, w, hys, hc⟩
  · refine ⟨_, e, { insert_str hs' ind hind with msz := hs.msz, size := ?_ }, ?_⟩
    · rw [length_insert, he]; simpa using hm
    · rw [insert_items]; exact insertAt_ne_nil _ _ _
  · have hne : h.items ≠ [] := by rw [hys]; simp
    rcases hc with ⟨e, _, _⟩ | ⟨e, _⟩ | ⟨e, hlt, _⟩ | ⟨e, hge, _, _⟩
    · exact ⟨_, e, { hs' with msz := hs.msz, size := hs.size }, hne⟩
    · exact ⟨_, e, { hs' with msz := hs.msz, size := hs.size }, hne⟩
    · refine ⟨_, e, { insert_str hs' ind hind with msz := hs.msz, size := ?_ }, ?_⟩
      · rw [length_insert]; rw [hs.msz] at hlt; omega
      · rw [insert_items]; exact insertAt_ne_nil _ _ _
    · have hl : h.items.length - 1 < h.items.length := by
        have := List.length_pos_iff.2 hne; omega
      refine ⟨_, e, { insert_str (erased_str hs' _ hl) ind hind with msz := hs.msz, size := ?_ }, ?_⟩
      · rw [length_insert, length_erased _ _ hl]; have := hs.size; omega
      · rw [insert_items]; exact insertAt_ne_nil _ _ _

/-! ### Semantic invariants (under the reading's hypotheses, split by what each clause needs) -/

/-- The similarity operator is symmetric and does not look at object identity. -/
structure SimSym (sim : Ind G α → Ind G α → Bool) : Prop where
  symm : ∀ x y, sim x y = true → sim y x = true
  same : ∀ x x' y y', same x x' → same y y' → sim x y = sim x' y'

/-- … and reflexive. -/
structure SimBase (sim : Ind G α → Ind G α → Bool) : Prop extends SimSym sim where
  refl : ∀ x, sim x x = true

/-- Hypotheses of the reading (DESIGN §6): the similarity operator is reflexive and symmetric, does not look
at object identity, and similar individuals of the universe `U` carry equal fitness.
(Transitivity is not needed by any proof.) -/
structure SimHyp (sim : Ind G α → Ind G α → Bool) (U : List (Ind G α)) : Prop extends SimBase sim where
  fit : ∀ x ∈ U, ∀ y ∈ U, sim x y = true → x.fit = y.fit

theorem same_refl (x : Ind G α) : same x x := ⟨rfl, rfl⟩

def Dissim (sim : Ind G α → Ind G α → Bool) (l : List (Ind G α)) : Prop :=
  l.Pairwise (fun a b => sim a b = false)

/-- "at most `m` distinct individuals exist in `seen`" -/
def Room (sim : Ind G α → Ind G α → Bool) (m : Nat) (seen : List (Ind G α)) : Prop :=
  ∀ l : List (Ind G α), (∀ y ∈ l, y ∈ seen) → Dissim sim l → l.length ≤ m

def Repr (sim : Ind G α → Ind G α → Bool) (h : HoF G α) (x : Ind G α) : Prop :=
  ∃ it ∈ h.items, sim x it = true

/-- pairwise dissimilar members, and: while room, everything seen is represented -/
structure SemK (sim : Ind G α → Ind G α → Bool) (m : Nat) (seen : List (Ind G α)) (h : HoF G α) : Prop where
  dissim : Dissim sim h.items
  kept : Room sim m seen → ∀ x ∈ seen, Repr sim h x

/-- best of everything seen -/
def Best (sim : Ind G α → Ind G α → Bool) (m : Nat) (seen : List (Ind G α)) (h : HoF G α) : Prop :=
  ∀ x ∈ seen, Repr sim h x ∨
    (h.items.length = m ∧ ∀ w, h.items.getLast? = some w → x.fit.wvalues ≤ w.fit.wvalues)

variable {sim : Ind G α → Ind G α → Bool} {U : List (Ind G α)}

theorem sim_copy_left (hh : SimSym sim) (o : Nat) (x y : Ind G α) : sim (copyInd o x) y = sim x y :=
  hh.same _ _ _ _ (same_copy o x) (same_refl y)

theorem sim_copy_right (hh : SimSym sim) (o : Nat) (x y : Ind G α) : sim y (copyInd o x) = sim y x :=
  hh.same _ _ _ _ (same_refl y) (same_copy o x)

theorem repr_insert (hh : SimBase sim) (h : HoF G α) (ind : Ind G α) : Repr sim (insert h ind) ind :=
  ⟨copyInd h.next ind, (mem_insert _ _ _).2 (Or.inl rfl), by rw [sim_copy_right hh.toSimSym, hh.refl]⟩

theorem repr_insert_of (h : HoF G α) (ind x : Ind G α) (hx : Repr sim h x) : Repr sim (insert h ind) x := by
  obtain ⟨it, hit, e⟩ := hx
  exact ⟨it, (mem_insert _ _ _).2 (Or.inr hit), e⟩

/-- A list of `seen`-originals of the members, pairwise dissimilar and dissimilar to `ind`. -/
theorem exists_originals (hh : SimSym sim) (seen : List (Ind G α)) (ind : Ind G α) (l : List (Ind G α))
    (ho : ∀ it ∈ l, ∃ x ∈ seen, same it x) (hp : Dissim sim l) (hi : ∀ it ∈ l, sim ind it = false) :
    ∃ os : List (Ind G α), os.length = l.length ∧ (∀ o ∈ os, o ∈ seen) ∧ Dissim sim os ∧
      (∀ o ∈ os, sim ind o = false) ∧ ∀ o ∈ os, ∃ it ∈ l, same it o := by
  induction l with
  | nil => exact ⟨[], rfl, by simp, List.Pairwise.nil, by simp, by simp⟩
  | cons it t ih =>
    simp only [Dissim, List.pairwise_cons] at hp
    obtain ⟨os, h1, h2, h3, h4, h5⟩ := ih (fun i hi' => ho i (by simp [hi'])) hp.2
      (fun i hi' => hi i (by simp [hi']))
    obtain ⟨x, hx, sx⟩ := ho it (by simp)
    refine ⟨x :: os, by simp [h1], ?_, ?_, ?_, ?_⟩
    · intro o ho'; rw [List.mem_cons] at ho'
      rcases ho' with rfl | ho'
      · exact hx
      · exact h2 o ho'
    · simp only [Dissim, List.pairwise_cons]
      refine ⟨?_, h3⟩
      intro o ho'
      obtain ⟨it', hit', s'⟩ := h5 o ho'
      rw [← hh.same it x it' o sx s']
      exact hp.1 it' hit'
    · intro o ho'; rw [List.mem_cons] at ho'
      rcases ho' with rfl | ho'
      · rw [← hh.same ind ind it o (same_refl _) sx]; exact hi it (by simp)
      · exact h4 o ho'
    · intro o ho'; rw [List.mem_cons] at ho'
      rcases ho' with rfl | ho'
      · exact ⟨it, by simp, sx⟩
      · obtain ⟨it', hit', s'⟩ := h5 o ho'
        exact ⟨it', by simp [hit'], s'⟩

/-- If the archive is full and `ind` is dissimilar to every member, more than `m` distinct
individuals exist. -/
theorem no_room (hh : SimSym sim) {base m : Nat} {seen : List (Ind G α)} {h : HoF G α}
    (hs : HStr base m seen h) (hd : Dissim sim h.items) (ind : Ind G α)
    (hfull : m ≤ h.items.length) (hns : ∀ hofer ∈ h.items, sim ind hofer = false) :
    ¬ Room sim m (seen ++ [ind]) := by
  intro hroom
  obtain ⟨os, h1, h2, h3, h4, _⟩ := exists_originals hh seen ind h.items hs.origin hd hns
  have := hroom (ind :: os) (by
      intro y hy; rw [List.mem_cons] at hy
      rcases hy with rfl | hy
      · simp
      · simp [h2 y hy])
    (by simp only [Dissim, List.pairwise_cons]; exact ⟨h4, h3⟩)
  simp only [List.length_cons, h1] at this
  omega

theorem room_mono {m : Nat} {seen : List (Ind G α)} (ind : Ind G α) (hr : Room sim m (seen ++ [ind])) :
    Room sim m seen :=
  fun l hl hd => hr l (fun y hy => by simp [hl y hy]) hd

theorem dissim_insert (hh : SimSym sim) (h : HoF G α) (ind : Ind G α) (hd : Dissim sim h.items)
    (hns : ∀ hofer ∈ h.items, sim ind hofer = false) : Dissim sim (insert h ind).items := by
  rw [insert_items]
  apply pairwise_insertAt _ _ _ hd
  · intro x hx
    rw [sim_copy_right hh]
    cases hq : sim x ind with
    | false => rfl
    | true => have := hh.symm _ _ hq; rw [hns x hx] at this; exact absurd this (by simp)
  · intro x hx
    rw [sim_copy_left hh]; exact hns x hx

/-- Pairwise dissimilarity of the members survives an iteration — needs only a symmetric,
identity-blind similarity. -/
theorem step_dissim (hh : SimSym sim) (p0 ind : Ind G α) {base m : Nat}
    {seen : List (Ind G α)} {h h' : HoF G α} (hs : HStr base m seen h) (hd : Dissim sim h.items)
    (hm : 1 ≤ m) (hp : h.items = [] → p0 = ind)
    (e : step sim p0 h ind = some h') : Dissim sim h'.items := by
  have hmm : 1 ≤ h.maxsize := by rw [hs.msz]; exact hm
  rcases step_cases sim p0 ind h hmm hp with ⟨he, e'⟩ | ⟨ys, w, hys, hc⟩
  · rw [e'] at e; cases e
    exact dissim_insert hh h ind hd (by simp [he])
  · rcases hc with ⟨e', _, _⟩ | ⟨e', _⟩ | ⟨e', _, hns⟩ | ⟨e', _, _, hns⟩
    · rw [e'] at e; cases e; exact hd
    · rw [e'] at e; cases e; exact hd
    · rw [e'] at e; cases e; exact dissim_insert hh h ind hd hns
    · rw [e'] at e; cases e
      have hyi : (erased h (h.items.length - 1)).items = ys := erased_last_items h ys w hys
      have hd' := hd
      rw [hys] at hd'
      simp only [Dissim, List.pairwise_append] at hd'
      apply dissim_insert hh
      · rw [hyi]; exact hd'.1
      · rw [hyi]; exact fun y hy => hns y (by rw [hys]; simp [hy])

/-- While room, everything seen stays represented — needs a reflexive, symmetric, identity-blind similarity. -/
theorem step_semk (hh : SimBase sim) (p0 ind : Ind G α) {base m : Nat}
    {seen : List (Ind G α)} {h h' : HoF G α} (hs : HStr base m seen h) (hsem : SemK sim m seen h)
    (hm : 1 ≤ m) (hp : h.items = [] → p0 = ind)
    (e : step sim p0 h ind = some h') : SemK sim m (seen ++ [ind]) h' := by
  refine ⟨step_dissim hh.toSimSym p0 ind hs hsem.dissim hm hp e, ?_⟩
  have hmm : 1 ≤ h.maxsize := by rw [hs.msz]; exact hm
  have hsz := hs.size
  have hmsz := hs.msz
  rcases step_cases sim p0 ind h hmm hp with ⟨he, e'⟩ | ⟨ys, w, hys, hc⟩
  · rw [e'] at e; cases e
    intro hr x hx
    rw [List.mem_append, List.mem_singleton] at hx
    rcases hx with hx | rfl
    · obtain ⟨it, hit, _⟩ := hsem.kept (room_mono ind hr) x hx
      rw [he] at hit; simp at hit
    · exact repr_insert hh h x
  · rcases hc with ⟨e', hgt, hge⟩ | ⟨e', hsim⟩ | ⟨e', hlt, hns⟩ | ⟨e', hge, hgt, hns⟩
    · rw [e'] at e; cases e
      intro hr x hx
      rw [List.mem_append, List.mem_singleton] at hx
      rcases hx with hx | rfl
      · exact hsem.kept (room_mono _ hr) x hx
      · by_cases hrep : ∃ it ∈ h.items, sim x it = true
        · exact hrep
        · exfalso
          refine no_room hh.toSimSym hs hsem.dissim x (by omega) ?_ hr
          intro hofer hh'
          cases hq : sim x hofer with
          | false => rfl
          | true => exact absurd ⟨hofer, hh', hq⟩ hrep
    · rw [e'] at e; cases e
      intro hr x hx
      rw [List.mem_append, List.mem_singleton] at hx
      rcases hx with hx | rfl
      · exact hsem.kept (room_mono _ hr) x hx
      · exact hsim
    · rw [e'] at e; cases e
      intro hr x hx
      rw [List.mem_append, List.mem_singleton] at hx
      rcases hx with hx | rfl
      · exact repr_insert_of h ind x (hsem.kept (room_mono _ hr) x hx)
      · exact repr_insert hh h x
    · rw [e'] at e; cases e
      intro hr
      exact absurd hr (no_room hh.toSimSym hs hsem.dissim ind (by omega) hns)

/-- Best of everything seen survives an iteration — the only clause that needs "similar ⇒ equal fitness". -/
theorem step_best (hh : SimHyp sim U) (p0 ind : Ind G α) {base m : Nat}
    {seen : List (Ind G α)} {h h' : HoF G α} (hs : HStr base m seen h) (hbest : Best sim m seen h)
    (hm : 1 ≤ m) (hp : h.items = [] → p0 = ind) (hU : ∀ x ∈ seen ++ [ind], x ∈ U)
    (e : step sim p0 h ind = some h') : Best sim m (seen ++ [ind]) h' := by
  have hmm : 1 ≤ h.maxsize := by rw [hs.msz]; exact hm
  have hsz := hs.size
  have hmsz := hs.msz
  have hb := hh.toSimBase
  rcases step_cases sim p0 ind h hmm hp with ⟨he, e'⟩ | ⟨ys, w, hys, hc⟩
  · rw [e'] at e; cases e
    intro x hx
    rw [List.mem_append, List.mem_singleton] at hx
    rcases hx with hx | rfl
    · rcases hbest x hx with ⟨it, hit, _⟩ | ⟨hl, _⟩
      · rw [he] at hit; simp at hit
      · rw [he] at hl; simp at hl; omega
    · exact Or.inl (repr_insert hb h x)
  · have hlast : h.items.getLast? = some w := by rw [hys]; simp
    rcases hc with ⟨e', hgt, hge⟩ | ⟨e', hsim⟩ | ⟨e', hlt, hns⟩ | ⟨e', hge, hgt, hns⟩
    · rw [e'] at e; cases e
      intro x hx
      rw [List.mem_append, List.mem_singleton] at hx
      rcases hx with hx | rfl
      · exact hbest x hx
      · right
        refine ⟨by omega, ?_⟩
        intro w' hw'
        rw [hlast] at hw'; cases hw'
        exact (gt_false_iff _ _).1 hgt
    · rw [e'] at e; cases e
      intro x hx
      rw [List.mem_append, List.mem_singleton] at hx
      rcases hx with hx | rfl
      · exact hbest x hx
      · exact Or.inl hsim
    · rw [e'] at e; cases e
      intro x hx
      rw [List.mem_append, List.mem_singleton] at hx
      rcases hx with hx | rfl
      · rcases hbest x hx with hr | ⟨hl, _⟩
        · exact Or.inl (repr_insert_of h ind x hr)
        · omega
      · exact Or.inl (repr_insert hb h x)
    · rw [e'] at e; cases e
      have hne : h.items ≠ [] := by rw [hys]; simp
      have hl : h.items.length - 1 < h.items.length := by
        have := List.length_pos_iff.2 hne; omega
      have hyi : (erased h (h.items.length - 1)).items = ys := erased_last_items h ys w hys
      have hsorted := hs.toStr.sorted
      rw [hys] at hsorted
      rw [List.pairwise_append] at hsorted
      have hwle : ∀ y ∈ ys, w.fit.wvalues ≤ y.fit.wvalues := fun y hy => hsorted.2.2 y hy w (by simp)
      have hgt' : w.fit.wvalues < ind.fit.wvalues := (gt_iff _ _).1 hgt
      have hworst : ∀ w', (insert (erased h (h.items.length - 1)) ind).items.getLast? = some w' →
          w.fit.wvalues ≤ w'.fit.wvalues := by
        intro w' hw'
        have hmem := List.mem_of_getLast? hw'
        rw [mem_insert, hyi] at hmem
        rcases hmem with rfl | hmem
        · exact le_of_lt hgt'
        · exact hwle w' hmem
      have hlen' : (insert (erased h (h.items.length - 1)) ind).items.length = m := by
        rw [length_insert, length_erased _ _ hl]; omega
      intro x hx
      rw [List.mem_append, List.mem_singleton] at hx
      rcases hx with hx | rfl
      · have hxw : (∃ it ∈ ys, sim x it = true) ∨ x.fit.wvalues ≤ w.fit.wvalues := by
          rcases hbest x hx with ⟨it, hit, hsi⟩ | ⟨_, hle⟩
          · rw [hys, List.mem_append, List.mem_singleton] at hit
            rcases hit with hit | rfl
            · exact Or.inl ⟨it, hit, hsi⟩
            · right
              obtain ⟨y, hy, sy⟩ := hs.origin it (by rw [hys]; simp)
              have : sim x y = true := by rw [← hh.same x x it y (same_refl x) sy]; exact hsi
              have hf := hh.fit x (hU x (by simp [hx])) y (hU y (by simp [hy])) this
              rw [hf, ← sy.2]
          · exact Or.inr (hle w hlast)
        rcases hxw with ⟨it, hit, hsi⟩ | hle
        · left
          exact ⟨it, (mem_insert _ _ _).2 (Or.inr (by rw [hyi]; exact hit)), hsi⟩
        · right
          exact ⟨hlen', fun w' hw' => le_trans hle (hworst w' hw')⟩
      · exact Or.inl (repr_insert hb _ x)

end C08L
