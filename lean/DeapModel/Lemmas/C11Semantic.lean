/-
Helper lemmas for C11 / C12: the geometric semantic operators (`Core/GpSemantic.lean`).
-/
import DeapModel.Lemmas.C11Basic
import DeapModel.Core.GpSemantic

namespace GpTree

/-! ### what a successful run consists of -/

theorem mutSemantic_ok {mapping : String → Option Prim} {reprF : Float → String} {ind out : List Prim}
    {gen : Tape → R (List Prim × Tape)} {ms : Option Float} {tp tp' : Tape}
    (h : mutSemantic mapping reprF ind gen ms tp = .ok (out, tp')) :
    ∃ pc tr1 tp1 tr2 tp2 v, semPieces mapping = some pc ∧ gen tp = .ok (tr1, tp1) ∧ gen tp1 = .ok (tr2, tp2) ∧
      ((ms = some v ∧ tp' = tp2) ∨ (ms = none ∧ popUniform 0.0 2.0 tp2 = .ok (v, tp'))) ∧
      out = semMutList pc (constNode (reprF v)) ind tr1 tr2 := by
  unfold mutSemantic at h
  split at h
  · cases h
  · rename_i pc hpc
    split at h
    · cases h
    · rename_i tr1 tp1 h1
      split at h
      · cases h
      · rename_i tr2 tp2 h2
        split at h
        · cases h
        · rename_i v tp3 h3
          injection h with h
          injection h with ho ht
          refine ⟨pc, tr1, tp1, tr2, tp2, v, hpc, h1, h2, ?_, ho.symm⟩
          cases ms with
          | some w =>
            left
            simp only at h3
            injection h3 with h3
            injection h3 with hv htp
            subst hv; subst ht
            exact ⟨rfl, htp.symm⟩
          | none =>
            right
            simp only at h3
            subst ht
            exact ⟨rfl, h3⟩

theorem cxSemantic_ok {mapping : String → Option Prim} {reprF : Float → String} {ind1 ind2 o1 o2 : List Prim}
    {gen : Tape → R (List Prim × Tape)} {tp tp' : Tape}
    (h : cxSemantic mapping reprF ind1 ind2 gen tp = .ok (o1, o2, tp')) :
    ∃ pc tr, semPieces mapping = some pc ∧ gen tp = .ok (tr, tp') ∧
      o1 = semCxList pc (constNode (reprF 1.0)) ind1 ind2 tr ∧
      o2 = semCxList pc (constNode (reprF 1.0)) ind2 o1 tr := by
  unfold cxSemantic at h
  split at h
  · cases h
  · rename_i pc hpc
    split at h
    · cases h
    · rename_i tr tp1 h1
      simp only at h
      injection h with h
      injection h with ho1 h
      injection h with ho2 ht
      subst ht
      refine ⟨pc, tr, hpc, h1, ho1.symm, ?_⟩
      rw [← ho2, ← ho1]

/-! ### lists and trees -/

theorem semMutList_flatten (pc : SemPieces) (msN : Prim) (ti t1 t2 : Tree) :
    semMutList pc msN (flatten ti) (flatten t1) (flatten t2) = flatten (semMutTree pc msN ti t1 t2) := by
  simp [semMutList, semMutTree, flatten, flattenF]

theorem semCxList_flatten (pc : SemPieces) (oneN : Prim) (ta tb tr : Tree) :
    semCxList pc oneN (flatten ta) (flatten tb) (flatten tr) = flatten (semCxTree pc oneN ta tb tr) := by
  simp [semCxList, semCxTree, flatten, flattenF]

theorem semMutList_length (pc : SemPieces) (msN : Prim) (ind tr1 tr2 : List Prim) :
    (semMutList pc msN ind tr1 tr2).length = ind.length + tr1.length + tr2.length + 6 := by
  simp [semMutList]; omega

theorem semCxList_length (pc : SemPieces) (oneN : Prim) (a b tr : List Prim) :
    (semCxList pc oneN a b tr).length = a.length + b.length + 2 * tr.length + 7 := by
  simp [semCxList]; omega

/-- the parent's nodes are still there, shifted by the new root (`add`) -/
theorem semMutList_parent (pc : SemPieces) (msN : Prim) (ind tr1 tr2 : List Prim) :
    ((semMutList pc msN ind tr1 tr2).drop 1).take ind.length = ind := by
  simp [semMutList]

/-- the first parent's nodes are still there, shifted by the two new nodes (`add`, `mul`) -/
theorem semCxList_parent (pc : SemPieces) (oneN : Prim) (a b tr : List Prim) :
    ((semCxList pc oneN a b tr).drop 2).take a.length = a := by
  simp [semCxList]

/-! ### typing -/

/-- The four pieces form a GSGP signature over the type `ρ`: `add`, `mul`, `sub` take two `ρ`s, `lf` one, all return
(a subclass of) `ρ`, and a constant declared as `object` — what `Terminal(ms, False, object)` is — is accepted in a
`ρ` slot.  In a loosely typed set (`PrimitiveSet`: everything is `object`) this holds with `ρ = objT`. -/
structure SemOK (sub : Nat → Nat → Bool) (pc : SemPieces) (ρ : Nat) : Prop where
  add_args : pc.add.args = [ρ, ρ]
  mul_args : pc.mul.args = [ρ, ρ]
  sub_args : pc.sub.args = [ρ, ρ]
  lf_args : pc.lf.args = [ρ]
  add_ret : sub pc.add.ret ρ = true
  mul_ret : sub pc.mul.ret ρ = true
  sub_ret : sub pc.sub.ret ρ = true
  lf_ret : sub pc.lf.ret ρ = true
  const_ok : sub objT ρ = true

theorem semMutTree_wt {sub : Nat → Nat → Bool} {pc : SemPieces} {ρ : Nat} (ok : SemOK sub pc ρ) (text : String)
    {ti t1 t2 : Tree} (hi : wt sub ρ ti = true) (h1 : wt sub ρ t1 = true) (h2 : wt sub ρ t2 = true) :
    wt sub ρ (semMutTree pc (constNode text) ti t1 t2) = true := by
  simp [semMutTree, wt, wtF, ok.add_args, ok.mul_args, ok.sub_args, ok.lf_args, ok.add_ret, ok.mul_ret, ok.sub_ret,
    ok.lf_ret, constNode, ok.const_ok, hi, h1, h2]

theorem semCxTree_wt {sub : Nat → Nat → Bool} {pc : SemPieces} {ρ : Nat} (ok : SemOK sub pc ρ) (text : String)
    {ta tb tr : Tree} (ha : wt sub ρ ta = true) (hb : wt sub ρ tb = true) (hr : wt sub ρ tr = true) :
    wt sub ρ (semCxTree pc (constNode text) ta tb tr) = true := by
  simp [semCxTree, wt, wtF, ok.add_args, ok.mul_args, ok.sub_args, ok.lf_args, ok.add_ret, ok.mul_ret, ok.sub_ret,
    ok.lf_ret, constNode, ok.const_ok, ha, hb, hr]

/-- arities only: `lf` unary, the others binary -/
structure SemArity (pc : SemPieces) : Prop where
  add2 : pc.add.args.length = 2
  mul2 : pc.mul.args.length = 2
  sub2 : pc.sub.args.length = 2
  lf1 : pc.lf.args.length = 1

theorem semMutTree_wf {pc : SemPieces} (ok : SemArity pc) (text : String)
    {ti t1 t2 : Tree} (hi : wf ti = true) (h1 : wf t1 = true) (h2 : wf t2 = true) :
    wf (semMutTree pc (constNode text) ti t1 t2) = true := by
  simp [semMutTree, wf, wfF, ok.add2, ok.mul2, ok.sub2, ok.lf1, constNode, Prim.arity, hi, h1, h2]

theorem semCxTree_wf {pc : SemPieces} (ok : SemArity pc) (text : String)
    {ta tb tr : Tree} (ha : wf ta = true) (hb : wf tb = true) (hr : wf tr = true) :
    wf (semCxTree pc (constNode text) ta tb tr) = true := by
  simp [semCxTree, wf, wfF, ok.add2, ok.mul2, ok.sub2, ok.lf1, constNode, Prim.arity, ha, hb, hr]

/-! ### denotation over an arbitrary carrier -/

/-- the environment binds the four names to `fadd`, `fmul`, `fsub` (binary) and `flf` (unary) -/
structure SemEnv {α : Type} (env : EnvG α) (pc : SemPieces) (fadd fmul fsub : α → α → α) (flf : α → α) : Prop where
  kadd : pc.add.kind = .prim
  kmul : pc.mul.kind = .prim
  ksub : pc.sub.kind = .prim
  klf : pc.lf.kind = .prim
  hadd : env.funs pc.add.name.toList = some (fun vs => match vs with | [a, b] => some (fadd a b) | _ => none)
  hmul : env.funs pc.mul.name.toList = some (fun vs => match vs with | [a, b] => some (fmul a b) | _ => none)
  hsub : env.funs pc.sub.name.toList = some (fun vs => match vs with | [a, b] => some (fsub a b) | _ => none)
  hlf : env.funs pc.lf.name.toList = some (fun vs => match vs with | [a] => some (flf a) | _ => none)

/-- the text of a constant node denotes the value `c`: it is no variable name and the literal reader gives `c` -/
def ConstDenotes {α : Type} (env : EnvG α) (text : String) (c : α) : Prop :=
  env.vars text.toList = none ∧ env.lit text.toList = some c

theorem evalG_const {α : Type} {env : EnvG α} {text : String} {c : α} (h : ConstDenotes env text c) :
    evalG env (.node (constNode text) []) = some c := by
  simp [evalG, constNode, h.1, h.2]

theorem evalG_semMutTree {α : Type} {env : EnvG α} {pc : SemPieces} {fadd fmul fsub : α → α → α} {flf : α → α}
    (he : SemEnv env pc fadd fmul fsub flf) {text : String} {ms : α} (hc : ConstDenotes env text ms)
    {ti t1 t2 : Tree} {a b c : α} (hi : evalG env ti = some a) (h1 : evalG env t1 = some b)
    (h2 : evalG env t2 = some c) :
    evalG env (semMutTree pc (constNode text) ti t1 t2) = some (fadd a (fmul ms (fsub (flf b) (flf c)))) := by
  have hk := evalG_const hc
  simp only [semMutTree, evalG, evalGF, he.kadd, he.kmul, he.ksub, he.klf, he.hadd, he.hmul, he.hsub, he.hlf,
    hi, h1, h2, if_true] at hk ⊢
  simp [constNode, hc.1, hc.2]

theorem evalG_semCxTree {α : Type} {env : EnvG α} {pc : SemPieces} {fadd fmul fsub : α → α → α} {flf : α → α}
    (he : SemEnv env pc fadd fmul fsub flf) {text : String} {one : α} (hc : ConstDenotes env text one)
    {ta tb tr : Tree} {a b r : α} (ha : evalG env ta = some a) (hb : evalG env tb = some b)
    (hr : evalG env tr = some r) :
    evalG env (semCxTree pc (constNode text) ta tb tr) =
      some (fadd (fmul a (flf r)) (fmul (fsub one (flf r)) b)) := by
  simp only [semCxTree, evalG, evalGF, he.kadd, he.kmul, he.ksub, he.klf, he.hadd, he.hmul, he.hsub, he.hlf,
    ha, hb, hr, if_true]
  simp [constNode, hc.1, hc.2]

/-! ### fixtures for the `example`s of Props/C11.lean and Props/C12.lean -/

/-- a loosely typed GSGP set: everything is `object` -/
def gsAdd : Prim := ⟨"add", 0, [0, 0], .prim, ""⟩
def gsMul : Prim := ⟨"mul", 0, [0, 0], .prim, ""⟩
def gsSub : Prim := ⟨"sub", 0, [0, 0], .prim, ""⟩
def gsLf : Prim := ⟨"lf", 0, [0], .prim, ""⟩
def gsX : Prim := ⟨"ARG0", 0, [], .term, "ARG0"⟩
def gsMapping : String → Option Prim := fun k =>
  if k = "add" then some gsAdd else if k = "mul" then some gsMul else if k = "sub" then some gsSub
  else if k = "lf" then some gsLf else if k = "ARG0" then some gsX else none
def gsGen : Tape → R (List Prim × Tape) := fun tp => .ok ([gsX], tp)


end GpTree
