import DeapModel.Lemmas.C15HvCGenB2
import DeapModel.Lemmas.C15HvCGenB3
/-!
C15 — the general case of `hv_recursive` in `_hv.c`, second phase: the invariant `LInvC` of the reinsertion loop
l.780-808, the recursive call with the promotion of the mark (l.796-798), and one iteration of the loop.
-/
namespace HvC
set_option linter.unusedVariables false
open Hypervolume
open HvSweep (GCtx Hj RL preSet pos ARv VOLv ids Shaped)

/-- what is known after the reset loop of level `j + 1` -/
structure AfterResetC (C : Cargo) (R : List ℚ) (d n : ℕ) (O : ℕ → List ℕ) (j : ℕ) (A : List ℕ) (S₁ : St) : Prop where
  inv : InvC C R d n O S₁ (j + 1) A
  zero_or_big : ∀ y ∈ A, ign S₁ y = 0 ∨ ((j + 1 : ℕ) : ℤ) ≤ ign S₁ y

/-- the invariant of the reinsertion loop of level `j + 1`: the nodes `d0 ++ [q]` of the list of the level are present
in the lists `2 .. j`, `todo` are still to be reinserted, `S₁` is the state before the deletions -/
structure LInvC (C : Cargo) (R : List ℚ) (d n : ℕ) (O : ℕ → List ℕ) (j : ℕ) (A : List ℕ) (S₁ T : St)
    (d0 : List ℕ) (q : ℕ) (todo : List ℕ) (hvol : ℚ) : Prop where
  split : RL O (j + 1) A = d0 ++ q :: todo
  ptr : PtrEqC (delSeq C (j + 1) S₁ todo.reverse) T
  inv : InvC C R d n O T j (d0 ++ [q])
  absent : ∀ y ∈ todo, ign T y = ign S₁ y
  cache : ∀ a ∈ d0 ++ [q], ar T a (j + 1) = ARv R (spt C R) O j A a ∧ vl T a (j + 1) = VOLv (stc C R) R (spt C R) O j A a
  hvol : hvol = VOLv (stc C R) R (spt C R) O j A q
  f_ign : ∀ y, y ∉ A → ign T y = ign S₁ y
  f_dr : ∀ y, y ∉ A → dr T y = dr S₁ y
  f_hi : ∀ a i, j + 1 < i → ar T a i = ar S₁ a i ∧ vl T a i = vl S₁ a i
  f_bhi : ∀ i, j + 1 ≤ i → T.bound.getD i none = S₁.bound.getD i none

section ctx
variable {C : Cargo} {R : List ℚ} {d n : ℕ} {O : ℕ → List ℕ}

theorem invC_setAr_hi {S : St} {k : ℕ} {A : List ℕ} (inv : InvC C R d n O S k A) (p i : ℕ) (v : ℚ) (hi : k < i) :
    InvC C R d n O (setAr S p i v) k A :=
  { shape := inv.shape
    tsh := gB_tsh_setAr inv.tsh _ _ _
    nodup := inv.nodup
    sub := inv.sub
    good := inv.good
    lists := inv.lists
    cv := cvc_frame (S := S) (fun a i' h => gB_ar_setAr_ne S p i a i' v (Or.inr (by omega))) (fun _ _ _ => rfl)
      (fun _ _ => rfl) inv.cv
    ig := inv.ig
    igd := inv.igd
    dm := inv.dm
    tree := inv.tree }

theorem invC_setVl_hi {S : St} {k : ℕ} {A : List ℕ} (inv : InvC C R d n O S k A) (p i : ℕ) (v : ℚ) (hi : k < i) :
    InvC C R d n O (setVl S p i v) k A :=
  { shape := inv.shape
    tsh := gB_tsh_setVl inv.tsh _ _ _
    nodup := inv.nodup
    sub := inv.sub
    good := inv.good
    lists := inv.lists
    cv := cvc_frame (S := S) (fun _ _ _ => rfl) (fun a i' h => gB_vl_setVl_ne S p i a i' v (Or.inr (by omega)))
      (fun _ _ => rfl) inv.cv
    ig := inv.ig
    igd := inv.igd
    dm := inv.dm
    tree := inv.tree }

theorem promo_cases (T : St) (p dim : ℕ) (a : ℚ) :
    (ign T p = (dim : ℤ) - 1 ∧ promo T p dim a = setIgn (setAr T p dim a) p dim) ∨
    (ign T p ≠ (dim : ℤ) - 1 ∧ promo T p dim a = setAr T p dim a) := by
  unfold promo
  by_cases h : ign (setAr T p dim a) p = (dim : ℤ) - 1
  · rw [if_pos h]; exact Or.inl ⟨h, rfl⟩
  · rw [if_neg h]; exact Or.inr ⟨h, rfl⟩

/-- **the recursive call and the promotion** (l.763-769 / l.796-798) for the node `p` just (re)inserted after `q`: its
area cache gets the ideal value computed by the level below -/
theorem area_rec_ok (c : CCtx C R d n O) (j : ℕ) (hj2 : 2 ≤ j) (hj : j + 1 < d) (F : ℕ)
    (hrec : LevelOKC C R d n O F j) (A : List ℕ) (hA : ∀ a ∈ A, a ∈ ids n)
    (d0 : List ℕ) (q p : ℕ) (todo : List ℕ) (hsplit : RL O (j + 1) A = d0 ++ q :: p :: todo)
    (T : St) (inv : InvC C R d n O T j (d0 ++ [q] ++ [p])) :
    ∃ a T1, hvRecursive C R F j ((d0 ++ [q]).length + 1) T = some (a, T1) ∧
      PtrEqC T (promo T1 p (j + 1) a) ∧ InvC C R d n O (promo T1 p (j + 1) a) j (d0 ++ [q] ++ [p]) ∧
      ar (promo T1 p (j + 1) a) p (j + 1) = ARv R (spt C R) O j A p ∧
      (∀ y, y ∉ d0 ++ [q] ++ [p] → ign (promo T1 p (j + 1) a) y = ign T y) ∧
      (∀ y, y ∉ d0 ++ [q] ++ [p] → dr (promo T1 p (j + 1) a) y = dr T y) ∧
      (∀ a' i, j < i → (a' ≠ p ∨ i ≠ j + 1) → ar (promo T1 p (j + 1) a) a' i = ar T a' i) ∧
      (∀ a' i, j < i → vl (promo T1 p (j + 1) a) a' i = vl T a' i) ∧
      (∀ i, j < i → (promo T1 p (j + 1) a).bound.getD i none = T.bound.getD i none) := by
  have hpL : p ∈ RL O (j + 1) A := by rw [hsplit]; simp
  have hpA : p ∈ A := ((HvSweep.mem_RL O (j + 1) A p).mp hpL).2
  have hpn : p ≤ n := ((HvSweep.mem_ids n p).mp (hA p hpA)).2
  have hsplit' : RL O (j + 1) A = (d0 ++ [q]) ++ p :: todo := by rw [hsplit]; simp
  obtain ⟨hp1, _⟩ := HvSweep.pos_lt_of_split O (j + 1) (c.g.nodup hj) (RL O (j + 1) A) (d0 ++ [q]) todo p
    (HvSweep.RL_sublist O (j + 1) A) hsplit'
  obtain ⟨v, T1, hrun, post⟩ := hrec T (d0 ++ [q] ++ [p]) inv (by simp)
  have hlen : (d0 ++ [q] ++ [p]).length = (d0 ++ [q]).length + 1 := by simp
  rw [hlen] at hrun
  refine ⟨v, T1, hrun, ?_⟩
  have hv : v = ARv R (spt C R) O j A p := by
    rw [post.val]
    unfold HvSweep.ARv
    apply HvSweep.Hj_congr
    intro b
    exact (HvSweep.mem_preSet_of_split c.g hj A hA (d0 ++ [q]) todo p hsplit' b).symm
  have hT2inv : InvC C R d n O (setAr T1 p (j + 1) v) j (d0 ++ [q] ++ [p]) := invC_setAr_hi post.inv p (j + 1) v (by omega)
  have har2 : ar (setAr T1 p (j + 1) v) p (j + 1) = ARv R (spt C R) O j A p := by
    rw [gB_ar_setAr_self post.inv.tsh.area hpn hj, hv]
  have hfr_ar : ∀ a' i, j < i → (a' ≠ p ∨ i ≠ j + 1) → ar (setAr T1 p (j + 1) v) a' i = ar T a' i :=
    fun a' i hi hne => (gB_ar_setAr_ne T1 p (j + 1) a' i v hne).trans (post.cache_hi a' i hi).1
  have hfr_vl : ∀ a' i, j < i → vl (setAr T1 p (j + 1) v) a' i = vl T a' i := fun a' i hi => (post.cache_hi a' i hi).2
  rcases promo_cases T1 p (j + 1) v with ⟨hprom, he⟩ | ⟨hprom, he⟩
  · -- promotion: dominated in the coordinates below, and last in this one
    rw [he]
    have hjj : ((j + 1 : ℕ) : ℤ) - 1 = (j : ℤ) := by push_cast; ring
    have e1 : ign T1 p = (j : ℤ) := by rw [hprom, hjj]
    have h2le : (2 : ℤ) ≤ ign T1 p := by rw [e1]; exact_mod_cast hj2
    obtain ⟨b, hbB, hdom⟩ := post.inv.ig p (by simp) h2le
    have htn : (ign T1 p).toNat = j := by rw [e1]; exact Int.toNat_natCast j
    rw [htn] at hdom
    have hbpos : pos O (j + 1) b < pos O (j + 1) p := by
      rcases List.mem_append.mp hbB with h | h
      · exact hp1 b h
      · simp at h; exact absurd h hdom.1
    have hdom' : DomC C O (j + 1) b p := by
      refine ⟨hdom.1, hdom.2.1, hdom.2.2.1, fun i hi1 hi2 => ?_⟩
      rcases Nat.lt_or_ge i (j + 1) with h | h
      · exact hdom.2.2.2 i hi1 (by omega)
      · have : i = j + 1 := by omega
        rw [this]; exact hbpos
    have hlenI : p < (setAr T1 p (j + 1) v).ignore.length := by rw [hT2inv.tsh.ign]; omega
    refine ⟨post.ptr, ?_, har2, ?_, ?_, hfr_ar, hfr_vl, fun i hi => post.bound_hi i hi⟩
    · exact
        { shape := hT2inv.shape
          tsh := gB_tsh_setIgn hT2inv.tsh _ _
          nodup := inv.nodup
          sub := inv.sub
          good := inv.good
          lists := hT2inv.lists
          cv := hT2inv.cv
          ig := by
            intro y hy hm
            by_cases hyp : y = p
            · subst hyp
              rw [gB_ign_setIgn_self _ y _ hlenI, Int.toNat_natCast]
              exact ⟨b, hbB, hdom'⟩
            · rw [gB_ign_setIgn_ne _ p y _ hyp] at hm ⊢
              exact hT2inv.ig y hy hm
          igd := by
            intro y hm
            by_cases hyp : y = p
            · subst hyp
              exact post.inv.igd y h2le
            · rw [gB_ign_setIgn_ne _ p y _ hyp] at hm
              exact hT2inv.igd y hm
          dm := hT2inv.dm
          tree := hT2inv.tree }
    · intro y hy
      have hyp : y ≠ p := fun e => hy (by simp [e])
      rw [gB_ign_setIgn_ne _ p y _ hyp]
      exact post.ign_out y hy
    · intro y hy
      exact post.dr_out y hy
  · rw [he]
    exact ⟨post.ptr, hT2inv, har2, fun y hy => post.ign_out y hy, fun y hy => post.dr_out y hy, hfr_ar, hfr_vl,
      fun i hi => post.bound_hi i hi⟩

/-- one iteration of the reinsertion loop -/
theorem linvC_step (c : CCtx C R d n O) (h3 : AfterDeletionsC_Statement) (j : ℕ) (hj2 : 2 ≤ j) (hj : j + 1 < d) (F : ℕ)
    (hrec : LevelOKC C R d n O F j) (A : List ℕ) (S₁ : St) (Rr : AfterResetC C R d n O j A S₁)
    (T : St) (d0 : List ℕ) (q p : ℕ) (todo : List ℕ) (hvol : ℚ)
    (I : LInvC C R d n O j A S₁ T d0 q (p :: todo) hvol) :
    ∃ T5, bodyR (hvRecursive C R F j) C (j + 1) p q ((d0 ++ [q]).length + 1) T = some T5 ∧
      LInvC C R d n O j A S₁ (setVl T5 p (j + 1) (hvol + ar T q (j + 1) * (cg C p (j + 1) - cg C q (j + 1))))
        (d0 ++ [q]) p todo (hvol + ar T q (j + 1) * (cg C p (j + 1) - cg C q (j + 1))) ∧
      nx T5 (j + 1) p = (todo ++ [0]).headD 0 := by
  have hA := Rr.inv.sub
  have hsplit : RL O (j + 1) A = d0 ++ q :: p :: todo := I.split
  have hsplit' : RL O (j + 1) A = (d0 ++ [q]) ++ p :: todo := by rw [hsplit]; simp
  have hLnd : (RL O (j + 1) A).Nodup := HvSweep.RL_nodup c.g hj A
  have hLA : ∀ a, a ∈ RL O (j + 1) A ↔ a ∈ A := fun a => by
    rw [HvSweep.mem_RL]; exact ⟨fun h => h.2, fun h => ⟨(c.g.mem hj a).mpr (hA a h), h⟩⟩
  have hpL : p ∈ RL O (j + 1) A := by rw [hsplit']; simp
  have hpA : p ∈ A := (hLA p).mp hpL
  have hpI := hA p hpA
  have hpn : p ≤ n := ((HvSweep.mem_ids n p).mp hpI).2
  have hqL : q ∈ RL O (j + 1) A := by rw [hsplit]; simp
  have hqA : q ∈ A := (hLA q).mp hqL
  have hnd_split := List.nodup_append.mp (hsplit' ▸ hLnd)
  have hp_todo : p ∉ todo := (List.nodup_cons.mp hnd_split.2.1).1
  have hpre_p : p ∉ d0 ++ [q] := fun h => hnd_split.2.2 p h p (by simp) rfl
  have hcurA : ∀ a ∈ d0 ++ [q], a ∈ A := fun a ha => (hLA a).mp (by rw [hsplit']; exact List.mem_append_left _ ha)
  have hcurI : ∀ a ∈ d0 ++ [q], a ∈ ids n := fun a ha => hA a (hcurA a ha)
  have hBiff : ∀ a, a ∈ d0 ++ [q] ++ [p] ↔ a = p ∨ a ∈ d0 ++ [q] := by
    intro a; simp only [List.mem_append, List.mem_singleton]; tauto
  have hAB : ∀ a, a ≠ p → (a ∈ d0 ++ [q] ↔ a ∈ d0 ++ [q] ++ [p]) := by
    intro a hap; rw [hBiff a]; tauto
  obtain ⟨hp1, _⟩ := HvSweep.pos_lt_of_split O (j + 1) (c.g.nodup hj) (RL O (j + 1) A) (d0 ++ [q]) todo p
    (HvSweep.RL_sublist O (j + 1) A) hsplit'
  -- the state before p was deleted
  obtain ⟨invU, hBmem, fign, far, fvl, fdr, ftree, fcalls, fbnd, fptr⟩ :=
    h3 C R d n O j A S₁ c hj2 hj Rr.inv Rr.zero_or_big (d0 ++ [q]) p todo.reverse
      (by rw [List.reverse_reverse]; exact hsplit')
  set U := delSeq C (j + 1) S₁ todo.reverse with hUdef
  have hpe : PtrEqC (delStep C (j + 1) U p) T := by
    have := I.ptr
    rw [List.reverse_cons, delSeq_snoc] at this
    exact this
  have hpB : p ∈ d0 ++ [q] ++ [p] := by simp
  have hnf : ∀ i, 2 ≤ i → i < j + 1 → HvSweep.NodeFacts n (toSw U) i p := by
    intro i hi1 hi2
    refine HvSweep.dl_nodeFacts (invU.lists i hi1 (by omega)) ?_
    exact (HvSweep.mem_RL O i _ p).mpr ⟨(c.g.mem (by omega) p).mpr hpI, hpB⟩
  -- pointers in the list of the level itself
  have hsegL : HvSweep.Seg (toSw S₁) (j + 1) 0 ((d0 ++ [q]) ++ p :: todo) 0 := by
    have := (Rr.inv.lists (j + 1) (by omega) (le_refl _)).1
    rw [hsplit'] at this; exact this
  have hnode := HvSweep.seg_node (toSw S₁) (j + 1) (d0 ++ [q]) 0 p todo 0 hsegL
  have hnxU : nx U (j + 1) p = (todo ++ [0]).headD 0 := by
    rw [(fptr (j + 1) p (Or.inr (le_refl _))).1]
    have := hnode.2.1
    simp only [nx_toSw] at this
    rw [this]
    cases todo <;> rfl
  have hmarkS : ign T p = ign S₁ p := I.absent p (by simp)
  set hvol1 := hvol + ar T q (j + 1) * (cg C p (j + 1) - cg C q (j + 1)) with hhv1
  have hvol1_eq : hvol1 = VOLv (stc C R) R (spt C R) O j A p := by
    rw [hhv1, I.hvol, (I.cache q (by simp)).1]
    have hst := HvSweep.caches_step c.g j hj A hA d0 todo q p hsplit
    rw [hst, c.cg_tr' hpI hj (Rr.inv.good p hpA _ hj), c.cg_tr' (hA q hqA) hj (Rr.inv.good q hqA _ hj)]
    ring
  unfold bodyR
  by_cases hmark : ((j + 1 : ℕ) : ℤ) ≤ ign T p
  · -- marked: `reinsert_dom`, the area is copied
    rw [if_pos hmark]
    have hm1 : ((j + 1 : ℕ) : ℤ) ≤ ign S₁ p := by rw [← hmarkS]; exact hmark
    have hm2 : (2 : ℤ) ≤ ign S₁ p := by
      have : (2 : ℤ) ≤ ((j + 1 : ℕ) : ℤ) := by exact_mod_cast (by omega : 2 ≤ j + 1)
      linarith
    obtain ⟨w, hwA, hdom⟩ := Rr.inv.ig p hpA hm2
    have hmt : j + 1 ≤ (ign S₁ p).toNat := by
      have := Int.toNat_le_toNat hm1
      rwa [Int.toNat_natCast] at this
    set mt := (ign S₁ p).toNat with hmtdef
    have hwpos : pos O (j + 1) w < pos O (j + 1) p := hdom.2.2.2 (j + 1) (by omega) hmt
    have hwcur : w ∈ d0 ++ [q] := by
      have : w ∈ preSet O (j + 1) A p := (HvSweep.mem_preSet O (j + 1) A p w).mpr ⟨hwA, le_of_lt hwpos⟩
      have := (HvSweep.mem_preSet_of_split c.g hj A hA (d0 ++ [q]) todo p hsplit' w).mp this
      rcases List.mem_append.mp this with h | h
      · exact h
      · simp at h; exact absurd h hdom.1
    obtain ⟨hback, hT3s, hT3t, e_ign, e_bnd, e_dr, e_tree, e_calls, e_old, e_new⟩ :=
      reinsertDom_spec C p (j + 1) U T invU.shape I.inv.shape (by omega) I.inv.tsh hpn hnf hpe
    set T3 := reinsertDom C T p (j + 1) with hT3
    set T5 := setAr T3 p (j + 1) (ar T3 q (j + 1)) with hT5
    have hqp : q ≠ p := fun e => hpre_p (by simp [e])
    refine ⟨T5, rfl, ?_, ?_⟩
    · have hign6 : ∀ y, ign (setVl T5 p (j + 1) hvol1) y = ign T y := fun y => gB_ign_of_ignore e_ign y
      have hdr6 : ∀ y, dr (setVl T5 p (j + 1) hvol1) y = dr T y := fun y => gB_dr_of_domr e_dr y
      have hbd6 : ∀ i, (setVl T5 p (j + 1) hvol1).bound.getD i none = T.bound.getD i none := fun i => by
        show T3.bound.getD i none = _; rw [e_bnd]
      have har6 : ∀ a i, (a ≠ p ∨ i ≠ j + 1) → ar (setVl T5 p (j + 1) hvol1) a i = ar T3 a i := fun a i h =>
        gB_ar_setAr_ne T3 p (j + 1) a i _ h
      have hvl6 : ∀ a i, (a ≠ p ∨ i ≠ j + 1) → vl (setVl T5 p (j + 1) hvol1) a i = vl T3 a i := fun a i h =>
        gB_vl_setVl_ne T5 p (j + 1) a i _ h
      have hpdr : dr T p = cg C p 2 := I.inv.igd p (by rw [hmarkS]; exact hm2)
      exact
        { split := hsplit'
          ptr := hback
          inv :=
            { shape := hT3s
              tsh := gB_tsh_setVl (gB_tsh_setAr hT3t _ _ _) _ _ _
              nodup := invU.nodup
              sub := invU.sub
              good := invU.good
              lists := fun i h1 h2 => dlc_ptrEqC hback (invU.lists i h1 h2)
              cv := by
                refine cvc_insert_dom c (S := T) (K := j + 1) (m := mt) (by omega) (by omega) (d0 ++ [q]) (d0 ++ [q] ++ [p]) p w
                  hBiff hpre_p hcurI hpI (Rr.inv.good p hpA) hwcur hdom (fun i _ => hbd6 i) ?_ ?_ I.inv.cv
                · intro a i hap hi
                  rw [har6 a i (Or.inl hap), hvl6 a i (Or.inl hap)]
                  exact e_old a i (Or.inl hap)
                · intro i hi1 hi2
                  have hid : i < d := by omega
                  have hpLi : p ∈ RL O i (d0 ++ [q] ++ [p]) :=
                    (HvSweep.mem_RL O i _ p).mpr ⟨(c.g.mem hid p).mpr hpI, hpB⟩
                  obtain ⟨l₁, l₂, hL⟩ := List.append_of_mem hpLi
                  have hwl : w ∈ l₁ := by
                    have hwp : pos O i w < pos O i p := hdom.2.2.2 i hi1 (by omega)
                    have : w ∈ preSet O i (d0 ++ [q] ++ [p]) p :=
                      (HvSweep.mem_preSet O i _ p w).mpr ⟨List.mem_append_left _ hwcur, le_of_lt hwp⟩
                    have := (HvSweep.mem_preSet_of_split c.g hid _ invU.sub l₁ l₂ p hL w).mp this
                    rcases List.mem_append.mp this with h | h
                    · exact h
                    · simp at h; exact absurd h hdom.1
                  have hl1 : l₁ ≠ [] := List.ne_nil_of_mem hwl
                  obtain ⟨l₁', pr, rfl⟩ : ∃ l₁' pr, l₁ = l₁' ++ [pr] :=
                    ⟨l₁.dropLast, l₁.getLast hl1, (List.dropLast_append_getLast hl1).symm⟩
                  have hseg := (invU.lists i hi1 (by omega)).1
                  rw [hL] at hseg
                  have hpv : pv U i p = pr := by
                    have := (HvSweep.seg_node (toSw U) i (l₁' ++ [pr]) 0 p l₂ 0 hseg).1
                    simp only [pv_toSw] at this
                    rw [this]; simp
                  refine ⟨pr, l₁', l₂, by rw [hL]; simp, ?_, ?_⟩
                  · rw [har6 p i (Or.inr (by omega)), (e_new i hi1 hi2).1, hpv]
                  · rw [hvl6 p i (Or.inr (by omega)), (e_new i hi1 hi2).2, hpv]
              ig := by
                intro y hy hm
                rw [hign6 y] at hm ⊢
                rcases (hBiff y).mp hy with rfl | hyc
                · rw [hmarkS]
                  exact ⟨w, List.mem_append_left _ hwcur, hdom⟩
                · obtain ⟨b, hb, hd⟩ := I.inv.ig y hyc hm
                  exact ⟨b, List.mem_append_left _ hb, hd⟩
              igd := by
                intro y hm
                rw [hign6 y] at hm
                rw [hdr6 y]
                exact I.inv.igd y hm
              dm := dmc_insert_dom c (S := T) (m := mt) (by omega) (d0 ++ [q]) (d0 ++ [q] ++ [p]) p w hBiff hcurI hpI hwcur
                hdom hdr6 (hbd6 2) hpdr I.inv.dm
              tree := by show T3.tree = []; rw [e_tree]; exact I.inv.tree }
          absent := by
            intro y hy
            rw [hign6 y]
            exact I.absent y (by simp [hy])
          cache := by
            intro a ha
            rcases List.mem_append.mp ha with h | h
            · have hap : a ≠ p := fun e => hpre_p (e ▸ h)
              rw [har6 a (j + 1) (Or.inl hap), hvl6 a (j + 1) (Or.inl hap), (e_old a (j + 1) (Or.inl hap)).1,
                (e_old a (j + 1) (Or.inl hap)).2]
              exact I.cache a h
            · have hap : a = p := by simpa using h
              subst hap
              constructor
              · show ar T5 a (j + 1) = _
                rw [hT5, gB_ar_setAr_self hT3t.area hpn hj, (e_old q (j + 1) (Or.inl hqp)).1, (I.cache q (by simp)).1]
                exact (ARv_of_domC c j (by omega) hj A hA d0 todo q a hsplit w mt hwA hmt hdom).symm
              · rw [gB_vl_setVl_self (gB_tsh_setAr hT3t _ _ _).vol hpn hj, hvol1_eq]
          hvol := hvol1_eq
          f_ign := by
            intro y hyA
            rw [hign6 y]; exact I.f_ign y hyA
          f_dr := by
            intro y hyA
            rw [hdr6 y]; exact I.f_dr y hyA
          f_hi := by
            intro a i hi
            rw [har6 a i (Or.inr (by omega)), hvl6 a i (Or.inr (by omega)),
              (e_old a i (Or.inr (Or.inr (by omega)))).1, (e_old a i (Or.inr (Or.inr (by omega)))).2]
            exact I.f_hi a i hi
          f_bhi := by
            intro i hi
            rw [hbd6 i]; exact I.f_bhi i hi }
    · show nx T3 (j + 1) p = _
      rw [(hback (j + 1) p).1]; exact hnxU
  · -- unmarked: `reinsert`, the level below computes the area
    rw [if_neg hmark]
    have hp0m : ign T p = 0 := by
      rcases Rr.zero_or_big p hpA with h0 | hbig
      · rw [hmarkS]; exact h0
      · rw [← hmarkS] at hbig; exact absurd hbig hmark
    obtain ⟨hback, hT3s, e_ign, e_ar, e_vl, e_dr, e_tree, e_calls, e_blen, e_bge, e_blt⟩ :=
      reinsert_spec C p (j + 1) U T invU.shape I.inv.shape (by omega) hnf hpe
    set T3 := reinsert C T p (j + 1) with hT3
    have hign3 : ∀ y, ign T3 y = ign T y := fun y => gB_ign_of_ignore e_ign y
    have hdr3 : ∀ y, dr T3 y = dr T y := fun y => gB_dr_of_domr e_dr y
    have inv3 : InvC C R d n O T3 j (d0 ++ [q] ++ [p]) :=
      { shape := hT3s
        tsh := gB_tsh_of_fields I.inv.tsh e_ar e_vl (by rw [e_ign]; exact I.inv.tsh.ign) e_dr
          (by rw [e_blen]; exact I.inv.tsh.bound)
        nodup := invU.nodup
        sub := invU.sub
        good := invU.good
        lists := fun i h1 h2 => dlc_ptrEqC hback (invU.lists i h1 h2)
        cv := cvc_reinsert c (S := T) (le_refl _) (by omega) (fun a i => gB_ar_of_area e_ar a i)
          (fun a i => gB_vl_of_vol e_vl a i) e_blt hpI hcurI invU.sub hAB I.inv.cv
        ig := by
          intro y hy hm
          rw [hign3 y] at hm ⊢
          rcases (hBiff y).mp hy with rfl | hyc
          · rw [hp0m] at hm; omega
          · obtain ⟨b, hb, hd⟩ := I.inv.ig y hyc hm
            exact ⟨b, List.mem_append_left _ hb, hd⟩
        igd := by
          intro y hm
          rw [hign3 y] at hm
          rw [hdr3 y]
          exact I.inv.igd y hm
        dm := dmc_reinsert (S := T) hdr3 (e_blt 2 (le_refl _) (by omega)) hAB I.inv.dm
        tree := by rw [e_tree]; exact I.inv.tree }
    obtain ⟨a, T1, hrun, hpe5, inv5, har5, fign5, fdr5, far5, fvl5, fb5⟩ :=
      area_rec_ok c j hj2 hj F hrec A hA d0 q p todo hsplit T3 inv3
    rw [hrun]
    set T5 := promo T1 p (j + 1) a with hT5
    refine ⟨T5, rfl, ?_, ?_⟩
    · exact
        { split := hsplit'
          ptr := hback.trans hpe5
          inv := invC_setVl_hi inv5 p (j + 1) hvol1 (by omega)
          absent := by
            intro y hy
            have hyB : y ∉ d0 ++ [q] ++ [p] := fun h => ((hBmem y).mp h).2 (List.mem_reverse.mpr hy)
            show ign T5 y = _
            rw [fign5 y hyB, hign3 y]
            exact I.absent y (by simp [hy])
          cache := by
            intro a' ha
            rcases List.mem_append.mp ha with h | h
            · have hap : a' ≠ p := fun e => hpre_p (e ▸ h)
              have e1 : ar (setVl T5 p (j + 1) hvol1) a' (j + 1) = ar T a' (j + 1) :=
                (far5 a' (j + 1) (by omega) (Or.inl hap)).trans (gB_ar_of_area e_ar a' (j + 1))
              have e2 : vl (setVl T5 p (j + 1) hvol1) a' (j + 1) = vl T a' (j + 1) :=
                (gB_vl_setVl_ne T5 p (j + 1) a' (j + 1) _ (Or.inl hap)).trans
                  ((fvl5 a' (j + 1) (by omega)).trans (gB_vl_of_vol e_vl a' (j + 1)))
              rw [e1, e2]; exact I.cache a' h
            · have hap : a' = p := by simpa using h
              subst hap
              refine ⟨har5, ?_⟩
              rw [gB_vl_setVl_self inv5.tsh.vol hpn hj, hvol1_eq]
          hvol := hvol1_eq
          f_ign := by
            intro y hyA
            have hyB : y ∉ d0 ++ [q] ++ [p] := fun h => hyA ((hBmem y).mp h).1
            show ign T5 y = _
            rw [fign5 y hyB, hign3 y]; exact I.f_ign y hyA
          f_dr := by
            intro y hyA
            have hyB : y ∉ d0 ++ [q] ++ [p] := fun h => hyA ((hBmem y).mp h).1
            show dr T5 y = _
            rw [fdr5 y hyB, hdr3 y]; exact I.f_dr y hyA
          f_hi := by
            intro a' i hi
            have e1 : ar (setVl T5 p (j + 1) hvol1) a' i = ar T a' i :=
              (far5 a' i (by omega) (Or.inr (by omega))).trans (gB_ar_of_area e_ar a' i)
            have e2 : vl (setVl T5 p (j + 1) hvol1) a' i = vl T a' i :=
              (gB_vl_setVl_ne T5 p (j + 1) a' i _ (Or.inr (by omega))).trans
                ((fvl5 a' i (by omega)).trans (gB_vl_of_vol e_vl a' i))
            rw [e1, e2]; exact I.f_hi a' i hi
          f_bhi := by
            intro i hi
            show T5.bound.getD i none = _
            rw [fb5 i (by omega), e_bge i (Or.inr hi)]
            exact I.f_bhi i hi }
    · rw [(hpe5 (j + 1) p).1, (hback (j + 1) p).1]; exact hnxU

end ctx

end HvC
