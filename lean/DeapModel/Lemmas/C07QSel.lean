/-
C07 — correctness of the quick-select of `selSPEA2` (`_randomizedSelect`, emo.py:827-862): on every
pivot tape on which it answers, the answer is the order statistic of the sub-array — the entry at
position `⌊i⌋` of the sorted sub-array `a[begin..end]`.

Ingredients: the two scans skip only entries strictly on the wrong side of the pivot; the Hoare
partition touches nothing outside `[begin, end]` and leaves `a[begin..q] ≤ pivot ≤ a[q+1..end]`;
sorting a concatenation whose left part is below its right part is concatenating the sorted parts.
-/
import DeapModel.Lemmas.C07Select
import Mathlib.Algebra.Order.Ring.Defs
import Mathlib.Algebra.Order.Ring.Nat
import Mathlib.Data.Nat.Cast.Order.Ring
import Mathlib.Data.List.Sort

set_option linter.unusedSectionVars false
set_option linter.unusedVariables false

namespace C07L
open Spea2

section QSel
variable {α : Type} [LinearOrder α]

/-! ### what the scans skip -/

theorem scanDown_some (a : List α) (x : α) : ∀ (j j' : Nat), scanDown a x j = some j' →
    j' < j ∧ (∃ v, a[j']? = some v ∧ ¬ x < v) ∧
    ∀ p, j' < p → p < j → ∃ v, a[p]? = some v ∧ x < v := by
  intro j
  induction j with
  | zero => intro j' h; simp [scanDown] at h
  | succ j ih =>
    intro j' h
    rw [scanDown] at h
    split at h
    · exact absurd h (by simp)
    · rename_i v hv
      by_cases hlt : x < v
      · simp only [hlt, if_true] at h
        obtain ⟨h1, h2, h3⟩ := ih j' h
        refine ⟨by omega, h2, ?_⟩
        intro p hp1 hp2
        by_cases hpj : p = j
        · subst hpj; exact ⟨v, hv, hlt⟩
        · exact h3 p hp1 (by omega)
      · simp only [hlt, if_false, Option.some.injEq] at h
        subst h
        exact ⟨by omega, ⟨v, hv, hlt⟩, fun p h1 h2 => by omega⟩

theorem scanUp_some (a : List α) (x : α) : ∀ (fuel i i' : Nat), scanUp a x fuel i = some i' →
    i ≤ i' ∧ (∃ v, a[i']? = some v ∧ ¬ v < x) ∧
    ∀ p, i ≤ p → p < i' → ∃ v, a[p]? = some v ∧ v < x := by
  intro fuel
  induction fuel with
  | zero => intro i i' h; simp [scanUp] at h
  | succ fuel ih =>
    intro i i' h
    rw [scanUp] at h
    split at h
    · exact absurd h (by simp)
    · rename_i v hv
      by_cases hlt : v < x
      · simp only [hlt, if_true] at h
        obtain ⟨h1, h2, h3⟩ := ih (i + 1) i' h
        refine ⟨by omega, h2, ?_⟩
        intro p hp1 hp2
        by_cases hpi : p = i
        · subst hpi; exact ⟨v, hv, hlt⟩
        · exact h3 p (by omega) hp2
      · simp only [hlt, if_false, Option.some.injEq] at h
        subst h
        exact ⟨Nat.le_refl _, ⟨v, hv, hlt⟩, fun p h1 h2 => by omega⟩

/-! ### reading a swapped array -/

theorem getElem?_swap (a : List α) (i j p : Nat) (vi vj : α) (hi : i < a.length) (hj : j < a.length)
    (hij : i ≠ j) :
    ((a.set i vj).set j vi)[p]? = if p = j then some vi else if p = i then some vj else a[p]? := by
  rw [List.getElem?_set]
  by_cases hpj : p = j
  · subst hpj; simp [hj]
  · rw [if_neg (fun h => hpj h.symm), if_neg hpj, List.getElem?_set]
    by_cases hpi : p = i
    · subst hpi; simp [hi]
    · rw [if_neg (fun h => hpi h.symm), if_neg hpi]

/-! ### the Hoare partition: frame and order -/

/-- nothing outside `[b, e]` is touched -/
theorem partitionLoop_frame (x : α) (b e : Nat) :
    ∀ (fuel : Nat) (a : List α) (i1 j : Nat) (a' : List α) (q : Nat),
      partitionLoop x fuel a i1 j = some (a', q) → b ≤ i1 → j ≤ e + 1 →
      a'.take b = a.take b ∧ a'.drop (e + 1) = a.drop (e + 1) := by
  intro fuel
  induction fuel with
  | zero => intro a i1 j a' q h; simp [partitionLoop] at h
  | succ fuel ih =>
    intro a i1 j a' q h hb he
    rw [partitionLoop] at h
    split at h
    · exact absurd h (by simp)
    · rename_i j' hD
      split at h
      · exact absurd h (by simp)
      · rename_i i' hU
        obtain ⟨hj', _, _⟩ := scanDown_some a x j j' hD
        obtain ⟨hi', _, _⟩ := scanUp_some a x _ i1 i' hU
        split at h
        · rename_i hlt
          split at h
          · rename_i vi vj hvi hvj
            obtain ⟨h1, h2⟩ := ih _ _ _ _ _ h (by omega) (by omega)
            refine ⟨?_, ?_⟩
            · rw [h1, List.take_set_of_le (by omega), List.take_set_of_le (by omega)]
            · rw [h2, List.drop_set_of_lt (by omega), List.drop_set_of_lt (by omega)]
          · exact absurd h (by simp)
        · simp only [Option.some.injEq, Prod.mk.injEq] at h
          rw [← h.1]; exact ⟨rfl, rfl⟩

/-- the loop invariant "left of `i1` is `≤ x`, from `j` on is `≥ x`" yields the split -/
theorem partitionLoop_ord (x : α) (b e : Nat) :
    ∀ (fuel : Nat) (a : List α) (i1 j : Nat) (a' : List α) (q : Nat),
      partitionLoop x fuel a i1 j = some (a', q) →
      (∀ p, b ≤ p → p < i1 → ∀ v, a[p]? = some v → ¬ x < v) →
      (∀ p, j ≤ p → p ≤ e → ∀ v, a[p]? = some v → ¬ v < x) →
      (∀ p, b ≤ p → p ≤ q → ∀ v, a'[p]? = some v → ¬ x < v) ∧
      (∀ p, q < p → p ≤ e → ∀ v, a'[p]? = some v → ¬ v < x) := by
  intro fuel
  induction fuel with
  | zero => intro a i1 j a' q h; simp [partitionLoop] at h
  | succ fuel ih =>
    intro a i1 j a' q h hlo hhi
    rw [partitionLoop] at h
    split at h
    · exact absurd h (by simp)
    · rename_i j' hD
      split at h
      · exact absurd h (by simp)
      · rename_i i' hU
        obtain ⟨hj', ⟨vj0, hvj0, hvj0x⟩, hskipD⟩ := scanDown_some a x j j' hD
        obtain ⟨hi', ⟨vi0, hvi0, hvi0x⟩, hskipU⟩ := scanUp_some a x _ i1 i' hU
        split at h
        · rename_i hlt
          split at h
          · rename_i vi vj hvi hvj
            have hil : i' < a.length := (List.getElem?_eq_some_iff.mp hvi).1
            have hjl : j' < a.length := (List.getElem?_eq_some_iff.mp hvj).1
            have evi : vi = vi0 := by rw [hvi] at hvi0; exact Option.some.inj hvi0
            have evj : vj = vj0 := by rw [hvj] at hvj0; exact Option.some.inj hvj0
            refine ih _ _ _ _ _ h ?_ ?_
            · intro p hp1 hp2 v hv
              rw [getElem?_swap a i' j' p vi vj hil hjl (by omega), if_neg (by omega)] at hv
              by_cases hpi : p = i'
              · rw [if_pos hpi] at hv
                rw [← Option.some.inj hv, evj]; exact hvj0x
              · rw [if_neg hpi] at hv
                by_cases hp3 : p < i1
                · exact hlo p hp1 hp3 v hv
                · obtain ⟨v', hv', hlt'⟩ := hskipU p (by omega) (by omega)
                  rw [hv] at hv'; rw [Option.some.inj hv']
                  exact lt_asymm hlt'
            · intro p hp1 hp2 v hv
              rw [getElem?_swap a i' j' p vi vj hil hjl (by omega)] at hv
              by_cases hpj : p = j'
              · rw [if_pos hpj] at hv
                rw [← Option.some.inj hv, evi]; exact hvi0x
              · rw [if_neg hpj, if_neg (by omega)] at hv
                by_cases hp3 : p < j
                · obtain ⟨v', hv', hlt'⟩ := hskipD p (by omega) hp3
                  rw [hv] at hv'; rw [Option.some.inj hv']
                  exact lt_asymm hlt'
                · exact hhi p (by omega) hp2 v hv
          · exact absurd h (by simp)
        · rename_i hnlt
          simp only [Option.some.injEq, Prod.mk.injEq] at h
          obtain ⟨rfl, rfl⟩ := h
          refine ⟨?_, ?_⟩
          · intro p hp1 hp2 v hv
            by_cases hp3 : p < i1
            · exact hlo p hp1 hp3 v hv
            · by_cases hp4 : p < i'
              · obtain ⟨v', hv', hlt'⟩ := hskipU p (by omega) hp4
                rw [hv] at hv'; rw [Option.some.inj hv']
                exact lt_asymm hlt'
              · have : p = j' := by omega
                subst this
                rw [hv] at hvj0; rw [Option.some.inj hvj0]; exact hvj0x
          · intro p hp1 hp2 v hv
            by_cases hp3 : p < j
            · obtain ⟨v', hv', hlt'⟩ := hskipD p hp1 hp3
              rw [hv] at hv'; rw [Option.some.inj hv']
              exact lt_asymm hlt'
            · exact hhi p (by omega) hp2 v hv

/-- the randomized Hoare partition of `a[b..e]`: split point in `[b, e)`, a permutation that touches
nothing outside `[b, e]`, and a pivot value `x` with `a'[b..q] ≤ x ≤ a'[q+1..e]`. -/
theorem randomizedPartition_ord (a : List α) (b e d : Nat) (a' : List α) (q : Nat)
    (h : randomizedPartition a b e d = some (a', q)) (hbe : b < e) (he : e < a.length) :
    a'.length = a.length ∧ b ≤ q ∧ q < e ∧ a'.Perm a ∧
    a'.take b = a.take b ∧ a'.drop (e + 1) = a.drop (e + 1) ∧
    ∃ x, (∀ p, b ≤ p → p ≤ q → ∀ v, a'[p]? = some v → v ≤ x) ∧
         (∀ p, q < p → p ≤ e → ∀ v, a'[p]? = some v → x ≤ v) := by
  obtain ⟨a2, q2, h2, hlen, hbq, hqe, hperm⟩ := randomizedPartition_spec a b e d hbe he
  rw [h] at h2
  simp only [Option.some.injEq, Prod.mk.injEq] at h2
  obtain ⟨rfl, rfl⟩ := h2
  refine ⟨hlen, hbq, hqe, hperm, ?_⟩
  have hmod : d % (e - b + 1) < e - b + 1 := Nat.mod_lt _ (by omega)
  rw [randomizedPartition] at h
  split at h
  · rename_i vb vr hvb hvr
    rw [partition] at h
    split at h
    · exact absurd h (by simp)
    · rename_i x hx
      obtain ⟨f1, f2⟩ := partitionLoop_frame x b e _ _ _ _ _ _ h (Nat.le_refl _) (Nat.le_refl _)
      obtain ⟨o1, o2⟩ := partitionLoop_ord x b e _ _ _ _ _ _ h
        (fun p h1 h2 => by omega) (fun p h1 h2 => by omega)
      refine ⟨?_, ?_, x, ?_, ?_⟩
      · rw [f1, List.take_set_of_le (by omega), List.take_set_of_le (Nat.le_refl _)]
      · rw [f2, List.drop_set_of_lt (by omega), List.drop_set_of_lt (by omega)]
      · intro p h1 h2 v hv; exact not_lt.1 (o1 p h1 h2 v hv)
      · intro p h1 h2 v hv; exact not_lt.1 (o2 p h1 h2 v hv)
  · exact absurd h (by simp)

/-! ### sub-arrays and their sorted form -/

/-- the entries `a[b..e]` (both ends included) -/
def seg (a : List α) (b e : Nat) : List α := (a.drop b).take (e + 1 - b)

/-- `sorted(l)` -/
def sortL (l : List α) : List α := l.mergeSort (fun x y => decide (x ≤ y))

theorem sortL_perm (l : List α) : (sortL l).Perm l := List.mergeSort_perm _ _

theorem sortL_pairwise (l : List α) : (sortL l).Pairwise (· ≤ ·) := by
  have := List.pairwise_mergeSort (le := fun a b : α => decide (a ≤ b))
    (by intro a b c; simp only [decide_eq_true_eq]; exact le_trans)
    (by intro a b; simp only [Bool.or_eq_true, decide_eq_true_eq]; exact le_total a b) l
  simpa [sortL] using this

theorem eq_of_perm_sorted {l₁ l₂ : List α} (hp : l₁.Perm l₂) (h1 : l₁.Pairwise (· ≤ ·))
    (h2 : l₂.Pairwise (· ≤ ·)) : l₁ = l₂ :=
  List.Perm.eq_of_pairwise (fun a b _ _ hab hba => le_antisymm hab hba) h1 h2 hp

/-- the sorted form is a function of the multiset: it does not depend on the order of the entries -/
theorem sortL_eq_of_perm {l l' : List α} (h : l.Perm l') : sortL l = sortL l' :=
  eq_of_perm_sorted (((sortL_perm l).trans h).trans (sortL_perm l').symm) (sortL_pairwise l)
    (sortL_pairwise l')

theorem sortL_append (l₁ l₂ : List α) (h : ∀ u ∈ l₁, ∀ v ∈ l₂, u ≤ v) :
    sortL (l₁ ++ l₂) = sortL l₁ ++ sortL l₂ := by
  apply eq_of_perm_sorted
  · exact (sortL_perm _).trans ((sortL_perm l₁).symm.append (sortL_perm l₂).symm)
  · exact sortL_pairwise _
  · rw [List.pairwise_append]
    refine ⟨sortL_pairwise _, sortL_pairwise _, ?_⟩
    intro u hu v hv
    exact h u ((sortL_perm l₁).subset hu) v ((sortL_perm l₂).subset hv)

theorem length_sortL (l : List α) : (sortL l).length = l.length := (sortL_perm l).length_eq

theorem length_seg (a : List α) (b e : Nat) (he : e < a.length) : (seg a b e).length = e + 1 - b := by
  simp only [seg, List.length_take, List.length_drop]; omega

theorem seg_split (a : List α) (b q e : Nat) (hbq : b ≤ q) (hqe : q ≤ e) :
    seg a b e = seg a b q ++ seg a (q + 1) e := by
  unfold seg
  have e1 : e + 1 - b = (q + 1 - b) + (e + 1 - (q + 1)) := by omega
  rw [e1, List.take_add, List.drop_drop]
  have e2 : b + (q + 1 - b) = q + 1 := by omega
  rw [e2]

theorem mem_seg (a : List α) (b e : Nat) (v : α) (h : v ∈ seg a b e) :
    ∃ p, b ≤ p ∧ p ≤ e ∧ a[p]? = some v := by
  obtain ⟨t, ht⟩ := List.mem_iff_getElem?.1 h
  unfold seg at ht
  rw [List.getElem?_take] at ht
  split at ht
  · rw [List.getElem?_drop] at ht
    exact ⟨b + t, by omega, by omega, ht⟩
  · exact absurd ht (by simp)

theorem split3 (a : List α) (b e : Nat) (hbe : b ≤ e + 1) :
    a = a.take b ++ (seg a b e ++ a.drop (e + 1)) := by
  have h1 : seg a b e ++ a.drop (e + 1) = a.drop b := by
    unfold seg
    have : a.drop (e + 1) = (a.drop b).drop (e + 1 - b) := by
      rw [List.drop_drop]; congr 1; omega
    rw [this, List.take_append_drop]
  rw [h1, List.take_append_drop]

/-- a permutation that leaves everything outside `[b, e]` in place permutes `a[b..e]` -/
theorem seg_perm_of_frame (a a' : List α) (b e : Nat) (hbe : b ≤ e + 1) (hp : a'.Perm a)
    (h1 : a'.take b = a.take b) (h2 : a'.drop (e + 1) = a.drop (e + 1)) :
    (seg a' b e).Perm (seg a b e) := by
  have ea := split3 a b e hbe
  have ea' := split3 a' b e hbe
  rw [ea, ea', h1, h2] at hp
  exact (List.perm_append_right_iff _).1 ((List.perm_append_left_iff _).1 hp)

theorem seg_single (a : List α) (b : Nat) (v : α) (h : a[b]? = some v) : seg a b b = [v] := by
  unfold seg
  have hb : b < a.length := (List.getElem?_eq_some_iff.mp h).1
  have e1 : b + 1 - b = 1 := by omega
  rw [e1]
  apply List.ext_getElem?
  intro t
  rw [List.getElem?_take]
  by_cases ht : t < 1
  · have : t = 0 := by omega
    subst this
    simp [List.getElem?_drop, h]
  · rw [if_neg ht]
    have : 1 ≤ t := by omega
    simp [List.getElem?_eq_none_iff.2 (show ([v] : List α).length ≤ t by simpa using this)]

end QSel

/-! ### the selection returns the order statistic -/

section Correct
variable {β : Type} [Ring β] [LinearOrder β] [IsStrictOrderedRing β]

/-- `_randomizedSelect(array, begin, end, i)` with `r ≤ i < r + 1` (`r = ⌊i⌋ ≤ end - begin`): whenever
it answers — on any pivot tape — the answer is entry `r` of the sorted sub-array. -/
theorem randomizedSelect_correct_aux :
    ∀ (fuel : Nat) (a : List β) (b e : Nat) (i : β) (r : Nat) (tape : List Nat) (v : β),
      b ≤ e → e < a.length → r ≤ e - b → (r : β) ≤ i → i < (r : β) + 1 →
      randomizedSelect (fun n => (n : β)) fuel a b e i tape = some v →
      (sortL (seg a b e))[r]? = some v := by
  intro fuel
  induction fuel with
  | zero => intro a b e i r tape v _ _ _ _ _ h; simp [randomizedSelect] at h
  | succ fuel ih =>
    intro a b e i r tape v hbe he hr hi1 hi2 h
    unfold randomizedSelect at h
    split at h
    · rename_i hEq
      subst hEq
      have : r = 0 := by omega
      subst this
      rw [seg_single a b v h]
      simp [sortL]
    · rename_i hne
      split at h
      · exact absurd h (by simp)
      · rename_i d tape'
        split at h
        · exact absurd h (by simp)
        · rename_i a' q hrp
          obtain ⟨hlen, hbq, hqe, hperm, hf1, hf2, x, hlo, hhi⟩ :=
            randomizedPartition_ord a b e d a' q hrp (by omega) he
          have hsegp : (seg a' b e).Perm (seg a b e) :=
            seg_perm_of_frame a a' b e (by omega) hperm hf1 hf2
          have hsplit : sortL (seg a b e) = sortL (seg a' b q) ++ sortL (seg a' (q + 1) e) := by
            rw [← sortL_eq_of_perm hsegp, seg_split a' b q e hbq (by omega)]
            apply sortL_append
            intro u hu w hw
            obtain ⟨p, hp1, hp2, hpu⟩ := mem_seg a' b q u hu
            obtain ⟨p', hp1', hp2', hpw⟩ := mem_seg a' (q + 1) e w hw
            exact le_trans (hlo p hp1 hp2 u hpu) (hhi p' (by omega) hp2' w hpw)
          have hl1 : (sortL (seg a' b q)).length = q - b + 1 := by
            rw [length_sortL, length_seg a' b q (by omega)]; omega
          simp only at h
          split at h
          · rename_i hik
            -- i < k, hence r < k
            have hrk : r < q - b + 1 := by
              have : (r : β) < ((q - b + 1 : Nat) : β) := lt_of_le_of_lt hi1 hik
              exact Nat.cast_lt.1 this
            have := ih a' b q i r tape' v hbq (by omega) (by omega) hi1 hi2 h
            rw [hsplit, List.getElem?_append_left (by omega)]
            exact this
          · rename_i hik
            -- k ≤ i < r + 1, hence k ≤ r
            have hkr : q - b + 1 ≤ r := by
              have h1 : ((q - b + 1 : Nat) : β) ≤ i := not_lt.1 hik
              have h2 : ((q - b + 1 : Nat) : β) < ((r + 1 : Nat) : β) := by
                rw [Nat.cast_add r 1, Nat.cast_one]; exact lt_of_le_of_lt h1 hi2
              have := Nat.cast_lt.1 h2
              omega
            have hcast : ((r - (q - b + 1) : Nat) : β) = (r : β) - ((q - b + 1 : Nat) : β) :=
              Nat.cast_sub hkr
            have := ih a' (q + 1) e (i - ((q - b + 1 : Nat) : β)) (r - (q - b + 1)) tape' v (by omega)
              (by omega) (by omega) (by rw [hcast]; exact sub_le_sub_right hi1 _)
              (by rw [hcast]
                  have := sub_lt_sub_right hi2 ((q - b + 1 : Nat) : β)
                  rwa [add_sub_right_comm] at this) h
            rw [hsplit, List.getElem?_append_right (by omega), hl1]
            exact this

end Correct

/-! ### the threaded variant has the same value -/

section Threaded
variable {α : Type} [LT α] [DecidableLT α] [Sub α]

theorem randomizedSelectT_fst (ofNat : Nat → α) :
    ∀ (fuel : Nat) (a : List α) (b e : Nat) (i : α) (tape : List Nat),
      (randomizedSelectT ofNat fuel a b e i tape).map Prod.fst = randomizedSelect ofNat fuel a b e i tape := by
  intro fuel
  induction fuel with
  | zero => intro a b e i tape; rfl
  | succ fuel ih =>
    intro a b e i tape
    unfold randomizedSelectT randomizedSelect
    split
    · cases a[b]? <;> rfl
    · cases tape with
      | nil => rfl
      | cons r tape' =>
        simp only
        cases randomizedPartition a b e r with
        | none => rfl
        | some p =>
          obtain ⟨a', q⟩ := p
          simp only
          split
          · exact ih _ _ _ _ _
          · exact ih _ _ _ _ _

/-- the rest of the tape is a suffix: the call consumed the draws in front of it -/
theorem randomizedSelectT_suffix (ofNat : Nat → α) :
    ∀ (fuel : Nat) (a : List α) (b e : Nat) (i : α) (tape : List Nat) (v : α) (rest : List Nat),
      randomizedSelectT ofNat fuel a b e i tape = some (v, rest) → rest.IsSuffix tape := by
  intro fuel
  induction fuel with
  | zero => intro a b e i tape v rest h; simp [randomizedSelectT] at h
  | succ fuel ih =>
    intro a b e i tape v rest h
    unfold randomizedSelectT at h
    split at h
    · cases hab : a[b]? with
      | none => rw [hab] at h; simp at h
      | some x =>
        rw [hab] at h
        simp only [Option.map_some, Option.some.injEq, Prod.mk.injEq] at h
        rw [← h.2]; exact List.suffix_refl _
    · split at h
      · exact absurd h (by simp)
      · rename_i r tape'
        split at h
        · exact absurd h (by simp)
        · simp only at h
          split at h
          · exact (ih _ _ _ _ _ _ _ h).trans (List.suffix_cons _ _)
          · exact (ih _ _ _ _ _ _ _ h).trans (List.suffix_cons _ _)

end Threaded

end C07L
