import DeapModel.Lemmas.C15HvCReB2
/-!
C15 — the 3-D base case of `_hv.c` re-entered, Case 3 (some nodes below `bound[2]`, some at or above): the static
facts.  The list of dimension 2 splits at the bound into `P ++ Q`; the nodes `M = {a ∈ P | bound ≤ domr a}` (those that
are reconnected) are pairwise incomparable in the first two coordinates, cover `P`, and carry no mark `≥ 2`.
-/
namespace HvC
set_option linter.unusedVariables false
open Hypervolume
open HvSweep (GCtx Hj RL preSet pos ARv VOLv ids Shaped)

theorem split_at_bound (C : Cargo) (b : ℚ) : ∀ (L : List ℕ), L.Pairwise (fun a c => cg C a 2 ≤ cg C c 2) →
    ∃ P Q, L = P ++ Q ∧ (∀ a ∈ P, cg C a 2 < b) ∧ (∀ a ∈ Q, b ≤ cg C a 2)
  | [], _ => ⟨[], [], rfl, by simp, by simp⟩
  | x :: L, hs => by
    have hs' := List.pairwise_cons.mp hs
    by_cases hx : cg C x 2 < b
    · obtain ⟨P, Q, hL, hP, hQ⟩ := split_at_bound C b L hs'.2
      refine ⟨x :: P, Q, by rw [hL]; rfl, ?_, hQ⟩
      intro a ha
      rcases List.mem_cons.mp ha with rfl | ha
      · exact hx
      · exact hP a ha
    · refine ⟨[], x :: L, rfl, by simp, ?_⟩
      intro a ha
      rcases List.mem_cons.mp ha with rfl | ha
      · exact not_lt.mp hx
      · exact le_trans (not_lt.mp hx) (hs'.1 a ha)

/-- a minimal element below `x` in a finite list, for a strict partial order -/
theorem exists_min_below {α : Type} (r : α → α → Prop) (htr : ∀ a b c, r a b → r b c → r a c) (hirr : ∀ a, ¬ r a a) :
    ∀ (l : List α) (x : α), (∃ s ∈ l, r s x) → ∃ t ∈ l, r t x ∧ ∀ s ∈ l, ¬ r s t
  | [], x, h => by obtain ⟨s, hs, _⟩ := h; exact absurd hs (List.not_mem_nil)
  | y :: l, x, h => by
    by_cases hy : r y x
    · by_cases h2 : ∃ s ∈ l, r s y
      · obtain ⟨t, ht, hty, hmin⟩ := exists_min_below r htr hirr l y h2
        refine ⟨t, List.mem_cons_of_mem _ ht, htr _ _ _ hty hy, ?_⟩
        intro s hs
        rcases List.mem_cons.mp hs with rfl | hs
        · intro hst; exact hirr _ (htr _ _ _ hst hty)
        · exact hmin s hs
      · refine ⟨y, by simp, hy, ?_⟩
        intro s hs
        rcases List.mem_cons.mp hs with rfl | hs
        · exact hirr _
        · intro hsy; exact h2 ⟨s, hs, hsy⟩
    · have h1 : ∃ s ∈ l, r s x := by
        obtain ⟨s, hs, hsx⟩ := h
        rcases List.mem_cons.mp hs with rfl | hs
        · exact absurd hsx hy
        · exact ⟨s, hs, hsx⟩
      obtain ⟨t, ht, htx, hmin⟩ := exists_min_below r htr hirr l x h1
      refine ⟨t, List.mem_cons_of_mem _ ht, htx, ?_⟩
      intro s hs
      rcases List.mem_cons.mp hs with rfl | hs
      · intro hst; exact hy (htr _ _ _ hst htx)
      · exact hmin s hs

theorem beats_irrefl (C : Cargo) (O : ℕ → List ℕ) (a : ℕ) : ¬ Beats C O a a := fun h => h.1 rfl

theorem beats_trans (C : Cargo) (O : ℕ → List ℕ) (s q a : ℕ) (h1 : Beats C O s q) (h2 : Beats C O q a) : Beats C O s a := by
  obtain ⟨n1, x1, y1, p1⟩ := h1
  obtain ⟨n2, x2, y2, p2⟩ := h2
  have key : item C s = item C a → pos O 2 s < pos O 2 a := by
    intro e
    have ex : cg C s 0 = cg C a 0 := congrArg Prod.fst e
    have ey : cg C s 1 = cg C a 1 := congrArg Prod.snd e
    have e1 : item C s = item C q := by
      show (cg C s 0, cg C s 1) = (cg C q 0, cg C q 1)
      rw [le_antisymm x1 (by rw [ex]; exact x2), le_antisymm y1 (by rw [ey]; exact y2)]
    have e2 : item C q = item C a := e1.symm.trans e
    exact lt_trans (p1 e1) (p2 e2)
  refine ⟨?_, le_trans x1 x2, le_trans y1 y2, key⟩
  intro e
  subst e
  have := key rfl
  omega

/-- the static picture of Case 3 -/
structure C3 (C : Cargo) (R : List ℚ) (d n : ℕ) (O : ℕ → List ℕ) (S : St) (A : List ℕ) (b : ℚ) (P Q : List ℕ) : Prop where
  hb : S.bound.getD 2 none = some b
  split : RL O 2 A = P ++ Q
  pne : P ≠ []
  qne : Q ≠ []
  plt : ∀ a ∈ P, cg C a 2 < b
  qge : ∀ a ∈ Q, b ≤ cg C a 2

section c3
variable {C : Cargo} {R : List ℚ} {d n : ℕ} {O : ℕ → List ℕ} {S : St} {A : List ℕ} {b : ℚ} {P Q : List ℕ}

theorem C3.pA (h : C3 C R d n O S A b P Q) (l2 : L2 C R d n O S A) {a : ℕ} (ha : a ∈ P) : a ∈ A :=
  (l2.mem a).mp (by rw [h.split]; exact List.mem_append_left _ ha)

theorem C3.qA (h : C3 C R d n O S A b P Q) (l2 : L2 C R d n O S A) {a : ℕ} (ha : a ∈ Q) : a ∈ A :=
  (l2.mem a).mp (by rw [h.split]; exact List.mem_append_right _ ha)

/-- a node of `A` below the bound is in `P` -/
theorem C3.inP (h : C3 C R d n O S A b P Q) (l2 : L2 C R d n O S A) {a : ℕ} (ha : a ∈ A) (hlt : cg C a 2 < b) : a ∈ P := by
  have := (l2.mem a).mpr ha
  rw [h.split] at this
  rcases List.mem_append.mp this with h1 | h1
  · exact h1
  · exact absurd hlt (not_lt.mpr (h.qge a h1))

/-- (i) the reconnected nodes are pairwise incomparable in the first two coordinates -/
theorem C3.incomp (h : C3 C R d n O S A b P Q) (c : CCtx C R d n O) (inv : InvC C R d n O S 2 A)
    {q a : ℕ} (hq : q ∈ P) (ha : a ∈ P) (hdq : b ≤ dr S q) (hda : b ≤ dr S a) (hne : q ≠ a) :
    ¬ ((item C q).1 ≤ (item C a).1 ∧ (item C q).2 ≤ (item C a).2) := by
  have l2 := l2_of_inv c inv
  have hqA := h.pA l2 hq
  have haA := h.pA l2 ha
  intro hle
  have hbeat : Beats C O q a ∨ Beats C O a q := by
    by_cases he : item C q = item C a
    · have hqO : q ∈ O 2 := (c.g.mem l2.hd q).mpr (inv.sub q hqA)
      have haO : a ∈ O 2 := (c.g.mem l2.hd a).mpr (inv.sub a haA)
      rcases Nat.lt_trichotomy (pos O 2 q) (pos O 2 a) with h1 | h1 | h1
      · exact Or.inl ⟨hne, hle.1, hle.2, fun _ => h1⟩
      · exact absurd (HvSweep.pos_inj O 2 q a hqO haO h1) hne
      · refine Or.inr ⟨Ne.symm hne, ?_, ?_, fun _ => h1⟩
        · exact le_of_eq (congrArg Prod.fst he).symm
        · exact le_of_eq (congrArg Prod.snd he).symm
    · exact Or.inl ⟨hne, hle.1, hle.2, fun e => absurd e he⟩
  rcases hbeat with hbt | hbt
  · have := (inv.dm a haA b h.hb (h.plt a ha)).2.1 q hqA (h.plt q hq) hbt
    have hm : max (cg C a 2) (cg C q 2) < b := max_lt (h.plt a ha) (h.plt q hq)
    linarith
  · have := (inv.dm q hqA b h.hb (h.plt q hq)).2.1 a haA (h.plt a ha) hbt
    have hm : max (cg C q 2) (cg C a 2) < b := max_lt (h.plt q hq) (h.plt a ha)
    linarith

/-- (ii) the reconnected nodes cover `P` -/
theorem C3.cover (h : C3 C R d n O S A b P Q) (c : CCtx C R d n O) (inv : InvC C R d n O S 2 A)
    {q : ℕ} (hq : q ∈ P) :
    ∃ t ∈ P, b ≤ dr S t ∧ (item C t).1 ≤ (item C q).1 ∧ (item C t).2 ≤ (item C q).2 := by
  have l2 := l2_of_inv c inv
  -- a node of `P` that nobody in `P` beats is reconnected
  have hminM : ∀ t ∈ P, (∀ s ∈ P, ¬ Beats C O s t) → b ≤ dr S t := by
    intro t ht hmin
    by_contra hlt
    obtain ⟨q', hq'A, hbt, hz⟩ := (inv.dm t (h.pA l2 ht) b h.hb (h.plt t ht)).2.2 (not_le.mp hlt)
    exact hmin q' (h.inP l2 hq'A (lt_of_le_of_lt hz (not_le.mp hlt))) hbt
  by_cases hex : ∃ s ∈ P, Beats C O s q
  · obtain ⟨t, ht, htq, hmin⟩ := exists_min_below (Beats C O) (beats_trans C O) (beats_irrefl C O) P q hex
    exact ⟨t, ht, hminM t ht hmin, htq.2.1, htq.2.2.1⟩
  · exact ⟨q, hq, hminM q hq (fun s hs hbt => hex ⟨s, hs, hbt⟩), le_refl _, le_refl _⟩

/-- (iii) a reconnected node carries no mark `≥ 2` -/
theorem C3.noMark (h : C3 C R d n O S A b P Q) (inv : InvC C R d n O S 2 A) {t : ℕ} (ht : t ∈ P) (hd : b ≤ dr S t) :
    ¬ (2 : ℤ) ≤ ign S t := by
  intro hm
  have := inv.igd t hm
  have hlt := h.plt t ht
  rw [this] at hd
  linarith

end c3

end HvC
