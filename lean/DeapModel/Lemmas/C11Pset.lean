/-
Helper lemmas for C11: the declaration state machine of `PrimitiveSetTyped` (`Core/GpPset.lean`) — the pools hold
EXACTLY the declared nodes whose return type is a subclass of the key.
-/
import DeapModel.Lemmas.C11Add
import DeapModel.Core.GpPset

namespace GpTree

/-! ### `addType` collects exactly -/

theorem mem_appendNew {acc items : List Prim} {x : Prim} : x ∈ appendNew acc items ↔ x ∈ acc ∨ x ∈ items := by
  constructor
  · exact appendNew_mem
  · unfold appendNew
    induction items generalizing acc with
    | nil => intro h; simpa using h
    | cons y ys ih =>
      intro h
      simp only [List.foldl_cons]
      apply ih
      rcases h with h | h
      · left; split
        · exact h
        · exact List.mem_append_left _ h
      · rcases List.mem_cons.1 h with rfl | h
        · left; split
          · assumption
          · simp
        · exact Or.inr h

theorem mem_collect {sub : Nat → Nat → Bool} {τ : Nat} {x : Prim} :
    ∀ (d : List (Nat × List Prim)) (acc : List Prim),
      x ∈ d.foldl (fun acc e => if sub e.1 τ then appendNew acc e.2 else acc) acc ↔
      x ∈ acc ∨ ∃ e ∈ d, sub e.1 τ = true ∧ x ∈ e.2
  | [], acc => by simp
  | e :: d, acc => by
    simp only [List.foldl_cons]
    rw [mem_collect d]
    by_cases hs : sub e.1 τ = true
    · simp only [hs, if_true, mem_appendNew]
      constructor
      · rintro ((h | h) | ⟨e', he', h1, h2⟩)
        · exact Or.inl h
        · exact Or.inr ⟨e, by simp, hs, h⟩
        · exact Or.inr ⟨e', List.mem_cons_of_mem _ he', h1, h2⟩
      · rintro (h | ⟨e', he', h1, h2⟩)
        · exact Or.inl (Or.inl h)
        · rcases List.mem_cons.1 he' with rfl | he'
          · exact Or.inl (Or.inr h2)
          · exact Or.inr ⟨e', he', h1, h2⟩
    · simp only [hs]
      constructor
      · rintro (h | ⟨e', he', h1, h2⟩)
        · exact Or.inl h
        · exact Or.inr ⟨e', List.mem_cons_of_mem _ he', h1, h2⟩
      · rintro (h | ⟨e', he', h1, h2⟩)
        · exact Or.inl h
        · rcases List.mem_cons.1 he' with rfl | he'
          · exact absurd h1 hs
          · exact Or.inr ⟨e', he', h1, h2⟩

/-! ### the invariant -/

/-- every list of the dictionary holds exactly the declared nodes `S` whose return type is a subclass of its key,
and the return type of every declared node is a key -/
def PoolExact (sub : Nat → Nat → Bool) (d : List (Nat × List Prim)) (S : List Prim) : Prop :=
  (∀ e ∈ d, ∀ x, x ∈ e.2 ↔ (x ∈ S ∧ sub x.ret e.1 = true)) ∧ (∀ x ∈ S, dictHas d x.ret = true)

theorem dictHas_iff {d : List (Nat × List Prim)} {τ : Nat} : dictHas d τ = true ↔ ∃ e ∈ d, e.1 = τ := by
  simp [dictHas]

theorem dictHas_addType {sub : Nat → Nat → Bool} {d : List (Nat × List Prim)} {τ σ : Nat}
    (h : dictHas d σ = true) : dictHas (addType sub d τ) σ = true := by
  unfold addType
  split
  · exact h
  · obtain ⟨e, he, rfl⟩ := dictHas_iff.1 h
    exact dictHas_iff.2 ⟨e, List.mem_append_left _ he, rfl⟩

theorem dictHas_addType_self {sub : Nat → Nat → Bool} (d : List (Nat × List Prim)) (τ : Nat) :
    dictHas (addType sub d τ) τ = true := by
  unfold addType
  split
  · assumption
  · exact dictHas_iff.2 ⟨_, List.mem_append_right _ (List.mem_singleton.2 rfl), rfl⟩

theorem dictHas_foldl_addType {sub : Nat → Nat → Bool} {σ : Nat} :
    ∀ (ts : List Nat) {d : List (Nat × List Prim)}, dictHas d σ = true → dictHas (ts.foldl (addType sub) d) σ = true
  | [], _, h => h
  | t :: ts, _, h => by simp only [List.foldl_cons]; exact dictHas_foldl_addType ts (dictHas_addType h)

theorem dictHas_appendCompat {sub : Nat → Nat → Bool} {d : List (Nat × List Prim)} {p : Prim} {σ : Nat} :
    dictHas (appendCompat sub d p) σ = dictHas d σ := by
  unfold appendCompat dictHas
  rw [List.any_map]
  congr 1
  funext e
  simp only [Function.comp]
  split <;> rfl

theorem addType_exact {sub : Nat → Nat → Bool} (refl : ∀ a, sub a a = true)
    (trans : ∀ a b c, sub a b = true → sub b c = true → sub a c = true)
    {d : List (Nat × List Prim)} {S : List Prim} (τ : Nat) (h : PoolExact sub d S) :
    PoolExact sub (addType sub d τ) S := by
  refine ⟨?_, fun x hx => dictHas_addType (h.2 x hx)⟩
  unfold addType
  split
  · exact h.1
  · intro e he x
    rcases List.mem_append.1 he with he | he
    · exact h.1 e he x
    · simp only [List.mem_singleton] at he
      subst he
      simp only
      rw [mem_collect d []]
      constructor
      · rintro (h0 | ⟨e', he', h1, h2⟩)
        · simp at h0
        · obtain ⟨h3, h4⟩ := (h.1 e' he' x).1 h2
          exact ⟨h3, trans _ _ _ h4 h1⟩
      · rintro ⟨hxS, hxs⟩
        obtain ⟨e', he', hk⟩ := dictHas_iff.1 (h.2 x hxS)
        exact Or.inr ⟨e', he', by rw [hk]; exact hxs, (h.1 e' he' x).2 ⟨hxS, by rw [hk]; exact refl _⟩⟩

theorem foldl_addType_exact {sub : Nat → Nat → Bool} (refl : ∀ a, sub a a = true)
    (trans : ∀ a b c, sub a b = true → sub b c = true → sub a c = true) {S : List Prim} :
    ∀ (ts : List Nat) {d : List (Nat × List Prim)}, PoolExact sub d S → PoolExact sub (ts.foldl (addType sub) d) S
  | [], _, h => h
  | t :: ts, _, h => by
    simp only [List.foldl_cons]; exact foldl_addType_exact refl trans ts (addType_exact refl trans t h)

theorem appendCompat_exact {sub : Nat → Nat → Bool} {d : List (Nat × List Prim)} {S : List Prim} {p : Prim}
    (h : PoolExact sub d S) (hk : dictHas d p.ret = true) : PoolExact sub (appendCompat sub d p) (S ++ [p]) := by
  constructor
  · intro e he x
    unfold appendCompat at he
    obtain ⟨e0, he0, rfl⟩ := List.mem_map.1 he
    have h0 := h.1 e0 he0 x
    by_cases hs : sub p.ret e0.1 = true
    · rw [if_pos hs]
      simp only [List.mem_append, List.mem_singleton]
      rw [h0]
      constructor
      · rintro (⟨a, b⟩ | rfl)
        · exact ⟨Or.inl a, b⟩
        · exact ⟨Or.inr rfl, hs⟩
      · rintro ⟨a | rfl, b⟩
        · exact Or.inl ⟨a, b⟩
        · exact Or.inr rfl
    · rw [if_neg hs]
      simp only [List.mem_append, List.mem_singleton]
      rw [h0]
      constructor
      · rintro ⟨a, b⟩; exact ⟨Or.inl a, b⟩
      · rintro ⟨a | rfl, b⟩
        · exact ⟨a, b⟩
        · exact absurd b hs
  · intro x hx
    rw [dictHas_appendCompat]
    rcases List.mem_append.1 hx with hx | hx
    · exact h.2 x hx
    · simp only [List.mem_singleton] at hx; subst hx; exact hk

theorem addPrim_exact {sub : Nat → Nat → Bool} (refl : ∀ a, sub a a = true)
    (trans : ∀ a b c, sub a b = true → sub b c = true → sub a c = true)
    {ds : Dicts} {SP ST : List Prim} (p : Prim)
    (h1 : PoolExact sub ds.prims SP) (h2 : PoolExact sub ds.terms ST) :
    PoolExact sub (addPrim sub ds p).prims (if p.kind = .prim then SP ++ [p] else SP) ∧
    PoolExact sub (addPrim sub ds p).terms (if p.kind = .prim then ST else ST ++ [p]) := by
  unfold addPrim
  simp only
  split
  · exact ⟨appendCompat_exact (foldl_addType_exact refl trans _ (addType_exact refl trans _ h1))
        (dictHas_foldl_addType _ (dictHas_addType_self _ _)),
      foldl_addType_exact refl trans _ (addType_exact refl trans _ h2)⟩
  · exact ⟨addType_exact refl trans _ h1,
      appendCompat_exact (addType_exact refl trans _ h2) (dictHas_addType_self _ _)⟩

/-- reading the pool of a known type -/
theorem dictGet_exact {sub : Nat → Nat → Bool} {d : List (Nat × List Prim)} {S : List Prim} {τ : Nat} (x : Prim)
    (h : PoolExact sub d S) (hk : dictHas d τ = true) :
    x ∈ dictGet d τ ↔ (x ∈ S ∧ sub x.ret τ = true) := by
  unfold dictGet
  split
  · rename_i e he
    have hm := List.mem_of_find?_eq_some he
    have hkey : e.1 = τ := by simpa using List.find?_some he
    rw [h.1 e hm x, hkey]
  · rename_i hn
    rw [List.find?_eq_none] at hn
    obtain ⟨e, he, rfl⟩ := dictHas_iff.1 hk
    exact absurd (by simp) (hn e he)

/-- an in-place change of a node that keeps its return type -/
theorem replace_exact {sub : Nat → Nat → Bool} {d : List (Nat × List Prim)} {S : List Prim} (t t' : Prim)
    (hr : t'.ret = t.ret) (h : PoolExact sub d S) : PoolExact sub (replaceInDict t t' d) (replaceNode t t' S) := by
  have hret : ∀ y : Prim, (if y = t then t' else y).ret = y.ret := by
    intro y; split
    · rename_i e; rw [hr, e]
    · rfl
  constructor
  · intro e he x
    unfold replaceInDict at he
    obtain ⟨e0, he0, rfl⟩ := List.mem_map.1 he
    simp only [replaceNode, List.mem_map]
    constructor
    · rintro ⟨y, hy, rfl⟩
      obtain ⟨a, b⟩ := (h.1 e0 he0 y).1 hy
      exact ⟨⟨y, a, rfl⟩, by rw [hret]; exact b⟩
    · rintro ⟨⟨y, hy, rfl⟩, b⟩
      exact ⟨y, (h.1 e0 he0 y).2 ⟨hy, by rw [hret] at b; exact b⟩, rfl⟩
  · intro x hx
    simp only [replaceNode, List.mem_map] at hx
    obtain ⟨y, hy, rfl⟩ := hx
    rw [hret]
    obtain ⟨e, he, hk⟩ := dictHas_iff.1 (h.2 y hy)
    exact dictHas_iff.2 ⟨(e.1, replaceNode t t' e.2), List.mem_map.2 ⟨e, he, rfl⟩, hk⟩

/-! ### the state machine keeps it -/

def PState.Exact (sub : Nat → Nat → Bool) (st : PState) : Prop :=
  PoolExact sub st.dicts.prims st.declPrims ∧ PoolExact sub st.dicts.terms st.declTerms

theorem empty_exact (sub : Nat → Nat → Bool) : PState.Exact sub PState.empty := by
  constructor <;> constructor <;> intro _ h <;> simp [PState.empty] at h

theorem add_exact {sub : Nat → Nat → Bool} (refl : ∀ a, sub a a = true)
    (trans : ∀ a b c, sub a b = true → sub b c = true → sub a c = true) {st : PState} (p : Prim)
    (h : st.Exact sub) : (st.add sub p).Exact sub := by
  obtain ⟨a, b⟩ := addPrim_exact refl trans p h.1 h.2
  exact ⟨a, b⟩

theorem initArgs_exact {sub : Nat → Nat → Bool} (refl : ∀ a, sub a a = true)
    (trans : ∀ a b c, sub a b = true → sub b c = true → sub a c = true) (pre : String) :
    ∀ (τs : List Nat) (i : Nat) (st : PState), st.Exact sub → (initArgs sub pre τs i st).Exact sub
  | [], _, _, h => h
  | τ :: τs, i, st, h => by
    simp only [initArgs]
    apply initArgs_exact refl trans pre τs
    have : ({ st with arguments := st.arguments ++ [pre ++ toString i] } : PState).Exact sub := h
    exact add_exact refl trans _ this

theorem init_exact {sub : Nat → Nat → Bool} (refl : ∀ a, sub a a = true)
    (trans : ∀ a b c, sub a b = true → sub b c = true → sub a c = true) (inTypes : List Nat) (pre : String) :
    (PState.init sub inTypes pre).Exact sub :=
  initArgs_exact refl trans pre inTypes 0 _ (empty_exact sub)

theorem renameLoop2_exact {sub : Nat → Nat → Bool} :
    ∀ (rn : List (String × Prim)) (st : PState), st.Exact sub → (renameLoop2 rn st).Exact sub
  | [], _, h => h
  | (new, t) :: rest, st, h => by
    simp only [renameLoop2]
    apply renameLoop2_exact rest
    exact ⟨replace_exact t { t with text := new } rfl h.1, replace_exact t { t with text := new } rfl h.2⟩

theorem stepDecl_exact {sub : Nat → Nat → Bool} (refl : ∀ a, sub a a = true)
    (trans : ∀ a b c, sub a b = true → sub b c = true → sub a c = true) {st st' : PState} (d : Decl)
    (hd : ∀ τ, d ≠ .touchP τ ∧ d ≠ .touchT τ) (h : st.Exact sub) (hs : stepDecl sub st d = some st') :
    st'.Exact sub := by
  have hprim : ∀ name obj args ret, addPrimitive sub st name obj args ret = some st' → st'.Exact sub := by
    intro name obj args ret hs
    unfold addPrimitive at hs
    split at hs
    · cases hs
    · injection hs with hs; subst hs
      exact add_exact refl trans _ h
  have hterm : ∀ name obj v s r ret, addTerminal sub st name obj v s r ret = some st' → st'.Exact sub := by
    intro name obj v s r ret hs
    unfold addTerminal at hs
    split at hs
    · split at hs
      · cases hs
      · injection hs with hs; subst hs
        exact add_exact (st := { st with context := _ }) refl trans _ h
    · injection hs with hs; subst hs
      exact add_exact (st := { st with context := _ }) refl trans _ h
  have heph : ∀ name func ret, addEphemeral sub st name func ret = some st' → st'.Exact sub := by
    intro name func ret hs
    unfold addEphemeral at hs
    split at hs
    · cases hs
    · injection hs with hs; subst hs
      exact add_exact refl trans _ h
  cases d with
  | prim name obj args ret => exact hprim _ _ _ _ hs
  | term name obj v s r ret => exact hterm _ _ _ _ _ _ hs
  | eph name func ret => exact heph _ _ _ hs
  | adf name ins ret =>
    simp only [stepDecl, addADF] at hs
    injection hs with hs; subst hs
    exact add_exact refl trans _ h
  | rename kargs =>
    simp only [stepDecl, renameArguments] at hs
    split at hs
    · cases hs
    · injection hs with hs; subst hs
      exact renameLoop2_exact _ _ h
  | uprim name obj arity =>
    simp only [stepDecl] at hs
    split at hs
    · cases hs
    · exact hprim _ _ _ _ hs
  | uterm name obj v s r => exact hterm _ _ _ _ _ _ hs
  | ueph name func => exact heph _ _ _ hs
  | touchP τ => exact absurd rfl (hd τ).1
  | touchT τ => exact absurd rfl (hd τ).2

/-- no read access to the pools in between the declarations -/
def NoTouch (ds : List Decl) : Prop := ∀ d ∈ ds, ∀ τ, d ≠ .touchP τ ∧ d ≠ .touchT τ

theorem runDecls_exact {sub : Nat → Nat → Bool} (refl : ∀ a, sub a a = true)
    (trans : ∀ a b c, sub a b = true → sub b c = true → sub a c = true) :
    ∀ (ds : List Decl) (st st' : PState), NoTouch ds → st.Exact sub → runDecls sub st ds = some st' → st'.Exact sub
  | [], st, st', _, h, hs => by simp [runDecls] at hs; subst hs; exact h
  | d :: ds, st, st', hn, h, hs => by
    simp only [runDecls] at hs
    split at hs
    · cases hs
    · rename_i st1 h1
      exact runDecls_exact refl trans ds st1 st' (fun d' hd' => hn d' (List.mem_cons_of_mem _ hd'))
        (stepDecl_exact refl trans d (hn d (by simp)) h h1) hs

/-! ### which nodes are declared, and the counters -/

/-- an ephemeral class sits in `mapping` under its own name and has no arguments -/
def MapOK (m : List (String × Prim)) : Prop := ∀ e ∈ m, e.2.kind = .eph → e.2.name = e.1 ∧ e.2.args = []

theorem dictLook_mem {β : Type} {d : List (String × β)} {k : String} {v : β} (h : dictLook d k = some v) :
    (k, v) ∈ d := by
  unfold dictLook at h
  cases hf : d.find? (fun e => e.1 == k) with
  | none => simp [hf] at h
  | some e =>
    simp [hf] at h
    have hm := List.mem_of_find?_eq_some hf
    have hk : e.1 = k := by simpa using List.find?_some hf
    have : e = (k, v) := by cases e; simp_all
    rw [← this]; exact hm

theorem dictSet_mapOK {m : List (String × Prim)} {p : Prim} (h : MapOK m) (hp : p.kind = .eph → p.args = []) :
    MapOK (dictSet m p.name p) := by
  intro e he hk
  unfold dictSet at he
  split at he
  · obtain ⟨e0, he0, rfl⟩ := List.mem_map.1 he
    by_cases hc : (e0.1 == p.name) = true
    · rw [if_pos hc] at hk ⊢; exact ⟨rfl, hp hk⟩
    · rw [if_neg hc] at hk ⊢; exact h e0 he0 hk
  · rcases List.mem_append.1 he with he | he
    · exact h e he hk
    · simp only [List.mem_singleton] at he; subst he; exact ⟨rfl, hp hk⟩

/-- what one `_add` does to the ghost lists; nothing else does anything to them (but a renaming) -/
theorem add_decl (sub : Nat → Nat → Bool) (st : PState) (p : Prim) :
    (st.add sub p).declPrims = st.declPrims ++ [p].filter (fun x => decide (x.kind = .prim)) ∧
    (st.add sub p).declTerms = st.declTerms ++ [p].filter (fun x => !decide (x.kind = .prim)) ∧
    (st.add sub p).termsCount = st.termsCount ∧ (st.add sub p).primsCount = st.primsCount ∧
    (st.add sub p).arguments = st.arguments := by
  by_cases hk : p.kind = .prim <;> simp [PState.add, hk, List.filter]

def PlainStep (st st' : PState) (p : Prim) : Prop :=
    MapOK st'.mapping ∧
    st'.declPrims = st.declPrims ++ [p].filter (fun x => decide (x.kind = .prim)) ∧
    st'.declTerms = st.declTerms ++ [p].filter (fun x => !decide (x.kind = .prim)) ∧
    st'.primsCount = st.primsCount + ([p].filter (fun x => decide (x.kind = .prim))).length ∧
    st'.termsCount = st.termsCount + ([p].filter (fun x => !decide (x.kind = .prim))).length ∧
    st'.arguments = st.arguments

/-- a declaration proper, its node `p`, and the state after it -/
theorem stepDecl_plain {sub : Nat → Nat → Bool} {st st' : PState} {d : Decl} {p : Prim}
    (hm : MapOK st.mapping) (hn : d.node = some p) (hs : stepDecl sub st d = some st') :
    PlainStep st st' p := by
  have hprim : ∀ name obj args ret, addPrimitive sub st name obj args ret = some st' →
      p = ⟨name, ret, args, .prim, ""⟩ → PlainStep st st' p := by
    intro name obj args ret hs hp
    unfold addPrimitive at hs
    split at hs
    · cases hs
    · injection hs with hs; subst hs; subst hp
      exact ⟨dictSet_mapOK hm (by intro h; cases h), by simp [PState.add], by simp [PState.add],
        by simp [PState.add], by simp [PState.add], by simp [PState.add]⟩
  have hterm : ∀ name obj v s r ret, addTerminal sub st name obj v s r ret = some st' →
      p = (match name with | some n => ⟨n, ret, [], .term, n⟩ | none => ⟨s, ret, [], .term, r⟩) → PlainStep st st' p := by
    intro name obj v s r ret hs hp
    unfold addTerminal at hs
    split at hs
    · split at hs
      · cases hs
      · injection hs with hs; subst hs; subst hp
        exact ⟨dictSet_mapOK hm (by intro h; cases h), by simp [PState.add], by simp [PState.add],
          by simp [PState.add], by simp [PState.add], by simp [PState.add]⟩
    · injection hs with hs; subst hs; subst hp
      exact ⟨dictSet_mapOK hm (by intro h; cases h), by simp [PState.add], by simp [PState.add],
        by simp [PState.add], by simp [PState.add], by simp [PState.add]⟩
  have heph : ∀ name func ret, addEphemeral sub st name func ret = some st' →
      p = ⟨name, ret, [], .eph, funcTag func⟩ → PlainStep st st' p := by
    intro name func ret hs hp
    unfold addEphemeral at hs
    split at hs
    · cases hs
    · rename_i c hc
      injection hs with hs; subst hs
      have hcp : c = p := by
        unfold ephClass at hc
        split at hc
        · injection hc with hc; rw [← hc, hp]
        · rename_i q hq
          split at hc
          · rename_i hcond
            injection hc with hc; subst hc
            obtain ⟨hname, hargs⟩ := hm _ (dictLook_mem hq) hcond.1
            rw [hp]
            cases q
            simp_all
          · cases hc
      subst hcp
      refine ⟨dictSet_mapOK hm (by intro _; rw [hp]), ?_, ?_, ?_, ?_, ?_⟩ <;> simp [PState.add, hp]
  cases d with
  | prim name obj args ret => simp only [Decl.node, Option.some.injEq] at hn; exact hprim _ _ _ _ hs hn.symm
  | term name obj v s r ret =>
    cases name with
    | none =>
      simp only [Decl.node, Option.some.injEq] at hn
      exact hterm none obj v s r ret (by simpa [stepDecl] using hs) hn.symm
    | some n =>
      simp only [Decl.node, Option.some.injEq] at hn
      exact hterm (some n) obj v s r ret (by simpa [stepDecl] using hs) hn.symm
  | eph name func ret => simp only [Decl.node, Option.some.injEq] at hn; exact heph _ _ _ hs hn.symm
  | adf name ins ret =>
    simp only [Decl.node, Option.some.injEq] at hn
    simp only [stepDecl, addADF] at hs
    injection hs with hs; subst hs; subst hn
    exact ⟨dictSet_mapOK hm (by intro h; cases h), by simp [PState.add], by simp [PState.add],
      by simp [PState.add], by simp [PState.add], by simp [PState.add]⟩
  | rename kargs => simp [Decl.node] at hn
  | uprim name obj arity =>
    simp only [Decl.node, Option.some.injEq] at hn
    simp only [stepDecl] at hs
    split at hs
    · cases hs
    · exact hprim _ _ _ _ hs hn.symm
  | uterm name obj v s r =>
    cases name with
    | none =>
      simp only [Decl.node, Option.some.injEq] at hn
      exact hterm none obj v s r objT (by simpa [stepDecl] using hs) hn.symm
    | some n =>
      simp only [Decl.node, Option.some.injEq] at hn
      exact hterm (some n) obj v s r objT (by simpa [stepDecl] using hs) hn.symm
  | ueph name func => simp only [Decl.node, Option.some.injEq] at hn; exact heph _ _ _ hs hn.symm
  | touchP τ => simp [Decl.node] at hn
  | touchT τ => simp [Decl.node] at hn

/-- only declarations proper: no renaming, no read access -/
def Plain (ds : List Decl) : Prop := ∀ d ∈ ds, d.node.isSome = true

theorem plain_noTouch {ds : List Decl} (h : Plain ds) : NoTouch ds := by
  intro d hd τ
  have := h d hd
  constructor <;> (intro e; subst e; simp [Decl.node] at this)

theorem runDecls_plain {sub : Nat → Nat → Bool} :
    ∀ (ds : List Decl) (st st' : PState), Plain ds → MapOK st.mapping → runDecls sub st ds = some st' →
    MapOK st'.mapping ∧
    st'.declPrims = st.declPrims ++ (ds.filterMap Decl.node).filter (fun x => decide (x.kind = .prim)) ∧
    st'.declTerms = st.declTerms ++ (ds.filterMap Decl.node).filter (fun x => !decide (x.kind = .prim)) ∧
    st'.primsCount = st.primsCount + ((ds.filterMap Decl.node).filter (fun x => decide (x.kind = .prim))).length ∧
    st'.termsCount = st.termsCount + ((ds.filterMap Decl.node).filter (fun x => !decide (x.kind = .prim))).length ∧
    st'.arguments = st.arguments
  | [], st, st', _, hm, hs => by simp [runDecls] at hs; subst hs; simp [hm]
  | d :: ds, st, st', hp, hm, hs => by
    simp only [runDecls] at hs
    split at hs
    · cases hs
    · rename_i st1 h1
      obtain ⟨p, hn⟩ := Option.isSome_iff_exists.1 (hp d (by simp))
      obtain ⟨m1, a1, b1, c1, d1, e1⟩ := stepDecl_plain hm hn h1
      obtain ⟨m2, a2, b2, c2, d2, e2⟩ := runDecls_plain ds st1 st' (fun d' hd' => hp d' (List.mem_cons_of_mem _ hd')) m1 hs
      refine ⟨m2, ?_, ?_, ?_, ?_, by rw [e2, e1]⟩
      · rw [a2, a1, List.filterMap_cons_some hn, List.filter_cons]; split <;> simp_all
      · rw [b2, b1, List.filterMap_cons_some hn, List.filter_cons]; split <;> simp_all
      · rw [c2, c1, List.filterMap_cons_some hn, List.filter_cons]; split <;> simp_all <;> omega
      · rw [d2, d1, List.filterMap_cons_some hn, List.filter_cons]; split <;> simp_all <;> omega

/-- the state the constructor leaves: one argument terminal per input type, nothing else -/
theorem initArgs_decl (sub : Nat → Nat → Bool) (pre : String) :
    ∀ (τs : List Nat) (i : Nat) (st : PState), MapOK st.mapping →
      MapOK (initArgs sub pre τs i st).mapping ∧
      (initArgs sub pre τs i st).declPrims = st.declPrims ∧
      (initArgs sub pre τs i st).declTerms.length = st.declTerms.length + τs.length ∧
      (initArgs sub pre τs i st).primsCount = st.primsCount ∧
      (initArgs sub pre τs i st).termsCount = st.termsCount + τs.length ∧
      (∀ x ∈ (initArgs sub pre τs i st).declTerms, x ∈ st.declTerms ∨ x.kind = .term)
  | [], _, st, hm => ⟨hm, rfl, rfl, rfl, rfl, fun _ hx => Or.inl hx⟩
  | τ :: τs, i, st, hm => by
    simp only [initArgs]
    obtain ⟨m, a, b, c, d, e⟩ := initArgs_decl sub pre τs (i + 1)
      ({ (({ st with arguments := st.arguments ++ [pre ++ toString i] } : PState).add sub
          (argNode (pre ++ toString i) τ)) with termsCount := _ })
      (dictSet_mapOK hm (by intro h; cases h))
    refine ⟨m, ?_, ?_, ?_, ?_, ?_⟩
    · rw [a]; simp [PState.add, argNode]
    · rw [b]; simp [PState.add, argNode]; omega
    · rw [c]; simp [PState.add]
    · rw [d]; simp [PState.add]; omega
    · intro x hx
      rcases e x hx with h | h
      · simp [PState.add, argNode] at h
        rcases h with h | rfl
        · exact Or.inl h
        · exact Or.inr rfl
      · exact Or.inr h


/-- `PrimitiveSet.addPrimitive` with arity 0 fails (`assert arity > 0`), so a history containing it has no result -/
theorem uprim_zero_fails (sub : Nat → Nat → Bool) :
    ∀ (st : PState) (ds : List Decl) (n : String) (o : Nat), Decl.uprim n o 0 ∈ ds → runDecls sub st ds ≠ some st'
  | _, [], _, _, h => by simp at h
  | st, d :: ds, n, o, h => by
    simp only [runDecls]
    rcases List.mem_cons.1 h with rfl | h
    · simp [stepDecl]
    · split
      · simp
      · exact uprim_zero_fails sub _ ds n o h

end GpTree
