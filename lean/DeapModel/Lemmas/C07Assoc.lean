/-
C07 (NSGA-III association and memory): lemmas over `ℝ` about the model of `associate_to_niche`
(`Nsga3.perpDist`, `Nsga3.argminIdx`, `Nsga3.associate1`) and, over any linear order, about the
memory update `Nsga3.colMin` / `Nsga3.colMax`.
-/
import DeapModel.Core.Nsga3
import DeapModel.RealInst
import Mathlib.Analysis.Real.Sqrt
import Mathlib.Algebra.BigOperators.Group.List.Basic
import Mathlib.Data.List.GetD
import Mathlib.Data.List.Perm.Basic
import Mathlib.Order.Defs.LinearOrder
import Mathlib.Tactic.Ring
import Mathlib.Tactic.Linarith
import Mathlib.Tactic.FieldSimp

namespace C07L

/-! ### bridge: the model's sums, norms and dot products at `ℝ` -/

/-- the plain dot product of two real lists (truncated to the shorter one) -/
def sdot (a b : List ℝ) : ℝ := (List.zipWith (· * ·) a b).sum

theorem foldl_add_eq (l : List ℝ) (a : ℝ) :
    l.foldl (fun x y => @HAdd.hAdd ℝ ℝ ℝ (@instHAdd ℝ RealLike.toAdd) x y) a = a + l.sum := by
  induction l generalizing a with
  | nil => simp
  | cons x xs ih =>
    rw [List.foldl_cons, ih, List.sum_cons, RealLike.real_add]
    ring

theorem rsum_eq (l : List ℝ) : RealLike.sum l = l.sum := by
  unfold RealLike.sum
  rw [foldl_add_eq]
  simp

theorem norm_eq (r : List ℝ) : Nsga3.norm r = Real.sqrt ((r.map (fun x => x * x)).sum) := by
  unfold Nsga3.norm
  rw [RealLike.real_sqrt, rsum_eq]

theorem dot_eq (a b : List ℝ) : Nsga3.dot a b = sdot a b := by
  unfold Nsga3.dot sdot
  rw [rsum_eq]

theorem sdot_self (r : List ℝ) : sdot r r = (r.map (fun x => x * x)).sum := by
  unfold sdot
  rw [List.zipWith_self]

theorem sdot_self_nonneg (r : List ℝ) : 0 ≤ sdot r r := by
  rw [sdot_self]
  induction r with
  | nil => simp
  | cons x xs ih =>
    rw [List.map_cons, List.sum_cons]
    have := mul_self_nonneg x
    linarith

theorem sdot_self_pos (r : List ℝ) (hr : ∃ x ∈ r, x ≠ 0) : 0 < sdot r r := by
  obtain ⟨x, hx, hx0⟩ := hr
  induction r with
  | nil => simp at hx
  | cons y ys ih =>
    have hcons : sdot (y :: ys) (y :: ys) = y * y + sdot ys ys := by
      simp [sdot]
    rw [hcons]
    rcases List.mem_cons.1 hx with h | h
    · subst h
      have h1 : 0 < x * x := mul_self_pos.2 hx0
      have h2 := sdot_self_nonneg ys
      linarith
    · have h1 := mul_self_nonneg y
      have h2 := ih h
      linarith

/-! ### A. the coded distance is the distance to the orthogonal projection -/

/-- pointwise: the coded component `proj * rm / nr - fm` squared is `(fm - (P/S) rm)^2`. -/
theorem comp_sq (P S f x : ℝ) (hS : 0 < S) :
    (P / Real.sqrt S * x / Real.sqrt S - f) * (P / Real.sqrt S * x / Real.sqrt S - f)
      = (f - P / S * x) ^ 2 := by
  have hs : Real.sqrt S * Real.sqrt S = S := Real.mul_self_sqrt hS.le
  have hs0 : Real.sqrt S ≠ 0 := (Real.sqrt_pos.2 hS).ne'
  have h : P / Real.sqrt S * x / Real.sqrt S = P / (Real.sqrt S * Real.sqrt S) * x := by
    field_simp
  rw [hs] at h
  rw [h]
  ring

theorem perpDist_eq (fn r : List ℝ) (hlen : fn.length = r.length) (hr : ∃ x ∈ r, x ≠ 0) :
    Nsga3.perpDist fn r
      = Real.sqrt ((List.zipWith (fun f x => (f - (sdot fn r / sdot r r) * x) ^ 2) fn r).sum) := by
  have _ := hlen
  have hS : 0 < sdot r r := sdot_self_pos r hr
  unfold Nsga3.perpDist
  simp only [norm_eq, dot_eq]
  rw [← sdot_self r]
  simp only [RealLike.real_mul, RealLike.real_div, RealLike.real_sub]
  congr 1
  rw [List.map_zipWith, List.zipWith_comm]
  have hfun : (fun (b a : ℝ) =>
        (sdot fn r / Real.sqrt (sdot r r) * a / Real.sqrt (sdot r r) - b)
          * (sdot fn r / Real.sqrt (sdot r r) * a / Real.sqrt (sdot r r) - b))
      = (fun f x => (f - sdot fn r / sdot r r * x) ^ 2) := by
    funext f x
    exact comp_sq (sdot fn r) (sdot r r) f x hS
  rw [hfun]

example : ([(3 : ℝ), 4].length = [(1 : ℝ), 0].length) ∧ ∃ x ∈ [(1 : ℝ), 0], x ≠ 0 :=
  ⟨rfl, 1, by simp, by norm_num⟩

/-! ### B. it is the distance to the line through `0` and `r` -/

/-- expansion of `Σ (f - t x)²` over the zipped lists -/
theorem sum_sq_expand (t : ℝ) (fn r : List ℝ) :
    (List.zipWith (fun f x => (f - t * x) ^ 2) fn r).sum
      = (List.zipWith (fun f _ => f ^ 2) fn r).sum - 2 * t * sdot fn r
        + t ^ 2 * (List.zipWith (fun _ x => x ^ 2) fn r).sum := by
  unfold sdot
  induction fn generalizing r with
  | nil => simp only [List.zipWith_nil_left, List.sum_nil]; ring
  | cons f fs ih =>
    cases r with
    | nil => simp only [List.zipWith_nil_right, List.sum_nil]; ring
    | cons x xs =>
      simp only [List.zipWith_cons_cons, List.sum_cons]
      rw [ih xs]
      ring

theorem zip_snd_sq (fn r : List ℝ) (hlen : fn.length = r.length) :
    (List.zipWith (fun _ x => x ^ 2) fn r).sum = sdot r r := by
  unfold sdot
  induction fn generalizing r with
  | nil =>
    cases r with
    | nil => simp
    | cons x xs => simp at hlen
  | cons f fs ih =>
    cases r with
    | nil => simp at hlen
    | cons x xs =>
      simp only [List.zipWith_cons_cons, List.sum_cons]
      rw [ih xs (by simpa using hlen)]
      ring

/-- the key identity: `Σ(f − t x)² − Σ(f − t0 x)² = (t − t0)² Σ x²` for `t0 = Σ f x / Σ x²`. -/
theorem sum_sq_diff (fn r : List ℝ) (hlen : fn.length = r.length) (hS : 0 < sdot r r) (t : ℝ) :
    (List.zipWith (fun f x => (f - t * x) ^ 2) fn r).sum
      - (List.zipWith (fun f x => (f - (sdot fn r / sdot r r) * x) ^ 2) fn r).sum
      = (t - sdot fn r / sdot r r) ^ 2 * sdot r r := by
  rw [sum_sq_expand t, sum_sq_expand (sdot fn r / sdot r r), zip_snd_sq fn r hlen]
  have hS0 : sdot r r ≠ 0 := hS.ne'
  field_simp
  ring

theorem perpDist_le_line (fn r : List ℝ) (hlen : fn.length = r.length) (hr : ∃ x ∈ r, x ≠ 0)
    (t : ℝ) :
    Nsga3.perpDist fn r ≤ Real.sqrt ((List.zipWith (fun f x => (f - t * x) ^ 2) fn r).sum) := by
  have hS : 0 < sdot r r := sdot_self_pos r hr
  rw [perpDist_eq fn r hlen hr]
  apply Real.sqrt_le_sqrt
  have h := sum_sq_diff fn r hlen hS t
  have h2 : 0 ≤ (t - sdot fn r / sdot r r) ^ 2 * sdot r r :=
    mul_nonneg (sq_nonneg _) hS.le
  linarith

example : ([(3 : ℝ), 4].length = [(1 : ℝ), 1].length) ∧ ∃ x ∈ [(1 : ℝ), 1], x ≠ 0 :=
  ⟨rfl, 1, by simp, by norm_num⟩

/-! ### C. `argminIdx` is `numpy.argmin`: the first index of the minimal value -/

/-- the loop body of `Nsga3.argminIdx` at `ℝ` -/
noncomputable def amStep (acc : Nat × ℝ × Nat) (y : ℝ) : Nat × ℝ × Nat :=
  if @LT.lt ℝ RealLike.toLT y acc.2.1 then (acc.2.2, y, acc.2.2 + 1)
  else (acc.1, acc.2.1, acc.2.2 + 1)

theorem argminIdx_cons (x : ℝ) (xs : List ℝ) :
    Nsga3.argminIdx (x :: xs) = (xs.foldl amStep (0, x, 1)).1 := rfl

/-- loop invariant: `(i, m, n)` = (first argmin, min, length) of the prefix `l` scanned so far -/
def AmInv (l : List ℝ) (s : Nat × ℝ × Nat) : Prop :=
  s.2.2 = l.length ∧ s.1 < l.length ∧ l.getD s.1 0 = s.2.1 ∧
    (∀ j, j < l.length → s.2.1 ≤ l.getD j 0) ∧ (∀ j, j < s.1 → s.2.1 < l.getD j 0)

theorem getD_append_lt (l : List ℝ) (y : ℝ) (j : Nat) (h : j < l.length) :
    (l ++ [y]).getD j 0 = l.getD j 0 := by
  rw [List.getD_eq_getElem?_getD, List.getD_eq_getElem?_getD, List.getElem?_append_left h]

theorem getD_append_len (l : List ℝ) (y : ℝ) : (l ++ [y]).getD l.length 0 = y := by
  rw [List.getD_eq_getElem?_getD, List.getElem?_append_right (Nat.le_refl _)]
  simp only [Nat.sub_self, List.getElem?_cons_zero, Option.getD_some]

theorem amInv_step (l : List ℝ) (s : Nat × ℝ × Nat) (y : ℝ) (h : AmInv l s) :
    AmInv (l ++ [y]) (amStep s y) := by
  obtain ⟨i, m, n⟩ := s
  obtain ⟨hn, hi, hm, hle, hlt⟩ := h
  simp only at hn hi hm hle hlt
  subst hn
  have hlen : (l ++ [y]).length = l.length + 1 := by simp
  unfold amStep
  by_cases hy : @LT.lt ℝ RealLike.toLT y m
  · have hy' : y < m := hy
    rw [if_pos hy]
    refine ⟨hlen.symm, by simp only [hlen]; omega, getD_append_len l y, ?_, ?_⟩
    · intro j hj
      show y ≤ (l ++ [y]).getD j 0
      rcases Nat.lt_or_ge j l.length with hj' | hj'
      · rw [getD_append_lt l y j hj']
        exact (hy'.trans_le (hle j hj')).le
      · have : j = l.length := by omega
        subst this
        rw [getD_append_len]
    · intro j hj
      show y < (l ++ [y]).getD j 0
      rw [getD_append_lt l y j hj]
      exact hy'.trans_le (hle j hj)
  · have hy' : m ≤ y := not_lt.1 hy
    rw [if_neg hy]
    refine ⟨hlen.symm, by simp only [hlen]; omega, ?_, ?_, ?_⟩
    · show (l ++ [y]).getD i 0 = m
      rw [getD_append_lt l y i hi]
      exact hm
    · intro j hj
      show m ≤ (l ++ [y]).getD j 0
      rcases Nat.lt_or_ge j l.length with hj' | hj'
      · rw [getD_append_lt l y j hj']
        exact hle j hj'
      · have : j = l.length := by omega
        subst this
        rw [getD_append_len]
        exact hy'
    · intro j hj
      show m < (l ++ [y]).getD j 0
      rw [getD_append_lt l y j (Nat.lt_trans hj hi)]
      exact hlt j hj

theorem amInv_foldl (ys l : List ℝ) (s : Nat × ℝ × Nat) (h : AmInv l s) :
    AmInv (l ++ ys) (ys.foldl amStep s) := by
  induction ys generalizing l s with
  | nil => simpa using h
  | cons y ys ih =>
    have := ih (l ++ [y]) (amStep s y) (amInv_step l s y h)
    simpa using this

theorem amInv_argmin (l : List ℝ) (hne : l ≠ []) :
    ∃ m n, AmInv l (Nsga3.argminIdx l, m, n) := by
  cases l with
  | nil => exact absurd rfl hne
  | cons x xs =>
    have h0 : AmInv [x] (0, x, 1) := by
      refine ⟨rfl, Nat.zero_lt_one, rfl, ?_, ?_⟩
      · intro j hj
        have : j = 0 := by simpa using hj
        subst this
        exact le_refl _
      · intro j hj
        exact absurd hj (Nat.not_lt_zero j)
    have h := amInv_foldl xs [x] (0, x, 1) h0
    rw [argminIdx_cons]
    exact ⟨_, _, h⟩

theorem argminIdx_lt (l : List ℝ) (hne : l ≠ []) : Nsga3.argminIdx l < l.length := by
  obtain ⟨m, n, h⟩ := amInv_argmin l hne
  exact h.2.1

theorem argminIdx_le (l : List ℝ) (hne : l ≠ []) (j : Nat) (hj : j < l.length) :
    l.getD (Nsga3.argminIdx l) 0 ≤ l.getD j 0 := by
  obtain ⟨m, n, h⟩ := amInv_argmin l hne
  rw [h.2.2.1]
  exact h.2.2.2.1 j hj

theorem argminIdx_first (l : List ℝ) (hne : l ≠ []) (j : Nat) (hj : j < Nsga3.argminIdx l) :
    l.getD (Nsga3.argminIdx l) 0 < l.getD j 0 := by
  obtain ⟨m, n, h⟩ := amInv_argmin l hne
  rw [h.2.2.1]
  exact h.2.2.2.2 j hj

example : [(2 : ℝ), 1, 1] ≠ [] := List.cons_ne_nil _ _

/-! ### D. `associate1` picks a reference point of smallest coded perpendicular distance -/

theorem getD_map_lt (g : List ℝ → ℝ) (refs : List (List ℝ)) (j : Nat) (hj : j < refs.length) :
    (refs.map g).getD j 0 = g (refs.getD j []) := by
  rw [List.getD_eq_getElem?_getD, List.getD_eq_getElem?_getD, List.getElem?_map,
    List.getElem?_eq_getElem hj]
  rfl

theorem associate1_argmin (refs : List (List ℝ)) (best intercepts f : List ℝ) (hne : refs ≠ []) :
    let fn := Nsga3.normalise best intercepts f
    (Nsga3.associate1 refs best intercepts f).1 < refs.length ∧
    (∀ r ∈ refs, (Nsga3.associate1 refs best intercepts f).2 ≤ Nsga3.perpDist fn r) ∧
    (Nsga3.associate1 refs best intercepts f).2
      = Nsga3.perpDist fn (refs.getD (Nsga3.associate1 refs best intercepts f).1 []) := by
  intro fn
  have hne' : refs.map (Nsga3.perpDist fn) ≠ [] := by
    intro h
    exact hne (List.map_eq_nil_iff.1 h)
  have h1 : (Nsga3.associate1 refs best intercepts f).1
      = Nsga3.argminIdx (refs.map (Nsga3.perpDist fn)) := rfl
  have h2 : (Nsga3.associate1 refs best intercepts f).2
      = (refs.map (Nsga3.perpDist fn)).getD (Nsga3.argminIdx (refs.map (Nsga3.perpDist fn))) 0 := by
    show (refs.map (Nsga3.perpDist fn)).getD _ (RealLike.ofNat 0) = _
    rw [RealLike.real_ofNat, Nat.cast_zero]
  have hlt : Nsga3.argminIdx (refs.map (Nsga3.perpDist fn)) < refs.length := by
    have := argminIdx_lt _ hne'
    rwa [List.length_map] at this
  refine ⟨by rw [h1]; exact hlt, ?_, ?_⟩
  · intro r hr
    obtain ⟨k, hk, rfl⟩ := List.getElem_of_mem hr
    rw [h2]
    have := argminIdx_le _ hne' k (by rw [List.length_map]; exact hk)
    rw [getD_map_lt _ refs k hk] at this
    rw [List.getD_eq_getElem _ _ hk] at this
    exact this
  · rw [h2, h1]
    exact getD_map_lt _ refs _ hlt

example : [[(1 : ℝ), 0], [0, 1]] ≠ [] := List.cons_ne_nil _ _

/-! ### E. the memory update: column-wise minimum / maximum

Both `colMin` and `colMax` are the fold of a *selector* `f` (`f a b ∈ {a, b}`, `f a b` below both
for an order `R`); the lemmas are proved once for such a fold and instantiated with
`(if b < a then b else a, ≤)` and `(if a < b then b else a, ≥)`. -/

section Generic
variable {α : Type}

/-- the common shape of `Nsga3.colMin` and `Nsga3.colMax` -/
def colF (f : α → α → α) (rows : List (List α)) (mem : List α) : List α :=
  (rows ++ [mem]).tail.foldl (fun acc r => List.zipWith f acc r) ((rows ++ [mem]).headD mem)

/-- `f` selects one of its arguments, and the selected one is `R`-below both; `R` is an order -/
structure Sel (f : α → α → α) (R : α → α → Prop) : Prop where
  refl : ∀ a, R a a
  trans : ∀ a b c, R a b → R b c → R a c
  antisymm : ∀ a b, R a b → R b a → a = b
  left : ∀ a b, R (f a b) a
  right : ∀ a b, R (f a b) b
  sel : ∀ a b, f a b = a ∨ f a b = b

theorem foldF_length (f : α → α → α) (rs : List (List α)) (acc : List α)
    (hrect : ∀ r ∈ rs, r.length = acc.length) :
    (rs.foldl (fun acc r => List.zipWith f acc r) acc).length = acc.length := by
  induction rs generalizing acc with
  | nil => rfl
  | cons r rs ih =>
    have hr : r.length = acc.length := hrect r List.mem_cons_self
    have hlen : (List.zipWith f acc r).length = acc.length := by
      rw [List.length_zipWith, hr, Nat.min_self]
    rw [List.foldl_cons, ih (List.zipWith f acc r), hlen]
    intro r' hr'
    rw [hlen]
    exact hrect r' (List.mem_cons_of_mem _ hr')

theorem foldF_spec {f : α → α → α} {R : α → α → Prop} (S : Sel f R) (rs : List (List α))
    (acc : List α) (hrect : ∀ r ∈ rs, r.length = acc.length) (j : Nat)
    (h : j < (rs.foldl (fun acc r => List.zipWith f acc r) acc).length) (ha : j < acc.length) :
    R (rs.foldl (fun acc r => List.zipWith f acc r) acc)[j] acc[j] ∧
    (∀ r ∈ rs, ∀ hr : j < r.length, R (rs.foldl (fun acc r => List.zipWith f acc r) acc)[j] r[j]) ∧
    ((rs.foldl (fun acc r => List.zipWith f acc r) acc)[j] = acc[j] ∨
      ∃ r ∈ rs, ∃ hr : j < r.length,
        (rs.foldl (fun acc r => List.zipWith f acc r) acc)[j] = r[j]) := by
  induction rs generalizing acc with
  | nil =>
    refine ⟨S.refl _, ?_, Or.inl rfl⟩
    intro r hr
    exact absurd hr List.not_mem_nil
  | cons r rs ih =>
    have hr : r.length = acc.length := hrect r List.mem_cons_self
    have hlen : (List.zipWith f acc r).length = acc.length := by
      rw [List.length_zipWith, hr, Nat.min_self]
    have hrect' : ∀ r' ∈ rs, r'.length = (List.zipWith f acc r).length := by
      intro r' hr'
      rw [hlen]
      exact hrect r' (List.mem_cons_of_mem _ hr')
    have hjr : j < r.length := by rw [hr]; exact ha
    have ha' : j < (List.zipWith f acc r).length := by rw [hlen]; exact ha
    have hz : (List.zipWith f acc r)[j] = f acc[j] r[j] := List.getElem_zipWith
    obtain ⟨i1, i2, i3⟩ := ih (List.zipWith f acc r) hrect' h ha'
    rw [hz] at i1 i3
    simp only [List.foldl_cons]
    refine ⟨S.trans _ _ _ i1 (S.left _ _), ?_, ?_⟩
    · intro r' hr' hjr'
      rcases List.mem_cons.1 hr' with rfl | hmem
      · exact S.trans _ _ _ i1 (S.right _ _)
      · exact i2 r' hmem hjr'
    · rcases i3 with i3 | ⟨r', hr', hjr', e⟩
      · rcases S.sel acc[j] r[j] with e | e
        · exact Or.inl (i3.trans e)
        · exact Or.inr ⟨r, List.mem_cons_self, hjr, i3.trans e⟩
      · exact Or.inr ⟨r', List.mem_cons_of_mem _ hr', hjr', e⟩

theorem colF_nil (f : α → α → α) (mem : List α) : colF f [] mem = mem := rfl

theorem colF_cons (f : α → α → α) (r0 : List α) (rs : List (List α)) (mem : List α) :
    colF f (r0 :: rs) mem = (rs ++ [mem]).foldl (fun acc r => List.zipWith f acc r) r0 := rfl

theorem colF_length (f : α → α → α) (rows : List (List α)) (mem : List α)
    (hrect : ∀ r ∈ rows, r.length = mem.length) : (colF f rows mem).length = mem.length := by
  cases rows with
  | nil => rfl
  | cons r0 rs =>
    have h0 : r0.length = mem.length := hrect r0 List.mem_cons_self
    rw [colF_cons, foldF_length, h0]
    intro r hr
    rw [h0]
    rcases List.mem_append.1 hr with hr | hr
    · exact hrect r (List.mem_cons_of_mem _ hr)
    · rw [List.mem_singleton.1 hr]

theorem colF_spec {f : α → α → α} {R : α → α → Prop} (S : Sel f R) (rows : List (List α))
    (mem : List α) (hrect : ∀ r ∈ rows, r.length = mem.length) (j : Nat)
    (h : j < (colF f rows mem).length) (hj : j < mem.length) :
    R (colF f rows mem)[j] mem[j] ∧
    (∀ r ∈ rows, ∀ hr : j < r.length, R (colF f rows mem)[j] r[j]) ∧
    ((colF f rows mem)[j] = mem[j] ∨
      ∃ r ∈ rows, ∃ hr : j < r.length, (colF f rows mem)[j] = r[j]) := by
  cases rows with
  | nil =>
    refine ⟨S.refl _, ?_, Or.inl rfl⟩
    intro r hr
    exact absurd hr List.not_mem_nil
  | cons r0 rs =>
    have h0 : r0.length = mem.length := hrect r0 List.mem_cons_self
    have hrect' : ∀ r ∈ rs ++ [mem], r.length = r0.length := by
      intro r hr
      rw [h0]
      rcases List.mem_append.1 hr with hr | hr
      · exact hrect r (List.mem_cons_of_mem _ hr)
      · rw [List.mem_singleton.1 hr]
    have hj0 : j < r0.length := by rw [h0]; exact hj
    obtain ⟨i1, i2, i3⟩ := foldF_spec S (rs ++ [mem]) r0 hrect' j h hj0
    refine ⟨i2 mem (List.mem_append_right _ (List.mem_singleton.2 rfl)) hj, ?_, ?_⟩
    · intro r hr hjr
      rcases List.mem_cons.1 hr with rfl | hmem
      · exact i1
      · exact i2 r (List.mem_append_left _ hmem) hjr
    · rcases i3 with i3 | ⟨r, hr, hjr, e⟩
      · exact Or.inr ⟨r0, List.mem_cons_self, hj0, i3⟩
      · rcases List.mem_append.1 hr with hr | hr
        · exact Or.inr ⟨r, List.mem_cons_of_mem _ hr, hjr, e⟩
        · have hrm : r = mem := List.mem_singleton.1 hr
          subst hrm
          exact Or.inl e

/-- one direction of order-independence: every entry of `colF rows` is `R`-below the
corresponding entry of `colF rows'` when `rows' ⊆ rows` -/
theorem colF_le_of_subset {f : α → α → α} {R : α → α → Prop} (S : Sel f R)
    (rows rows' : List (List α)) (mem : List α) (hrect : ∀ r ∈ rows, r.length = mem.length)
    (hrect' : ∀ r ∈ rows', r.length = mem.length) (hsub : ∀ r ∈ rows', r ∈ rows) (j : Nat)
    (h : j < (colF f rows mem).length) (h' : j < (colF f rows' mem).length) :
    R (colF f rows mem)[j] (colF f rows' mem)[j] := by
  have hj : j < mem.length := by rw [← colF_length f rows mem hrect]; exact h
  obtain ⟨a1, a2, _⟩ := colF_spec S rows mem hrect j h hj
  obtain ⟨_, _, b3⟩ := colF_spec S rows' mem hrect' j h' hj
  rcases b3 with e | ⟨r, hr, hjr, e⟩
  · rw [e]; exact a1
  · rw [e]; exact a2 r (hsub r hr) hjr

theorem colF_perm {f : α → α → α} {R : α → α → Prop} (S : Sel f R)
    (rows rows' : List (List α)) (mem : List α) (hrect : ∀ r ∈ rows, r.length = mem.length)
    (hp : rows.Perm rows') : colF f rows mem = colF f rows' mem := by
  have hrect' : ∀ r ∈ rows', r.length = mem.length := fun r hr => hrect r (hp.mem_iff.2 hr)
  apply List.ext_getElem
  · rw [colF_length f rows mem hrect, colF_length f rows' mem hrect']
  · intro j h h'
    exact S.antisymm _ _
      (colF_le_of_subset S rows rows' mem hrect hrect' (fun r hr => hp.mem_iff.2 hr) j h h')
      (colF_le_of_subset S rows' rows mem hrect' hrect (fun r hr => hp.mem_iff.1 hr) j h' h)

end Generic

section Memory
variable {α : Type} [LinearOrder α]

theorem selMin : Sel (fun a b : α => if b < a then b else a) (· ≤ ·) where
  refl := le_refl
  trans := fun _ _ _ => le_trans
  antisymm := fun _ _ => le_antisymm
  left := by
    intro a b
    show (if b < a then b else a) ≤ a
    split
    · next h => exact le_of_lt h
    · exact le_refl a
  right := by
    intro a b
    show (if b < a then b else a) ≤ b
    split
    · exact le_refl b
    · next h => exact not_lt.1 h
  sel := by
    intro a b
    show (if b < a then b else a) = a ∨ (if b < a then b else a) = b
    split
    · exact Or.inr rfl
    · exact Or.inl rfl

theorem selMax : Sel (fun a b : α => if a < b then b else a) (· ≥ ·) where
  refl := le_refl
  trans := fun _ _ _ h1 h2 => le_trans h2 h1
  antisymm := fun _ _ h1 h2 => le_antisymm h2 h1
  left := by
    intro a b
    show a ≤ (if a < b then b else a)
    split
    · next h => exact le_of_lt h
    · exact le_refl a
  right := by
    intro a b
    show b ≤ (if a < b then b else a)
    split
    · exact le_refl b
    · next h => exact not_lt.1 h
  sel := by
    intro a b
    show (if a < b then b else a) = a ∨ (if a < b then b else a) = b
    split
    · exact Or.inr rfl
    · exact Or.inl rfl

theorem colMin_eq (rows : List (List α)) (mem : List α) :
    Nsga3.colMin rows mem = colF (fun a b : α => if b < a then b else a) rows mem := rfl

theorem colMax_eq (rows : List (List α)) (mem : List α) :
    Nsga3.colMax rows mem = colF (fun a b : α => if a < b then b else a) rows mem := rfl

/-! #### `colMin` -/

theorem colMin_length (rows : List (List α)) (mem : List α)
    (hrect : ∀ r ∈ rows, r.length = mem.length) :
    (Nsga3.colMin rows mem).length = mem.length := by
  rw [colMin_eq]
  exact colF_length _ rows mem hrect

/-- entry `j` of `colMin rows mem` is the minimum of `mem[j]` and the `r[j]`, `r ∈ rows`: a lower
bound of all of them that is attained by one of them. -/
theorem colMin_getElem (rows : List (List α)) (mem : List α)
    (hrect : ∀ r ∈ rows, r.length = mem.length) (j : Nat) (hj : j < mem.length) :
    have h : j < (Nsga3.colMin rows mem).length := by rw [colMin_length rows mem hrect]; exact hj
    (Nsga3.colMin rows mem)[j] ≤ mem[j] ∧
    (∀ r ∈ rows, ∀ hr : j < r.length, (Nsga3.colMin rows mem)[j] ≤ r[j]) ∧
    ((Nsga3.colMin rows mem)[j] = mem[j] ∨
      ∃ r ∈ rows, ∃ hr : j < r.length, (Nsga3.colMin rows mem)[j] = r[j]) :=
  colF_spec selMin rows mem hrect j _ hj

/-- the remembered best point never gets worse -/
theorem colMin_le_mem (rows : List (List α)) (mem : List α)
    (hrect : ∀ r ∈ rows, r.length = mem.length) (j : Nat) (hj : j < mem.length) :
    have h : j < (Nsga3.colMin rows mem).length := by rw [colMin_length rows mem hrect]; exact hj
    (Nsga3.colMin rows mem)[j] ≤ mem[j] :=
  (colMin_getElem rows mem hrect j hj).1

theorem colMin_perm (rows rows' : List (List α)) (mem : List α)
    (hrect : ∀ r ∈ rows, r.length = mem.length) (hp : rows.Perm rows') :
    Nsga3.colMin rows mem = Nsga3.colMin rows' mem := by
  rw [colMin_eq, colMin_eq]
  exact colF_perm selMin rows rows' mem hrect hp

/-! #### `colMax` -/

theorem colMax_length (rows : List (List α)) (mem : List α)
    (hrect : ∀ r ∈ rows, r.length = mem.length) :
    (Nsga3.colMax rows mem).length = mem.length := by
  rw [colMax_eq]
  exact colF_length _ rows mem hrect

/-- entry `j` of `colMax rows mem` is the maximum of `mem[j]` and the `r[j]`, `r ∈ rows`. -/
theorem colMax_getElem (rows : List (List α)) (mem : List α)
    (hrect : ∀ r ∈ rows, r.length = mem.length) (j : Nat) (hj : j < mem.length) :
    have h : j < (Nsga3.colMax rows mem).length := by rw [colMax_length rows mem hrect]; exact hj
    mem[j] ≤ (Nsga3.colMax rows mem)[j] ∧
    (∀ r ∈ rows, ∀ hr : j < r.length, r[j] ≤ (Nsga3.colMax rows mem)[j]) ∧
    ((Nsga3.colMax rows mem)[j] = mem[j] ∨
      ∃ r ∈ rows, ∃ hr : j < r.length, (Nsga3.colMax rows mem)[j] = r[j]) :=
  colF_spec selMax rows mem hrect j _ hj

/-- the remembered worst point never decreases -/
theorem colMax_ge_mem (rows : List (List α)) (mem : List α)
    (hrect : ∀ r ∈ rows, r.length = mem.length) (j : Nat) (hj : j < mem.length) :
    have h : j < (Nsga3.colMax rows mem).length := by rw [colMax_length rows mem hrect]; exact hj
    mem[j] ≤ (Nsga3.colMax rows mem)[j] :=
  (colMax_getElem rows mem hrect j hj).1

theorem colMax_perm (rows rows' : List (List α)) (mem : List α)
    (hrect : ∀ r ∈ rows, r.length = mem.length) (hp : rows.Perm rows') :
    Nsga3.colMax rows mem = Nsga3.colMax rows' mem := by
  rw [colMax_eq, colMax_eq]
  exact colF_perm selMax rows rows' mem hrect hp

/-- a concrete instance of the hypotheses: a rectangular 2×2 block over `ℕ`, one index in range,
and a non-trivial permutation of the rows -/
example : (∀ r ∈ [[3, 1], [2, 5]], r.length = [(4 : Nat), 0].length) ∧ 1 < [(4 : Nat), 0].length ∧
    [[(3 : Nat), 1], [2, 5]].Perm [[2, 5], [3, 1]] :=
  ⟨by decide, by decide, List.Perm.swap _ _ _⟩

example : Nsga3.colMin [[3, 1], [2, 5]] [(4 : Nat), 0] = [2, 0] ∧
    Nsga3.colMax [[3, 1], [2, 5]] [(4 : Nat), 0] = [4, 5] := by decide

end Memory


end C07L
