/-
C20 — lemmas about the decorators (`Core/BenchTools.lean`): `numpy.dot` as `Matrix.mulVec`, the noise loop.
-/
import DeapModel.Lemmas.C20Real
import DeapModel.Core.BenchTools
import Mathlib.Data.Matrix.Mul
import Mathlib.Algebra.BigOperators.Fin

set_option linter.unusedSimpArgs false
namespace C20L
open BenchTools

theorem mapM_some {β γ : Type} (g : β → γ) (l : List β) : l.mapM (fun a => some (g a)) = some (l.map g) := by
  induction l with
  | nil => rfl
  | cons a t ih => simp [List.mapM_cons, ih]

theorem mapM_eq_some {β γ : Type} (f : β → Option γ) (g : β → γ) (l : List β) (h : ∀ a ∈ l, f a = some (g a)) :
    l.mapM f = some (l.map g) := by
  induction l with
  | nil => rfl
  | cons a t ih =>
    rw [List.mapM_cons, h a (by simp), ih (fun b hb => h b (by simp [hb]))]; rfl

theorem zip_ofFn_mul {n : Nat} (f g : Fin n → ℝ) :
    ((List.ofFn f).zip (List.ofFn g)).map (fun p => p.1 * p.2) = List.ofFn (fun i => f i * g i) := by
  apply List.ext_getElem (by simp)
  intro i h1 h2
  simp [List.getElem_zip, List.getElem_ofFn]

/-- a matrix as the list of its rows -/
def rows {n : Nat} (M : Matrix (Fin n) (Fin n) ℝ) : List (List ℝ) := List.ofFn fun i => List.ofFn (M i)

theorem matVec_rows {n : Nat} (M : Matrix (Fin n) (Fin n) ℝ) (v : Fin n → ℝ) :
    matVec (rows M) (List.ofFn v) = some (List.ofFn (M.mulVec v)) := by
  unfold matVec rows
  have : (fun row : List ℝ => if row.length = (List.ofFn v).length
        then some (RealLike.sum ((row.zip (List.ofFn v)).map fun p => p.1 * p.2)) else none)
      = fun row => if row.length = n then some (((row.zip (List.ofFn v)).map fun p => p.1 * p.2).sum) else none := by
    funext row; simp only [List.length_ofFn, real_sum, RealLike.real_mul]
  rw [this]
  rw [mapM_eq_some _ (fun row => ((row.zip (List.ofFn v)).map fun p => p.1 * p.2).sum)]
  · congr 1
    rw [List.map_ofFn]
    congr 1; funext i
    simp only [Function.comp, zip_ofFn_mul, List.sum_ofFn]
    rfl
  · intro row hrow
    simp only [List.mem_ofFn] at hrow
    obtain ⟨i, rfl⟩ := hrow
    simp


/-- the draws added by `noise`, objective by objective (the statement of the docstring) -/
theorem noiseGo_spec (l : List (ℝ × Bool)) (tape out rest : List ℝ) (h : noiseGo l tape = some (out, rest)) :
    ∃ used, tape = used ++ rest ∧ used.length = l.countP (·.2) ∧ out.length = l.length ∧
      ∀ i r b, l[i]? = some (r, b) →
        (b = false → out[i]? = some r) ∧
        (b = true → ∃ d, used[(l.take i).countP (·.2)]? = some d ∧ out[i]? = some (r + d)) := by
  induction l generalizing tape out rest with
  | nil =>
    simp only [noiseGo, Option.some.injEq, Prod.mk.injEq] at h
    exact ⟨[], by simp [h.2], by simp, by simp [← h.1], by simp⟩
  | cons p t ih =>
    obtain ⟨r0, b0⟩ := p
    cases b0 with
    | false =>
      simp only [noiseGo, Option.map_eq_some_iff] at h
      obtain ⟨⟨o1, r1⟩, h1, h2⟩ := h
      simp only [Prod.mk.injEq] at h2
      obtain ⟨used, e1, e2, e3, e4⟩ := ih _ _ _ h1
      refine ⟨used, by rw [e1, h2.2], by simpa using e2, by simp [← h2.1, e3], ?_⟩
      intro i r b hi
      cases i with
      | zero =>
        simp only [List.getElem?_cons_zero, Option.some.injEq, Prod.mk.injEq] at hi
        obtain ⟨rfl, rfl⟩ := hi
        simp [← h2.1]
      | succ j =>
        simp only [List.getElem?_cons_succ] at hi
        have := e4 j r b hi
        simpa [← h2.1, List.take_succ_cons, List.countP_cons] using this
    | true =>
      cases tape with
      | nil => simp [noiseGo] at h
      | cons d tp =>
        simp only [noiseGo, Option.map_eq_some_iff] at h
        obtain ⟨⟨o1, r1⟩, h1, h2⟩ := h
        simp only [Prod.mk.injEq] at h2
        obtain ⟨used, e1, e2, e3, e4⟩ := ih _ _ _ h1
        refine ⟨d :: used, by rw [e1, h2.2]; rfl, by simp [e2, List.countP_cons], by simp [← h2.1, e3], ?_⟩
        intro i r b hi
        cases i with
        | zero =>
          simp only [List.getElem?_cons_zero, Option.some.injEq, Prod.mk.injEq] at hi
          obtain ⟨rfl, rfl⟩ := hi
          simp [← h2.1]
        | succ j =>
          simp only [List.getElem?_cons_succ] at hi
          have := e4 j r b hi
          simpa [← h2.1, List.take_succ_cons, List.countP_cons] using this

end C20L
