/-
C14 helper lemmas: `StrategyMultiObjective._select` (front filling, mid front, least-contributor
loop) in closed form.  Core Lean only.
-/
import DeapModel.Core.CmaElitist

set_option linter.unusedSectionVars false
set_option linter.unusedVariables false
set_option linter.unusedSimpArgs false

namespace C14Select
open CmaElitist CmaElitist.MO

variable {ι : Type}

/-- The number of leading fronts that are taken whole when `c` places are already used. -/
def wholeCount (mu : Nat) : List (List ι) → Nat → Nat
  | [], _ => 0
  | f :: fs, c => if c + f.length ≤ mu then wholeCount mu fs (c + f.length) + 1 else 0

theorem wholeCount_le (mu : Nat) (fs : List (List ι)) (c : Nat) : wholeCount mu fs c ≤ fs.length := by
  induction fs generalizing c with
  | nil => simp [wholeCount]
  | cons f fs ih =>
    simp only [wholeCount]; split
    · simp only [List.length_cons]; exact Nat.succ_le_succ (ih _)
    · exact Nat.zero_le _

/-- The whole fronts fit: `c + |take j|` stays `≤ mu`. -/
theorem whole_fit (mu : Nat) (fs : List (List ι)) (c : Nat) (hc : c ≤ mu) :
    c + ((fs.take (wholeCount mu fs c)).flatten).length ≤ mu := by
  induction fs generalizing c with
  | nil => simpa [wholeCount] using hc
  | cons f fs ih =>
    simp only [wholeCount]; split
    · next h =>
      have := ih (c + f.length) h
      simp only [List.take_succ_cons, List.flatten_cons, List.length_append]
      omega
    · simpa using hc

/-- The first front that is not taken whole does not fit. -/
theorem whole_next (mu : Nat) (fs : List (List ι)) (c : Nat) (f : List ι) (rest : List (List ι))
    (h : fs.drop (wholeCount mu fs c) = f :: rest) :
    mu < c + ((fs.take (wholeCount mu fs c)).flatten).length + f.length := by
  induction fs generalizing c with
  | nil => simp at h
  | cons g fs ih =>
    simp only [wholeCount] at h ⊢; split
    · next hg =>
      rw [if_pos hg] at h
      have := ih (c + g.length) (by simpa using h)
      simp only [List.take_succ_cons, List.flatten_cons, List.length_append]
      omega
    · next hg =>
      rw [if_neg hg] at h
      simp only [List.drop_zero, List.cons.injEq] at h
      obtain ⟨rfl, _⟩ := h
      simp only [List.take_zero, List.flatten_nil, List.length_nil]; omega

theorem fill_full (mu : Nat) (fs : List (List ι)) (c m nc : List ι) :
    fillFronts mu fs c (some m) nc true = (c, some m, nc ++ fs.flatten) := by
  induction fs generalizing nc with
  | nil => simp [fillFronts]
  | cons f fs ih => simp [fillFronts, ih, List.append_assoc]

theorem fill_sat (mu : Nat) (fs : List (List ι)) (c nc : List ι) (hc : c.length = mu) :
    fillFronts mu fs c none nc false = (c, none, nc ++ fs.flatten) := by
  induction fs generalizing nc with
  | nil => simp [fillFronts]
  | cons f fs ih =>
    by_cases hf : f = []
    · subst hf; simp [fillFronts, hc, ih]
    · have hpos : 0 < f.length := List.length_pos_iff.2 hf
      have h1 : ¬ (c.length + f.length ≤ mu) := by omega
      have h2 : ¬ (c.length < mu) := by omega
      simp [fillFronts, h1, h2, ih, List.append_assoc]

/-- Closed form of the loop over the fronts. -/
theorem fill_spec (mu : Nat) (fs : List (List ι)) (c nc : List ι) (hc : c.length ≤ mu) :
    fillFronts mu fs c none nc false =
      (match fs.drop (wholeCount mu fs c.length) with
       | [] => (c ++ (fs.take (wholeCount mu fs c.length)).flatten, none, nc)
       | f :: rest =>
         if (c ++ (fs.take (wholeCount mu fs c.length)).flatten).length < mu then
           (c ++ (fs.take (wholeCount mu fs c.length)).flatten, some f, nc ++ rest.flatten)
         else (c ++ (fs.take (wholeCount mu fs c.length)).flatten, none, nc ++ (f :: rest).flatten)) := by
  induction fs generalizing c nc with
  | nil => simp [fillFronts, wholeCount]
  | cons f fs ih =>
    by_cases hfit : c.length + f.length ≤ mu
    · have := ih (c ++ f) nc (by simpa using hfit)
      simp only [List.length_append] at this
      simp [fillFronts, wholeCount, hfit, this, List.append_assoc, Nat.add_assoc]
    · by_cases hlt : c.length < mu
      · simp [fillFronts, wholeCount, hfit, hlt, fill_full]
      · have := fill_sat mu fs c (nc ++ f) (by omega)
        simp [fillFronts, wholeCount, hfit, hlt, this, List.append_assoc]

theorem perm_eraseIdx : ∀ (l : List ι) (i : Nat) (h : i < l.length), (l[i] :: l.eraseIdx i).Perm l
  | a :: l, 0, _ => by simp
  | a :: l, i + 1, h => by
    simp only [List.getElem_cons_succ, List.eraseIdx_cons_succ]
    exact (List.Perm.swap _ _ _).trans ((perm_eraseIdx l i (by simpa using h)).cons a)

/-- The least-contributor loop with an in-range indicator: it succeeds, removes exactly `cnt`
elements and keeps the rest. -/
theorem dropLeast_spec (indicator : List ι → Nat) (hind : ∀ l, l ≠ [] → indicator l < l.length) :
    ∀ (cnt : Nat) (mid nc : List ι), cnt ≤ mid.length →
      ∃ mid' removed, dropLeast indicator cnt mid nc = some (mid', nc ++ removed) ∧
        mid'.length = mid.length - cnt ∧ removed.length = cnt ∧ (mid' ++ removed).Perm mid
  | 0, mid, nc, _ => ⟨mid, [], by simp [dropLeast]⟩
  | cnt + 1, mid, nc, h => by
    have hne : mid ≠ [] := by intro e; subst e; simp at h
    have hi := hind mid hne
    simp only [dropLeast, List.getElem?_eq_getElem hi]
    have hlen : (mid.eraseIdx (indicator mid)).length = mid.length - 1 := by
      rw [List.length_eraseIdx, if_pos hi]
    obtain ⟨mid', removed, h1, h2, h3, h4⟩ :=
      dropLeast_spec indicator hind cnt (mid.eraseIdx (indicator mid)) (nc ++ [mid[indicator mid]])
        (by omega)
    refine ⟨mid', mid[indicator mid] :: removed, by simp [h1, List.append_assoc], by omega, by simp [h3], ?_⟩
    exact (List.perm_middle).trans ((h4.cons _).trans (perm_eraseIdx mid _ hi))

end C14Select
