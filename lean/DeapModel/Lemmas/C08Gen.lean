/-
Helper lemmas of the C08 translator tie (GenEq/C08.lean.tmpl): the Python notions of Core/GenPreludeC08.lean against the
list primitives the hand-written model Core/Archive.lean uses, the generic bridge `forLoop` (rendering of a Python `for`)
= option fold, and the preservation of `Len` (`len(keys) = len(items)`, the part of C08.mirror the index arithmetic of
`insert` / `remove` needs: outside it Python's negative-index / IndexError behaviour and the model's truncated
subtraction differ, and no history reaches such a state).
-/
import DeapModel.Core.GenPreludeC08

set_option linter.unusedSectionVars false
set_option linter.unusedSimpArgs false
set_option linter.unusedVariables false

namespace Gen08L
open Archive Fitness G8

variable {G α : Type} [LT α] [LE α] [DecidableEq α] [DecidableLT α] [DecidableLE α]
variable {β σ : Type}

/-- `len(self.keys) == len(self.items)` -/
def Len (h : HoF G α) : Prop := h.keys.length = h.items.length

/-- the model's loops are option folds -/
def foldOpt (f : σ → β → Option σ) : σ → List β → Option σ
  | s, [] => some s
  | s, x :: xs =>
    match f s x with
    | none => none
    | some s' => foldOpt f s' xs

theorem updateLoop_eq (sim : Ind G α → Ind G α → Bool) (p0 : Ind G α) :
    ∀ (l : List (Ind G α)) (h : HoF G α), updateLoop sim p0 h l = foldOpt (Archive.step sim p0) h l := by
  intro l
  induction l with
  | nil => intro h; rfl
  | cons x xs ih =>
    intro h
    simp only [updateLoop, foldOpt]
    cases Archive.step sim p0 h x <;> simp [ih]

theorem pfUpdate_eq (sim : Ind G α → Ind G α → Bool) :
    ∀ (l : List (Ind G α)) (h : HoF G α), pfUpdate sim h l = foldOpt (pfStep sim) h l := by
  intro l
  induction l with
  | nil => intro h; rfl
  | cons x xs ih =>
    intro h
    simp only [pfUpdate, foldOpt]
    cases pfStep sim h x <;> simp [ih]

theorem removeAll_eq : ∀ (l : List Nat) (h : HoF G α),
    removeAll h l = foldOpt (fun h i => remove h (Int.ofNat i)) h l := by
  intro l
  induction l with
  | nil => intro h; rfl
  | cons x xs ih =>
    intro h
    simp only [removeAll, foldOpt, Int.ofNat_eq_natCast]
    cases remove h (x : Int) <;> simp [ih]

/-- A rendered `for` whose body never breaks and is, under an invariant, the model's step. -/
theorem forLoop_fold (P : σ → Prop) (body : σ → β → Option (Ctl σ)) (f : σ → β → Option σ)
    (hP : ∀ s x s', P s → f s x = some s' → P s')
    (hb : ∀ s x, P s → body s x = (f s x).map Ctl.next) :
    ∀ (l : List β) (s : σ), P s → forLoop body l s = (foldOpt f s l).map (fun s' => (s', false)) := by
  intro l
  induction l with
  | nil => intro s _; rfl
  | cons x xs ih =>
    intro s hs
    simp only [forLoop, foldOpt, hb s x hs]
    cases hf : f s x with
    | none => simp
    | some s' => simp [ih s' (hP s x s' hs hf)]

/-- `for x in l: if p(x): break` `else:` — the flag is `any`. -/
theorem forLoop_any (p : β → Bool) (body : Unit → β → Option (Ctl Unit))
    (hb : ∀ s x, body s x = if p x then some (Ctl.brk ()) else some (Ctl.next ())) :
    ∀ l : List β, forLoop body l () = some ((), l.any p) := by
  intro l
  induction l with
  | nil => rfl
  | cons x xs ih =>
    simp only [forLoop, hb, List.any_cons]
    cases hp : p x <;> simp [ih]

/-! ### indices -/

theorem length_insertAt (l : List β) (i : Nat) (a : β) : (Py.insertAt l i a).length = l.length + 1 := by
  simp [Py.insertAt]; omega

theorem length_removeAt (l : List β) (k : Nat) (hk : k < l.length) : (Py.removeAt l k).length = l.length - 1 := by
  simp [Py.removeAt]; omega

theorem pyIndex_lt {len : Nat} {i : Int} {j : Nat} (h : pyIndex len i = some j) : j < len := by
  unfold pyIndex at h
  split at h <;> split at h <;> simp at h <;> omega

theorem normIdx_eq (len : Nat) (i : Int) : normIdx len i = pyIndex len i := by
  simp [normIdx, pyIndex]

theorem delItem_eq (l : List β) (i : Int) : delItem l i = (pyIndex l.length i).map (Py.removeAt l) := by
  unfold delItem
  rw [normIdx_eq]
  cases pyIndex l.length i <;> simp [Py.removeAt]

theorem delItem_nat (l : List β) (k : Nat) (hk : k < l.length) : delItem l (Int.ofNat k) = some (Py.removeAt l k) := by
  rw [delItem_eq]
  have : pyIndex l.length (k : Int) = some k := by
    simp [pyIndex]; omega
  simp [Int.ofNat_eq_natCast, this]

theorem getItem_neg_one (l : List β) : getItem l (-1 : Int) = l.getLast? := by
  unfold getItem normIdx
  cases l with
  | nil => simp
  | cons x xs =>
    have h1 : ¬ (0 : Int) ≤ -1 := by omega
    have h2 : -(Int.ofNat (x :: xs).length) ≤ (-1 : Int) := by simp; omega
    have h3 : ((-1 : Int) + Int.ofNat (x :: xs).length).toNat = xs.length := by simp; omega
    simp only [h1, h2, h3, if_true, if_false]
    rw [List.getLast?_eq_getElem?]
    simp

theorem getItem_zero_cons (x : β) (xs : List β) : getItem (x :: xs) (0 : Int) = some x := by
  simp [getItem, normIdx]

theorem getItem_zero_nil : getItem ([] : List β) (0 : Int) = none := by
  simp [getItem, normIdx]

theorem listInsert_nat (l : List β) (k : Nat) (x : β) (hk : k ≤ l.length) :
    listInsert l (Int.ofNat k) x = Py.insertAt l k x := by
  have : clampIdx l.length (Int.ofNat k) = k := by
    unfold clampIdx
    simp only [Int.ofNat_eq_natCast]
    have h1 : ¬ ((k : Int) < 0) := by omega
    have h2 : ¬ ((k : Int) > (l.length : Int)) := by omega
    simp [h1, h2]
  unfold listInsert
  rw [this]
  rfl

theorem pyMod_pos (a : Int) (n : Nat) (hn : n ≠ 0) : pyMod a (Int.ofNat n) = some (a % (n : Int)) := by
  have h0 : ¬ (Int.ofNat n = 0) := by simp; omega
  have h1 : (0 : Int) ≤ (n : Int) := by omega
  simp [pyMod, hn, Int.fmod_eq_emod_of_nonneg a h1]

theorem pyMod_zero (a : Int) : pyMod a (Int.ofNat 0) = none := by
  simp [pyMod]

theorem ofNat_sub' (a b : Nat) (h : b ≤ a) : Int.ofNat a - Int.ofNat b = Int.ofNat (a - b) := by
  simp only [Int.ofNat_eq_natCast]; omega

/-- the key position of `remove` as a natural number -/
theorem key_pos (len : Nat) (hl : len ≠ 0) (index : Int) :
    Int.ofNat len - (index % (len : Int) + 1) = Int.ofNat (len - ((index % (len : Int)).toNat + 1))
    ∧ len - ((index % (len : Int)).toNat + 1) < len := by
  have hpos : (0 : Int) < (len : Int) := by omega
  have h0 := Int.emod_nonneg index (Int.ne_of_gt hpos)
  have h1 := Int.emod_lt_of_pos index hpos
  constructor
  · simp only [Int.ofNat_eq_natCast]; omega
  · omega

theorem bisectLoop_le (a : List (Fit α)) (x : Fit α) :
    ∀ fuel lo hi, lo ≤ hi → bisectLoop a x fuel lo hi ≤ hi := by
  intro fuel
  induction fuel with
  | zero => intro lo hi h; simpa [bisectLoop] using h
  | succ n ih =>
    intro lo hi h
    unfold bisectLoop
    split
    · rename_i hlt
      have hm : (lo + hi) / 2 < hi := by omega
      simp only []
      split
      · split
        · exact Nat.le_trans (ih lo ((lo + hi) / 2) (by omega)) (Nat.le_of_lt hm)
        · exact ih ((lo + hi) / 2 + 1) hi (by omega)
      · exact h
    · exact h

theorem bisectRight_le (a : List (Fit α)) (x : Fit α) : Archive.bisectRight a x ≤ a.length :=
  bisectLoop_le a x _ 0 a.length (Nat.zero_le _)

/-! ### `Len` is preserved -/

theorem Len_insert {h : HoF G α} (hl : Len h) (x : Ind G α) : Len (Archive.insert h x) := by
  simp only [Len, Archive.insert, length_insertAt] at *
  omega

theorem Len_remove {h h' : HoF G α} {i : Int} (hl : Len h) (hr : remove h i = some h') : Len h' := by
  unfold remove at hr
  simp only [] at hr
  split at hr
  · simp at hr
  · rename_i hne
    split at hr
    · simp at hr
    · rename_i j hj
      have hj' := pyIndex_lt hj
      have hk := (key_pos h.items.length hne i).2
      simp only [Option.some.injEq] at hr
      subst hr
      simp only [Len] at *
      rw [length_removeAt _ _ (by omega), length_removeAt _ _ hj']
      omega

theorem Len_step {sim : Ind G α → Ind G α → Bool} {p0 : Ind G α} {h h' : HoF G α} {x : Ind G α}
    (hl : Len h) (hs : Archive.step sim p0 h x = some h') : Len h' := by
  unfold Archive.step at hs
  split at hs
  · simp only [Option.some.injEq] at hs; subst hs; exact Len_insert hl _
  · split at hs
    · simp at hs
    · split at hs
      · split at hs
        · simp only [Option.some.injEq] at hs; subst hs; exact hl
        · split at hs
          · split at hs
            · simp at hs
            · rename_i h'' hr
              simp only [Option.some.injEq] at hs; subst hs
              exact Len_insert (Len_remove hl hr) _
          · simp only [Option.some.injEq] at hs; subst hs; exact Len_insert hl _
      · simp only [Option.some.injEq] at hs; subst hs; exact hl

theorem Len_foldOpt (f : HoF G α → β → Option (HoF G α))
    (hf : ∀ s x s', Len s → f s x = some s' → Len s') :
    ∀ (l : List β) (h h' : HoF G α), Len h → foldOpt f h l = some h' → Len h' := by
  intro l
  induction l with
  | nil => intro h h' hl hr; simp only [foldOpt, Option.some.injEq] at hr; subst hr; exact hl
  | cons x xs ih =>
    intro h h' hl hr
    simp only [foldOpt] at hr
    cases hx : f h x with
    | none => simp [hx] at hr
    | some s' => simp only [hx] at hr; exact ih s' h' (hf h x s' hl hx) hr

theorem Len_removeAll {h h' : HoF G α} {l : List Nat} (hl : Len h) (hr : removeAll h l = some h') : Len h' := by
  rw [removeAll_eq] at hr
  exact Len_foldOpt _ (fun s x s' hs hx => Len_remove hs hx) l h h' hl hr

theorem Len_pfStep {sim : Ind G α → Ind G α → Bool} {h h' : HoF G α} {x : Ind G α}
    (hl : Len h) (hs : pfStep sim h x = some h') : Len h' := by
  unfold pfStep at hs
  simp only [] at hs
  split at hs
  · simp at hs
  · rename_i h'' hr
    simp only [Option.some.injEq] at hs
    subst hs
    have := Len_removeAll hl hr
    split
    · exact Len_insert this _
    · exact this

/-! ### the scan of `ParetoFront.update` -/

/-- the state of the rendered inner loop: the variables in the renderer's order -/
abbrev ScanSt := Bool × List Nat × Bool × Bool

def tup (s : Scan) : ScanSt := (s.isDominated, s.toRemove, s.dominatesOne, s.hasTwin)

/-- one iteration of the rendered scan, written by hand -/
def scanBody (sim : Ind G α → Ind G α → Bool) (ind : Ind G α) (st : ScanSt) (p : Nat × Ind G α) :
    Option (Ctl ScanSt) :=
  if (!st.2.2.1) && dom p.2.fit ind.fit then some (Ctl.brk (true, st.2.1, st.2.2.1, st.2.2.2))
  else if dom ind.fit p.2.fit then some (Ctl.next (st.1, st.2.1 ++ [p.1], true, st.2.2.2))
  else if Fitness.eq ind.fit p.2.fit && sim ind p.2 then some (Ctl.brk (st.1, st.2.1, st.2.2.1, true))
  else some (Ctl.next st)

/-- whether the scan was left by `break` -/
def scanBrk (sim : Ind G α → Ind G α → Bool) (ind : Ind G α) : List (Ind G α) → Scan → Bool
  | [], _ => false
  | hofer :: rest, s =>
    if !s.dominatesOne && dom hofer.fit ind.fit then true
    else if dom ind.fit hofer.fit then
      scanBrk sim ind rest { s with dominatesOne := true, toRemove := s.toRemove ++ [0] }
    else if Fitness.eq ind.fit hofer.fit && sim ind hofer then true
    else scanBrk sim ind rest s

theorem scanBrk_toRemove (sim : Ind G α → Ind G α → Bool) (ind : Ind G α) :
    ∀ (l : List (Ind G α)) (s s' : Scan), s.dominatesOne = s'.dominatesOne → scanBrk sim ind l s = scanBrk sim ind l s' := by
  intro l
  induction l with
  | nil => intro s s' _; rfl
  | cons x xs ih =>
    intro s s' h
    simp only [scanBrk, h]
    rw [ih { s with dominatesOne := true, toRemove := s.toRemove ++ [0] }
      { s' with dominatesOne := true, toRemove := s'.toRemove ++ [0] } rfl, ih s s' h]

theorem forLoop_scan (sim : Ind G α → Ind G α → Bool) (ind : Ind G α)
    (body : ScanSt → Nat × Ind G α → Option (Ctl ScanSt)) (hb : ∀ st p, body st p = scanBody sim ind st p) :
    ∀ (l : List (Ind G α)) (i : Nat) (s : Scan),
      forLoop body (enumFrom i l) (tup s) = some (tup (scan sim ind l i s), scanBrk sim ind l s) := by
  intro l
  induction l with
  | nil => intro i s; rfl
  | cons x xs ih =>
    intro i s
    simp only [enumFrom, forLoop, hb, scanBody, scan, scanBrk, tup]
    by_cases h1 : ((!s.dominatesOne) && dom x.fit ind.fit) = true
    · simp only [h1, ↓reduceIte, Bool.false_eq_true]
    · simp only [h1, ↓reduceIte, Bool.false_eq_true]
      by_cases h2 : dom ind.fit x.fit = true
      · simp only [h2, ↓reduceIte, Bool.false_eq_true]
        rw [scanBrk_toRemove sim ind xs { s with dominatesOne := true, toRemove := s.toRemove ++ [0] }
          { s with dominatesOne := true, toRemove := s.toRemove ++ [i] } rfl]
        exact ih (i + 1) { s with dominatesOne := true, toRemove := s.toRemove ++ [i] }
      · simp only [h2, ↓reduceIte, Bool.false_eq_true]
        by_cases h3 : (Fitness.eq ind.fit x.fit && sim ind x) = true
        · simp only [h3, ↓reduceIte, Bool.false_eq_true]
        · simp only [h3, ↓reduceIte, Bool.false_eq_true]
          exact ih (i + 1) s

theorem forLoop_scan0 (sim : Ind G α → Ind G α → Bool) (ind : Ind G α)
    (body : ScanSt → Nat × Ind G α → Option (Ctl ScanSt)) (hb : ∀ st p, body st p = scanBody sim ind st p)
    (l : List (Ind G α)) :
    forLoop body (enumFrom 0 l) (false, [], false, false)
      = some (tup (scan sim ind l 0 {}), scanBrk sim ind l {}) :=
  forLoop_scan sim ind body hb l 0 {}

end Gen08L
