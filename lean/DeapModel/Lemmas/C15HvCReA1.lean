import DeapModel.Lemmas.C15HvCRe0
/-!
C15 — the re-entered 3-D base case of `_hv.c`: one iteration of the main loop l.899-989 on an UNMARKED node with
everything a later re-entry reads (what happened to `domr`, `area`, `vol`, `ignore`, and which branch was taken) —
the statement; proved in `C15HvCReA2`.
-/
namespace HvC
set_option linter.unusedVariables false
open Hypervolume

/-- **one iteration of the main loop on an unmarked node `pp`** (`sweepBody_spec` with a richer frame): either the
tree successor weakly dominates `pp` (l.927-935: mark `2`, `domr := pp.z`, tree unchanged), or `pp` is linked and the
run of dominated predecessors is unlinked, each with `domr := pp.z` (l.937-987) -/
def SweepBodyRe_Statement : Prop :=
  ∀ (C : Cargo) (R : List ℚ) (tfuel pp : ℕ) (hyperv hypera : ℚ) (S : St),
    S.tree ≠ [] → S.tree.Nodup → 0 ∉ S.tree → pp ∉ S.tree → pp ≠ 0 →
    Stair (S.tree.map (item C)) → (item C pp).1 < rf R 0 → ¬ (2 : ℤ) ≤ ign S pp →
    hypera = hArea (rf R 0) (rf R 1) (S.tree.map (item C)) → S.tree.length < tfuel → 0 ≤ hgt C R S pp →
    ∃ r, sweepBody C R tfuel pp hyperv hypera S = some r ∧
      r.1 = hyperv + r.2.1 * hgt C R S pp ∧
      r.2.1 = hArea (rf R 0) (rf R 1) (r.2.2.tree.map (item C)) ∧
      PtrFrame S r.2.2 ∧
      r.2.2.tree ≠ [] ∧ r.2.2.tree.Nodup ∧ (∀ t ∈ r.2.2.tree, t = pp ∨ t ∈ S.tree) ∧
      Stair (r.2.2.tree.map (item C)) ∧
      (∀ q, (q = pp ∨ q ∈ S.tree) → ∃ t ∈ r.2.2.tree, (item C t).1 ≤ (item C q).1 ∧ (item C t).2 ≤ (item C q).2) ∧
      r.2.2.vol = HvSweep.tset S.vol pp 2 hyperv ∧ r.2.2.area = HvSweep.tset S.area pp 2 r.2.1 ∧
      (((∃ b ∈ S.tree, (item C b).1 ≤ (item C pp).1 ∧ (item C b).2 ≤ (item C pp).2) ∧ r.2.2.tree = S.tree ∧
          r.2.2.ignore = S.ignore.set pp 2 ∧ r.2.2.domr = S.domr.set pp (cg C pp 2)) ∨
       (r.2.2.ignore = S.ignore ∧ pp ∈ r.2.2.tree ∧ r.2.2.domr.length = S.domr.length ∧
          (∀ t ∈ S.tree, ¬ ((item C t).1 ≤ (item C pp).1 ∧ (item C t).2 ≤ (item C pp).2)) ∧
          (pp < S.domr.length → dr r.2.2 pp = rf R 2) ∧
          (∀ y, y ≠ pp → (y ∉ S.tree ∨ y ∈ r.2.2.tree) → dr r.2.2 y = dr S y) ∧
          (∀ a ∈ S.tree, a ∉ r.2.2.tree → (a < S.domr.length → dr r.2.2 a = cg C pp 2) ∧
             (item C pp).1 ≤ (item C a).1 ∧ (item C pp).2 ≤ (item C a).2 ∧ item C pp ≠ item C a)))

end HvC
