/-
Helper lemmas and specification vocabulary for C06: the double tournament's parsimony stage,
and the tape-trace characterisation of `repeatM`.
-/
import DeapModel.Lemmas.C06
import DeapModel.Lemmas.C06Wheel

set_option linter.unusedSectionVars false
set_option linter.unusedSimpArgs false
set_option linter.unusedVariables false

namespace C06L
open Selection

/-! ### `repeatM` as a trace of per-step tape segments -/

theorem repeatM_iff_trace {α D : Type} (step : Tape → Option (α × Tape)) (enc : D → Tape) (R : α → D → Prop)
    (hstep : ∀ t x t', step t = some (x, t') ↔ ∃ d, t = enc d ++ t' ∧ R x d) :
    ∀ (k : Nat) (t : Tape) (l : List α) (t' : Tape),
      Selection.repeatM step k t = some (l, t') ↔
        ∃ ds : List D, t = ds.flatMap enc ++ t' ∧ ds.length = k ∧ List.Forall₂ R l ds := by
  intro k
  induction k with
  | zero =>
    intro t l t'
    simp only [Selection.repeatM, Option.some.injEq, Prod.mk.injEq]
    constructor
    · rintro ⟨rfl, rfl⟩; exact ⟨[], by simp, rfl, List.Forall₂.nil⟩
    · rintro ⟨ds, h1, h2, h3⟩
      have : ds = [] := List.eq_nil_of_length_eq_zero h2
      subst this
      cases h3
      simp at h1; exact ⟨rfl, h1⟩
  | succ k ih =>
    intro t l t'
    rw [repeatM_succ_some]
    constructor
    · rintro ⟨x, t1, l', h1, h2, rfl⟩
      obtain ⟨d, rfl, hR⟩ := (hstep _ _ _).1 h1
      obtain ⟨ds, rfl, hlen, hall⟩ := (ih _ _ _).1 h2
      exact ⟨d :: ds, by simp, by simp [hlen], List.Forall₂.cons hR hall⟩
    · rintro ⟨ds, h1, h2, h3⟩
      cases h3 with
      | nil => simp at h2
      | @cons x d l' ds' hR hall =>
        refine ⟨x, ds'.flatMap enc ++ t', l', (hstep _ _ _).2 ⟨d, by simpa using h1, hR⟩, ?_, rfl⟩
        exact (ih _ _ _).2 ⟨ds', rfl, by simpa using h2, hall⟩

theorem forall₂_exists {α D : Type} {R : α → D → Prop} (ds : List D) (h : ∀ d ∈ ds, ∃ x, R x d) :
    ∃ l, List.Forall₂ R l ds := by
  induction ds with
  | nil => exact ⟨[], List.Forall₂.nil⟩
  | cons d ds ih =>
    obtain ⟨x, hx⟩ := h d (by simp)
    obtain ⟨l, hl⟩ := ih (fun d' hd' => h d' (by simp [hd']))
    exact ⟨x :: l, List.Forall₂.cons hx hl⟩

/-! ### The parsimony (size) tournament -/

/-- The statement's size tournament between `i1` and `i2` with the draw `r`: the smaller individual
wins iff `r < parsimony_size / 2`; with equal sizes the first one wins iff `r < 1/2`. -/
def parsimonyPick (pop : Pop) (ps : Rat) (i1 i2 : Nat) (r : Rat) : Nat :=
  if sizeAt pop i1 = sizeAt pop i2 then (if r < 1 / 2 then i1 else i2)
  else if sizeAt pop i1 < sizeAt pop i2 then (if r < ps / 2 then i1 else i2)
  else (if r < ps / 2 then i2 else i1)

theorem sizeTournStep_iff {pop : Pop} {ps : Rat} {select : Nat → Tape → Option (List Nat × Tape)}
    {t t' : Tape} {w : Nat} :
    sizeTournStep pop ps select t = some (w, t') ↔
      ∃ i1 i2 t1 r, select 2 t = some ([i1, i2], t1) ∧ popRandom t1 = some (r, t') ∧
        w = parsimonyPick pop ps i1 i2 r := by
  have key : ∀ (i1 i2 : Nat) (r : Rat),
      (if r < (if decide (sizeAt pop i1 = sizeAt pop i2) = true then (1 : Rat) / 2 else ps / 2) then
        (if decide (sizeAt pop i1 > sizeAt pop i2) = true then i2 else i1)
      else (if decide (sizeAt pop i1 > sizeAt pop i2) = true then i1 else i2))
      = parsimonyPick pop ps i1 i2 r := by
    intro i1 i2 r
    unfold parsimonyPick
    by_cases he : sizeAt pop i1 = sizeAt pop i2
    · simp [he]
    · by_cases hl : sizeAt pop i1 < sizeAt pop i2
      · have : ¬ sizeAt pop i1 > sizeAt pop i2 := by omega
        simp [he, hl, this]
      · have : sizeAt pop i1 > sizeAt pop i2 := by omega
        simp [he, hl, this]
  constructor
  · intro h
    unfold sizeTournStep at h
    split at h
    · next i1 i2 t1 hsel =>
      simp only at h
      cases hr : popRandom t1 with
      | none => simp [hr] at h
      | some p =>
        obtain ⟨r, t2⟩ := p
        simp only [hr, Option.some.injEq, Prod.mk.injEq] at h
        obtain ⟨h1, rfl⟩ := h
        exact ⟨i1, i2, t1, r, hsel, hr, by rw [← h1, key]⟩
    · simp at h
  · rintro ⟨i1, i2, t1, r, hsel, hr, rfl⟩
    unfold sizeTournStep
    simp only [hsel, hr, key]

/-- tape segment of one size tournament fed by `selRandom`: two choices and a coin -/
def enc3 (d : Nat × Nat × Rat) : Tape := [Draw.choice d.1, Draw.choice d.2.1, Draw.random d.2.2]

/-- a valid (pair, coin) triple for a population of `n` individuals -/
def Valid3 (n : Nat) (d : Nat × Nat × Rat) : Prop := d.1 < n ∧ d.2.1 < n ∧ 0 ≤ d.2.2 ∧ d.2.2 < 1

theorem sizeStep_random_iff (pop : Pop) (ps : Rat) (t t' : Tape) (w : Nat) :
    sizeTournStep pop ps (selRandom pop.length) t = some (w, t') ↔
      ∃ d : Nat × Nat × Rat, t = enc3 d ++ t' ∧
        (Valid3 pop.length d ∧ w = parsimonyPick pop ps d.1 d.2.1 d.2.2) := by
  rw [sizeTournStep_iff]
  constructor
  · rintro ⟨i1, i2, t1, r, hsel, hr, rfl⟩
    obtain ⟨rfl, _, hlt⟩ := selRandom_spec.1 hsel
    obtain ⟨rfl, h0, h1⟩ := popRandom_some.1 hr
    exact ⟨(i1, i2, r), by simp [enc3], ⟨hlt i1 (by simp), hlt i2 (by simp), h0, h1⟩, rfl⟩
  · rintro ⟨⟨i1, i2, r⟩, rfl, ⟨h1, h2, h3, h4⟩, rfl⟩
    refine ⟨i1, i2, Draw.random r :: t', r, ?_, popRandom_some.2 ⟨rfl, h3, h4⟩, rfl⟩
    apply selRandom_spec.2
    refine ⟨by simp [enc3], rfl, ?_⟩
    intro i hi
    simp only [List.mem_cons, List.not_mem_nil, or_false] at hi
    rcases hi with rfl | rfl
    · exact h1
    · exact h2

theorem forall₂_eq_map {α D : Type} {P : D → Prop} {f : D → α} {l : List α} {ds : List D}
    (h : List.Forall₂ (fun x d => P d ∧ x = f d) l ds) : l = ds.map f ∧ ∀ d ∈ ds, P d := by
  induction h with
  | nil => simp
  | cons h1 _ ih =>
    obtain ⟨rfl, hP⟩ := ih
    refine ⟨by simp [h1.2], ?_⟩
    intro d hd
    rcases List.mem_cons.1 hd with rfl | hd
    · exact h1.1
    · exact hP d hd

theorem forall₂_of_map {α D : Type} {P : D → Prop} {f : D → α} (ds : List D) (h : ∀ d ∈ ds, P d) :
    List.Forall₂ (fun x d => P d ∧ x = f d) (ds.map f) ds := by
  induction ds with
  | nil => exact List.Forall₂.nil
  | cons d ds ih =>
    exact List.Forall₂.cons ⟨h d (by simp), rfl⟩ (ih (fun d' hd' => h d' (by simp [hd'])))

/-- One fitness tournament over `fs` size-tournament winners (size tournament first). -/
theorem fitStep_size_iff (pop : Pop) (ps : Rat) (fs : Nat) (t t' : Tape) (w : Nat) :
    fitTournStep pop fs (sizeTournament pop ps (selRandom pop.length)) t = some (w, t') ↔
      ∃ trips : List (Nat × Nat × Rat), t = trips.flatMap enc3 ++ t' ∧
        (trips.length = fs ∧ (∀ d ∈ trips, Valid3 pop.length d) ∧
          pyMax (fitGt pop) (trips.map (fun d => parsimonyPick pop ps d.1 d.2.1 d.2.2)) = some w) := by
  have hrep := repeatM_iff_trace (sizeTournStep pop ps (selRandom pop.length)) enc3
    (fun x d => Valid3 pop.length d ∧ x = parsimonyPick pop ps d.1 d.2.1 d.2.2)
    (fun t x t' => sizeStep_random_iff pop ps t t' x)
  unfold fitTournStep
  constructor
  · intro h
    cases hs : sizeTournament pop ps (selRandom pop.length) fs t with
    | none => simp [hs] at h
    | some p =>
      obtain ⟨asp, t1⟩ := p
      simp only [hs] at h
      cases hm : pyMax (fitGt pop) asp with
      | none => simp [hm] at h
      | some w' =>
        simp only [hm, Option.some.injEq, Prod.mk.injEq] at h
        obtain ⟨rfl, rfl⟩ := h
        obtain ⟨trips, rfl, hlen, hall⟩ := (hrep fs t asp t1).1 hs
        obtain ⟨rfl, hv⟩ := forall₂_eq_map hall
        exact ⟨trips, rfl, hlen, hv, hm⟩
  · rintro ⟨trips, rfl, hlen, hv, hm⟩
    have hs : sizeTournament pop ps (selRandom pop.length) fs (trips.flatMap enc3 ++ t')
        = some (trips.map (fun d => parsimonyPick pop ps d.1 d.2.1 d.2.2), t') :=
      (hrep fs _ _ t').2 ⟨trips, rfl, hlen, forall₂_of_map trips hv⟩
    simp only [hs, hm]

/-- tape segment of one fitness-first selection: two groups of choices and a coin -/
def encF (d : List Nat × List Nat × Rat) : Tape :=
  d.1.map Draw.choice ++ (d.2.1.map Draw.choice ++ [Draw.random d.2.2])

theorem fitStep_random_iff (pop : Pop) (fs : Nat) (t t' : Tape) (w : Nat) :
    fitTournStep pop fs (selRandom pop.length) t = some (w, t') ↔
      ∃ g : List Nat, t = g.map Draw.choice ++ t' ∧
        ((g.length = fs ∧ ∀ a ∈ g, a < pop.length) ∧ pyMax (fitGt pop) g = some w) := by
  unfold fitTournStep
  constructor
  · intro h
    cases hs : selRandom pop.length fs t with
    | none => simp [hs] at h
    | some p =>
      obtain ⟨asp, t1⟩ := p
      simp only [hs] at h
      cases hm : pyMax (fitGt pop) asp with
      | none => simp [hm] at h
      | some w' =>
        simp only [hm, Option.some.injEq, Prod.mk.injEq] at h
        obtain ⟨rfl, rfl⟩ := h
        obtain ⟨rfl, hlen, hlt⟩ := selRandom_spec.1 hs
        exact ⟨asp, rfl, ⟨hlen, hlt⟩, hm⟩
  · rintro ⟨g, rfl, ⟨hlen, hlt⟩, hm⟩
    have hs : selRandom pop.length fs (g.map Draw.choice ++ t') = some (g, t') :=
      selRandom_spec.2 ⟨rfl, hlen, hlt⟩
    simp only [hs, hm]

/-- One size tournament between two fitness-tournament winners (fitness tournament first). -/
theorem sizeStep_fit_iff (pop : Pop) (ps : Rat) (fs : Nat) (t t' : Tape) (w : Nat) :
    sizeTournStep pop ps (fitTournament pop fs (selRandom pop.length)) t = some (w, t') ↔
      ∃ d : List Nat × List Nat × Rat, t = encF d ++ t' ∧
        (d.1.length = fs ∧ d.2.1.length = fs ∧ (∀ a ∈ d.1, a < pop.length) ∧ (∀ a ∈ d.2.1, a < pop.length) ∧
          0 ≤ d.2.2 ∧ d.2.2 < 1 ∧
          ∃ w1 w2, pyMax (fitGt pop) d.1 = some w1 ∧ pyMax (fitGt pop) d.2.1 = some w2 ∧
            w = parsimonyPick pop ps w1 w2 d.2.2) := by
  have hrep := repeatM_iff_trace (fitTournStep pop fs (selRandom pop.length)) (fun g : List Nat => g.map Draw.choice)
    (fun x g => (g.length = fs ∧ ∀ a ∈ g, a < pop.length) ∧ pyMax (fitGt pop) g = some x)
    (fun t x t' => fitStep_random_iff pop fs t t' x)
  rw [sizeTournStep_iff]
  constructor
  · rintro ⟨i1, i2, t1, r, hsel, hr, rfl⟩
    obtain ⟨gs, rfl, hlen, hall⟩ := (hrep 2 t [i1, i2] t1).1 hsel
    obtain ⟨rfl, h0, h1⟩ := popRandom_some.1 hr
    match gs, hlen, hall with
    | [g1, g2], _, hall =>
      cases hall with
      | cons ha hrest =>
        cases hrest with
        | cons hb _ =>
          exact ⟨(g1, g2, r), by simp [encF], ha.1.1, hb.1.1, ha.1.2, hb.1.2, h0, h1, i1, i2, ha.2, hb.2, rfl⟩
  · rintro ⟨⟨g1, g2, r⟩, rfl, hl1, hl2, hv1, hv2, h0, h1, w1, w2, hm1, hm2, rfl⟩
    refine ⟨w1, w2, Draw.random r :: t', r, ?_, popRandom_some.2 ⟨rfl, h0, h1⟩, rfl⟩
    refine (hrep 2 _ _ _).2 ⟨[g1, g2], by simp [encF], rfl, ?_⟩
    exact List.Forall₂.cons ⟨⟨hl1, hv1⟩, hm1⟩ (List.Forall₂.cons ⟨⟨hl2, hv2⟩, hm2⟩ List.Forall₂.nil)

end C06L
