/-
C08 at heap level — `insert` (= `deepcopy` + list bookkeeping) and `remove`: each keeps the invariant of
the heap-level archive and commutes with the abstraction to the pure archive.
-/
import DeapModel.Lemmas.C08HeapBase

set_option linter.unusedSectionVars false
set_option linter.unusedSimpArgs false
set_option linter.unusedVariables false

namespace C08H
open Heap Heap.Copy ArchiveHeap
open Archive (Ind HoF)
open Fitness (Fit)
open C08L (mem_insertAt map_insertAt reverse_insertAt pairwise_insertAt length_insertAt map_eraseIdx'
  reverse_eraseIdx removeAt_eq_eraseIdx)

variable {α : Type} [LinearOrder α]

/-! ### The copy of a reference is the first object the copier allocates -/

theorem copyVal_root {ct : ClassTable} {n : Nat} {st st' : State} {x : Oid} {v : Val}
    (hm : lookup x st.memo = none) (h : copyVal ct n st (.ref x) = some (st', v)) : v = .ref st.next := by
  cases n with
  | zero => simp [copyVal] at h
  | succ n =>
    rw [copyVal] at h
    simp only [hm] at h
    repeat' split at h
    all_goals first | (cases h; done) | skip
    all_goals (injection h with h; injection h with _ h; exact h.symm)

theorem clone_root {ct : ClassTable} {n : Nat} {objs : Oid → Option Obj} {N : Nat} {x : Oid}
    {objs' : Oid → Option Obj} {next' : Nat} {v' : Val}
    (h : clone ct n objs N (.ref x) = some (objs', next', v')) : v' = .ref N := by
  unfold clone at h
  split at h
  · cases h
  · rename_i st v hc
    cases h
    exact copyVal_root (st := ⟨objs, N, []⟩) rfl hc

/-! ### `bisect_right` stays inside the list (sorted or not) -/

theorem bisectLoop_bounds (a : List (Fit α)) (x : Fit α) :
    ∀ fuel lo hi, lo ≤ hi →
      lo ≤ Archive.bisectLoop a x fuel lo hi ∧ Archive.bisectLoop a x fuel lo hi ≤ hi := by
  intro fuel
  induction fuel with
  | zero => intro lo hi h; exact ⟨Nat.le_refl _, h⟩
  | succ fuel ih =>
    intro lo hi h
    simp only [Archive.bisectLoop]
    split
    · next hlt =>
      split
      · next y _ =>
        split
        · have := ih lo ((lo + hi) / 2) (by omega)
          exact ⟨this.1, by omega⟩
        · have := ih ((lo + hi) / 2 + 1) hi (by omega)
          exact ⟨by omega, this.2⟩
      · exact ⟨Nat.le_refl _, h⟩
    · exact ⟨Nat.le_refl _, h⟩

theorem bisectRight_le' (a : List (Fit α)) (x : Fit α) : Archive.bisectRight a x ≤ a.length :=
  (bisectLoop_bounds a x (a.length + 1) 0 a.length (Nat.zero_le _)).2

/-! ### Consequences of the invariant -/

section
variable {P : Params α} {base : Nat} {hs : HState}

theorem Inv.len (hI : Inv P base hs) : hs.keys.length = hs.items.length := by
  have := congrArg List.length hI.keyof
  simpa using this

theorem Inv.member_fit (hI : Inv P base hs) {x : Oid} (hx : x ∈ hs.items) :
    ∃ k, k ∈ hs.keys ∧ instFit P hs.objs x = some k := by
  have h1 : instFit P hs.objs x ∈ (hs.items.map (instFit P hs.objs)).reverse :=
    List.mem_reverse.2 (List.mem_map.2 ⟨x, hx, rfl⟩)
  rw [← hI.keyof] at h1
  obtain ⟨k, hk, e⟩ := List.mem_map.1 h1
  exact ⟨k, hk, e.symm⟩

theorem Inv.key_member (hI : Inv P base hs) {k : Oid} (hk : k ∈ hs.keys) :
    ∃ x ∈ hs.items, instFit P hs.objs x = some k := by
  have h1 : some k ∈ hs.keys.map some := List.mem_map.2 ⟨k, hk, rfl⟩
  rw [hI.keyof] at h1
  obtain ⟨x, hx, e⟩ := List.mem_map.1 (List.mem_reverse.1 h1)
  exact ⟨x, hx, e⟩

theorem Inv.member_lt (hI : Inv P base hs) {x : Oid} (hx : x ∈ hs.items) : InLog hs.log x ∧ x < hs.next := by
  obtain ⟨hi, hm, _⟩ := hI.members x hx
  obtain ⟨_, h2, h3⟩ := hI.logwf _ hm
  have h2' : x < hi := h2
  have h3' : hi ≤ hs.next := h3
  exact ⟨⟨(x, hi), hm, Nat.le_refl _, h2⟩, Nat.lt_of_lt_of_le h2' h3'⟩

/-- A member cannot reach an object that is mutable and outside the archive's ranges. -/
theorem Inv.member_noreach (hI : Inv P base hs) {x y : Oid} {o : Obj} (hx : x ∈ hs.items)
    (hy : hs.objs y = some o) (hm : o.mutable = true) (hl : ¬ InLog hs.log y) :
    ¬ Reach hs.objs (.ref x) y := by
  intro hr
  obtain ⟨hi, hmem, hreach⟩ := hI.members x hx
  rcases hreach y hr with ⟨h1, h2⟩ | ⟨o', ho', hm'⟩
  · exact hl ⟨(x, hi), hmem, h1, h2⟩
  · rw [hy] at ho'
    cases ho'
    rw [hm] at hm'
    cases hm'

/-- What the archive reads from its members and keys survives a heap extension. -/
theorem Inv.ext_items (hI : Inv P base hs) {hs' : HState} (hE : HExt hs hs') :
    (hs.items.map (instFit P hs'.objs) = hs.items.map (instFit P hs.objs)) ∧
    (hs.items.map (fun x => (viewInd P hs'.objs x).map erase)
      = hs.items.map (fun x => (viewInd P hs.objs x).map erase)) ∧
    (hs.keys.map (fitAt P hs'.objs) = hs.keys.map (fitAt P hs.objs)) := by
  refine ⟨?_, ?_, ?_⟩
  · apply List.map_congr_left
    intro x hx
    obtain ⟨k, _, hk⟩ := hI.member_fit hx
    rw [(view_ext hI.closed hE hk).2.1, hk]
  · apply List.map_congr_left
    intro x hx
    obtain ⟨k, _, hk⟩ := hI.member_fit hx
    rw [(view_ext hI.closed hE hk).2.2.2]
  · apply List.map_congr_left
    intro k hk
    obtain ⟨x, _, hx⟩ := hI.key_member hk
    exact (view_ext hI.closed hE hx).2.2.1

end

/-! ### Submitted individuals -/

/-- An individual the archive can be shown: it is not one of the archive's own objects, `deepcopy` can copy
it (finite depth within the recursion bound, the side conditions of the copy hooks of C16 hold), and it has
a `fitness`. -/
def Subm (P : Params α) (hs : HState) (x : Oid) : Prop :=
  ¬ InLog hs.log x ∧ Within P.ct CopyOK hs.objs P.fuel (.ref x) ∧ ∃ f, instFit P hs.objs x = some f

theorem Subm.ext {P : Params α} {base : Nat} {hs hs' : HState} (hI : Inv P base hs) (hE : HExt hs hs')
    {x : Oid} (h : Subm P hs x) :
    Subm P hs' x ∧ viewInd P hs'.objs x = viewInd P hs.objs x := by
  obtain ⟨h1, h2, f, hf⟩ := h
  obtain ⟨o, ho, _, _⟩ := instFit_spec hf
  have hx : x < hs.next := lt_of_defined hI.closed ho
  have hv := view_ext hI.closed hE hf
  refine ⟨⟨fun hl => ?_, Within_ext P.ct hs.objs hs'.objs (keeps_of_agree hI.closed hE.objs) _ _ h2,
    f, hv.2.1⟩, hv.2.2.2⟩
  rcases hE.logNew x hl with h | h
  · exact h1 h
  · exact absurd hx (Nat.not_lt.2 h)

/-! ### `insert` -/

theorem insertH_spec {P : Params α} {base : Nat} {hs : HState} (hct : CTOk P.ct) (hI : Inv P base hs)
    {x f : Oid} (hx : ¬ InLog hs.log x) (hw : Within P.ct CopyOK hs.objs P.fuel (.ref x))
    (hf : instFit P hs.objs x = some f) :
    ∃ hs' f', insertH P hs x = some hs' ∧ Inv P base hs' ∧ HExt hs hs' ∧
      hs'.items = Py.insertAt hs.items (hs.items.length -
        Archive.bisectRight (hs.keys.map (fitAt P hs.objs)) (fitAt P hs.objs f)) hs.next ∧
      hs'.keys = Py.insertAt hs.keys
        (Archive.bisectRight (hs.keys.map (fitAt P hs.objs)) (fitAt P hs.objs f)) f' ∧
      (∀ m, Heap.abs hs'.objs m (.ref hs.next) = Heap.abs hs.objs m (.ref x)) ∧
      instFit P hs'.objs hs.next = some f' ∧ fitAt P hs'.objs f' = fitAt P hs.objs f ∧
      hs'.log = hs.log ++ [(hs.next, hs'.next)] := by
  obtain ⟨objs', next', v', hcl, habs, _, hcl', hle, hold, _, hnew⟩ :=
    clone_facts hct hI.closed P.fuel (.ref x) hw
  have hv' := clone_root hcl
  subst hv'
  obtain ⟨o, ho, hl, hc⟩ := instFit_spec hf
  obtain ⟨fo, hfo⟩ := Option.isSome_iff_exists.1 (hI.closed.refs x o ho f hc)
  obtain ⟨f', hf', hf'd, hf'v⟩ := copy_fit (P := P) habs hf hfo
  obtain ⟨oN, hoN, _, _⟩ := instFit_spec hf'
  have hNlt : hs.next < next' := lt_of_defined hcl' hoN
  -- the state after the copy, before the bookkeeping
  have hE0 : HExt hs { hs with objs := objs', next := next', log := hs.log ++ [(hs.next, next')] } :=
    ⟨hle, hold, fun y hy => by
        rcases (InLog_append _ _ _).1 hy with h | h
        · exact Or.inl h
        · exact Or.inr h.1,
      fun y hy => (InLog_append _ _ _).2 (Or.inl hy), rfl, fun _ h => Or.inl h⟩
  obtain ⟨hmf, _, hkv⟩ := hI.ext_items hE0
  simp only at hmf hkv
  have hlen := hI.len
  have hi := bisectRight_le' (hs.keys.map (fitAt P hs.objs)) (fitAt P hs.objs f)
  simp only [List.length_map] at hi
  refine ⟨{ hs with objs := objs', next := next'
                    items := Py.insertAt hs.items (hs.items.length -
                      Archive.bisectRight (hs.keys.map (fitAt P hs.objs)) (fitAt P hs.objs f)) hs.next
                    keys := Py.insertAt hs.keys
                      (Archive.bisectRight (hs.keys.map (fitAt P hs.objs)) (fitAt P hs.objs f)) f'
                    log := hs.log ++ [(hs.next, next')] }, f',
    by simp only [insertH, hcl, fitRef_of_instFit hf', hkv, hf'v], ?_,
    ⟨hle, hold, hE0.logNew, hE0.logOld, rfl, fun x' hx' => by
      rcases (mem_insertAt _ _ _ _).1 hx' with h | h
      · exact Or.inr (Nat.le_of_eq h.symm)
      · exact Or.inl h⟩, rfl, rfl, habs, hf', hf'v, rfl⟩
  refine ⟨hcl', Nat.le_trans hI.base_le hle, ?_, ?_, ?_, ?_, ?_, ?_⟩
  · -- logwf
    intro r hr
    dsimp only at hr ⊢
    rcases List.mem_append.1 hr with hr | hr
    · obtain ⟨a, b, c⟩ := hI.logwf r hr
      exact ⟨a, b, Nat.le_trans c hle⟩
    · simp only [List.mem_singleton] at hr
      subst hr
      exact ⟨hI.base_le, hNlt, Nat.le_refl _⟩
  · -- logord
    dsimp only
    rw [List.pairwise_append]
    refine ⟨hI.logord, List.pairwise_singleton _ _, ?_⟩
    intro r hr s hs'
    simp only [List.mem_singleton] at hs'
    subst hs'
    exact (hI.logwf r hr).2.2
  · -- outside
    intro y oy hy hnl z hz
    dsimp only at hy hnl ⊢
    have hnl1 : ¬ InLog hs.log y := fun h => hnl ((InLog_append _ _ _).2 (Or.inl h))
    have hnl2 : ¬ (hs.next ≤ y ∧ y < next') := fun h => hnl ((InLog_append _ _ _).2 (Or.inr h))
    have hylt : y < next' := lt_of_defined hcl' hy
    have hyN : y < hs.next := by oomega
    rw [hold y hyN] at hy
    have hzd := hI.closed.refs y oy hy z hz
    obtain ⟨oz, hoz⟩ := Option.isSome_iff_exists.1 hzd
    have hzN : z < hs.next := lt_of_defined hI.closed hoz
    intro hzl
    rcases (InLog_append _ _ _).1 hzl with h | h
    · exact hI.outside y oy hy hnl1 z hz h
    · have h1 : hs.next ≤ z := h.1
      oomega
  · -- members
    intro x' hx'
    dsimp only at hx' ⊢
    rw [mem_insertAt] at hx'
    rcases hx' with rfl | hx'
    · refine ⟨next', List.mem_append_right _ (List.mem_singleton.2 rfl), fun y hr => ?_⟩
      rcases hnew y hr with h | ⟨oy, hoy, hm⟩
      · left
        refine ⟨h, ?_⟩
        have hd := Reach_defined hcl' _ y hr (fun z hz => by cases hz; rw [hoN]; rfl)
        obtain ⟨oy, hoy⟩ := Option.isSome_iff_exists.1 hd
        exact lt_of_defined hcl' hoy
      · right
        exact ⟨oy, by rw [hold y (lt_of_defined hI.closed hoy)]; exact hoy, hm⟩
    · obtain ⟨hi', hmem, hreach⟩ := hI.members x' hx'
      refine ⟨hi', List.mem_append_left _ hmem, fun y hr => ?_⟩
      have hx'N := (hI.member_lt hx').2
      obtain ⟨hyN, hr0⟩ := Reach_old hs.objs objs' hs.next hI.closed hold (.ref x') y hr
        (fun z hz => by cases hz; exact hx'N)
      rcases hreach y hr0 with h | ⟨oy, hoy, hm⟩
      · exact Or.inl h
      · exact Or.inr ⟨oy, by rw [hold y hyN]; exact hoy, hm⟩
  · -- nodup
    dsimp only
    apply pairwise_insertAt _ _ _ hI.nodup
    · intro x' hx'
      have := (hI.member_lt hx').2
      show x' ≠ hs.next
      oomega
    · intro x' hx'
      have := (hI.member_lt hx').2
      show hs.next ≠ x'
      oomega
  · -- keyof
    show (Py.insertAt hs.keys _ f').map some = ((Py.insertAt hs.items _ hs.next).map (instFit P objs')).reverse
    rw [map_insertAt, map_insertAt, hmf, hf', reverse_insertAt _ _ _ (by simp), ← hI.keyof]
    congr 1
    simp only [List.length_map]
    omega

/-! ### `remove` -/

/-- The result of `remove` on an in-range position (heap level). -/
def erasedH (hs : HState) (j : Nat) : HState :=
  { hs with keys := hs.keys.eraseIdx (hs.items.length - 1 - j), items := hs.items.eraseIdx j }

theorem removeH_spec (hs : HState) (index : Int) (j : Nat)
    (hj : Archive.pyIndex hs.items.length index = some j) :
    j < hs.items.length ∧ removeH hs index = some (erasedH hs j) := by
  obtain ⟨h1, h2⟩ := C08L.pyIndex_spec _ _ _ hj
  refine ⟨h1, ?_⟩
  unfold removeH erasedH
  have : hs.items.length ≠ 0 := by omega
  simp only [this, ↓reduceIte, hj, h2, removeAt_eq_eraseIdx]
  congr 3
  omega

theorem erasedH_inv {P : Params α} {base : Nat} {hs : HState} (hI : Inv P base hs) (j : Nat)
    (hj : j < hs.items.length) : Inv P base (erasedH hs j) := by
  have sub : (hs.items.eraseIdx j).Sublist hs.items := List.eraseIdx_sublist _ _
  refine ⟨hI.closed, hI.base_le, hI.logwf, hI.logord, hI.outside,
    fun x hx => hI.members x (sub.mem hx), List.Pairwise.sublist sub hI.nodup, ?_⟩
  show (hs.keys.eraseIdx _).map some = ((hs.items.eraseIdx j).map (instFit P hs.objs)).reverse
  rw [map_eraseIdx', map_eraseIdx', reverse_eraseIdx _ _ (by simpa using hj), ← hI.keyof]
  simp

theorem erasedH_rel {P : Params α} {hs : HState} {h : HoF PV α} (hR : Rel P hs h) (j : Nat) :
    Rel P (erasedH hs j) (C08L.erased h j) := by
  have hlen : hs.items.length = h.items.length := by
    have := congrArg List.length hR.items
    simpa using this
  refine ⟨hR.msz, ?_, ?_⟩
  · show h.keys.eraseIdx _ = (hs.keys.eraseIdx _).map (fitAt P hs.objs)
    rw [map_eraseIdx', ← hR.keys, hlen]
  · show (hs.items.eraseIdx j).map (fun x => (viewInd P hs.objs x).map erase)
      = (h.items.eraseIdx j).map (fun it => some (erase it))
    rw [map_eraseIdx', map_eraseIdx', hR.items]

theorem erasedH_ext (hs : HState) (j : Nat) : HExt hs (erasedH hs j) :=
  ⟨Nat.le_refl _, fun _ _ => rfl, fun _ h => Or.inl h, fun _ h => h, rfl,
    fun x hx => Or.inl ((List.eraseIdx_sublist _ _).mem hx)⟩

end C08H
