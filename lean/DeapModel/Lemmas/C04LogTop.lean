/-
C04 lemmas, part 10: from the specification of `sortNDHelperA` to the statement about
`sortLogNondominated`: ranks that satisfy the specification are the dominance depths (certificate),
the fronts built from them are the peeling, front by front.
-/
import DeapModel.Lemmas.C04LogOrder
import DeapModel.Lemmas.C04LogKeys
import DeapModel.Lemmas.C04Cert
import DeapModel.Lemmas.C04Std
import Mathlib.Data.List.Nodup

set_option linter.unusedSectionVars false
set_option linter.unusedSimpArgs false
set_option linter.unusedVariables false

namespace C04L
open NDSort

variable {α : Type} [Field α] [LinearOrder α] [IsStrictOrderedRing α] [Inhabited α]

/-- Specification of `sortNDHelperA(S, obj, front)`: every fitness of `S` ends with
`max(old rank, 1 + max final rank of its dominators in S)` (dominance on objectives `0..obj`),
no other entry changes. -/
def ASpec (obj : Nat) (S : List (List α)) (front front' : FrontDict α) : Prop :=
  (∀ f, f ∉ S → dget front' 0 f = dget front 0 f) ∧
  ∀ f ∈ S, Raised (fun f => dget front' 0 f) (fun f => dget front 0 f) f (fun g => g ∈ S ∧ domOn (obj + 1) g f)

theorem dget_init_zero (fs : List (List α)) (f : List α) :
    dget (fs.map (fun f => (f, 0)) : FrontDict α) 0 f = 0 := by
  induction fs with
  | nil => rfl
  | cons a fs ih => simp only [List.map_cons, dget]; split <;> simp [ih]

/-- ranks meeting the specification on all `m` objectives, started from 0, are the depths -/
theorem ranks_eq_depth (m : Nat) (hm : 1 ≤ m) (fs : List (List α)) (hlen : ∀ f ∈ fs, f.length = m)
    (front0 front' : FrontDict α) (h0 : ∀ f, dget front0 0 f = 0) (hA : ASpec (m - 1) fs front0 front') :
    ∀ f ∈ fs, dget front' 0 f = depth domW fs f := by
  have hS := spo_domW m fs hlen
  have hm' : m - 1 + 1 = m := by omega
  refine cert_unique (fun f => dget front' 0 f) (depth domW fs) ?_ ?_ (depth_lt_of_dom fs hS) (depth_pred fs hS)
  · intro x hx y hy hd
    have hd' : domOn (m - 1 + 1) y x := by
      rw [hm']; exact (domW_iff_domOn m y x (hlen y hy) (hlen x hx)).1 hd
    exact (hA.2 x hx).lt ⟨hy, hd'⟩
  · intro x hx hpos
    obtain ⟨g, ⟨hg, hd⟩, he⟩ := (hA.2 x hx).attained (by simp only [h0]; exact hpos)
    rw [hm'] at hd
    exact ⟨g, hg, (domW_iff_domOn m g x (hlen g hg) (hlen x hx)).2 hd, he⟩

/-! ### the extraction loop -/

theorem logFronts_fold_getElem? (rank : List α → Nat) (g : List α → List (Ind α)) (i : Nat) :
    ∀ (fs : List (List α)) (pf : List (List (Ind α))),
      (fs.foldl (fun pf fit => pf.modify (rank fit) (· ++ g fit)) pf)[i]? =
        pf[i]?.map (· ++ (fs.filter (fun f => rank f == i)).flatMap g)
  | [], pf => by simp
  | a :: fs, pf => by
    simp only [List.foldl_cons]
    rw [logFronts_fold_getElem? rank g i fs, List.getElem?_modify]
    by_cases h : rank a = i
    · subst h
      cases hpf : pf[rank a]? with
      | none => simp
      | some x => simp [List.filter_cons, List.append_assoc]
    · have h' : ¬ (rank a == i) = true := by simpa using h
      cases hpf : pf[i]? with
      | none => simp
      | some x => simp [List.filter_cons, h, h']

theorem logFronts_length (fs : List (List α)) (front : FrontDict α) (uf : List (List α × List (Ind α))) :
    (logFronts fs front uf).length = (dvalues front).foldl max 0 + 1 := by
  have : ∀ (l : List (List α)) (pf : List (List (Ind α))),
      (l.foldl (fun pf fit => pf.modify (dget front 0 fit) (· ++ dget uf [] fit)) pf).length = pf.length := by
    intro l; induction l with
    | nil => intro pf; rfl
    | cons a l ih => intro pf; simp only [List.foldl_cons]; rw [ih, List.length_modify]
  simp only [logFronts]; rw [this]; simp

/-- the fitnesses of rank `i`, for `i < nb` -/
def rankFronts (rank : List α → Nat) (fs : List (List α)) (nb : Nat) : List (List (List α)) :=
  (List.range nb).map (fun i => fs.filter (fun f => rank f == i))

theorem logFronts_eq_map (fs : List (List α)) (front : FrontDict α) (uf : List (List α × List (Ind α))) :
    logFronts fs front uf =
      (rankFronts (fun f => dget front 0 f) fs ((dvalues front).foldl max 0 + 1)).map
        (fun F => F.flatMap (dget uf [])) := by
  apply List.ext_getElem?
  intro i
  have h := logFronts_fold_getElem? (fun f => dget front 0 f) (dget uf []) i fs
    (List.replicate ((dvalues front).foldl max 0 + 1) [])
  simp only [logFronts, rankFronts]
  rw [h]
  by_cases hi : i < (dvalues front).foldl max 0 + 1
  · simp [List.getElem?_replicate, hi, List.getElem?_range]
  · simp [List.getElem?_replicate, hi]

theorem rankFronts_flatten_perm (rank : List α → Nat) (fs : List (List α)) : ∀ n,
    (rankFronts rank fs n).flatten.Perm (fs.filter (fun f => decide (rank f < n)))
  | 0 => by simp [rankFronts]
  | n + 1 => by
    have ih := rankFronts_flatten_perm rank fs n
    have e : rankFronts rank fs (n + 1) = rankFronts rank fs n ++ [fs.filter (fun f => rank f == n)] := by
      simp [rankFronts, List.range_succ]
    rw [e, List.flatten_append]
    simp only [List.flatten_cons, List.flatten_nil, List.append_nil]
    refine (List.Perm.append_right _ ih).trans ?_
    have key := List.filter_append_perm (fun f : List α => decide (rank f < n))
      (fs.filter (fun f => decide (rank f < n + 1)))
    rw [List.filter_filter, List.filter_filter] at key
    have e1 : fs.filter (fun f => decide (rank f < n) && decide (rank f < n + 1)) =
        fs.filter (fun f => decide (rank f < n)) := by
      apply List.filter_congr; intro f _
      by_cases h : rank f < n
      · simp [h]; omega
      · simp [h]
    have e2 : fs.filter (fun f => (!decide (rank f < n)) && decide (rank f < n + 1)) =
        fs.filter (fun f => rank f == n) := by
      apply List.filter_congr; intro f _
      by_cases h : rank f = n
      · simp [h]
      · have : ¬ (rank f == n) = true := by simpa using h
        simp only [this]
        by_cases h' : rank f < n
        · simp [h']
        · simp [h']; omega
    rw [e1, e2] at key
    exact key

theorem frontIdx_map_range' {β : Type} [DecidableEq β] (F : Nat → List β) (x : β) (r : Nat)
    (hF : ∀ j, x ∈ F j ↔ j = r) : ∀ (n s : Nat), s ≤ r → r < s + n →
    frontIdx ((List.range' s n).map F) x = r - s
  | 0, s, h1, h2 => by omega
  | n + 1, s, h1, h2 => by
    rw [List.range'_succ, List.map_cons, frontIdx]
    by_cases e : s = r
    · subst e; rw [if_pos ((hF s).2 rfl)]; omega
    · rw [if_neg (fun h => e ((hF s).1 h)), frontIdx_map_range' F x r hF n (s + 1) (by omega) (by omega)]
      omega

theorem foldl_max_attained : ∀ (l : List Nat) (a : Nat), l.foldl max a = a ∨ l.foldl max a ∈ l
  | [], a => Or.inl rfl
  | x :: l, a => by
    simp only [List.foldl_cons]
    rcases foldl_max_attained l (max a x) with h | h
    · rw [h]
      rcases Nat.le_total a x with hle | hle
      · right; rw [Nat.max_eq_right hle]; simp
      · left; exact Nat.max_eq_left hle
    · right; exact List.mem_cons_of_mem _ h

theorem mem_dvalues (d : FrontDict α) (hnd : (dkeys d).Nodup) (v : Nat) (hv : v ∈ dvalues d) :
    ∃ k ∈ dkeys d, dget d 0 k = v := by
  induction d with
  | nil => simp [dvalues] at hv
  | cons p r ih =>
    obtain ⟨k, w⟩ := p
    simp only [dkeys, List.map_cons, List.nodup_cons] at hnd
    simp only [dvalues, List.map_cons, List.mem_cons] at hv
    rcases hv with rfl | hv
    · exact ⟨k, by simp [dkeys], by simp [dget]⟩
    · obtain ⟨k', hk', he⟩ := ih hnd.2 hv
      refine ⟨k', by simp only [dkeys, List.map_cons, List.mem_cons]; exact Or.inr hk', ?_⟩
      have : k ≠ k' := fun e => hnd.1 (e ▸ hk')
      simp [dget, this, he]

theorem depth_lt_length {β : Type} [DecidableEq β] {dom : β → β → Bool} (S : List β) (hS : SPO dom S)
    (x : β) (hx : x ∈ S) : ∃ F, (peel dom S)[depth dom S x]? = some F ∧ x ∈ F := by
  have := (peel_flatten_perm S hS).mem_iff.2 hx
  obtain ⟨F, hF, hxF⟩ := List.mem_flatten.1 this
  obtain ⟨i, hi⟩ := List.mem_iff_getElem?.1 hF
  have := (mem_peel_iff S hS i F hi x).1 hxF
  rw [this.2]; exact ⟨F, hi, hxF⟩

theorem peel_fronts_nodup {β : Type} {dom : β → β → Bool} (S : List β) (hS : SPO dom S) (hnd : S.Nodup) :
    ∀ F ∈ peel dom S, F.Nodup := by
  have := (peel_flatten_perm S hS).nodup_iff.2 hnd
  rw [List.nodup_flatten] at this
  exact this.1

theorem forall₂_perm_trans {γ : Type} : ∀ {l₁ l₂ l₃ : List (List γ)}, List.Forall₂ List.Perm l₁ l₂ →
    List.Forall₂ List.Perm l₂ l₃ → List.Forall₂ List.Perm l₁ l₃
  | _, _, _, .nil, .nil => .nil
  | _, _, _, .cons h t, .cons h' t' => .cons (h.trans h') (forall₂_perm_trans t t')

theorem forall₂_perm_symm {γ : Type} : ∀ {l₁ l₂ : List (List γ)}, List.Forall₂ List.Perm l₁ l₂ →
    List.Forall₂ List.Perm l₂ l₁
  | _, _, .nil => .nil
  | _, _, .cons h t => .cons h.symm (forall₂_perm_symm t)

theorem forall₂_perm_leading {γ : Type} : ∀ {l₁ l₂ : List (List γ)}, List.Forall₂ List.Perm l₁ l₂ →
    ∀ k, List.Forall₂ List.Perm (leading l₁ k) (leading l₂ k)
  | _, _, .nil, k => by simp [leading]
  | _, _, .cons h t, k => by
    simp only [leading]
    split
    · exact .nil
    · rw [h.length_eq]; exact .cons h (forall₂_perm_leading t _)

/-- **From ranks to fronts.**  If the ranks computed by the helpers are the dominance depths of the
distinct fitnesses, the fronts built by `sortLogNondominated` are, front by front, the peeling of
the population. -/
theorem logFronts_eq_peel (m : Nat) (pop : List (Ind α)) (hne : pop ≠ []) (hlen : ∀ x ∈ pop, x.w.length = m)
    (fs : List (List α)) (hperm : fs.Perm (dkeys (mapFitInd pop)))
    (front : FrontDict α) (hkeys : (dkeys front).Perm (dkeys (mapFitInd pop)))
    (hrank : ∀ f ∈ fs, dget front 0 f = depth domW fs f) :
    List.Forall₂ List.Perm (logFronts fs front (mapFitInd pop)) (peel domI pop) := by
  have hfnd : fs.Nodup := hperm.nodup_iff.2 (mapFitInd_nodup pop)
  have hknd : (dkeys front).Nodup := hkeys.nodup_iff.2 (mapFitInd_nodup pop)
  have hrep : ∀ f ∈ fs, ∃ x ∈ pop, x.w = f := fun f hf => fits_rep pop f (hperm.mem_iff.1 hf)
  have hflen : ∀ f ∈ fs, f.length = m := by
    intro f hf; obtain ⟨x, hx, rfl⟩ := hrep f hf; exact hlen x hx
  have hS := spo_domW m fs hflen
  have hfsne : fs ≠ [] := by
    intro e
    have := fits_ne_nil pop hne
    rw [e] at hperm; exact this (List.Perm.eq_nil hperm.symm)
  have hmemkeys : ∀ f ∈ fs, f ∈ dkeys front := fun f hf => hkeys.mem_iff.2 (hperm.mem_iff.1 hf)
  -- number of fronts
  set M := (dvalues front).foldl max 0 with hM
  have hle : ∀ f ∈ fs, dget front 0 f ≤ M := fun f hf => dget_le_foldl_max front f (hmemkeys f hf)
  have hbig : ∀ i, i ≤ M → ∃ f ∈ fs, i ≤ dget front 0 f := by
    intro i hi
    rcases foldl_max_attained (dvalues front) 0 with h | h
    · obtain ⟨f, hf⟩ := List.exists_mem_of_ne_nil fs hfsne
      exact ⟨f, hf, by rw [← hM] at h; omega⟩
    · obtain ⟨k, hk, hv⟩ := mem_dvalues front hknd _ h
      exact ⟨k, hperm.mem_iff.2 (hkeys.mem_iff.1 hk), by rw [hv]; exact hi⟩
  -- the fronts of fitnesses
  have hA : List.Forall₂ List.Perm (rankFronts (fun f => dget front 0 f) fs (M + 1)) (peel domW fs) := by
    apply fronts_unique _ _ fs hfnd
    · refine (rankFronts_flatten_perm _ fs (M + 1)).trans ?_
      rw [List.filter_eq_self.2]
      intro f hf; have := hle f hf; simp; omega
    · exact peel_flatten_perm fs hS
    · intro F hF
      simp only [rankFronts, List.mem_map, List.mem_range] at hF
      obtain ⟨i, hi, rfl⟩ := hF
      obtain ⟨f, hf, hif⟩ := hbig i (by omega)
      obtain ⟨F, hF, _⟩ := depth_lt_length fs hS f hf
      rw [← hrank f hf] at hF
      have hilt : i < (peel domW fs).length := by
        have := (List.getElem?_eq_some_iff.1 hF).1; omega
      have hne' := peel_fronts_ne_nil fs hS _ (List.getElem_mem hilt)
      obtain ⟨x, hx⟩ := List.exists_mem_of_ne_nil _ hne'
      have hxd := (mem_peel_iff fs hS i _ (List.getElem?_eq_getElem hilt) x).1 hx
      refine List.ne_nil_of_mem (a := x) (List.mem_filter.2 ⟨hxd.1, ?_⟩)
      simp [hrank x hxd.1, hxd.2]
    · exact peel_fronts_ne_nil fs hS
    · intro x hx
      have hr : dget front 0 x < M + 1 := by have := hle x hx; omega
      have := frontIdx_map_range' (fun i => fs.filter (fun f => dget front 0 f == i)) x (dget front 0 x)
        (by intro j; simp only [List.mem_filter, hx, true_and, beq_iff_eq]; exact eq_comm) (M + 1) 0 (by omega) (by omega)
      rw [rankFronts, List.range_eq_range', this, Nat.sub_zero, hrank x hx]; rfl
  -- lift to individuals
  rw [logFronts_eq_map]
  have hpeel : peel domI pop = (peel domW fs).map (carriers pop) := by
    have := peel_carriers m pop hlen fs hS hrep
    have hc : carriers pop fs = pop := by
      rw [carriers, List.filter_eq_self]
      intro x hx
      simpa using hperm.mem_iff.2 ((mem_mapFitInd_keys pop x.w).2 ⟨x, hx, rfl⟩)
    rwa [hc] at this
  rw [hpeel]
  refine forall₂_perm_trans (l₂ := (peel domW fs).map (fun F => F.flatMap (dget (mapFitInd pop) []))) ?_ ?_
  · rw [List.forall₂_map_left_iff, List.forall₂_map_right_iff]
    exact hA.imp (fun _ _ h => h.flatMap_right _)
  · rw [List.forall₂_map_left_iff, List.forall₂_map_right_iff, List.forall₂_same]
    intro P hP
    exact front_perm pop P P (peel_fronts_nodup fs hS hfnd P hP) (fun _ => Iff.rfl)

end C04L
