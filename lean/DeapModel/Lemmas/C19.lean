/-
Helper lemmas for C19 (penalty decorators): `zip3With`, `SV.upTo`, and the scalar inequalities
behind "never better" / "monotone in the distance".
-/
import DeapModel.Core.Penalty
import Mathlib.Algebra.Order.Ring.Defs

set_option linter.unusedSectionVars false

namespace Penalty

section Lists
variable {α β γ δ : Type}

theorem zip3With_length (g : α → β → γ → δ) (as : List α) (bs : List β) (cs : List γ) :
    (zip3With g as bs cs).length = min (min as.length bs.length) cs.length := by
  induction as generalizing bs cs with
  | nil => simp [zip3With]
  | cons a as ih =>
    cases bs with
    | nil => simp [zip3With]
    | cons b bs =>
      cases cs with
      | nil => simp [zip3With]
      | cons c cs => simp only [zip3With, List.length_cons, ih]; omega

theorem zip3With_getElem? (g : α → β → γ → δ) (as : List α) (bs : List β) (cs : List γ) (i : Nat) :
    (zip3With g as bs cs)[i]? =
      (as[i]?).bind fun a => (bs[i]?).bind fun b => (cs[i]?).bind fun c => some (g a b c) := by
  induction as generalizing bs cs i with
  | nil => simp [zip3With]
  | cons a as ih =>
    cases bs with
    | nil => simp [zip3With]
    | cons b bs =>
      cases cs with
      | nil =>
        simp only [zip3With, List.getElem?_nil, Option.bind_none]
        cases (a :: as)[i]? <;> cases (b :: bs)[i]? <;> rfl
      | cons c cs =>
        cases i with
        | zero => simp [zip3With]
        | succ i => simp [zip3With, ih]

theorem upTo_getElem? (s : SV α) (n i : Nat) (hi : i < n) : (s.upTo n)[i]? = s.get? i := by
  cases s with
  | scalar c => simp [SV.upTo, SV.get?, hi]
  | seq v => simp [SV.upTo, SV.get?]

/-- Beyond `n` the truncated view has nothing more than the value itself. -/
theorem upTo_getElem?_some (s : SV α) (n i : Nat) (x : α) (h : (s.upTo n)[i]? = some x) :
    s.get? i = some x := by
  cases s with
  | scalar c =>
    simp only [SV.upTo, List.getElem?_replicate] at h
    split at h <;> simp_all [SV.get?]
  | seq v => simpa [SV.upTo, SV.get?] using h

theorem upTo_length_scalar (c : α) (n : Nat) : ((SV.scalar c).upTo n).length = n := by
  simp [SV.upTo]

end Lists

section Ring
variable {α : Type} [Ring α] [LinearOrder α] [IsStrictOrderedRing α]

theorem sgn_of_nonneg {w : α} (h : 0 ≤ w) : sgn w = 1 := by simp [sgn, h]
theorem sgn_of_neg {w : α} (h : w < 0) : sgn w = -1 := by simp [sgn, not_le.2 h]

/-- `w * sgn w = |w|`, in particular non-negative. -/
theorem mul_sgn_nonneg (w : α) : 0 ≤ w * sgn w := by
  by_cases h : 0 ≤ w
  · simp [sgn_of_nonneg h, h]
  · have h' : w < 0 := not_le.1 h
    simp [sgn_of_neg h', le_of_lt h']

/-- moving by `sgn w * d` is a move of `w * sgn w * d` in the weighted value -/
theorem weighted_move (w base d : α) : w * (base - sgn w * d) = w * base - w * sgn w * d := by
  rw [mul_sub, mul_assoc]

theorem never_better_scalar (w base d : α) (hd : 0 ≤ d) :
    w * (base - sgn w * d) ≤ w * base := by
  rw [weighted_move]
  exact sub_le_self _ (mul_nonneg (mul_sgn_nonneg w) hd)

theorem monotone_scalar (w base d d' : α) (hd : d ≤ d') :
    w * (base - sgn w * d') ≤ w * (base - sgn w * d) := by
  rw [weighted_move, weighted_move]
  exact sub_le_sub_left (mul_le_mul_of_nonneg_left hd (mul_sgn_nonneg w)) _


theorem never_better_pos (w base d : α) (hw : 0 ≤ w) (hd : 0 ≤ d) : base - sgn w * d ≤ base := by
  simp [sgn_of_nonneg hw, hd]

theorem never_better_neg (w base d : α) (hw : w < 0) (hd : 0 ≤ d) : base ≤ base - sgn w * d := by
  simp [sgn_of_neg hw, hd]

theorem monotone_pos (w base d d' : α) (hw : 0 ≤ w) (hd : d ≤ d') :
    base - sgn w * d' ≤ base - sgn w * d := by
  rw [sgn_of_nonneg hw, one_mul, one_mul]; exact sub_le_sub_left hd _

theorem monotone_neg (w base d d' : α) (hw : w < 0) (hd : d ≤ d') :
    base - sgn w * d ≤ base - sgn w * d' := by
  simpa [sgn_of_neg hw] using hd

end Ring

end Penalty
