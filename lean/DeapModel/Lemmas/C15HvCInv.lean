import DeapModel.Lemmas.C15Gen7
import DeapModel.Lemmas.C15HvCTop
/-!
C15 — the compiled routine `_hv.c` in four and more dimensions: the INTERFACE of one level of `hv_recursive`.

`InvC … S k A` is the precondition of `hv_recursive(list, k, |A|, ref, bound)` when the lists `2 .. k` hold the node
set `A`; `PostC` is what the call guarantees on return; `LevelOKC F k` says that level `k` meets that contract on
every admissible state.  The static picture (orders `O i`, positions, restricted lists `RL`, prefixes `preSet`, the
projected hypervolumes `Hj`, the ideal cache contents `ARv` / `VOLv`) is the one of `Lemmas/C15Gen1` — instantiated
with the TRANSLATED CLAMPED cargo `stc C R` (coordinates capped at the reference, minus reference), because pyhv works on
translated points and `_hv.c` on the points as given; for a node at or below the reference in coordinate `j`,
`cg (stc C R) a j = cg C a j - rf R j` (`CCtx.cg_tr`).

New with respect to pyhv: `delete_dom` / `reinsert_dom` (no bound lowering: sound because the node is dominated by a
present node), and the cached state of the 3-D base case (`domr`, i.e. the third coordinate at which a node left the
staircase of the first two coordinates), described by `DMc`.
-/
namespace HvC
set_option linter.unusedVariables false
open Hypervolume
open HvSweep (GCtx Hj RL preSet pos ARv VOLv ids Shaped)

/-- the translated cargo (specification only; the code never builds it) -/
def trC (C : Cargo) (R : List ℚ) : Cargo := C.map (fun p => List.zipWith (· - ·) p R)

/-- the CLAMPED cargo (specification only): every coordinate is capped at the reference.  The points that `filter`
removes (not strictly below the reference) are never looked at again, and a surviving ("good") node is its own clamp, so
the clamped points can serve as the specification points of the static picture — which wants every point at or below
the reference — without any assumption on the input. -/
def clC (C : Cargo) (R : List ℚ) : Cargo := C.map (fun p => List.zipWith min p R)

/-- the specification points: the clamped points -/
abbrev spt (C : Cargo) (R : List ℚ) : ℕ → Pt := ptOf (clC C R)

/-- the specification cargo: the clamped points, translated -/
abbrev stc (C : Cargo) (R : List ℚ) : Cargo := trC (clC C R) R

theorem getD_zipWith_min (p r : List ℚ) (j : ℕ) (hp : j < p.length) (hr : j < r.length) :
    (List.zipWith min p r).getD j 0 = min (p.getD j 0) (r.getD j 0) := by
  simp only [List.getD_eq_getElem?_getD, List.getElem?_zipWith, List.getElem?_eq_getElem hp,
    List.getElem?_eq_getElem hr, Option.getD_some]

theorem spt_eq (C : Cargo) (R : List ℚ) (a : ℕ) (ha : a < C.length) : spt C R a = List.zipWith min (ptOf C a) R := by
  show (C.map (fun p => List.zipWith min p R)).getD a [] = List.zipWith min (C.getD a []) R
  simp only [List.getD_eq_getElem?_getD, List.getElem?_map, List.getElem?_eq_getElem ha, Option.map_some,
    Option.getD_some]

/-- a coordinate of a clamped point -/
theorem spt_getD (C : Cargo) (R : List ℚ) (a j : ℕ) (hj : j < (spt C R a).length) :
    (spt C R a).getD j 0 = min (cg C a j) (rf R j) := by
  by_cases ha : a < C.length
  · rw [spt_eq C R a ha] at hj ⊢
    rw [List.length_zipWith] at hj
    exact getD_zipWith_min _ _ _ (by omega) (by omega)
  · exfalso
    have : spt C R a = [] := by
      show (C.map (fun p => List.zipWith min p R)).getD a [] = []
      rw [List.getD_eq_getElem?_getD, List.getElem?_eq_none (by simp; omega)]
      rfl
    rw [this] at hj
    exact absurd hj (by simp)

/-- the static data of one run of `fpli_hv` in `d ≥ 3` dimensions: `O i` is the order of dimension `i` built by
`setup_cdllist` (sorted by the coordinate `i`), every input point has `d` coordinates.  The specification points are the
CLAMPED points `spt C R`, so nothing is assumed about the position of the input points relative to the reference. -/
structure CCtx (C : Cargo) (R : List ℚ) (d n : ℕ) (O : ℕ → List ℕ) : Prop where
  g : GCtx (stc C R) d n O (spt C R) R
  srt : ∀ i < d, (O i).Pairwise (fun a b => cg C a i ≤ cg C b i)
  hd : 3 ≤ d

section cctx
variable {C : Cargo} {R : List ℚ} {d n : ℕ} {O : ℕ → List ℕ}

/-- a coordinate of a specification point is the clamped coordinate -/
theorem CCtx.spt_min (c : CCtx C R d n O) {a : ℕ} (ha : a ∈ ids n) {j : ℕ} (hj : j < d) :
    (spt C R a).getD j 0 = min (cg C a j) (rf R j) :=
  spt_getD C R a j (by rw [c.g.len a ha]; exact hj)

/-- the specification point of a node at or below the reference in coordinate `j` has the coordinate of the node -/
theorem CCtx.spt_good (c : CCtx C R d n O) {a : ℕ} (ha : a ∈ ids n) {j : ℕ} (hj : j < d) (h : cg C a j ≤ rf R j) :
    (spt C R a).getD j 0 = cg C a j := by
  rw [c.spt_min ha hj, min_eq_left h]

/-- clamping is monotone -/
theorem CCtx.spt_mono (c : CCtx C R d n O) {a b : ℕ} (ha : a ∈ ids n) (hb : b ∈ ids n) {j : ℕ} (hj : j < d)
    (h : cg C a j ≤ cg C b j) : (spt C R a).getD j 0 ≤ (spt C R b).getD j 0 := by
  rw [c.spt_min ha hj, c.spt_min hb hj]
  exact min_le_min_right _ h

/-- the translated specification coordinate of a node at or below the reference in coordinate `j` -/
theorem CCtx.cg_tr (c : CCtx C R d n O) {a : ℕ} (ha : a ∈ ids n) {j : ℕ} (hj : j < d) (h : cg C a j ≤ rf R j) :
    HvSweep.cg (stc C R) a j = cg C a j - rf R j := by
  rw [c.g.cgv a ha j hj, c.spt_good ha hj h]; rfl

/-- the same for a node strictly below the reference -/
theorem CCtx.cg_tr' (c : CCtx C R d n O) {a : ℕ} (ha : a ∈ ids n) {j : ℕ} (hj : j < d) (h : cg C a j < rf R j) :
    HvSweep.cg (stc C R) a j = cg C a j - rf R j := c.cg_tr ha hj h.le

theorem CCtx.mem (c : CCtx C R d n O) {i : ℕ} (hi : i < d) (a : ℕ) : a ∈ O i ↔ a ∈ ids n := c.g.mem hi a

/-- the static orders in terms of the cargo of `_hv.c` -/
theorem CCtx.le_of_pos (c : CCtx C R d n O) {i : ℕ} (hi : i < d) {a b : ℕ} (ha : a ∈ ids n) (hb : b ∈ ids n)
    (h : pos O i b ≤ pos O i a) : cg C b i ≤ cg C a i := by
  have ha' := (c.mem hi a).mpr ha
  have hb' := (c.mem hi b).mpr hb
  rcases Nat.lt_or_ge (pos O i b) (pos O i a) with hlt | hge
  · have hpw := List.pairwise_iff_getElem.mp (c.srt i hi)
    have hla := List.idxOf_lt_length_of_mem ha'
    have hlb := List.idxOf_lt_length_of_mem hb'
    have := hpw (pos O i b) (pos O i a) hlb hla hlt
    unfold pos at this
    rwa [List.getElem_idxOf hlb, List.getElem_idxOf hla] at this
  · have : a = b := HvSweep.pos_inj O i a b ha' hb' (by omega)
    rw [this]

theorem CCtx.pos_lt_of_lt (c : CCtx C R d n O) {i : ℕ} (hi : i < d) {a b : ℕ} (ha : a ∈ ids n) (hb : b ∈ ids n)
    (h : cg C a i < cg C b i) : pos O i a < pos O i b := by
  by_contra hc
  have := c.le_of_pos hi ha hb (by omega)
  linarith

/-- the restricted lists are sorted by the coordinate of their dimension -/
theorem CCtx.RL_sorted (c : CCtx C R d n O) {i : ℕ} (hi : i < d) (A : List ℕ) :
    (RL O i A).Pairwise (fun a b => cg C a i ≤ cg C b i) :=
  (c.srt i hi).sublist (HvSweep.RL_sublist O i A)

end cctx

/-- `b` weakly dominates `q` in the coordinates `0, 1` and precedes it in the static orders `2 .. m` (hence is at most
`q` in the coordinates `2 .. m` as well) — the witness of an `ignore` mark `m` -/
def DomC (C : Cargo) (O : ℕ → List ℕ) (m b q : ℕ) : Prop :=
  b ≠ q ∧ cg C b 0 ≤ cg C q 0 ∧ cg C b 1 ≤ cg C q 1 ∧ ∀ j, 2 ≤ j → j ≤ m → pos O j b < pos O j q

/-- **soundness of the ignore marks** w.r.t. the node set `A`: a mark `m ≥ 2` is witnessed by a present node -/
def IGc (C : Cargo) (O : ℕ → List ℕ) (S : St) (A : List ℕ) : Prop :=
  ∀ q ∈ A, 2 ≤ ign S q → ∃ b ∈ A, DomC C O (ign S q).toNat b q

/-- **cache validity**: at every level `2 ≤ j + 1 < K`, the `area` / `vol` caches of every node of `A` whose coordinate
is strictly below `bound[j + 1]` hold the ideal values w.r.t. the node set `A` -/
def CVc (C : Cargo) (R : List ℚ) (O : ℕ → List ℕ) (S : St) (K : ℕ) (A : List ℕ) : Prop :=
  ∀ j, 1 ≤ j → j + 1 < K → ∀ a ∈ A, ∀ b, S.bound.getD (j + 1) none = some b → cg C a (j + 1) < b →
    ar S a (j + 1) = ARv R (spt C R) O j A a ∧ vl S a (j + 1) = VOLv (stc C R) R (spt C R) O j A a

/-- `q` beats `a` in the staircase of the first two coordinates: `q` weakly dominates `a` there, and when the two
projections coincide `q` is the one processed first by the sweep along the third coordinate -/
def Beats (C : Cargo) (O : ℕ → List ℕ) (q a : ℕ) : Prop :=
  q ≠ a ∧ cg C q 0 ≤ cg C a 0 ∧ cg C q 1 ≤ cg C a 1 ∧ (item C q = item C a → pos O 2 q < pos O 2 a)

/-- **validity of the cached `domr`** (3-D base case) w.r.t. the node set `A`: for a node strictly below `bound[2]`,
`domr` is the third coordinate from which on the node is beaten by a present node below the bound (its own third
coordinate if it was beaten when it arrived), and `≥ bound[2]` if there is none -/
def DMc (C : Cargo) (O : ℕ → List ℕ) (S : St) (A : List ℕ) : Prop :=
  ∀ a ∈ A, ∀ b, S.bound.getD 2 none = some b → cg C a 2 < b →
    cg C a 2 ≤ dr S a ∧
    (∀ q ∈ A, cg C q 2 < b → Beats C O q a → dr S a ≤ max (cg C a 2) (cg C q 2)) ∧
    (dr S a < b → ∃ q ∈ A, Beats C O q a ∧ cg C q 2 ≤ dr S a)

/-- the tables have a row per node id and a column per dimension -/
structure TSh (d n : ℕ) (S : St) : Prop where
  area : Shaped (n + 1) d S.area
  vol : Shaped (n + 1) d S.vol
  ign : S.ignore.length = n + 1
  domr : S.domr.length = n + 1
  bound : S.bound.length = d

/-- the `next` / `prev` pointers agree -/
def PtrEqC (S S' : St) : Prop := ∀ i a, nx S' i a = nx S i a ∧ pv S' i a = pv S i a

/-- the precondition of `hv_recursive(list, k, |A|, ref, bound)` (`k ≥ 2`) when the lists `2 .. k` hold the node set `A` -/
structure InvC (C : Cargo) (R : List ℚ) (d n : ℕ) (O : ℕ → List ℕ) (S : St) (k : ℕ) (A : List ℕ) : Prop where
  shape : ShapeC d n S
  tsh : TSh d n S
  nodup : A.Nodup
  sub : ∀ a ∈ A, a ∈ ids n
  good : ∀ a ∈ A, ∀ j < d, cg C a j < rf R j
  lists : ∀ i, 2 ≤ i → i ≤ k → DLc n S i (RL O i A)
  cv : CVc C R O S (k + 1) A
  ig : IGc C O S A
  igd : ∀ q, 2 ≤ ign S q → dr S q = cg C q 2
  dm : DMc C O S A
  tree : S.tree = []

/-- what `hv_recursive(list, k, …)` guarantees on return -/
structure PostC (C : Cargo) (R : List ℚ) (d n : ℕ) (O : ℕ → List ℕ) (S S' : St) (k : ℕ) (A : List ℕ) (v : ℚ) : Prop where
  val : v = Hj R (spt C R) k A
  ptr : PtrEqC S S'
  inv : InvC C R d n O S' k A
  ign_out : ∀ y, y ∉ A → ign S' y = ign S y
  dr_out : ∀ y, y ∉ A → dr S' y = dr S y
  cache_hi : ∀ a i, k < i → ar S' a i = ar S a i ∧ vl S' a i = vl S a i
  bound_hi : ∀ i, k < i → S'.bound.getD i none = S.bound.getD i none

/-- level `k` is correct on every admissible state with at least two nodes (`fpli_hv` treats `n ≤ 1` itself, l.1474-1480,
and the general case only recurses with `c > 1`, l.756 / l.787; with a single node the C code would read the `NULL` cargo
of the list head) -/
def LevelOKC (C : Cargo) (R : List ℚ) (d n : ℕ) (O : ℕ → List ℕ) (F k : ℕ) : Prop :=
  ∀ (S : St) (A : List ℕ), InvC C R d n O S k A → 2 ≤ A.length →
    ∃ v S', hvRecursive C R F k A.length S = some (v, S') ∧ PostC C R d n O S S' k A v

/-- **the 3-D base case (`dim == 2`, l.825-992) meets the level interface** — entered with ANY `bound[2]`: with a
finite bound it re-enters on the cached `vol[2]` / `area[2]` / `domr` of the nodes below the bound and rebuilds the
staircase from the nodes whose `domr` is at or above the bound -/
def Dim3_Statement : Prop :=
  ∀ (C : Cargo) (R : List ℚ) (d n : ℕ) (O : ℕ → List ℕ) (F : ℕ), CCtx C R d n O → n + 2 ≤ F →
    LevelOKC C R d n O F 2

/-- **the general case (`dim > 2`, l.710-819) at level `j + 1` meets the level interface, given that level `j` does** -/
def GeneralStep_Statement : Prop :=
  ∀ (C : Cargo) (R : List ℚ) (d n : ℕ) (O : ℕ → List ℕ) (F j : ℕ), CCtx C R d n O → n + 2 ≤ F → 2 ≤ j → j + 1 < d →
    LevelOKC C R d n O F j → LevelOKC C R d n O F (j + 1)

end HvC
