/-
C20 — lemmas over ℝ about the quality indicators (`Core/BenchIndicators.lean`), the decorator
histories (`BenchTools.runHist`) and `MovingPeaks.globalMaximum / maximums / popDiversity / errStep`.
-/
import DeapModel.Lemmas.C20Real
import DeapModel.Lemmas.C20Tools
import DeapModel.Lemmas.C20MP
import DeapModel.Core.BenchIndicators
import DeapModel.Core.BenchBinary

set_option linter.unusedSimpArgs false
set_option linter.unusedSectionVars false

namespace C20L
open RealLike BenchInd BenchTools

/-! ### generic list facts -/

theorem mapM_forall2 {β γ : Type} (f : β → Option γ) (l : List β) (r : List γ) (h : l.mapM f = some r) :
    List.Forall₂ (fun a c => f a = some c) l r := by
  induction l generalizing r with
  | nil => simp only [List.mapM_nil] at h; cases h; exact List.Forall₂.nil
  | cons a t ih =>
    rw [List.mapM_cons] at h
    cases hfa : f a with
    | none => rw [hfa] at h; simp at h
    | some c =>
      rw [hfa] at h
      cases ht : t.mapM f with
      | none => rw [ht] at h; simp at h
      | some r' =>
        rw [ht] at h
        simp only [Option.pure_def, Option.bind_eq_bind, Option.bind_some, Option.some.injEq] at h
        rw [← h]
        exact List.Forall₂.cons hfa (ih r' ht)

theorem forall2_mem_right {β γ : Type} {R : β → γ → Prop} {l : List β} {r : List γ} (h : List.Forall₂ R l r)
    (c : γ) (hc : c ∈ r) : ∃ a ∈ l, R a c := by
  induction h with
  | nil => simp at hc
  | cons hab _ ih =>
    simp only [List.mem_cons] at hc
    rcases hc with rfl | hc
    · exact ⟨_, by simp, hab⟩
    · obtain ⟨a, ha, hr⟩ := ih hc; exact ⟨a, by simp [ha], hr⟩

theorem forall2_mem_left {β γ : Type} {R : β → γ → Prop} {l : List β} {r : List γ} (h : List.Forall₂ R l r)
    (a : β) (ha : a ∈ l) : ∃ c ∈ r, R a c := by
  induction h with
  | nil => simp at ha
  | cons hab _ ih =>
    simp only [List.mem_cons] at ha
    rcases ha with rfl | ha
    · exact ⟨_, by simp, hab⟩
    · obtain ⟨c, hc, hr⟩ := ih ha; exact ⟨c, by simp [hc], hr⟩

theorem sum_nonneg_of_mem (l : List ℝ) (h : ∀ d ∈ l, 0 ≤ d) : 0 ≤ l.sum := by
  induction l with
  | nil => simp
  | cons a t ih =>
    simp only [List.sum_cons]
    have := h a (by simp); have := ih (fun d hd => h d (by simp [hd])); linarith

theorem sum_eq_zero_of_nonneg (l : List ℝ) (h : ∀ d ∈ l, 0 ≤ d) (hs : l.sum = 0) : ∀ d ∈ l, d = 0 := by
  induction l with
  | nil => simp
  | cons a t ih =>
    simp only [List.sum_cons] at hs
    have h1 := h a (by simp)
    have h2 := sum_nonneg_of_mem t (fun d hd => h d (by simp [hd]))
    intro d hd
    simp only [List.mem_cons] at hd
    rcases hd with rfl | hd
    · linarith
    · exact ih (fun d hd => h d (by simp [hd])) (by linarith) d hd

theorem sum_zero_of_all_zero (l : List ℝ) (h : ∀ d ∈ l, d = 0) : l.sum = 0 := by
  induction l with
  | nil => simp
  | cons a t ih =>
    simp only [List.sum_cons]
    rw [h a (by simp), ih (fun d hd => h d (by simp [hd]))]; ring

theorem sum_const_of_all (l : List ℝ) (g : ℝ) (h : ∀ d ∈ l, d = g) : l.sum = l.length * g := by
  induction l with
  | nil => simp
  | cons a t ih =>
    simp only [List.sum_cons, List.length_cons]
    rw [h a (by simp), ih (fun d hd => h d (by simp [hd]))]; push_cast; ring

/-! ### `min` by the loop of `convergence` / `numpy.min` -/

theorem minFold (t : List ℝ) (a : ℝ) :
    let r := t.foldl (fun m d => if d < m then d else m) a
    r ∈ a :: t ∧ ∀ w ∈ a :: t, r ≤ w := by
  induction t generalizing a with
  | nil => simp
  | cons b t ih =>
    simp only [List.foldl_cons]
    obtain ⟨hm, hle⟩ := ih (if b < a then b else a)
    constructor
    · simp only [List.mem_cons] at hm ⊢
      rcases hm with h | h
      · by_cases hc : b < a
        · rw [if_pos hc] at h ⊢; exact Or.inr (Or.inl h)
        · rw [if_neg hc] at h ⊢; exact Or.inl h
      · exact Or.inr (Or.inr h)
    · intro w hw
      simp only [List.mem_cons] at hw
      have hab : (if b < a then b else a) ≤ a ∧ (if b < a then b else a) ≤ b := by
        split <;> constructor <;> linarith
      have h0 := hle (if b < a then b else a) (by simp)
      rcases hw with rfl | rfl | hw
      · linarith [hab.1]
      · linarith [hab.2]
      · exact hle w (by simp [hw])

theorem minFirst_spec (l : List ℝ) (m : ℝ) (h : minFirst l = some m) : m ∈ l ∧ ∀ d ∈ l, m ≤ d := by
  cases l with
  | nil => simp [minFirst] at h
  | cons a t =>
    simp only [minFirst, Option.some.injEq] at h
    rw [← h]
    have := minFold t a
    simpa only [real_lt] using this

/-! ### squared distances -/

/-- squared Euclidean distance over the common prefix -/
def d2 (a b : List ℝ) : ℝ := ((a.zip b).map fun p => (p.1 - p.2) ^ 2).sum

theorem d2_nonneg (a b : List ℝ) : 0 ≤ d2 a b := sum_map_nonneg _ _ (fun _ _ => sq_nonneg _)

theorem d2_self (a : List ℝ) : d2 a a = 0 := by
  induction a with
  | nil => simp [d2]
  | cons x t ih => unfold d2 at ih ⊢; simp only [List.zip_cons_cons, List.map_cons, List.sum_cons, ih]; ring

theorem d2_eq_zero (a b : List ℝ) (h : a.length = b.length) (h0 : d2 a b = 0) : a = b := by
  induction a generalizing b with
  | nil => cases b with
    | nil => rfl
    | cons y t => simp at h
  | cons x t ih =>
    cases b with
    | nil => simp at h
    | cons y u =>
      have hd : d2 (x :: t) (y :: u) = (x - y) ^ 2 + d2 t u := by simp [d2]
      rw [hd] at h0
      have h1 := sq_nonneg (x - y)
      have h2 := d2_nonneg t u
      have e1 : (x - y) ^ 2 = 0 := by linarith
      have e2 : d2 t u = 0 := by linarith
      have : x = y := by have := pow_eq_zero_iff (n := 2) (by norm_num) |>.mp e1; linarith
      rw [this, ih u (by simpa using h) e2]

theorem foldl_sq (l : List (ℝ × ℝ)) (c : ℝ) :
    l.foldl (fun d p => d + (p.1 - p.2) * (p.1 - p.2)) c = c + (l.map fun p => (p.1 - p.2) ^ 2).sum := by
  induction l generalizing c with
  | nil => simp
  | cons p t ih => simp only [List.foldl_cons, List.map_cons, List.sum_cons]; rw [ih]; ring

theorem sqDist_eq (a o : List ℝ) (v : ℝ) (h : sqDist a o = some v) : o.length ≤ a.length ∧ v = d2 a o := by
  unfold sqDist at h
  by_cases hl : a.length < o.length
  · simp [hl] at h
  · simp only [hl, if_false, Option.some.injEq] at h
    refine ⟨by omega, ?_⟩
    rw [← h]
    simp only [real_ofNat, Nat.cast_zero, real_add, real_sub, real_mul]
    rw [foldl_sq]; simp [d2]

theorem euclid_eq (a z : List ℝ) (v : ℝ) (h : euclid a z = some v) : a.length = z.length ∧ v = Real.sqrt (d2 a z) := by
  unfold euclid at h
  by_cases hl : a.length = z.length
  · simp only [hl, if_true, Option.some.injEq] at h
    refine ⟨hl, ?_⟩
    rw [← h]
    real_bridge
    unfold d2
    congr 2
    apply List.map_congr_left; intro p _; ring
  · simp [hl] at h

/-! ### `igd` and `convergence` -/

/-- `d` is the distance from `z` to the nearest point of `A` -/
def NearestOf (A : List (List ℝ)) (z : List ℝ) (d : ℝ) : Prop :=
  (∃ a ∈ A, a.length = z.length ∧ d = Real.sqrt (d2 a z)) ∧ ∀ a ∈ A, d ≤ Real.sqrt (d2 a z)

theorem igd_spec (A Z : List (List ℝ)) (v : ℝ) (h : igd A Z = some v) :
    Z ≠ [] ∧ ∃ ds : List ℝ, List.Forall₂ (NearestOf A) Z ds ∧ v = ds.sum / (ds.length : ℝ) ∧ ds.length = Z.length := by
  unfold igd at h
  by_cases he : A.isEmpty = true ∨ Z.isEmpty = true
  · rw [if_pos he] at h; simp at h
  · rw [if_neg he] at h
    have hZ : Z ≠ [] := by intro hz; apply he; right; simp [hz]
    refine ⟨hZ, ?_⟩
    split at h
    · simp at h
    · next ds hds =>
      simp only [Option.some.injEq] at h
      have f2 := mapM_forall2 _ _ _ hds
      refine ⟨ds, ?_, ?_, (List.Forall₂.length_eq f2).symm⟩
      · refine List.Forall₂.imp ?_ f2
        intro z d hzd
        rw [Option.bind_eq_some_iff] at hzd
        obtain ⟨es, hes, hmin⟩ := hzd
        have g2 := mapM_forall2 _ _ _ hes
        obtain ⟨hm, hle⟩ := minFirst_spec _ _ hmin
        constructor
        · obtain ⟨a, ha, hr⟩ := forall2_mem_right g2 d hm
          obtain ⟨l1, l2⟩ := euclid_eq _ _ _ hr
          exact ⟨a, ha, l1, l2⟩
        · intro a ha
          obtain ⟨e, he', hr⟩ := forall2_mem_left g2 a ha
          obtain ⟨_, l2⟩ := euclid_eq _ _ _ hr
          rw [← l2]; exact hle e he'
      · rw [← h]; real_bridge

/-- `m` is the smallest squared distance from `p` to a point of `opt` -/
def NearestSq (opt : List (List ℝ)) (p : List ℝ) (d : ℝ) : Prop :=
  ∃ m, d = Real.sqrt m ∧ (∃ o ∈ opt, o.length ≤ p.length ∧ m = d2 p o) ∧ ∀ o ∈ opt, m ≤ d2 p o

theorem convergence_spec (front opt : List (List ℝ)) (v : ℝ) (h : convergence front opt = some v) :
    front ≠ [] ∧ ∃ ds : List ℝ, List.Forall₂ (NearestSq opt) front ds ∧ v = ds.sum / (ds.length : ℝ) ∧
      ds.length = front.length := by
  unfold convergence at h
  by_cases he : front.isEmpty = true
  · simp [he] at h
  · simp only [he, Bool.false_eq_true, if_false] at h
    have hF : front ≠ [] := by intro hz; apply he; simp [hz]
    refine ⟨hF, ?_⟩
    split at h
    · simp at h
    · next ds hds =>
      simp only [Option.some.injEq] at h
      have f2 := mapM_forall2 _ _ _ hds
      refine ⟨ds, ?_, ?_, (List.Forall₂.length_eq f2).symm⟩
      · refine List.Forall₂.imp ?_ f2
        intro p d hpd
        unfold nearest at hpd
        split at hpd
        · simp at hpd
        · next es hes =>
          rw [Option.map_eq_some_iff] at hpd
          obtain ⟨m, hmin, hd⟩ := hpd
          have g2 := mapM_forall2 _ _ _ hes
          obtain ⟨hm, hle⟩ := minFirst_spec _ _ hmin
          refine ⟨m, by rw [← hd]; rfl, ?_, ?_⟩
          · obtain ⟨o, ho, hr⟩ := forall2_mem_right g2 m hm
            obtain ⟨l1, l2⟩ := sqDist_eq _ _ _ hr
            exact ⟨o, ho, l1, l2⟩
          · intro o ho
            obtain ⟨e, he', hr⟩ := forall2_mem_left g2 o ho
            obtain ⟨_, l2⟩ := sqDist_eq _ _ _ hr
            rw [← l2]; exact hle e he'
      · rw [← h]; real_bridge

/-! ### `diversity` -/

theorem hyp_eq (a b : ℝ × ℝ) : hyp a b = Real.sqrt ((a.1 - b.1) ^ 2 + (a.2 - b.2) ^ 2) := by
  unfold hyp; real_bridge; congr 1; ring

theorem hyp_nonneg (a b : ℝ × ℝ) : 0 ≤ hyp a b := by rw [hyp_eq]; exact Real.sqrt_nonneg _

theorem gaps_nonneg (front : List (ℝ × ℝ)) : ∀ d ∈ gaps front, 0 ≤ d := by
  intro d hd
  simp only [gaps, List.mem_map] at hd
  obtain ⟨p, _, rfl⟩ := hd
  exact hyp_nonneg _ _

/-! ### decorator histories -/

theorem runHist_calls {P S X Y : Type} (install : P → Option S) (apply : S → X → Option Y) (s : S)
    (xs : List X) (x : X) (outs : List Y)
    (h : runHist install apply s (xs.map HOp.call ++ [HOp.call x]) = some outs) :
    ∃ y, apply s x = some y ∧ outs.getLast? = some y := by
  induction xs generalizing outs with
  | nil =>
    simp only [List.map_nil, List.nil_append, runHist] at h
    split at h
    · simp at h
    · next y hy => simp only [Option.some.injEq] at h; exact ⟨y, hy, by rw [← h]; rfl⟩
  | cons x0 t ih =>
    simp only [List.map_cons, List.cons_append, runHist] at h
    split at h
    · simp at h
    · next y0 hy0 =>
      split at h
      · simp at h
      · next ys hys =>
        simp only [Option.some.injEq] at h
        obtain ⟨y, e1, e2⟩ := ih ys hys
        refine ⟨y, e1, ?_⟩
        rw [← h]
        cases ys with
        | nil => simp at e2
        | cons a b => simpa [List.getLast?_cons_cons] using e2

/-- after `set p` (whatever happened before) and any number of evaluations, an evaluation of `x` hands
the wrapped function `apply (install p) x`: the parameter installed LAST is the one in force -/
theorem runHist_last_set {P S X Y : Type} (install : P → Option S) (apply : S → X → Option Y) (s0 : S)
    (pre : List (HOp P X)) (p : P) (xs : List X) (x : X) (outs : List Y)
    (h : runHist install apply s0 (pre ++ HOp.set p :: (xs.map HOp.call ++ [HOp.call x])) = some outs) :
    ∃ s y, install p = some s ∧ apply s x = some y ∧ outs.getLast? = some y := by
  induction pre generalizing s0 outs with
  | nil =>
    simp only [List.nil_append, runHist] at h
    split at h
    · simp at h
    · next s hs =>
      obtain ⟨y, e1, e2⟩ := runHist_calls install apply s xs x outs h
      exact ⟨s, y, hs, e1, e2⟩
  | cons op rest ih =>
    cases op with
    | set q =>
      simp only [List.cons_append, runHist] at h
      split at h
      · simp at h
      · next s1 _ => exact ih s1 outs h
    | call x0 =>
      simp only [List.cons_append, runHist] at h
      split at h
      · simp at h
      · split at h
        · simp at h
        · next ys hys =>
          simp only [Option.some.injEq] at h
          obtain ⟨s, y, e1, e2, e3⟩ := ih s0 ys hys
          refine ⟨s, y, e1, e2, ?_⟩
          rw [← h]
          cases ys with
          | nil => simp at e3
          | cons a b => simpa [List.getLast?_cons_cons] using e3

/-! ### the stacked decorators -/

/-- the parameters of the stack after a history -/
def stackStateAfter {α : Type} [RealLike α] (inv : List (List α) → List (List α)) :
    StackState α → List (HOp (StackParam α) (List α)) → Option (StackState α)
  | st, [] => some st
  | st, .set p :: ops =>
    match stackInstall inv st p with
    | none => none
    | some st' => stackStateAfter inv st' ops
  | st, .call _ :: ops => stackStateAfter inv st ops

theorem stackHist_last {α : Type} [RealLike α] (inv : List (List α) → List (List α)) (st : StackState α)
    (pre : List (HOp (StackParam α) (List α))) (x : List α) (outs : List (List α))
    (h : stackHist inv st (pre ++ [HOp.call x]) = some outs) :
    ∃ st' y, stackStateAfter inv st pre = some st' ∧ stackApply st' x = some y ∧ outs.getLast? = some y := by
  induction pre generalizing st outs with
  | nil =>
    simp only [List.nil_append, stackHist] at h
    split at h
    · simp at h
    · next y hy =>
      simp only [Option.some.injEq] at h
      exact ⟨st, y, rfl, hy, by rw [← h]; rfl⟩
  | cons op rest ih =>
    cases op with
    | set p =>
      simp only [List.cons_append, stackHist] at h
      split at h
      · simp at h
      · next st1 hs1 =>
        obtain ⟨st', y, e1, e2, e3⟩ := ih st1 outs h
        exact ⟨st', y, by simp only [stackStateAfter, hs1, e1], e2, e3⟩
    | call x0 =>
      simp only [List.cons_append, stackHist] at h
      split at h
      · simp at h
      · split at h
        · simp at h
        · next ys hys =>
          simp only [Option.some.injEq] at h
          obtain ⟨st', y, e1, e2, e3⟩ := ih st ys hys
          refine ⟨st', y, by simp only [stackStateAfter, e1], e2, ?_⟩
          rw [← h]
          cases ys with
          | nil => simp at e3
          | cons a b => simpa [List.getLast?_cons_cons] using e3

/-! ### moving peaks: `globalMaximum`, peak functions at their own centre -/

open MovingPeaks in
theorem dist2_self (p : List ℝ) : dist2 p p = 0 := by
  unfold dist2
  have : ∀ c : ℝ, (p.zip p).foldl (fun v q => v + (q.1 - q.2) * (q.1 - q.2)) c = c := by
    induction p with
    | nil => simp
    | cons a t ih => intro c; simp only [List.zip_cons_cons, List.foldl_cons]; rw [ih]; ring
  simp only [real_ofNat, Nat.cast_zero, real_add, real_sub, real_mul]
  exact this 0

open MovingPeaks in
theorem pairLt_false (m v : ℝ × List ℝ) (h : pairLt m v = false) : v.1 ≤ m.1 := by
  unfold pairLt at h
  simp only [real_lt] at h
  by_cases h1 : m.1 < v.1
  · simp [h1] at h
  · linarith

open MovingPeaks in
theorem pairLt_true (m v : ℝ × List ℝ) (h : pairLt m v = true) : m.1 ≤ v.1 := by
  unfold pairLt at h
  simp only [real_lt] at h
  by_cases h1 : m.1 < v.1
  · linarith
  · by_cases h2 : v.1 < m.1
    · simp [h1, h2] at h
    · linarith

open MovingPeaks in
theorem maxPairFold (t : List (ℝ × List ℝ)) (a : ℝ × List ℝ) :
    let r := t.foldl (fun m v => if pairLt m v then v else m) a
    r ∈ a :: t ∧ ∀ w ∈ a :: t, w.1 ≤ r.1 := by
  induction t generalizing a with
  | nil => simp
  | cons b t ih =>
    simp only [List.foldl_cons]
    obtain ⟨hm, hle⟩ := ih (if pairLt a b then b else a)
    constructor
    · simp only [List.mem_cons] at hm ⊢
      rcases hm with h | h
      · by_cases hc : pairLt a b = true
        · rw [if_pos hc] at h ⊢; exact Or.inr (Or.inl h)
        · rw [if_neg hc] at h ⊢; exact Or.inl h
      · exact Or.inr (Or.inr h)
    · intro w hw
      simp only [List.mem_cons] at hw
      have hab : a.1 ≤ (if pairLt a b then b else a).1 ∧ b.1 ≤ (if pairLt a b then b else a).1 := by
        by_cases hc : pairLt a b = true
        · rw [if_pos hc]; exact ⟨pairLt_true _ _ hc, le_refl _⟩
        · rw [if_neg hc]; exact ⟨le_refl _, pairLt_false _ _ (by simpa using hc)⟩
      have h0 := hle (if pairLt a b then b else a) (by simp)
      rcases hw with rfl | rfl | hw
      · linarith [hab.1]
      · linarith [hab.2]
      · exact hle w (by simp [hw])

open MovingPeaks in
theorem mem_insertDesc (x : ℝ × List ℝ) (l : List (ℝ × List ℝ)) (y : ℝ × List ℝ) :
    y ∈ insertDesc x l ↔ y = x ∨ y ∈ l := by
  induction l with
  | nil => simp [insertDesc]
  | cons z t ih =>
    simp only [insertDesc]
    split
    · simp
    · simp only [List.mem_cons, ih]; tauto

open MovingPeaks in
theorem mem_sortDesc (l : List (ℝ × List ℝ)) (y : ℝ × List ℝ) : y ∈ sortDesc l ↔ y ∈ l := by
  unfold sortDesc
  have : ∀ acc : List (ℝ × List ℝ), y ∈ l.foldl (fun acc x => insertDesc x acc) acc ↔ y ∈ acc ∨ y ∈ l := by
    induction l with
    | nil => simp
    | cons a t ih => intro acc; simp only [List.foldl_cons, ih, mem_insertDesc, List.mem_cons]; tauto
  simpa using this []

/-! ### `movingpeaks.diversity` of identical individuals, the `royal_road2` loop -/

theorem zipadd_scaled (x : List ℝ) (c : ℝ) :
    ((x.map fun xi => c * xi).zip x).map (fun p => p.1 + p.2) = x.map fun xi => (c + 1) * xi := by
  induction x with
  | nil => simp
  | cons a t ih => simp only [List.map_cons, List.zip_cons_cons, ih]; congr 1; ring

theorem fold_replicate (x : List ℝ) (k : Nat) (c : ℝ) :
    (List.replicate k x).foldl (fun d y => (d.zip y).map fun p => p.1 + p.2) (x.map fun xi => c * xi)
      = x.map fun xi => (c + k) * xi := by
  induction k generalizing c with
  | zero => simp
  | succ j ih =>
    simp only [List.replicate_succ, List.foldl_cons]
    rw [zipadd_scaled, ih]
    apply List.map_congr_left; intro a _; push_cast; ring

theorem zeros_as_map (x : List ℝ) : List.replicate x.length (0 : ℝ) = x.map fun xi => 0 * xi := by
  induction x with
  | nil => simp
  | cons a t ih => simp only [List.length_cons, List.replicate_succ, List.map_cons, ih]; congr 1; ring

theorem mem_zip_self (x : List ℝ) (p : ℝ × ℝ) (hp : p ∈ x.zip x) : p.1 = p.2 := by
  induction x with
  | nil => simp at hp
  | cons a t ih =>
    simp only [List.zip_cons_cons, List.mem_cons] at hp
    rcases hp with rfl | hp
    · rfl
    · exact ih hp

open BenchBin in
theorem royalRoad2Loop_ge (x : List Bool) (order : Nat) (fuel no total v : Nat)
    (h : royalRoad2Loop x order fuel no total = some v) : total ≤ v := by
  induction fuel generalizing no total with
  | zero => simp only [royalRoad2Loop, Option.some.injEq] at h; omega
  | succ f ih =>
    simp only [royalRoad2Loop] at h
    split at h
    · split at h
      · simp at h
      · have := ih _ _ h; omega
    · simp only [Option.some.injEq] at h; omega

end C20L
