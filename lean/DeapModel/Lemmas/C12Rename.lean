/-
Helper lemmas for C12: renaming histories.  A tree object seen under the current argument names evaluates (through
`compile`) to the name-free direct interpretation `evalRef`.
-/
import DeapModel.Core.GpCompile
import DeapModel.Lemmas.C12PyTree

namespace GpCompile
open GpTree

/-! ### the lambda parameters, positionally -/

theorem zip_find_none (x : Str) : ∀ (names : List Str) (vals : List Val), x ∉ names →
    (names.zip vals).find? (fun nv => nv.1 == x) = none
  | [], _, _ => by simp
  | _ :: _, [], _ => by simp
  | n :: ns, v :: vs, h => by
    have hn : n ≠ x := fun e => h (by simp [e])
    have hx : x ∉ ns := fun e => h (by simp [e])
    simp only [List.zip_cons_cons, List.find?_cons]
    have : (n == x) = false := by simpa using hn
    rw [this]
    exact zip_find_none x ns vs hx

theorem zip_find_ix : ∀ (names : List Str) (vals : List Val) (i : Nat) (nm : Str), names.Nodup →
    vals.length = names.length → names[i]? = some nm →
    ∃ v, vals[i]? = some v ∧ (names.zip vals).find? (fun nv => nv.1 == nm) = some (nm, v)
  | [], _, i, nm, _, _, h => by simp at h
  | n :: ns, [], _, _, _, hl, _ => by simp at hl
  | n :: ns, v :: vs, 0, nm, _, _, h => by
    simp only [List.getElem?_cons_zero, Option.some.injEq] at h
    subst h
    exact ⟨v, by simp, by simp⟩
  | n :: ns, v :: vs, i + 1, nm, hnd, hl, h => by
    simp only [List.getElem?_cons_succ] at h
    have hnd' := List.nodup_cons.mp hnd
    have hmem : nm ∈ ns := List.mem_of_getElem? h
    have hne : n ≠ nm := fun e => hnd'.1 (e ▸ hmem)
    obtain ⟨w, hw1, hw2⟩ := zip_find_ix ns vs i nm hnd'.2 (by simpa using hl) h
    refine ⟨w, by simpa using hw1, ?_⟩
    simp only [List.zip_cons_cons, List.find?_cons]
    have : (n == nm) = false := by simpa using hne
    rw [this]
    exact hw2

theorem nodupStr_nodup : ∀ {l : List Str}, PyLang.nodupStr l = true → l.Nodup
  | [], _ => List.nodup_nil
  | x :: xs, h => by
    simp only [PyLang.nodupStr, Bool.and_eq_true, Bool.not_eq_true', List.contains_eq_mem,
      decide_eq_false_iff_not] at h
    exact List.nodup_cons.mpr ⟨h.1, nodupStr_nodup h.2⟩

/-! ### views -/

theorem viewNode_args (argIx : Prim → Option Nat) (cur : List Str) (p : Prim) :
    (viewNode argIx cur p).args = p.args := by
  unfold viewNode
  cases argIx p with
  | none => rfl
  | some i =>
    simp only
    cases h : cur[i]? <;> rfl

mutual
theorem flatten_mapTree (f : Prim → Prim) : ∀ t : Tree, flatten (mapTree f t) = (flatten t).map f
  | .node p as => by rw [mapTree, flatten, flatten, flattenF_mapF f as]; rfl
theorem flattenF_mapF (f : Prim → Prim) : ∀ ts : List Tree, flattenF (mapF f ts) = (flattenF ts).map f
  | [] => by rw [mapF, flattenF]; rfl
  | t :: ts => by rw [mapF, flattenF, flattenF, flatten_mapTree f t, flattenF_mapF f ts, List.map_append]
end

theorem mapF_length (f : Prim → Prim) : ∀ ts : List Tree, (mapF f ts).length = ts.length
  | [] => by rw [mapF]
  | t :: ts => by rw [mapF, List.length_cons, List.length_cons, mapF_length f ts]

mutual
theorem wf_mapTree (f : Prim → Prim) (hf : ∀ p, (f p).args = p.args) : ∀ t : Tree, wf (mapTree f t) = wf t
  | .node p as => by
    rw [mapTree, wf, wf, wfF_mapF f hf as, mapF_length]
    simp only [Prim.arity, hf]
theorem wfF_mapF (f : Prim → Prim) (hf : ∀ p, (f p).args = p.args) : ∀ ts : List Tree, wfF (mapF f ts) = wfF ts
  | [] => by rw [mapF]
  | t :: ts => by rw [mapF, wfF, wfF, wf_mapTree f hf t, wfF_mapF f hf ts]
end

theorem renameArgs_length (a : List Str) (k : List (Str × Str)) : (renameArgs a k).length = a.length := by
  simp [renameArgs]

theorem renameHistory_length : ∀ (ks : List (List (Str × Str))) (a : List Str), (renameHistory a ks).length = a.length
  | [], a => rfl
  | k :: ks, a => by
    show (renameHistory (renameArgs a k) ks).length = a.length
    rw [renameHistory_length ks, renameArgs_length]

/-! ### the view under the current names evaluates to the name-free interpretation -/

mutual
theorem evalTree_view (env : Env) (argIx : Prim → Option Nat) (names : List Str) (vals : List Val)
    (hnd : names.Nodup) (hlen : vals.length = names.length) :
    ∀ t : Tree, (∀ p ∈ flatten t, ∀ i, argIx p = some i → i < names.length) →
      (∀ p ∈ flatten t, argIx p = none → tok p ∉ names) →
      evalTree { env with vars := bindArgs names vals env.vars, funs := shadowFuns names vals env.funs }
        (mapTree (viewNode argIx names) t) = evalRef env argIx vals t
  | .node p as, hix, hfr => by
    rw [mapTree, evalTree, evalRef]
    have hp : p ∈ flatten (.node p as) := by rw [flatten]; exact List.mem_cons_self
    cases ha : argIx p with
    | some i =>
      have hi := hix p hp i ha
      obtain ⟨nm, hnm⟩ : ∃ nm, names[i]? = some nm := ⟨names[i], by simp [hi]⟩
      obtain ⟨v, hv1, hv2⟩ := zip_find_ix names vals i nm hnd hlen hnm
      simp only [viewNode, ha, hnm, String.toList_ofList, bindArgs, hv2, hv1]
      simp
    | none =>
      have hv : viewNode argIx names p = p := by simp [viewNode, ha]
      have hfresh := hfr p hp ha
      have hsub : ∀ q ∈ flattenF as, q ∈ flatten (.node p as) := fun q hq => by
        rw [flatten]; exact List.mem_cons_of_mem _ hq
      rw [hv]
      by_cases hk : p.kind = .prim
      · simp only [hk, if_true]
        have hn : p.name.toList ∉ names := by simpa [tok, hk] using hfresh
        rw [evalF_view env argIx names vals hnd hlen as (fun q hq => hix q (hsub q hq)) (fun q hq => hfr q (hsub q hq))]
        simp only [shadowFuns, zip_find_none _ names vals hn]
      · simp only [hk, if_false]
        have hn : p.text.toList ∉ names := by simpa [tok, hk] using hfresh
        simp only [bindArgs, zip_find_none _ names vals hn]
theorem evalF_view (env : Env) (argIx : Prim → Option Nat) (names : List Str) (vals : List Val)
    (hnd : names.Nodup) (hlen : vals.length = names.length) :
    ∀ ts : List Tree, (∀ p ∈ flattenF ts, ∀ i, argIx p = some i → i < names.length) →
      (∀ p ∈ flattenF ts, argIx p = none → tok p ∉ names) →
      evalF { env with vars := bindArgs names vals env.vars, funs := shadowFuns names vals env.funs }
        (mapF (viewNode argIx names) ts) = evalRefF env argIx vals ts
  | [], _, _ => by rw [mapF, evalF, evalRefF]
  | t :: ts, hix, hfr => by
    have h1 : ∀ q ∈ flatten t, q ∈ flattenF (t :: ts) := fun q hq => by
      rw [flattenF]; exact List.mem_append_left _ hq
    have h2 : ∀ q ∈ flattenF ts, q ∈ flattenF (t :: ts) := fun q hq => by
      rw [flattenF]; exact List.mem_append_right _ hq
    rw [mapF, evalF, evalRefF,
      evalTree_view env argIx names vals hnd hlen t (fun q hq => hix q (h1 q hq)) (fun q hq => hfr q (h1 q hq)),
      evalF_view env argIx names vals hnd hlen ts (fun q hq => hix q (h2 q hq)) (fun q hq => hfr q (h2 q hq))]
end

end GpCompile
