/-
C13 helper lemmas (5): `population.sort(key=fitness, reverse=True)` (cma.py:133).
-/
import DeapModel.Core.Cma
import Mathlib.Order.Defs.LinearOrder
import Mathlib.Data.List.Nodup

open Cma

namespace C13L
variable {K V : Type} [LinearOrder K]

theorem sortDesc_perm (pop : List (K × V)) : (sortDesc pop).Perm pop := List.mergeSort_perm _ _

theorem sortDesc_sorted (pop : List (K × V)) : (sortDesc pop).Pairwise (fun a b => b.1 ≤ a.1) := by
  have h := List.pairwise_mergeSort (le := fun (a b : K × V) => !decide (a.1 < b.1))
    (by intro a b c; simp only [Bool.not_eq_true', decide_eq_false_iff_not, not_lt]; exact fun h1 h2 => le_trans h2 h1)
    (by intro a b; simp only [Bool.or_eq_true, Bool.not_eq_true', decide_eq_false_iff_not, not_lt]; exact le_total _ _)
    pop
  refine h.imp ?_
  intro a b hab
  simpa using hab

theorem sortDesc_eq_of_perm {p q : List (K × V)} (h : p.Perm q) (hd : (p.map Prod.fst).Nodup) :
    sortDesc p = sortDesc q := by
  have hpq : (sortDesc p).Perm (sortDesc q) := (sortDesc_perm p).trans (h.trans (sortDesc_perm q).symm)
  refine List.Perm.eq_of_pairwise (le := fun a b => b.1 ≤ a.1) ?_ (sortDesc_sorted p) (sortDesc_sorted q) hpq
  intro a b ha hb h1 h2
  have ha' : a ∈ p := (sortDesc_perm p).subset ha
  have hb' : b ∈ p := h.symm.subset ((sortDesc_perm q).subset hb)
  exact List.inj_on_of_nodup_map hd ha' hb' (le_antisymm h2 h1)

/-- the first `mu` of the sorted population are at least as fit as all the others -/
theorem sortDesc_best (pop : List (K × V)) (mu : Nat) :
    ∀ x ∈ (sortDesc pop).take mu, ∀ y ∈ (sortDesc pop).drop mu, y.1 ≤ x.1 := by
  have h := sortDesc_sorted pop
  rw [← List.take_append_drop mu (sortDesc pop), List.pairwise_append] at h
  exact h.2.2

end C13L
