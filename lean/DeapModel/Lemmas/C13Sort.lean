/-
C13 helper lemmas (5): `population.sort(key=fitness, reverse=True)` (cma.py:133).
-/
import DeapModel.Core.Cma
import Mathlib.Order.Defs.LinearOrder
import Mathlib.Data.List.Nodup
import DeapModel.RealInst
import Mathlib.Data.List.Lex

open Cma

namespace C13L
variable {K V : Type} [LinearOrder K]

theorem sortDesc_perm (pop : List (K × V)) : (sortDesc pop).Perm pop := List.mergeSort_perm _ _

theorem sortDesc_sorted (pop : List (K × V)) : (sortDesc pop).Pairwise (fun a b => b.1 ≤ a.1) := by
  have h := List.pairwise_mergeSort (le := fun (a b : K × V) => !decide (a.1 < b.1))
    (by intro a b c; simp only [Bool.not_eq_true', decide_eq_false_iff_not, not_lt]; exact fun h1 h2 => le_trans h2 h1)
    (by intro a b; simp only [Bool.or_eq_true, Bool.not_eq_true', decide_eq_false_iff_not, not_lt]; exact le_total _ _)
    pop
  refine h.imp ?_
  intro a b hab
  simpa using hab

theorem sortDesc_eq_of_perm {p q : List (K × V)} (h : p.Perm q) (hd : (p.map Prod.fst).Nodup) :
    sortDesc p = sortDesc q := by
  have hpq : (sortDesc p).Perm (sortDesc q) := (sortDesc_perm p).trans (h.trans (sortDesc_perm q).symm)
  refine List.Perm.eq_of_pairwise (le := fun a b => b.1 ≤ a.1) ?_ (sortDesc_sorted p) (sortDesc_sorted q) hpq
  intro a b ha hb h1 h2
  have ha' : a ∈ p := (sortDesc_perm p).subset ha
  have hb' : b ∈ p := h.symm.subset ((sortDesc_perm q).subset hb)
  exact List.inj_on_of_nodup_map hd ha' hb' (le_antisymm h2 h1)

/-- the first `mu` of the sorted population are at least as fit as all the others -/
theorem sortDesc_best (pop : List (K × V)) (mu : Nat) :
    ∀ x ∈ (sortDesc pop).take mu, ∀ y ∈ (sortDesc pop).drop mu, y.1 ≤ x.1 := by
  have h := sortDesc_sorted pop
  rw [← List.take_append_drop mu (sortDesc pop), List.pairwise_append] at h
  exact h.2.2

/-! #### The real sort key: `FitKey ℝ` under the model's `lexLt` -/

/-- the model's fitness comparison at ℝ is the lexicographic order of the weighted-value tuples -/
theorem lexLt_iff (a b : List ℝ) : lexLt a b = true ↔ a < b := by
  induction a generalizing b with
  | nil => cases b <;> simp [lexLt]
  | cons x xs ih =>
    cases b with
    | nil => simp [lexLt]
    | cons y ys =>
      simp only [lexLt, List.cons_lt_cons_iff, RealLike.real_lt]
      by_cases h1 : x < y
      · simp [h1]
      · by_cases h2 : y < x
        · have : x ≠ y := fun e => by subst e; exact lt_irrefl _ h2
          simp [h1, h2, this]
        · have : x = y := le_antisymm (not_lt.mp h2) (not_lt.mp h1)
          subst this
          simp [ih]

theorem FitKey.ext' {a b : FitKey ℝ} (h : a.wvalues = b.wvalues) : a = b := by
  cases a; cases b; simp_all

/-- `FitKey ℝ` with **the model's own `<`** (`lexLt` on the weighted values) is a linear order. -/
noncomputable instance fitKeyLinearOrder : LinearOrder (FitKey ℝ) where
  lt a b := lexLt a.wvalues b.wvalues = true
  le a b := a.wvalues ≤ b.wvalues
  le_refl a := le_refl a.wvalues
  le_trans a b c := le_trans (a := a.wvalues)
  le_antisymm a b h1 h2 := FitKey.ext' (le_antisymm h1 h2)
  le_total a b := le_total a.wvalues b.wvalues
  lt_iff_le_not_ge a b := by
    show lexLt a.wvalues b.wvalues = true ↔ _
    rw [lexLt_iff]; exact lt_iff_le_not_ge
  toDecidableLE := fun _ _ => Classical.dec _
  toDecidableEq := fun _ _ => Classical.dec _
  toDecidableLT := fun a b => inferInstanceAs (Decidable (lexLt a.wvalues b.wvalues = true))

/-- the order structure is the model's own: same `<`, same decision procedure (by `rfl`) -/
theorem fitKeyLinearOrder_lt : (fitKeyLinearOrder.toLT : LT (FitKey ℝ)) = Cma.fitKeyLT := rfl
theorem fitKeyLinearOrder_decLt : (fitKeyLinearOrder.toDecidableLT : DecidableLT (FitKey ℝ)) = Cma.fitKeyDecLT := rfl

end C13L
