import DeapModel.Lemmas.C15SweepPtr
import Mathlib.Data.List.Induction
import Mathlib.Data.List.Perm.Subperm
/-!
C15 — running the loops of the transcription `Core/HvSweep.lean` along a well-formed list:
the 2-D loop as a pure fold, the reset loop, and (for termination in every dimension) the
remove / reinsert loops of the general case.
-/
namespace HvSweep
set_option linter.unusedVariables false

/-! ### the loop of `dimIndex == 1` is a fold over the node list -/

/-- the loop l.120-130 on the list of remaining nodes -/
def stairNodes (C : Cargo) : List ℕ → (q : ℕ) → (h hvol : ℚ) → ℚ × ℚ × ℕ
  | [], q, h, hvol => (hvol, h, q)
  | p :: l, q, h, hvol =>
    if cg C p 0 < h then stairNodes C l p (cg C p 0) (hvol + h * (cg C q 1 - cg C p 1))
    else stairNodes C l p h (hvol + h * (cg C q 1 - cg C p 1))

theorem loop2d_eq (C : Cargo) : ∀ (l : List ℕ) (fuel q : ℕ) (h hvol : ℚ) (S : St),
    l.length ≤ fuel → Seg S 1 q l 0 → (∀ p ∈ l, p ≠ 0) →
    ∃ S', loop2d C fuel (nx S 1 q) q h hvol S
        = some ((stairNodes C l q h hvol).1, (stairNodes C l q h hvol).2.1, (stairNodes C l q h hvol).2.2, S')
      ∧ PtrEq S S'
  | [], fuel, q, h, hvol, S, _, hs, _ => by
    have : nx S 1 q = 0 := hs.1
    rw [this]
    refine ⟨S, ?_, PtrEq.refl S⟩
    cases fuel <;> simp [loop2d, stairNodes]
  | p :: l, fuel, q, h, hvol, S, hf, hs, hne => by
    have hp : nx S 1 q = p := hs.1.1
    have hp0 : p ≠ 0 := hne p (by simp)
    obtain ⟨f, rfl⟩ : ∃ f, fuel = f + 1 := ⟨fuel - 1, by simp at hf; omega⟩
    rw [hp]
    unfold loop2d
    rw [if_neg hp0]
    simp only [stairNodes]
    by_cases hlt : cg C p 0 < h
    · rw [if_pos hlt, if_pos hlt]
      exact loop2d_eq C l f p (cg C p 0) _ S (by simpa using hf) hs.2 (fun x hx => hne x (by simp [hx]))
    · rw [if_neg hlt, if_neg hlt]
      set S1 := (if ign S p = 0 then setIgn S p 1 else S) with hS1
      have hpe : PtrEq S S1 := by
        rw [hS1]; split
        · exact fun _ _ => ⟨rfl, rfl⟩
        · exact PtrEq.refl S
      have hnx : nx S1 1 p = nx S 1 p := (hpe 1 p).1
      obtain ⟨S', h1, h2⟩ := loop2d_eq C l f p h (hvol + h * (cg C q 1 - cg C p 1)) S1 (by simpa using hf)
        (seg_congr (fun a => hpe 1 a) l p 0 hs.2) (fun x hx => hne x (by simp [hx]))
      exact ⟨S', h1, hpe.trans h2⟩

/-- the 2-D loop only touches the ignore flags -/
theorem loop2d_fields (C : Cargo) : ∀ (l : List ℕ) (fuel q : ℕ) (h hvol : ℚ) (S S' : St) (r : ℚ × ℚ × ℕ),
    loop2d C fuel (nx S 1 q) q h hvol S = some (r.1, r.2.1, r.2.2, S') → S'.next = S.next ∧ S'.prev = S.prev := by
  intro l fuel
  induction fuel with
  | zero =>
    intro q h hvol S S' r he
    unfold loop2d at he
    split at he
    · simp only [Option.some.injEq, Prod.mk.injEq] at he
      rw [← he.2.2.2]; exact ⟨rfl, rfl⟩
    · cases he
  | succ f ih =>
    intro q h hvol S S' r he
    unfold loop2d at he
    split at he
    · simp only [Option.some.injEq, Prod.mk.injEq] at he
      rw [← he.2.2.2]; exact ⟨rfl, rfl⟩
    · dsimp only at he
      split at he
      · exact ih _ _ _ S S' r he
      · have := ih (nx S 1 q) h _ (if ign S (nx S 1 q) = 0 then setIgn S (nx S 1 q) 1 else S) S' r he
        have hf : (if ign S (nx S 1 q) = 0 then setIgn S (nx S 1 q) 1 else S).next = S.next ∧
            (if ign S (nx S 1 q) = 0 then setIgn S (nx S 1 q) 1 else S).prev = S.prev := by
          split <;> exact ⟨rfl, rfl⟩
        exact ⟨this.1.trans hf.1, this.2.trans hf.2⟩

/-! ### well-formedness of the lists below a level, and a sequence of removals -/

/-- the lists of the dimensions `0 .. k-1` are well formed and hold the node set `A` -/
def WFlt (n : ℕ) (S : St) (k : ℕ) (A : List ℕ) : Prop := ∀ i < k, ∃ L, DL n S i L ∧ L.Perm A

theorem wflt_ptrEq {n : ℕ} {S T : St} {k : ℕ} {A : List ℕ} (h : PtrEq S T) (hw : WFlt n S k A) : WFlt n T k A :=
  fun i hi => let ⟨L, hd, hp⟩ := hw i hi; ⟨L, dl_ptrEq h hd, hp⟩

theorem wflt_mono {n : ℕ} {S : St} {k k' : ℕ} {A : List ℕ} (h : k' ≤ k) (hw : WFlt n S k A) : WFlt n S k' A :=
  fun i hi => hw i (by omega)

theorem shape_ptr_fields {dims n : ℕ} {S T : St} (h : Shape dims n S) (h1 : T.next = S.next) (h2 : T.prev = S.prev) :
    Shape dims n T := by
  unfold Shape; rw [h1, h2]; exact h

theorem remove_wf {dims n : ℕ} (C : Cargo) {S : St} {k : ℕ} {A : List ℕ} {x : ℕ} (hS : Shape dims n S) (hk : k ≤ dims)
    (hw : WFlt n S k A) (hx : x ∈ A) :
    WFlt n (remove C S x k) k (A.erase x) ∧ ∀ i < k, NodeFacts n S i x := by
  have hnf : ∀ i < k, NodeFacts n S i x := by
    intro i hi
    obtain ⟨L, hd, hp⟩ := hw i hi
    exact dl_nodeFacts hd (hp.mem_iff.mpr hx)
  refine ⟨?_, hnf⟩
  intro i hi
  obtain ⟨L, hd, hp⟩ := hw i hi
  have hxL : x ∈ L := hp.mem_iff.mpr hx
  obtain ⟨h1, _, _⟩ := dl_unlink hS (by omega : i < dims) hd hxL
  exact ⟨L.erase x, dl_congr (remove_lt C x k S hS hk hnf i hi) h1, hp.erase x⟩

/-- remove the nodes `rs`, in this order, from the lists `0 .. k-1` -/
def removeSeq (C : Cargo) (k : ℕ) (S : St) (rs : List ℕ) : St := rs.foldl (fun S x => remove C S x k) S

theorem removeSeq_cons (C : Cargo) (k : ℕ) (S : St) (x : ℕ) (rs : List ℕ) :
    removeSeq C k S (x :: rs) = removeSeq C k (remove C S x k) rs := rfl

theorem removeSeq_snoc (C : Cargo) (k : ℕ) (S : St) (rs : List ℕ) (y : ℕ) :
    removeSeq C k S (rs ++ [y]) = remove C (removeSeq C k S rs) y k := by
  unfold removeSeq; rw [List.foldl_append]; rfl

theorem removeSeq_wf {dims n : ℕ} (C : Cargo) {k : ℕ} (hk : k ≤ dims) : ∀ (rs : List ℕ) (S : St) (A : List ℕ),
    Shape dims n S → WFlt n S k A → rs.Nodup → (∀ y ∈ rs, y ∈ A) →
    Shape dims n (removeSeq C k S rs) ∧ WFlt n (removeSeq C k S rs) k (A.diff rs) ∧
      (A.diff rs).length + rs.length = A.length ∧ (∀ j, k ≤ j → DimEq j S (removeSeq C k S rs)) ∧
      (∀ y ∈ A, y ∉ rs → y ∈ A.diff rs)
  | [], S, A, hS, hw, _, _ => ⟨hS, by rw [List.diff_nil]; exact hw, by simp, fun j _ => DimEq.refl j S, by simp⟩
  | x :: rs, S, A, hS, hw, hnd, hsub => by
    have hnd' := List.nodup_cons.mp hnd
    have hx : x ∈ A := hsub x (by simp)
    obtain ⟨hw1, _⟩ := remove_wf C hS hk hw hx
    obtain ⟨e1, e2, e3, e4, e5⟩ := removeSeq_wf C hk rs (remove C S x k) (A.erase x) (shape_remove C x k S hS) hw1 hnd'.2
      (fun y hy => (List.mem_erase_of_ne (fun e : y = x => hnd'.1 (e ▸ hy))).mpr (hsub y (by simp [hy])))
    rw [removeSeq_cons, List.diff_cons]
    refine ⟨e1, e2, ?_, ?_, ?_⟩
    · rw [List.length_cons, ← Nat.add_assoc, e3, List.length_erase_of_mem hx]
      have : 0 < A.length := List.length_pos_of_mem hx
      omega
    · intro j hj; exact (remove_ge C x k S j hj).trans (e4 j hj)
    · intro y hy hyn
      have hyx : y ≠ x := fun e => hyn (by simp [e])
      exact e5 y ((List.mem_erase_of_ne hyx).mpr hy) (fun h => hyn (by simp [h]))

/-! ### the loops of the general case -/

theorem resetLoop_ok {dims n : ℕ} (k : ℕ) : ∀ (l : List ℕ) (q : ℕ) (S : St) (fuel : ℕ),
    Seg S k 0 l q → l.length + 1 ≤ fuel → Shape dims n S →
    ∃ S', resetLoop k fuel q S = some S' ∧ PtrEq S S' ∧ Shape dims n S' := by
  intro l
  induction l using List.reverseRecOn with
  | nil =>
    intro q S fuel hs hf hS
    obtain ⟨f, rfl⟩ : ∃ f, fuel = f + 1 := ⟨fuel - 1, by simp at hf; omega⟩
    unfold resetLoop
    by_cases hq : q = 0
    · rw [if_pos hq]; exact ⟨S, rfl, PtrEq.refl S, hS⟩
    · rw [if_neg hq]
      set S1 := (if ign S q < k then setIgn S q 0 else S) with hS1
      have hpe : PtrEq S S1 := by rw [hS1]; split; exact fun _ _ => ⟨rfl, rfl⟩; exact PtrEq.refl S
      have hsh : Shape dims n S1 := by rw [hS1]; split; exact hS; exact hS
      have hpv : pv S1 k q = 0 := by rw [(hpe k q).2]; exact hs.2
      dsimp only
      rw [hpv]
      refine ⟨S1, ?_, hpe, hsh⟩
      cases f <;> simp [resetLoop]
  | append_singleton l b ih =>
    intro q S fuel hs hf hS
    obtain ⟨f, rfl⟩ : ∃ f, fuel = f + 1 := ⟨fuel - 1, by simp at hf; omega⟩
    have hs' := (seg_append S k l 0 b [] q).mp hs
    unfold resetLoop
    by_cases hq : q = 0
    · rw [if_pos hq]; exact ⟨S, rfl, PtrEq.refl S, hS⟩
    · rw [if_neg hq]
      set S1 := (if ign S q < k then setIgn S q 0 else S) with hS1
      have hpe : PtrEq S S1 := by rw [hS1]; split; exact fun _ _ => ⟨rfl, rfl⟩; exact PtrEq.refl S
      have hsh : Shape dims n S1 := by rw [hS1]; split; exact hS; exact hS
      have hpv : pv S1 k q = b := by rw [(hpe k q).2]; exact hs'.2.2
      dsimp only
      rw [hpv]
      obtain ⟨S', h1, h2, h3⟩ := ih b S1 f (seg_congr (hpe.dim k) l 0 b hs'.1) (by simp at hf; omega) hsh
      exact ⟨S', h1, hpe.trans h2, h3⟩

theorem removeLoop_nodes (C : Cargo) (k : ℕ) : ∀ (len : ℕ) (pre : List ℕ) (q : ℕ) (suf : List ℕ) (p : ℕ) (S : St),
    len = pre.length + 1 → Seg S k 0 (pre ++ q :: suf) 0 →
    ∃ pre' q' rs, removeLoop C k len p q S = ((rs.reverse ++ [p]).headD 0, q', pre'.length + 1, removeSeq C k S rs) ∧
      pre ++ [q] = pre' ++ q' :: rs.reverse
  | 0, pre, q, suf, p, S, hl, _ => by omega
  | 1, pre, q, suf, p, S, hl, _ => by
    have : pre = [] := List.length_eq_zero_iff.mp (by omega)
    subst this
    exact ⟨[], q, [], rfl, rfl⟩
  | len + 2, pre, q, suf, p, S, hl, hs => by
    unfold removeLoop
    split
    · -- one more node is removed
      have hpre : pre ≠ [] := by intro h; rw [h] at hl; simp at hl
      obtain ⟨pre0, q1, rfl⟩ : ∃ pre0 q1, pre = pre0 ++ [q1] := ⟨pre.dropLast, pre.getLast hpre, (List.dropLast_append_getLast hpre).symm⟩
      set S1 := remove C S q k with hS1
      have hge : DimEq k S S1 := remove_ge C q k S k (le_refl _)
      have hpv : pv S1 k q = q1 := by
        rw [(hge q).2]
        have := (seg_node S k (pre0 ++ [q1]) 0 q suf 0 hs).1
        rw [this]
        simp
      dsimp only
      rw [hpv]
      have hs1 : Seg S1 k 0 (pre0 ++ q1 :: q :: suf) 0 := by
        have := seg_congr hge _ 0 0 hs
        simpa using this
      obtain ⟨pre', q', rs', h1, h2⟩ := removeLoop_nodes C k (len + 1) pre0 q1 (q :: suf) q S1
        (by simp at hl; omega) hs1
      refine ⟨pre', q', q :: rs', ?_, ?_⟩
      · rw [h1, removeSeq_cons]
        congr 1
        simp only [List.reverse_cons, List.append_assoc]
        cases rs'.reverse <;> simp
      · rw [List.reverse_cons, ← List.cons_append, ← List.append_assoc, ← h2]
    · exact ⟨pre, q, [], by simp [removeSeq, hl], by simp⟩

/-- the recursive call of level `k` terminates on every well-formed state and restores the pointers -/
def RecOK (dims n : ℕ) (rec : ℕ → St → Option (ℚ × St)) (k : ℕ) : Prop :=
  ∀ (len : ℕ) (S : St) (A : List ℕ), Shape dims n S → WFlt n S (k + 1) A → A.length = len →
    ∃ v S', rec len S = some (v, S') ∧ PtrEq S S' ∧ Shape dims n S'

theorem areaStep_ok {dims n : ℕ} {rec : ℕ → St → Option (ℚ × St)} {k : ℕ} (hrec : RecOK dims n rec k)
    (len q : ℕ) (S : St) (A : List ℕ) (hS : Shape dims n S) (hw : WFlt n S (k + 1) A) (hl : A.length = len) :
    ∃ S', areaStep rec (k + 1) len q S = some S' ∧ PtrEq S S' ∧ Shape dims n S' := by
  unfold areaStep
  split
  · exact ⟨_, rfl, fun _ _ => ⟨rfl, rfl⟩, hS⟩
  · obtain ⟨v, S', h1, h2, h3⟩ := hrec len S A hS hw hl
    rw [h1]
    dsimp only
    split
    · exact ⟨_, rfl, h2.trans (fun _ _ => ⟨rfl, rfl⟩), h3⟩
    · exact ⟨_, rfl, h2.trans (fun _ _ => ⟨rfl, rfl⟩), h3⟩

theorem headD_append_singleton (l : List ℕ) (a b : ℕ) : (l ++ [a] ++ [b]).headD 0 = (l ++ [a]).headD 0 := by
  cases l <;> rfl

/-- the reinsertion loop puts back, in reverse order, what a sequence of removals took out -/
theorem reinsLoop_ok {dims n : ℕ} (C : Cargo) {rec : ℕ → St → Option (ℚ × St)} {k : ℕ} (hk : k + 1 < dims)
    (hrec : RecOK dims n rec k) (S₀ : St) (A : List ℕ) (hS₀ : Shape dims n S₀) (hw : WFlt n S₀ (k + 1) A) :
    ∀ (rs : List ℕ) (q p : ℕ) (hvol : ℚ) (len : ℕ) (T : St) (fuel : ℕ),
      PtrEq (removeSeq C (k + 1) S₀ rs) T → Shape dims n T → Seg S₀ (k + 1) q rs.reverse 0 →
      p = (rs.reverse ++ [0]).headD 0 → rs.length ≤ fuel → rs.Nodup → (∀ y ∈ rs, y ∈ A) → (∀ y ∈ rs, y ≠ 0) →
      len + rs.length = A.length →
      ∃ q' hv' T', reinsLoop rec C (k + 1) fuel p q hvol len T = some (q', hv', T') ∧ PtrEq S₀ T' ∧ Shape dims n T' := by
  intro rs
  induction rs using List.reverseRecOn with
  | nil =>
    intro q p hvol len T fuel hpe hT _ hp _ _ _ _ _
    have hp0 : p = 0 := by simpa using hp
    subst hp0
    refine ⟨q, hvol, T, ?_, hpe, hT⟩
    cases fuel <;> simp [reinsLoop]
  | append_singleton rs y ih =>
    intro q p hvol len T fuel hpe hT hseg hp hf hnd hsub hne hlen
    have hrev : (rs ++ [y]).reverse = y :: rs.reverse := by simp
    rw [hrev] at hseg hp
    have hpy : p = y := by simpa using hp
    subst hpy
    have hy0 : p ≠ 0 := hne p (by simp)
    obtain ⟨f, rfl⟩ : ∃ f, fuel = f + 1 := ⟨fuel - 1, by simp at hf; omega⟩
    have hnd' := List.nodup_append.mp hnd
    have hprs : p ∉ rs := fun h => hnd'.2.2 p h p (by simp) rfl
    -- the state before p was removed
    obtain ⟨hU, hwU, hlenU, hgeU, hmemU⟩ := removeSeq_wf C (by omega : k + 1 ≤ dims) rs S₀ A hS₀ hw hnd'.1
      (fun z hz => hsub z (by simp [hz]))
    set U := removeSeq C (k + 1) S₀ rs with hUdef
    have hpA : p ∈ A.diff rs := hmemU p (hsub p (by simp)) hprs
    obtain ⟨_, hnfU⟩ := remove_wf C hU (by omega : k + 1 ≤ dims) hwU hpA
    rw [removeSeq_snoc] at hpe
    unfold reinsLoop
    rw [if_neg hy0]
    dsimp only
    -- reinsert p
    set T1 := setBound T (k + 1) (cg C p (k + 1)) with hT1
    have hpe1 : PtrEq (remove C U p (k + 1)) T1 := hpe.trans (fun _ _ => ⟨rfl, rfl⟩)
    have hT1s : Shape dims n T1 := hT
    have hback := reinsert_remove C p (k + 1) U T1 hU hT1s (by omega) hnfU hpe1
    set T2 := reinsert C T1 p (k + 1) with hT2
    have hT2s : Shape dims n T2 := shape_reinsert C p (k + 1) T1 hT1s
    -- the next node in the list of dimension k+1
    have hnext : nx T2 (k + 1) p = (rs.reverse ++ [0]).headD 0 := by
      rw [(hback (k + 1) p).1, (hgeU (k + 1) (le_refl _) p).1]
      have := seg_nx_start S₀ (k + 1) rs.reverse p 0 hseg.2
      rw [this]
      cases rs.reverse <;> rfl
    -- the area step
    have hwT2 : WFlt n T2 (k + 1) (A.diff rs) := wflt_ptrEq hback hwU
    have hlen' : (A.diff rs).length = len + 1 := by
      have : (rs ++ [p]).length = rs.length + 1 := by simp
      omega
    obtain ⟨T4, h4, hpe4, hT4s⟩ := areaStep_ok hrec (len + 1) p
      (setVl T2 p (k + 1) (hvol + ar T q (k + 1) * (cg C p (k + 1) - cg C q (k + 1)))) (A.diff rs) hT2s
      (wflt_ptrEq (S := T2) (fun _ _ => ⟨rfl, rfl⟩) hwT2) hlen'
    rw [h4]
    dsimp only
    rw [hnext]
    have hpeU4 : PtrEq U T4 := (hback.trans (fun _ _ => ⟨rfl, rfl⟩)).trans hpe4
    exact ih p _ _ (len + 1) T4 f hpeU4 hT4s hseg.2 rfl (by simp at hf; omega) hnd'.1
      (fun z hz => hsub z (by simp [hz])) (fun z hz => hne z (by simp [hz])) (by
        have : (rs ++ [p]).length = rs.length + 1 := by simp
        omega)

theorem dl_length_le {n : ℕ} {S : St} {i : ℕ} {L : List ℕ} (hd : DL n S i L) : L.length ≤ n := by
  have hsub : L ⊆ ids n := fun a ha => (mem_ids n a).mpr (hd.2.2 a ha)
  have := (List.subperm_of_subset hd.2.1 hsub).length_le
  simpa [ids] using this

theorem foldl_setAr_ptr (C : Cargo) (q : ℕ) : ∀ (l : List ℕ) (S : St),
    PtrEq S (l.foldl (fun S i => setAr S q (i + 1) (ar S q i * -(cg C q i))) S) ∧
      (l.foldl (fun S i => setAr S q (i + 1) (ar S q i * -(cg C q i))) S).next = S.next ∧
      (l.foldl (fun S i => setAr S q (i + 1) (ar S q i * -(cg C q i))) S).prev = S.prev
  | [], S => ⟨PtrEq.refl S, rfl, rfl⟩
  | i :: l, S => by
    obtain ⟨h1, h2, h3⟩ := foldl_setAr_ptr C q l (setAr S q (i + 1) (ar S q i * -(cg C q i)))
    exact ⟨(show PtrEq S (setAr S q (i + 1) (ar S q i * -(cg C q i))) from fun _ _ => ⟨rfl, rfl⟩).trans h1, h2, h3⟩

/-- **the general case of `hvRecursive` terminates and restores the pointers**, given that the level below does -/
theorem general_ok {dims n : ℕ} (C : Cargo) {rec : ℕ → St → Option (ℚ × St)} {k : ℕ} (hk : k + 1 < dims)
    (hrec : RecOK dims n rec k) (fuel : ℕ) (hfuel : n + 1 ≤ fuel) (len : ℕ) (S : St) (A : List ℕ)
    (hS : Shape dims n S) (hw : WFlt n S (k + 2) A) (hl : A.length = len) (hlen : len ≠ 0) :
    ∃ v S', general rec C fuel (k + 1) len S = some (v, S') ∧ PtrEq S S' ∧ Shape dims n S' := by
  obtain ⟨Lk, hdk, hpk⟩ := hw (k + 1) (by omega)
  have hLk_len : Lk.length = len := hpk.length_eq.trans hl
  have hLk_n : Lk.length ≤ n := dl_length_le hdk
  have hLk_ne : Lk ≠ [] := by intro h; rw [h] at hLk_len; simp at hLk_len; omega
  obtain ⟨pre, q0, rfl⟩ : ∃ pre q0, Lk = pre ++ [q0] := ⟨Lk.dropLast, Lk.getLast hLk_ne, (List.dropLast_append_getLast hLk_ne).symm⟩
  have hsplit := (seg_append S (k + 1) pre 0 q0 [] 0).mp hdk.1
  have hq0 : pv S (k + 1) 0 = q0 := hsplit.2.2
  unfold general
  rw [hq0]
  -- loop 1
  obtain ⟨S1, hr1, hpe1, hS1⟩ := resetLoop_ok (dims := dims) (n := n) (k + 1) pre q0 S fuel hsplit.1
    (by simp at hLk_n; omega) hS
  rw [hr1]
  dsimp only
  have hq0' : pv S1 (k + 1) 0 = q0 := by rw [(hpe1 (k + 1) 0).2]; exact hq0
  rw [hq0']
  have hdk1 : DL n S1 (k + 1) (pre ++ [q0]) := dl_ptrEq hpe1 hdk
  have hw1 : WFlt n S1 (k + 1) A := wflt_ptrEq hpe1 (wflt_mono (by omega) hw)
  -- loop 2
  obtain ⟨pre', q', rs, hr2, hnodes⟩ := removeLoop_nodes C (k + 1) len pre q0 [] 0 S1 (by simp at hLk_len; omega) hdk1.1
  rw [hr2]
  dsimp only
  have hrs_sub : ∀ y ∈ rs, y ∈ pre ++ [q0] := by
    intro y hy
    rw [hnodes]
    exact List.mem_append_right _ (List.mem_cons_of_mem _ (List.mem_reverse.mpr hy))
  have hrs_nd : rs.Nodup := by
    have h1 : (pre' ++ q' :: rs.reverse).Nodup := hnodes ▸ hdk1.2.1
    have h2 := (List.nodup_cons.mp (List.nodup_append.mp h1).2.1).2
    exact List.nodup_reverse.mp h2
  have hrs_A : ∀ y ∈ rs, y ∈ A := fun y hy => hpk.mem_iff.mp (hrs_sub y hy)
  have hrs_ne : ∀ y ∈ rs, y ≠ 0 := fun y hy h0 => dl_zero_notMem hdk1 (h0 ▸ hrs_sub y hy)
  obtain ⟨hS2, hw2, hlen2, hge2, _⟩ := removeSeq_wf C (by omega : k + 1 ≤ dims) rs S1 A hS1 hw1 hrs_nd hrs_A
  set S2 := removeSeq C (k + 1) S1 rs with hS2def
  have hcount : pre'.length + 1 + rs.length = A.length := by
    have := congrArg List.length hnodes
    simp at this
    rw [hl, ← hLk_len]
    simp
    omega
  have hseg_q : Seg S1 (k + 1) q' rs.reverse 0 := by
    have := hdk1.1
    rw [hnodes] at this
    exact ((seg_append S1 (k + 1) pre' 0 q' rs.reverse 0).mp this).2
  -- the middle part: some state T with the pointers of S2
  have hmid : ∃ (hv : ℚ) (T : St),
      (if 1 < pre'.length + 1 then
          Option.map (fun S => (vl S2 (pv S2 (k + 1) q') (k + 1) + ar S2 (pv S2 (k + 1) q') (k + 1) *
              (cg C q' (k + 1) - cg C (pv S2 (k + 1) q') (k + 1)), S))
            (areaStep rec (k + 1) (pre'.length + 1) q' S2)
        else some (0, (List.range (k + 1)).foldl (fun S i => setAr S q' (i + 1) (ar S q' i * -(cg C q' i))) (setAr S2 q' 0 1)))
        = some (hv, T) ∧ PtrEq S2 T ∧ Shape dims n T := by
    split
    · obtain ⟨T, h1, h2, h3⟩ := areaStep_ok hrec (pre'.length + 1) q' S2 (A.diff rs) hS2 hw2 (by omega)
      rw [h1]
      exact ⟨_, T, rfl, h2, h3⟩
    · obtain ⟨h1, h2, h3⟩ := foldl_setAr_ptr C q' (List.range (k + 1)) (setAr S2 q' 0 1)
      exact ⟨0, _, rfl, (show PtrEq S2 (setAr S2 q' 0 1) from fun _ _ => ⟨rfl, rfl⟩).trans h1,
        shape_ptr_fields hS2 h2 h3⟩
  obtain ⟨hv, T, hm1, hm2, hm3⟩ := hmid
  rw [hm1]
  dsimp only
  -- loop 3
  obtain ⟨q'', hv', T', hr3, hpe3, hT'⟩ := reinsLoop_ok C hk hrec S1 A hS1 hw1 rs q' ((rs.reverse ++ [0]).headD 0) hv
    (pre'.length + 1) (setVl T q' (k + 1) hv) fuel (hm2.trans (fun _ _ => ⟨rfl, rfl⟩)) hm3 hseg_q rfl
    (by
      have : rs.length ≤ (pre ++ [q0]).length := by
        have := congrArg List.length hnodes
        simp at this ⊢
        omega
      omega) hrs_nd hrs_A hrs_ne hcount
  rw [hr3]
  exact ⟨_, T', rfl, hpe1.trans hpe3, hT'⟩

/-- **`hvRecursive` terminates (never runs out of fuel `≥ n + 1`) at every level, on every well-formed state,
and hands the lists back exactly as it found them.** -/
theorem hvRecursive_ok {dims n : ℕ} (C : Cargo) (fuel : ℕ) (hfuel : n + 1 ≤ fuel) :
    ∀ (k : ℕ), k < dims → RecOK dims n (hvRecursive C fuel k) k
  | 0, _ => by
    intro len S A hS _ _
    unfold hvRecursive
    dsimp only
    split
    · exact ⟨_, _, rfl, fun _ _ => ⟨rfl, rfl⟩, hS⟩
    · exact ⟨_, _, rfl, fun _ _ => ⟨rfl, rfl⟩, hS⟩
  | 1, _ => by
    intro len S A hS hw hl
    unfold hvRecursive
    dsimp only
    split
    · exact ⟨_, _, rfl, fun _ _ => ⟨rfl, rfl⟩, hS⟩
    · rename_i hlen
      obtain ⟨L, hd, hp⟩ := hw 1 (by omega)
      have hd' : DL n (tick S 1) 1 L := dl_ptrEq (S := S) (fun _ _ => ⟨rfl, rfl⟩) hd
      have hLn := dl_length_le hd
      cases L with
      | nil =>
        have := hp.length_eq
        simp at this
        omega
      | cons a l =>
        have hnx : nx (tick S 1) 1 0 = a := hd'.1.1.1
        rw [hnx]
        obtain ⟨S', h1, h2⟩ := loop2d_eq C l fuel a (cg C a 0) 0 (tick S 1) (by simp at hLn; omega) hd'.1.2
          (fun p hp h0 => dl_zero_notMem hd (h0 ▸ List.mem_cons_of_mem _ hp))
        rw [h1]
        exact ⟨_, S', rfl, (show PtrEq S (tick S 1) from fun _ _ => ⟨rfl, rfl⟩).trans h2,
          shape_ptr_fields hS (by
            -- loop2d only changes ignore flags; pointers are compared through PtrEq, the shape through the fields
            exact (loop2d_fields C l fuel a (cg C a 0) 0 (tick S 1) S' _ h1).1)
            (loop2d_fields C l fuel a (cg C a 0) 0 (tick S 1) S' _ h1).2⟩
  | k + 2, hk => by
    intro len S A hS hw hl
    unfold hvRecursive
    dsimp only
    split
    · exact ⟨_, _, rfl, fun _ _ => ⟨rfl, rfl⟩, hS⟩
    · rename_i hlen
      have hrec : RecOK dims n (hvRecursive C fuel (k + 1)) (k + 1) := hvRecursive_ok C fuel hfuel (k + 1) (by omega)
      obtain ⟨v, S', h1, h2, h3⟩ := general_ok C (k := k + 1) (by omega) hrec fuel hfuel len (tick S (k + 2)) A hS
        (wflt_ptrEq (S := S) (fun _ _ => ⟨rfl, rfl⟩) hw) hl hlen
      exact ⟨v, S', h1, (show PtrEq S (tick S (k + 2)) from fun _ _ => ⟨rfl, rfl⟩).trans h2, h3⟩

theorem preProcess_wf (C : Cargo) (dims n : ℕ) : WFlt n (preProcess C dims n) dims (ids n) := by
  intro i hi
  obtain ⟨L, hL⟩ := cum_exists C (List.range dims) (ids n) i (List.mem_range.mpr hi)
  exact ⟨L, (preProcess_spec C dims n).2 i L hL, cum_perm C _ _ i L hL⟩

/-- **Termination**: the transcribed algorithm never runs out of fuel, in any dimension, on any input;
moreover it returns the multi-list with all pointers as `preProcess` built them. -/
theorem computeSt_terminates (front : List (List ℚ)) (ref : List ℚ) :
    ∃ v S', computeSt front ref = some (v, S') ∧
      PtrEq (preProcess ([] :: translate front ref) ref.length front.length) S' := by
  unfold computeSt
  dsimp only
  set C : Cargo := [] :: translate front ref
  set n := front.length
  by_cases hd : ref.length = 0
  · rw [hd]
    simp only [Nat.zero_sub]
    unfold hvRecursive
    dsimp only
    split
    · exact ⟨_, _, rfl, fun _ _ => ⟨rfl, rfl⟩⟩
    · exact ⟨_, _, rfl, fun _ _ => ⟨rfl, rfl⟩⟩
  · have hk : ref.length - 1 < ref.length := by omega
    have hw := preProcess_wf C ref.length n
    have hw' : WFlt n (preProcess C ref.length n) (ref.length - 1 + 1) (ids n) := by
      rw [show ref.length - 1 + 1 = ref.length by omega]; exact hw
    obtain ⟨v, S', h1, h2, _⟩ := hvRecursive_ok (dims := ref.length) (n := n) C (n + 1) (le_refl _) (ref.length - 1) hk n
      (preProcess C ref.length n) (ids n) (preProcess_spec C ref.length n).1 hw' (by simp [ids])
    exact ⟨v, S', h1, h2⟩

end HvSweep
