import DeapModel.Lemmas.C15Gen6
/-!
C15 — every level of the transcribed sweep meets the level interface; hence `compute` returns the
specification in every dimension.
-/
namespace HvSweep
open Hypervolume
set_option linter.unusedVariables false

section ctx
variable {C : Cargo} {dims n : ℕ} {O : ℕ → List ℕ} {pt : ℕ → List ℚ} {ref : List ℚ}

theorem inv_tick (S : St) (k m : ℕ) (A : List ℕ) (inv : Inv C dims n O pt ref S k A) :
    Inv C dims n O pt ref (tick S m) k A :=
  { shape := inv.shape
    tshape := inv.tshape
    nodup := inv.nodup
    sub := inv.sub
    lists := fun i hi => dl_ptrEq (S := S) (fun _ _ => ⟨rfl, rfl⟩) (inv.lists i hi)
    cv := cv_frame (S := S) (fun _ _ _ => rfl) (fun _ _ _ => rfl) (fun _ _ => rfl) inv.cv
    ig := ig_frame (S := S) (fun _ _ => rfl) inv.ig }

/-- **every level `1 ≤ k < dims` of `hvRecursive` meets the level interface** -/
theorem levels_ok (g : GCtx C dims n O pt ref) (h2 : 2 ≤ dims) (F : ℕ) (hF : n + 1 ≤ F) :
    ∀ (k : ℕ), 1 ≤ k → k < dims → LevelOK C dims n O pt ref F k
  | 0, h, _ => by omega
  | 1, _, _ => level1_ok g h2 F hF
  | k + 2, _, hk => by
    have hrec := levels_ok g h2 F hF (k + 1) (by omega) (by omega)
    intro S A inv hne
    have hlen : A.length ≠ 0 := fun h => hne (List.length_eq_zero_iff.mp h)
    unfold hvRecursive
    dsimp only
    rw [if_neg hlen]
    obtain ⟨v, S', hrun, post⟩ := general_full g (k + 1) (by omega) hk F hF hrec (tick S (k + 2)) A
      (inv_tick S (k + 2) (k + 2) A inv) hne
    exact ⟨v, S', hrun,
      { val := post.val
        ptr := (show PtrEq S (tick S (k + 2)) from fun _ _ => ⟨rfl, rfl⟩).trans post.ptr
        inv := post.inv
        ign_out := post.ign_out
        cache_hi := post.cache_hi
        bounds_hi := post.bounds_hi }⟩

end ctx

/-! ### the orders built by `preProcess` -/

/-- the node order of dimension `s + t` when the loop of `preProcess` starts at dimension `s` with `nodes` -/
def ordFrom (C : Cargo) (s : ℕ) (nodes : List ℕ) : ℕ → List ℕ
  | 0 => sortByDimension C nodes s
  | t + 1 => sortByDimension C (ordFrom C s nodes t) (s + t + 1)

theorem ordFrom_shift (C : Cargo) (s : ℕ) (nodes : List ℕ) : ∀ t,
    ordFrom C s nodes (t + 1) = ordFrom C (s + 1) (sortByDimension C nodes s) t
  | 0 => by simp [ordFrom]
  | t + 1 => by
    show sortByDimension C (ordFrom C s nodes (t + 1)) (s + (t + 1) + 1) = sortByDimension C (ordFrom C (s + 1) _ t) (s + 1 + t + 1)
    rw [ordFrom_shift C s nodes t]
    congr 1
    omega

theorem mem_cum_range' (C : Cargo) : ∀ (m s : ℕ) (nodes : List ℕ) (t : ℕ), t < m →
    (s + t, ordFrom C s nodes t) ∈ cum C (List.range' s m) nodes
  | 0, _, _, t, h => by omega
  | m + 1, s, nodes, 0, _ => by simp [List.range'_succ, cum, ordFrom]
  | m + 1, s, nodes, t + 1, h => by
    rw [List.range'_succ, cum, ordFrom_shift]
    have := mem_cum_range' C m (s + 1) (sortByDimension C nodes s) t (by omega)
    rw [show s + 1 + t = s + (t + 1) by omega] at this
    exact List.mem_cons_of_mem _ this

/-- the static order of dimension `i` -/
def orderOf (C : Cargo) (n i : ℕ) : List ℕ := ordFrom C 0 (ids n) i

theorem mem_cum_orderOf (C : Cargo) (dims n i : ℕ) (hi : i < dims) :
    (i, orderOf C n i) ∈ cum C (List.range dims) (ids n) := by
  have := mem_cum_range' C dims 0 (ids n) i hi
  rw [Nat.zero_add] at this
  rw [List.range_eq_range']
  exact this

theorem orderOf_sorted (C : Cargo) (n i : ℕ) : (orderOf C n i).Pairwise (fun a b => cg C a i ≤ cg C b i) := by
  unfold orderOf
  cases i with
  | zero => exact sortByDimension_sorted C _ 0
  | succ t =>
    show (sortByDimension C (ordFrom C 0 (ids n) t) (0 + t + 1)).Pairwise _
    rw [show 0 + t + 1 = t + 1 by omega]
    exact sortByDimension_sorted C _ (t + 1)

theorem hvRecursive_len_zero (C : Cargo) (F k : ℕ) (S : St) : ∃ S', hvRecursive C F k 0 S = some (0, S') := by
  match k with
  | 0 => exact ⟨tick S 0, by unfold hvRecursive; simp⟩
  | 1 => exact ⟨tick S 1, by unfold hvRecursive; simp⟩
  | k + 2 => exact ⟨tick S (k + 2), by unfold hvRecursive; simp⟩

theorem extend_volume (i : ℕ) : ∀ (nodes : List ℕ) (S : St), (extend S nodes i).volume = S.volume
  | [], S => rfl
  | x :: xs, S => by
    rw [extend_cons]
    exact (extend_volume i xs _).trans rfl

theorem preLoop_volume (C : Cargo) : ∀ (is : List ℕ) (S : St) (nodes : List ℕ), (preLoop C is S nodes).volume = S.volume
  | [], S, _ => rfl
  | i :: is, S, nodes => (preLoop_volume C is _ _).trans (extend_volume i _ S)

theorem preProcess_volume (C : Cargo) (dims n : ℕ) : (preProcess C dims n).volume = (initSt dims n).volume :=
  preLoop_volume C _ _ _

/-- **the transcribed algorithm computes the specification in every dimension `≥ 2`** -/
theorem sweep_general (ref : List ℚ) (front : List (List ℚ)) (h2 : 2 ≤ ref.length)
    (hlen : ∀ p ∈ front, p.length = ref.length)
    (hle : ∀ p ∈ front, ∀ j < ref.length, p.getD j 0 ≤ ref.getD j 0) :
    compute front ref = some (hvCells ref front) := by
  unfold compute computeSt
  dsimp only
  set C : Cargo := [] :: translate front ref with hC
  set n := front.length with hn
  set dims := ref.length with hdims
  by_cases hn0 : n = 0
  · have hf : front = [] := List.length_eq_zero_iff.mp hn0
    obtain ⟨S', h⟩ := hvRecursive_len_zero C (n + 1) (dims - 1) (preProcess C dims n)
    rw [hn0] at h ⊢
    rw [h, hf, hvCells_nil_pts]
    rfl
  · let pt : ℕ → List ℚ := fun a => front.getD (a - 1) []
    have hpt_mem : ∀ a ∈ ids n, pt a ∈ front := by
      intro a ha
      have har := (mem_ids _ a).mp ha
      have h1 : a - 1 < front.length := by omega
      show front.getD (a - 1) [] ∈ front
      rw [List.getD_eq_getElem?_getD, List.getElem?_eq_getElem h1]; exact List.getElem_mem h1
    obtain ⟨hS, hD⟩ := preProcess_spec C dims n
    have g : GCtx C dims n (orderOf C n) pt ref :=
      { hdims := rfl
        perm := fun i hi => cum_perm C _ _ i _ (mem_cum_orderOf C dims n i hi)
        sorted := fun i _ => orderOf_sorted C n i
        cgv := by
          intro a ha j hj
          have har := (mem_ids _ a).mp ha
          have h1 : a - 1 < front.length := by omega
          have hl : (pt a).length = dims := hlen _ (hpt_mem a ha)
          have e := cg_translate front ref (a - 1) j h1 (by show j < (pt a).length; rw [hl]; exact hj) hj
          rw [show a - 1 + 1 = a by omega] at e
          exact e
        len := fun a ha => hlen _ (hpt_mem a ha)
        le := fun a ha j hj => hle _ (hpt_mem a ha) j hj }
    have hRL : ∀ i < dims, RL (orderOf C n) i (ids n) = orderOf C n i := by
      intro i hi
      unfold RL
      apply List.filter_eq_self.mpr
      intro a ha
      simpa using (g.mem hi a).mp ha
    have hfields := preProcess_fields C dims n
    have inv : Inv C dims n (orderOf C n) pt ref (preProcess C dims n) (dims - 1) (ids n) :=
      { shape := hS
        tshape := by
          refine ⟨?_, ?_, ?_⟩
          · rw [hfields.area]; exact shaped_replicate (n + 1) dims 0
          · rw [preProcess_volume]; exact shaped_replicate (n + 1) dims 0
          · rw [hfields.ignore]; simp [initSt]
        nodup := ids_nodup n
        sub := fun a ha => ha
        lists := by
          intro i hi
          rw [hRL i (by omega)]
          exact hD i _ (mem_cum_orderOf C dims n i (by omega))
        cv := by
          intro j hj1 hjK a ha b hb _
          rw [hfields.bounds] at hb
          have : (initSt dims n).bounds.getD (j + 1) none = none := by
            show (List.replicate dims none).getD (j + 1) none = none
            exact getD_replicate_self dims (j + 1) none
          rw [this] at hb; cases hb
        ig := by
          intro q hq hm
          have : ign (preProcess C dims n) q = 0 := by
            show (preProcess C dims n).ignore.getD q 0 = 0
            rw [hfields.ignore]; exact getD_replicate_self (n + 1) q 0
          omega }
    have hidsne : ids n ≠ [] := by
      intro h
      have := congrArg List.length h
      simp [ids] at this
      exact hn0 this
    obtain ⟨v, S', hrun, post⟩ := levels_ok g h2 (n + 1) (le_refl _) (dims - 1) (by omega) (by omega)
      (preProcess C dims n) (ids n) inv hidsne
    have hidslen : (ids n).length = n := by simp [ids]
    rw [hidslen] at hrun
    rw [hrun]
    simp only [Option.map_some, Option.some.injEq]
    rw [post.val]
    unfold Hj
    rw [show dims - 1 + 1 = dims by omega, hdims, List.take_length]
    congr 1
    exact ids_map front []

end HvSweep
