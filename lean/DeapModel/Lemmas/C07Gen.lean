/-
C07 — translator tie, helper lemmas: the combinators of Core/GenPreludeC07.lean (`G7.whileO`, `G7.loopO`, `G7.forO`,
`G7.index`, `G7.setIdx`) that the definitions regenerated from deap/tools/emo.py are written with, related to the
hand-written recursive functions of Core/Spea2.lean (`scanDown`, `scanUp`, `partitionLoop`) and Core/Nsga3.lean
(`genRefs`).  The theorems `Gen.<f>_refines_model` / `Gen.genRefs_eq_model` themselves live in
GenEq/C07.lean.tmpl and are elaborated on every run against the regenerated definitions.
-/
import DeapModel.Core.GenPreludeC07
import DeapModel.Lemmas.C07QSel
import DeapModel.Lemmas.C07Refs

set_option linter.unusedVariables false
set_option linter.unusedSectionVars false

namespace C07G
open Spea2

theorem index_nat {β : Type} (l : List β) (n : Nat) : G7.index l (n : Int) = l[n]? := by
  unfold G7.index
  have : ¬ ((n : Int) < 0) := by omega
  simp [this]

theorem setIdx_nat {β : Type} (l : List β) (n : Nat) (v : β) :
    G7.setIdx l (n : Int) v = if n < l.length then some (l.set n v) else none := by
  unfold G7.setIdx
  have : ¬ ((n : Int) < 0) := by omega
  simp [this]

section QS
variable {α : Type} [LT α] [DecidableLT α]

theorem scanDown_le (a : List α) (x : α) (j j' : Nat) (h : scanDown a x j = some j') : j ≤ a.length := by
  cases j with
  | zero => omega
  | succ j =>
    rw [scanDown] at h
    split at h
    · exact absurd h (by simp)
    · rename_i v hv
      have := (List.getElem?_eq_some_iff.1 hv).1
      omega

theorem whileO_scanDown (a : List α) (x : α) (c : Int → Option Bool) (b : Int → Option Int)
    (hc : ∀ j : Int, c j = (G7.index a j).bind fun t => if x < t then some true else some false)
    (hb : ∀ j : Int, b j = some (j - 1)) :
    ∀ (j j' : Nat), scanDown a x j = some j' → ∀ fuel, j ≤ fuel →
      G7.whileO fuel c b ((j : Int) - 1) = some (j' : Int) := by
  intro j
  induction j with
  | zero => intro j' h; simp [scanDown] at h
  | succ j ih =>
    intro j' h fuel hf
    obtain ⟨f, rfl⟩ : ∃ f, fuel = f + 1 := ⟨fuel - 1, by omega⟩
    have e1 : ((j + 1 : Nat) : Int) - 1 = (j : Int) := by omega
    rw [e1, G7.whileO, hc, index_nat]
    rw [scanDown] at h
    split at h
    · exact absurd h (by simp)
    · rename_i v hv
      rw [hv]
      by_cases hlt : x < v
      · simp only [hlt, if_true] at h
        simp only [Option.bind_some, hlt, if_true, hb]
        exact ih j' h f (by omega)
      · simp only [hlt, if_false, Option.some.injEq] at h
        simp only [Option.bind_some, hlt, if_false, h]

theorem whileO_scanUp (a : List α) (x : α) (c : Int → Option Bool) (b : Int → Option Int)
    (hc : ∀ j : Int, c j = (G7.index a j).bind fun t => if t < x then some true else some false)
    (hb : ∀ j : Int, b j = some (j + 1)) :
    ∀ (fuel i i' : Nat), scanUp a x fuel i = some i' →
      G7.whileO fuel c b (i : Int) = some (i' : Int) := by
  intro fuel
  induction fuel with
  | zero => intro i i' h; simp [scanUp] at h
  | succ f ih =>
    intro i i' h
    rw [G7.whileO, hc, index_nat]
    rw [scanUp] at h
    split at h
    · exact absurd h (by simp)
    · rename_i v hv
      rw [hv]
      by_cases hlt : v < x
      · simp only [hlt, if_true] at h
        simp only [Option.bind_some, hlt, if_true, hb]
        have := ih (i + 1) i' h
        simpa using this
      · simp only [hlt, if_false, Option.some.injEq] at h
        simp only [Option.bind_some, hlt, if_false, h]

/-- the body of the `while True` of `_partition`, in normal form -/
def partBody (x : α) (s : Int × Int × List α) : Option (G7.Ctl (Int × Int × List α) (List α × Int)) :=
  (G7.whileO (s.2.2.length + 1)
      (fun j => (G7.index s.2.2 j).bind fun t => if x < t then some true else some false)
      (fun j => some (j - 1)) (s.1 - 1)).bind fun j =>
  (G7.whileO (s.2.2.length + 1)
      (fun i => (G7.index s.2.2 i).bind fun t => if t < x then some true else some false)
      (fun i => some (i + 1)) (s.2.1 + 1)).bind fun i =>
  if i < j then
    (G7.index s.2.2 j).bind fun tj => (G7.index s.2.2 i).bind fun ti =>
    (G7.setIdx s.2.2 i tj).bind fun a1 => (G7.setIdx a1 j ti).bind fun a2 =>
    some (G7.Ctl.cont (j, i, a2))
  else some (G7.Ctl.ret (s.2.2, j))

theorem loopO_partition (x : α) (B : Int × Int × List α → Option (G7.Ctl (Int × Int × List α) (List α × Int)))
    (hB : ∀ s, B s = partBody x s) :
    ∀ (fuel : Nat) (a : List α) (i1 j : Nat) (a' : List α) (q : Nat),
      partitionLoop x fuel a i1 j = some (a', q) →
      G7.loopO fuel B ((j : Int), (i1 : Int) - 1, a) = some (a', (q : Int)) := by
  intro fuel
  induction fuel with
  | zero => intro a i1 j a' q h; simp [partitionLoop] at h
  | succ f ih =>
    intro a i1 j a' q h
    rw [partitionLoop] at h
    split at h
    · exact absurd h (by simp)
    · rename_i j' hj
      split at h
      · exact absurd h (by simp)
      · rename_i i' hi
        have hd := whileO_scanDown a x _ _ (fun _ => rfl) (fun _ => rfl) j j' hj (a.length + 1)
          (by have := scanDown_le a x j j' hj; omega)
        have hu := whileO_scanUp a x _ _ (fun _ => rfl) (fun _ => rfl) (a.length + 1) i1 i' hi
        have e2 : (i1 : Int) - 1 + 1 = (i1 : Int) := by omega
        rw [G7.loopO, hB, partBody]
        simp only [hd, e2, hu, Option.bind_some]
        by_cases hlt : i' < j'
        · have hlt' : (i' : Int) < (j' : Int) := by omega
          simp only [hlt, if_true] at h
          simp only [hlt', if_true, index_nat]
          split at h
          · rename_i vi vj hvi hvj
            have hil := (List.getElem?_eq_some_iff.1 hvi).1
            have hjl := (List.getElem?_eq_some_iff.1 hvj).1
            simp only [hvi, hvj, Option.bind_some, setIdx_nat, hil, if_true, List.length_set, hjl]
            have := ih _ (i' + 1) j' a' q h
            simpa using this
          · exact absurd h (by simp)
        · have hlt' : ¬ (i' : Int) < (j' : Int) := by omega
          simp only [hlt, if_false, Option.some.injEq, Prod.mk.injEq] at h
          obtain ⟨rfl, rfl⟩ := h
          rw [if_neg hlt']

end QS
end C07G

namespace C07G

/-- `for i in range(left + 1)` of `gen_refs_recursive`: the loop over the state `(ref, points)` -/
theorem forO_genRefs {γ : Type} (ref : List γ) (depth : Nat) (F : Int → List γ × List (List γ) → Option (List γ × List (List γ)))
    (g : Nat → List (List γ)) (left : Nat)
    (hF : ∀ (i : Nat) (r : List γ) (pts : List (List γ)), i ≤ left → (∀ v, r.set depth v = ref.set depth v) →
      ∃ r', (∀ v, r'.set depth v = ref.set depth v) ∧ F (i : Int) (r, pts) = some (r', pts ++ g i)) :
    ∀ (l : List Nat) (r : List γ) (pts : List (List γ)), (∀ i ∈ l, i ≤ left) → (∀ v, r.set depth v = ref.set depth v) →
      ∃ r', G7.forO (l.map (fun (k : Nat) => (0 : Int) + (k : Int))) F (r, pts) = some (r', pts ++ l.flatMap g) := by
  intro l
  induction l with
  | nil => intro r pts _ _; exact ⟨r, by simp [G7.forO]⟩
  | cons i l ih =>
    intro r pts hl hr
    obtain ⟨r1, hr1, h1⟩ := hF i r pts (hl i (by simp)) hr
    obtain ⟨r2, h2⟩ := ih r1 (pts ++ g i) (fun k hk => hl k (by simp [hk])) hr1
    refine ⟨r2, ?_⟩
    simp only [List.map_cons, G7.forO, Int.zero_add, h1, List.flatMap_cons]
    simp only [Int.zero_add] at h2
    rw [h2, List.append_assoc]

theorem range_zero (n : Nat) : G7.range 0 ((n : Int) + 1) = (List.range (n + 1)).map (fun (k : Nat) => (0 : Int) + (k : Int)) := by
  unfold G7.range
  have : ((n : Int) + 1 - 0).toNat = n + 1 := by omega
  rw [this]

end C07G

namespace C07G

/-! ### the deletion loop of `selSPEA2` (`for index in reversed(sorted(to_remove)): del chosen_indices[index]`) -/

theorem sortedI_map (l : List Nat) :
    G7.sortedI (l.map Int.ofNat) = (l.mergeSort (fun a b => decide (a ≤ b))).map Int.ofNat := by
  unfold G7.sortedI
  rw [List.map_mergeSort]
  intro a _ b _
  simp

theorem delIdx_nat {β : Type} (l : List β) (n : Nat) :
    G7.delIdx l (n : Int) = if n < l.length then some (l.eraseIdx n) else none := by
  unfold G7.delIdx
  have : ¬ ((n : Int) < 0) := by omega
  simp [this]

theorem forO_del (F : Int → List Int → Option (List Int)) (hF : ∀ p s, F p s = (G7.delIdx s p).bind some) :
    ∀ (l c : List Nat) (r : List Int), G7.forO (l.map Int.ofNat) F (c.map Int.ofNat) = some r →
      r = (l.foldl (fun l i => l.eraseIdx i) c).map Int.ofNat := by
  intro l
  induction l with
  | nil => intro c r h; simpa [G7.forO] using h.symm
  | cons i l ih =>
    intro c r h
    simp only [List.map_cons, G7.forO, hF] at h
    have e : G7.delIdx (c.map Int.ofNat) (Int.ofNat i) = if i < c.length then some ((c.eraseIdx i).map Int.ofNat) else none := by
      have := delIdx_nat (c.map Int.ofNat) i
      simpa [List.eraseIdx_map] using this
    rw [e] at h
    by_cases hi : i < c.length
    · simp only [hi, if_true, Option.bind_some] at h
      exact ih _ r h
    · simp [hi] at h

end C07G
