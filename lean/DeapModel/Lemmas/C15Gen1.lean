import DeapModel.Lemmas.C15Sweep3d
/-!
C15 — towards the all-dimension correctness of the transcribed sweep: the static picture.
Static orders `O i` (the lists built by `preProcess`), positions, the restriction `RL i A` of an order to a node
set, prefixes, the projected hypervolumes `Hj`, and the IDEAL cache contents `AR` / `VOL` of a node with their
recurrences (the slab step along the last coordinate).
-/
namespace Hypervolume
set_option linter.unusedVariables false

/-! ### `hvCells` only reads the first `ref.length` coordinates -/

theorem boxVol_take : ∀ (ref : List ℚ) (p : Pt), boxVol ref (p.take ref.length) = boxVol ref p
  | [], _ => rfl
  | r :: ref, [] => by simp [boxVol]
  | r :: ref, x :: p => by
    rw [List.length_cons, List.take_succ_cons, boxVol_cons, boxVol_cons, boxVol_take ref p]

theorem pmax_take : ∀ (ref : List ℚ) (p q : Pt), pmax ref (p.take ref.length) (q.take ref.length) = pmax ref p q
  | [], _, _ => rfl
  | r :: ref, p, q => by
    have ih := pmax_take ref p.tail q.tail
    cases p <;> cases q <;> simp_all [pmax]

theorem hvIE_take (ref : List ℚ) : ∀ (n : ℕ) (S : List Pt), S.length ≤ n →
    hvIE ref (S.map (fun p => p.take ref.length)) = hvIE ref S := by
  intro n
  induction n with
  | zero =>
    intro S h
    have : S = [] := List.length_eq_zero_iff.mp (Nat.le_zero.mp h)
    subst this; rfl
  | succ n ih =>
    intro S h
    cases S with
    | nil => rfl
    | cons q S =>
      have h' : S.length ≤ n := by simpa using h
      rw [List.map_cons, hvIE_cons, hvIE_cons, ih S h', boxVol_take]
      have : (S.map (fun p => p.take ref.length)).map (fun p => pmax ref p (q.take ref.length))
          = S.map (fun p => pmax ref p q) := by
        rw [List.map_map]
        apply List.map_congr_left
        intro p _
        exact pmax_take ref p q
      rw [this]

theorem hvCells_take (ref : List ℚ) (S : List Pt) : hvCells ref (S.map (fun p => p.take ref.length)) = hvCells ref S := by
  rw [hvCells_eq_hvIE _ _ _ (le_refl _), hvCells_eq_hvIE _ _ _ (le_refl _)]
  exact hvIE_take ref S.length S (le_refl _)

end Hypervolume

namespace HvSweep
open Hypervolume
set_option linter.unusedVariables false

/-- the static data of one run: reference point, the points of the nodes, their translated coordinates -/
structure GCtx (C : Cargo) (dims n : ℕ) (O : ℕ → List ℕ) (pt : ℕ → List ℚ) (ref : List ℚ) : Prop where
  hdims : ref.length = dims
  perm : ∀ i < dims, (O i).Perm (ids n)
  sorted : ∀ i < dims, (O i).Pairwise (fun a b => cg C a i ≤ cg C b i)
  cgv : ∀ a ∈ ids n, ∀ j < dims, cg C a j = (pt a).getD j 0 - ref.getD j 0
  len : ∀ a ∈ ids n, (pt a).length = dims
  le : ∀ a ∈ ids n, ∀ j < dims, (pt a).getD j 0 ≤ ref.getD j 0

/-- hypervolume of the node set `D` in the coordinates `0 .. j` -/
def Hj (ref : List ℚ) (pt : ℕ → List ℚ) (j : ℕ) (D : List ℕ) : ℚ := hvCells (ref.take (j + 1)) (D.map pt)

theorem Hj_nil (ref : List ℚ) (pt : ℕ → List ℚ) (j : ℕ) : Hj ref pt j [] = 0 := hvCells_nil_pts _

theorem Hj_congr (ref : List ℚ) (pt : ℕ → List ℚ) (j : ℕ) (D E : List ℕ) (h : ∀ a, a ∈ D ↔ a ∈ E) :
    Hj ref pt j D = Hj ref pt j E := by
  unfold Hj
  apply hvCells_of_mem_iff
  intro q
  simp only [List.mem_map]
  constructor
  · rintro ⟨a, ha, rfl⟩; exact ⟨a, (h a).mp ha, rfl⟩
  · rintro ⟨a, ha, rfl⟩; exact ⟨a, (h a).mpr ha, rfl⟩

theorem take_succ_getD (l : List ℚ) (k : ℕ) (h : k < l.length) : l.take (k + 1) = l.take k ++ [l.getD k 0] := by
  rw [List.take_add_one, List.getD_eq_getElem?_getD, List.getElem?_eq_getElem h]
  rfl

/-- **the slab step in terms of nodes** (level `j + 1`): `p` is at least as high as every node of `D` in
coordinate `j + 1` -/
theorem Hj_add_top {C : Cargo} {dims n : ℕ} {O : ℕ → List ℕ} {pt : ℕ → List ℚ} {ref : List ℚ}
    (g : GCtx C dims n O pt ref) (j : ℕ) (hj : j + 1 < dims) (D : List ℕ) (p : ℕ)
    (hD : ∀ s ∈ p :: D, s ∈ ids n)
    (hz : ∀ s ∈ D, (pt s).getD (j + 1) 0 ≤ (pt p).getD (j + 1) 0) :
    Hj ref pt (j + 1) (p :: D) = Hj ref pt (j + 1) D
      + (ref.getD (j + 1) 0 - (pt p).getD (j + 1) 0) * (Hj ref pt j (p :: D) - Hj ref pt j D) := by
  have hrl : j + 1 < ref.length := by rw [g.hdims]; exact hj
  have hreftake : ref.take (j + 1 + 1) = ref.take (j + 1) ++ [ref.getD (j + 1) 0] := take_succ_getD ref (j + 1) hrl
  have hlen1 : (ref.take (j + 1)).length = j + 1 := by rw [List.length_take]; omega
  have hlen2 : (ref.take (j + 1 + 1)).length = j + 1 + 1 := by rw [List.length_take]; omega
  -- truncated points
  let tp : ℕ → Pt := fun a => (pt a).take (j + 1 + 1)
  have htp_len : ∀ s ∈ p :: D, (tp s).length = (ref.take (j + 1)).length + 1 := by
    intro s hs
    show ((pt s).take (j + 1 + 1)).length = _
    rw [List.length_take, g.len s (hD s hs), hlen1]; omega
  have hlast : ∀ s ∈ p :: D, (tp s).getLastD 0 = (pt s).getD (j + 1) 0 := by
    intro s hs
    have hl : (pt s).length = dims := g.len s (hD s hs)
    show ((pt s).take (j + 1 + 1)).getLastD 0 = _
    rw [take_succ_getD (pt s) (j + 1) (by omega)]
    simp
  have hdrop : ∀ s ∈ p :: D, (tp s).dropLast = (pt s).take (j + 1) := by
    intro s hs
    have hl : (pt s).length = dims := g.len s (hD s hs)
    show ((pt s).take (j + 1 + 1)).dropLast = _
    rw [take_succ_getD (pt s) (j + 1) (by omega)]
    simp
  have key := hvCells_add_top_slab_last (ref.getD (j + 1) 0) (ref.take (j + 1)) (D.map tp) (tp p)
    (by
      intro s hs
      rcases List.mem_cons.mp hs with rfl | hs
      · exact htp_len p (by simp)
      · obtain ⟨a, ha, rfl⟩ := List.mem_map.mp hs
        exact htp_len a (by simp [ha]))
    (by
      intro s hs
      obtain ⟨a, ha, rfl⟩ := List.mem_map.mp hs
      rw [hlast a (by simp [ha]), hlast p (by simp)]
      exact hz a ha)
    (by rw [hlast p (by simp)]; exact g.le p (hD p (by simp)) (j + 1) hj)
  rw [← hreftake, hlast p (by simp)] at key
  -- rewrite the truncated point lists back
  have e1 : ∀ (E : List ℕ), hvCells (ref.take (j + 1 + 1)) (E.map tp) = Hj ref pt (j + 1) E := by
    intro E
    unfold Hj
    have := hvCells_take (ref.take (j + 1 + 1)) (E.map pt)
    rw [List.map_map, hlen2] at this
    exact this
  have e2 : ∀ (E : List ℕ), (∀ s ∈ E, s ∈ p :: D) →
      hvCells (ref.take (j + 1)) ((E.map tp).map List.dropLast) = Hj ref pt j E := by
    intro E hE
    unfold Hj
    have := hvCells_take (ref.take (j + 1)) (E.map pt)
    rw [List.map_map, hlen1] at this
    rw [← this, List.map_map]
    congr 1
    apply List.map_congr_left
    intro s hs
    exact hdrop s (hE s hs)
  have e1' : hvCells (ref.take (j + 1 + 1)) (tp p :: D.map tp) = Hj ref pt (j + 1) (p :: D) := e1 (p :: D)
  have e2' : hvCells (ref.take (j + 1)) ((tp p :: D.map tp).map List.dropLast) = Hj ref pt j (p :: D) :=
    e2 (p :: D) (fun s hs => hs)
  rw [e1', e1 D, e2', e2 D (fun s hs => List.mem_cons_of_mem _ hs)] at key
  exact key

/-- a node weakly dominated, in the coordinates `0 .. j`, by a member adds nothing -/
theorem Hj_dominated {C : Cargo} {dims n : ℕ} {O : ℕ → List ℕ} {pt : ℕ → List ℚ} {ref : List ℚ}
    (g : GCtx C dims n O pt ref) (j : ℕ) (hj : j < dims) (D : List ℕ) (b q : ℕ) (hb : b ∈ D)
    (hd : ∀ i ≤ j, (pt b).getD i 0 ≤ (pt q).getD i 0) : Hj ref pt j (q :: D) = Hj ref pt j D := by
  unfold Hj
  rw [List.map_cons]
  apply hvCells_dominated' _ _ (pt b) (pt q) (List.mem_map_of_mem hb)
  rw [dom_iff]
  intro i hi
  rw [List.length_take] at hi
  exact hd i (by omega)

/-- one node, one more coordinate -/
theorem Hj_single_succ {C : Cargo} {dims n : ℕ} {O : ℕ → List ℕ} {pt : ℕ → List ℚ} {ref : List ℚ}
    (g : GCtx C dims n O pt ref) (j : ℕ) (hj : j + 1 < dims) (a : ℕ) (ha : a ∈ ids n) :
    Hj ref pt (j + 1) [a] = (ref.getD (j + 1) 0 - (pt a).getD (j + 1) 0) * Hj ref pt j [a] := by
  have := Hj_add_top g j hj [] a (by intro s hs; simp at hs; rw [hs]; exact ha) (by simp)
  rw [this, Hj_nil, Hj_nil]; ring

/-! ### static orders, restriction to a node set, prefixes -/

/-- position of a node in the static order of dimension `i` -/
def pos (O : ℕ → List ℕ) (i a : ℕ) : ℕ := (O i).idxOf a

/-- the static order of dimension `i` restricted to the node set `A` -/
def RL (O : ℕ → List ℕ) (i : ℕ) (A : List ℕ) : List ℕ := (O i).filter (fun a => decide (a ∈ A))

/-- the nodes of `A` at or before `a` in dimension `i` -/
def preSet (O : ℕ → List ℕ) (i : ℕ) (A : List ℕ) (a : ℕ) : List ℕ :=
  A.filter (fun b => decide (pos O i b ≤ pos O i a))

theorem mem_RL (O : ℕ → List ℕ) (i : ℕ) (A : List ℕ) (a : ℕ) : a ∈ RL O i A ↔ a ∈ O i ∧ a ∈ A := by
  unfold RL; simp

theorem mem_preSet (O : ℕ → List ℕ) (i : ℕ) (A : List ℕ) (a b : ℕ) :
    b ∈ preSet O i A a ↔ b ∈ A ∧ pos O i b ≤ pos O i a := by
  unfold preSet; simp

theorem RL_congr (O : ℕ → List ℕ) (i : ℕ) (A B : List ℕ) (h : ∀ a, a ∈ A ↔ a ∈ B) : RL O i A = RL O i B := by
  unfold RL
  apply List.filter_congr
  intro a _
  simp [h a]

theorem idxOf_lt_of_sublist_pair : ∀ (L : List ℕ) (b a : ℕ), L.Nodup → [b, a].Sublist L → L.idxOf b < L.idxOf a
  | [], b, a, _, h => by simp at h
  | x :: L, b, a, hnd, h => by
    have hnd' := List.nodup_cons.mp hnd
    cases h with
    | cons _ h' =>
      have hb : b ∈ L := h'.subset (by simp)
      have ha : a ∈ L := h'.subset (by simp)
      have hxb : x ≠ b := fun e => hnd'.1 (e ▸ hb)
      have hxa : x ≠ a := fun e => hnd'.1 (e ▸ ha)
      rw [List.idxOf_cons_ne _ hxb, List.idxOf_cons_ne _ hxa]
      have := idxOf_lt_of_sublist_pair L b a hnd'.2 h'
      omega
    | cons_cons _ h' =>
      have ha : a ∈ L := h'.subset (by simp)
      have hxa : x ≠ a := fun e => hnd'.1 (e ▸ ha)
      rw [List.idxOf_cons_self, List.idxOf_cons_ne _ hxa]
      omega

/-- in a sublist of a duplicate-free order, earlier means smaller position -/
theorem pos_lt_of_split (O : ℕ → List ℕ) (i : ℕ) (hnd : (O i).Nodup) (L l₁ l₂ : List ℕ) (a : ℕ)
    (hsub : L.Sublist (O i)) (hL : L = l₁ ++ a :: l₂) :
    (∀ b ∈ l₁, pos O i b < pos O i a) ∧ (∀ b ∈ l₂, pos O i a < pos O i b) := by
  subst hL
  constructor
  · intro b hb
    apply idxOf_lt_of_sublist_pair (O i) b a hnd
    refine List.Sublist.trans ?_ hsub
    obtain ⟨u, v, rfl⟩ := List.append_of_mem hb
    have h1 : [b, a].Sublist (b :: (v ++ a :: l₂)) :=
      List.Sublist.cons_cons b (by
        have : [a].Sublist (v ++ a :: l₂) := (List.singleton_sublist.mpr (by simp))
        exact this)
    have h2 : (b :: (v ++ a :: l₂)).Sublist (u ++ b :: v ++ a :: l₂) := by
      rw [List.append_assoc, List.cons_append]
      exact List.sublist_append_right u _
    exact h1.trans h2
  · intro b hb
    apply idxOf_lt_of_sublist_pair (O i) a b hnd
    refine List.Sublist.trans ?_ hsub
    have h1 : [a, b].Sublist (a :: l₂) := List.Sublist.cons_cons a (List.singleton_sublist.mpr hb)
    exact h1.trans (List.sublist_append_right l₁ _)

theorem pos_inj (O : ℕ → List ℕ) (i a b : ℕ) (ha : a ∈ O i) (hb : b ∈ O i) (h : pos O i a = pos O i b) : a = b := by
  unfold pos at h
  have := List.getElem_idxOf (List.idxOf_lt_length_of_mem ha)
  have h2 := List.getElem_idxOf (List.idxOf_lt_length_of_mem hb)
  rw [← this, ← h2]
  congr 1

section ctx
variable {C : Cargo} {dims n : ℕ} {O : ℕ → List ℕ} {pt : ℕ → List ℚ} {ref : List ℚ}

theorem GCtx.nodup (g : GCtx C dims n O pt ref) {i : ℕ} (hi : i < dims) : (O i).Nodup :=
  (g.perm i hi).nodup_iff.mpr (ids_nodup n)

theorem GCtx.mem (g : GCtx C dims n O pt ref) {i : ℕ} (hi : i < dims) (a : ℕ) : a ∈ O i ↔ a ∈ ids n :=
  (g.perm i hi).mem_iff

theorem GCtx.cg_le_of_pos (g : GCtx C dims n O pt ref) {i : ℕ} (hi : i < dims) {a b : ℕ} (ha : a ∈ O i) (hb : b ∈ O i)
    (h : pos O i b ≤ pos O i a) : cg C b i ≤ cg C a i := by
  rcases Nat.lt_or_ge (pos O i b) (pos O i a) with hlt | hge
  · have hpw := List.pairwise_iff_getElem.mp (g.sorted i hi)
    have hla := List.idxOf_lt_length_of_mem ha
    have hlb := List.idxOf_lt_length_of_mem hb
    have := hpw (pos O i b) (pos O i a) hlb hla hlt
    unfold pos at this
    rwa [List.getElem_idxOf hlb, List.getElem_idxOf hla] at this
  · have : a = b := pos_inj O i a b ha hb (by omega)
    rw [this]

theorem GCtx.pos_lt_of_cg_lt (g : GCtx C dims n O pt ref) {i : ℕ} (hi : i < dims) {a b : ℕ} (ha : a ∈ O i) (hb : b ∈ O i)
    (h : cg C a i < cg C b i) : pos O i a < pos O i b := by
  by_contra hc
  have := g.cg_le_of_pos hi ha hb (by omega)
  linarith

theorem RL_sublist (O : ℕ → List ℕ) (i : ℕ) (A : List ℕ) : (RL O i A).Sublist (O i) := List.filter_sublist

/-- the prefix of the restricted list up to a node is its `preSet` -/
theorem mem_preSet_of_split (g : GCtx C dims n O pt ref) {i : ℕ} (hi : i < dims) (A : List ℕ)
    (hA : ∀ a ∈ A, a ∈ ids n) (l₁ l₂ : List ℕ) (a : ℕ) (hL : RL O i A = l₁ ++ a :: l₂) (b : ℕ) :
    b ∈ preSet O i A a ↔ b ∈ l₁ ++ [a] := by
  obtain ⟨h1, h2⟩ := pos_lt_of_split O i (g.nodup hi) (RL O i A) l₁ l₂ a (RL_sublist O i A) hL
  rw [mem_preSet]
  constructor
  · rintro ⟨hbA, hpos⟩
    have hbL : b ∈ RL O i A := (mem_RL O i A b).mpr ⟨(g.mem hi b).mpr (hA b hbA), hbA⟩
    rw [hL] at hbL
    rcases List.mem_append.mp hbL with h | h
    · exact List.mem_append_left _ h
    · rcases List.mem_cons.mp h with h | h
      · rw [h]; simp
      · have := h2 b h; omega
  · intro hb
    rcases List.mem_append.mp hb with h | h
    · have hbL : b ∈ RL O i A := by rw [hL]; exact List.mem_append_left _ h
      exact ⟨((mem_RL O i A b).mp hbL).2, le_of_lt (h1 b h)⟩
    · simp at h
      have haL : a ∈ RL O i A := by rw [hL]; simp
      rw [h]
      exact ⟨((mem_RL O i A a).mp haL).2, le_refl _⟩

/-! ### the ideal contents of the caches of level `j + 1` -/

/-- `area[a][j+1]` should be: the `j+1`-dimensional (coordinates `0..j`) hypervolume of the nodes at or before `a` -/
def ARv (ref : List ℚ) (pt : ℕ → List ℚ) (O : ℕ → List ℕ) (j : ℕ) (A : List ℕ) (a : ℕ) : ℚ :=
  Hj ref pt j (preSet O (j + 1) A a)

/-- `volume[a][j+1]` should be: the volume of the slabs strictly before `a` -/
def VOLv (C : Cargo) (ref : List ℚ) (pt : ℕ → List ℚ) (O : ℕ → List ℕ) (j : ℕ) (A : List ℕ) (a : ℕ) : ℚ :=
  Hj ref pt (j + 1) (preSet O (j + 1) A a) + ARv ref pt O j A a * cg C a (j + 1)

/-- the caches of a node only depend on the nodes at or before it -/
theorem preSet_congr (O : ℕ → List ℕ) (i : ℕ) (A B : List ℕ) (a : ℕ)
    (h : ∀ b, pos O i b ≤ pos O i a → (b ∈ A ↔ b ∈ B)) : ∀ b, b ∈ preSet O i A a ↔ b ∈ preSet O i B a := by
  intro b
  rw [mem_preSet, mem_preSet]
  constructor
  · rintro ⟨h1, h2⟩; exact ⟨(h b h2).mp h1, h2⟩
  · rintro ⟨h1, h2⟩; exact ⟨(h b h2).mpr h1, h2⟩

theorem ARv_congr (O : ℕ → List ℕ) (j : ℕ) (A B : List ℕ) (a : ℕ)
    (h : ∀ b, pos O (j + 1) b ≤ pos O (j + 1) a → (b ∈ A ↔ b ∈ B)) : ARv ref pt O j A a = ARv ref pt O j B a :=
  Hj_congr ref pt j _ _ (preSet_congr O (j + 1) A B a h)

theorem VOLv_congr (O : ℕ → List ℕ) (j : ℕ) (A B : List ℕ) (a : ℕ)
    (h : ∀ b, pos O (j + 1) b ≤ pos O (j + 1) a → (b ∈ A ↔ b ∈ B)) : VOLv C ref pt O j A a = VOLv C ref pt O j B a := by
  unfold VOLv
  rw [ARv_congr O j A B a h, Hj_congr ref pt (j + 1) _ _ (preSet_congr O (j + 1) A B a h)]

/-- the value of the level is read off the caches of the last node -/
theorem Hj_of_last (g : GCtx C dims n O pt ref) (j : ℕ) (hj : j + 1 < dims) (A : List ℕ) (hA : ∀ a ∈ A, a ∈ ids n)
    (l₁ : List ℕ) (a : ℕ) (hL : RL O (j + 1) A = l₁ ++ [a]) :
    VOLv C ref pt O j A a - ARv ref pt O j A a * cg C a (j + 1) = Hj ref pt (j + 1) A := by
  unfold VOLv
  rw [add_sub_cancel_right]
  apply Hj_congr
  intro b
  rw [mem_preSet_of_split g hj A hA l₁ [] a hL b, ← hL, mem_RL]
  constructor
  · exact fun h => h.2
  · exact fun h => ⟨(g.mem hj b).mpr (hA b h), h⟩

/-- the caches of the first node -/
theorem caches_of_first (g : GCtx C dims n O pt ref) (j : ℕ) (hj : j + 1 < dims) (A : List ℕ) (hA : ∀ a ∈ A, a ∈ ids n)
    (a : ℕ) (l₂ : List ℕ) (hL : RL O (j + 1) A = a :: l₂) :
    ARv ref pt O j A a = Hj ref pt j [a] ∧ VOLv C ref pt O j A a = 0 := by
  have hmem : ∀ b, b ∈ preSet O (j + 1) A a ↔ b ∈ [a] := by
    intro b
    have := mem_preSet_of_split g hj A hA [] l₂ a hL b
    simpa using this
  have haL : a ∈ RL O (j + 1) A := by rw [hL]; simp
  have haI : a ∈ ids n := hA a ((mem_RL O (j + 1) A a).mp haL).2
  have h1 : ARv ref pt O j A a = Hj ref pt j [a] := Hj_congr ref pt j _ _ hmem
  refine ⟨h1, ?_⟩
  unfold VOLv
  rw [h1, Hj_congr ref pt (j + 1) _ _ hmem, Hj_single_succ g j hj a haI, g.cgv a haI (j + 1) hj]
  ring

/-- from one node of the list of level `j + 1` to the next: one more slab -/
theorem caches_step (g : GCtx C dims n O pt ref) (j : ℕ) (hj : j + 1 < dims) (A : List ℕ) (hA : ∀ a ∈ A, a ∈ ids n)
    (l₁ l₂ : List ℕ) (a a' : ℕ) (hL : RL O (j + 1) A = l₁ ++ a :: a' :: l₂) :
    VOLv C ref pt O j A a' = VOLv C ref pt O j A a + ARv ref pt O j A a * (cg C a' (j + 1) - cg C a (j + 1)) := by
  have hL' : RL O (j + 1) A = (l₁ ++ [a]) ++ a' :: l₂ := by rw [hL]; simp
  have hm1 := mem_preSet_of_split g hj A hA l₁ (a' :: l₂) a hL
  have hm2 := mem_preSet_of_split g hj A hA (l₁ ++ [a]) l₂ a' hL'
  have hmem : ∀ b, b ∈ preSet O (j + 1) A a' ↔ b ∈ a' :: preSet O (j + 1) A a := by
    intro b
    rw [hm2 b, List.mem_cons, hm1 b]
    simp only [List.mem_append, List.mem_singleton]
    tauto
  have haL : ∀ x ∈ RL O (j + 1) A, x ∈ ids n := fun x hx => hA x ((mem_RL O (j + 1) A x).mp hx).2
  have ha'I : a' ∈ ids n := haL a' (by rw [hL]; simp)
  have hpreI : ∀ s ∈ a' :: preSet O (j + 1) A a, s ∈ ids n := by
    intro s hs
    rcases List.mem_cons.mp hs with rfl | hs
    · exact ha'I
    · exact hA s ((mem_preSet O (j + 1) A a s).mp hs).1
  obtain ⟨hp1, _⟩ := pos_lt_of_split O (j + 1) (g.nodup hj) (RL O (j + 1) A) (l₁ ++ [a]) l₂ a' (RL_sublist O (j + 1) A) hL'
  have hz : ∀ s ∈ preSet O (j + 1) A a, (pt s).getD (j + 1) 0 ≤ (pt a').getD (j + 1) 0 := by
    intro s hs
    have hsI : s ∈ ids n := hA s ((mem_preSet O (j + 1) A a s).mp hs).1
    have hsl : s ∈ l₁ ++ [a] := (hm1 s).mp hs
    have hle := g.cg_le_of_pos hj ((g.mem hj a').mpr ha'I) ((g.mem hj s).mpr hsI) (le_of_lt (hp1 s hsl))
    rw [g.cgv s hsI (j + 1) hj, g.cgv a' ha'I (j + 1) hj] at hle
    linarith
  have hstep := Hj_add_top g j hj (preSet O (j + 1) A a) a' hpreI hz
  unfold VOLv ARv
  rw [Hj_congr ref pt (j + 1) _ _ hmem, Hj_congr ref pt j _ _ hmem, hstep, g.cgv a' ha'I (j + 1) hj]
  ring

end ctx

end HvSweep
