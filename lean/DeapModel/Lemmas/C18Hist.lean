/-
C18 helper lemmas, part D: whole histories — the representation invariant along a history,
the stream invariant (delivered / not yet delivered rows), header counting.
-/
import DeapModel.Lemmas.C18Rep

set_option linter.unusedSimpArgs false
set_option linter.unusedVariables false

namespace C18L
open Logbook

/-! ### the specification of a history on the plain list of surviving records -/

/-- what an operation does to the list of surviving records, by list semantics alone -/
def specStep (es : List Entry) : Op → List Entry
  | .record e => es ++ [e]
  | .pop i => match pos? es.length i with | some p => es.eraseIdx p | none => es
  | .delIndex i => match pos? es.length i with | some p => es.eraseIdx p | none => es
  | .delSlice idx => removeIdx idx es
  | _ => es

def specRunFrom (es : List Entry) (ops : List Op) : List Entry := ops.foldl specStep es
def specRun (ops : List Op) : List Entry := specRunFrom [] ops

/-- premise of the chapter clauses for one operation, `es` being the surviving records before it:
records carry exactly the chapters `C` (DESIGN §6), slice index lists are what `slice.indices`
produces (distinct, in range).  Integer indices of `pop` / `del` may be anything (out of range:
`IndexError`, nothing changes). -/
def OpOk (C : List Name) (es : List Entry) : Op → Prop
  | .record e => EntryOk C e
  | .delSlice idx => idx.Nodup ∧ ∀ i ∈ idx, i < es.length
  | _ => True

def Valid (C : List Name) : List Entry → List Op → Prop
  | _, [] => True
  | es, o :: os => OpOk C es o ∧ Valid C (specStep es o) os

theorem Rep.congr {C : List Name} {lb lb' : LB} {es : List Entry} (h : Rep C lb es)
    (hr : lb'.rows = lb.rows) (hc : lb'.chapters = lb.chapters)
    (hb : lb'.buffindex ≤ lb'.rows.length) : Rep C lb' es := by
  refine ⟨hr ▸ h.rows, ?_, hc ▸ h.keys, hc ▸ h.nodup, hb, hc ▸ h.flat⟩
  intro c hcC
  have := h.chapters c hcC
  simpa [chRows, hc] using this

theorem stream_state (lb : LB) :
    (stream lb).2.rows = lb.rows ∧ (stream lb).2.chapters = lb.chapters ∧
    (stream lb).2.buffindex = lb.rows.length ∧ (stream lb).2.logHeader = lb.logHeader ∧
    (stream lb).1 = txt lb.buffindex (!lb.headerStreamed) lb := by
  cases lb; simp [stream]

/-- the header flag of a stream text, and what the stream does to `header_streamed` -/
theorem stream_header (lb : LB) :
    (stream lb).1.header = (!lb.headerStreamed && (lb.buffindex == 0 && decide (0 < lb.rows.length) && lb.logHeader)) ∧
    (stream lb).2.headerStreamed =
      (lb.headerStreamed || (lb.buffindex == 0 && decide (0 < lb.rows.length) && lb.logHeader)) := by
  cases lb with
  | mk rows chs b h lh hs =>
    simp only [stream, txt, rows_mk, buffindex_mk, logHeader_mk, headerStreamed_mk]
    refine ⟨?_, rfl⟩
    by_cases hz : rows.length = 0
    · simp [hz]
    · have : 0 < rows.length := Nat.pos_of_ne_zero hz
      simp [hz, this, Bool.and_assoc]

theorem setHeader_state (hd : Option (List Name)) (lb : LB) :
    (setHeader hd lb).rows = lb.rows ∧ (setHeader hd lb).chapters = lb.chapters ∧
    (setHeader hd lb).buffindex = lb.buffindex ∧ (setHeader hd lb).logHeader = lb.logHeader := by
  cases lb; simp [setHeader]

theorem setLogHeader_state (f : Bool) (lb : LB) :
    (setLogHeader f lb).rows = lb.rows ∧ (setLogHeader f lb).chapters = lb.chapters ∧
    (setLogHeader f lb).buffindex = lb.buffindex := by
  cases lb; simp [setLogHeader]

theorem pickle_eq (lb : LB) : pickle lb = lb := by cases lb; rfl

/-! ### streaming a chapter on its own -/

theorem getChapter_mapChapter (f : LB → LB) (n c : Name) (chs : List (Name × LB)) :
    getChapter c (mapChapter f n chs) = if c = n then (getChapter n chs).map f else getChapter c chs := by
  induction chs with
  | nil => simp [mapChapter, getChapter]
  | cons q qs ih =>
    obtain ⟨k, ch⟩ := q
    simp only [getChapter] at ih ⊢
    simp only [mapChapter]
    by_cases hk : k = n
    · subst hk
      by_cases h : c = k
      · subst h; simp [List.lookup]
      · have hb : (c == k) = false := by simpa using h
        simp [List.lookup, h, hb]
    · by_cases h : c = n
      · subst h
        have hb : (c == k) = false := by simpa using Ne.symm hk
        simp [hk, List.lookup, hb, ih]
      · by_cases h2 : c = k
        · subst h2; simp [hk, List.lookup, h]
        · have hb : (c == k) = false := by simpa using h2
          simp [hk, List.lookup, hb, ih, h]

theorem keys_mapChapter (f : LB → LB) (n : Name) (chs : List (Name × LB)) :
    (mapChapter f n chs).map (·.1) = chs.map (·.1) := by
  induction chs with
  | nil => rfl
  | cons q qs ih =>
    obtain ⟨k, ch⟩ := q
    simp only [mapChapter]; split <;> simp [ih]

theorem mem_mapChapter (f : LB → LB) (n : Name) (chs : List (Name × LB)) (q : Name × LB)
    (hq : q ∈ mapChapter f n chs) : ∃ r ∈ chs, q.1 = r.1 ∧ (q.2 = r.2 ∨ q.2 = f r.2) := by
  induction chs with
  | nil => simp [mapChapter] at hq
  | cons r rs ih =>
    obtain ⟨k, ch⟩ := r
    simp only [mapChapter] at hq
    split at hq
    · rcases List.mem_cons.1 hq with rfl | hq
      · exact ⟨(k, ch), by simp, rfl, Or.inr rfl⟩
      · exact ⟨q, by simp [hq], rfl, Or.inl rfl⟩
    · rcases List.mem_cons.1 hq with rfl | hq
      · exact ⟨(k, ch), by simp, rfl, Or.inl rfl⟩
      · obtain ⟨r, hr, h1, h2⟩ := ih hq
        exact ⟨r, by simp [hr], h1, h2⟩

/-- the stream of a (sub-)chapter touches neither rows nor chapter structure anywhere -/
theorem modifyAt_stream_top (path : List Name) (lb : LB) :
    (modifyAt (fun l => (stream l).2) path lb).rows = lb.rows ∧
    (modifyAt (fun l => (stream l).2) path lb).chapters.map (·.1) = lb.chapters.map (·.1) ∧
    (lb.buffindex ≤ lb.rows.length →
      (modifyAt (fun l => (stream l).2) path lb).buffindex ≤ lb.rows.length) := by
  cases path with
  | nil =>
    obtain ⟨h1, h2, h3, _⟩ := stream_state lb
    simp only [modifyAt]
    exact ⟨h1, by rw [h2], fun _ => by rw [h3]; exact Nat.le_refl _⟩
  | cons n rest => cases lb; simp [modifyAt, keys_mapChapter]

theorem modifyAt_cons_state (n : Name) (rest : List Name) (lb : LB) :
    (modifyAt (fun l => (stream l).2) (n :: rest) lb).rows = lb.rows ∧
    (modifyAt (fun l => (stream l).2) (n :: rest) lb).buffindex = lb.buffindex ∧
    (modifyAt (fun l => (stream l).2) (n :: rest) lb).logHeader = lb.logHeader ∧
    (modifyAt (fun l => (stream l).2) (n :: rest) lb).headerStreamed = lb.headerStreamed ∧
    (modifyAt (fun l => (stream l).2) (n :: rest) lb).chapters =
      mapChapter (modifyAt (fun l => (stream l).2) rest) n lb.chapters := by
  cases lb; simp [modifyAt]

/-- on a chapter without sub-chapters -/
theorem modifyAt_flat (path : List Name) (ch : LB) (hc : ch.chapters = [])
    (hb : ch.buffindex ≤ ch.rows.length) :
    (modifyAt (fun l => (stream l).2) path ch).rows = ch.rows ∧
    (modifyAt (fun l => (stream l).2) path ch).chapters = [] ∧
    (modifyAt (fun l => (stream l).2) path ch).buffindex ≤ ch.rows.length := by
  cases path with
  | nil =>
    obtain ⟨h1, h2, h3, _⟩ := stream_state ch
    simp only [modifyAt]
    exact ⟨h1, by rw [h2, hc], by rw [h3]; exact Nat.le_refl _⟩
  | cons n rest =>
    obtain ⟨h1, h2, _, _, h5⟩ := modifyAt_cons_state n rest ch
    exact ⟨h1, by rw [h5, hc]; rfl, by rw [h2]; exact hb⟩

/-- one step of a history keeps the logbook the image of the surviving records -/
theorem step_rep {C : List Name} {lb : LB} {es : List Entry} (h : Rep C lb es) (o : Op)
    (ho : OpOk C es o) : Rep C (step lb o).1 (specStep es o) := by
  have hlen : lb.rows.length = es.length := by rw [h.rows, List.length_map]
  cases o with
  | record e => exact h.record e ho
  | select path names => exact h
  | stream =>
    obtain ⟨h1, h2, h3, _⟩ := stream_state lb
    exact h.congr h1 h2 (by show (Logbook.stream lb).2.buffindex ≤ (Logbook.stream lb).2.rows.length; rw [h3, h1]; exact Nat.le_refl _)
  | str => exact h
  | streamAt c rest =>
    obtain ⟨h1, h2, _, _, h5⟩ := modifyAt_cons_state c rest lb
    have hstep : (step lb (Op.streamAt c rest)).1 = modifyAt (fun l => (stream l).2) (c :: rest) lb := rfl
    simp only [specStep]
    rw [hstep]
    refine ⟨by rw [h1]; exact h.rows, ?_, ?_, ?_, by rw [h2, h1]; exact h.buff, ?_⟩
    · intro k hk
      have := h.chapters k hk
      simp only [chRows, h5, getChapter_mapChapter] at this ⊢
      by_cases hkc : k = c
      · subst hkc
        simp only [if_true]
        cases hg : getChapter k lb.chapters with
        | none => simpa [hg] using this
        | some ch =>
          have hm : (k, ch) ∈ lb.chapters := List.mem_of_lookup_eq_some' _ _ _ hg
          obtain ⟨f1, f2⟩ := h.flat (k, ch) hm
          simp only [hg, Option.map_some, Option.getD_some] at this ⊢
          rw [(modifyAt_flat rest ch f1 f2).1]; exact this
      · simpa [hkc] using this
    · intro k hk; rw [h5, keys_mapChapter] at hk; exact h.keys k hk
    · rw [h5, keys_mapChapter]; exact h.nodup
    · intro q hq
      rw [h5] at hq
      obtain ⟨r, hr, _, h2'⟩ := mem_mapChapter _ _ _ _ hq
      obtain ⟨f1, f2⟩ := h.flat r hr
      rcases h2' with e | e
      · rw [e]; exact ⟨f1, f2⟩
      · obtain ⟨g1, g2, g3⟩ := modifyAt_flat rest r.2 f1 f2
        rw [e]; exact ⟨g2, by rw [g1]; exact g3⟩
  | pop i =>
    simp only [step, specStep]
    cases hp : pos? es.length i with
    | none => rw [pop_out_deep i lb h.deep (by rw [hlen]; exact hp)]; exact h
    | some p =>
      have := (h.delIndex i p hp).1
      rwa [delIndex_eq_pop] at this
  | delIndex i =>
    simp only [step, specStep]
    cases hp : pos? es.length i with
    | none => rw [delIndex_out lb i h.deep (by rw [hlen]; exact hp)]; exact h
    | some p => exact (h.delIndex i p hp).1
  | delSlice idx => exact (h.delSlice idx ho.1 ho.2).1
  | pickle => simp only [step, specStep, pickle_eq]; exact h
  | setHeader hd =>
    obtain ⟨h1, h2, h3, _⟩ := setHeader_state hd lb
    exact h.congr h1 h2 (by
      show (Logbook.setHeader hd lb).buffindex ≤ (Logbook.setHeader hd lb).rows.length
      rw [h3, h1]; exact h.buff)
  | setLogHeader f =>
    obtain ⟨h1, h2, h3⟩ := setLogHeader_state f lb
    exact h.congr h1 h2 (by
      show (Logbook.setLogHeader f lb).buffindex ≤ (Logbook.setLogHeader f lb).rows.length
      rw [h3, h1]; exact h.buff)

theorem history_rep {C : List Name} (ops : List Op) :
    ∀ {lb : LB} {es : List Entry}, Rep C lb es → Valid C es ops →
      Rep C (runFrom lb ops) (specRunFrom es ops) := by
  induction ops with
  | nil => intro lb es h _; exact h
  | cons o os ih =>
    intro lb es h hv
    exact ih (step_rep h o hv.1) hv.2

/-! ### the stream invariant -/

/-- `D` = everything delivered so far.  The rows split into the delivered ones (`buffindex` of
them, at the front) and the ones not yet delivered. -/
def Inv (lb : LB) (D : List Row) : Prop :=
  ∃ A B, lb.rows = A ++ B ∧ lb.buffindex = A.length ∧ (A ++ B).Nodup ∧ D.Nodup ∧
    (∀ r ∈ A, r ∈ D) ∧ (∀ r ∈ B, r ∉ D)

theorem Inv.congr {lb lb' : LB} {D : List Row} (h : Inv lb D) (hr : lb'.rows = lb.rows)
    (hb : lb'.buffindex = lb.buffindex) : Inv lb' D := by
  obtain ⟨A, B, h1, h2, h3⟩ := h
  exact ⟨A, B, hr ▸ h1, hb ▸ h2, h3⟩

theorem Inv.buff_le {lb : LB} {D : List Row} (h : Inv lb D) : lb.buffindex ≤ lb.rows.length := by
  obtain ⟨A, B, h1, h2, _⟩ := h
  rw [h1, h2, List.length_append]; omega

/-- a row at an in-range position leaves, `buffindex` follows: the invariant is kept -/
theorem Inv.erase {lb lb' : LB} {D : List Row} (h : Inv lb D) (p : Nat)
    (hr : lb'.rows = lb.rows.eraseIdx p)
    (hb : lb'.buffindex = if p < lb.buffindex then lb.buffindex - 1 else lb.buffindex) :
    Inv lb' D := by
  obtain ⟨A, B, h1, h2, h3, h4, h5, h6⟩ := h
  by_cases hpa : p < A.length
  · refine ⟨A.eraseIdx p, B, ?_, ?_, ?_, h4, ?_, h6⟩
    · rw [hr, h1, List.eraseIdx_append_of_lt_length hpa]
    · rw [hb, h2]; simp only [hpa, if_true, List.length_eraseIdx]
    · rw [← List.eraseIdx_append_of_lt_length hpa]
      exact List.Nodup.sublist (List.eraseIdx_sublist _ _) h3
    · intro r hr'; exact h5 r (List.mem_of_mem_eraseIdx hr')
  · have hpa' : A.length ≤ p := Nat.le_of_not_lt hpa
    refine ⟨A, B.eraseIdx (p - A.length), ?_, ?_, ?_, h4, h5, ?_⟩
    · rw [hr, h1, List.eraseIdx_append_of_length_le hpa']
    · rw [hb, h2]; simp only [hpa, if_false]
    · rw [← List.eraseIdx_append_of_length_le hpa']
      exact List.Nodup.sublist (List.eraseIdx_sublist _ _) h3
    · intro r hr'; exact h6 r (List.mem_of_mem_eraseIdx hr')

/-- `pop` / `del [i]` on a deep-aligned logbook keep the stream invariant and add no row -/
theorem Inv.pop {lb : LB} {D : List Row} (h : Inv lb D) (hd : DeepAligned lb) (i : Int) :
    Inv (Logbook.pop i lb).2 D ∧ ∀ r ∈ (Logbook.pop i lb).2.rows, r ∈ lb.rows := by
  cases hp : pos? lb.rows.length i with
  | none => rw [pop_out_deep i lb hd hp]; exact ⟨h, fun r hr => hr⟩
  | some p =>
    rw [pop_deep i p lb hd hp]
    exact ⟨h.erase p (eraseDeep_rows p lb) (eraseDeep_buffindex p lb),
      fun r hr => List.mem_of_mem_eraseIdx (by simpa [eraseDeep_rows] using hr)⟩

theorem Inv.delIndex {lb : LB} {D : List Row} (h : Inv lb D) (hd : DeepAligned lb) (i : Int) :
    Inv (Logbook.delIndex i lb).1 D ∧ ∀ r ∈ (Logbook.delIndex i lb).1.rows, r ∈ lb.rows := by
  rw [delIndex_eq_pop]; exact h.pop hd i

/-- the loop of a slice deletion on a represented logbook -/
theorem Inv.delEach {C : List Name} (ds : List Nat) (hds : ds.Pairwise (· > ·)) :
    ∀ {lb : LB} {es : List Entry} {D : List Row}, Rep C lb es → Inv lb D → (∀ i ∈ ds, i < es.length) →
      Inv (Logbook.delEach ds lb).1 D ∧ ∀ r ∈ (Logbook.delEach ds lb).1.rows, r ∈ lb.rows := by
  induction ds with
  | nil => intro lb es D _ h _; exact ⟨h, fun r hr => hr⟩
  | cons i is ih =>
    intro lb es D hrep h hr
    rw [List.pairwise_cons] at hds
    have hi : i < es.length := hr i (by simp)
    have hp : pos? es.length (i : Int) = some i := by rw [pos?_nat]; simp [hi]
    obtain ⟨g1, g2, _⟩ := hrep.delIndex (i : Int) i hp
    obtain ⟨k1, k2⟩ := h.delIndex hrep.deep (i : Int)
    have hrest : ∀ j ∈ is, j < (es.eraseIdx i).length := by
      intro j hj
      have := hds.1 j hj
      simp [List.length_eraseIdx, hi]; omega
    have hde : Logbook.delEach (i :: is) lb = Logbook.delEach is (Logbook.delIndex (i : Int) lb).1 := by
      rcases hx : Logbook.delIndex (i : Int) lb with ⟨lb', fl⟩
      rw [hx] at g2
      simp only at g2; subst g2
      simp [Logbook.delEach, hx]
    rw [hde]
    obtain ⟨m1, m2⟩ := ih hds.2 g1 k1 hrest
    exact ⟨m1, fun r hr' => k2 r (m2 r hr')⟩

/-- the rows recorded by a history (the scalar parts of the `record` operations) -/
def recordedOf : List Op → List Row
  | [] => []
  | .record e :: os => e.scalars :: recordedOf os
  | _ :: os => recordedOf os

theorem recordedOf_append (xs ys : List Op) : recordedOf (xs ++ ys) = recordedOf xs ++ recordedOf ys := by
  induction xs with
  | nil => rfl
  | cons o os ih => cases o <;> simp [recordedOf, ih]

/-- rows and `buffindex` after a valid step that is neither `record` nor `stream`: `Inv` is kept
and no row appears -/
theorem step_other {C : List Name} {lb : LB} {es : List Entry} {D : List Row} (hrep : Rep C lb es)
    (h : Inv lb D) (o : Op) (ho : OpOk C es o)
    (h1 : ∀ e, o ≠ .record e) (h2 : o ≠ .stream) :
    Inv (step lb o).1 D ∧ ∀ r ∈ (step lb o).1.rows, r ∈ lb.rows := by
  have hlen : lb.rows.length = es.length := by rw [hrep.rows, List.length_map]
  cases o with
  | record e => exact absurd rfl (h1 e)
  | stream => exact absurd rfl h2
  | select path names => exact ⟨h, fun r hr => hr⟩
  | str => exact ⟨h, fun r hr => hr⟩
  | streamAt c rest =>
    obtain ⟨h1', h2', _⟩ := modifyAt_cons_state c rest lb
    have hstep : (step lb (Op.streamAt c rest)).1 = modifyAt (fun l => (stream l).2) (c :: rest) lb := rfl
    rw [hstep]
    exact ⟨h.congr h1' h2', fun r hr => by rw [h1'] at hr; exact hr⟩
  | pop i => exact h.pop hrep.deep i
  | delIndex i => exact h.delIndex hrep.deep i
  | delSlice idx =>
    exact Inv.delEach (C := C) (sortDesc idx) (sortDesc_strict idx ho.1) hrep h
      (fun i hi => ho.2 i ((mem_sortDesc i idx).1 hi))
  | pickle => simp only [step, pickle_eq]; exact ⟨h, fun r hr => hr⟩
  | setHeader hd =>
    obtain ⟨e1, _, e3, _⟩ := setHeader_state hd lb
    exact ⟨h.congr e1 e3, fun r hr => by simpa [step, e1] using hr⟩
  | setLogHeader f =>
    obtain ⟨e1, _, e3⟩ := setLogHeader_state f lb
    exact ⟨h.congr e1 e3, fun r hr => by simpa [step, e1] using hr⟩

theorem streamsFrom_other (lb : LB) (o : Op) (os : List Op) (h2 : o ≠ .stream) :
    streamsFrom lb (o :: os) = streamsFrom (step lb o).1 os := by
  cases o <;> first | rfl | exact absurd rfl h2

theorem recordedOf_other (o : Op) (os : List Op) (h1 : ∀ e, o ≠ .record e) :
    recordedOf (o :: os) = recordedOf os := by
  cases o <;> first | rfl | exact absurd rfl (h1 _)

/-- what a stream delivers when the invariant holds: exactly the not yet delivered rows -/
theorem Inv.stream {lb : LB} {D : List Row} (h : Inv lb D) :
    Inv (Logbook.stream lb).2 (D ++ (Logbook.stream lb).1.rows) ∧
    ∀ r ∈ (Logbook.stream lb).1.rows, r ∈ lb.rows := by
  obtain ⟨A, B, h1, h2, h3, h4, h5, h6⟩ := h
  obtain ⟨e1, _, e3, _, e5⟩ := stream_state lb
  have hrows : (Logbook.stream lb).1.rows = B := by
    rw [e5]
    simp only [txt]
    split
    · next hz =>
      rw [h1] at hz
      have : B = [] := by
        cases B with
        | nil => rfl
        | cons => simp at hz
      simp [this]
    · simp [h1, h2]
  rw [hrows]
  have hn := List.nodup_append.1 h3
  refine ⟨⟨A ++ B, [], by simp [e1, h1], by simp [e3, h1], by simpa using h3, ?_, ?_, by simp⟩, ?_⟩
  · exact List.nodup_append.2 ⟨h4, hn.2.1, fun a ha b hb e => h6 b hb (e ▸ ha)⟩
  · intro r hr
    rcases List.mem_append.1 hr with hr | hr
    · exact List.mem_append_left _ (h5 r hr)
    · exact List.mem_append_right _ hr
  · intro r hr; rw [h1]; exact List.mem_append_right _ hr

theorem Inv.record {lb : LB} {D : List Row} (h : Inv lb D) (e : Entry)
    (h1 : e.scalars ∉ lb.rows) (h2 : e.scalars ∉ D) : Inv (Logbook.record e lb) D := by
  obtain ⟨A, B, g1, g2, g3, g4, g5, g6⟩ := h
  refine ⟨A, B ++ [e.scalars], ?_, ?_, ?_, g4, g5, ?_⟩
  · simp [Logbook.record, recordAux_rows, g1]
  · simp [Logbook.record, (recordAux_buffindex [] e lb).1, g2]
  · rw [← List.append_assoc]
    refine List.nodup_append.2 ⟨g3, by simp, ?_⟩
    intro a ha b hb e'
    simp at hb; subst hb; subst e'
    exact h1 (g1 ▸ ha)
  · intro r hr
    rcases List.mem_append.1 hr with hr | hr
    · exact g6 r hr
    · simp at hr; subst hr; exact h2

/-- Along any valid history whose recorded rows are pairwise different and new: the invariant is
kept, and everything delivered is a row of the logbook or a recorded row. -/
theorem stream_inv {C : List Name} (ops : List Op) : ∀ (lb : LB) (es : List Entry) (D : List Row),
    Rep C lb es → Valid C es ops → Inv lb D →
    (recordedOf ops).Nodup → (∀ r ∈ recordedOf ops, r ∉ lb.rows ∧ r ∉ D) →
    Inv (runFrom lb ops) (D ++ (streamsFrom lb ops).flatMap (·.rows)) ∧
    (∀ r ∈ (streamsFrom lb ops).flatMap (·.rows), r ∈ lb.rows ∨ r ∈ recordedOf ops) ∧
    (∀ r ∈ (runFrom lb ops).rows, r ∈ lb.rows ∨ r ∈ recordedOf ops) := by
  induction ops with
  | nil =>
    intro lb es D _ _ h _ _
    refine ⟨by simpa [streamsFrom, runFrom] using h, by simp [streamsFrom], fun r hr => Or.inl hr⟩
  | cons o os ih =>
    intro lb es D hrep hv h hn hf
    have hrep' := step_rep hrep o hv.1
    by_cases hrec : ∃ e, o = .record e
    · obtain ⟨e, rfl⟩ := hrec
      simp only [recordedOf, List.nodup_cons] at hn
      have hfe := hf e.scalars (by simp [recordedOf])
      have hi := h.record e hfe.1 hfe.2
      have hrows : (Logbook.record e lb).rows = lb.rows ++ [e.scalars] := by
        simp [Logbook.record, recordAux_rows]
      obtain ⟨a1, a2, a3⟩ := ih (Logbook.record e lb) _ D hrep' hv.2 hi hn.2 (by
        intro r hr
        have := hf r (by simp [recordedOf, hr])
        refine ⟨?_, this.2⟩
        rw [hrows]
        intro hm
        rcases List.mem_append.1 hm with hm | hm
        · exact this.1 hm
        · simp at hm; subst hm; exact hn.1 hr)
      refine ⟨a1, ?_, ?_⟩
      · intro r hr
        rcases a2 r hr with h' | h'
        · rw [hrows] at h'
          rcases List.mem_append.1 h' with h' | h'
          · exact Or.inl h'
          · simp at h'; subst h'; exact Or.inr (by simp [recordedOf])
        · exact Or.inr (by simp [recordedOf, h'])
      · intro r hr
        rcases a3 r hr with h' | h'
        · rw [hrows] at h'
          rcases List.mem_append.1 h' with h' | h'
          · exact Or.inl h'
          · simp at h'; subst h'; exact Or.inr (by simp [recordedOf])
        · exact Or.inr (by simp [recordedOf, h'])
    · have hrec' : ∀ e, o ≠ .record e := fun e he => hrec ⟨e, he⟩
      rw [recordedOf_other o os hrec'] at hn hf ⊢
      by_cases hs : o = .stream
      · subst hs
        obtain ⟨hi, hsub⟩ := h.stream
        obtain ⟨e1, _⟩ := stream_state lb
        obtain ⟨a1, a2, a3⟩ := ih (Logbook.stream lb).2 _ (D ++ (Logbook.stream lb).1.rows) hrep' hv.2 hi hn (by
          intro r hr
          have := hf r hr
          refine ⟨by rw [e1]; exact this.1, ?_⟩
          intro hm
          rcases List.mem_append.1 hm with hm | hm
          · exact this.2 hm
          · exact this.1 (hsub r hm))
        have hst : streamsFrom lb (Op.stream :: os) =
            (Logbook.stream lb).1 :: streamsFrom (Logbook.stream lb).2 os := rfl
        have hrun : runFrom lb (Op.stream :: os) = runFrom (Logbook.stream lb).2 os := rfl
        rw [hst, hrun, List.flatMap_cons, ← List.append_assoc]
        refine ⟨a1, ?_, ?_⟩
        · intro r hr
          rcases List.mem_append.1 hr with hr | hr
          · exact Or.inl (hsub r hr)
          · rcases a2 r hr with h' | h'
            · exact Or.inl (e1 ▸ h')
            · exact Or.inr h'
        · intro r hr
          rcases a3 r hr with h' | h'
          · exact Or.inl (e1 ▸ h')
          · exact Or.inr h'
      · obtain ⟨hi, hsub⟩ := step_other hrep h o hv.1 hrec' hs
        obtain ⟨a1, a2, a3⟩ := ih (step lb o).1 _ D hrep' hv.2 hi hn (by
          intro r hr
          have := hf r hr
          exact ⟨fun hm => this.1 (hsub r hm), this.2⟩)
        rw [streamsFrom_other lb o os hs]
        have hrun : runFrom lb (o :: os) = runFrom (step lb o).1 os := rfl
        rw [hrun]
        refine ⟨a1, ?_, ?_⟩
        · intro r hr
          rcases a2 r hr with h' | h'
          · exact Or.inl (hsub r h')
          · exact Or.inr h'
        · intro r hr
          rcases a3 r hr with h' | h'
          · exact Or.inl (hsub r h')
          · exact Or.inr h'

theorem Inv.empty : Inv LB.empty [] := ⟨[], [], rfl, rfl, by simp, by simp, by simp, by simp⟩

/-! ### appending to a history -/

theorem runFrom_append (lb : LB) (xs ys : List Op) :
    runFrom lb (xs ++ ys) = runFrom (runFrom lb xs) ys := by
  simp [runFrom, List.foldl_append]

theorem streamsFrom_append (xs ys : List Op) : ∀ (lb : LB),
    streamsFrom lb (xs ++ ys) = streamsFrom lb xs ++ streamsFrom (runFrom lb xs) ys := by
  induction xs with
  | nil => intro lb; rfl
  | cons o os ih =>
    intro lb
    by_cases hs : o = .stream
    · subst hs
      have h1 : streamsFrom lb (Op.stream :: (os ++ ys)) =
          (Logbook.stream lb).1 :: streamsFrom (Logbook.stream lb).2 (os ++ ys) := rfl
      have h2 : streamsFrom lb (Op.stream :: os) =
          (Logbook.stream lb).1 :: streamsFrom (Logbook.stream lb).2 os := rfl
      have h3 : runFrom lb (Op.stream :: os) = runFrom (Logbook.stream lb).2 os := rfl
      rw [List.cons_append, h1, h2, h3, ih]; rfl
    · rw [List.cons_append, streamsFrom_other lb o _ hs, streamsFrom_other lb o _ hs, ih]; rfl

theorem streams_snoc_stream (ops : List Op) :
    streams (ops ++ [.stream]) = streams ops ++ [(Logbook.stream (run ops)).1] := by
  simp only [streams, streamsFrom_append]; rfl

theorem streams_snoc_other (ops : List Op) (o : Op) (hs : o ≠ .stream) :
    streams (ops ++ [o]) = streams ops := by
  simp only [streams, streamsFrom_append, streamsFrom_other _ o [] hs, streamsFrom, List.append_nil]

theorem valid_append {C : List Name} (xs ys : List Op) : ∀ (es : List Entry),
    Valid C es (xs ++ ys) ↔ Valid C es xs ∧ Valid C (specRunFrom es xs) ys := by
  induction xs with
  | nil => intro es; simp [Valid, specRunFrom]
  | cons o os ih =>
    intro es
    simp only [List.cons_append, Valid, ih, specRunFrom, List.foldl_cons, and_assoc]

end C18L

