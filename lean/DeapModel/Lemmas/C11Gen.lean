/-
Helper lemmas for C11: the generators.
-/
import DeapModel.Lemmas.C11Span
import DeapModel.Lemmas.C11Tape

namespace GpTree

/-- The pool invariant established by `PrimitiveSetTyped._add` (see `C11.add_pools_ok`) plus the
reading of the statement: `issubclass` is a preorder, primitives have arity ≥ 1, terminals 0. -/
structure PsetOK (ps : Pset) : Prop where
  refl : ∀ a, ps.sub a a = true
  trans : ∀ a b c, ps.sub a b = true → ps.sub b c = true → ps.sub a c = true
  prims_ok : ∀ τ p, p ∈ ps.prims τ → ps.sub p.ret τ = true ∧ p.args ≠ []
  terms_ok : ∀ τ p, p ∈ ps.terms τ → ps.sub p.ret τ = true ∧ p.args = []

/-- a forest matching a generator stack: tree `k` is well typed for the type of stack entry `k`
and satisfies the depth property `P` at the entry's depth -/
def forestOK (sub : Nat → Nat → Bool) (P : Nat → Tree → Prop) : List (Nat × Nat) → List Tree → Prop
  | [], [] => True
  | (d, τ) :: st, t :: ts => wt sub τ t = true ∧ P d t ∧ forestOK sub P st ts
  | _, _ => False

theorem forestOK_split {sub P} : ∀ (a : List (Nat × Nat)) {b : List (Nat × Nat)} {ts : List Tree},
    forestOK sub P (a ++ b) ts → ∃ ta tb, ts = ta ++ tb ∧ forestOK sub P a ta ∧ forestOK sub P b tb
  | [], b, ts, h => ⟨[], ts, rfl, by simp [forestOK], by simpa using h⟩
  | (d, τ) :: a, b, [], h => by simp [forestOK] at h
  | (d, τ) :: a, b, t :: ts, h => by
    simp only [List.cons_append, forestOK] at h
    obtain ⟨ta, tb, e, h1, h2⟩ := forestOK_split a h.2.2
    exact ⟨t :: ta, tb, by simp [e], ⟨h.1, h.2.1, h1⟩, h2⟩

theorem forestOK_args {sub P} (d : Nat) : ∀ (args : List Nat) (ts : List Tree),
    forestOK sub P (args.map (fun a => (d, a))) ts → wtF sub args ts = true ∧ ∀ c ∈ ts, P d c
  | [], [], _ => by simp [wtF]
  | a :: args, t :: ts, h => by
    simp only [List.map_cons, forestOK] at h
    obtain ⟨h1, h2⟩ := forestOK_args d args ts h.2.2
    refine ⟨by simp [wtF, h.1, h1], ?_⟩
    intro c hc
    rcases List.mem_cons.1 hc with rfl | hc
    · exact h.2.1
    · exact h2 c hc
  | [], _ :: _, h => by simp [forestOK] at h
  | _ :: _, [], h => by simp [forestOK] at h

theorem forestOK_wtF {sub P} : ∀ (st : List (Nat × Nat)) (ts : List Tree),
    forestOK sub P st ts → wtF sub (st.map (·.2)) ts = true
  | [], [], _ => by simp [wtF]
  | (d, τ) :: st, t :: ts, h => by
    simp only [forestOK] at h
    simp [wtF, h.1, forestOK_wtF st ts h.2.2]
  | [], _ :: _, h => by simp [forestOK] at h
  | _ :: _, [], h => by simp [forestOK] at h

/-- The invariant of the `generate` loop, for any depth property `P` that holds for a terminal
placed where the condition fired and is inherited by a primitive node placed where it did not. -/
theorem genLoop_inv {mode : GenMode} {ps : Pset} {mn h : Nat} (ok : PsetOK ps) (P : Nat → Tree → Prop)
    (hleaf : ∀ d tp tp' (term : Prim), condition mode ps mn h d tp = .ok (true, tp') → P d (.node term []))
    (hnode : ∀ d tp tp' (p : Prim) (c : Tree) (cs : List Tree), condition mode ps mn h d tp = .ok (false, tp') →
      (∀ x ∈ c :: cs, P (d + 1) x) → P d (.node p (c :: cs))) :
    ∀ (fuel : Nat) (st : List (Nat × Nat)) (tp : Tape) (out : List Prim) (tp' : Tape),
      genLoop mode ps mn h fuel st tp = .ok (out, tp') →
      ∃ ts, flattenF ts = out ∧ forestOK ps.sub P st ts
  | _, [], tp, out, tp', hg => by
    cases ‹Nat› <;> (simp [genLoop] at hg; obtain ⟨rfl, _⟩ := hg; exact ⟨[], by simp [flattenF], by simp [forestOK]⟩)
  | 0, _ :: _, _, _, _, hg => by simp [genLoop] at hg
  | fuel + 1, (d, τ) :: st, tp, out, tp', hg => by
    simp only [genLoop] at hg
    split at hg
    · simp at hg
    · -- terminal
      rename_i tp1 hc
      split at hg
      · simp at hg
      · rename_i term tp2 hch
        split at hg
        · simp at hg
        · rename_i term' tp3 hin
          split at hg
          · simp at hg
          · rename_i rest tp4 hrec
            simp at hg; obtain ⟨rfl, rfl⟩ := hg
            obtain ⟨ts, hf, hok⟩ := genLoop_inv ok P hleaf hnode fuel st tp3 rest tp4 hrec
            obtain ⟨hsub, hargs⟩ := ok.terms_ok τ term (popChoice_mem hch)
            obtain ⟨e1, e2, _, _⟩ := instantiate_spec hin
            refine ⟨.node term' [] :: ts, by simp [flattenF, flatten, hf], ?_⟩
            refine ⟨?_, hleaf d tp tp1 term' hc, hok⟩
            simp [wt, e1, e2, hsub, hargs, wtF]
    · -- primitive
      rename_i tp1 hc
      split at hg
      · simp at hg
      · rename_i prim tp2 hch
        split at hg
        · simp at hg
        · rename_i rest tp3 hrec
          simp at hg; obtain ⟨rfl, rfl⟩ := hg
          obtain ⟨ts, hf, hok⟩ := genLoop_inv ok P hleaf hnode fuel _ tp2 rest tp3 hrec
          obtain ⟨hsub, hargs⟩ := ok.prims_ok τ prim (popChoice_mem hch)
          obtain ⟨ta, tb, e, h1, h2⟩ := forestOK_split _ hok
          obtain ⟨hw, hP⟩ := forestOK_args (d + 1) prim.args ta h1
          subst e
          refine ⟨.node prim ta :: tb, by simp [flattenF, flatten, ← hf, flattenF_append], ?_⟩
          refine ⟨by simp [wt, hsub, hw], ?_, h2⟩
          cases ta with
          | nil =>
            have := wtF_length hw
            simp at this; exact absurd (List.eq_nil_of_length_eq_zero this.symm) hargs
          | cons c cs => exact hnode d tp tp1 prim c cs hc hP

end GpTree
