/-
C17 on the loop model of C03 — helper definitions and lemmas.

`DeapModel/Core/Resume.lean` is the algebra of checkpointing over an abstract step function.  Here the
step function is the ACTUAL generation of the packaged loops (`Loops.generation`, `DeapModel/Core/Loops.lean`):

* `MState σ` = (generation counter, tape = state of the random generators, `LState` = everything else the
  loop owns: heap of individuals with their fitnesses, fresh-oid counter, the caller's population list, logbook
  records, hall-of-fame feed, evaluation calls);
* `genCore` is one generation as a function of (tape, `st`, `pop`) only — no ghost record is read —, and
  `generation_eq_core` says that `Loops.generation` is `genCore` plus four appends to the ghost records;
* `loopStep` / `loopRun` make the loop a `Resume.Run` whose step consumes one decision record;
* `assignZip` is the literal `for ind, fit in zip(invalid_ind, fitnesses): ind.fitness.values = fit`, and
  `evalPhaseWith` / `generationWith` / `runGensWith` / `gen0With` / `runPopWith` are the loops with
  `toolbox.map` a parameter.
-/
import DeapModel.Core.Loops
import DeapModel.Core.Resume
import DeapModel.Lemmas.C03
import DeapModel.Lemmas.C17Buf

namespace C17
open Variation Loops Resume

/-- The machine state of the C03 loops: generation counter, tape (generator state), loop state. -/
abbrev MState (σ : Type) := Nat × σ × LState

/-! ### One generation reads `(tape, st, pop)` only -/

/-- What one generation computes, ghost records left out: the new tape, heap/oid counter and population, and
what it will append to the ghost records (`nevals`, the offspring shown to the hall of fame, the same offspring
with the content — genome, fitness — they had when shown, the individuals `toolbox.evaluate` was called on). -/
structure GenOut (σ : Type) where
  tape : σ
  st : St
  pop : List Nat
  nevals : Nat
  offspring : List Nat
  offspringObj : List (Nat × Obj)
  evaluated : List Nat

/-- One generation as a function of the tape, `st` and `pop` alone (not even the generation number). -/
def genCore {σ : Type} (ev : List Int → List Int) (stp : Step σ) (t : σ) (st : St) (pop : List Nat) :
    Option (GenOut σ) :=
  match stp.produce t st pop with
  | none => none
  | some r =>
    let inv := if stp.evalAll then r.off else invalidOf r.st.heap r.off
    let heap := assignFits ev r.st.heap inv
    match stp.replace heap pop r.off with
    | none => none
    | some np =>
      some ⟨r.tape, { r.st with heap := heap }, np, inv.length, r.off, r.off.map (fun o => (o, heap o)), inv⟩

/-- `Loops.generation` = `genCore` on `(t, s.st, s.pop)` + four appends to the ghost records. -/
theorem generation_eq_core {σ : Type} (ev : List Int → List Int) (stp : Step σ) (g : Nat) (t : σ) (s : LState) :
    generation ev stp g t s =
      (genCore ev stp t s.st s.pop).map (fun c =>
        (c.tape, { st := c.st, pop := c.pop, log := s.log ++ [(g, c.nevals)],
                   shown := s.shown ++ c.offspring,
                   shownObj := s.shownObj ++ c.offspringObj,
                   evals := s.evals ++ c.evaluated.map (fun o => (g, o)) })) := by
  unfold generation genCore
  cases stp.produce t s.st s.pop with
  | none => rfl
  | some r =>
    simp only [evalPhase]
    cases stp.replace (assignFits ev r.st.heap (if stp.evalAll then r.off else invalidOf r.st.heap r.off))
        s.pop r.off with
    | none => rfl
    | some np => rfl

/-! ### The loop as a `Resume.Run` -/

/-- One machine step: consume the next decision record with `Loops.generation` and increment the counter.
No record left: unchanged.  A failed generation (or an already failed machine): `none`. -/
def loopStep {σ : Type} (ev : List Int → List Int) :
    Option (MState σ × List (Step σ)) → Option (MState σ × List (Step σ))
  | none => none
  | some (m, []) => some (m, [])
  | some ((g, t, s), stp :: rest) =>
    match generation ev stp g t s with
    | none => none
    | some (t1, s1) => some ((g + 1, t1, s1), rest)

/-- Checkpoint of the machine: the machine state is pickled with `enc`; the decision records still to come are
not part of the process (they are the future draws) and are kept as they are. -/
def loopEnc {σ B : Type} (enc : MState σ → B) :
    Option (MState σ × List (Step σ)) → Option (B × List (Step σ))
  | none => none
  | some (m, steps) => some (enc m, steps)

def loopDec {σ B : Type} (dec : B → Option (MState σ)) :
    Option (B × List (Step σ)) → Option (Option (MState σ × List (Step σ)))
  | none => some none
  | some (b, steps) => (dec b).map (fun m => some (m, steps))

/-- The C03 loop as a `Resume.Run`. -/
def loopRun {σ B : Type} (ev : List Int → List Int) (enc : MState σ → B) (dec : B → Option (MState σ)) :
    Run (Option (MState σ × List (Step σ))) (Option (B × List (Step σ))) where
  step := loopStep ev
  enc := loopEnc enc
  dec := loopDec dec

theorem loopRun_roundtrip {σ B : Type} (ev : List Int → List Int) (enc : MState σ → B)
    (dec : B → Option (MState σ)) (h : ∀ m, dec (enc m) = some m) :
    ∀ x, (loopRun ev enc dec).dec ((loopRun ev enc dec).enc x) = some x
  | none => rfl
  | some (m, steps) => by simp [loopRun, loopEnc, loopDec, h]

theorem run_loopRun_none {σ B : Type} (ev : List Int → List Int) (enc : MState σ → B)
    (dec : B → Option (MState σ)) : ∀ n, run (loopRun ev enc dec) n none = none
  | 0 => rfl
  | n + 1 => by
    show run (loopRun ev enc dec) n (loopStep ev none) = none
    exact run_loopRun_none ev enc dec n

/-- `n` machine steps = `runGens` on the first `n` decision records; the counter has advanced by the number of
records consumed and the other records are left. -/
theorem run_loopRun {σ B : Type} (ev : List Int → List Int) (enc : MState σ → B)
    (dec : B → Option (MState σ)) :
    ∀ (n : Nat) (steps : List (Step σ)) (g : Nat) (t : σ) (s : LState),
      run (loopRun ev enc dec) n (some ((g, t, s), steps)) =
        (runGens ev (steps.take n) g t s).map
          (fun r => ((g + min n steps.length, r.1, r.2), steps.drop n))
  | 0, steps, g, t, s => by simp [run, runGens]
  | n + 1, [], g, t, s => by
    show run (loopRun ev enc dec) n (loopStep ev (some ((g, t, s), []))) = _
    simp only [loopStep]
    rw [run_loopRun ev enc dec n [] g t s]
    simp [runGens]
  | n + 1, stp :: rest, g, t, s => by
    show run (loopRun ev enc dec) n (loopStep ev (some ((g, t, s), stp :: rest))) = _
    simp only [loopStep, List.take_succ_cons, runGens, List.drop_succ_cons, List.length_cons]
    cases hgen : generation ev stp g t s with
    | none => simp [run_loopRun_none]
    | some r =>
      obtain ⟨t1, s1⟩ := r
      simp only []
      rw [run_loopRun ev enc dec n rest (g + 1) t1 s1]
      have e : g + 1 + min n rest.length = g + min (n + 1) (rest.length + 1) := by omega
      rw [e]

/-! ### Evaluation through `zip` -/

/-- `for ind, fit in zip(invalid_ind, fitnesses): ind.fitness.values = fit` -/
def assignZip (h : Heap) (inv : List Nat) (fits : List (List Int)) : Heap :=
  (inv.zip fits).foldl (fun h p => h.set p.1 { h p.1 with fit := some p.2 }) h

theorem assignZip_nil_left (h : Heap) (fits : List (List Int)) : assignZip h [] fits = h := rfl

theorem assignZip_cons (h : Heap) (o : Nat) (os : List Nat) (f : List Int) (fs : List (List Int)) :
    assignZip h (o :: os) (f :: fs) = assignZip (h.set o { h o with fit := some f }) os fs := rfl

/-- Assigning a fitness does not change any genome. -/
theorem set_fit_genome (h : Heap) (o : Nat) (f : Option (List Int)) (p : Nat) :
    ((h.set o { h o with fit := f }) p).genome = (h p).genome := by
  by_cases e : p = o
  · subst e; simp
  · rw [Heap.set_other _ _ _ _ e]

/-- The evaluate-then-assign loop of the model = the fitnesses of the genomes AS THEY WERE BEFORE the block,
assigned through `zip` (also when `inv` has repeated oids: evaluation reads genomes only and assignments do not
change them). -/
theorem assignFits_eq_zip (ev : List Int → List Int) (h : Heap) (inv : List Nat) :
    assignFits ev h inv = assignZip h inv (inv.map (fun o => ev (h o).genome)) := by
  induction inv generalizing h with
  | nil => rfl
  | cons o os ih =>
    rw [List.map_cons, assignZip_cons, assignFits, ih]
    congr 1
    apply List.map_congr_left
    intro p _
    rw [set_fit_genome]

/-- `Loops.evalPhase` with `toolbox.map` a parameter: `fitnesses = toolbox.map(toolbox.evaluate, invalid_ind)`
then the `zip` loop. -/
def evalPhaseWith (mapper : (Nat → List Int) → List Nat → List (List Int)) (ev : List Int → List Int)
    (all : Bool) (g : Nat) (s : LState) (l : List Nat) : LState × Nat :=
  let inv := if all then l else invalidOf s.st.heap l
  ({ s with st := { s.st with heap := assignZip s.st.heap inv (mapper (fun o => ev (s.st.heap o).genome) inv) },
            shown := s.shown ++ l,
            shownObj := s.shownObj ++ l.map (fun o =>
              (o, assignZip s.st.heap inv (mapper (fun o => ev (s.st.heap o).genome) inv) o)),
            evals := s.evals ++ inv.map (fun o => (g, o)) }, inv.length)

/-- `Loops.gen0` with the map a parameter. -/
def gen0With (mapper : (Nat → List Int) → List Nat → List (List Int)) (ev : List Int → List Int)
    (s : LState) : LState :=
  let r := evalPhaseWith mapper ev false 0 s s.pop
  { r.1 with log := r.1.log ++ [(0, r.2)] }

/-- `Loops.generation` with the map a parameter. -/
def generationWith {σ : Type} (mapper : (Nat → List Int) → List Nat → List (List Int))
    (ev : List Int → List Int) (stp : Step σ) (g : Nat) (t : σ) (s : LState) : Option (σ × LState) :=
  match stp.produce t s.st s.pop with
  | none => none
  | some r =>
    let e := evalPhaseWith mapper ev stp.evalAll g { s with st := r.st } r.off
    match stp.replace e.1.st.heap s.pop r.off with
    | none => none
    | some np => some (r.tape, { e.1 with pop := np, log := e.1.log ++ [(g, e.2)] })

/-- `Loops.runGens` with, per generation number, its own map (another pool, another completion order). -/
def runGensWith {σ : Type} (m : Nat → (Nat → List Int) → List Nat → List (List Int))
    (ev : List Int → List Int) : List (Step σ) → Nat → σ → LState → Option (σ × LState)
  | [], _, t, s => some (t, s)
  | stp :: rest, g, t, s =>
    match generationWith (m g) ev stp g t s with
    | none => none
    | some (t1, s1) => runGensWith m ev rest (g + 1) t1 s1

/-- `Loops.runPop` with the maps a parameter (`m 0` is used by generation 0). -/
def runPopWith {σ : Type} (m : Nat → (Nat → List Int) → List Nat → List (List Int))
    (ev : List Int → List Int) (steps : List (Step σ)) (t : σ) (s : LState) :=
  runGensWith m ev steps 1 t (gen0With (m 0) ev s)

theorem evalPhaseWith_congr (m₁ m₂ : (Nat → List Int) → List Nat → List (List Int))
    (h : ∀ f xs, m₁ f xs = m₂ f xs) (ev : List Int → List Int) (all : Bool) (g : Nat) (s : LState)
    (l : List Nat) : evalPhaseWith m₁ ev all g s l = evalPhaseWith m₂ ev all g s l := by
  simp only [evalPhaseWith, h]

theorem evalPhaseWith_map (ev : List Int → List Int) (all : Bool) (g : Nat) (s : LState) (l : List Nat) :
    evalPhaseWith (fun f xs => xs.map f) ev all g s l = evalPhase ev all g s l := by
  simp only [evalPhaseWith, evalPhase, assignFits_eq_zip]

theorem generationWith_eq {σ : Type} (mapper : (Nat → List Int) → List Nat → List (List Int))
    (hm : ∀ f xs, mapper f xs = xs.map f) (ev : List Int → List Int) (stp : Step σ) (g : Nat) (t : σ)
    (s : LState) : generationWith mapper ev stp g t s = generation ev stp g t s := by
  simp only [generationWith, generation,
    evalPhaseWith_congr mapper (fun f xs => xs.map f) hm, evalPhaseWith_map]
  rfl

theorem gen0With_eq (mapper : (Nat → List Int) → List Nat → List (List Int))
    (hm : ∀ f xs, mapper f xs = xs.map f) (ev : List Int → List Int) (s : LState) :
    gen0With mapper ev s = gen0 ev s := by
  simp only [gen0With, gen0, evalPhaseWith_congr mapper (fun f xs => xs.map f) hm, evalPhaseWith_map]

theorem runGensWith_eq {σ : Type} (m : Nat → (Nat → List Int) → List Nat → List (List Int))
    (hm : ∀ g f xs, m g f xs = xs.map f) (ev : List Int → List Int) :
    ∀ (steps : List (Step σ)) (g : Nat) (t : σ) (s : LState),
      runGensWith m ev steps g t s = runGens ev steps g t s
  | [], _, _, _ => rfl
  | stp :: rest, g, t, s => by
    simp only [runGensWith, runGens, generationWith_eq (m g) (hm g)]
    cases generation ev stp g t s with
    | none => rfl
    | some r => exact runGensWith_eq m hm ev rest (g + 1) r.1 r.2

/-! ### Concrete instances for the `example`s -/

/-- Operators that USE the tape: mutation writes the tape value into the genome and advances the tape. -/
def tapeOps : Ops Nat where
  mate := fun t h n a b => ⟨t, h, n, a, b⟩
  mutate := fun t h n a => ⟨t + 1, h.set a { h a with genome := [(t : Int)] }, n, a⟩

def tapeEv (g : List Int) : List Int := [g.foldl (· + ·) 0]

def tapeHeap : Heap := fun o =>
  match o with
  | 0 => ⟨[1, 2, 3], some [6], none⟩
  | 1 => ⟨[4, 5, 6], none, none⟩
  | _ => ⟨[], none, none⟩

def tapeState : LState := { st := { heap := tapeHeap, next := 2 }, pop := [0, 1] }

/-- the same heap, oid counter and population with other ghost records (those after generation 0) -/
def tapeStateG : LState :=
  { tapeState with
    log := [(0, 1)]
    shown := [0, 1]
    shownObj := [(0, ⟨[1, 2, 3], some [6], none⟩), (1, ⟨[4, 5, 6], some [15], none⟩)]
    evals := [(0, 1)] }

/-- three generations of `eaSimple`: both offspring are mutated in generation 1, none in generation 2, the first
one in generation 3 -/
def tapeDecs : List SimpleDec :=
  [⟨[1, 0], [false], [true, true]⟩, ⟨[0, 0], [false], [false, false]⟩, ⟨[1, 1], [false], [true, false]⟩]

/-- what the examples observe of a result: tape, population, genomes and fitnesses of the population, oid counter,
the ghost records -/
structure Obs where
  tape : Nat
  pop : List Nat
  inds : List Obj
  next : Nat
  log : List (Nat × Nat)
  shown : List Nat
  shownObj : List (Nat × Obj)
  evals : List (Nat × Nat)
deriving DecidableEq, Repr

def observe (r : Nat × LState) : Obs :=
  ⟨r.1, r.2.pop, r.2.pop.map (fun o => r.2.st.heap o), r.2.st.next, r.2.log, r.2.shown, r.2.shownObj, r.2.evals⟩

/-- A checkpoint that forgets the generator state (restarts it at `0`). -/
def encNoTape (m : MState Nat) : MState Nat := (m.1, 0, m.2.2)

/-! ### A hidden component next to the generator state (what a checkpoint does not save) -/

section C03Hidden
variable {τ H B : Type}

/-- A decision record of a loop whose generator state is paired with a hidden component leaves the hidden component
as it found it. -/
def KeepsHidden (stp : Step (τ × H)) : Prop :=
  ∀ t st pop r, stp.produce t st pop = some r → r.tape.2 = t.2

/-- The checkpoint of the C03 machine that does not save the hidden half of the tape … -/
def hideEnc (enc : MState τ → B) : MState (τ × H) → B := fun m => enc (m.1, m.2.1.1, m.2.2)

/-- … and the restore in a new process, whose hidden half is the import-time value `h0`. -/
def hideDec (dec : B → Option (MState τ)) (h0 : H) : B → Option (MState (τ × H)) :=
  fun b => (dec b).map (fun m => (m.1, (m.2.1, h0), m.2.2))

theorem generation_keeps_hidden (ev : List Int → List Int) (stp : Step (τ × H)) (hk : KeepsHidden stp) (g : Nat)
    (t : τ × H) (s : LState) (r : (τ × H) × LState) (h : generation ev stp g t s = some r) : r.1.2 = t.2 := by
  rw [generation_eq_core] at h
  unfold genCore at h
  cases hp : stp.produce t s.st s.pop with
  | none => rw [hp] at h; cases h
  | some res =>
    rw [hp] at h
    simp only at h
    cases hr : stp.replace
        (assignFits ev res.st.heap (if stp.evalAll then res.off else invalidOf res.st.heap res.off)) s.pop res.off with
    | none => rw [hr] at h; cases h
    | some np =>
      rw [hr] at h
      simp only [Option.map_some, Option.some.injEq] at h
      subst h
      exact hk t s.st s.pop res hp

theorem runGens_keeps_hidden (ev : List Int → List Int) :
    ∀ (steps : List (Step (τ × H))), (∀ stp ∈ steps, KeepsHidden stp) → ∀ (g : Nat) (t : τ × H) (s : LState)
      (r : (τ × H) × LState), runGens ev steps g t s = some r → r.1.2 = t.2
  | [], _, g, t, s, r, h => by
    simp only [runGens, Option.some.injEq] at h
    subst h; rfl
  | stp :: rest, hk, g, t, s, r, h => by
    simp only [runGens] at h
    cases hg : generation ev stp g t s with
    | none => rw [hg] at h; cases h
    | some r1 =>
      obtain ⟨t1, s1⟩ := r1
      rw [hg] at h
      simp only at h
      have e1 := generation_keeps_hidden ev stp (hk stp (List.mem_cons_self ..)) g t s (t1, s1) hg
      have e2 := runGens_keeps_hidden ev rest (fun x hx => hk x (List.mem_cons_of_mem _ hx)) (g + 1) t1 s1 r h
      rw [e2, ← e1]

/-- A decision record that knows nothing about the hidden component, run next to it. -/
def liftHidden (stp : Step τ) : Step (τ × H) where
  produce := fun t st pop => (stp.produce t.1 st pop).map (fun r => ⟨(r.tape, t.2), r.st, r.off⟩)
  replace := stp.replace
  evalAll := stp.evalAll

theorem liftHidden_keeps (stp : Step τ) : KeepsHidden (liftHidden (H := H) stp) := by
  intro t st pop r h
  simp only [liftHidden] at h
  cases hp : stp.produce t.1 st pop with
  | none => rw [hp] at h; cases h
  | some r0 =>
    rw [hp] at h
    simp only [Option.map_some, Option.some.injEq] at h
    subst h; rfl

end C03Hidden

end C17
