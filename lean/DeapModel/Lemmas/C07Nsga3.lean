/-
C07 — `selNSGA3` on top of `niching`.
-/
import DeapModel.Lemmas.C07Niching

set_option linter.unusedSectionVars false
set_option linter.unusedVariables false

namespace C07L
open Nsga3

section
variable {α : Type} [LT α] [DecidableLT α]

/-- the niche numbers / distances / initial counts `selNSGA3` hands to `niching` -/
def nichesL (fronts : List (List Nat)) (niches : List Nat) : Nat → Nat :=
  fun p => (niches.drop fronts.dropLast.flatten.length).getD p 0

def counts0L (niches : List Nat) (last : List Nat) : Nat → Nat :=
  fun j => (niches.take (niches.length - last.length)).count j

theorem selNSGA3_ok (fronts : List (List Nat)) (k : Nat) (niches : List Nat) (dist : List α)
    (dflt : α) (nref : Nat) (tape : Tape) (res : List Nat)
    (h : selNSGA3 fronts k niches dist dflt nref tape = .ok res) :
    ∃ last st, fronts.getLast? = some last ∧
      niching last.length (k - fronts.dropLast.flatten.length) nref (nichesL fronts niches)
        (fun p => (dist.drop fronts.dropLast.flatten.length).getD p dflt) (counts0L niches last) tape
        = .ok st ∧
      res = fronts.dropLast.flatten ++ st.selected.map (fun p => last.getD p 0) := by
  unfold selNSGA3 at h
  split at h
  · simp at h
  · next last hl =>
    simp only [] at h
    split at h
    · simp at h
    · split at h
      · simp at h
      · next st hs =>
        simp only [Except.ok.injEq] at h
        exact ⟨last, st, hl, hs, h.symm⟩

theorem fronts_split (fronts : List (List Nat)) (last : List Nat) (h : fronts.getLast? = some last) :
    fronts = fronts.dropLast ++ [last] :=
  (List.dropLast_append_getLast? last (by simp [h])).symm

theorem flatten_split (fronts : List (List Nat)) (last : List Nat) (h : fronts.getLast? = some last) :
    fronts.flatten = fronts.dropLast.flatten ++ last := by
  conv => lhs; rw [fronts_split fronts last h]
  simp

theorem selNSGA3_length (fronts : List (List Nat)) (k : Nat) (niches : List Nat) (dist : List α)
    (dflt : α) (nref : Nat) (tape : Tape) (res : List Nat)
    (hk : fronts.dropLast.flatten.length ≤ k)
    (h : selNSGA3 fronts k niches dist dflt nref tape = .ok res) : res.length = k := by
  obtain ⟨last, st, _, hs, rfl⟩ := selNSGA3_ok fronts k niches dist dflt nref tape res h
  have := (niching_spec _ _ _ _ _ _ _ st hs).2
  rw [List.length_append, List.length_map, this]; omega

theorem getD_lt {β : Type} (l : List β) (d : β) (p : Nat) (hp : p < l.length) : l.getD p d = l[p] := by
  simp [List.getD_eq_getElem?_getD, hp]

theorem getD_inj_of_nodup (l : List Nat) (hnd : l.Nodup) (p q : Nat) (hp : p < l.length)
    (hq : q < l.length) (h : l.getD p 0 = l.getD q 0) : p = q := by
  rw [getD_lt _ _ _ hp, getD_lt _ _ _ hq] at h
  exact (List.Nodup.getElem_inj_iff hnd).1 h

theorem selNSGA3_nodup (fronts : List (List Nat)) (k : Nat) (niches : List Nat) (dist : List α)
    (dflt : α) (nref : Nat) (tape : Tape) (res : List Nat) (hnd : fronts.flatten.Nodup)
    (h : selNSGA3 fronts k niches dist dflt nref tape = .ok res) :
    res.Nodup ∧ ∀ x ∈ res, x ∈ fronts.flatten := by
  obtain ⟨last, st, hl, hs, rfl⟩ := selNSGA3_ok fronts k niches dist dflt nref tape res h
  have inv := (niching_spec _ _ _ _ _ _ _ st hs).1
  rw [flatten_split fronts last hl] at hnd ⊢
  obtain ⟨h1, h2, h3⟩ := List.nodup_append.1 hnd
  have hmem : ∀ x ∈ st.selected.map (fun p => last.getD p 0), x ∈ last := by
    intro x hx
    obtain ⟨p, hp, rfl⟩ := List.mem_map.1 hx
    rw [getD_lt _ _ _ (inv.lt p hp)]; exact List.getElem_mem _
  constructor
  · refine List.nodup_append.2 ⟨h1, ?_, ?_⟩
    · exact List.Nodup.map_on (fun p hp q hq he =>
        getD_inj_of_nodup last h2 p q (inv.lt p hp) (inv.lt q hq) he) inv.nodup
    · intro a ha b hb; exact h3 a ha b (hmem b hb)
  · intro x hx
    rcases List.mem_append.1 hx with h | h
    · exact List.mem_append_left _ h
    · exact List.mem_append_right _ (hmem x h)

/-- every front before the last one is taken whole -/
theorem selNSGA3_front_priority (fronts : List (List Nat)) (k : Nat) (niches : List Nat)
    (dist : List α) (dflt : α) (nref : Nat) (tape : Tape) (res : List Nat)
    (h : selNSGA3 fronts k niches dist dflt nref tape = .ok res)
    (f1 f2 : Nat) (h12 : f1 < f2) (h2 : f2 < fronts.length) (y : Nat)
    (hy : y ∈ fronts.getD f1 []) : y ∈ res := by
  obtain ⟨last, st, hl, hs, rfl⟩ := selNSGA3_ok fronts k niches dist dflt nref tape res h
  apply List.mem_append_left
  have hf1 : f1 < fronts.dropLast.length := by simp; omega
  have : fronts.getD f1 [] = fronts.dropLast.getD f1 [] := by
    conv => lhs; rw [fronts_split fronts last hl]
    rw [List.getD_eq_getElem?_getD, List.getD_eq_getElem?_getD, List.getElem?_append_left hf1]
  rw [this, getD_lt _ _ _ hf1] at hy
  exact List.mem_flatten.2 ⟨_, List.getElem_mem _, hy⟩

/-- niche balance, stated on what `selNSGA3` returns -/
theorem selNSGA3_balance (fronts : List (List Nat)) (k : Nat) (niches : List Nat) (dist : List α)
    (dflt : α) (nref : Nat) (tape : Tape) (res : List Nat)
    (h : selNSGA3 fronts k niches dist dflt nref tape = .ok res) :
    ∃ (last sel : List Nat), fronts.getLast? = some last ∧
      res = fronts.dropLast.flatten ++ sel.map (fun p => last.getD p 0) ∧
      sel.Nodup ∧ (∀ p ∈ sel, p < last.length) ∧
      ∀ a b, (∃ p ∈ sel, nichesL fronts niches p = a) →
        (∃ q, q < last.length ∧ q ∉ sel ∧ nichesL fronts niches q = b) →
        counts0L niches last a + sel.countP (fun p => nichesL fronts niches p == a) ≤
          counts0L niches last b + sel.countP (fun p => nichesL fronts niches p == b) + 1 := by
  obtain ⟨last, st, hl, hs, hres⟩ := selNSGA3_ok fronts k niches dist dflt nref tape res h
  have inv := (niching_spec _ _ _ _ _ _ _ st hs).1
  refine ⟨last, st.selected, hl, hres, inv.nodup, inv.lt, ?_⟩
  intro a b ha ⟨q, hqL, hqs, hqb⟩
  have := inv.bal a b ha ⟨q, hqL, (inv.avail_iff q hqL).2 hqs, hqb⟩
  rw [inv.counts a, inv.counts b] at this
  exact this

/-- `selNSGA3` never raises in its own code and terminates: it can only reject the tape -/
theorem selNSGA3_fine (fronts : List (List Nat)) (k : Nat) (niches : List Nat) (dist : List α)
    (dflt : α) (nref : Nat) (tape : Tape) (last : List Nat)
    (hl : fronts.getLast? = some last)
    (hk : k ≤ fronts.flatten.length)
    (hn : ∀ j ∈ niches, j < nref) (hlen : niches.length = fronts.flatten.length) :
    Fine (selNSGA3 fronts k niches dist dflt nref tape) := by
  intro e he
  unfold selNSGA3 at he
  rw [hl] at he
  simp only [] at he
  split at he
  · next hany =>
    exfalso
    simp only [List.any_eq_true, decide_eq_true_eq] at hany
    obtain ⟨j, hj, hj2⟩ := hany
    have := hn j (List.mem_of_mem_take hj); omega
  · split at he
    · next e' hs =>
      simp only [Except.error.injEq] at he; subst he
      have hfl := flatten_split fronts last hl
      refine niching_fine _ _ _ _ _ _ _ ?_ ?_ _ hs
      · rw [hfl, List.length_append] at hk; omega
      · intro p hp
        have hlt : p < (niches.drop fronts.dropLast.flatten.length).length := by
          rw [List.length_drop, hlen, hfl, List.length_append]; omega
        rw [getD_lt _ _ _ hlt]
        exact hn _ (List.mem_of_mem_drop (List.getElem_mem _))
    · simp at he

end

end C07L
