import DeapModel.Lemmas.C15HvCPtr
import DeapModel.Lemmas.C15Stair
import DeapModel.Lemmas.C15Sym
/-!
C15 — the transcription `Core/HvC.lean` of `_hv.c`: what `fpli_hv` computes when at most one point survives
`filter`, and the base cases `dim == 0` (one dimension) and `dim == 1` (two dimensions) of `hv_recursive`.
-/
namespace HvC
set_option linter.unusedVariables false
open Hypervolume
open HvSweep (Shape DL Seg Link DimEq ids)

/-- the point of node `a` -/
def ptOf (C : Cargo) (a : ℕ) : Pt := C.getD a []

theorem cg_ptOf (C : Cargo) (a i : ℕ) : cg C a i = (ptOf C a).getD i 0 := rfl

theorem ptOf_cons (data : List (List ℚ)) (a : ℕ) (ha : 1 ≤ a) : ptOf ([] :: data) a = data.getD (a - 1) [] := by
  obtain ⟨b, rfl⟩ : ∃ b, a = b + 1 := ⟨a - 1, by omega⟩
  simp [ptOf]

theorem map_ptOf_ids (data : List (List ℚ)) : (ids data.length).map (ptOf ([] :: data)) = data := by
  have h := HvSweep.ids_map data []
  conv_rhs => rw [← h]
  apply List.map_congr_left
  intro a ha
  rw [ptOf_cons data a ((HvSweep.mem_ids _ a).mp ha).1]

theorem mem_data_of_mem_ids (data : List (List ℚ)) (a : ℕ) (ha : a ∈ ids data.length) : ptOf ([] :: data) a ∈ data := by
  have : ptOf ([] :: data) a ∈ (ids data.length).map (ptOf ([] :: data)) := List.mem_map_of_mem ha
  rwa [map_ptOf_ids] at this

/-! ### only the points strictly below the reference count -/

theorem hvCells_drop_boundary (ref : List ℚ) : ∀ (Q S : List Pt), (∀ q ∈ Q, OnBoundary ref q) →
    hvCells ref (Q ++ S) = hvCells ref S
  | [], S, _ => rfl
  | q :: Q, S, h => by
    rw [List.cons_append, hvCells_boundary' ref (Q ++ S) q (h q (by simp))]
    exact hvCells_drop_boundary ref Q S (fun x hx => h x (by simp [hx]))

theorem not_good_onBoundary (C : Cargo) (R : List ℚ) (a : ℕ) (h : goodUpTo C R R.length a = false) :
    OnBoundary R (ptOf C a) := by
  rw [onBoundary_iff]
  by_contra hne
  have : goodUpTo C R R.length a = true := by
    rw [goodUpTo_iff]
    intro i hi
    by_contra hlt
    exact hne ⟨i, hi, by rw [← cg_ptOf]; exact not_lt.mp hlt⟩
  rw [this] at h; cases h

/-- the hypervolume of the input is the hypervolume of the nodes that survive `filter`, in any order -/
theorem hvCells_data_eq_good (data : List (List ℚ)) (R : List ℚ) (L : List ℕ) (hL : L.Perm (ids data.length)) :
    hvCells R data = hvCells R ((L.filter (goodUpTo ([] :: data) R R.length)).map (ptOf ([] :: data))) := by
  set C : Cargo := [] :: data with hC
  set good := goodUpTo C R R.length with hg
  have h1 : hvCells R data = hvCells R (L.map (ptOf C)) := by
    conv_lhs => rw [← map_ptOf_ids data]
    exact hvCells_of_mem_iff R _ _ (fun p => (hL.map (ptOf C)).symm.mem_iff)
  have h2 : hvCells R (L.map (ptOf C))
      = hvCells R ((L.filter (fun a => !good a)).map (ptOf C) ++ (L.filter good).map (ptOf C)) := by
    apply hvCells_of_mem_iff
    intro p
    simp only [List.mem_map, List.mem_append, List.mem_filter]
    constructor
    · rintro ⟨a, ha, rfl⟩
      cases hga : good a with
      | false => exact Or.inl ⟨a, ⟨ha, by simp [hga]⟩, rfl⟩
      | true => exact Or.inr ⟨a, ⟨ha, hga⟩, rfl⟩
    · rintro (⟨a, ⟨ha, _⟩, rfl⟩ | ⟨a, ⟨ha, _⟩, rfl⟩) <;> exact ⟨a, ha, rfl⟩
  rw [h1, h2]
  apply hvCells_drop_boundary
  intro q hq
  obtain ⟨a, ha, rfl⟩ := List.mem_map.mp hq
  have := (List.mem_filter.mp ha).2
  exact not_good_onBoundary C R a (by simpa using this)

/-! ### `n == 1` (l.1476-1480): the product of the edge lengths is the volume of the box -/

theorem boxVol_fold : ∀ (R : List ℚ) (p : Pt) (c : ℚ), (∀ i < R.length, p.getD i 0 < R.getD i 0) →
    (List.range R.length).foldl (fun h i => h * (R.getD i 0 - p.getD i 0)) c = c * boxVol R p
  | [], p, c, _ => by simp [boxVol]
  | r :: R, p, c, h => by
    rw [List.length_cons, List.range_succ_eq_map, List.foldl_cons, List.foldl_map]
    have h0 : p.getD 0 0 < r := by simpa using h 0 (by simp)
    have hp0 : p.getD 0 0 = p.headD 0 := by cases p <;> rfl
    have ih := boxVol_fold R p.tail (c * (r - p.headD 0)) (by
      intro i hi
      have := h (i + 1) (by simpa using hi)
      cases p with
      | nil => simpa using this
      | cons x p => simpa using this)
    have hfun : (fun (h : ℚ) (i : ℕ) => h * ((r :: R).getD (i + 1) 0 - p.getD (i + 1) 0))
        = (fun (h : ℚ) (i : ℕ) => h * (R.getD i 0 - p.tail.getD i 0)) := by
      funext h i
      cases p <;> simp
    simp only [Nat.succ_eq_add_one]
    rw [hfun]
    have : c * ((r :: R).getD 0 0 - p.getD 0 0) = c * (r - p.headD 0) := by rw [hp0]; rfl
    rw [this, ih, boxVol, if_pos (by rw [← hp0]; exact h0)]
    ring

theorem single_eq_hvCells (C : Cargo) (R : List ℚ) (p : ℕ) (hgood : goodUpTo C R R.length p = true) :
    (List.range R.length).foldl (fun h i => h * (rf R i - cg C p i)) 1 = hvCells R [ptOf C p] := by
  rw [hvCells_single]
  have := boxVol_fold R (ptOf C p) 1 (by
    intro i hi
    exact (goodUpTo_iff C R R.length p).mp hgood i hi)
  rw [one_mul] at this
  exact this

/-! ### one dimension (`dim == 0`, l.1014-1017) -/

theorem foldr_min_head (r : ℚ) : ∀ (x : ℚ) (xs : List ℚ), (x :: xs).Pairwise (· ≤ ·) → x ≤ r → (x :: xs).foldr min r = x := by
  intro x xs hs hx
  apply HvSweep.foldr_min_eq_of_le r x (x :: xs) (by simp) _ hx
  intro y hy
  rcases List.mem_cons.mp hy with rfl | hy
  · exact le_refl _
  · exact (List.pairwise_cons.mp hs).1 y hy

theorem dim1_eq_hvCells (C : Cargo) (r : ℚ) (a : ℕ) (G : List ℕ)
    (hs : (a :: G).Pairwise (fun x y => cg C x 0 ≤ cg C y 0)) (hr : cg C a 0 ≤ r) :
    r - cg C a 0 = hvCells [r] ((a :: G).map (ptOf C)) := by
  rw [hvCells_1d, List.map_map]
  have hm : ((fun p : Pt => p.headD 0) ∘ ptOf C) = (fun x => cg C x 0) := by
    funext x
    show (ptOf C x).headD 0 = (ptOf C x).getD 0 0
    cases ptOf C x <;> rfl
  rw [hm, List.map_cons, foldr_min_head r _ _ (by
    have := List.pairwise_map.mpr hs
    simpa using this) hr]

/-! ### two dimensions (`dim == 1`, l.995-1011) -/

/-- the loop l.1001-1008 on the list of the remaining nodes: `(hyperv, hypera, p1)` -/
def stairNodesC (C : Cargo) (r0 : ℚ) : List ℕ → (p1 : ℕ) → (hypera hyperv : ℚ) → ℚ × ℚ × ℕ
  | [], p1, hypera, hyperv => (hyperv, hypera, p1)
  | p0 :: l, p1, hypera, hyperv =>
    stairNodesC C r0 l p0 (if cg C p0 0 < hypera then cg C p0 0 else hypera)
      (hyperv + (r0 - hypera) * (cg C p0 1 - cg C p1 1))

theorem loop2d_eq (C : Cargo) (R : List ℚ) : ∀ (l : List ℕ) (fuel p1 : ℕ) (hypera hyperv : ℚ) (S : St),
    l.length < fuel → Seg (toSw S) 1 p1 l 0 → (∀ p ∈ l, p ≠ 0) →
    ∃ S', loop2d C R fuel p1 hypera hyperv S
        = some ((stairNodesC C (rf R 0) l p1 hypera hyperv).1, (stairNodesC C (rf R 0) l p1 hypera hyperv).2.1,
                (stairNodesC C (rf R 0) l p1 hypera hyperv).2.2, S')
  | [], fuel, p1, hypera, hyperv, S, hf, hs, _ => by
    obtain ⟨f, rfl⟩ : ∃ f, fuel = f + 1 := ⟨fuel - 1, by simp at hf; omega⟩
    have : nx S 1 p1 = 0 := hs.1
    refine ⟨S, ?_⟩
    simp [loop2d, this, stairNodesC]
  | p :: l, fuel, p1, hypera, hyperv, S, hf, hs, hne => by
    obtain ⟨f, rfl⟩ : ∃ f, fuel = f + 1 := ⟨fuel - 1, by simp at hf; omega⟩
    have hp : nx S 1 p1 = p := hs.1.1
    have hp0 : p ≠ 0 := hne p (by simp)
    unfold loop2d
    simp only [hp, if_neg hp0, stairNodesC]
    by_cases hlt : cg C p 0 < hypera
    · rw [if_pos hlt, if_pos hlt]
      exact loop2d_eq C R l f p (cg C p 0) _ S (by simpa using hf) hs.2 (fun x hx => hne x (by simp [hx]))
    · rw [if_neg hlt, if_neg hlt]
      set S1 := (if ign S p = 0 then setIgn S p 1 else S) with hS1
      have hseg : Seg (toSw S1) 1 p l 0 := by
        have : toSw S1 = toSw S := by rw [hS1]; split <;> rfl
        rw [this]; exact hs.2
      exact loop2d_eq C R l f p hypera _ S1 (by simpa using hf) hseg (fun x hx => hne x (by simp [hx]))

/-- the C loop is pyhv's staircase with the running minimum untranslated -/
theorem stairNodesC_XY (C : Cargo) (r₁ r₂ : ℚ) : ∀ (l : List ℕ) (p1 : ℕ) (hypera hyperv : ℚ),
    (stairNodesC C r₁ l p1 hypera hyperv).1
        + (r₁ - (stairNodesC C r₁ l p1 hypera hyperv).2.1) * (r₂ - cg C (stairNodesC C r₁ l p1 hypera hyperv).2.2 1)
      = stairXY r₁ r₂ (l.map (fun a => (cg C a 0, cg C a 1))) (cg C p1 1) (hypera - r₁) hyperv
  | [], p1, hypera, hyperv => by
    simp only [stairNodesC, List.map_nil, stairXY]; ring
  | p :: l, p1, hypera, hyperv => by
    simp only [stairNodesC, List.map_cons, stairXY]
    rw [stairNodesC_XY C r₁ r₂ l p]
    congr 1
    · by_cases hlt : cg C p 0 < hypera
      · rw [if_pos hlt, if_pos (by linarith)]
      · rw [if_neg hlt, if_neg (by linarith)]
    · ring

theorem dim2_eq_hvCells (C : Cargo) (r₁ r₂ : ℚ) (a : ℕ) (l : List ℕ)
    (hs : (a :: l).Pairwise (fun x y => cg C x 1 ≤ cg C y 1))
    (hlen : ∀ x ∈ a :: l, (ptOf C x).length = 2)
    (hle : ∀ x ∈ a :: l, cg C x 0 ≤ r₁ ∧ cg C x 1 ≤ r₂) :
    (stairNodesC C r₁ l a (cg C a 0) 0).1
        + (r₁ - (stairNodesC C r₁ l a (cg C a 0) 0).2.1) * (r₂ - cg C (stairNodesC C r₁ l a (cg C a 0) 0).2.2 1)
      = hvCells [r₁, r₂] ((a :: l).map (ptOf C)) := by
  rw [stairNodesC_XY]
  have hpt : ∀ x ∈ a :: l, ptOf C x = toPt (cg C x 0, cg C x 1) := by
    intro x hx
    exact HvSweep.list_len2 (ptOf C x) (hlen x hx)
  have hmap : (a :: l).map (ptOf C) = ((cg C a 0, cg C a 1) :: l.map (fun x => (cg C x 0, cg C x 1))).map toPt := by
    rw [← List.map_cons (f := fun x => (cg C x 0, cg C x 1)), List.map_map]
    apply List.map_congr_left
    intro x hx
    exact hpt x hx
  rw [hmap]
  apply stairXY_eq_hvCells r₁ r₂ (cg C a 0, cg C a 1) (l.map (fun x => (cg C x 0, cg C x 1)))
  · have : ((a :: l).map (fun x => (cg C x 0, cg C x 1))).Pairwise (fun p q => p.2 ≤ q.2) :=
      List.pairwise_map.mpr hs
    simpa using this
  · exact (hle a (by simp)).1
  · intro q hq
    have : q ∈ (a :: l).map (fun x => (cg C x 0, cg C x 1)) := by simpa using hq
    obtain ⟨x, hx, rfl⟩ := List.mem_map.mp this
    exact (hle x hx).2

end HvC
