/-
Helper lemmas for C09: the buffer interface of `Core/Buffer.lean` — heap algebra, symbolic
execution of the monad `M`, loop rules, slices as windows.
-/
import DeapModel.Core.CrossMutBuf
import DeapModel.Lemmas.C09Basic

set_option linter.unusedSectionVars false
set_option linter.unusedSimpArgs false
set_option linter.unusedVariables false
set_option linter.unnecessarySeqFocus false

namespace C09B
open Buffer

variable {α β γ : Type}

/-! ### heap algebra -/

@[simp] theorem cell_write_same (h : Heap α) (id : Nat) (v : List α) : (h.write id v).cell id = v := by
  simp [Heap.write]

theorem cell_write_ne (h : Heap α) (id o : Nat) (v : List α) (hne : o ≠ id) : (h.write id v).cell o = h.cell o := by
  simp [Heap.write, hne]

@[simp] theorem next_write (h : Heap α) (id : Nat) (v : List α) : (h.write id v).next = h.next := rfl

@[simp] theorem cell_alloc_next (h : Heap α) (v : List α) : (h.alloc v).cell h.next = v := by
  simp [Heap.alloc]

theorem cell_alloc_ne (h : Heap α) (o : Nat) (v : List α) (hne : o ≠ h.next) : (h.alloc v).cell o = h.cell o := by
  simp [Heap.alloc, hne]

theorem cell_alloc_lt (h : Heap α) (o : Nat) (v : List α) (hlt : o < h.next) : (h.alloc v).cell o = h.cell o :=
  cell_alloc_ne h o v (by omega)

@[simp] theorem next_alloc (h : Heap α) (v : List α) : (h.alloc v).next = h.next + 1 := rfl

/-! ### symbolic execution -/

theorem pure_apply (v : β) (h : Heap α) : (pure v : M α β) h = .ok v h := rfl

theorem bind_apply (m : M α β) (f : β → M α γ) (h : Heap α) :
    (m >>= f) h = (match m h with | .ok v h' => f v h' | .raise e h' => .raise e h') := rfl

/-- a statement that completes hands its value and heap to the rest of the sequence -/
theorem bind_ok {m : M α β} {f : β → M α γ} {h h1 : Heap α} {v : β} (hm : m h = .ok v h1) :
    (m >>= f) h = f v h1 := by
  rw [bind_apply, hm]

/-- a statement that raises ends the sequence -/
theorem bind_raise {m : M α β} {f : β → M α γ} {h h1 : Heap α} {e : Err} (hm : m h = .raise e h1) :
    (m >>= f) h = .raise e h1 := by
  rw [bind_apply, hm]

theorem len_apply (id : Nat) (h : Heap α) : (len id : M α Nat) h = .ok (h.cell id).length h := rfl

theorem getItem_ok {id i : Nat} {h : Heap α} {x : α} (hx : (h.cell id)[i]? = some x) :
    getItem id i h = .ok x h := by
  simp [getItem, hx]

theorem setItem_ok {id i : Nat} {h : Heap α} (v : α) (hi : i < (h.cell id).length) :
    setItem id i v h = .ok () (h.write id ((h.cell id).set i v)) := by
  simp [setItem, hi]

theorem tabGet_ok {t : List γ} {i : Nat} {x : γ} (h : Heap α) (hx : t[i]? = some x) :
    (tabGet t i : M α γ) h = .ok x h := by
  simp [tabGet, hx]

theorem tabSet_ok {t : List γ} {i : Nat} (v : γ) (h : Heap α) (hi : i < t.length) :
    (tabSet t i v : M α (List γ)) h = .ok (t.set i v) h := by
  simp [tabSet, hi]

/-! ### loops -/

theorem forFold_nil {ι σ : Type} (s : σ) (body : σ → ι → M α σ) : forFold [] s body = pure s := rfl

theorem forFold_cons {ι σ : Type} (i : ι) (is : List ι) (s : σ) (body : σ → ι → M α σ) :
    forFold (i :: is) s body = body s i >>= fun s' => forFold is s' body := rfl

/-- forward simulation of a loop by a `foldl` of the list model: if every iteration started in
related states (with the abstract state inside the invariant `Q`) completes in related states, so
does the loop -/
theorem forFold_sim {ι σ τ : Type} (R : σ → Heap α → τ → Prop) (Q : τ → Prop)
    (body : σ → ι → M α σ) (f : τ → ι → τ) (l : List ι)
    (hstep : ∀ s h t i, i ∈ l → R s h t → Q t →
      ∃ s' h', body s i h = .ok s' h' ∧ R s' h' (f t i) ∧ Q (f t i))
    (s : σ) (h : Heap α) (t : τ) (hR : R s h t) (hQ : Q t) :
    ∃ s' h', forFold l s body h = .ok s' h' ∧ R s' h' (l.foldl f t) ∧ Q (l.foldl f t) := by
  induction l generalizing s h t with
  | nil => exact ⟨s, h, rfl, hR, hQ⟩
  | cons i is ih =>
    obtain ⟨s1, h1, hb, hR1, hQ1⟩ := hstep s h t i (by simp) hR hQ
    obtain ⟨s2, h2, hf, hR2, hQ2⟩ :=
      ih (fun s h t j hj => hstep s h t j (by simp [hj])) s1 h1 (f t i) hR1 hQ1
    exact ⟨s2, h2, by rw [forFold_cons, bind_ok hb]; exact hf, hR2, hQ2⟩

/-! ### items of two different buffers -/

/-- `ind1[i], ind2[i] = ind2[i], ind1[i]` with both positions present is `swapAt2` of the list model;
nothing else is written -/
theorem swapItems_sim (ind1 ind2 i : Nat) (hne : ind1 ≠ ind2) (h : Heap α)
    (h1 : i < (h.cell ind1).length) (h2 : i < (h.cell ind2).length) :
    ∃ h', CrossMutBuf.swapItems ind1 ind2 i h = .ok () h' ∧
      (h'.cell ind1, h'.cell ind2) = CrossMut.swapAt2 i (h.cell ind1, h.cell ind2) ∧
      (∀ o, o ≠ ind1 → o ≠ ind2 → h'.cell o = h.cell o) ∧ h'.next = h.next := by
  have hx : (h.cell ind2)[i]? = some (h.cell ind2)[i] := List.getElem?_eq_getElem h2
  have hy : (h.cell ind1)[i]? = some (h.cell ind1)[i] := List.getElem?_eq_getElem h1
  refine ⟨(h.write ind1 ((h.cell ind1).set i (h.cell ind2)[i])).write ind2 ((h.cell ind2).set i (h.cell ind1)[i]),
    ?_, ?_, ?_, rfl⟩
  · unfold CrossMutBuf.swapItems
    rw [bind_ok (getItem_ok hx), bind_ok (getItem_ok hy), bind_ok (setItem_ok _ h1)]
    have h2' : i < ((h.write ind1 ((h.cell ind1).set i (h.cell ind2)[i])).cell ind2).length := by
      rw [cell_write_ne _ _ _ _ (Ne.symm hne)]; exact h2
    rw [setItem_ok _ h2', cell_write_ne _ _ _ _ (Ne.symm hne)]
  · simp only [CrossMut.swapAt2, hx, hy, cell_write_same, cell_write_ne _ _ _ _ hne]
  · intro o o1 o2
    rw [cell_write_ne _ _ _ _ o2, cell_write_ne _ _ _ _ o1]

/-! ### slices -/

theorem clampSlice_le (n a : Nat) (b : Option Nat) : (clampSlice n a b).1 + (clampSlice n a b).2 ≤ n := by
  cases b <;> simp only [clampSlice] <;> omega

theorem pySliceO_eq_window (l : List α) (a : Nat) (b : Option Nat) :
    pySliceO l a b = (l.drop (clampSlice l.length a b).1).take (clampSlice l.length a b).2 := by
  apply List.ext_getElem?
  intro j
  cases b with
  | none =>
    simp only [pySliceO, clampSlice, List.getElem?_take, List.getElem?_drop]
    by_cases h : a ≤ l.length
    · rw [Nat.min_eq_left h]
      split
      · rfl
      · rw [List.getElem?_eq_none (by omega)]
    · rw [Nat.min_eq_right (by omega)]
      rw [List.getElem?_eq_none (by omega)]
      split
      · rw [List.getElem?_eq_none (by omega)]
      · rfl
  | some b =>
    simp only [pySliceO, clampSlice, List.getElem?_take, List.getElem?_drop]
    by_cases h : a ≤ l.length
    · rw [Nat.min_eq_left h]
      by_cases h2 : a + j < b
      · rw [if_pos h2]
        by_cases h3 : j < min b l.length - a
        · rw [if_pos h3]
        · rw [if_neg h3, List.getElem?_eq_none (by omega)]
      · rw [if_neg h2, if_neg (by omega)]
    · rw [Nat.min_eq_right (show l.length ≤ a by omega)]
      have e1 : (if a + j < b then l[a + j]? else none) = none := by
        split
        · rw [List.getElem?_eq_none (by omega)]
        · rfl
      have e2 : (if j < min b l.length - l.length then l[l.length + j]? else none) = none := by
        rw [if_neg (by omega)]
      rw [e1, e2]

theorem window_length (l : List α) (s n : Nat) (h : s + n ≤ l.length) : ((l.drop s).take n).length = n := by
  simp only [List.length_take, List.length_drop]; omega

/-- `l[a:b] = v` on a list / array.array -/
def splice (l : List α) (a : Nat) (b : Option Nat) (v : List α) : List α :=
  l.take a ++ v ++ l.drop (max a (b.getD l.length))

/-- the slice-swapping tuple assignment under `copy`: each buffer receives the items the other one held
BEFORE the statement -/
theorem swapSlices_copy (ind1 ind2 : Nat) (hne : ind1 ≠ ind2) (h : Heap α) (h1 : ind1 < h.next) (h2 : ind2 < h.next)
    (a1 : Nat) (b1 : Option Nat) (a2 : Nat) (b2 : Option Nat) :
    ∃ h', CrossMutBuf.swapSlices .copy ind1 ind2 a1 b1 a2 b2 h = .ok () h' ∧
      h'.cell ind1 = splice (h.cell ind1) a1 b1 (pySliceO (h.cell ind2) a2 b2) ∧
      h'.cell ind2 = splice (h.cell ind2) a2 b2 (pySliceO (h.cell ind1) a1 b1) ∧
      (∀ o, o < h.next → o ≠ ind1 → o ≠ ind2 → h'.cell o = h.cell o) ∧ h.next ≤ h'.next := by
  let hA := h.alloc (pySliceO (h.cell ind2) a2 b2)
  let hB := hA.alloc (pySliceO (h.cell ind1) a1 b1)
  let hC := hB.write ind1 (splice (h.cell ind1) a1 b1 (pySliceO (h.cell ind2) a2 b2))
  let hD := hC.write ind2 (splice (h.cell ind2) a2 b2 (pySliceO (h.cell ind1) a1 b1))
  have s1 : (slice .copy (.buf ind2) a2 b2 : M α Obj) h = .ok (.buf h.next) hA := rfl
  have cA1 : hA.cell ind1 = h.cell ind1 := cell_alloc_lt _ _ _ h1
  have s2 : (slice .copy (.buf ind1) a1 b1 : M α Obj) hA = .ok (.buf (h.next + 1)) hB := by
    show Res.ok _ _ = _
    simp only [Heap.read, cA1]; rfl
  have cB1 : hB.cell ind1 = h.cell ind1 := by
    rw [cell_alloc_lt _ _ _ (by simp [hA]; omega)]; exact cA1
  have cB2 : hB.cell ind2 = h.cell ind2 := by
    rw [cell_alloc_lt _ _ _ (by simp [hA]; omega)]; exact cell_alloc_lt _ _ _ h2
  have cBn : hB.cell h.next = pySliceO (h.cell ind2) a2 b2 := by
    rw [cell_alloc_lt _ _ _ (by simp [hA])]; exact cell_alloc_next _ _
  have cBn1 : hB.cell (h.next + 1) = pySliceO (h.cell ind1) a1 b1 := cell_alloc_next hA _
  have s3 : (sliceAssign .copy ind1 a1 b1 (.buf h.next) : M α Unit) hB = .ok () hC := by
    show Res.ok _ _ = _
    simp only [Heap.read, cB1, cBn]; rfl
  have s4 : (sliceAssign .copy ind2 a2 b2 (.buf (h.next + 1)) : M α Unit) hC = .ok () hD := by
    show Res.ok _ _ = _
    have e1 : hC.cell ind2 = h.cell ind2 := by rw [cell_write_ne _ _ _ _ (Ne.symm hne)]; exact cB2
    have e2 : hC.cell (h.next + 1) = pySliceO (h.cell ind1) a1 b1 := by
      rw [cell_write_ne _ _ _ _ (by omega)]; exact cBn1
    simp only [Heap.read, e1, e2]; rfl
  refine ⟨hD, ?_, ?_, ?_, ?_, ?_⟩
  · unfold CrossMutBuf.swapSlices
    rw [bind_ok s1, bind_ok s2, bind_ok s3, s4]
  · rw [cell_write_ne _ _ _ _ hne]; exact cell_write_same _ _ _
  · exact cell_write_same _ _ _
  · intro o ho o1 o2
    rw [cell_write_ne _ _ _ _ o2, cell_write_ne _ _ _ _ o1, cell_alloc_lt _ _ _ (by simp [hA]; omega), cell_alloc_lt _ _ _ ho]
  · show h.next ≤ h.next + 1 + 1
    omega

/-- the same statement under `view`, for segments of equal length: the first store copies the other
buffer's items in, the second store reads them back through the window — the second buffer is
unchanged (`doc/tutorials/advanced/numpy.rst`) -/
theorem swapSlices_view (ind1 ind2 : Nat) (hne : ind1 ≠ ind2) (h : Heap α)
    (a1 : Nat) (b1 : Option Nat) (a2 : Nat) (b2 : Option Nat)
    (hlen : (clampSlice (h.cell ind1).length a1 b1).2 = (clampSlice (h.cell ind2).length a2 b2).2) :
    ∃ h', CrossMutBuf.swapSlices .view ind1 ind2 a1 b1 a2 b2 h = .ok () h' ∧
      h'.cell ind1 = (h.cell ind1).take (clampSlice (h.cell ind1).length a1 b1).1 ++ pySliceO (h.cell ind2) a2 b2
        ++ (h.cell ind1).drop ((clampSlice (h.cell ind1).length a1 b1).1 + (clampSlice (h.cell ind1).length a1 b1).2) ∧
      h'.cell ind2 = h.cell ind2 ∧
      (∀ o, o ≠ ind1 → o ≠ ind2 → h'.cell o = h.cell o) ∧ h'.next = h.next := by
  generalize hc1 : clampSlice (h.cell ind1).length a1 b1 = c1 at hlen ⊢
  generalize hc2 : clampSlice (h.cell ind2).length a2 b2 = c2 at hlen ⊢
  have le1 := clampSlice_le (h.cell ind1).length a1 b1
  have le2 := clampSlice_le (h.cell ind2).length a2 b2
  rw [hc1] at le1; rw [hc2] at le2
  have hv : pySliceO (h.cell ind2) a2 b2 = ((h.cell ind2).drop c2.1).take c2.2 := by
    rw [pySliceO_eq_window, hc2]
  have hvl : (pySliceO (h.cell ind2) a2 b2).length = c2.2 := by rw [hv]; exact window_length _ _ _ le2
  let v := pySliceO (h.cell ind2) a2 b2
  let hA := h.write ind1 ((h.cell ind1).take c1.1 ++ v ++ (h.cell ind1).drop (c1.1 + c1.2))
  have s1 : (slice .view (.buf ind2) a2 b2 : M α Obj) h = .ok (.win ind2 c2.1 c2.2 false) h := by
    show Res.ok _ _ = _
    simp only [viewSlice, hc2]
  have s2 : (slice .view (.buf ind1) a1 b1 : M α Obj) h = .ok (.win ind1 c1.1 c1.2 false) h := by
    show Res.ok _ _ = _
    simp only [viewSlice, hc1]
  have s3 : (sliceAssign .view ind1 a1 b1 (.win ind2 c2.1 c2.2 false) : M α Unit) h = .ok () hA := by
    unfold sliceAssign
    simp only [Heap.read, window, hc1, Bool.false_eq_true, if_false]
    rw [← hv, if_pos (by rw [hvl, hlen])]
  have cA1 : hA.cell ind1 = (h.cell ind1).take c1.1 ++ v ++ (h.cell ind1).drop (c1.1 + c1.2) := cell_write_same _ _ _
  have cA2 : hA.cell ind2 = h.cell ind2 := cell_write_ne _ _ _ _ (Ne.symm hne)
  -- what the window onto buffer 1 shows now: the items that came from buffer 2
  have hw : window (hA.cell ind1) c1.1 c1.2 false = v := by
    simp only [window, Bool.false_eq_true, if_false, cA1]
    have tl : ((h.cell ind1).take c1.1).length = c1.1 := by simp only [List.length_take]; omega
    rw [List.append_assoc, List.drop_append_of_le_length (by omega), List.drop_of_length_le (by omega), List.nil_append,
      List.take_append_of_le_length (by rw [show v.length = c2.2 from hvl]; omega), List.take_of_length_le (by rw [show v.length = c2.2 from hvl]; omega)]
  have s4 : (sliceAssign .view ind2 a2 b2 (.win ind1 c1.1 c1.2 false) : M α Unit) hA = .ok () (hA.write ind2 (h.cell ind2)) := by
    unfold sliceAssign
    simp only [Heap.read, hw, cA2, hc2]
    rw [if_pos (show v.length = c2.2 from hvl)]
    congr 2
    show _ ++ v ++ _ = _
    rw [show v = ((h.cell ind2).drop c2.1).take c2.2 from hv]
    rw [List.append_assoc, ← List.drop_drop, List.take_append_drop, List.take_append_drop]
  refine ⟨hA.write ind2 (h.cell ind2), ?_, ?_, ?_, ?_, rfl⟩
  · unfold CrossMutBuf.swapSlices
    rw [bind_ok s1, bind_ok s2, bind_ok s3, s4]
  · rw [cell_write_ne _ _ _ _ hne]; exact cA1
  · exact cell_write_same _ _ _
  · intro o o1 o2
    rw [cell_write_ne _ _ _ _ o2, cell_write_ne _ _ _ _ o1]

/-! ### the runs the driver executes -/

theorem run2_of_ok {β : Type} {m : M α β} {l1 l2 : List α} {v : β} {h' : Heap α}
    (e : m (heap2 l1 l2) = .ok v h') : run2 m l1 l2 = some (h'.cell 0, h'.cell 1) := by
  simp only [run2, e]

theorem run1_of_ok {β : Type} {m : M α β} {l : List α} {v : β} {h' : Heap α}
    (e : m (heap1 l) = .ok v h') : run1 m l = some (h'.cell 0) := by
  simp only [run1, e]

end C09B
