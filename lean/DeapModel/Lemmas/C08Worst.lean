/-
C08 helper lemmas: once full, the worst member of the hall of fame never gets worse.
-/
import DeapModel.Lemmas.C08Run

set_option linter.unusedSectionVars false
set_option linter.unusedVariables false
namespace C08L
open Archive
open Fitness (Fit deepcopy)
variable {G α : Type} [LinearOrder α] (sim : Ind G α → Ind G α → Bool)

/-- "full, and every member is at least as good as `b`" is preserved by every iteration -/
theorem step_lb (p0 ind : Ind G α) {base m : Nat} {seen : List (Ind G α)} {h h' : HoF G α}
    (hs : HStr base m seen h) (hm : 1 ≤ m) (hp : h.items = [] → p0 = ind) (b : List α)
    (hfull : h.items.length = m) (hlb : ∀ it ∈ h.items, b ≤ it.fit.wvalues)
    (e : step sim p0 h ind = some h') :
    h'.items.length = m ∧ ∀ it ∈ h'.items, b ≤ it.fit.wvalues := by
  have hmm : 1 ≤ h.maxsize := by rw [hs.msz]; exact hm
  have hmsz := hs.msz
  rcases step_cases sim p0 ind h hmm hp with ⟨he, _⟩ | ⟨ys, w, hys, hc⟩
  · rw [he] at hfull; simp at hfull; omega
  · rcases hc with ⟨e', _, _⟩ | ⟨e', _⟩ | ⟨e', hlt, _⟩ | ⟨e', hge, hgt, _⟩
    · rw [e'] at e; cases e; exact ⟨hfull, hlb⟩
    · rw [e'] at e; cases e; exact ⟨hfull, hlb⟩
    · omega
    · rw [e'] at e; cases e
      have hne : h.items ≠ [] := by rw [hys]; simp
      have hl : h.items.length - 1 < h.items.length := by
        have := List.length_pos_iff.2 hne; omega
      have hyi : (erased h (h.items.length - 1)).items = ys := erased_last_items h ys w hys
      refine ⟨by rw [length_insert, length_erased _ _ hl]; omega, ?_⟩
      intro it hit
      rw [mem_insert, hyi] at hit
      rcases hit with rfl | hit
      · have hw := hlb w (by rw [hys]; simp)
        exact le_trans hw (le_of_lt ((gt_iff _ _).1 hgt))
      · exact hlb it (by rw [hys]; simp [hit])

theorem updateLoop_lb (p0 : Ind G α) {base m : Nat} (hm : 1 ≤ m) (b : List α) (rest : List (Ind G α)) :
    ∀ (seen : List (Ind G α)) (h h' : HoF G α), HStr base m seen h →
      (h.items = [] → ∀ x, rest.head? = some x → p0 = x) →
      h.items.length = m → (∀ it ∈ h.items, b ≤ it.fit.wvalues) →
      updateLoop sim p0 h rest = some h' →
      h'.items.length = m ∧ ∀ it ∈ h'.items, b ≤ it.fit.wvalues := by
  induction rest with
  | nil => intro seen h h' _ _ hf hl e; simp only [updateLoop, Option.some.injEq] at e; subst e; exact ⟨hf, hl⟩
  | cons ind rest ih =>
    intro seen h h' hs hp hf hl e
    obtain ⟨h1, e1, s1, n1⟩ := step_str sim p0 ind hs hm (fun he => hp he ind rfl)
    obtain ⟨f1, l1⟩ := step_lb sim p0 ind hs hm (fun he => hp he ind rfl) b hf hl e1
    simp only [updateLoop, e1] at e
    exact ih (seen ++ [ind]) h1 h' s1 (fun he => absurd he n1) f1 l1 e

theorem update_lb {base m : Nat} (hm : 1 ≤ m) (b : List α) (pop seen : List (Ind G α)) (h h' : HoF G α)
    (hs : HStr base m seen h) (hf : h.items.length = m) (hl : ∀ it ∈ h.items, b ≤ it.fit.wvalues)
    (e : update sim h pop = some h') :
    h'.items.length = m ∧ ∀ it ∈ h'.items, b ≤ it.fit.wvalues := by
  cases pop with
  | nil => simp only [update, Option.some.injEq] at e; subst e; exact ⟨hf, hl⟩
  | cons p0 t =>
    exact updateLoop_lb sim p0 hm b (p0 :: t) seen h h' hs (fun _ x hx => by simpa using hx) hf hl e

theorem run_lb {base m : Nat} (hm : 1 ≤ m) (b : List α) (hist : List (List (Ind G α))) :
    ∀ (seen : List (Ind G α)) (h h' : HoF G α), HStr base m seen h →
      h.items.length = m → (∀ it ∈ h.items, b ≤ it.fit.wvalues) → run sim h hist = some h' →
      h'.items.length = m ∧ ∀ it ∈ h'.items, b ≤ it.fit.wvalues := by
  induction hist with
  | nil => intro seen h h' _ hf hl e; simp only [run, Option.some.injEq] at e; subst e; exact ⟨hf, hl⟩
  | cons bt bs ih =>
    intro seen h h' hs hf hl e
    obtain ⟨h1, e1, s1⟩ := update_str sim hm bt seen h hs
    obtain ⟨f1, l1⟩ := update_lb sim hm b bt seen h h1 hs hf hl e1
    simp only [run, e1] at e
    exact ih (seen ++ bt) h1 h' s1 f1 l1 e

theorem run_append (h : HoF G α) (a b : List (List (Ind G α))) :
    run sim h (a ++ b) = (run sim h a).bind (fun h' => run sim h' b) := by
  induction a generalizing h with
  | nil => simp [run]
  | cons x xs ih =>
    simp only [List.cons_append, run]
    cases update sim h x with
    | none => simp
    | some h1 => simp [ih]

/-- every member is at least as good as the last one -/
theorem Str.last_le {base : Nat} {seen : List (Ind G α)} {h : HoF G α} (hs : Str base seen h)
    (w : Ind G α) (hw : h.items.getLast? = some w) : ∀ it ∈ h.items, w.fit.wvalues ≤ it.fit.wvalues := by
  obtain ⟨ys, hys⟩ := List.getLast?_eq_some_iff.1 hw
  have := hs.sorted
  rw [hys, List.pairwise_append] at this
  intro it hit
  rw [hys, List.mem_append, List.mem_singleton] at hit
  rcases hit with hit | rfl
  · exact this.2.2 it hit w (by simp)
  · exact le_refl _

end C08L

