/-
C14 helper lemmas, pure Mathlib matrix algebra: the rank-one update of a factor and the
Sherman–Morrison update of its inverse, with the scalars exactly as `deap/cma.py` computes them.
-/
import Mathlib.Data.Matrix.Mul
import Mathlib.Analysis.Real.Sqrt
import Mathlib.Tactic.LinearCombination
import Mathlib.Tactic.FieldSimp
import Mathlib.Tactic.Ring
import Mathlib.Tactic.Module

namespace C14Matrix
open Matrix

set_option linter.unusedSectionVars false

variable {n : Type} [Fintype n] [DecidableEq n]

/-- `W = w wᵀ` satisfies `W² = ‖w‖² W`. -/
theorem outer_sq (w : n → ℝ) :
    vecMulVec w w * vecMulVec w w = (w ⬝ᵥ w) • vecMulVec w w := by
  rw [vecMulVec_mul_vecMulVec, vecMulVec_smul]

/-- The coded factor update `a•A + b•(A w) wᵀ` is `A (a I + b w wᵀ)`. -/
theorem factor_eq (A : Matrix n n ℝ) (w : n → ℝ) (a b : ℝ) :
    a • A + b • vecMulVec (A *ᵥ w) w = A * (a • (1 : Matrix n n ℝ) + b • vecMulVec w w) := by
  rw [mul_add, mul_smul_comm, mul_one, mul_smul_comm, mul_vecMulVec]

/-- Products in the commutative algebra spanned by `I` and `W = w wᵀ`. -/
theorem comb_mul (w : n → ℝ) (x y x' y' : ℝ) :
    (x • (1 : Matrix n n ℝ) + y • vecMulVec w w) * (x' • (1 : Matrix n n ℝ) + y' • vecMulVec w w)
      = (x * x') • (1 : Matrix n n ℝ) + (x * y' + y * x' + y * y' * (w ⬝ᵥ w)) • vecMulVec w w := by
  simp only [add_mul, mul_add, smul_mul_assoc, mul_smul_comm, one_mul, mul_one, outer_sq, smul_smul]
  module

/-- `(a I + b W)(a I + b W)ᵀ = a² I + (2ab + b²‖w‖²) W`. -/
theorem core_sq (w : n → ℝ) (a b : ℝ) :
    (a • (1 : Matrix n n ℝ) + b • vecMulVec w w) * (a • (1 : Matrix n n ℝ) + b • vecMulVec w w)ᵀ
      = (a * a) • (1 : Matrix n n ℝ) + (2 * a * b + b * b * (w ⬝ᵥ w)) • vecMulVec w w := by
  have hT : (vecMulVec w w)ᵀ = vecMulVec w w := transpose_vecMulVec w w
  rw [transpose_add, transpose_smul, transpose_smul, transpose_one, hT, comb_mul]
  congr 2; ring

/-- Rank-one identity for the factor: with `A' = a•A + b•(A w) wᵀ`,
`A' A'ᵀ = a²•(A Aᵀ) + (2ab + b²‖w‖²)•(A w)(A w)ᵀ`. -/
theorem factor_gram (A : Matrix n n ℝ) (w : n → ℝ) (a b : ℝ) :
    (a • A + b • vecMulVec (A *ᵥ w) w) * (a • A + b • vecMulVec (A *ᵥ w) w)ᵀ
      = (a * a) • (A * Aᵀ) + (2 * a * b + b * b * (w ⬝ᵥ w)) • vecMulVec (A *ᵥ w) (A *ᵥ w) := by
  rw [factor_eq, transpose_mul, ← Matrix.mul_assoc, Matrix.mul_assoc A, core_sq]
  rw [mul_add, add_mul, mul_smul_comm, mul_one, smul_mul_assoc, mul_smul_comm, smul_mul_assoc,
    mul_vecMulVec, vecMulVec_mul]
  congr 2
  ext i; simp [vecMul_transpose]

/-- Sherman–Morrison for the coded inverse: if `invA * A = 1`, `a ≠ 0` and `a² + a b ‖w‖² ≠ 0`
then `(1/a)•invA - (b/(a² + a b‖w‖²))•(w wᵀ invA)` is a left inverse of `a•A + b•(A w) wᵀ`. -/
theorem inverse_left (A invA : Matrix n n ℝ) (w : n → ℝ) (a b : ℝ) (hinv : invA * A = 1)
    (ha : a ≠ 0) (hden : a * a + a * b * (w ⬝ᵥ w) ≠ 0) :
    ((1 / a) • invA - (b / (a * a + a * b * (w ⬝ᵥ w))) • (vecMulVec w w * invA))
      * (a • A + b • vecMulVec (A *ᵥ w) w) = 1 := by
  rw [factor_eq]
  have h1 : ((1 / a) • invA - (b / (a * a + a * b * (w ⬝ᵥ w))) • (vecMulVec w w * invA))
      = ((1 / a) • (1 : Matrix n n ℝ) - (b / (a * a + a * b * (w ⬝ᵥ w))) • vecMulVec w w) * invA := by
    rw [sub_mul, smul_mul_assoc, one_mul, smul_mul_assoc]
  rw [h1, Matrix.mul_assoc, ← Matrix.mul_assoc invA, hinv, one_mul, sub_eq_add_neg, ← neg_smul, comb_mul]
  have e1 : 1 / a * a = 1 := by field_simp
  have e2 : 1 / a * b + -(b / (a * a + a * b * (w ⬝ᵥ w))) * a
      + -(b / (a * a + a * b * (w ⬝ᵥ w))) * b * (w ⬝ᵥ w) = 0 := by
    have hd : b * (w ⬝ᵥ w) + a ≠ 0 := by
      intro h; apply hden; have : a * a + a * b * (w ⬝ᵥ w) = a * (b * (w ⬝ᵥ w) + a) := by ring
      rw [this, h, mul_zero]
    have hd2 : a * a + a * b * (w ⬝ᵥ w) = a * (b * (w ⬝ᵥ w) + a) := by ring
    rw [hd2]; field_simp; ring
  rw [e1, e2, one_smul, zero_smul, add_zero]

/-- The coded scalar `b = a/‖w‖²·(r - 1)` with `a² = α`, `r² = 1 + β/α·‖w‖²` turns the factor
update into `α·AAᵀ + β·(Aw)(Aw)ᵀ`, and the Sherman–Morrison denominator is `α·r`. -/
theorem coded_b (α β nrm a r : ℝ) (hn : nrm ≠ 0) (hα : α ≠ 0) (ha : a * a = α)
    (hr : r * r = 1 + β / α * nrm) :
    2 * a * (a / nrm * (r - 1)) + (a / nrm * (r - 1)) * (a / nrm * (r - 1)) * nrm = β ∧
    a * a + a * (a / nrm * (r - 1)) * nrm = α * r := by
  constructor
  · have h1 : 2 * a * (a / nrm * (r - 1)) + (a / nrm * (r - 1)) * (a / nrm * (r - 1)) * nrm
        = (a * a) * (r * r - 1) / nrm := by field_simp; ring
    rw [h1, ha, hr]; field_simp; ring
  · have h2 : a * a + a * (a / nrm * (r - 1)) * nrm = (a * a) * r := by field_simp; ring
    rw [h2, ha]

/-- Variant with the arrangement of `cma.py:768-770`: `b = a·(r - 1)/‖w‖²`. -/
theorem coded_b' (α β nrm a r : ℝ) (hn : nrm ≠ 0) (hα : α ≠ 0) (ha : a * a = α)
    (hr : r * r = 1 + β * nrm / α) :
    2 * a * (a * (r - 1) / nrm) + (a * (r - 1) / nrm) * (a * (r - 1) / nrm) * nrm = β ∧
    a * a + a * (a * (r - 1) / nrm) * nrm = α * r := by
  have e : a * (r - 1) / nrm = a / nrm * (r - 1) := by ring
  have hr' : r * r = 1 + β / α * nrm := by rw [hr]; ring
  rw [e]; exact coded_b α β nrm a r hn hα ha hr'

/-- The coded factor / inverse-factor update in one statement: for `a² = α ≠ 0`,
`r² = 1 + β/α·‖w‖²`, `‖w‖² ≠ 0` and `b = a/‖w‖²·(r - 1)`, the new factor
`A' = a•A + b•(A w) wᵀ` satisfies `A'A'ᵀ = α•AAᵀ + β•(A w)(A w)ᵀ`, and when `r ≠ 0` the coded
inverse is a left inverse of `A'`. -/
theorem coded_update (A invA : Matrix n n ℝ) (w : n → ℝ) (α β a r : ℝ) (hinv : invA * A = 1)
    (hn : w ⬝ᵥ w ≠ 0) (hα : α ≠ 0) (ha : a * a = α) (hr : r * r = 1 + β / α * (w ⬝ᵥ w)) :
    (a • A + (a / (w ⬝ᵥ w) * (r - 1)) • vecMulVec (A *ᵥ w) w)
        * (a • A + (a / (w ⬝ᵥ w) * (r - 1)) • vecMulVec (A *ᵥ w) w)ᵀ
      = α • (A * Aᵀ) + β • vecMulVec (A *ᵥ w) (A *ᵥ w) ∧
    (r ≠ 0 →
      ((1 / a) • invA - ((a / (w ⬝ᵥ w) * (r - 1))
          / (a * a + a * (a / (w ⬝ᵥ w) * (r - 1)) * (w ⬝ᵥ w))) • (vecMulVec w w * invA))
        * (a • A + (a / (w ⬝ᵥ w) * (r - 1)) • vecMulVec (A *ᵥ w) w) = 1) := by
  obtain ⟨h1, h2⟩ := coded_b α β (w ⬝ᵥ w) a r hn hα ha hr
  constructor
  · rw [factor_gram, ha]
    have : 2 * a * (a / (w ⬝ᵥ w) * (r - 1)) + (a / (w ⬝ᵥ w) * (r - 1)) * (a / (w ⬝ᵥ w) * (r - 1)) * (w ⬝ᵥ w)
        = β := h1
    rw [this]
  · intro hr0
    have ha0 : a ≠ 0 := by intro h; rw [h, mul_zero] at ha; exact hα ha.symm
    exact inverse_left A invA w a _ hinv ha0 (by rw [h2]; exact mul_ne_zero hα hr0)

/-- The cap on `ccovn` (cma.py:780-783) keeps `1 - ccovn/(1+ccovn)·‖z‖²` at least `1/2`. -/
theorem neg_cap (c0 n2 : ℝ) (hc : 0 < c0) (hn : 0 ≤ n2) :
    0 < (if 1 < c0 * (2 * n2 - 1) then 1 / (2 * n2 - 1) else c0) ∧
    1 / 2 ≤ 1 - (if 1 < c0 * (2 * n2 - 1) then 1 / (2 * n2 - 1) else c0)
              / (1 + (if 1 < c0 * (2 * n2 - 1) then 1 / (2 * n2 - 1) else c0)) * n2 := by
  by_cases h : 1 < c0 * (2 * n2 - 1)
  · rw [if_pos h]
    have hpos : 0 < 2 * n2 - 1 := by
      by_contra hneg
      have : c0 * (2 * n2 - 1) ≤ 0 := mul_nonpos_of_nonneg_of_nonpos hc.le (not_lt.1 hneg)
      linarith
    refine ⟨by positivity, ?_⟩
    have hn2 : 0 < n2 := by linarith
    have : 1 / (2 * n2 - 1) / (1 + 1 / (2 * n2 - 1)) * n2 = 1 / 2 := by
      field_simp; ring
    rw [this]; norm_num
  · rw [if_neg h]
    refine ⟨hc, ?_⟩
    have h1 : 0 < 1 + c0 := by linarith
    have : c0 / (1 + c0) * n2 ≤ 1 / 2 := by
      rw [div_mul_eq_mul_div, div_le_iff₀ h1]; nlinarith [not_lt.1 h]
    linarith

end C14Matrix
