/-
C10 — the ES mutations (`mutGaussian`, `mutESLogNormal`) under the rounded semantics of `Core/RoundedOps.lean`:
the decision `random.random() < indpb`, the exponential, and the boundary of "positive strategies stay positive".
The property theorems are in `Props/C10.lean`.
-/
import DeapModel.Lemmas.C10Rounded

set_option linter.unusedSimpArgs false
set_option linter.unusedVariables false
set_option linter.unusedTactic false
set_option linter.unreachableTactic false
set_option linter.unnecessarySeqFocus false

namespace RealOps
variable {α : Type} [RealLike α]

/-- every strategy value that comes out of the loop of `mutESLogNormal` is a value that went in, or
`s * exp(t0_n + t * z)` for a value `s` that went in and a gauss draw `z` of the tape -/
theorem lognLoop_strategy_mem (indpb t0n t : α) :
    ∀ (xs ss rs gs ys ts rrest grest : List α),
      lognLoop indpb t0n t xs ss rs gs = .ok (ys, ts, rrest, grest) →
      ∀ u ∈ ts, u ∈ ss ∨ ∃ s ∈ ss, ∃ z ∈ gs, u = lognSigma s t0n t z := by
  intro xs
  induction xs with
  | nil =>
    intro ss rs gs ys ts rrest grest h u hu
    simp [lognLoop] at h
    obtain ⟨rfl, rfl, rfl, rfl⟩ := h
    exact Or.inl hu
  | cons x xs ih =>
    intro ss rs gs ys ts rrest grest h u hu
    cases ss with
    | nil =>
      simp only [lognLoop] at h
      split at h
      · simp at h
      · next g rs' hp =>
        split at h
        · simp at h
        · split at h <;> try (simp at h; done)
          next ys' ts' rr gr hl =>
          simp at h
          obtain ⟨rfl, rfl, rfl, rfl⟩ := h
          rcases ih [] rs' gs _ _ _ _ hl u hu with h1 | ⟨s, hs, _⟩
          · exact Or.inl h1
          · simp at hs
    | cons s ss =>
      simp only [lognLoop] at h
      split at h
      · simp at h
      · next g rs' hp =>
        split at h
        · split at h
          · simp at h
          · next z1 gs1 hp1 =>
            split at h
            · simp at h
            · next z2 gs2 hp2 =>
              split at h <;> try (simp at h; done)
              next ys' ts' rr gr hl =>
              simp at h
              obtain ⟨rfl, rfl, rfl, rfl⟩ := h
              have e1 : gs = z1 :: gs1 := by
                cases gs with
                | nil => simp [pop] at hp1
                | cons a b => simp [pop] at hp1; rw [hp1.1, hp1.2]
              have e2 : gs1 = z2 :: gs2 := by
                cases gs1 with
                | nil => simp [pop] at hp2
                | cons a b => simp [pop] at hp2; rw [hp2.1, hp2.2]
              rcases List.mem_cons.1 hu with rfl | hu'
              · exact Or.inr ⟨s, List.mem_cons_self, z1, by rw [e1]; exact List.mem_cons_self, rfl⟩
              · rcases ih ss rs' gs2 _ _ _ _ hl u hu' with h1 | ⟨s', hs', z, hz, e⟩
                · exact Or.inl (List.mem_cons_of_mem _ h1)
                · exact Or.inr ⟨s', List.mem_cons_of_mem _ hs', z,
                    by rw [e1, e2]; exact List.mem_cons_of_mem _ (List.mem_cons_of_mem _ hz), e⟩
        · split at h <;> try (simp at h; done)
          next ys' ts' rr gr hl =>
          simp at h
          obtain ⟨rfl, rfl, rfl, rfl⟩ := h
          rcases List.mem_cons.1 hu with rfl | hu'
          · exact Or.inl List.mem_cons_self
          · rcases ih ss rs' gs _ _ _ _ hl u hu' with h1 | ⟨s', hs', z, hz, e⟩
            · exact Or.inl (List.mem_cons_of_mem _ h1)
            · exact Or.inr ⟨s', List.mem_cons_of_mem _ hs', z, hz, e⟩

/-- `mutGaussian`, any scalar: when no draw of the tape passes the test `random.random() < indpb`, the genes that
come out are the genes that went in -/
theorem gaussLoop_id (indpb : α) {xs mu sigma rs gs ys rrest grest : List α}
    (hno : ∀ g ∈ rs, ¬ g < indpb) (h : gaussLoop indpb xs mu sigma rs gs = some (ys, rrest, grest)) : ys = xs := by
  obtain ⟨h1, h2⟩ := gaussLoop_spec indpb _ _ _ _ _ _ _ _ h
  apply List.ext_getElem h1
  intro i hi1 hi2
  rcases h2 i _ _ (List.getElem?_eq_getElem hi2) (List.getElem?_eq_getElem hi1) with e | ⟨g, hg, hlt, _⟩
  · exact e
  · exact absurd hlt (hno g hg)

/-- `mutESLogNormal`, any scalar: when no draw passes `random.random() < indpb`, genes and strategy stay -/
theorem lognLoop_id (indpb t0n t : α) {xs ss rs gs ys ts rrest grest : List α}
    (hno : ∀ g ∈ rs, ¬ g < indpb) (h : lognLoop indpb t0n t xs ss rs gs = .ok (ys, ts, rrest, grest)) :
    ys = xs ∧ ts = ss := by
  obtain ⟨h1, h2, h3, h4, h5⟩ := lognLoop_spec _ _ _ _ _ _ _ _ _ _ _ h
  constructor
  · apply List.ext_getElem h1
    intro i hi1 hi2
    by_cases hs : i < ss.length
    · rcases h4 i _ _ _ _ (List.getElem?_eq_getElem hi2) (List.getElem?_eq_getElem hs)
        (List.getElem?_eq_getElem hi1) (List.getElem?_eq_getElem (by omega)) with e | ⟨g, hg, hlt, _⟩
      · exact e.1
      · exact absurd hlt (hno g hg)
    · exact h3 i _ _ (List.getElem?_eq_getElem hi2) (List.getElem?_eq_getElem hi1) (by omega)
  · apply List.ext_getElem h2
    intro i hi1 hi2
    by_cases hx : i < xs.length
    · rcases h4 i _ _ _ _ (List.getElem?_eq_getElem hx) (List.getElem?_eq_getElem hi2)
        (List.getElem?_eq_getElem (by omega)) (List.getElem?_eq_getElem hi1) with e | ⟨g, hg, hlt, _⟩
      · exact e.2
      · exact absurd hlt (hno g hg)
    · have := h5 i (by omega)
      rw [List.getElem?_eq_getElem hi1, List.getElem?_eq_getElem hi2] at this
      exact Option.some.inj this

end RealOps

namespace RoundedOps
open XF RealOps

variable {A : Arith}

theorem xf_exp (a : XFA A) : (RealLike.exp a : XFA A) = ⟨A.expPy a.val⟩ := rfl

/-- a draw of `random.random()` (finite, `≥ 0`) never passes the test `< 0` -/
theorem not_lt_zero_of_unit {rs : List (XFA A)} (hr : DrawsUnit A rs) :
    ∀ g ∈ rs, ¬ g < (⟨fin 0⟩ : XFA A) := by
  intro g hg hlt
  obtain ⟨t, rfl, t0, _⟩ := hr g hg
  rw [xf_lt] at hlt
  simp only [lt_fin_fin] at hlt
  exact absurd hlt (not_lt.2 t0)

theorem lognMag_iff {M : Mag} {s a : Rat} {k : Nat} : lognMag M s a k = true ↔
    0 < s ∧ a ≤ M.expmax ∧ k ≤ M.kmax ∧ -(k : Rat) * ln2lo ≤ a ∧ M.tiny ≤ s / 2 ^ k := by
  simp only [lognMag, Bool.and_eq_true, decide_eq_true_eq]
  tauto

/-- `strategy * math.exp(arg)` (:240) for a finite argument under the magnitude hypothesis: no exception, and the
new strategy value is strictly positive (a finite number `≥ tiny`, or `+inf` when the product overflows) -/
theorem lognSigma_rounded (hA : A.Lawful) (hE : A.LawfulExp) {s a : Rat} {k : Nat}
    (hm : lognMag A.toMag s a k = true) (t0n t z : XFA A) (harg : (t0n + t * z).val = fin a) :
    (lognSigma (⟨fin s⟩ : XFA A) t0n t z).val = pinf ∨
      ∃ q, (lognSigma (⟨fin s⟩ : XFA A) t0n t z).val = fin q ∧ A.tiny ≤ q := by
  obtain ⟨hs, ha, hk, hka, htiny⟩ := lognMag_iff.1 hm
  obtain ⟨e, he⟩ := hE.exp_fin a ha
  have hge := hE.exp_ge_pow2 k a e hk hka he
  have hpy : A.expPy (fin a) = fin e := by simp only [Arith.expPy, he]
  have hval : (lognSigma (⟨fin s⟩ : XFA A) t0n t z).val = A.rnd (s * e) := by
    show A.mul (fin s) (A.expPy (t0n + t * z).val) = _
    rw [harg, hpy, mul_fin]
  rw [hval]
  have hp : (0 : Rat) < 2 ^ k := by positivity
  have : A.tiny ≤ s * e := by
    calc A.tiny ≤ s / 2 ^ k := htiny
      _ = s * (1 / 2 ^ k) := by ring
      _ ≤ s * e := mul_le_mul_of_nonneg_left hge hs.le
  exact rnd_ge hA hE.rep_tiny this

/-- the same as a strict comparison in the arithmetic: `0 < new strategy` -/
theorem lognSigma_rounded_pos (hA : A.Lawful) (hE : A.LawfulExp) {s a : Rat} {k : Nat}
    (hm : lognMag A.toMag s a k = true) (t0n t z : XFA A) (harg : (t0n + t * z).val = fin a) :
    XF.lt (fin 0) (lognSigma (⟨fin s⟩ : XFA A) t0n t z).val = true := by
  rcases lognSigma_rounded hA hE hm t0n t z harg with h | ⟨q, h, hq⟩
  · rw [h]; rfl
  · rw [h]; simp only [lt_fin_fin]; exact lt_of_lt_of_le hE.tiny_pos hq

/-- outside the hypothesis (1): when the product `strategy * exp(arg)` rounds to `0` — because `exp(arg)` itself
underflowed to `0` or because the strategy is tiny — the new strategy value is `0`, not positive -/
theorem lognSigma_underflow (hA : A.Lawful) {s a e : Rat} (t0n t z : XFA A) (harg : (t0n + t * z).val = fin a)
    (hexp : A.exp (fin a) = fin e) (hund : A.rnd (s * e) = fin 0) :
    (lognSigma (⟨fin s⟩ : XFA A) t0n t z).val = fin 0 := by
  have hpy : A.expPy (fin a) = fin e := by simp only [Arith.expPy, hexp]
  show A.mul (fin s) (A.expPy (t0n + t * z).val) = _
  rw [harg, hpy, mul_fin, hund]

/-- outside the hypothesis (2): when `exp(arg)` overflows, Python raises `OverflowError` (`nan` here) -/
theorem lognSigma_overflow {s a : Rat} (t0n t z : XFA A) (harg : (t0n + t * z).val = fin a)
    (hexp : A.exp (fin a) = pinf) : (lognSigma (⟨fin s⟩ : XFA A) t0n t z).val = nan := by
  have hpy : A.expPy (fin a) = nan := by simp only [Arith.expPy, hexp]
  show A.mul (fin s) (A.expPy (t0n + t * z).val) = _
  rw [harg, hpy]
  rfl

/-! ### the toy arithmetic has a lawful `exp` -/

theorem toy_lawfulExp : toy.LawfulExp where
  rep_tiny := by show toyRep (1 / 2 ^ 60) = true; norm_num [toyRep]
  tiny_pos := by show (0 : Rat) < 1 / 2 ^ 60; norm_num
  exp_fin x hx := by
    change x ≤ 41 at hx
    change ∃ e, toyExp (fin x) = fin e
    simp only [toyExp]
    rw [if_neg (not_lt.2 hx)]
    split
    · exact ⟨_, rfl⟩
    · split <;> exact ⟨_, rfl⟩
  exp_ge_pow2 k x e hk hkx he := by
    change k ≤ 60 at hk
    change toyExp (fin x) = fin e at he
    simp only [toyExp] at he
    have hkpos : (0 : Rat) < 2 ^ k := by positivity
    split at he
    · simp at he
    · split at he
      · simp at he
        rw [← he]
        rw [div_le_iff₀ hkpos]
        have : (1 : Rat) ≤ 2 ^ k := one_le_pow₀ (by norm_num)
        linarith
      · next hneg =>
        have hl : (0 : Rat) < ln2lo := by norm_num [ln2lo]
        have hle : (⌈-x / ln2lo⌉).toNat ≤ k := by
          rw [Int.toNat_le, Int.ceil_le]
          rw [div_le_iff₀ hl]
          push_cast
          linarith
        rw [if_pos (le_trans hle hk)] at he
        simp only [fin.injEq] at he
        rw [← he]
        apply one_div_le_one_div_of_le (by positivity)
        exact pow_le_pow_right₀ (by norm_num) hle

end RoundedOps

/-! ### `cxSimulatedBinary` (unbounded) under the rounded semantics: finite children -/
namespace RoundedOps
open XF RealOps

variable {A : Arith}

/-- product of a finite value of magnitude at most `c` with a finite number, the exact product at most the
representable `P` in magnitude -/
theorem mul_FinIn_abs (hA : A.Lawful) {x : XF} {c q P : Rat} (hx : FinIn x (-c) c) (hP : A.rep P = true)
    (hP' : A.rep (-P) = true) (h : c * |q| ≤ P) : FinIn (A.mul x (fin q)) (-P) P := by
  obtain ⟨p, rfl, p1, p2⟩ := hx
  rw [mul_fin]
  have hp : |p| ≤ c := abs_le.2 ⟨p1, p2⟩
  have : |p * q| ≤ P := by
    rw [abs_mul]
    exact le_trans (mul_le_mul_of_nonneg_right hp (abs_nonneg _)) h
  obtain ⟨a, b⟩ := abs_le.1 this
  exact rnd_in hA hP' hP a b

/-- the magnitudes of one locus of `cxSimulatedBinary`: `eta ≥ 0` with `eta + 1` finite, and two representable caps:
`C ≥ max(2, 1 + 1/(2 - 2 top))` bounds `1 ± beta`, `P ≥ C * max(|x1|, |x2|)` bounds the four products, `2 P ≤ omega`
(binary64: `C = 2^53`, `P = 2^(53+k)` for genes up to `2^k`, `k ≤ 969`: every gene up to `4.9e291` in magnitude) -/
structure SbxCaps (A : Arith) (eta x1 x2 C P : Rat) : Prop where
  eta0 : 0 ≤ eta
  eta1 : eta + 1 ≤ A.omega
  rep_htop : A.rep (1 - A.top) = true
  rep_B : A.rep (1 / (2 - 2 * A.top)) = true
  repC : A.rep C = true
  repC' : A.rep (-C) = true
  C2 : 2 ≤ C
  CB : 1 + 1 / (2 - 2 * A.top) ≤ C
  repP : A.rep P = true
  repP' : A.rep (-P) = true
  P1 : C * |x1| ≤ P
  P2 : C * |x2| ≤ P
  Pom : 2 * P ≤ A.omega

/-- the spread factor `beta` of `cxSimulatedBinary` (:279-283) is a finite number in `[0, C - 1]`: no zero divisor
(`1 - rand ≥ 1 - top > 0`), no negative base, no overflowing power -/
theorem sbxBeta_ok (hA : A.Lawful) {e r x1 x2 C P : Rat} (hc : SbxCaps A e x1 x2 C P) (hr0 : 0 ≤ r) (hr1 : r ≤ A.top) :
    FinIn (sbxBeta (⟨fin e⟩ : XFA A) ⟨fin r⟩).val 0 (C - 1) := by
  have hee := eta_one hA hc.eta0 hc.eta1
  have hme := mut_pow hA hee
  have htop := hA.top_lt
  xsimp [sbxBeta, xf_half hA]
  rw [apply_ite XFA.val]
  split
  · next hle =>
    have hle' : r ≤ 1 / 2 := by simpa using hle
    have hb : FinIn (A.mul (fin 2) (fin r)) 0 1 :=
      mul_FinIn hA (fin_FinIn 2) (⟨r, rfl, hr0, hle'⟩ : FinIn (fin r) 0 (1 / 2)) (by norm_num) (le_refl _) hA.rep_one
        (by norm_num)
    exact (pow_unit hA hb hme (le_refl _)).mono (le_refl _) (by linarith [hc.C2])
  · next hle =>
    have hgt : 1 / 2 < r := by
      have : ¬ r ≤ 1 / 2 := by simpa using hle
      exact not_le.1 this
    have hg : 0 < 2 - 2 * A.top := by linarith
    have hB1 : 1 ≤ 1 / (2 - 2 * A.top) := by
      rw [le_div_iff₀ hg]; linarith
    have h1 : FinIn (A.sub (fin 1) (fin r)) (1 - A.top) (1 / 2) :=
      sub_FinIn hA (fin_FinIn 1) (fin_FinIn r) hc.rep_htop hA.rep_half (by linarith) (by linarith)
    obtain ⟨d, hd, d1, d2⟩ := h1
    have h2 : FinIn (A.mul (fin 2) (fin d)) (2 - 2 * A.top) 1 := by
      rw [mul_fin]; exact rnd_in hA hA.rep_gap hA.rep_one (by linarith) (by linarith)
    have h3 : FinIn (A.div (fin 1) (A.mul (fin 2) (fin d))) 0 (1 / (2 - 2 * A.top)) :=
      div_FinIn hA (fin_FinIn 1) h2 (by norm_num) hg hc.rep_B (le_refl _)
    rw [hd]
    exact (pow_cap hA h3 hme hc.rep_B hB1).mono (le_refl _) (by linarith [hc.CB])

/-- both children of one locus of `cxSimulatedBinary` (:284-285) are finite numbers: no `inf - inf`, no `0 * inf`,
no overflow -/
theorem sbxPair_rounded (hA : A.Lawful) {e r x1 x2 C P : Rat} (hc : SbxCaps A e x1 x2 C P) (hr0 : 0 ≤ r)
    (hr1 : r ≤ A.top) :
    FinIn (sbxPair (⟨fin e⟩ : XFA A) ⟨fin x1⟩ ⟨fin x2⟩ ⟨fin r⟩).1.val (-A.omega) A.omega ∧
    FinIn (sbxPair (⟨fin e⟩ : XFA A) ⟨fin x1⟩ ⟨fin x2⟩ ⟨fin r⟩).2.val (-A.omega) A.omega := by
  have hb := sbxBeta_ok hA hc hr0 hr1
  have hC2 := hc.C2
  have hplus : FinIn (A.add (fin 1) (sbxBeta (⟨fin e⟩ : XFA A) ⟨fin r⟩).val) (-C) C :=
    (add_FinIn hA (fin_FinIn 1) hb hA.rep_one hc.repC (by norm_num) (by linarith)).mono (by linarith) (le_refl _)
  have hminus : FinIn (A.sub (fin 1) (sbxBeta (⟨fin e⟩ : XFA A) ⟨fin r⟩).val) (-C) C :=
    (sub_FinIn hA (fin_FinIn 1) hb hc.repC' hA.rep_one (by linarith) (by norm_num)).mono (le_refl _) (by linarith)
  have p11 := mul_FinIn_abs hA hplus hc.repP hc.repP' hc.P1
  have p12 := mul_FinIn_abs hA hminus hc.repP hc.repP' hc.P2
  have p21 := mul_FinIn_abs hA hminus hc.repP hc.repP' hc.P1
  have p22 := mul_FinIn_abs hA hplus hc.repP hc.repP' hc.P2
  have hPom := hc.Pom
  have s1 := add_FinIn hA p11 p12 hA.rep_neg_omega hA.rep_omega (by linarith) (by linarith)
  have s2 := add_FinIn hA p21 p22 hA.rep_neg_omega hA.rep_omega (by linarith) (by linarith)
  have hΩ : (0 : Rat) ≤ A.omega := le_trans (by norm_num) hA.omega_ge
  have halfmul : ∀ {s : XF}, FinIn s (-A.omega) A.omega → FinIn (A.mul (fin (1 / 2)) s) (-A.omega) A.omega := by
    intro s hs
    obtain ⟨q, rfl, q1, q2⟩ := hs
    rw [mul_fin]
    exact rnd_in hA hA.rep_neg_omega hA.rep_omega (by linarith) (by linarith)
  constructor
  · xsimp [sbxPair, xf_half hA]
    exact halfmul s1
  · xsimp [sbxPair, xf_half hA]
    exact halfmul s2

end RoundedOps
