/-
C18 helper lemmas, part E: dictionaries, header counting at the end of a history, the table of
registered statistics functions.
-/
import DeapModel.Lemmas.C18Hist
import DeapModel.Lemmas.C18Deep
import DeapModel.Lemmas.C18Shape
import DeapModel.Lemmas.C18Counts
import Mathlib.Data.List.Induction

set_option linter.unusedSimpArgs false
set_option linter.unusedVariables false
set_option linter.unusedSectionVars false

namespace C18L
open Logbook

/-- `dictUpdate` is Python's `dict.update`: the updating fields win, the others stay. -/
theorem dictGet_dictSet (d : Row) (k k' : Name) (v : Int) :
    dictGet (dictSet d k v) k' = if k' = k then some v else dictGet d k' := by
  induction d with
  | nil =>
    by_cases h : k' = k
    · subst h; simp [dictSet, dictGet, List.lookup]
    · have hb : (k' == k) = false := by simpa using h
      simp [dictSet, dictGet, List.lookup, h, hb]
  | cons p ps ih =>
    obtain ⟨a, b⟩ := p
    simp only [dictGet] at ih ⊢
    simp only [dictSet]
    by_cases hak : a = k
    · subst hak
      by_cases h : k' = a
      · subst h; simp [List.lookup]
      · have hb : (k' == a) = false := by simpa using h
        simp [List.lookup, h, hb]
    · by_cases h : k' = k
      · subst h
        have hb : (k' == a) = false := by simpa using Ne.symm hak
        simp [hak, List.lookup, hb, ih]
      · by_cases h2 : k' = a
        · subst h2; simp [hak, List.lookup, h]
        · have hb : (k' == a) = false := by simpa using h2
          simp [hak, List.lookup, hb, ih, h]

theorem dictGet_dictUpdate_of_not_mem (d e : Row) (k : Name) (h : k ∉ e.map (·.1)) :
    dictGet (dictUpdate d e) k = dictGet d k := by
  induction e generalizing d with
  | nil => rfl
  | cons p ps ih =>
    simp only [List.map_cons, List.mem_cons, not_or] at h
    have : dictUpdate d (p :: ps) = dictUpdate (dictSet d p.1 p.2) ps := rfl
    rw [this, ih _ h.2, dictGet_dictSet, if_neg h.1]

theorem map_some_inj {α : Type} {a b : List α} (h : a.map some = b.map some) : a = b := by
  induction a generalizing b with
  | nil => cases b <;> simp_all
  | cons x xs ih => cases b with
    | nil => simp at h
    | cons y ys => simp at h; rw [h.1, ih h.2]

def isStream : Op → Bool
  | .stream => true
  | _ => false

theorem isStream_iff (o : Op) : isStream o = true ↔ o = .stream := by
  cases o <;> simp [isStream]

theorem headerCount_snoc (ops : List Op) (o : Op) :
    headerCount (ops ++ [o]) = headerCount ops +
      (if isStream o && (stream (run ops)).1.header then 1 else 0) := by
  by_cases hs : o = .stream
  · subst hs
    simp only [headerCount, streams_snoc_stream, List.filter_append, List.length_append, isStream,
      Bool.true_and]
    by_cases hh : (stream (run ops)).1.header = true <;> simp [hh]
  · have : isStream o = false := by
      cases h : isStream o with
      | false => rfl
      | true => exact absurd ((isStream_iff o).1 h) hs
    simp [headerCount, streams_snoc_other ops o hs, this]

/-! ### histories over records with dictionaries inside dictionaries -/

/-- premise for one operation when every record carries the chapter tree `sh` (at every level) -/
def OpOkDeep (sh : Shape) (es : List Entry) : Op → Prop
  | .record e => Fits [] sh e
  | .delSlice idx => idx.Nodup ∧ ∀ i ∈ idx, i < es.length
  | _ => True

/-- `Valid` for nested dictionaries: every record of the history carries the chapter tree `sh` -/
def ValidDeep (sh : Shape) : List Entry → List Op → Prop
  | _, [] => True
  | es, o :: os => OpOkDeep sh es o ∧ ValidDeep sh (specStep es o) os

/-- streaming a chapter (at any depth) keeps the alignment w.r.t. the tree -/
theorem modifyAt_shaped (path : List Name) : ∀ (sh : Shape) (lb : LB), ShapedAligned sh lb →
    ShapedAligned sh (modifyAt (fun l => (stream l).2) path lb) := by
  induction path with
  | nil =>
    intro sh lb h
    obtain ⟨h1, h2, h3, _⟩ := stream_state lb
    exact h.congr (congrArg List.length h1) h2 (by
      show (Logbook.stream lb).2.buffindex ≤ (Logbook.stream lb).2.rows.length
      rw [h3, h1]; exact Nat.le_refl _)
  | cons n rest ih =>
    intro sh lb h
    obtain ⟨h1, h2, _, _, h5⟩ := modifyAt_cons_state n rest lb
    rw [shapedAligned_iff] at h ⊢
    rw [h1, h2, h5, keys_mapChapter]
    refine ⟨h.1, h.2.1, h.2.2.1, ?_⟩
    rw [kidsAligned_iff] at *
    intro q hq
    have := h.2.2.2 q hq
    rw [getChapter_mapChapter]
    by_cases hqn : q.1 = n
    · simp only [hqn, if_true]
      rw [hqn] at this
      cases hg : getChapter n lb.chapters with
      | none => simpa [hg] using this
      | some ch =>
        simp only [hg] at this
        simp only [Option.map_some]
        exact ⟨by rw [(modifyAt_stream_top rest ch).1]; exact this.1, ih q.2 ch this.2⟩
    · simpa [hqn] using this

structure RepDeep (sh : Shape) (lb : LB) (es : List Entry) : Prop where
  shaped : ShapedAligned sh lb
  rows : lb.rows = es.map Entry.scalars

theorem step_repDeep {sh : Shape} {lb : LB} {es : List Entry} (h : RepDeep sh lb es) (o : Op)
    (ho : OpOkDeep sh es o) : RepDeep sh (step lb o).1 (specStep es o) := by
  have hlen : lb.rows.length = es.length := by rw [h.rows, List.length_map]
  have hd : DeepAligned lb := shaped_deep sh lb h.shaped
  cases o with
  | record e =>
    exact ⟨record_shaped sh e [] lb ho h.shaped, by
      simp [step, specStep, Logbook.record, recordAux_rows, h.rows]⟩
  | select path names => exact h
  | str => exact h
  | streamAt c rest =>
    have hstep : (step lb (Op.streamAt c rest)).1 = modifyAt (fun l => (stream l).2) (c :: rest) lb := rfl
    simp only [specStep]; rw [hstep]
    exact ⟨modifyAt_shaped (c :: rest) sh lb h.shaped, by
      rw [(modifyAt_cons_state c rest lb).1]; exact h.rows⟩
  | stream =>
    obtain ⟨h1, h2, h3, _⟩ := stream_state lb
    exact ⟨h.shaped.congr (congrArg List.length h1) h2 (by
      show (Logbook.stream lb).2.buffindex ≤ (Logbook.stream lb).2.rows.length
      rw [h3, h1]; exact Nat.le_refl _), by simpa [step, specStep, h1] using h.rows⟩
  | pop i =>
    simp only [step, specStep]
    cases hp : pos? es.length i with
    | none => rw [pop_out_deep i lb hd (by rw [hlen]; exact hp)]; exact h
    | some p =>
      rw [pop_deep i p lb hd (by rw [hlen]; exact hp)]
      exact ⟨erase_shaped sh lb p h.shaped, by simp [eraseDeep_rows, h.rows, eraseIdx_map]⟩
  | delIndex i =>
    simp only [step, specStep]
    cases hp : pos? es.length i with
    | none => rw [delIndex_out lb i hd (by rw [hlen]; exact hp)]; exact h
    | some p =>
      rw [delIndex_deep lb i p hd (by rw [hlen]; exact hp)]
      exact ⟨erase_shaped sh lb p h.shaped, by simp [eraseDeep_rows, h.rows, eraseIdx_map]⟩
  | delSlice idx =>
    obtain ⟨h1, _⟩ := delEach_deep (sortDesc idx) (sortDesc_strict idx ho.1) lb hd
      (fun i hi => by rw [hlen]; exact ho.2 i ((mem_sortDesc i idx).1 hi))
    have he : Logbook.delSlice idx lb = (eraseAllDeep (sortDesc idx) lb, false) := h1
    simp only [step, specStep, he]
    exact ⟨eraseAll_shaped sh _ lb h.shaped, by
      rw [eraseAllDeep_rows, eraseAll_sortDesc idx ho.1, h.rows, removeIdx_map]⟩
  | pickle => simp only [step, specStep, pickle_eq]; exact h
  | setHeader hd' =>
    obtain ⟨h1, h2, h3, _⟩ := setHeader_state hd' lb
    exact ⟨h.shaped.congr (congrArg List.length h1) h2 (by
      show (Logbook.setHeader hd' lb).buffindex ≤ (Logbook.setHeader hd' lb).rows.length
      rw [h3, h1]; exact ((deepAligned_iff lb).1 hd).1), by simpa [step, specStep, h1] using h.rows⟩
  | setLogHeader f =>
    obtain ⟨h1, h2, h3⟩ := setLogHeader_state f lb
    exact ⟨h.shaped.congr (congrArg List.length h1) h2 (by
      show (Logbook.setLogHeader f lb).buffindex ≤ (Logbook.setLogHeader f lb).rows.length
      rw [h3, h1]; exact ((deepAligned_iff lb).1 hd).1), by simpa [step, specStep, h1] using h.rows⟩

theorem history_repDeep {sh : Shape} (ops : List Op) :
    ∀ {lb : LB} {es : List Entry}, RepDeep sh lb es → ValidDeep sh es ops →
      RepDeep sh (runFrom lb ops) (specRunFrom es ops) := by
  induction ops with
  | nil => intro lb es h _; exact h
  | cons o os ih =>
    intro lb es h hv
    exact ih (step_repDeep h o hv.1) hv.2

/-! ### `header_streamed` is never reset -/

theorem pop_headerStreamed (i : Int) (lb : LB) : (pop i lb).2.headerStreamed = lb.headerStreamed := by
  cases lb with
  | mk rows chs b h lh hs =>
    simp only [pop]
    split
    · rfl
    · split <;> rfl

theorem delIndex_headerStreamed (i : Int) (lb : LB) :
    (delIndex i lb).1.headerStreamed = lb.headerStreamed := by
  rw [delIndex_eq_pop]; exact pop_headerStreamed i lb

theorem delEach_headerStreamed (ds : List Nat) : ∀ (lb : LB),
    (delEach ds lb).1.headerStreamed = lb.headerStreamed := by
  induction ds with
  | nil => intro lb; rfl
  | cons i is ih =>
    intro lb
    simp only [delEach]
    have h1 := delIndex_headerStreamed (i : Int) lb
    rcases hx : delIndex (i : Int) lb with ⟨lb', fl⟩
    rw [hx] at h1
    cases fl with
    | true => exact h1
    | false => simp only; rw [ih lb']; exact h1

theorem record_headerStreamed (e : Entry) (lb : LB) :
    (record e lb).headerStreamed = lb.headerStreamed := by
  cases e; cases lb; simp [record, recordAux]

/-- no operation resets `header_streamed` -/
theorem step_headerStreamed (lb : LB) (o : Op) (h : lb.headerStreamed = true) :
    (step lb o).1.headerStreamed = true := by
  cases o with
  | record e => simp only [step]; rw [record_headerStreamed]; exact h
  | select path names => exact h
  | stream => simp only [step]; rw [(stream_header lb).2, h]; rfl
  | str => exact h
  | streamAt c rest =>
    have hstep : (step lb (Op.streamAt c rest)).1 = modifyAt (fun l => (stream l).2) (c :: rest) lb := rfl
    rw [hstep, (modifyAt_cons_state c rest lb).2.2.2.1]; exact h
  | pop i => simp only [step]; rw [pop_headerStreamed]; exact h
  | delIndex i => simp only [step]; rw [delIndex_headerStreamed]; exact h
  | delSlice idx => simp only [step, delSlice]; rw [delEach_headerStreamed]; exact h
  | pickle => simp only [step, pickle_eq]; exact h
  | setHeader hd => cases lb; simpa [step, setHeader] using h
  | setLogHeader f => cases lb; simpa [step, setLogHeader] using h

theorem run_snoc (ops : List Op) (o : Op) : run (ops ++ [o]) = (step (run ops) o).1 := by
  simp [run, runFrom, List.foldl_append]

/-- once a stream has carried the header, `header_streamed` is set -/
theorem headerStreamed_of_count (ops : List Op) : 1 ≤ headerCount ops →
    (run ops).headerStreamed = true := by
  induction ops using List.reverseRecOn with
  | nil => intro h; simp [headerCount, streams, streamsFrom] at h
  | append_singleton pre o ih =>
    intro h
    rw [run_snoc]
    rw [headerCount_snoc] at h
    by_cases hc : (isStream o && (stream (run pre)).1.header) = true
    · simp only [Bool.and_eq_true] at hc
      obtain rfl := (isStream_iff o).1 hc.1
      have hh := hc.2
      rw [(stream_header (run pre)).1] at hh
      simp only [step]
      rw [(stream_header (run pre)).2]
      simp only [Bool.and_eq_true] at hh
      simp [hh.2]
    · simp only [hc, Bool.false_eq_true, if_false, Nat.add_zero] at h
      exact step_headerStreamed _ o (ih h)

section Statistics
open Stats
variable {δ κ φ ρ : Type}

/-- a registration: name, function, frozen arguments -/
abbrev Reg (κ φ ρ : Type) := Name × (φ → List κ → ρ) × φ

def registerAll (s : Statistics δ κ φ ρ) (regs : List (Reg κ φ ρ)) : Statistics δ κ φ ρ :=
  regs.foldl (fun s r => Stats.register s r.1 r.2.1 r.2.2) s

theorem lookup_setFn (name n : Name) (v : φ × (φ → List κ → ρ))
    (fs : List (Name × (φ × (φ → List κ → ρ)))) :
    (setFn name v fs).lookup n = if n = name then some v else fs.lookup n := by
  induction fs with
  | nil =>
    by_cases h : n = name
    · subst h; simp [setFn, List.lookup]
    · have hb : (n == name) = false := by simpa using h
      simp [setFn, List.lookup, h, hb]
  | cons p ps ih =>
    obtain ⟨k, w⟩ := p
    simp only [setFn]
    by_cases hk : k = name
    · subst hk
      by_cases h : n = k
      · subst h; simp [List.lookup]
      · have hb : (n == k) = false := by simpa using h
        simp [List.lookup, h, hb]
    · by_cases h : n = name
      · subst h
        have hb : (n == k) = false := by simpa using Ne.symm hk
        simp [hk, List.lookup, hb, ih]
      · by_cases h2 : n = k
        · subst h2; simp [hk, List.lookup, h]
        · have hb : (n == k) = false := by simpa using h2
          simp [hk, List.lookup, hb, ih, h]

theorem registerAll_key (s : Statistics δ κ φ ρ) (regs : List (Reg κ φ ρ)) :
    (registerAll s regs).key = s.key := by
  induction regs generalizing s with
  | nil => rfl
  | cons r rs ih => simp only [registerAll, List.foldl_cons] at ih ⊢; rw [ih]; rfl

/-- the function stored under a name is the one of its LAST registration -/
theorem registerAll_lookup (s : Statistics δ κ φ ρ) (regs : List (Reg κ φ ρ)) (n : Name) :
    (registerAll s regs).functions.lookup n =
      match regs.reverse.find? (fun r => r.1 == n) with
      | some r => some (r.2.2, r.2.1)
      | none => s.functions.lookup n := by
  induction regs using List.reverseRecOn generalizing s with
  | nil => rfl
  | append_singleton rs r ih =>
    simp only [registerAll, List.foldl_append, List.foldl_cons, List.foldl_nil, List.reverse_append,
      List.reverse_cons, List.reverse_nil, List.nil_append, List.singleton_append, List.find?_cons]
    simp only [registerAll] at ih
    simp only [Stats.register, lookup_setFn]
    by_cases h : n = r.1
    · subst h; simp
    · have hb : (r.1 == n) = false := by simpa using Ne.symm h
      simp only [h, if_false, hb]
      exact ih s

end Statistics

end C18L
