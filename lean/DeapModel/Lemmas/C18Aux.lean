/-
C18 helper lemmas, part E: dictionaries, header counting at the end of a history, the table of
registered statistics functions.
-/
import DeapModel.Lemmas.C18Hist
import DeapModel.Lemmas.C18Deep
import Mathlib.Data.List.Induction

set_option linter.unusedSimpArgs false
set_option linter.unusedVariables false
set_option linter.unusedSectionVars false

namespace C18L
open Logbook

/-- `dictUpdate` is Python's `dict.update`: the updating fields win, the others stay. -/
theorem dictGet_dictSet (d : Row) (k k' : Name) (v : Int) :
    dictGet (dictSet d k v) k' = if k' = k then some v else dictGet d k' := by
  induction d with
  | nil =>
    by_cases h : k' = k
    · subst h; simp [dictSet, dictGet, List.lookup]
    · have hb : (k' == k) = false := by simpa using h
      simp [dictSet, dictGet, List.lookup, h, hb]
  | cons p ps ih =>
    obtain ⟨a, b⟩ := p
    simp only [dictGet] at ih ⊢
    simp only [dictSet]
    by_cases hak : a = k
    · subst hak
      by_cases h : k' = a
      · subst h; simp [List.lookup]
      · have hb : (k' == a) = false := by simpa using h
        simp [List.lookup, h, hb]
    · by_cases h : k' = k
      · subst h
        have hb : (k' == a) = false := by simpa using Ne.symm hak
        simp [hak, List.lookup, hb, ih]
      · by_cases h2 : k' = a
        · subst h2; simp [hak, List.lookup, h]
        · have hb : (k' == a) = false := by simpa using h2
          simp [hak, List.lookup, hb, ih, h]

theorem dictGet_dictUpdate_of_not_mem (d e : Row) (k : Name) (h : k ∉ e.map (·.1)) :
    dictGet (dictUpdate d e) k = dictGet d k := by
  induction e generalizing d with
  | nil => rfl
  | cons p ps ih =>
    simp only [List.map_cons, List.mem_cons, not_or] at h
    have : dictUpdate d (p :: ps) = dictUpdate (dictSet d p.1 p.2) ps := rfl
    rw [this, ih _ h.2, dictGet_dictSet, if_neg h.1]

theorem map_some_inj {α : Type} {a b : List α} (h : a.map some = b.map some) : a = b := by
  induction a generalizing b with
  | nil => cases b <;> simp_all
  | cons x xs ih => cases b with
    | nil => simp at h
    | cons y ys => simp at h; rw [h.1, ih h.2]

def isStream : Op → Bool
  | .stream => true
  | _ => false

theorem isStream_iff (o : Op) : isStream o = true ↔ o = .stream := by
  cases o <;> simp [isStream]

theorem headerCount_snoc (ops : List Op) (o : Op) :
    headerCount (ops ++ [o]) = headerCount ops +
      (if isStream o && (stream (run ops)).1.header then 1 else 0) := by
  by_cases hs : o = .stream
  · subst hs
    simp only [headerCount, streams_snoc_stream, List.filter_append, List.length_append, isStream,
      Bool.true_and]
    by_cases hh : (stream (run ops)).1.header = true <;> simp [hh]
  · have : isStream o = false := by
      cases h : isStream o with
      | false => rfl
      | true => exact absurd ((isStream_iff o).1 h) hs
    simp [headerCount, streams_snoc_other ops o hs, this]

section Statistics
open Stats
variable {δ κ φ ρ : Type}

/-- a registration: name, function, frozen arguments -/
abbrev Reg (κ φ ρ : Type) := Name × (φ → List κ → ρ) × φ

def registerAll (s : Statistics δ κ φ ρ) (regs : List (Reg κ φ ρ)) : Statistics δ κ φ ρ :=
  regs.foldl (fun s r => Stats.register s r.1 r.2.1 r.2.2) s

theorem lookup_setFn (name n : Name) (v : φ × (φ → List κ → ρ))
    (fs : List (Name × (φ × (φ → List κ → ρ)))) :
    (setFn name v fs).lookup n = if n = name then some v else fs.lookup n := by
  induction fs with
  | nil =>
    by_cases h : n = name
    · subst h; simp [setFn, List.lookup]
    · have hb : (n == name) = false := by simpa using h
      simp [setFn, List.lookup, h, hb]
  | cons p ps ih =>
    obtain ⟨k, w⟩ := p
    simp only [setFn]
    by_cases hk : k = name
    · subst hk
      by_cases h : n = k
      · subst h; simp [List.lookup]
      · have hb : (n == k) = false := by simpa using h
        simp [List.lookup, h, hb]
    · by_cases h : n = name
      · subst h
        have hb : (n == k) = false := by simpa using Ne.symm hk
        simp [hk, List.lookup, hb, ih]
      · by_cases h2 : n = k
        · subst h2; simp [hk, List.lookup, h]
        · have hb : (n == k) = false := by simpa using h2
          simp [hk, List.lookup, hb, ih, h]

theorem registerAll_key (s : Statistics δ κ φ ρ) (regs : List (Reg κ φ ρ)) :
    (registerAll s regs).key = s.key := by
  induction regs generalizing s with
  | nil => rfl
  | cons r rs ih => simp only [registerAll, List.foldl_cons] at ih ⊢; rw [ih]; rfl

/-- the function stored under a name is the one of its LAST registration -/
theorem registerAll_lookup (s : Statistics δ κ φ ρ) (regs : List (Reg κ φ ρ)) (n : Name) :
    (registerAll s regs).functions.lookup n =
      match regs.reverse.find? (fun r => r.1 == n) with
      | some r => some (r.2.2, r.2.1)
      | none => s.functions.lookup n := by
  induction regs using List.reverseRecOn generalizing s with
  | nil => rfl
  | append_singleton rs r ih =>
    simp only [registerAll, List.foldl_append, List.foldl_cons, List.foldl_nil, List.reverse_append,
      List.reverse_cons, List.reverse_nil, List.nil_append, List.singleton_append, List.find?_cons]
    simp only [registerAll] at ih
    simp only [Stats.register, lookup_setFn]
    by_cases h : n = r.1
    · subst h; simp
    · have hb : (r.1 == n) = false := by simpa using Ne.symm h
      simp only [h, if_false, hb]
      exact ih s

end Statistics

end C18L
