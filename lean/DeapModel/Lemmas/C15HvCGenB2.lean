import DeapModel.Lemmas.C15HvCGen0
/-!
C15 — the general case of `hv_recursive` in `_hv.c`, second phase: pure-logic lemmas about the invariant parts
`CVc` / `DMc` / `IGc` when the node set or the bounds change (no code in this file).
-/
namespace HvC
set_option linter.unusedVariables false
open Hypervolume
open HvSweep (GCtx Hj RL preSet pos ARv VOLv ids Shaped)

section ctx
variable {C : Cargo} {R : List ℚ} {d n : ℕ} {O : ℕ → List ℕ}

/-! ### the static orders in terms of the untranslated cargo -/

theorem CCtx.cg_le_of_pos (c : CCtx C R d n O) {i : ℕ} (hi : i < d) {a b : ℕ} (ha : a ∈ ids n) (hb : b ∈ ids n)
    (h : pos O i b ≤ pos O i a) : cg C b i ≤ cg C a i := by
  exact c.le_of_pos hi ha hb h

theorem CCtx.pos_lt_of_cg_lt (c : CCtx C R d n O) {i : ℕ} (hi : i < d) {a b : ℕ} (ha : a ∈ ids n) (hb : b ∈ ids n)
    (h : cg C a i < cg C b i) : pos O i a < pos O i b := by
  exact c.pos_lt_of_lt hi ha hb h

/-- a `DomC` witness is at most the node in every coordinate `0 .. m` -/
theorem domC_cg_le (c : CCtx C R d n O) {m b q : ℕ} (hb : b ∈ ids n) (hq : q ∈ ids n) (hd : DomC C O m b q) :
    ∀ i, i ≤ m → i < d → cg C b i ≤ cg C q i := by
  intro i him hid
  rcases Nat.lt_or_ge i 2 with h2 | h2
  · rcases Nat.eq_zero_or_pos i with rfl | hpos
    · exact hd.2.1
    · have : i = 1 := by omega
      subst this
      exact hd.2.2.1
  · exact c.cg_le_of_pos hid hq hb (le_of_lt (hd.2.2.2 i h2 him))

theorem domC_mono {m m' b q : ℕ} (h : m' ≤ m) (hd : DomC C O m b q) : DomC C O m' b q :=
  ⟨hd.1, hd.2.1, hd.2.2.1, fun j hj1 hjm => hd.2.2.2 j hj1 (by omega)⟩

/-! ### frames and congruences -/

theorem cvc_frame {S T : St} {K : ℕ} {A : List ℕ}
    (h1 : ∀ a i, i < K → ar T a i = ar S a i) (h2 : ∀ a i, i < K → vl T a i = vl S a i)
    (h3 : ∀ i, i < K → T.bound.getD i none = S.bound.getD i none) (hcv : CVc C R O S K A) :
    CVc C R O T K A := by
  intro j hj1 hjK a ha b hb hlt
  rw [h3 (j + 1) hjK] at hb
  rw [h1 a (j + 1) hjK, h2 a (j + 1) hjK]
  exact hcv j hj1 hjK a ha b hb hlt

theorem cvc_mono_level {S : St} {K K' : ℕ} {A : List ℕ} (h : K' ≤ K) (hcv : CVc C R O S K A) :
    CVc C R O S K' A :=
  fun j hj1 hjK => hcv j hj1 (by omega)

theorem cvc_congr_set {S : St} {K : ℕ} {A B : List ℕ} (h : ∀ a, a ∈ A ↔ a ∈ B) (hcv : CVc C R O S K A) :
    CVc C R O S K B := by
  intro j hj1 hjK a ha b hb hlt
  obtain ⟨e1, e2⟩ := hcv j hj1 hjK a ((h a).mpr ha) b hb hlt
  rw [e1, e2]
  exact ⟨HvSweep.ARv_congr O j A B a (fun b0 _ => h b0), HvSweep.VOLv_congr O j A B a (fun b0 _ => h b0)⟩

theorem igc_congr_set {S : St} {A B : List ℕ} (h : ∀ a, a ∈ A ↔ a ∈ B) (hig : IGc C O S A) : IGc C O S B := by
  intro q hq hm
  obtain ⟨b, hb, hd⟩ := hig q ((h q).mpr hq) hm
  exact ⟨b, (h b).mp hb, hd⟩

theorem igc_frame {S T : St} {A : List ℕ} (h : ∀ a ∈ A, ign T a = ign S a) (hig : IGc C O S A) : IGc C O T A := by
  intro q hq hm
  rw [h q hq] at hm ⊢
  exact hig q hq hm

theorem dmc_congr_set {S : St} {A B : List ℕ} (h : ∀ a, a ∈ A ↔ a ∈ B) (hdm : DMc C O S A) : DMc C O S B := by
  intro a ha b hb hlt
  obtain ⟨e1, e2, e3⟩ := hdm a ((h a).mpr ha) b hb hlt
  refine ⟨e1, fun q hq => e2 q ((h q).mpr hq), fun hd => ?_⟩
  obtain ⟨q, hq, hq2⟩ := e3 hd
  exact ⟨q, (h q).mp hq, hq2⟩

theorem dmc_frame {S T : St} {A : List ℕ} (hdr : ∀ a, dr T a = dr S a)
    (hb : T.bound.getD 2 none = S.bound.getD 2 none) (hdm : DMc C O S A) : DMc C O T A := by
  intro a ha b hb' hlt
  rw [hb] at hb'
  rw [hdr a]
  exact hdm a ha b hb' hlt

/-! ### `reinsert` of an unmarked node `x`: the bounds `2 .. dim-1` drop to at most the coordinates of `x` -/

/-- port of `HvSweep.cv_change` -/
theorem cvc_reinsert (c : CCtx C R d n O) {S T : St} {x dim K : ℕ} (hK : K ≤ dim) (hdim : dim ≤ d)
    (har : ∀ a i, ar T a i = ar S a i) (hvl : ∀ a i, vl T a i = vl S a i)
    (hb : ∀ i, 2 ≤ i → i < dim → ∀ b', T.bound.getD i none = some b' →
      ∃ b, S.bound.getD i none = some b ∧ b' ≤ b ∧ b' ≤ cg C x i)
    {A B : List ℕ} (hx : x ∈ ids n) (hA : ∀ a ∈ A, a ∈ ids n) (hB : ∀ a ∈ B, a ∈ ids n)
    (hAB : ∀ a, a ≠ x → (a ∈ A ↔ a ∈ B)) (hcv : CVc C R O S K A) : CVc C R O T K B := by
  intro j hj1 hjK a ha b' hb' hlt
  have hjk : j + 1 < dim := by omega
  have hjd : j + 1 < d := by omega
  obtain ⟨b, hb0, hb'b, hb'x⟩ := hb (j + 1) (by omega) hjk b' hb'
  have hax : a ≠ x := by
    intro e; rw [e] at hlt; linarith
  have haA : a ∈ A := (hAB a hax).mpr ha
  obtain ⟨e1, e2⟩ := hcv j hj1 hjK a haA b hb0 (lt_of_lt_of_le hlt hb'b)
  have hpos : pos O (j + 1) a < pos O (j + 1) x :=
    c.pos_lt_of_cg_lt hjd (hB a ha) hx (lt_of_lt_of_le hlt hb'x)
  have hsame : ∀ b0, pos O (j + 1) b0 ≤ pos O (j + 1) a → (b0 ∈ A ↔ b0 ∈ B) := by
    intro b0 hb0
    apply hAB
    intro e; rw [e] at hb0; omega
  rw [har, hvl, e1, e2]
  exact ⟨HvSweep.ARv_congr O j A B a hsame, HvSweep.VOLv_congr O j A B a hsame⟩

theorem dmc_reinsert {S T : St} {x : ℕ} (hdr : ∀ a, dr T a = dr S a)
    (hb : ∀ b', T.bound.getD 2 none = some b' → ∃ b, S.bound.getD 2 none = some b ∧ b' ≤ b ∧ b' ≤ cg C x 2)
    {A B : List ℕ} (hAB : ∀ a, a ≠ x → (a ∈ A ↔ a ∈ B)) (hdm : DMc C O S A) : DMc C O T B := by
  intro a ha b' hb' hlt
  obtain ⟨b, hb0, hb'b, hb'x⟩ := hb b' hb'
  have hax : a ≠ x := by
    intro e; rw [e] at hlt; linarith
  have haA : a ∈ A := (hAB a hax).mpr ha
  obtain ⟨e1, e2, e3⟩ := hdm a haA b hb0 (lt_of_lt_of_le hlt hb'b)
  rw [hdr a]
  refine ⟨e1, ?_, ?_⟩
  · intro q hq hqb hbt
    have hqx : q ≠ x := by
      intro e; rw [e] at hqb; linarith
    exact e2 q ((hAB q hqx).mpr hq) (lt_of_lt_of_le hqb hb'b) hbt
  · intro hlt2
    obtain ⟨q, hq, hbt, hq2⟩ := e3 (lt_of_lt_of_le hlt2 hb'b)
    have hqx : q ≠ x := by
      intro e; rw [e] at hq2; linarith
    exact ⟨q, (hAB q hqx).mp hq, hbt, hq2⟩

/-! ### `reinsert_dom` of a node `p` dominated by a present node `w` -/

/-- a dominated top node adds nothing to the area of its level: `AR(q) = AR(prev)` (port of `HvSweep.ARv_of_dominated`) -/
theorem ARv_of_domC (c : CCtx C R d n O) (j : ℕ) (hj1 : 1 ≤ j) (hj : j + 1 < d) (A : List ℕ)
    (hA : ∀ a ∈ A, a ∈ ids n) (l₁ l₂ : List ℕ) (a q : ℕ) (hL : RL O (j + 1) A = l₁ ++ a :: q :: l₂)
    (b m : ℕ) (hbA : b ∈ A) (hm : j + 1 ≤ m) (hd : DomC C O m b q) :
    ARv R (spt C R) O j A q = ARv R (spt C R) O j A a := by
  have hL' : RL O (j + 1) A = (l₁ ++ [a]) ++ q :: l₂ := by rw [hL]; simp
  have hm1 := HvSweep.mem_preSet_of_split c.g hj A hA l₁ (q :: l₂) a hL
  have hm2 := HvSweep.mem_preSet_of_split c.g hj A hA (l₁ ++ [a]) l₂ q hL'
  have hqL : q ∈ RL O (j + 1) A := by rw [hL]; simp
  have hqA : q ∈ A := ((HvSweep.mem_RL O (j + 1) A q).mp hqL).2
  have hqI := hA q hqA
  have hbI := hA b hbA
  have hbpos : pos O (j + 1) b < pos O (j + 1) q := hd.2.2.2 (j + 1) (by omega) hm
  have hbpre : b ∈ preSet O (j + 1) A a := by
    have : b ∈ preSet O (j + 1) A q := (HvSweep.mem_preSet O (j + 1) A q b).mpr ⟨hbA, le_of_lt hbpos⟩
    have := (hm2 b).mp this
    rcases List.mem_append.mp this with h | h
    · exact (hm1 b).mpr h
    · simp at h; exact absurd h hd.1
  have hmem : ∀ c0, c0 ∈ preSet O (j + 1) A q ↔ c0 ∈ q :: preSet O (j + 1) A a := by
    intro c0
    rw [hm2 c0, List.mem_cons, hm1 c0]
    simp only [List.mem_append, List.mem_singleton]
    tauto
  unfold HvSweep.ARv
  rw [HvSweep.Hj_congr R (spt C R) j _ _ hmem]
  apply HvSweep.Hj_dominated c.g j (by omega) _ b q hbpre
  intro i hi
  have := domC_cg_le c hbI hqI hd i (by omega) (by omega)
  exact c.spt_mono hbI hqI (by omega) this

/-- inserting a node `p` dominated (coordinates `0 .. jj+1`, preceded in `O (jj+1)`) by `w ∈ cur` changes no ideal cache value -/
theorem caches_insert_dom (c : CCtx C R d n O) (jj : ℕ) (hjj : jj + 1 < d) (cur B : List ℕ) (p w : ℕ)
    (hB : ∀ a, a ∈ B ↔ a = p ∨ a ∈ cur) (hcur : ∀ a ∈ cur, a ∈ ids n) (hp : p ∈ ids n) (hw : w ∈ cur)
    (hle : ∀ i, i ≤ jj + 1 → cg C w i ≤ cg C p i) (hpos : pos O (jj + 1) w < pos O (jj + 1) p) (a : ℕ) :
    ARv R (spt C R) O jj B a = ARv R (spt C R) O jj cur a ∧
      VOLv (stc C R) R (spt C R) O jj B a = VOLv (stc C R) R (spt C R) O jj cur a := by
  have key : Hj R (spt C R) jj (preSet O (jj + 1) B a) = Hj R (spt C R) jj (preSet O (jj + 1) cur a) ∧
      Hj R (spt C R) (jj + 1) (preSet O (jj + 1) B a) = Hj R (spt C R) (jj + 1) (preSet O (jj + 1) cur a) := by
    rcases Nat.lt_or_ge (pos O (jj + 1) a) (pos O (jj + 1) p) with hpa | hpa
    · have hmem : ∀ b, b ∈ preSet O (jj + 1) B a ↔ b ∈ preSet O (jj + 1) cur a := by
        intro b
        rw [HvSweep.mem_preSet, HvSweep.mem_preSet, hB b]
        constructor
        · rintro ⟨h1 | h1, h2⟩
          · rw [h1] at h2; omega
          · exact ⟨h1, h2⟩
        · rintro ⟨h1, h2⟩
          exact ⟨Or.inr h1, h2⟩
      exact ⟨HvSweep.Hj_congr R (spt C R) jj _ _ hmem, HvSweep.Hj_congr R (spt C R) (jj + 1) _ _ hmem⟩
    · have hmem : ∀ b, b ∈ preSet O (jj + 1) B a ↔ b ∈ p :: preSet O (jj + 1) cur a := by
        intro b
        rw [List.mem_cons, HvSweep.mem_preSet, HvSweep.mem_preSet, hB b]
        constructor
        · rintro ⟨h1 | h1, h2⟩
          · exact Or.inl h1
          · exact Or.inr ⟨h1, h2⟩
        · rintro (h1 | ⟨h1, h2⟩)
          · rw [h1]; exact ⟨Or.inl rfl, hpa⟩
          · exact ⟨Or.inr h1, h2⟩
      have hwpre : w ∈ preSet O (jj + 1) cur a :=
        (HvSweep.mem_preSet O (jj + 1) cur a w).mpr ⟨hw, by omega⟩
      rw [HvSweep.Hj_congr R (spt C R) jj _ _ hmem, HvSweep.Hj_congr R (spt C R) (jj + 1) _ _ hmem]
      exact ⟨HvSweep.Hj_dominated c.g jj (by omega) _ w p hwpre
          (fun i hi => c.spt_mono (hcur w hw) hp (by omega) (hle i (by omega))),
        HvSweep.Hj_dominated c.g (jj + 1) hjj _ w p hwpre
          (fun i hi => c.spt_mono (hcur w hw) hp (by omega) (hle i hi))⟩
  unfold HvSweep.VOLv HvSweep.ARv
  rw [key.1, key.2]
  exact ⟨rfl, rfl⟩

/-- cache validity after `reinsert_dom` of `p` (witness `w ∈ cur` of its mark `m`): the caches of the other nodes are
untouched and stay ideal, the caches of `p` at the levels `2 .. K-1` are computed from those of its predecessor -/
theorem cvc_insert_dom (c : CCtx C R d n O) {S T : St} {K m : ℕ} (hKd : K ≤ d) (hKm : K ≤ m + 1) (cur B : List ℕ) (p w : ℕ)
    (hB : ∀ a, a ∈ B ↔ a = p ∨ a ∈ cur) (hpc : p ∉ cur) (hcur : ∀ a ∈ cur, a ∈ ids n) (hp : p ∈ ids n) (hpg : ∀ i < d, cg C p i < rf R i) (hw : w ∈ cur)
    (hdom : DomC C O m w p)
    (hbd : ∀ i, i < K → T.bound.getD i none = S.bound.getD i none)
    (hold : ∀ a i, a ≠ p → i < K → ar T a i = ar S a i ∧ vl T a i = vl S a i)
    (hnew : ∀ i, 2 ≤ i → i < K → ∃ pr l₁ l₂, RL O i B = l₁ ++ pr :: p :: l₂ ∧ ar T p i = ar S pr i ∧
      vl T p i = vl S pr i + ar S pr i * (cg C p i - cg C pr i))
    (hcv : CVc C R O S K cur) : CVc C R O T K B := by
  intro j hj1 hjK a ha b hb hlt
  have hjd : j + 1 < d := by omega
  have hjm : j + 1 ≤ m := by omega
  have hwI : w ∈ ids n := hcur w hw
  have hwB : w ∈ B := (hB w).mpr (Or.inr hw)
  have hBI : ∀ a ∈ B, a ∈ ids n := by
    intro a0 ha0
    rcases (hB a0).mp ha0 with h | h
    · rw [h]; exact hp
    · exact hcur a0 h
  have hle : ∀ i, i ≤ j + 1 → cg C w i ≤ cg C p i :=
    fun i hi => domC_cg_le c hwI hp hdom i (by omega) (by omega)
  have hpos : pos O (j + 1) w < pos O (j + 1) p := hdom.2.2.2 (j + 1) (by omega) hjm
  have hci := fun a0 => caches_insert_dom c j hjd cur B p w hB hcur hp hw hle hpos a0
  rw [hbd (j + 1) hjK] at hb
  by_cases hap : a = p
  · rw [hap] at hlt ⊢
    obtain ⟨pr, l₁, l₂, hL, ea, ev⟩ := hnew (j + 1) (by omega) hjK
    have hL' : RL O (j + 1) B = (l₁ ++ [pr]) ++ p :: l₂ := by rw [hL]; simp
    obtain ⟨hp1, _⟩ := HvSweep.pos_lt_of_split O (j + 1) (c.g.nodup hjd) (RL O (j + 1) B) (l₁ ++ [pr]) l₂ p
      (HvSweep.RL_sublist O (j + 1) B) hL'
    have hprpos : pos O (j + 1) pr < pos O (j + 1) p := hp1 pr (by simp)
    have hprL : pr ∈ RL O (j + 1) B := by rw [hL]; simp
    have hprB : pr ∈ B := ((HvSweep.mem_RL O (j + 1) B pr).mp hprL).2
    have hprp : pr ≠ p := by
      intro e; rw [e] at hprpos; omega
    have hprcur : pr ∈ cur := by
      rcases (hB pr).mp hprB with h | h
      · exact absurd h hprp
      · exact h
    have hprI : pr ∈ ids n := hcur pr hprcur
    have hcgle : cg C pr (j + 1) ≤ cg C p (j + 1) := c.cg_le_of_pos hjd hp hprI (le_of_lt hprpos)
    obtain ⟨e1, e2⟩ := hcv j hj1 hjK pr hprcur b hb (lt_of_le_of_lt hcgle hlt)
    have hA := ARv_of_domC c j hj1 hjd B hBI l₁ l₂ pr p hL w m hwB hjm hdom
    have hV := HvSweep.caches_step c.g j hjd B hBI l₁ l₂ pr p hL
    rw [c.cg_tr hp hjd (hpg _ hjd).le, c.cg_tr hprI hjd (hcgle.trans (hpg _ hjd).le)] at hV
    rw [ea, ev, e1, e2, ← (hci pr).1, ← (hci pr).2, hA, hV]
    refine ⟨rfl, ?_⟩
    ring
  · have hacur : a ∈ cur := by
      rcases (hB a).mp ha with h | h
      · exact absurd h hap
      · exact h
    obtain ⟨o1, o2⟩ := hold a (j + 1) hap hjK
    obtain ⟨e1, e2⟩ := hcv j hj1 hjK a hacur b hb hlt
    rw [o1, o2, e1, e2]
    exact ⟨(hci a).1.symm, (hci a).2.symm⟩

theorem dmc_insert_dom (c : CCtx C R d n O) {S T : St} {m : ℕ} (hm : 2 ≤ m) (cur B : List ℕ) (p w : ℕ)
    (hB : ∀ a, a ∈ B ↔ a = p ∨ a ∈ cur) (hcur : ∀ a ∈ cur, a ∈ ids n) (hp : p ∈ ids n) (hw : w ∈ cur)
    (hdom : DomC C O m w p) (hdr : ∀ a, dr T a = dr S a) (hbd : T.bound.getD 2 none = S.bound.getD 2 none)
    (hpdr : dr S p = cg C p 2) (hdm : DMc C O S cur) : DMc C O T B := by
  intro a ha b hb hlt
  rw [hbd] at hb
  rw [hdr a]
  have hd2 : 2 < d := c.hd
  have hwI : w ∈ ids n := hcur w hw
  have hwB : w ∈ B := (hB w).mpr (Or.inr hw)
  have hposwp : pos O 2 w < pos O 2 p := hdom.2.2.2 2 le_rfl hm
  have hw2 : cg C w 2 ≤ cg C p 2 := domC_cg_le c hwI hp hdom 2 hm hd2
  have hwp0 : cg C w 0 ≤ cg C p 0 := hdom.2.1
  have hwp1 : cg C w 1 ≤ cg C p 1 := hdom.2.2.1
  by_cases hap : a = p
  · rw [hap, hpdr]
    refine ⟨le_refl _, fun q _ _ _ => le_max_left _ _, fun _ => ?_⟩
    exact ⟨w, hwB, ⟨hdom.1, hwp0, hwp1, fun _ => hposwp⟩, hw2⟩
  · have hacur : a ∈ cur := by
      rcases (hB a).mp ha with h | h
      · exact absurd h hap
      · exact h
    obtain ⟨e1, e2, e3⟩ := hdm a hacur b hb hlt
    refine ⟨e1, ?_, ?_⟩
    · intro q hq hqb hbt
      rcases (hB q).mp hq with h | h
      · rw [h] at hqb hbt ⊢
        obtain ⟨_, hpa0, hpa1, hpapos⟩ := hbt
        have hbw : Beats C O w a := by
          refine ⟨?_, le_trans hwp0 hpa0, le_trans hwp1 hpa1, ?_⟩
          · intro e
            have h0 : cg C p 0 = cg C a 0 := le_antisymm hpa0 (by rw [← e]; exact hwp0)
            have h1 : cg C p 1 = cg C a 1 := le_antisymm hpa1 (by rw [← e]; exact hwp1)
            have hit : item C p = item C a := by unfold item; rw [h0, h1]
            have := hpapos hit
            rw [← e] at this
            omega
          · intro hit
            have hw0 : cg C w 0 = cg C a 0 := congrArg Prod.fst hit
            have hw1 : cg C w 1 = cg C a 1 := congrArg Prod.snd hit
            have h0 : cg C p 0 = cg C a 0 := le_antisymm hpa0 (by rw [← hw0]; exact hwp0)
            have h1 : cg C p 1 = cg C a 1 := le_antisymm hpa1 (by rw [← hw1]; exact hwp1)
            have hit' : item C p = item C a := by unfold item; rw [h0, h1]
            have := hpapos hit'
            omega
        exact le_trans (e2 w hw (lt_of_le_of_lt hw2 hqb) hbw) (max_le_max (le_refl _) hw2)
      · exact e2 q h hqb hbt
    · intro hlt2
      obtain ⟨q, hq, hbt, hq2⟩ := e3 hlt2
      exact ⟨q, (hB q).mpr (Or.inr hq), hbt, hq2⟩

end ctx

end HvC
