/-
C16 — lemmas about instantiation (`newInst` / `instAttrs` / `create`).
-/
import DeapModel.Core.Heap
import DeapModel.Lemmas.C16Defs

namespace Heap

/-! ### Allocation-only state extensions -/

/-- Nothing is allocated at or beyond the allocation counter. -/
def Bounded (st : State) : Prop := ∀ x, st.next ≤ x → st.objs x = none

/-- A child value of an object allocated in `[lo, hi)`: a reference into `[lo, hi)` to a defined
object, or (only if `A` holds) an atom. -/
def ChildIn (A : Prop) (objs : Oid → Option Obj) (lo hi : Nat) : Val → Prop
  | .atom _ => A
  | .ref y => lo ≤ y ∧ y < hi ∧ (objs y).isSome = true

theorem ChildIn.mono {A : Prop} {objs objs' : Oid → Option Obj} {lo hi lo' hi' : Nat} {c : Val}
    (h : ChildIn A objs lo hi c) (hlo : lo' ≤ lo) (hhi : hi ≤ hi')
    (hobjs : ∀ y, lo ≤ y → y < hi → (objs y).isSome = true → (objs' y).isSome = true) :
    ChildIn A objs' lo' hi' c := by
  cases c with
  | atom a => exact h
  | ref y =>
    obtain ⟨h1, h2, h3⟩ := h
    exact ⟨Nat.le_trans hlo h1, Nat.lt_of_lt_of_le h2 hhi, hobjs y h1 h2 h3⟩

theorem ChildIn.weaken {A B : Prop} {objs : Oid → Option Obj} {lo hi : Nat} {c : Val}
    (h : ChildIn A objs lo hi c) (hab : A → B) : ChildIn B objs lo hi c := by
  cases c with
  | atom a => exact hab h
  | ref y => exact h

/-- `st'` arises from `st` by allocation only: the memo is untouched, old slots (also reserved,
still undefined ones below `st.next`) keep their content, nothing lies beyond the new counter, and
every object in a slot `≥ st.next` refers only to defined objects allocated in `[st.next, st'.next)`
(atoms are allowed as children only if `A`). -/
structure Ext (A : Prop) (st st' : State) : Prop where
  memo : st'.memo = st.memo
  le : st.next ≤ st'.next
  old : ∀ x, x < st.next → st'.objs x = st.objs x
  bound : Bounded st'
  closed : ∀ x o, st.next ≤ x → st'.objs x = some o →
    ∀ c ∈ o.children, ChildIn A st'.objs st.next st'.next c

theorem Ext.refl {A : Prop} {st : State} (hb : Bounded st) : Ext A st st where
  memo := rfl
  le := Nat.le_refl _
  old := fun _ _ => rfl
  bound := hb
  closed := by
    intro x o hx ho
    rw [hb x hx] at ho
    cases ho

theorem Ext.weaken {A B : Prop} {st st' : State} (h : Ext A st st') (hab : A → B) :
    Ext B st st' where
  memo := h.memo
  le := h.le
  old := h.old
  bound := h.bound
  closed := fun x o hx ho c hc => (h.closed x o hx ho c hc).weaken hab

theorem Ext.trans {A : Prop} {st st1 st2 : State} (h1 : Ext A st st1) (h2 : Ext A st1 st2) :
    Ext A st st2 where
  memo := h2.memo.trans h1.memo
  le := Nat.le_trans h1.le h2.le
  old := fun x hx => (h2.old x (Nat.lt_of_lt_of_le hx h1.le)).trans (h1.old x hx)
  bound := h2.bound
  closed := by
    intro x o hx ho c hc
    by_cases hx1 : x < st1.next
    · rw [h2.old x hx1] at ho
      refine (h1.closed x o hx ho c hc).mono (Nat.le_refl _) h2.le ?_
      intro y _ hy2 hy3
      rw [h2.old y hy2]; exact hy3
    · exact (h2.closed x o (Nat.le_of_not_lt hx1) ho c hc).mono h1.le (Nat.le_refl _)
        (fun _ _ _ h => h)

theorem define_same (objs : Oid → Option Obj) (x : Oid) (o : Obj) : define objs x o x = some o := by
  simp [define]

theorem define_same_isSome (objs : Oid → Option Obj) (x : Oid) (o : Obj) :
    (define objs x o x).isSome = true := by
  simp [define]

theorem define_ne (objs : Oid → Option Obj) (x : Oid) (o : Obj) {y : Oid} (h : y ≠ x) :
    define objs x o y = objs y := by
  simp [define, h]

theorem define_isSome (objs : Oid → Option Obj) (x : Oid) (o : Obj) {y : Oid}
    (h : (objs y).isSome = true) : (define objs x o y).isSome = true := by
  unfold define
  split
  · rfl
  · exact h

/-- Reserve the slot `st.next`, run allocation-only steps, then define the reserved slot. -/
theorem Ext.reserve_define {A : Prop} {st sb : State} {o : Obj}
    (h : Ext A ⟨st.objs, st.next + 1, st.memo⟩ sb)
    (ho : ∀ c ∈ o.children, ChildIn A (define sb.objs st.next o) st.next sb.next c) :
    Ext A st ⟨define sb.objs st.next o, sb.next, sb.memo⟩ where
  memo := h.memo
  le := Nat.le_trans (Nat.le_succ _) h.le
  old := by
    intro x hx
    have hne : x ≠ st.next := Nat.ne_of_lt hx
    show define sb.objs st.next o x = st.objs x
    rw [define_ne _ _ _ hne]
    exact h.old x (Nat.lt_succ_of_lt hx)
  bound := by
    intro x hx
    have hle : st.next + 1 ≤ sb.next := h.le
    have hx' : sb.next ≤ x := hx
    have hne : x ≠ st.next := by omega
    show define sb.objs st.next o x = none
    rw [define_ne _ _ _ hne]
    exact h.bound x hx
  closed := by
    intro x o2 hx ho2 c hc
    have hx' : st.next ≤ x := hx
    have ho2' : define sb.objs st.next o x = some o2 := ho2
    show ChildIn A (define sb.objs st.next o) st.next sb.next c
    by_cases hxe : x = st.next
    · subst hxe
      rw [define_same] at ho2'
      cases ho2'
      exact ho c hc
    · rw [define_ne _ _ _ hxe] at ho2'
      have hx2 : st.next + 1 ≤ x := by omega
      exact (h.closed x o2 hx2 ho2' c hc).mono (Nat.le_succ _) (Nat.le_refl _)
        (fun y _ _ hy => define_isSome _ _ _ hy)

theorem Bounded.reserve_define {A : Prop} {st sb : State} {o : Obj}
    (h : Ext A ⟨st.objs, st.next + 1, st.memo⟩ sb) :
    Bounded ⟨define sb.objs st.next o, sb.next, sb.memo⟩ := by
  intro x hx
  have hle : st.next + 1 ≤ sb.next := h.le
  have hx' : sb.next ≤ x := hx
  have hne : x ≠ st.next := by omega
  show define sb.objs st.next o x = none
  rw [define_ne _ _ _ hne]
  exact h.bound x hx

/-- Allocation-only steps keep a closed heap closed. -/
theorem Ext.closed_heap {A : Prop} {st st' : State} (hE : Ext A st st')
    (hcl : Closed st.objs st.next) : Closed st'.objs st'.next where
  bound := hE.bound
  refs := by
    intro x o ho y hy
    by_cases hx : x < st.next
    · rw [hE.old x hx] at ho
      have hs := hcl.refs x o ho y hy
      have hylt : y < st.next := by
        apply Nat.lt_of_not_le
        intro hle
        rw [hcl.bound y hle] at hs
        cases hs
      rw [hE.old y hylt]
      exact hs
    · exact (hE.closed x o (Nat.le_of_not_lt hx) ho _ hy).2.2

/-! ### `lookup`, `dictSet`, `dictUpdate` -/

theorem lookup_cons {β : Type} (k k' : Nat) (v : β) (r : List (Nat × β)) :
    lookup k ((k', v) :: r) = if k' = k then some v else lookup k r := rfl

theorem lookup_some_mem_keys {β : Type} {k : Nat} {l : List (Nat × β)} {v : β}
    (h : lookup k l = some v) : k ∈ l.map (·.1) := by
  induction l with
  | nil => cases h
  | cons p r ih =>
    obtain ⟨k', v'⟩ := p
    rw [lookup_cons] at h
    by_cases hk : k' = k
    · simp [hk]
    · simp only [hk, if_false] at h
      simp [ih h]

theorem lookup_some_mem {β : Type} {k : Nat} {l : List (Nat × β)} {v : β}
    (h : lookup k l = some v) : (k, v) ∈ l := by
  induction l with
  | nil => cases h
  | cons p r ih =>
    obtain ⟨k', v'⟩ := p
    rw [lookup_cons] at h
    by_cases hk : k' = k
    · simp only [hk, if_true, Option.some.injEq] at h
      simp [hk, h]
    · simp only [hk, if_false] at h
      exact List.mem_cons_of_mem _ (ih h)

theorem lookup_isSome_of_mem_keys {β : Type} {k : Nat} {l : List (Nat × β)}
    (h : k ∈ l.map (·.1)) : (lookup k l).isSome = true := by
  induction l with
  | nil => cases h
  | cons p r ih =>
    obtain ⟨k', v'⟩ := p
    rw [lookup_cons]
    by_cases hk : k' = k
    · simp [hk]
    · simp only [hk, if_false]
      apply ih
      simp only [List.map_cons, List.mem_cons] at h
      rcases h with h | h
      · exact absurd h.symm hk
      · exact h

/-! ### `dictSet` / `dictUpdate` -/

theorem lookup_dictSet (k k' : Name) (v : Val) (l : List (Name × Val)) :
    lookup k (dictSet k' v l) = if k' = k then some v else lookup k l := by
  induction l with
  | nil => simp [dictSet, lookup]
  | cons p r ih =>
    obtain ⟨k'', v''⟩ := p
    simp only [dictSet]
    by_cases h1 : k'' = k'
    · subst h1
      simp only [if_true, lookup_cons]
      by_cases h2 : k'' = k <;> simp [h2]
    · simp only [h1, if_false, lookup_cons, ih]
      by_cases h2 : k'' = k
      · subst h2
        simp [Ne.symm h1]
      · simp [h2]

theorem dictUpdate_cons (base : List (Name × Val)) (p : Name × Val) (new : List (Name × Val)) :
    dictUpdate base (p :: new) = dictSet p.1 p.2 (dictUpdate base new) := rfl

theorem lookup_dictUpdate (k : Name) (base new : List (Name × Val)) :
    lookup k (dictUpdate base new) =
      match lookup k new with
      | some v => some v
      | none => lookup k base := by
  induction new with
  | nil => rfl
  | cons p r ih =>
    obtain ⟨k', v'⟩ := p
    rw [dictUpdate_cons, lookup_dictSet, lookup_cons, ih]
    by_cases h : k' = k <;> simp [h]

theorem mem_dictSet {k : Name} {v : Val} {l : List (Name × Val)} {p : Name × Val}
    (h : p ∈ dictSet k v l) : p = (k, v) ∨ p ∈ l := by
  induction l with
  | nil =>
    simp only [dictSet, List.mem_singleton] at h
    exact Or.inl h
  | cons q r ih =>
    obtain ⟨k'', v''⟩ := q
    simp only [dictSet] at h
    by_cases h1 : k'' = k
    · simp only [h1, if_true, List.mem_cons] at h
      rcases h with h | h
      · exact Or.inl h
      · exact Or.inr (List.mem_cons_of_mem _ h)
    · simp only [h1, if_false, List.mem_cons] at h
      rcases h with h | h
      · exact Or.inr (by simp [h])
      · rcases ih h with h | h
        · exact Or.inl h
        · exact Or.inr (List.mem_cons_of_mem _ h)

theorem mem_dictUpdate {base new : List (Name × Val)} {p : Name × Val}
    (h : p ∈ dictUpdate base new) : p ∈ base ∨ p ∈ new := by
  induction new with
  | nil => exact Or.inl h
  | cons q r ih =>
    rw [dictUpdate_cons] at h
    rcases mem_dictSet h with h | h
    · exact Or.inr (by simp [h])
    · rcases ih h with h | h
      · exact Or.inl h
      · exact Or.inr (List.mem_cons_of_mem _ h)

/-- Removing the entries of another key does not change what a key is bound to. -/
theorem lookup_filter_ne {β : Type} (k name : Nat) (hk : k ≠ name) (l : List (Nat × β)) :
    lookup k (l.filter (fun p => p.1 != name)) = lookup k l := by
  induction l with
  | nil => rfl
  | cons p r ih =>
    obtain ⟨k', v⟩ := p
    by_cases h : k' = name
    · subst h
      have hne : ¬ k' = k := fun e => hk e.symm
      simp [List.filter, lookup, hne, ih]
    · simp [h, lookup_cons, ih]

/-- What `base.__init__` puts on a new instance are atoms (`None`). -/
theorem baseInitAttrs_atom (k : Kind) : ∀ p ∈ baseInitAttrs k, p.2.isAtom = true := by
  intro p hp
  cases k <;> simp only [baseInitAttrs, List.mem_singleton, List.not_mem_nil] at hp
  subst hp
  rfl

theorem lookup_baseInitAttrs {k : Kind} {n : Name} {v : Val}
    (h : lookup n (baseInitAttrs k) = some v) : k = .cfitness ∧ n = cvName ∧ v = .atom noneAtom := by
  cases k <;> simp only [baseInitAttrs, lookup] at h <;> try cases h
  split at h
  · rename_i hn
    cases h
    exact ⟨rfl, hn.symm, rfl⟩
  · cases h

/-! ### `mapSt` -/

theorem mapSt_nil {σ α β : Type} (f : σ → α → Option (σ × β)) (s : σ) :
    mapSt f s [] = some (s, []) := rfl

theorem mapSt_cons_some {σ α β : Type} {f : σ → α → Option (σ × β)} {s s1 s2 : σ} {a : α}
    {as : List α} {b : β} {bs : List β} (h1 : f s a = some (s1, b))
    (h2 : mapSt f s1 as = some (s2, bs)) : mapSt f s (a :: as) = some (s2, b :: bs) := by
  simp [mapSt, h1, h2]

theorem mapSt_cons_inv {σ α β : Type} {f : σ → α → Option (σ × β)} {s s2 : σ} {a : α}
    {as : List α} {l : List β} (h : mapSt f s (a :: as) = some (s2, l)) :
    ∃ s1 b bs, f s a = some (s1, b) ∧ mapSt f s1 as = some (s2, bs) ∧ l = b :: bs := by
  simp only [mapSt] at h
  split at h
  · cases h
  · rename_i s1 b h1
    split at h
    · cases h
    · rename_i s2' bs h2
      cases h
      exact ⟨s1, b, bs, h1, h2, rfl⟩

/-- Generic `mapSt` lemma: a relational invariant `R` (reflexive under `I`, transitive) that every
successful step establishes — and every step succeeds under the state invariant `I` — holds between
the input and the output state, and every output element satisfies what its step guarantees
(`Q`, stable under later steps). -/
theorem mapSt_spec {σ α β : Type} (f : σ → α → Option (σ × β))
    (I : σ → Prop) (R : σ → σ → Prop) (Pa : α → Prop) (Q : σ → σ → α → β → Prop)
    (hrefl : ∀ s, I s → R s s)
    (htrans : ∀ s s1 s2, R s s1 → R s1 s2 → R s s2)
    (hI : ∀ s s1, I s → R s s1 → I s1)
    (hQl : ∀ s s1 s2 a b, R s s1 → R s1 s2 → Q s s1 a b → Q s s2 a b)
    (hQr : ∀ s s1 s2 a b, R s s1 → R s1 s2 → Q s1 s2 a b → Q s s2 a b)
    (hstep : ∀ s a, Pa a → ∃ s1 b, f s a = some (s1, b) ∧ (I s → R s s1 ∧ Q s s1 a b)) :
    ∀ (l : List α) (s : σ), (∀ a ∈ l, Pa a) →
      ∃ s' bs, mapSt f s l = some (s', bs) ∧ bs.length = l.length ∧
        (I s → R s s' ∧ ∀ i (hi : i < l.length) (hi' : i < bs.length), Q s s' l[i] bs[i]) := by
  intro l
  induction l with
  | nil =>
    intro s _
    refine ⟨s, [], rfl, rfl, fun hs => ⟨hrefl s hs, ?_⟩⟩
    intro i hi
    cases hi
  | cons a as ih =>
    intro s hPa
    obtain ⟨s1, b, h1, h1'⟩ := hstep s a (hPa a (List.mem_cons_self))
    obtain ⟨s2, bs, h2, hlen, h2'⟩ := ih s1 (fun a' ha' => hPa a' (List.mem_cons_of_mem _ ha'))
    refine ⟨s2, b :: bs, mapSt_cons_some h1 h2, by simp [hlen], ?_⟩
    intro hs
    obtain ⟨hR1, hQ1⟩ := h1' hs
    obtain ⟨hR2, hQ2⟩ := h2' (hI s s1 hs hR1)
    refine ⟨htrans _ _ _ hR1 hR2, ?_⟩
    intro i hi hi'
    cases i with
    | zero => exact hQl _ _ _ _ _ hR1 hR2 hQ1
    | succ j =>
      have hj : j < as.length := by simpa using hi
      have hj' : j < bs.length := by simpa using hi'
      exact hQr _ _ _ _ _ hR1 hR2 (hQ2 j hj hj')

/-! ### `newInst` -/

/-- The step function of `init_type` with fuel `n`. -/
def instStep (ct : ClassTable) (n : Nat) (s : State) (p : Name × ClsId) :
    Option (State × (Name × Val)) :=
  match newInst ct n s p.2 [] with
  | none => none
  | some (s', y) => some (s', (p.1, Val.ref y))

theorem instAttrs_eq (ct : ClassTable) (st : State) (l : List (Name × ClsId)) :
    instAttrs ct st l = mapSt (instStep ct ct.length) st l := rfl

theorem newInst_succ (ct : ClassTable) (n : Nat) (st : State) (c : ClsId) (items : List Val) :
    newInst ct (n + 1) st c items =
      match ct[c]? with
      | none => none
      | some ci =>
        match mapSt (instStep ct n) ⟨st.objs, st.next + 1, st.memo⟩ ci.dictInst with
        | none => none
        | some (sb, attrs) =>
          some (⟨define sb.objs st.next
              ⟨c, items, dictUpdate attrs (baseInitAttrs ci.kind), ci.kind != .node⟩, sb.next,
              sb.memo⟩, st.next) := by
  rw [newInst]
  rfl

/-- What the attribute loop guarantees for the list of produced attributes. -/
def AttrsIn (objs : Oid → Option Obj) (lo hi : Nat) (l : List (Name × ClsId))
    (attrs : List (Name × Val)) : Prop :=
  attrs.map (·.1) = l.map (·.1) ∧
  ∀ p ∈ attrs, ∃ y, p.2 = Val.ref y ∧ lo ≤ y ∧ y < hi ∧ (objs y).isSome = true

/-- The nested instances, the reference attributes, what `base.__init__` adds (atoms) and atom
items make a new object an allocation-only step. -/
theorem Ext.newInst {s sb : State} {l : List (Name × ClsId)} {attrs : List (Name × Val)}
    (c : ClsId) (items : List Val) (k : Kind) (mu : Bool)
    (hE : Ext True ⟨s.objs, s.next + 1, s.memo⟩ sb)
    (hA : AttrsIn sb.objs (s.next + 1) sb.next l attrs)
    (hitems : ∀ v ∈ items, v.isAtom = true) :
    Ext True s ⟨define sb.objs s.next ⟨c, items, dictUpdate attrs (baseInitAttrs k), mu⟩, sb.next,
      sb.memo⟩ := by
  refine Ext.reserve_define hE ?_
  intro v hv
  simp only [Obj.children, List.mem_append, List.mem_map] at hv
  rcases hv with hv | ⟨q, hq, rfl⟩
  · have := hitems v hv
    cases v with
    | atom a => trivial
    | ref y => cases this
  · rcases mem_dictUpdate hq with hq | hq
    · obtain ⟨y, hy, hy1, hy2, hy3⟩ := hA.2 q hq
      rw [hy]
      exact ⟨Nat.le_of_succ_le hy1, hy2, define_isSome _ _ _ hy3⟩
    · have := baseInitAttrs_atom k q hq
      cases hq2 : q.2 with
      | atom a => trivial
      | ref y => rw [hq2] at this; cases this

/-- … in particular an item-less one. -/
theorem Ext.newInst_nil {s sb : State} {l : List (Name × ClsId)} {attrs : List (Name × Val)}
    (c : ClsId) (k : Kind) (mu : Bool) (hE : Ext True ⟨s.objs, s.next + 1, s.memo⟩ sb)
    (hA : AttrsIn sb.objs (s.next + 1) sb.next l attrs) :
    Ext True s ⟨define sb.objs s.next ⟨c, [], dictUpdate attrs (baseInitAttrs k), mu⟩, sb.next,
      sb.memo⟩ :=
  Ext.newInst c [] k mu hE hA (fun _ h => by cases h)

/-- The attribute loop, given that instantiation with fuel `n` behaves. -/
theorem instLoop_spec (ct : ClassTable) (n : Nat)
    (hN : ∀ (s : State) (c' : ClsId), c' < ct.length → c' < n →
      ∃ s', newInst ct n s c' [] = some (s', s.next) ∧
        (Bounded s → Ext True s s' ∧ (s'.objs s.next).isSome = true)) :
    ∀ (l : List (Name × ClsId)) (s : State), (∀ p ∈ l, p.2 < ct.length ∧ p.2 < n) →
      ∃ s' attrs, mapSt (instStep ct n) s l = some (s', attrs) ∧
        (Bounded s → Ext True s s' ∧ AttrsIn s'.objs s.next s'.next l attrs) := by
  intro l
  induction l with
  | nil =>
    intro s _
    refine ⟨s, [], rfl, fun hb => ⟨Ext.refl hb, rfl, ?_⟩⟩
    intro p hp
    cases hp
  | cons p ps ih =>
    intro s hl
    obtain ⟨hp1, hp2⟩ := hl p List.mem_cons_self
    obtain ⟨s1, h1, h1'⟩ := hN s p.2 hp1 hp2
    obtain ⟨s2, attrs, h2, h2'⟩ := ih s1 (fun q hq => hl q (List.mem_cons_of_mem _ hq))
    have hstep : instStep ct n s p = some (s1, (p.1, Val.ref s.next)) := by
      simp [instStep, h1]
    refine ⟨s2, (p.1, Val.ref s.next) :: attrs, mapSt_cons_some hstep h2, ?_⟩
    intro hb
    obtain ⟨hE1, hdef⟩ := h1' hb
    obtain ⟨hE2, hnames, hvals⟩ := h2' hE1.bound
    have hlt : s.next < s1.next := by
      apply Nat.lt_of_not_le
      intro hle
      rw [hE1.bound s.next hle] at hdef
      cases hdef
    refine ⟨hE1.trans hE2, by simp [hnames], ?_⟩
    intro q hq
    rcases List.mem_cons.1 hq with rfl | hq
    · refine ⟨s.next, rfl, Nat.le_refl _, Nat.lt_of_lt_of_le hlt hE2.le, ?_⟩
      rw [hE2.old _ hlt]; exact hdef
    · obtain ⟨y, hy, hy1, hy2, hy3⟩ := hvals q hq
      exact ⟨y, hy, Nat.le_trans hE1.le hy1, hy2, hy3⟩

/-- `cls(items)` on a well-founded class table: succeeds with enough fuel, returns the reserved
oid `st.next`, and (if nothing was allocated beyond `st.next`) only allocates: the nested
instances live in `[st.next+1, sb.next)`, refer only to each other (or hold atoms), and the new
object gets the given items, one reference attribute per `dict_inst` entry, and over them what
`base.__init__` sets. -/
theorem newInst_spec (ct : ClassTable) (hct : CTOk ct) :
    ∀ (fuel : Nat) (st : State) (c : ClsId) (items : List Val), c < ct.length → c < fuel →
      ∃ ci sb attrs, ct[c]? = some ci ∧
        newInst ct fuel st c items =
          some (⟨define sb.objs st.next
            ⟨c, items, dictUpdate attrs (baseInitAttrs ci.kind), ci.kind != .node⟩, sb.next,
            sb.memo⟩, st.next) ∧
        (Bounded st → Ext True ⟨st.objs, st.next + 1, st.memo⟩ sb ∧
          AttrsIn sb.objs (st.next + 1) sb.next ci.dictInst attrs) := by
  intro fuel
  induction fuel with
  | zero => intro st c items _ h; cases h
  | succ n ih =>
    intro st c items hc hcn
    obtain ⟨ci, hci⟩ : ∃ ci, ct[c]? = some ci := ⟨ct[c], List.getElem?_eq_getElem hc⟩
    have hN : ∀ (s : State) (c' : ClsId), c' < ct.length → c' < n →
        ∃ s', newInst ct n s c' [] = some (s', s.next) ∧
          (Bounded s → Ext True s s' ∧ (s'.objs s.next).isSome = true) := by
      intro s c' hc' hc'n
      obtain ⟨ci', sb, attrs, _, hrun, hrest⟩ := ih s c' [] hc' hc'n
      refine ⟨_, hrun, ?_⟩
      intro hb
      obtain ⟨hE, hA⟩ := hrest (by exact hb)
      exact ⟨Ext.newInst_nil _ _ _ hE hA, define_same_isSome _ _ _⟩
    have hl : ∀ p ∈ ci.dictInst, p.2 < ct.length ∧ p.2 < n := by
      intro p hp
      have : p.2 < c := hct c ci hci p hp
      exact ⟨Nat.lt_trans this hc, Nat.lt_of_lt_of_le this (Nat.le_of_lt_succ hcn)⟩
    obtain ⟨sb, attrs, hrun, hrest⟩ :=
      instLoop_spec ct n hN ci.dictInst ⟨st.objs, st.next + 1, st.memo⟩ hl
    refine ⟨ci, sb, attrs, hci, ?_, ?_⟩
    · rw [newInst_succ, hci]
      simp only [hrun]
    · intro hb
      apply hrest
      intro x hx
      exact hb x (Nat.le_of_succ_le hx)

/-- Instantiation without items is an allocation-only step. -/
theorem newInst_nil_spec (ct : ClassTable) (hct : CTOk ct) (fuel : Nat) (s : State) (c : ClsId)
    (hc : c < ct.length) (hf : c < fuel) :
    ∃ s', newInst ct fuel s c [] = some (s', s.next) ∧
      (Bounded s → Ext True s s' ∧ (s'.objs s.next).isSome = true) := by
  obtain ⟨ci', sb, attrs, _, hrun, hrest⟩ := newInst_spec ct hct fuel s c [] hc hf
  refine ⟨_, hrun, ?_⟩
  intro hb
  obtain ⟨hE, hA⟩ := hrest hb
  exact ⟨Ext.newInst_nil _ _ _ hE hA, define_same_isSome _ _ _⟩

/-! ### "From success" versions (no assumption on the class table) -/

/-- The attribute loop, from success, given that instantiation with fuel `n` behaves. -/
theorem instLoop_of_eq (ct : ClassTable) (n : Nat)
    (hN : ∀ (s s' : State) (c' : ClsId) (y : Oid), Bounded s →
      newInst ct n s c' [] = some (s', y) →
      y = s.next ∧ Ext True s s' ∧ (s'.objs s.next).isSome = true) :
    ∀ (l : List (Name × ClsId)) (s s' : State) (attrs : List (Name × Val)), Bounded s →
      mapSt (instStep ct n) s l = some (s', attrs) →
      Ext True s s' ∧ AttrsIn s'.objs s.next s'.next l attrs := by
  intro l
  induction l with
  | nil =>
    intro s s' attrs hb h
    rw [mapSt_nil] at h
    cases h
    refine ⟨Ext.refl hb, rfl, ?_⟩
    intro p hp
    cases hp
  | cons p ps ih =>
    intro s s' attrs hb h
    obtain ⟨s1, b, bs, h1, h2, rfl⟩ := mapSt_cons_inv h
    unfold instStep at h1
    split at h1
    · cases h1
    · rename_i s1' y hrun
      cases h1
      obtain ⟨rfl, hE1, hdef⟩ := hN _ _ _ _ hb hrun
      obtain ⟨hE2, hnames, hvals⟩ := ih _ _ _ hE1.bound h2
      have hlt : s.next < s1.next := by
        apply Nat.lt_of_not_le
        intro hle
        rw [hE1.bound s.next hle] at hdef
        cases hdef
      refine ⟨hE1.trans hE2, by simp [hnames], ?_⟩
      intro q hq
      rcases List.mem_cons.1 hq with rfl | hq
      · refine ⟨s.next, rfl, Nat.le_refl _, Nat.lt_of_lt_of_le hlt hE2.le, ?_⟩
        rw [hE2.old _ hlt]; exact hdef
      · obtain ⟨y, hy, hy1, hy2, hy3⟩ := hvals q hq
        exact ⟨y, hy, Nat.le_trans hE1.le hy1, hy2, hy3⟩

/-- `cls(items)`, from success: the result is the reserved oid `st.next`, the nested instances
live in `[st.next+1, sb.next)` and refer only to each other (or hold atoms), and the new object
gets the given items, one reference attribute per `dict_inst` entry, and over them what
`base.__init__` sets. -/
theorem newInst_of_eq (ct : ClassTable) :
    ∀ (fuel : Nat) (st st' : State) (c : ClsId) (items : List Val) (x : Oid), Bounded st →
      newInst ct fuel st c items = some (st', x) →
      ∃ ci sb attrs, ct[c]? = some ci ∧ x = st.next ∧
        st' = ⟨define sb.objs st.next
          ⟨c, items, dictUpdate attrs (baseInitAttrs ci.kind), ci.kind != .node⟩, sb.next, sb.memo⟩ ∧
        Ext True ⟨st.objs, st.next + 1, st.memo⟩ sb ∧
        AttrsIn sb.objs (st.next + 1) sb.next ci.dictInst attrs := by
  intro fuel
  induction fuel with
  | zero => intro st st' c items x _ h; simp [newInst] at h
  | succ n ih =>
    intro st st' c items x hb h
    rw [newInst_succ] at h
    split at h
    · cases h
    · rename_i ci hci
      split at h
      · cases h
      · rename_i sb attrs hrun
        cases h
        have hN : ∀ (s s' : State) (c' : ClsId) (y : Oid), Bounded s →
            newInst ct n s c' [] = some (s', y) →
            y = s.next ∧ Ext True s s' ∧ (s'.objs s.next).isSome = true := by
          intro s s' c' y hbs hs
          obtain ⟨ci', sb', attrs', _, rfl, rfl, hE, hA⟩ := ih s s' c' [] y hbs hs
          exact ⟨rfl, Ext.newInst_nil _ _ _ hE hA, define_same_isSome _ _ _⟩
        have hba : Bounded ⟨st.objs, st.next + 1, st.memo⟩ :=
          fun y hy => hb y (Nat.le_of_succ_le hy)
        obtain ⟨hE, hA⟩ := instLoop_of_eq ct n hN ci.dictInst _ _ _ hba hrun
        exact ⟨ci, sb, attrs, hci, rfl, rfl, hE, hA⟩

/-- Item-less instantiation, from success, is an allocation-only step. -/
theorem newInst_nil_of_eq (ct : ClassTable) {n : Nat} {s s' : State} {c' : ClsId} {y : Oid}
    (hb : Bounded s) (h : newInst ct n s c' [] = some (s', y)) :
    y = s.next ∧ Ext True s s' ∧ (s'.objs s.next).isSome = true := by
  obtain ⟨ci', sb', attrs', _, rfl, rfl, hE, hA⟩ := newInst_of_eq ct n s s' c' [] y hb h
  exact ⟨rfl, Ext.newInst_nil _ _ _ hE hA, define_same_isSome _ _ _⟩

/-- Instantiation with atom items, from success, is an allocation-only step. -/
theorem newInst_ext_of_eq (ct : ClassTable) {n : Nat} {s s' : State} {c : ClsId} {items : List Val}
    {x : Oid} (hb : Bounded s) (hitems : ∀ v ∈ items, v.isAtom = true)
    (h : newInst ct n s c items = some (s', x)) : x = s.next ∧ Ext True s s' := by
  obtain ⟨ci', sb', attrs', _, rfl, rfl, hE, hA⟩ := newInst_of_eq ct n s s' c items x hb h
  exact ⟨rfl, Ext.newInst _ _ _ _ hE hA hitems⟩

/-- `creator.<cls>(items)`, from success, on an explicitly given state. -/
theorem create_of_eq (ct : ClassTable) (objs : Oid → Option Obj) (next : Nat)
    (memo : List (Oid × Oid)) (c : ClsId) (items : List Val) (st' : State) (x : Oid)
    (hb : ∀ y, next ≤ y → objs y = none)
    (h : create ct ⟨objs, next, memo⟩ c items = some (st', x)) :
    ∃ ci sb attrs, ct[c]? = some ci ∧ x = next ∧
      st' = ⟨define sb.objs next
        ⟨c, items, dictUpdate attrs (baseInitAttrs ci.kind), ci.kind != .node⟩, sb.next, sb.memo⟩ ∧
      Ext True ⟨objs, next + 1, memo⟩ sb ∧
      AttrsIn sb.objs (next + 1) sb.next ci.dictInst attrs :=
  newInst_of_eq ct (ct.length + 1) ⟨objs, next, memo⟩ st' c items x hb h

/-- `init_type` in `Ext` form (success is unconditional; the structural facts need `Bounded`). -/
theorem instAttrs_ext (ct : ClassTable) (hct : CTOk ct) (st : State) (c : ClsId) (ci : ClassInfo)
    (hci : ct[c]? = some ci) :
    ∃ st' attrs, instAttrs ct st ci.dictInst = some (st', attrs) ∧
      (Bounded st → Ext True st st' ∧ AttrsIn st'.objs st.next st'.next ci.dictInst attrs) := by
  have hc : c < ct.length := by
    rcases Nat.lt_or_ge c ct.length with h | h
    · exact h
    · rw [List.getElem?_eq_none h] at hci; cases hci
  have hl : ∀ p ∈ ci.dictInst, p.2 < ct.length ∧ p.2 < ct.length := by
    intro p hp
    have : p.2 < c := hct c ci hci p hp
    exact ⟨Nat.lt_trans this hc, Nat.lt_trans this hc⟩
  rw [instAttrs_eq]
  exact instLoop_spec ct ct.length
    (fun s c' h1 h2 => newInst_nil_spec ct hct ct.length s c' h1 h2) ci.dictInst st hl

/-- "From success" version of `instAttrs_ext`. -/
theorem instAttrs_ext_of_eq (ct : ClassTable) (hct : CTOk ct) (st : State) (c : ClsId)
    (ci : ClassInfo) (hci : ct[c]? = some ci) (hb : Bounded st) {st' : State}
    {attrs : List (Name × Val)} (h : instAttrs ct st ci.dictInst = some (st', attrs)) :
    Ext True st st' ∧ AttrsIn st'.objs st.next st'.next ci.dictInst attrs := by
  obtain ⟨st2, attrs2, h2, hrest⟩ := instAttrs_ext ct hct st c ci hci
  rw [h2] at h
  cases h
  exact hrest hb

/-- What `init_type` does to the interpreter state: it only allocates.  The memo is untouched, old
slots (also reserved, still undefined ones below `st.next`) keep their content, one attribute per
`dict_inst` entry is produced, each a reference to an object allocated by this call, and the
objects allocated by this call are defined and refer only to objects allocated by this call (or
hold atoms: what `base.__init__` puts on a nested instance). -/
theorem instAttrs_spec (ct : ClassTable) (hct : CTOk ct) (st : State) (c : ClsId) (ci : ClassInfo)
    (hci : ct[c]? = some ci) (hb : ∀ x, st.next ≤ x → st.objs x = none) :
    ∃ st' attrs, instAttrs ct st ci.dictInst = some (st', attrs) ∧
      st'.memo = st.memo ∧ st.next ≤ st'.next ∧
      (∀ x, x < st.next → st'.objs x = st.objs x) ∧
      (∀ x, st'.next ≤ x → st'.objs x = none) ∧
      attrs.map (·.1) = ci.dictInst.map (·.1) ∧
      (∀ p ∈ attrs, ∃ y, p.2 = Val.ref y ∧ st.next ≤ y ∧ y < st'.next ∧ (st'.objs y).isSome = true) ∧
      (∀ x o, st.next ≤ x → st'.objs x = some o →
        ∀ c' ∈ o.children, c'.isAtom = true ∨ ∃ y, c' = Val.ref y ∧ st.next ≤ y ∧ y < st'.next ∧
          (st'.objs y).isSome = true) := by
  obtain ⟨st', attrs, hrun, hrest⟩ := instAttrs_ext ct hct st c ci hci
  obtain ⟨hE, hnames, hvals⟩ := hrest hb
  refine ⟨st', attrs, hrun, hE.memo, hE.le, hE.old, hE.bound, hnames, hvals, ?_⟩
  intro x o hx ho c' hc'
  have := hE.closed x o hx ho c' hc'
  cases c' with
  | atom a => exact Or.inl rfl
  | ref y => exact Or.inr ⟨y, rfl, this⟩

end Heap
