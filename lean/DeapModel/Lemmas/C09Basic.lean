/-
Helper lemmas for C09: Python list primitives of `Core/CrossMut.lean`.
-/
import DeapModel.Core.CrossMut
import Mathlib.Data.List.Perm.Basic
import Mathlib.Data.List.Perm.Subperm
import Mathlib.Data.List.Nodup
import Mathlib.Data.List.Range

set_option linter.unusedSectionVars false
set_option linter.unusedSimpArgs false
set_option linter.unusedVariables false
set_option linter.unnecessarySeqFocus false

namespace C09L
open CrossMut

variable {α : Type}

/-! ### `set` and multisets -/

theorem count_getElem_pos [DecidableEq α] (l : List α) (i : Nat) (h : i < l.length) :
    0 < l.count l[i] := List.count_pos_iff.2 (List.getElem_mem h)

/-- writing `y` over `x` in `a` and `x` over `y` in `b` conserves the combined multiset -/
theorem set_set_append_perm [DecidableEq α] (a b : List α) (i j : Nat) (hi : i < a.length) (hj : j < b.length) :
    (a.set i b[j] ++ b.set j a[i]).Perm (a ++ b) := by
  rw [List.perm_iff_count]
  intro z
  have h1 := count_getElem_pos a i hi
  have h2 := count_getElem_pos b j hj
  simp only [List.count_append, List.count_set hi, List.count_set hj, beq_iff_eq]
  by_cases e1 : a[i] = z <;> by_cases e2 : b[j] = z <;> simp only [e1, e2, if_true, if_false] <;>
    (try rw [e1] at h1) <;> (try rw [e2] at h2) <;> omega

/-- exchanging two positions of one list is a permutation -/
theorem set_set_perm [DecidableEq α] (l : List α) (i j : Nat) (hi : i < l.length) (hj : j < l.length) :
    ((l.set i l[j]).set j l[i]).Perm l := by
  rw [List.perm_iff_count]
  intro z
  have h1 := count_getElem_pos l i hi
  have h2 := count_getElem_pos l j hj
  have hj' : j < (l.set i l[j]).length := by simpa using hj
  rw [List.count_set hj', List.count_set hi, List.getElem_set]
  by_cases e : i = j
  · subst e
    simp only [if_true, beq_iff_eq]
    by_cases e1 : l[i] = z <;> simp only [e1, if_true, if_false] <;> (try rw [e1] at h1) <;> omega
  · simp only [e, if_false, beq_iff_eq]
    by_cases e1 : l[i] = z <;> by_cases e2 : l[j] = z <;> simp only [e1, e2, if_true, if_false] <;>
      (try rw [e1] at h1) <;> (try rw [e2] at h2) <;> omega

theorem pySwap?_perm [DecidableEq α] (l out : List α) (i j : Nat) (h : pySwap? l i j = some out) :
    out.Perm l ∧ out.length = l.length := by
  unfold pySwap? at h
  split at h
  · next x y hx hy =>
    obtain ⟨hj, rfl⟩ := List.getElem?_eq_some_iff.1 hx
    obtain ⟨hi, rfl⟩ := List.getElem?_eq_some_iff.1 hy
    cases h
    exact ⟨set_set_perm l i j hi hj, by simp⟩
  · cases h

/-- inside the list the exchange does not raise; outside it does -/
theorem pySwap?_isSome (l : List α) (i j : Nat) : (pySwap? l i j).isSome = true ↔ i < l.length ∧ j < l.length := by
  unfold pySwap?
  constructor
  · intro h
    split at h
    · next x y hx hy =>
      exact ⟨(List.getElem?_eq_some_iff.1 hy).1, (List.getElem?_eq_some_iff.1 hx).1⟩
    · cases h
  · rintro ⟨hi, hj⟩
    rw [List.getElem?_eq_getElem hi, List.getElem?_eq_getElem hj]; rfl

theorem swapAt2_perm [DecidableEq α] (i : Nat) (p : List α × List α) :
    ((swapAt2 i p).1 ++ (swapAt2 i p).2).Perm (p.1 ++ p.2) := by
  unfold swapAt2
  split
  · next y x hy hx =>
    obtain ⟨hj, rfl⟩ := List.getElem?_eq_some_iff.1 hy
    obtain ⟨hi, rfl⟩ := List.getElem?_eq_some_iff.1 hx
    exact set_set_append_perm p.1 p.2 i i hi hj
  · exact List.Perm.refl _

theorem swapAt2_length (i : Nat) (p : List α × List α) :
    (swapAt2 i p).1.length = p.1.length ∧ (swapAt2 i p).2.length = p.2.length := by
  unfold swapAt2; split <;> simp

/-- pointwise description of one locus swap -/
theorem swapAt2_getElem? (i : Nat) (p : List α × List α) (hi : i < p.1.length) (hi2 : i < p.2.length) (j : Nat) :
    (swapAt2 i p).1[j]? = (if j = i then p.2[j]? else p.1[j]?) ∧
    (swapAt2 i p).2[j]? = (if j = i then p.1[j]? else p.2[j]?) := by
  unfold swapAt2
  rw [List.getElem?_eq_getElem hi, List.getElem?_eq_getElem hi2]
  simp only [List.getElem?_set]
  by_cases e : j = i
  · subst e; simp [hi, hi2]
  · have e' : ¬ i = j := fun h => e h.symm
    simp [e, e']

/-! ### loops -/

theorem foldl_inv {β γ : Type} (P : β → Prop) (f : β → γ → β) (l : List γ) (b : β) (h0 : P b)
    (hstep : ∀ b c, c ∈ l → P b → P (f b c)) : P (l.foldl f b) := by
  induction l generalizing b with
  | nil => simpa using h0
  | cons c cs ih =>
    simp only [List.foldl_cons]
    exact ih _ (hstep b c (by simp) h0) (fun b' c' hc hb => hstep b' c' (by simp [hc]) hb)

/-- a loop `for i, d in zip(range(s, s+n), ds): if l[i] exists: l[i] = φ i d l[i]` touches every
position once, so it is a pointwise map -/
theorem foldl_pointwise {γ : Type} (φ : Nat → γ → α → α) (ds : List γ) (s n : Nat) (l : List α) (j : Nat) :
    (((List.range' s n).zip ds).foldl
        (fun (l : List α) (id : Nat × γ) =>
          match l[id.1]? with
          | some x => l.set id.1 (φ id.1 id.2 x)
          | none => l) l)[j]?
      = if h : s ≤ j ∧ j - s < min n ds.length then (l[j]?).map (φ j (ds[j - s]'(by omega))) else l[j]? := by
  induction ds generalizing s n l with
  | nil => simp
  | cons d ds ih =>
    cases n with
    | zero => simp
    | succ n =>
      simp only [List.range'_succ, List.zip_cons_cons, List.foldl_cons]
      rw [ih]
      by_cases hj : j = s
      · subst hj
        have h1 : ¬ (j + 1 ≤ j ∧ j - (j + 1) < min n ds.length) := by omega
        rw [dif_neg h1]
        have h2 : j ≤ j ∧ j - j < min (n + 1) (d :: ds).length := by simp
        rw [dif_pos h2]
        cases hl : l[j]? with
        | none => simp [hl]
        | some x => simp [List.getElem?_set, (List.getElem?_eq_some_iff.1 hl).1]
      · have hset : (match l[s]? with | some x => l.set s (φ s d x) | none => l)[j]? = l[j]? := by
          cases hl : l[s]? with
          | none => rfl
          | some x => simp [List.getElem?_set, Ne.symm hj]
        by_cases h1 : s + 1 ≤ j ∧ j - (s + 1) < min n ds.length
        · have h2 : s ≤ j ∧ j - s < min (n + 1) (d :: ds).length := by
            simp only [List.length_cons]; omega
          rw [dif_pos h1, dif_pos h2, hset]
          have : j - s = (j - (s + 1)) + 1 := by omega
          simp only [this, List.getElem_cons_succ]
        · have h2 : ¬ (s ≤ j ∧ j - s < min (n + 1) (d :: ds).length) := by
            simp only [List.length_cons]; omega
          rw [dif_neg h1, dif_neg h2, hset]

/-! ### slices -/

theorem split3 (a : List α) (x y : Nat) (h : x ≤ y) : a = a.take x ++ (a.take y).drop x ++ a.drop y := by
  have h1 : a.take x = (a.take y).take x := by rw [List.take_take]; congr 1; omega
  rw [h1, List.take_append_drop, List.take_append_drop]

theorem sliceAssign_getElem? (a b : List α) (x y : Nat) (h : x ≤ y) (ha : y ≤ a.length) (hb : y ≤ b.length) (j : Nat) :
    (sliceAssign a x y (pySlice b x y))[j]? = if x ≤ j ∧ j < y then b[j]? else a[j]? := by
  unfold sliceAssign pySlice
  have hm : max x y = y := by omega
  rw [hm]
  by_cases h1 : j < x
  · have : ¬ (x ≤ j ∧ j < y) := by omega
    rw [if_neg this, List.append_assoc, List.getElem?_append_left (by simp; omega), List.getElem?_take, if_pos h1]
  · by_cases h2 : j < y
    · rw [if_pos ⟨by omega, h2⟩, List.append_assoc, List.getElem?_append_right (by simp; omega),
        List.getElem?_append_left (by simp; omega), List.getElem?_drop, List.getElem?_take]
      simp only [List.length_take]
      have : x + (j - min x a.length) = j := by omega
      rw [this, if_pos h2]
    · have : ¬ (x ≤ j ∧ j < y) := by omega
      rw [if_neg this, List.getElem?_append_right (by simp; omega), List.getElem?_drop]
      simp only [List.length_append, List.length_take, List.length_drop]
      congr 1; omega

theorem sliceAssign_length (a b : List α) (x y : Nat) (h : x ≤ y) (ha : y ≤ a.length) (hb : y ≤ b.length) :
    (sliceAssign a x y (pySlice b x y)).length = a.length := by
  unfold sliceAssign pySlice
  simp only [List.length_append, List.length_take, List.length_drop]
  omega

/-- exchanging the segment `[x, y)` between two lists conserves the combined multiset -/
theorem slice_exchange_perm [DecidableEq α] (a b : List α) (x y : Nat) (h : x ≤ y) :
    (sliceAssign a x y (pySlice b x y) ++ sliceAssign b x y (pySlice a x y)).Perm (a ++ b) := by
  have hm : max x y = y := by omega
  unfold sliceAssign pySlice
  rw [hm, List.perm_iff_count]
  intro z
  have ea := congrArg (List.count z) (split3 a x y h)
  have eb := congrArg (List.count z) (split3 b x y h)
  simp only [List.count_append] at ea eb ⊢
  omega

theorem normCx_spec (c1 c2 size : Nat) (h1 : 1 ≤ c1) (h2 : c1 ≤ size) (h3 : 1 ≤ c2) (h4 : c2 ≤ size - 1) :
    1 ≤ (normCx c1 c2).1 ∧ (normCx c1 c2).1 < (normCx c1 c2).2 ∧ (normCx c1 c2).2 ≤ size := by
  unfold normCx; split <;> simp <;> omega

theorem normCx_spec0 (c1 c2 size : Nat) (h0 : 1 ≤ size) (h2 : c1 ≤ size) (h4 : c2 ≤ size - 1) :
    (normCx c1 c2).1 < (normCx c1 c2).2 ∧ (normCx c1 c2).2 ≤ size := by
  unfold normCx; split <;> simp <;> omega

/-- induction principle for the uniform-crossover loop -/
theorem cxUniform_inv (P : List α × List α → Prop) (ind1 ind2 : List α) (ds : List Bool) (h0 : P (ind1, ind2))
    (hstep : ∀ p i, i < min ind1.length ind2.length → P p → P (swapAt2 i p)) : P (cxUniform ind1 ind2 ds) := by
  simp only [cxUniform]
  refine foldl_inv P _ _ _ h0 ?_
  intro p id hid hp
  have hlt : id.1 < min ind1.length ind2.length := by
    have := (List.of_mem_zip hid).1
    simpa using this
  by_cases h : id.2 = true
  · simp only [h, if_true]; exact hstep p id.1 hlt hp
  · simp only [h, if_false]; exact hp

/-- exact pointwise description of the locus-swapping loop -/
theorem swapLoop_exact (ds : List Bool) (s n : Nat) (p : List α × List α)
    (hn : s + n ≤ min p.1.length p.2.length) (j : Nat) :
    (((List.range' s n).zip ds).foldl (fun p (id : Nat × Bool) => if id.2 then swapAt2 id.1 p else p) p).1[j]?
      = (if s ≤ j ∧ j < s + n ∧ ds[j - s]?.getD false = true then p.2[j]? else p.1[j]?) ∧
    (((List.range' s n).zip ds).foldl (fun p (id : Nat × Bool) => if id.2 then swapAt2 id.1 p else p) p).2[j]?
      = (if s ≤ j ∧ j < s + n ∧ ds[j - s]?.getD false = true then p.1[j]? else p.2[j]?) := by
  induction ds generalizing s n p with
  | nil => simp
  | cons d ds ih =>
    cases n with
    | zero => simp; omega
    | succ n =>
      simp only [List.range'_succ, List.zip_cons_cons, List.foldl_cons]
      have hlen := swapAt2_length s p
      have hget := swapAt2_getElem? s p (by omega) (by omega) j
      have key : ∀ p' : List α × List α, p'.1.length = p.1.length → p'.2.length = p.2.length →
          (p'.1[j]? = if j = s ∧ d = true then p.2[j]? else p.1[j]?) →
          (p'.2[j]? = if j = s ∧ d = true then p.1[j]? else p.2[j]?) →
          (((List.range' (s+1) n).zip ds).foldl (fun p (id : Nat × Bool) => if id.2 then swapAt2 id.1 p else p) p').1[j]?
            = (if s ≤ j ∧ j < s + (n + 1) ∧ (d :: ds)[j - s]?.getD false = true then p.2[j]? else p.1[j]?) ∧
          (((List.range' (s+1) n).zip ds).foldl (fun p (id : Nat × Bool) => if id.2 then swapAt2 id.1 p else p) p').2[j]?
            = (if s ≤ j ∧ j < s + (n + 1) ∧ (d :: ds)[j - s]?.getD false = true then p.1[j]? else p.2[j]?) := by
        intro p' h1 h2 g1 g2
        have := ih (s + 1) n p' (by rw [h1, h2]; omega)
        rw [this.1, this.2, g1, g2]
        by_cases hj : j = s
        · subst hj
          have c1 : ¬ (j + 1 ≤ j ∧ j < j + 1 + n ∧ ds[j - (j + 1)]?.getD false = true) := by omega
          simp only [c1, if_false, Nat.sub_self, List.getElem?_cons_zero, Option.getD_some, true_and,
            Nat.le_refl]
          have : j < j + (n + 1) := by omega
          simp [this]
        · have e : j - s = (j - (s + 1)) + 1 ∨ j < s := by omega
          rcases e with e | e
          · have c : (s + 1 ≤ j ∧ j < s + 1 + n ∧ ds[j - (s + 1)]?.getD false = true) ↔
                (s ≤ j ∧ j < s + (n + 1) ∧ (d :: ds)[j - s]?.getD false = true) := by
              rw [e, List.getElem?_cons_succ]
              constructor <;> rintro ⟨a, b, c⟩ <;> exact ⟨by omega, by omega, c⟩
            simp only [hj, false_and, if_false, c, and_self]
          · have c1 : ¬ (s + 1 ≤ j ∧ j < s + 1 + n ∧ ds[j - (s + 1)]?.getD false = true) := by omega
            have c2 : ¬ (s ≤ j ∧ j < s + (n + 1) ∧ (d :: ds)[j - s]?.getD false = true) := by omega
            simp only [hj, false_and, if_false, c1, c2, and_self]
      cases d with
      | true =>
        simp only [if_true]
        exact key _ hlen.1 hlen.2 (by rw [hget.1]; simp) (by rw [hget.2]; simp)
      | false =>
        exact key p rfl rfl (by simp) (by simp)

theorem swapLoop_all (idx : List Nat) (p : List α × List α) :
    ((idx.zip (List.replicate idx.length true)).foldl (fun p (id : Nat × Bool) => if id.2 then swapAt2 id.1 p else p) p)
      = idx.foldl (fun p i => swapAt2 i p) p := by
  induction idx generalizing p with
  | nil => rfl
  | cons i is ih => simp [List.replicate_succ, ih]

/-- `for i in range(s, s+n): a[i], b[i] = b[i], a[i]` -/
theorem swapRange_exact (s n : Nat) (p : List α × List α) (hn : s + n ≤ min p.1.length p.2.length) (j : Nat) :
    ((List.range' s n).foldl (fun p i => swapAt2 i p) p).1[j]? = (if s ≤ j ∧ j < s + n then p.2[j]? else p.1[j]?) ∧
    ((List.range' s n).foldl (fun p i => swapAt2 i p) p).2[j]? = (if s ≤ j ∧ j < s + n then p.1[j]? else p.2[j]?) := by
  have h := swapLoop_exact (List.replicate n true) s n p hn j
  have e := swapLoop_all (List.range' s n) p
  simp only [List.length_range'] at e
  rw [e] at h
  have c : (s ≤ j ∧ j < s + n ∧ (List.replicate n true)[j - s]?.getD false = true) ↔ (s ≤ j ∧ j < s + n) := by
    constructor
    · rintro ⟨a, b, _⟩; exact ⟨a, b⟩
    · rintro ⟨a, b⟩
      refine ⟨a, b, ?_⟩
      rw [List.getElem?_replicate, if_pos (by omega)]; rfl
  simpa only [c] using h

/-! ### zip (evolution strategies) -/

theorem zip_sliceAssign {β : Type} (g g' : List α) (s s' : List β) (x y : Nat)
    (h1 : g.length = s.length) (h2 : g'.length = s'.length) :
    List.zip (sliceAssign g x y (pySlice g' x y)) (sliceAssign s x y (pySlice s' x y))
      = sliceAssign (List.zip g s) x y (pySlice (List.zip g' s') x y) := by
  unfold sliceAssign pySlice
  rw [List.zip_append (by simp [h1, h2]), List.zip_append (by simp [h1])]
  simp only [List.zip_eq_zipWith, List.take_zipWith, List.drop_zipWith]

/-! ### mutUniformInt -/

theorem randint_some (xl xu v w : Int) (h : randint xl xu v = some w) : w = v ∧ xl ≤ v ∧ v ≤ xu := by
  unfold randint at h
  split at h
  · next hh => cases h; exact ⟨rfl, hh⟩
  · cases h

/-- invariant of the replacement loop: an invariant `Q` of single positions that holds for
"unchanged" and for "inside the bounds zipped to this index" holds afterwards -/
theorem mutUniformIntLoop_inv (P : List Int → Prop) (trip : List (Nat × Int × Int)) (ds : List (Option Int))
    (ind out : List Int) (h0 : P ind)
    (hstep : ∀ l i xl xu v, (i, xl, xu) ∈ trip → xl ≤ v → v ≤ xu → P l → P (l.set i v))
    (h : mutUniformIntLoop trip ds ind = some out) : P out := by
  induction trip generalizing ds ind with
  | nil => simp only [mutUniformIntLoop] at h; cases h; exact h0
  | cons t rest ih =>
    obtain ⟨i, xl, xu⟩ := t
    cases ds with
    | nil => simp [mutUniformIntLoop] at h
    | cons d ds =>
      cases d with
      | none =>
        simp only [mutUniformIntLoop] at h
        exact ih ds ind h0 (fun l i xl xu v hm => hstep l i xl xu v (by simp [hm])) h
      | some v =>
        simp only [mutUniformIntLoop] at h
        cases hr : randint xl xu v with
        | none => simp [hr] at h
        | some w =>
          simp only [hr] at h
          obtain ⟨rfl, hlo, hhi⟩ := randint_some _ _ _ _ hr
          exact ih ds _ (hstep ind i xl xu w (by simp) hlo hhi h0)
            (fun l i xl xu v hm => hstep l i xl xu v (by simp [hm])) h

theorem mutUniformIntLoop_isSome (trip : List (Nat × Int × Int)) (ds : List (Option Int)) (ind : List Int)
    (hlen : trip.length ≤ ds.length)
    (hds : ∀ k (hk : k < trip.length) v, ds[k]? = some (some v) → trip[k].2.1 ≤ v ∧ v ≤ trip[k].2.2) :
    (mutUniformIntLoop trip ds ind).isSome = true := by
  induction trip generalizing ds ind with
  | nil => simp [mutUniformIntLoop]
  | cons t rest ih =>
    obtain ⟨i, xl, xu⟩ := t
    cases ds with
    | nil => simp at hlen
    | cons d ds =>
      have hrest : ∀ k (hk : k < rest.length) v, ds[k]? = some (some v) → rest[k].2.1 ≤ v ∧ v ≤ rest[k].2.2 := by
        intro k hk v hv
        have := hds (k + 1) (by simp; omega) v (by simpa using hv)
        simpa using this
      cases d with
      | none =>
        simp only [mutUniformIntLoop]
        exact ih ds ind (by simpa using hlen) hrest
      | some v =>
        have := hds 0 (by simp) v (by simp)
        simp only [mutUniformIntLoop, randint, List.getElem_cons_zero] at this ⊢
        rw [if_pos this]
        exact ih ds _ (by simpa using hlen) hrest

/-- a `randint` answer outside the bounds zipped to its position makes the model reject the tape -/
theorem mutUniformIntLoop_reject (trip : List (Nat × Int × Int)) (ds : List (Option Int)) (ind : List Int)
    (k : Nat) (hk : k < trip.length) (v : Int) (hv : ds[k]? = some (some v))
    (hout : ¬ (trip[k].2.1 ≤ v ∧ v ≤ trip[k].2.2)) : mutUniformIntLoop trip ds ind = none := by
  induction trip generalizing ds ind k with
  | nil => simp at hk
  | cons t rest ih =>
    obtain ⟨i, xl, xu⟩ := t
    cases ds with
    | nil => simp at hv
    | cons d ds =>
      cases k with
      | zero =>
        simp only [List.getElem?_cons_zero, Option.some.injEq] at hv
        subst hv
        simp only [List.getElem_cons_zero] at hout
        simp only [mutUniformIntLoop, randint, if_neg hout]
      | succ k =>
        simp only [List.getElem?_cons_succ] at hv
        simp only [List.getElem_cons_succ] at hout
        have hk' : k < rest.length := by simpa using hk
        cases d with
        | none => simp only [mutUniformIntLoop]; exact ih ds ind k hk' hv hout
        | some w =>
          simp only [mutUniformIntLoop]
          cases randint xl xu w with
          | none => rfl
          | some w' => exact ih ds _ k hk' hv hout

/-- the draw made for position `j` lands on gene `j`, all other genes keep their value -/
theorem mutUniformIntLoop_exact (n s : Nat) (bs : List (Int × Int)) (ds : List (Option Int)) (ind out : List Int)
    (hn : n ≤ bs.length) (hs : s + n ≤ ind.length)
    (h : mutUniformIntLoop ((List.range' s n).zip bs) ds ind = some out) (j : Nat) :
    out[j]? = if s ≤ j ∧ j < s + n then (match ds[j - s]? with | some (some v) => some v | _ => ind[j]?) else ind[j]? := by
  induction n generalizing s bs ds ind with
  | zero =>
    simp only [List.range'_zero, List.zip_nil_left, mutUniformIntLoop, Option.some.injEq] at h
    subst h
    have : ¬ (s ≤ j ∧ j < s + 0) := by omega
    rw [if_neg this]
  | succ n ih =>
    cases bs with
    | nil => simp at hn
    | cons b bs =>
      simp only [List.range'_succ, List.zip_cons_cons] at h
      cases ds with
      | nil => simp [mutUniformIntLoop] at h
      | cons d ds =>
        have hn' : n ≤ bs.length := by simpa using hn
        have shift : ∀ (e : j ≠ s), (s + 1 ≤ j ∧ j < s + 1 + n) → (d :: ds)[j - s]? = ds[j - (s + 1)]? := by
          intro e hc
          have : j - s = (j - (s + 1)) + 1 := by omega
          rw [this, List.getElem?_cons_succ]
        cases d with
        | none =>
          simp only [mutUniformIntLoop] at h
          rw [ih (s + 1) bs ds ind hn' (by omega) h]
          by_cases e : j = s
          · subst e
            have c1 : ¬ (j + 1 ≤ j ∧ j < j + 1 + n) := by omega
            have c2 : j ≤ j ∧ j < j + (n + 1) := by omega
            rw [if_neg c1, if_pos c2]; simp
          · by_cases c : s + 1 ≤ j ∧ j < s + 1 + n
            · have c2 : s ≤ j ∧ j < s + (n + 1) := by omega
              rw [if_pos c, if_pos c2, shift e c]
            · have c2 : ¬ (s ≤ j ∧ j < s + (n + 1)) := by omega
              rw [if_neg c, if_neg c2]
        | some v =>
          simp only [mutUniformIntLoop] at h
          cases hr : randint b.1 b.2 v with
          | none => simp [hr] at h
          | some w =>
            simp only [hr] at h
            obtain ⟨rfl, _, _⟩ := randint_some _ _ _ _ hr
            rw [ih (s + 1) bs ds (ind.set s w) hn' (by simp; omega) h]
            by_cases e : j = s
            · subst e
              have c1 : ¬ (j + 1 ≤ j ∧ j < j + 1 + n) := by omega
              have c2 : j ≤ j ∧ j < j + (n + 1) := by omega
              rw [if_neg c1, if_pos c2]
              simp [List.getElem?_set]; omega
            · have hset : (ind.set s w)[j]? = ind[j]? := by simp [List.getElem?_set, Ne.symm e]
              by_cases c : s + 1 ≤ j ∧ j < s + 1 + n
              · have c2 : s ≤ j ∧ j < s + (n + 1) := by omega
                rw [if_pos c, if_pos c2, shift e c, hset]
              · have c2 : ¬ (s ≤ j ∧ j < s + (n + 1)) := by omega
                rw [if_neg c, if_neg c2, hset]

/-! ### specification vocabulary used by the property theorems -/

/-- "each locus of the children holds exactly the two parental genes of that locus" (a locus that
exists in only one parent holds that one gene in exactly one child). -/
def Locus (c p : List α × List α) : Prop :=
  ∀ j : Nat, (c.1[j]? = p.1[j]? ∧ c.2[j]? = p.2[j]?) ∨ (c.1[j]? = p.2[j]? ∧ c.2[j]? = p.1[j]?)

/-- the bound zipped to gene `i`: the scalar itself or entry `i` of the sequence -/
def boundAt : Bound → Nat → Option Int
  | .scalar x, _ => some x
  | .seq l, i => l[i]?

theorem toSeq_get (b : Bound) (size : Nat) (l : List Int) (h : b.toSeq size = some l) (i : Nat) (hi : i < size) :
    i < l.length ∧ l[i]? = boundAt b i := by
  cases b with
  | scalar x =>
    simp only [Bound.toSeq, Option.some.injEq] at h
    subst h
    simp [boundAt, hi]
  | seq q =>
    simp only [Bound.toSeq] at h
    split at h
    · cases h
    · simp only [Option.some.injEq] at h; subst h
      exact ⟨by omega, rfl⟩

section
variable {σ : Type}
theorem es_okZip (ind1 ind2 : ESInd α σ) (pt1 pt2 : Nat) (h : cxESTwoPointOk ind1 ind2 pt1 pt2)
    (hs1 : ind1.genes.length = ind1.strategy.length) (hs2 : ind2.genes.length = ind2.strategy.length) :
    cxTwoPointOk (List.zip ind1.genes ind1.strategy) (List.zip ind2.genes ind2.strategy) pt1 pt2 := by
  unfold cxESTwoPointOk cxTwoPointOk at *
  simp only [List.length_zip, ← hs1, ← hs2, Nat.min_self]
  exact h

end

end C09L
