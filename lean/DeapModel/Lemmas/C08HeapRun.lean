/-
C08 at heap level — histories: `update` calls interleaved with in-place modifications of the caller's
objects and with allocations.  What the caller may do (`EvOK`), what each event keeps (`Inv`, `Rel`), and
the facts about whole histories the property theorems are read off from (`run_facts`).
-/
import DeapModel.Lemmas.C08HeapSim

set_option linter.unusedSectionVars false
set_option linter.unusedSimpArgs false
set_option linter.unusedVariables false

namespace C08H
open Heap Heap.Copy ArchiveHeap
open Archive (Ind HoF)
open Fitness (Fit)

variable {α : Type} [LinearOrder α]

/-! ### What the callers of the archive may do -/

/-- An event is admissible in the state `hs`:
* `update` is shown individuals that are not the archive's own objects, that `deepcopy` can copy, and that
  have a `fitness` (`Subm`);
* an in-place modification replaces the content of an existing mutable object outside the archive's ranges
  by anything that refers to existing objects outside the archive's ranges (the caller holds no reference to
  the archive's private copies) — in-place genome edits, attribute edits, `fitness.values = …`,
  `del fitness.values`, `ind.fitness = other` are all instances;
* an allocation creates an object that refers to such objects. -/
def EvOK (P : Params α) (hs : HState) : Ev → Prop
  | .upd pop => ∀ x ∈ pop, Subm P hs x
  | .write x o => (∃ o0, hs.objs x = some o0 ∧ o0.mutable = true) ∧ ¬ InLog hs.log x ∧
      ∀ z, Val.ref z ∈ o.children → (hs.objs z).isSome = true ∧ ¬ InLog hs.log z
  | .alloc o => ∀ z, Val.ref z ∈ o.children → (hs.objs z).isSome = true ∧ ¬ InLog hs.log z

/-- Every event of the history is admissible in the state it is applied to. -/
def Valid (P : Params α) (pf : Bool) : HState → List Ev → Prop
  | _, [] => True
  | hs, e :: es => EvOK P hs e ∧ ∀ hs', execEv P pf hs e = some hs' → Valid P pf hs' es

/-- The individuals a history submits. -/
def submittedOf : List Ev → List Oid
  | [] => []
  | .upd pop :: es => pop ++ submittedOf es
  | _ :: es => submittedOf es

/-- Only the caller acts: no `update`. -/
def CallerOnly : List Ev → Prop
  | [] => True
  | .upd _ :: _ => False
  | _ :: es => CallerOnly es

/-- `hs'` is a later state of the archive `hs`. -/
structure Mono (hs hs' : HState) : Prop where
  next : hs.next ≤ hs'.next
  logNew : ∀ y, InLog hs'.log y → InLog hs.log y ∨ hs.next ≤ y
  items : ∀ x ∈ hs'.items, x ∈ hs.items ∨ hs.next ≤ x
  maxsize : hs'.maxsize = hs.maxsize

theorem HExt.mono {hs hs' : HState} (h : HExt hs hs') : Mono hs hs' := ⟨h.next, h.logNew, h.items, h.maxsize⟩

theorem Mono.refl (hs : HState) : Mono hs hs := (HExt.refl hs).mono

theorem Mono.trans {a b c : HState} (h1 : Mono a b) (h2 : Mono b c) : Mono a c where
  next := Nat.le_trans h1.next h2.next
  logNew := fun y hy => by
    rcases h2.logNew y hy with h | h
    · exact h1.logNew y h
    · exact Or.inr (Nat.le_trans h1.next h)
  items := fun x hx => by
    rcases h2.items x hx with h | h
    · exact h1.items x h
    · exact Or.inr (Nat.le_trans h1.next h)
  maxsize := by rw [h2.maxsize, h1.maxsize]

/-- Members that are still members denote what they denoted. -/
def Stable (hs hs' : HState) : Prop :=
  ∀ x ∈ hs.items, x ∈ hs'.items → ∀ m, Heap.abs hs'.objs m (.ref x) = Heap.abs hs.objs m (.ref x)

/-! ### In-place modification -/

section Write
variable {P : Params α} {base : Nat} {hs : HState}

theorem write_other (objs : Oid → Option Obj) {x y : Oid} (o : Obj) (h : y ≠ x) : write objs x o y = objs y := by
  simp [write, define, h]

theorem write_same (objs : Oid → Option Obj) (x : Oid) (o : Obj) : write objs x o x = some o := by
  simp [write, define]

theorem write_isSome (objs : Oid → Option Obj) (x : Oid) (o : Obj) {z : Oid} (h : (objs z).isSome = true) :
    (write objs x o z).isSome = true := by
  by_cases hz : z = x
  · subst hz; rw [write_same]; rfl
  · rw [write_other objs o hz]; exact h

theorem write_facts (hI : Inv P base hs) {x : Oid} {o : Obj} (hok : EvOK P hs (.write x o)) :
    Inv P base { hs with objs := write hs.objs x o } ∧
    (∀ m ∈ hs.items, (∀ d, Heap.abs (write hs.objs x o) d (.ref m) = Heap.abs hs.objs d (.ref m)) ∧
      instFit P (write hs.objs x o) m = instFit P hs.objs m ∧
      viewInd P (write hs.objs x o) m = viewInd P hs.objs m) ∧
    (∀ k ∈ hs.keys, fitAt P (write hs.objs x o) k = fitAt P hs.objs k) := by
  obtain ⟨⟨o0, ho0, hm0⟩, hnl, hch⟩ := hok
  have hxN : x < hs.next := lt_of_defined hI.closed ho0
  have hno : ∀ m ∈ hs.items, ¬ Reach hs.objs (.ref m) x := fun m hm => hI.member_noreach hm ho0 hm0 hnl
  have hmem : ∀ m ∈ hs.items, (∀ d, Heap.abs (write hs.objs x o) d (.ref m) = Heap.abs hs.objs d (.ref m)) ∧
      instFit P (write hs.objs x o) m = instFit P hs.objs m ∧
      viewInd P (write hs.objs x o) m = viewInd P hs.objs m := by
    intro m hm
    obtain ⟨k, _, hk⟩ := hI.member_fit hm
    have := view_write (P := P) o hk (hno m hm)
    exact ⟨this.1, by rw [this.2.1, hk], this.2.2.2⟩
  refine ⟨?_, hmem, ?_⟩
  · refine ⟨⟨?_, ?_⟩, hI.base_le, hI.logwf, hI.logord, ?_, ?_, hI.nodup, ?_⟩
    · intro y hy
      have : y ≠ x := by oomega
      show write hs.objs x o y = none
      rw [write_other _ _ this]
      exact hI.closed.bound y hy
    · intro y oy hy z hz
      show (write hs.objs x o z).isSome = true
      apply write_isSome
      by_cases hyx : y = x
      · subst hyx
        have hy' : write hs.objs y o y = some oy := hy
        rw [write_same] at hy'
        cases hy'
        exact (hch z hz).1
      · have hy' : write hs.objs x o y = some oy := hy
        rw [write_other _ _ hyx] at hy'
        exact hI.closed.refs y oy hy' z hz
    · intro y oy hy hl z hz
      by_cases hyx : y = x
      · subst hyx
        have hy' : write hs.objs y o y = some oy := hy
        rw [write_same] at hy'
        cases hy'
        exact (hch z hz).2
      · have hy' : write hs.objs x o y = some oy := hy
        rw [write_other _ _ hyx] at hy'
        exact hI.outside y oy hy' hl z hz
    · intro m hm
      obtain ⟨hi, hmem', hreach⟩ := hI.members m hm
      refine ⟨hi, hmem', fun y hr => ?_⟩
      have hr0 := Reach_write_back hs.objs x o _ y hr (hno m hm)
      rcases hreach y hr0 with h | ⟨oy, hoy, hmy⟩
      · exact Or.inl h
      · right
        have hyx : y ≠ x := by
          intro e
          subst e
          rw [ho0] at hoy
          cases hoy
          rw [hm0] at hmy
          cases hmy
        exact ⟨oy, by show write hs.objs x o y = some oy; rw [write_other _ _ hyx]; exact hoy, hmy⟩
    · show hs.keys.map some = (hs.items.map (instFit P (write hs.objs x o))).reverse
      rw [hI.keyof]
      congr 1
      apply List.map_congr_left
      intro m hm
      exact ((hmem m hm).2.1).symm
  · intro k hk
    obtain ⟨m, hm, hmk⟩ := hI.key_member hk
    exact (view_write (P := P) o hmk (hno m hm)).2.2.1

theorem write_rel (hI : Inv P base hs) {h : HoF PV α} (hR : Rel P hs h) {x : Oid} {o : Obj}
    (hok : EvOK P hs (.write x o)) : Rel P { hs with objs := write hs.objs x o } h := by
  obtain ⟨_, hmem, hkeys⟩ := write_facts hI hok
  refine ⟨hR.msz, ?_, ?_⟩
  · show h.keys = hs.keys.map (fitAt P (write hs.objs x o))
    rw [hR.keys]
    apply List.map_congr_left
    intro k hk
    exact (hkeys k hk).symm
  · show hs.items.map (fun m => (viewInd P (write hs.objs x o) m).map erase) = _
    rw [← hR.items]
    apply List.map_congr_left
    intro m hm
    rw [(hmem m hm).2.2]

end Write

/-! ### Allocation -/

section Alloc
variable {P : Params α} {base : Nat} {hs : HState}

theorem alloc_ext (hI : Inv P base hs) (o : Obj) :
    HExt hs { hs with objs := define hs.objs hs.next o, next := hs.next + 1 } :=
  ⟨Nat.le_succ _, fun y hy => define_ne _ _ _ (Nat.ne_of_lt hy), fun _ h => Or.inl h, fun _ h => h, rfl,
    fun _ h => Or.inl h⟩

theorem alloc_inv (hI : Inv P base hs) {o : Obj} (hok : EvOK P hs (.alloc o)) :
    Inv P base { hs with objs := define hs.objs hs.next o, next := hs.next + 1 } := by
  have hE := alloc_ext hI o
  have hold : ∀ y, y < hs.next → define hs.objs hs.next o y = hs.objs y := hE.objs
  have hNlog : ¬ InLog hs.log hs.next := fun h => by
    have := (hI.inlog_lt h).2
    omega
  refine ⟨⟨?_, ?_⟩, Nat.le_trans hI.base_le (Nat.le_succ _), ?_, hI.logord, ?_, ?_, hI.nodup, ?_⟩
  · intro y hy
    have hy' : hs.next + 1 ≤ y := hy
    show define hs.objs hs.next o y = none
    rw [define_ne _ _ _ (by oomega)]
    exact hI.closed.bound y (by oomega)
  · intro y oy hy z hz
    have hzd : (hs.objs z).isSome = true := by
      by_cases hyN : y = hs.next
      · subst hyN
        have hy' : define hs.objs hs.next o hs.next = some oy := hy
        rw [define_same] at hy'
        cases hy'
        exact (hok z hz).1
      · have hy' : define hs.objs hs.next o y = some oy := hy
        rw [define_ne _ _ _ hyN] at hy'
        exact hI.closed.refs y oy hy' z hz
    show (define hs.objs hs.next o z).isSome = true
    exact define_isSome _ _ _ hzd
  · intro r hr
    obtain ⟨a, b, c⟩ := hI.logwf r hr
    exact ⟨a, b, Nat.le_trans c (Nat.le_succ _)⟩
  · intro y oy hy hl z hz
    by_cases hyN : y = hs.next
    · subst hyN
      have hy' : define hs.objs hs.next o hs.next = some oy := hy
      rw [define_same] at hy'
      cases hy'
      exact (hok z hz).2
    · have hy' : define hs.objs hs.next o y = some oy := hy
      rw [define_ne _ _ _ hyN] at hy'
      exact hI.outside y oy hy' hl z hz
  · intro m hm
    obtain ⟨hi, hmem, hreach⟩ := hI.members m hm
    refine ⟨hi, hmem, fun y hr => ?_⟩
    have hmN := (hI.member_lt hm).2
    obtain ⟨hyN, hr0⟩ := Reach_old hs.objs (define hs.objs hs.next o) hs.next hI.closed hold (.ref m) y hr
      (fun z hz => by cases hz; exact hmN)
    rcases hreach y hr0 with h | ⟨oy, hoy, hmy⟩
    · exact Or.inl h
    · exact Or.inr ⟨oy, by show define hs.objs hs.next o y = some oy; rw [hold y hyN]; exact hoy, hmy⟩
  · show hs.keys.map some = (hs.items.map (instFit P (define hs.objs hs.next o))).reverse
    rw [(hI.ext_items hE).1]
    exact hI.keyof

theorem alloc_rel (hI : Inv P base hs) {h : HoF PV α} (hR : Rel P hs h) (o : Obj) :
    Rel P { hs with objs := define hs.objs hs.next o, next := hs.next + 1 } h := by
  obtain ⟨_, h2, h3⟩ := hI.ext_items (alloc_ext hI o)
  exact ⟨hR.msz, by rw [hR.keys]; exact h3.symm, by rw [← hR.items]; exact h2⟩

end Alloc

/-! ### Histories -/

/-- The pure archive's run on a list of populations. -/
def pureRun (P : Params α) (pf : Bool) (h : HoF PV α) (hist : List (List (Ind PV α))) : Option (HoF PV α) :=
  if pf then Archive.pfRun P.sim h hist else Archive.run P.sim h hist

theorem pureRun_nil (P : Params α) (pf : Bool) (h : HoF PV α) : pureRun P pf h [] = some h := by
  cases pf <;> rfl

theorem pureRun_cons (P : Params α) (pf : Bool) (h : HoF PV α) (b : List (Ind PV α))
    (bs : List (List (Ind PV α))) :
    pureRun P pf h (b :: bs) =
      match (if pf then Archive.pfUpdate P.sim h b else Archive.update P.sim h b) with
      | none => none
      | some h' => pureRun P pf h' bs := by
  cases pf
  · simp [pureRun, Archive.run]
    cases Archive.update P.sim h b <;> rfl
  · simp [pureRun, Archive.pfRun]
    cases Archive.pfUpdate P.sim h b <;> rfl

theorem views_of_subm {P : Params α} {hs : HState} (pop : List Oid) (h : ∀ x ∈ pop, Subm P hs x) :
    pop.map (viewInd P hs.objs) = (pop.filterMap (viewInd P hs.objs)).map some := by
  induction pop with
  | nil => rfl
  | cons x xs ih =>
    obtain ⟨_, _, f, hf⟩ := h x List.mem_cons_self
    have hv := viewInd_of_instFit hf
    simp only [List.map_cons, List.filterMap_cons, hv, ih (fun y hy => h y (List.mem_cons_of_mem _ hy))]

/-- One `update` event in lockstep with the pure archive. -/
theorem upd_lock {P : Params α} {base : Nat} (hsim : SimErase P.sim) (hct : CTOk P.ct) (pf : Bool)
    {hs : HState} {h : HoF PV α} (hI : Inv P base hs) (hR : Rel P hs h) (pop : List Oid)
    (hpop : ∀ x ∈ pop, Subm P hs x) :
    Lock P base hs (execEv P pf hs (.upd pop))
      (if pf then Archive.pfUpdate P.sim h (pop.filterMap (viewInd P hs.objs))
       else Archive.update P.sim h (pop.filterMap (viewInd P hs.objs))) := by
  have e := views_of_subm pop hpop
  cases pf with
  | true => exact pfUpdate_lock hsim hct pop _ hs h hI hR hpop e
  | false => exact update_lock hsim hct hI hR pop _ hpop e

theorem Inv.reach_outside {P : Params α} {base : Nat} {hs : HState} (hI : Inv P base hs) :
    ∀ (v : Val) (y : Oid), Reach hs.objs v y → (∀ x, v = .ref x → ¬ InLog hs.log x) → ¬ InLog hs.log y := by
  intro v y h
  induction h with
  | here x => exact fun hx => hx x rfl
  | step x o c y ho hc _ ih =>
    intro hx
    apply ih
    intro z hz
    subst hz
    exact hI.outside x o ho (hx x rfl) z hc

/-- Everything about a history: lockstep with the pure archive on the populations as the archive saw them,
the invariant at the end, members that survive denote what they denoted, submitted individuals stay outside
the archive's ranges. -/
theorem run_facts {P : Params α} {base : Nat} (hsim : SimErase P.sim) (hct : CTOk P.ct) (pf : Bool) :
    ∀ (evs : List Ev) (hs : HState) (h : HoF PV α), Inv P base hs → Rel P hs h → Valid P pf hs evs →
      match runH P pf hs evs, pureRun P pf h (histOf P pf hs evs) with
      | some hs', some h' => Inv P base hs' ∧ Rel P hs' h' ∧ Mono hs hs' ∧ Stable hs hs' ∧
          (∀ s ∈ submittedOf evs, ¬ InLog hs'.log s) ∧ (CallerOnly evs → h' = h ∧ hs'.items = hs.items ∧
            hs'.keys = hs.keys)
      | none, none => True
      | _, _ => False := by
  intro evs
  induction evs with
  | nil =>
    intro hs h hI hR _
    simp only [runH, histOf, pureRun_nil]
    exact ⟨hI, hR, Mono.refl hs, fun _ _ _ _ => rfl, fun s hs' => (by cases hs'), fun _ => ⟨trivial, trivial, trivial⟩⟩
  | cons e es ih =>
    intro hs h hI hR hV
    obtain ⟨hok, hV'⟩ := hV
    cases e with
    | upd pop =>
      have hl := upd_lock hsim hct pf hI hR pop hok
      simp only [runH, histOf, pureRun_cons]
      cases hr : (if pf then Archive.pfUpdate P.sim h (pop.filterMap (viewInd P hs.objs))
          else Archive.update P.sim h (pop.filterMap (viewInd P hs.objs))) with
      | none =>
        rw [hr] at hl
        cases hr' : execEv P pf hs (.upd pop) with
        | none => trivial
        | some _ => rw [hr'] at hl; exact hl.elim
      | some h1 =>
        rw [hr] at hl
        cases hr' : execEv P pf hs (.upd pop) with
        | none => rw [hr'] at hl; exact hl.elim
        | some hs1 =>
          rw [hr'] at hl
          obtain ⟨hI1, hR1, hE1⟩ := hl
          have := ih hs1 h1 hI1 hR1 (hV' hs1 hr')
          simp only
          cases hrun : runH P pf hs1 es with
          | none =>
            rw [hrun] at this
            cases hp : pureRun P pf h1 (histOf P pf hs1 es) with
            | none => trivial
            | some _ => rw [hp] at this; exact this.elim
          | some hs2 =>
            rw [hrun] at this
            cases hp : pureRun P pf h1 (histOf P pf hs1 es) with
            | none => rw [hp] at this; exact this.elim
            | some h2 =>
              rw [hp] at this
              obtain ⟨hI2, hR2, hM2, hS2, hsub2, _⟩ := this
              have hM : Mono hs hs2 := hE1.mono.trans hM2
              refine ⟨hI2, hR2, hM, ?_, ?_, fun hc => hc.elim⟩
              · intro x hx hx2 m
                have hx1 : x ∈ hs1.items := by
                  rcases hM2.items x hx2 with h' | h'
                  · exact h'
                  · have := (hI.member_lt hx).2
                    have := hE1.next
                    oomega
                obtain ⟨k, _, hk⟩ := hI.member_fit hx
                rw [hS2 x hx1 hx2 m, (view_ext hI.closed hE1 hk).1 m]
              · intro s hs'
                simp only [submittedOf, List.mem_append] at hs'
                rcases hs' with hs' | hs'
                · obtain ⟨hnl, _, f, hf⟩ := hok s hs'
                  obtain ⟨o, ho, _, _⟩ := instFit_spec hf
                  have hsN : s < hs.next := lt_of_defined hI.closed ho
                  intro hl
                  rcases hM.logNew s hl with h' | h'
                  · exact hnl h'
                  · oomega
                · exact hsub2 s hs'
    | write x o =>
      have hI1 := (write_facts hI hok).1
      have hR1 := write_rel hI hR hok
      have hmem := (write_facts hI hok).2.1
      have hr' : execEv P pf hs (.write x o) = some { hs with objs := write hs.objs x o } := rfl
      have := ih _ h hI1 hR1 (hV' _ hr')
      simp only [runH, histOf, hr']
      cases hrun : runH P pf { hs with objs := write hs.objs x o } es with
      | none =>
        rw [hrun] at this
        cases hp : pureRun P pf h (histOf P pf { hs with objs := write hs.objs x o } es) with
        | none => trivial
        | some _ => rw [hp] at this; exact this.elim
      | some hs2 =>
        rw [hrun] at this
        cases hp : pureRun P pf h (histOf P pf { hs with objs := write hs.objs x o } es) with
        | none => rw [hp] at this; exact this.elim
        | some h2 =>
          rw [hp] at this
          obtain ⟨hI2, hR2, hM2, hS2, hsub2, hco2⟩ := this
          refine ⟨hI2, hR2, ⟨hM2.next, hM2.logNew, hM2.items, hM2.maxsize⟩, ?_, hsub2, hco2⟩
          intro m hm hm2 d
          rw [hS2 m hm hm2 d]
          exact (hmem m hm).1 d
    | alloc o =>
      have hI1 := alloc_inv hI hok
      have hR1 := alloc_rel hI hR o
      have hE1 := alloc_ext hI o
      have hr' : execEv P pf hs (.alloc o)
          = some { hs with objs := define hs.objs hs.next o, next := hs.next + 1 } := rfl
      have := ih _ h hI1 hR1 (hV' _ hr')
      simp only [runH, histOf, hr']
      cases hrun : runH P pf { hs with objs := define hs.objs hs.next o, next := hs.next + 1 } es with
      | none =>
        rw [hrun] at this
        cases hp : pureRun P pf h
            (histOf P pf { hs with objs := define hs.objs hs.next o, next := hs.next + 1 } es) with
        | none => trivial
        | some _ => rw [hp] at this; exact this.elim
      | some hs2 =>
        rw [hrun] at this
        cases hp : pureRun P pf h
            (histOf P pf { hs with objs := define hs.objs hs.next o, next := hs.next + 1 } es) with
        | none => rw [hp] at this; exact this.elim
        | some h2 =>
          rw [hp] at this
          obtain ⟨hI2, hR2, hM2, hS2, hsub2, hco2⟩ := this
          refine ⟨hI2, hR2, hE1.mono.trans hM2, ?_, hsub2, hco2⟩
          intro m hm hm2 d
          obtain ⟨k, _, hk⟩ := hI.member_fit hm
          rw [hS2 m hm hm2 d]
          exact (view_ext hI.closed hE1 hk).1 d

/-! ### Splitting a history -/

theorem runH_append (P : Params α) (pf : Bool) (a b : List Ev) (hs : HState) :
    runH P pf hs (a ++ b) = match runH P pf hs a with
      | none => none
      | some hs' => runH P pf hs' b := by
  induction a generalizing hs with
  | nil => rfl
  | cons e es ih =>
    simp only [List.cons_append, runH]
    cases execEv P pf hs e with
    | none => rfl
    | some hs1 => exact ih hs1

theorem Valid.left {P : Params α} {pf : Bool} {a b : List Ev} {hs : HState} (h : Valid P pf hs (a ++ b)) :
    Valid P pf hs a := by
  induction a generalizing hs with
  | nil => trivial
  | cons e es ih => exact ⟨h.1, fun hs' he => ih (h.2 hs' he)⟩

theorem Valid.right {P : Params α} {pf : Bool} {a b : List Ev} {hs st : HState}
    (h : Valid P pf hs (a ++ b)) (hr : runH P pf hs a = some st) : Valid P pf st b := by
  induction a generalizing hs with
  | nil => cases hr; exact h
  | cons e es ih =>
    simp only [runH] at hr
    cases he : execEv P pf hs e with
    | none => rw [he] at hr; cases hr
    | some hs1 =>
      rw [he] at hr
      exact ih (h.2 hs1 he) hr

theorem pureRun_false (P : Params α) (h : HoF PV α) (hist : List (List (Ind PV α))) :
    pureRun P false h hist = Archive.run P.sim h hist := by
  simp [pureRun]

theorem pureRun_true (P : Params α) (h : HoF PV α) (hist : List (List (Ind PV α))) :
    pureRun P true h hist = Archive.pfRun P.sim h hist := by
  simp [pureRun]

/-! ### The empty archive -/

theorem inv_empty (P : Params α) (m : Nat) {objs : Oid → Option Obj} {next : Nat} (hcl : Closed objs next) :
    Inv P next (emptyH m objs next) :=
  ⟨hcl, Nat.le_refl _, fun r hr => (by cases hr), List.Pairwise.nil, fun y o _ _ z _ h => (by
      obtain ⟨r, hr, _⟩ := h
      cases hr),
    fun x hx => (by cases hx), List.Pairwise.nil, rfl⟩

theorem rel_empty (P : Params α) (m b : Nat) (objs : Oid → Option Obj) (next : Nat) :
    Rel P (emptyH m objs next) (Archive.empty m b : HoF PV α) := ⟨rfl, rfl, rfl⟩

end C08H
