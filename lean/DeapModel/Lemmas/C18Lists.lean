/-
C18 helper lemmas, part A: plain lists — removing a set of positions, erasing positions one by
one in descending order (what `Logbook.__delitem__` does for a slice), insertion sort.
-/
import DeapModel.Core.Logbook
import Mathlib.Data.List.Basic
import Mathlib.Data.List.Nodup

namespace C18L
open Logbook

variable {α β : Type}

/-- `l` without the items whose position is in `S` ("exactly the addressed records removed"). -/
def removeIdx (S : List Nat) (l : List α) : List α :=
  (l.zipIdx.filter fun p => decide (p.2 ∉ S)).map (·.1)

/-- the same with an explicit position offset, convenient for induction -/
def keepFrom (k : Nat) (S : List Nat) : List α → List α
  | [] => []
  | x :: xs => if k ∈ S then keepFrom (k + 1) S xs else x :: keepFrom (k + 1) S xs

theorem keepFrom_eq (k : Nat) (S : List Nat) (l : List α) :
    keepFrom k S l = ((l.zipIdx k).filter fun p => decide (p.2 ∉ S)).map (·.1) := by
  induction l generalizing k with
  | nil => simp [keepFrom]
  | cons x xs ih =>
    simp only [keepFrom, List.zipIdx_cons, List.filter_cons]
    by_cases h : k ∈ S <;> simp [h, ih]

theorem removeIdx_eq_keepFrom (S : List Nat) (l : List α) : removeIdx S l = keepFrom 0 S l := by
  rw [keepFrom_eq]; rfl

theorem keepFrom_congr (k : Nat) (S T : List Nat) (h : ∀ j, j ∈ S ↔ j ∈ T) (l : List α) :
    keepFrom k S l = keepFrom k T l := by
  induction l generalizing k with
  | nil => rfl
  | cons x xs ih => simp only [keepFrom, h k, ih]

theorem keepFrom_all_below (k : Nat) (S : List Nat) (h : ∀ j ∈ S, j < k) (l : List α) :
    keepFrom k S l = l := by
  induction l generalizing k with
  | nil => rfl
  | cons x xs ih =>
    have hk : k ∉ S := fun hm => Nat.lt_irrefl _ (h k hm)
    simp only [keepFrom, hk, if_false]
    rw [ih (k + 1) (fun j hj => Nat.lt_succ_of_lt (h j hj))]

theorem keepFrom_map (f : α → β) (k : Nat) (S : List Nat) (l : List α) :
    keepFrom k S (l.map f) = (keepFrom k S l).map f := by
  induction l generalizing k with
  | nil => rfl
  | cons x xs ih => simp only [List.map_cons, keepFrom]; split <;> simp [ih]

theorem removeIdx_map (f : α → β) (S : List Nat) (l : List α) :
    removeIdx S (l.map f) = (removeIdx S l).map f := by
  simp only [removeIdx_eq_keepFrom, keepFrom_map]

theorem removeIdx_nil (l : List α) : removeIdx [] l = l := by
  rw [removeIdx_eq_keepFrom]; exact keepFrom_all_below 0 [] (by simp) l

/-- erasing position `i` first and then a set of smaller positions = removing all of them -/
theorem keepFrom_eraseIdx (k i : Nat) (S : List Nat) (h : ∀ j ∈ S, j < k + i) (l : List α) :
    keepFrom k S (l.eraseIdx i) = keepFrom k ((k + i) :: S) l := by
  induction l generalizing k i with
  | nil => simp [keepFrom]
  | cons x xs ih =>
    cases i with
    | zero =>
      simp only [List.eraseIdx_zero, List.tail_cons, keepFrom, Nat.add_zero, List.mem_cons, true_or,
        if_true]
      rw [keepFrom_all_below k S (by simpa using h), keepFrom_all_below (k + 1) (k :: S)]
      intro j hj
      rcases List.mem_cons.1 hj with rfl | hj
      · exact Nat.lt_succ_self _
      · exact Nat.lt_succ_of_lt (by simpa using h j hj)
    | succ i =>
      have hne : k ≠ k + (i + 1) := by omega
      have e : k + (i + 1) = k + 1 + i := by omega
      simp only [List.eraseIdx_cons_succ, keepFrom, List.mem_cons, hne, false_or]
      rw [ih (k + 1) i (by intro j hj; have := h j hj; omega), e]

/-- erase the positions one after the other, in the order given -/
def eraseAll : List Nat → List α → List α
  | [], l => l
  | i :: is, l => eraseAll is (l.eraseIdx i)

theorem eraseAll_desc (ds : List Nat) (hd : ds.Pairwise (· > ·)) (l : List α) :
    eraseAll ds l = removeIdx ds l := by
  induction ds generalizing l with
  | nil => simp [eraseAll, removeIdx_nil]
  | cons i is ih =>
    rw [List.pairwise_cons] at hd
    simp only [eraseAll]
    rw [ih hd.2, removeIdx_eq_keepFrom, removeIdx_eq_keepFrom,
      keepFrom_eraseIdx 0 i is (by intro j hj; simpa using hd.1 j hj)]
    simp

theorem eraseAll_map (f : α → β) (ds : List Nat) (l : List α) :
    eraseAll ds (l.map f) = (eraseAll ds l).map f := by
  induction ds generalizing l with
  | nil => rfl
  | cons i is ih =>
    simp only [eraseAll]
    have : (l.map f).eraseIdx i = (l.eraseIdx i).map f := by
      induction l generalizing i with
      | nil => simp
      | cons x xs ihx => cases i <;> simp [ihx]
    rw [this, ih]

theorem length_eraseAll_desc (ds : List Nat) (hd : ds.Pairwise (· > ·)) (l : List α)
    (hr : ∀ i ∈ ds, i < l.length) : (eraseAll ds l).length = l.length - ds.length := by
  induction ds generalizing l with
  | nil => simp [eraseAll]
  | cons i is ih =>
    rw [List.pairwise_cons] at hd
    have hi : i < l.length := hr i (by simp)
    simp only [eraseAll, List.length_cons]
    rw [ih hd.2]
    · simp [List.length_eraseIdx, hi]; omega
    · intro j hj
      have h1 : j < i := hd.1 j hj
      simp [List.length_eraseIdx, hi]; omega

/-! ### `sortDesc` -/

theorem mem_insertDesc (x y : Nat) (l : List Nat) : y ∈ insertDesc x l ↔ y = x ∨ y ∈ l := by
  induction l with
  | nil => simp [insertDesc]
  | cons z zs ih =>
    simp only [insertDesc]
    split
    · simp
    · simp [ih]; tauto

theorem mem_sortDesc (y : Nat) (l : List Nat) : y ∈ sortDesc l ↔ y ∈ l := by
  induction l with
  | nil => simp [sortDesc]
  | cons x xs ih => simp [sortDesc, mem_insertDesc, ih]

theorem length_insertDesc (x : Nat) (l : List Nat) : (insertDesc x l).length = l.length + 1 := by
  induction l with
  | nil => rfl
  | cons z zs ih => simp only [insertDesc]; split <;> simp [ih]

theorem length_sortDesc (l : List Nat) : (sortDesc l).length = l.length := by
  induction l with
  | nil => rfl
  | cons x xs ih => simp [sortDesc, length_insertDesc, ih]

theorem insertDesc_strict (x : Nat) (l : List Nat) (hl : l.Pairwise (· > ·)) (hx : x ∉ l) :
    (insertDesc x l).Pairwise (· > ·) := by
  induction l with
  | nil => simp [insertDesc]
  | cons z zs ih =>
    rw [List.pairwise_cons] at hl
    have hxz : x ≠ z := fun e => hx (by simp [e])
    have hxzs : x ∉ zs := fun e => hx (by simp [e])
    simp only [insertDesc]
    split
    · next hle =>
      have hlt : z < x := by omega
      refine List.pairwise_cons.2 ⟨?_, List.pairwise_cons.2 hl⟩
      intro a ha
      rcases List.mem_cons.1 ha with rfl | ha
      · exact hlt
      · have := hl.1 a ha; omega
    · next hnle =>
      have hlt : x < z := by omega
      refine List.pairwise_cons.2 ⟨?_, ih hl.2 hxzs⟩
      intro a ha
      rcases (mem_insertDesc x a zs).1 ha with rfl | ha
      · exact hlt
      · exact hl.1 a ha

theorem sortDesc_strict (l : List Nat) (hn : l.Nodup) : (sortDesc l).Pairwise (· > ·) := by
  induction l with
  | nil => simp [sortDesc]
  | cons x xs ih =>
    rw [List.nodup_cons] at hn
    exact insertDesc_strict x _ (ih hn.2) (by rw [mem_sortDesc]; exact hn.1)

/-- Deleting the positions of a slice one by one in descending order removes exactly the
addressed items. -/
theorem eraseAll_sortDesc (idx : List Nat) (hn : idx.Nodup) (l : List α) :
    eraseAll (sortDesc idx) l = removeIdx idx l := by
  rw [eraseAll_desc _ (sortDesc_strict idx hn), removeIdx_eq_keepFrom, removeIdx_eq_keepFrom]
  exact keepFrom_congr 0 _ _ (fun j => mem_sortDesc j idx) l

example : removeIdx [2, 0] [10, 11, 12, 13] = [11, 13] := by decide
example : eraseAll (sortDesc [0, 2]) [10, 11, 12, 13] = [11, 13] := by decide

end C18L
