/-
C16 — a concrete class table and heap used by the `example`s of `Props/C16.lean` (instances of the
theorems' hypotheses).
-/
import DeapModel.Core.Heap
import DeapModel.Lemmas.C16Defs

namespace C16
open Heap

namespace Ex

/-- `creator.create("FitnessMin", base.Fitness, weights=(-1.0,))` (class 0),
`creator.create("Individual", list, fitness=creator.FitnessMin)` (class 1, `dict_inst` attribute 1),
`creator.create("Swarm", set, best=creator.Individual)` (class 2, `dict_inst` attribute 2; its
reduce tuple calls the class). -/
def ct : ClassTable :=
  [ ⟨.fitness, [], [(7, .atom (-1))]⟩,
    ⟨.plain, [(1, 0)], [(9, .atom 3)]⟩,
    ⟨.ctor, [(2, 1)], []⟩ ]

theorem ct_ok : CTOk ct := by
  intro c ci h p hp
  rcases c with _ | _ | _ | c
  · simp [ct] at h; subst h; simp at hp
  · simp [ct] at h; subst h; simp at hp; subst hp; decide
  · simp [ct] at h; subst h; simp at hp; subst hp; decide
  · simp [ct] at h

theorem ct_nodup : DictNodup ct := by
  intro c ci h
  rcases c with _ | _ | _ | c
  · simp [ct] at h; subst h; simp
  · simp [ct] at h; subst h; simp
  · simp [ct] at h; subst h; simp
  · simp [ct] at h

/-- A swarm (oid 0) whose `best` is an individual (oid 1) whose `fitness` is oid 2. -/
def heap : Oid → Option Obj := fun y =>
  if y = 0 then some ⟨2, [.atom 4], [(2, .ref 1)], true⟩
  else if y = 1 then some ⟨1, [.atom 5, .atom 6], [(1, .ref 2)], true⟩
  else if y = 2 then some ⟨0, [.atom 2], [], true⟩
  else none

theorem heap_closed : Closed heap 3 where
  bound := by
    intro x hx
    have h0 : x ≠ 0 := by omega
    have h1 : x ≠ 1 := by omega
    have h2 : x ≠ 2 := by omega
    simp [heap, h0, h1, h2]
  refs := by
    intro x o ho y hy
    unfold heap at ho
    split at ho
    · cases ho; simp [Obj.children] at hy; subst hy; rfl
    · split at ho
      · cases ho; simp [Obj.children] at hy; subst hy; rfl
      · split at ho
        · cases ho; simp [Obj.children] at hy
        · cases ho

/-- The heap of a fresh interpreter. -/
theorem empty_closed : Closed (fun _ => none) 0 where
  bound := fun _ _ => rfl
  refs := by intro x o ho; cases ho

theorem heap_pickleOK : Within ct PickleOK heap 3 (.ref 0) := by
  refine ⟨_, _, rfl, rfl, ?_, ?_⟩
  · intro _ p hp
    simp at hp; subst hp; rfl
  · intro c hc
    simp [Obj.children] at hc
    rcases hc with rfl | rfl
    · trivial
    · refine ⟨_, _, rfl, rfl, (fun h => by cases h), ?_⟩
      intro c hc
      simp [Obj.children] at hc
      rcases hc with rfl | rfl | rfl
      · trivial
      · trivial
      · refine ⟨_, _, rfl, rfl, (fun h => by cases h), ?_⟩
        intro c hc
        simp [Obj.children] at hc
        subst hc
        trivial

end Ex

namespace Ex2

/-- `creator.create("FitnessC", base.ConstrainedFitness, weights=(-1.0,))` (class 0) and
`creator.create("Individual", list, fitness=creator.FitnessC)` (class 1, `dict_inst` attribute 1):
creating an individual creates its constrained fitness, on which `base.__init__` sets
`constraint_violation = None`. -/
def ct : ClassTable :=
  [ ⟨.cfitness, [], [(7, .atom (-1))]⟩,
    ⟨.plain, [(1, 0)], []⟩ ]

theorem ct_ok : CTOk ct := by
  intro c ci h p hp
  rcases c with _ | _ | c
  · simp [ct] at h; subst h; simp at hp
  · simp [ct] at h; subst h; simp at hp; subst hp; decide
  · simp [ct] at h

theorem ct_nodup : DictNodup ct := by
  intro c ci h
  rcases c with _ | _ | c
  · simp [ct] at h; subst h; simp
  · simp [ct] at h; subst h; simp
  · simp [ct] at h

/-- The only fitness class of the table has no `dict_inst` attributes. -/
theorem ct_createOK (c : ClsId) : CreateOK ct c := by
  intro c' ci _ h hk
  rcases c' with _ | _ | c'
  · simp [ct] at h; subst h; rfl
  · simp [ct] at h; subst h; rcases hk with hk | hk <;> cases hk
  · simp [ct] at h

end Ex2

namespace Ex

/-- The module `deap.creator` of the pickling interpreter: the classes of `Ex.ct`, the individual
class (class 1, `dict_cls` attribute `9 ↦ 3`) bound to the name 5 … -/
def modSrc : Module := ⟨ct, [(4, 0), (5, 1), (6, 2)], [4, 5, 6]⟩

/-- … and of an unpickling interpreter in which the name 5 is already bound to a *different*
individual class (`dict_cls` attribute `9 ↦ 4`, no fitness). -/
def modDst : Module := ⟨[⟨.plain, [], [(9, .atom 4)]⟩], [(5, 0)], [5]⟩

end Ex

/-- `Within ct CopyOK` for the swarm of `Ex.heap`: the swarm (kind `ctor`, whose copy hook calls
the class) still has its `dict_inst` attribute, the fitness has no `__dict__` entries and numeric
`wvalues`. -/
theorem Ex.heap_copyOK : Within Ex.ct CopyOK Ex.heap 3 (.ref 0) := by
  refine ⟨_, _, rfl, rfl, ?_, ?_⟩
  · refine ⟨?_, (fun h => by cases h), (fun h => by cases h),
      (fun h => by rcases h with h | h <;> cases h), (fun h => by cases h)⟩
    intro _ p hp
    simp at hp; subst hp; rfl
  · intro c hc
    simp [Obj.children] at hc
    rcases hc with rfl | rfl
    · trivial
    · refine ⟨_, _, rfl, rfl, ?_, ?_⟩
      · exact ⟨(fun h => by cases h), (fun h => by cases h), (fun h => by cases h),
          (fun h => by rcases h with h | h <;> cases h), (fun h => by cases h)⟩
      · intro c hc
        simp [Obj.children] at hc
        rcases hc with rfl | rfl | rfl
        · trivial
        · trivial
        · refine ⟨_, _, rfl, rfl, ?_, ?_⟩
          · refine ⟨(fun _ p hp => by cases hp), (fun _ => ⟨rfl, fun _ => rfl, ?_⟩),
              (fun h => by cases h), (fun h => by rcases h with h | h <;> cases h),
              (fun h => by cases h)⟩
            intro c hc
            simp at hc; subst hc; rfl
          · intro c hc
            simp [Obj.children] at hc
            subst hc
            trivial


end C16
