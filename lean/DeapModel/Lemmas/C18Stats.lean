/-
Helper lemmas for the `MultiStatistics` state machine (`Core/StatsHist.lean`), used by `Props/C18.lean`.
-/
import DeapModel.Core.StatsHist
import DeapModel.Lemmas.C18Aux

set_option linter.unusedSectionVars false
set_option linter.unusedSimpArgs false
set_option linter.unusedVariables false

namespace C18L
open Logbook (Name)
open Stats

variable {δ κ φ ρ : Type}

/-! ### the dict -/

theorem mem_dSet (d : Dict) (k : Name) (v : Nat) (p : Name × Nat) (h : p ∈ dSet d k v) :
    p ∈ d ∨ p = (k, v) := by
  induction d with
  | nil => right; simpa [dSet] using h
  | cons q qs ih =>
    obtain ⟨k', v'⟩ := q
    simp only [dSet] at h
    by_cases hk : k' = k
    · simp only [hk, if_true] at h
      rcases List.mem_cons.1 h with h | h
      · exact Or.inr h
      · exact Or.inl (List.mem_cons_of_mem _ h)
    · simp only [hk, if_false] at h
      rcases List.mem_cons.1 h with h | h
      · exact Or.inl (by simp [h])
      · rcases ih h with h | h
        · exact Or.inl (List.mem_cons_of_mem _ h)
        · exact Or.inr h

theorem dHas_iff (d : Dict) (k : Name) : dHas d k = true ↔ k ∈ dKeys d := by
  simp only [dHas, dKeys, List.any_eq_true, List.mem_map, beq_iff_eq]

theorem dKeys_dSet (d : Dict) (k : Name) (v : Nat) :
    dKeys (dSet d k v) = if dHas d k then dKeys d else dKeys d ++ [k] := by
  induction d with
  | nil => simp [dSet, dKeys, dHas]
  | cons q qs ih =>
    obtain ⟨k', v'⟩ := q
    simp only [dSet]
    by_cases hk : k' = k
    · subst hk; simp [dKeys, dHas]
    · have hb : (k' == k) = false := by simpa using hk
      simp only [hk, if_false]
      simp only [dKeys, List.map_cons, dHas, List.any_cons, hb, Bool.false_or] at ih ⊢
      rw [ih]
      by_cases hh : (qs.any fun x => x.fst == k) = true <;> simp [hh]

theorem nodup_dSet (d : Dict) (k : Name) (v : Nat) (h : (dKeys d).Nodup) : (dKeys (dSet d k v)).Nodup := by
  rw [dKeys_dSet]
  by_cases hk : dHas d k = true
  · simp [hk, h]
  · simp only [hk, Bool.false_eq_true, if_false]
    have : k ∉ dKeys d := fun hm => hk ((dHas_iff d k).2 hm)
    exact List.nodup_append.2 ⟨h, by simp, by intro a ha b hb; simp at hb; subst hb; intro e; exact this (e ▸ ha)⟩

theorem nodup_dUpdate (d e : Dict) (h : (dKeys d).Nodup) : (dKeys (dUpdate d e)).Nodup := by
  induction e generalizing d with
  | nil => exact h
  | cons p ps ih => exact ih _ (nodup_dSet d p.1 p.2 h)

theorem mem_dUpdate (d e : Dict) (n : Nat) (hd : ∀ p ∈ d, p.2 < n) (he : idsOk n e = true) :
    ∀ p ∈ dUpdate d e, p.2 < n := by
  induction e generalizing d with
  | nil => exact hd
  | cons q qs ih =>
    simp only [idsOk, List.all_cons, Bool.and_eq_true, decide_eq_true_eq] at he
    refine ih (dSet d q.1 q.2) ?_ (by simpa [idsOk] using he.2)
    intro p hp
    rcases mem_dSet d q.1 q.2 p hp with h | h
    · exact hd p h
    · rw [h]; exact he.1

theorem dDel_sublist (d : Dict) (k : Name) : (dKeys (dDel d k)).Sublist (dKeys d) :=
  List.Sublist.map _ List.filter_sublist

theorem lookup_none_not_mem (d : Dict) (k : Name) (h : d.lookup k = none) : k ∉ dKeys d := by
  induction d with
  | nil => simp [dKeys]
  | cons q qs ih =>
    obtain ⟨k', v'⟩ := q
    by_cases hk : k = k'
    · subst hk; simp [List.lookup] at h
    · have hb : (k == k') = false := by simpa using hk
      simp only [List.lookup, hb] at h
      simp only [dKeys, List.map_cons, List.mem_cons, not_or]
      exact ⟨hk, ih h⟩

theorem lookup_some_mem (d : Dict) (k : Name) (v : Nat) (h : d.lookup k = some v) : (k, v) ∈ d := by
  induction d with
  | nil => simp [List.lookup] at h
  | cons q qs ih =>
    obtain ⟨k', v'⟩ := q
    by_cases hk : k = k'
    · subst hk; simp [List.lookup] at h; simp [h]
    · have hb : (k == k') = false := by simpa using hk
      simp only [List.lookup, hb] at h
      exact List.mem_cons_of_mem _ (ih h)

/-! ### the heap -/

theorem length_registerHeap (heap : List (Statistics δ κ φ ρ)) (ids : List Nat) (name : Name)
    (fn : φ → List κ → ρ) (args : φ) : (registerHeap heap ids name fn args).length = heap.length := by
  induction ids generalizing heap with
  | nil => rfl
  | cons i is ih =>
    simp only [registerHeap, List.foldl_cons] at ih ⊢
    rw [ih]; simp

/-- `ms.register`: what every object holds afterwards -/
theorem registerHeap_get (heap : List (Statistics δ κ φ ρ)) (ids : List Nat) (name : Name)
    (fn : φ → List κ → ρ) (args : φ) (id : Nat) (s : Statistics δ κ φ ρ) (hs : heap[id]? = some s) :
    ∃ s', (registerHeap heap ids name fn args)[id]? = some s' ∧ s'.key = s.key ∧
      ∀ n, s'.functions.lookup n =
        if n = name ∧ id ∈ ids then some (args, fn) else s.functions.lookup n := by
  induction ids generalizing heap s with
  | nil => exact ⟨s, hs, rfl, by simp⟩
  | cons i is ih =>
    simp only [registerHeap, List.foldl_cons]
    by_cases hi : i = id
    · subst hi
      have h1 : (heap.modify i fun s => Stats.register s name fn args)[i]? =
          some (Stats.register s name fn args) := by
        rw [List.getElem?_modify]; simp [hs]
      obtain ⟨s', e1, e2, e3⟩ := ih _ _ h1
      refine ⟨s', e1, by rw [e2]; rfl, ?_⟩
      intro n
      rw [e3 n]
      simp only [Stats.register, lookup_setFn]
      by_cases hn : n = name
      · simp [hn]
      · simp [hn]
    · have h1 : (heap.modify i fun s => Stats.register s name fn args)[id]? = some s := by
        rw [List.getElem?_modify]; simp [hs, hi]
      obtain ⟨s', e1, e2, e3⟩ := ih _ _ h1
      refine ⟨s', e1, e2, ?_⟩
      intro n
      rw [e3 n]
      have : (id ∈ i :: is) ↔ id ∈ is := by simp [Ne.symm hi]
      simp [this]

/-! ### invariant of the state machine -/

/-- every stored id is an object, the keys of the dict are distinct -/
def MInv (st : MS δ κ φ ρ) : Prop := (∀ p ∈ st.map, p.2 < st.heap.length) ∧ (dKeys st.map).Nodup

theorem minv_empty : MInv (MS.empty : MS δ κ φ ρ) := ⟨by simp [MS.empty], by simp [MS.empty, dKeys]⟩

theorem minv_step (st : MS δ κ φ ρ) (op : MOp δ κ φ ρ) (h : MInv st) : MInv (step st op).1 := by
  obtain ⟨h1, h2⟩ := h
  cases op with
  | alloc key =>
    refine ⟨?_, h2⟩
    intro p hp
    have := h1 p hp
    simp only [step, List.length_append, List.length_cons, List.length_nil]
    omega
  | regObj id name fn args =>
    simp only [step]
    split
    · exact ⟨by intro p hp; simpa using h1 p hp, h2⟩
    · exact ⟨h1, h2⟩
  | register name fn args =>
    exact ⟨by intro p hp; simpa [step, length_registerHeap] using h1 p hp, h2⟩
  | setItem k id =>
    simp only [step]
    split
    · rename_i hid
      refine ⟨?_, nodup_dSet _ _ _ h2⟩
      intro p hp
      rcases mem_dSet _ _ _ _ hp with h | h
      · exact h1 p h
      · rw [h]; exact hid
    · exact ⟨h1, h2⟩
  | delItem k =>
    simp only [step]
    split
    · exact ⟨fun p hp => h1 p (List.mem_of_mem_filter hp), List.Pairwise.sublist (dDel_sublist _ _) h2⟩
    · exact ⟨h1, h2⟩
  | update e =>
    simp only [step]
    split
    · rename_i he
      exact ⟨mem_dUpdate _ _ _ h1 he, nodup_dUpdate _ _ h2⟩
    · exact ⟨h1, h2⟩
  | ior e =>
    simp only [step]
    split
    · rename_i he
      exact ⟨mem_dUpdate _ _ _ h1 he, nodup_dUpdate _ _ h2⟩
    · exact ⟨h1, h2⟩
  | setDefault k id =>
    simp only [step]
    split
    · rename_i hid
      split
      · exact ⟨h1, h2⟩
      · rename_i hl
        refine ⟨?_, ?_⟩
        · intro p hp
          rcases List.mem_append.1 hp with h | h
          · exact h1 p h
          · simp at h; rw [h]; exact hid
        · have hk := lookup_none_not_mem _ _ hl
          simp only [dKeys, List.map_append, List.map_cons, List.map_nil]
          exact List.nodup_append.2 ⟨h2, by simp, by
            intro a ha b hb; simp at hb; subst hb; intro e; exact hk (e ▸ ha)⟩
    · exact ⟨h1, h2⟩
  | pop k =>
    simp only [step]
    split
    · exact ⟨fun p hp => h1 p (List.mem_of_mem_filter hp), List.Pairwise.sublist (dDel_sublist _ _) h2⟩
    · exact ⟨h1, h2⟩
  | popItem =>
    simp only [step]
    split
    · exact ⟨fun p hp => h1 p ((List.dropLast_sublist _).subset hp),
        List.Pairwise.sublist (List.Sublist.map _ (List.dropLast_sublist _)) h2⟩
    · exact ⟨h1, h2⟩
  | clear => exact ⟨by simp [step], by simp [step, dKeys]⟩
  | fields => exact ⟨h1, h2⟩
  | objFields id =>
    simp only [step]
    split <;> exact ⟨h1, h2⟩
  | compile data => exact ⟨h1, h2⟩

theorem minv_runFrom (st : MS δ κ φ ρ) (h : List (MOp δ κ φ ρ)) (hi : MInv st) : MInv (runFrom st h) := by
  induction h generalizing st with
  | nil => exact hi
  | cons op ops ih => exact ih _ (minv_step st op hi)

/-- with every id on the heap the resolved mapping has exactly the names of the dict, in order -/
theorem view_keys (st : MS δ κ φ ρ) (h : ∀ p ∈ st.map, p.2 < st.heap.length) :
    (view st).map (·.1) = dKeys st.map := by
  obtain ⟨heap, map⟩ := st
  simp only [view, dKeys] at h ⊢
  induction map with
  | nil => rfl
  | cons p ps ih =>
    have hp := h p (List.mem_cons_self ..)
    have hg : heap[p.2]? = some heap[p.2] := List.getElem?_eq_getElem hp
    simp only [List.filterMap_cons, hg, Option.map_some, List.map_cons]
    rw [ih (fun q hq => h q (List.mem_cons_of_mem _ hq))]

/-- observations leave the state alone -/
theorem step_obs (st : MS δ κ φ ρ) (op : MOp δ κ φ ρ) (h : op.isObs = true) : (step st op).1 = st := by
  cases op <;> simp [MOp.isObs] at h <;> simp only [step]
  split <;> rfl

/-! ### sorted(names) -/

theorem perm_insertSorted (a : Name) (l : List Name) : (insertSorted a l).Perm (a :: l) := by
  induction l with
  | nil => exact List.Perm.refl _
  | cons b l ih =>
    simp only [insertSorted]
    split
    · exact List.Perm.refl _
    · exact (List.Perm.cons b ih).trans (List.Perm.swap a b l)

theorem perm_sortNames (l : List Name) : (sortNames l).Perm l := by
  induction l with
  | nil => exact List.Perm.refl _
  | cons a l ih => exact (perm_insertSorted a _).trans (List.Perm.cons a ih)

theorem pairwise_insertSorted (a : Name) (l : List Name) (h : l.Pairwise (· ≤ ·)) :
    (insertSorted a l).Pairwise (· ≤ ·) := by
  induction l with
  | nil => simp [insertSorted]
  | cons b l ih =>
    simp only [insertSorted]
    have hb := List.pairwise_cons.1 h
    split
    · rename_i hab
      refine List.pairwise_cons.2 ⟨?_, h⟩
      intro c hc
      rcases List.mem_cons.1 hc with hc | hc
      · rw [hc]; exact hab
      · exact Nat.le_trans hab (hb.1 c hc)
    · rename_i hab
      refine List.pairwise_cons.2 ⟨?_, ih hb.2⟩
      intro c hc
      rcases List.mem_cons.1 ((perm_insertSorted a l).subset hc) with hc | hc
      · rw [hc]; exact Nat.le_of_lt (Nat.lt_of_not_le hab)
      · exact hb.1 c hc

theorem pairwise_sortNames (l : List Name) : (sortNames l).Pairwise (· ≤ ·) := by
  induction l with
  | nil => simp [sortNames]
  | cons a l ih => exact pairwise_insertSorted a _ ih

end C18L
