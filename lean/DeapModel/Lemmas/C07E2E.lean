/-
C07 — `selSPEA2E` (strengths, raw fitness, squared distances, quick-select and densities computed
from the weights and the weighted values): it is `selSPEA2` for the distances and densities the
model computed itself, every density is `1 / (kth + 2)` with `kth` the order statistic of the row of
distances, it answers on every tape of `N (N - 1)` pivot draws, and the quick-select only depends on
the integer part of its index argument (so `K = sqrt N` is represented by `Nat.sqrt N`).
-/
import DeapModel.Lemmas.C07QSel
import DeapModel.Lemmas.C07Ovf
import Mathlib.Algebra.Order.Field.Basic

set_option linter.unusedSectionVars false
set_option linter.unusedVariables false

namespace C07L
open Spea2

/-! ### the quick-select reads only the integer part of `i` -/

section Floor
variable {β : Type} [Ring β] [LinearOrder β] [IsStrictOrderedRing β]

theorem randomizedSelect_floor :
    ∀ (fuel : Nat) (a : List β) (b e : Nat) (i : β) (r : Nat) (tape : List Nat),
      (r : β) ≤ i → i < (r : β) + 1 →
      randomizedSelect (fun n => (n : β)) fuel a b e i tape =
        randomizedSelect (fun n => (n : β)) fuel a b e (r : β) tape := by
  intro fuel
  induction fuel with
  | zero => intro a b e i r tape _ _; rfl
  | succ fuel ih =>
    intro a b e i r tape hi1 hi2
    unfold randomizedSelect
    split
    · rfl
    · cases tape with
      | nil => rfl
      | cons d tape' =>
        simp only
        cases randomizedPartition a b e d with
        | none => rfl
        | some p =>
          obtain ⟨a', q⟩ := p
          simp only
          by_cases hik : i < ((q - b + 1 : Nat) : β)
          · have hrk : (r : β) < ((q - b + 1 : Nat) : β) := lt_of_le_of_lt hi1 hik
            rw [if_pos hik, if_pos hrk]
            exact ih a' b q i r tape' hi1 hi2
          · have hkr : q - b + 1 ≤ r := by
              have h1 : ((q - b + 1 : Nat) : β) ≤ i := not_lt.1 hik
              have h2 : ((q - b + 1 : Nat) : β) < ((r + 1 : Nat) : β) := by
                rw [Nat.cast_add r 1, Nat.cast_one]; exact lt_of_le_of_lt h1 hi2
              have := Nat.cast_lt.1 h2
              omega
            have hrk : ¬ (r : β) < ((q - b + 1 : Nat) : β) := by
              rw [Nat.cast_lt]; omega
            have hcast : ((r - (q - b + 1) : Nat) : β) = (r : β) - ((q - b + 1 : Nat) : β) :=
              Nat.cast_sub hkr
            rw [if_neg hik, if_neg hrk, ← hcast]
            exact ih a' (q + 1) e _ (r - (q - b + 1)) tape'
              (by rw [hcast]; exact sub_le_sub_right hi1 _)
              (by rw [hcast]
                  have := sub_lt_sub_right hi2 ((q - b + 1 : Nat) : β)
                  rwa [add_sub_right_comm] at this)

end Floor

/-! ### the threaded quick-select answers on every tape that is long enough -/

section Total
variable {α : Type} [LinearOrder α] [Sub α]

theorem randomizedSelectT_total (ofNat : Nat → α) :
    ∀ (fuel : Nat) (a : List α) (b e : Nat) (i : α) (tape : List Nat),
      b ≤ e → e < a.length → e - b < fuel → e - b ≤ tape.length →
      ∃ v rest, randomizedSelectT ofNat fuel a b e i tape = some (v, rest) ∧
        tape.length ≤ rest.length + (e - b) := by
  intro fuel
  induction fuel with
  | zero => intro a b e i tape _ _ h; omega
  | succ fuel ih =>
    intro a b e i tape hbe he hf ht
    unfold randomizedSelectT
    by_cases hEq : b = e
    · simp only [hEq, if_true]
      rw [List.getElem?_eq_getElem he]
      exact ⟨a[e], tape, rfl, by omega⟩
    · simp only [hEq, if_false]
      cases tape with
      | nil => simp only [List.length_nil] at ht; omega
      | cons r tape' =>
        simp only [List.length_cons] at ht ⊢
        obtain ⟨a', q, h1, h2, h3, h4, _⟩ := randomizedPartition_spec a b e r (by omega) he
        simp only [h1]
        split
        · obtain ⟨v, rest, hv, hl⟩ := ih a' b q i tape' h3 (by omega) (by omega) (by omega)
          exact ⟨v, rest, hv, by omega⟩
        · obtain ⟨v, rest, hv, hl⟩ :=
            ih a' (q + 1) e (i - ofNat (q - b + 1)) tape' (by omega) (by omega) (by omega) (by omega)
          exact ⟨v, rest, hv, by omega⟩

end Total

/-! ### the density loop -/

section Dens
variable {β : Type} [Field β] [LinearOrder β] [IsStrictOrderedRing β]

/-- what one round of the density loop appends -/
def DensOK (dom : Nat → Nat → Bool) (vals : Nat → List β) (N i : Nat) (f : β) : Prop :=
  ∃ kth, (sortL (distRow (fun n => (n : β)) vals N i))[Nat.sqrt N]? = some kth ∧
    f = (rawFit dom N i : β) + 1 / (kth + 2)

theorem densLoop_spec (dom : Nat → Nat → Bool) (vals : Nat → List β) (N : Nat) (hN : 2 ≤ N) :
    ∀ (n i : Nat) (acc : List β) (tape : List Nat) (fits : List β) (rest : List Nat),
      acc.length = i →
      (∀ t (ht : t < i), DensOK dom vals N t (acc.reverse.getD t 0)) →
      densLoop (fun n => (n : β)) dom vals N n i acc tape = some (fits, rest) →
      fits.length = i + n ∧ ∀ t, t < i + n → DensOK dom vals N t (fits.getD t 0) := by
  intro n
  induction n with
  | zero =>
    intro i acc tape fits rest hl hacc h
    simp only [densLoop, Option.some.injEq, Prod.mk.injEq] at h
    rw [← h.1]
    exact ⟨by simp [hl], fun t ht => hacc t ht⟩
  | succ n ih =>
    intro i acc tape fits rest hl hacc h
    unfold densLoop at h
    split at h
    · exact absurd h (by simp)
    · rename_i kth tape' hsel
      have hsel' := randomizedSelectT_fst (fun n => (n : β)) (N + 2)
        (distRow (fun n => (n : β)) vals N i) 0 (N - 1) ((Nat.sqrt N : Nat) : β) tape
      rw [hsel] at hsel'
      simp only [Option.map_some] at hsel'
      have hk := randomizedSelect_correct_aux (N + 2) (distRow (fun n => (n : β)) vals N i) 0 (N - 1)
        ((Nat.sqrt N : Nat) : β) (Nat.sqrt N) tape kth (by omega)
        (by simp [distRow]; omega)
        (by have := Nat.sqrt_lt_self (show 1 < N by omega); omega)
        (le_refl _) (lt_add_one _) hsel'.symm
      have hseg : seg (distRow (fun n => (n : β)) vals N i) 0 (N - 1) =
          distRow (fun n => (n : β)) vals N i := by
        unfold seg
        have : N - 1 + 1 - 0 = (distRow (fun n => (n : β)) vals N i).length := by
          simp [distRow]; omega
        rw [List.drop_zero, this, List.take_length]
      rw [hseg] at hk
      have := ih (i + 1) _ tape' fits rest (by simp [hl]) ?_ h
      · refine ⟨by omega, fun t ht => this.2 t (by omega)⟩
      · intro t ht
        simp only [List.reverse_cons]
        by_cases hti : t < i
        · have hlt : t < acc.reverse.length := by simp [hl, hti]
          rw [List.getD_eq_getElem?_getD, List.getElem?_append_left hlt, ← List.getD_eq_getElem?_getD]
          exact hacc t hti
        · have hte : t = i := by omega
          subst hte
          rw [List.getD_eq_getElem?_getD, List.getElem?_append_right (by simp [hl])]
          simp only [List.length_reverse, hl, Nat.sub_self, List.getElem?_cons_zero, Option.getD_some]
          exact ⟨kth, hk, by simp⟩

theorem densLoop_total (dom : Nat → Nat → Bool) (vals : Nat → List β) (N : Nat) :
    ∀ (n i : Nat) (acc : List β) (tape : List Nat), (1 ≤ n → 1 ≤ N) → n * (N - 1) ≤ tape.length →
      (densLoop (fun n => (n : β)) dom vals N n i acc tape).isSome := by
  intro n
  induction n with
  | zero => intro i acc tape _ _; rfl
  | succ n ih =>
    intro i acc tape hN' ht
    have hN : 1 ≤ N := hN' (by omega)
    unfold densLoop
    have hmul : (n + 1) * (N - 1) = n * (N - 1) + (N - 1) := by rw [Nat.succ_mul]
    obtain ⟨v, rest, hv, hl⟩ := randomizedSelectT_total (fun n => (n : β)) (N + 2)
      (distRow (fun n => (n : β)) vals N i) 0 (N - 1) ((Nat.sqrt N : Nat) : β) tape (by omega)
      (by simp [distRow]; omega) (by omega) (by omega)
    rw [hv]
    exact ih _ _ _ (fun _ => hN) (by omega)

end Dens

/-! ### the whole function -/

section E2E
variable {β : Type} [Field β] [LinearOrder β] [IsStrictOrderedRing β]

/-- the distances the end-to-end model computes -/
def distE (w : List β) (wv : List (List β)) (i j : Nat) : β :=
  sqDist (fun n => (n : β)) (valuesOf w (wv.getD i [])) (valuesOf w (wv.getD j []))

/-- `selSPEA2E` is `selSPEA2` on the dominance of the weighted values, the squared distances of the
values, and (archive too small) densities each of which is `raw + 1 / (kth + 2)` with `kth` the
`⌊sqrt N⌋`-th smallest entry of that individual's row of distances. -/
theorem selSPEA2E_eq (w : List β) (wv : List (List β)) (k : Nat) (tape : List Nat) (res : List Nat)
    (h : selSPEA2E (fun n => (n : β)) w wv k tape = some res) :
    ∃ fits : Nat → β,
      res = selSPEA2 (domW wv) wv.length k fits (distE w wv) ∧
      ((chosen0 (domW wv) wv.length).length < k → 2 ≤ wv.length →
        ∀ t, t < wv.length →
          DensOK (domW wv) (fun i => valuesOf w (wv.getD i [])) wv.length t (fits t)) := by
  unfold selSPEA2E at h
  simp only [] at h
  split at h
  · rename_i hsmall
    split at h
    · exact absurd h (by simp)
    · rename_i fits rest hd
      simp only [Option.some.injEq] at h
      refine ⟨fun i => fits.getD i 0, ?_, ?_⟩
      · rw [← h]; unfold selSPEA2; simp only [hsmall, if_true]; simp
      · intro _ hN t ht
        have := densLoop_spec (domW wv) (fun i => valuesOf w (wv.getD i [])) wv.length hN
          wv.length 0 [] tape fits rest rfl (fun t ht => by omega) hd
        exact this.2 t (by omega)
  · rename_i hns
    refine ⟨fun _ => 0, ?_, fun hc => absurd hc hns⟩
    unfold selSPEA2
    simp only [hns, if_false]
    split at h
    · rename_i hl
      simp only [Option.some.injEq] at h
      simp only [hl, if_true]; rw [← h]; rfl
    · rename_i hl
      simp only [Option.some.injEq] at h
      simp only [hl, if_false]; exact h.symm

theorem selSPEA2E_total (w : List β) (wv : List (List β)) (k : Nat) (tape : List Nat)
    (ht : wv.length * (wv.length - 1) ≤ tape.length) :
    (selSPEA2E (fun n => (n : β)) w wv k tape).isSome := by
  unfold selSPEA2E
  simp only []
  split
  · rename_i hsmall
    have := densLoop_total (domW wv) (fun i => valuesOf w (wv.getD i [])) wv.length wv.length 0 []
      tape (fun h => h) ht
    cases hd : densLoop (fun n => (n : β)) (domW wv) (fun i => valuesOf w (wv.getD i [])) wv.length
      wv.length 0 [] tape with
    | none => rw [hd] at this; exact absurd this (by simp)
    | some p => rfl
  · split <;> rfl

end E2E

end C07L
