/-
Helper lemmas for C06: the roulette wheel and stochastic universal sampling.
-/
import DeapModel.Lemmas.C06
import Mathlib.Data.Rat.Floor
import Mathlib.Tactic.Linarith
import Mathlib.Tactic.Ring
import Mathlib.Tactic.FieldSimp
import Mathlib.Algebra.BigOperators.Group.List.Basic

set_option linter.unusedSectionVars false
set_option linter.unusedSimpArgs false
set_option linter.unusedVariables false

namespace C06L
open Selection

/-- Sum of the first-objective values of the individuals listed in `l`. -/
def sumOn (fs : List Rat) (l : List Nat) : Rat := (l.map (fun i => fs.getD i 0)).sum

@[simp] theorem sumOn_nil (fs : List Rat) : sumOn fs [] = 0 := rfl
@[simp] theorem sumOn_cons (fs : List Rat) (i : Nat) (l : List Nat) :
    sumOn fs (i :: l) = fs.getD i 0 + sumOn fs l := by simp [sumOn]
@[simp] theorem sumOn_append (fs : List Rat) (a b : List Nat) :
    sumOn fs (a ++ b) = sumOn fs a + sumOn fs b := by simp [sumOn]

theorem sumOn_nonneg {fs : List Rat} {l : List Nat} (h : ∀ i ∈ l, 0 < fs.getD i 0) : 0 ≤ sumOn fs l := by
  induction l with
  | nil => simp
  | cons i l ih =>
    rw [sumOn_cons]
    have := h i (by simp)
    have := ih (fun j hj => h j (by simp [hj]))
    linarith

theorem sumOn_pos {fs : List Rat} {l : List Nat} (h : ∀ i ∈ l, 0 < fs.getD i 0) (hne : l ≠ []) :
    0 < sumOn fs l := by
  cases l with
  | nil => exact absurd rfl hne
  | cons i l =>
    rw [sumOn_cons]
    have := h i (by simp)
    have := sumOn_nonneg (fs := fs) (l := l) (fun j hj => h j (by simp [hj]))
    linarith

theorem pySum_eq_sum (l : List Rat) : pySum l = l.sum := by
  unfold pySum
  have : ∀ (a : Rat), l.foldl (· + ·) a = a + l.sum := by
    induction l with
    | nil => simp
    | cons x xs ih => intro a; simp [List.foldl_cons, ih, add_assoc]
  simpa using this 0

theorem sumOn_range (fs : List Rat) : sumOn fs (List.range fs.length) = fs.sum := by
  unfold sumOn
  have : (List.range fs.length).map (fun i => fs.getD i 0) = fs := by
    apply List.ext_getElem
    · simp
    · intro i h1 h2
      simp [List.getD_eq_getElem?_getD, h2]
  rw [this]

theorem sumOn_perm (fs : List Rat) {a b : List Nat} (h : a.Perm b) : sumOn fs a = sumOn fs b := by
  unfold sumOn
  exact (h.map _).sum_eq

/-! ### Integer counting -/

/-- Number of `m < k` with `lo < m ≤ hi`, for `-1 ≤ lo ≤ hi < k`. -/
theorem countP_range_Ioc (k : ℕ) (lo hi : ℤ) (hlo : -1 ≤ lo) (hle : lo ≤ hi) :
    (((List.range k).countP (fun (m : ℕ) => decide (lo < (m : ℤ) ∧ (m : ℤ) ≤ hi)) : ℕ) : ℤ)
      = min (k : ℤ) (hi + 1) - min (k : ℤ) (lo + 1) := by
  induction k with
  | zero =>
    simp only [List.range_zero, List.countP_nil, Nat.cast_zero]
    rw [min_eq_left (by omega), min_eq_left (by omega)]; simp
  | succ k ih =>
    rw [List.range_succ, List.countP_append, Nat.cast_add, ih]
    have : ((List.countP (fun (m : ℕ) => decide (lo < (m : ℤ) ∧ (m : ℤ) ≤ hi)) [k] : ℕ) : ℤ)
        = if (lo < (k : ℤ) ∧ (k : ℤ) ≤ hi) then 1 else 0 := by
      by_cases h : (lo < (k : ℤ) ∧ (k : ℤ) ≤ hi) <;> simp [List.countP_cons, h]
    rw [this]
    push_cast
    simp only [min_def]
    split_ifs <;> omega

/-- `⌊A + q⌋ - ⌊A⌋` is the floor or the ceiling of `q`. -/
theorem floor_add_sub_floor (A q : ℚ) :
    ⌊A + q⌋ - ⌊A⌋ = ⌊q⌋ ∨ ⌊A + q⌋ - ⌊A⌋ = ⌈q⌉ := by
  by_cases hq : ((⌊q⌋ : ℤ) : ℚ) = q
  · left
    rw [← hq, Int.floor_add_intCast]; simp
  · have h1 := Int.le_floor_add A q
    have h2 := Int.le_floor_add_floor A q
    have h3 : ⌈q⌉ = ⌊q⌋ + 1 := by
      apply le_antisymm (Int.ceil_le_floor_add_one q)
      rw [Int.add_one_le_iff, Int.lt_ceil]
      exact lt_of_le_of_ne (Int.floor_le q) hq
    rcases (by omega : ⌊A + q⌋ - ⌊A⌋ = ⌊q⌋ ∨ ⌊A + q⌋ - ⌊A⌋ = ⌊q⌋ + 1) with h | h
    · left; exact h
    · right; rw [h3]; exact h

/-! ### `Option`-valued `mapM` -/

theorem mapM_cons_some {α β : Type} (f : α → Option β) (x : α) (xs : List α) (r : List β) :
    (x :: xs).mapM f = some r ↔ ∃ y ys, f x = some y ∧ xs.mapM f = some ys ∧ r = y :: ys := by
  rw [List.mapM_cons]
  cases h1 : f x with
  | none => simp
  | some y =>
    cases h2 : xs.mapM f with
    | none => simp
    | some ys =>
      simp only [Option.pure_def, Option.bind_eq_bind, Option.bind_some, Option.some.injEq]
      constructor
      · rintro rfl; exact ⟨y, ys, rfl, rfl, rfl⟩
      · rintro ⟨y', ys', rfl, rfl, rfl⟩; rfl

theorem mapM_length {α β : Type} (f : α → Option β) (l : List α) (r : List β) (h : l.mapM f = some r) :
    r.length = l.length := by
  induction l generalizing r with
  | nil => simp at h; simp [h]
  | cons x xs ih =>
    obtain ⟨y, ys, _, h2, rfl⟩ := (mapM_cons_some f x xs r).1 h
    simp [ih ys h2]

theorem mapM_mem {α β : Type} (f : α → Option β) (l : List α) (r : List β) (h : l.mapM f = some r) :
    ∀ y ∈ r, ∃ x ∈ l, f x = some y := by
  induction l generalizing r with
  | nil => simp at h; simp [h]
  | cons x xs ih =>
    obtain ⟨y, ys, h1, h2, rfl⟩ := (mapM_cons_some f x xs r).1 h
    intro z hz
    rcases List.mem_cons.1 hz with rfl | hz
    · exact ⟨x, by simp, h1⟩
    · obtain ⟨x', hx', hf⟩ := ih ys h2 z hz
      exact ⟨x', by simp [hx'], hf⟩

theorem mapM_count {α : Type} (f : α → Option Nat) (l : List α) (r : List Nat) (h : l.mapM f = some r)
    (i : Nat) : r.count i = l.countP (fun x => decide (f x = some i)) := by
  induction l generalizing r with
  | nil => simp at h; simp [h]
  | cons x xs ih =>
    obtain ⟨y, ys, h1, h2, rfl⟩ := (mapM_cons_some f x xs r).1 h
    rw [List.count_cons, List.countP_cons, ih ys h2]
    simp [h1]

theorem mapM_isSome {α β : Type} (f : α → Option β) (l : List α) (h : ∀ x ∈ l, ∃ y, f x = some y) :
    ∃ r, l.mapM f = some r := by
  induction l with
  | nil => exact ⟨[], by simp⟩
  | cons x xs ih =>
    obtain ⟨y, hy⟩ := h x (by simp)
    obtain ⟨ys, hys⟩ := ih (fun z hz => h z (by simp [hz]))
    exact ⟨y :: ys, (mapM_cons_some f x xs _).2 ⟨y, ys, hy, hys, rfl⟩⟩

theorem firstVals_length {w : List Rat} {pop : Pop} {fs : List Rat} (h : firstVals w pop = some fs) :
    fs.length = pop.length := mapM_length _ _ _ h

/-! ### The roulette wheel -/

/-- One spin from running sum `s ≤ u`: individual `i` is chosen exactly when `u` lies in the
half-open interval that `i` occupies on the wheel. -/
theorem spin_some_iff (fs : List Rat) (u : Rat) (o : List Nat) (s : Rat)
    (hpos : ∀ i ∈ o, 0 < fs.getD i 0) (hs : s ≤ u) (i : Nat) :
    spin fs u o s = some i ↔
      ∃ pre post, o = pre ++ i :: post ∧ s + sumOn fs pre ≤ u ∧ u < s + sumOn fs pre + fs.getD i 0 := by
  induction o generalizing s with
  | nil => simp [spin]
  | cons j rest ih =>
    simp only [spin]
    by_cases hgt : s + fs.getD j 0 > u
    · simp only [hgt, ↓reduceIte, Option.some.injEq]
      constructor
      · rintro rfl; exact ⟨[], rest, rfl, by simpa using hs, by simpa using hgt⟩
      · rintro ⟨pre, post, heq, h1, h2⟩
        cases pre with
        | nil => simp at heq; exact heq.1
        | cons a pre' =>
          simp only [List.cons_append, List.cons.injEq] at heq
          obtain ⟨rfl, rfl⟩ := heq
          have : 0 ≤ sumOn fs pre' := sumOn_nonneg (fun x hx => hpos x (by simp [hx]))
          rw [sumOn_cons] at h1
          linarith
    · simp only [hgt, ↓reduceIte]
      have hs' : s + fs.getD j 0 ≤ u := not_lt.1 hgt
      rw [ih (s + fs.getD j 0) (fun x hx => hpos x (by simp [hx])) hs']
      constructor
      · rintro ⟨pre, post, rfl, h1, h2⟩
        exact ⟨j :: pre, post, rfl, by rw [sumOn_cons]; linarith, by rw [sumOn_cons]; linarith⟩
      · rintro ⟨pre, post, heq, h1, h2⟩
        cases pre with
        | nil =>
          simp only [List.nil_append, List.cons.injEq] at heq
          obtain ⟨rfl, rfl⟩ := heq
          rw [sumOn_nil, add_zero] at h2; linarith
        | cons a pre' =>
          simp only [List.cons_append, List.cons.injEq] at heq
          obtain ⟨rfl, rfl⟩ := heq
          rw [sumOn_cons] at h1 h2
          exact ⟨pre', post, rfl, by linarith, by linarith⟩

/-- A spin below the total always stops. -/
theorem spin_isSome (fs : List Rat) (u : Rat) (o : List Nat) (s : Rat) (hs : s ≤ u)
    (h : u < s + sumOn fs o) : ∃ i, spin fs u o s = some i := by
  induction o generalizing s with
  | nil => rw [sumOn_nil, add_zero] at h; linarith
  | cons j rest ih =>
    simp only [spin]
    by_cases hgt : s + fs.getD j 0 > u
    · exact ⟨j, if_pos hgt⟩
    · rw [if_neg hgt]
      exact ih _ (not_lt.1 hgt) (by rw [sumOn_cons] at h; linarith)

theorem popRandom_some {t t' : Tape} {r : Rat} :
    popRandom t = some (r, t') ↔ t = Draw.random r :: t' ∧ 0 ≤ r ∧ r < 1 := by
  cases t with
  | nil => simp [popRandom]
  | cons d t =>
    cases d <;> simp [popRandom]
    rename_i q
    constructor
    · rintro ⟨h, rfl, rfl⟩; exact ⟨⟨rfl, rfl⟩, h⟩
    · rintro ⟨⟨rfl, rfl⟩, h⟩; exact ⟨h, rfl, rfl⟩

/-- The `k` turns of the wheel read `k` draws from `[0,1)` and spin once per draw. -/
theorem roulette_repeat (fs : List Rat) (o : List Nat) (S : Rat) {k : Nat} {t t' : Tape}
    {l : List (Option Nat)} (h : Selection.repeatM (rouletteStep fs o S) k t = some (l, t')) :
    ∃ rs : List Rat, t = rs.map Draw.random ++ t' ∧ rs.length = k ∧
      l = rs.map (fun r => spin fs (r * S) o 0) ∧ ∀ r ∈ rs, 0 ≤ r ∧ r < 1 := by
  induction k generalizing t l with
  | zero =>
    simp only [Selection.repeatM, Option.some.injEq, Prod.mk.injEq] at h
    obtain ⟨rfl, rfl⟩ := h
    exact ⟨[], by simp⟩
  | succ k ih =>
    obtain ⟨x, t1, l', h1, h2, rfl⟩ := (repeatM_succ_some _).1 h
    unfold rouletteStep at h1
    cases hr : popRandom t with
    | none => simp [hr] at h1
    | some p =>
      obtain ⟨r, t2⟩ := p
      simp only [hr, Option.some.injEq, Prod.mk.injEq] at h1
      obtain ⟨rfl, rfl⟩ := h1
      obtain ⟨rfl, hr0, hr1⟩ := popRandom_some.1 hr
      obtain ⟨rs, rfl, hlen, rfl, hall⟩ := ih h2
      refine ⟨r :: rs, by simp, by simp [hlen], by simp, ?_⟩
      intro q hq
      rcases List.mem_cons.1 hq with rfl | hq
      · exact ⟨hr0, hr1⟩
      · exact hall q hq

theorem roulette_repeat_total (fs : List Rat) (o : List Nat) (S : Rat) (rs : List Rat) (t : Tape)
    (hv : ∀ r ∈ rs, 0 ≤ r ∧ r < 1) :
    Selection.repeatM (rouletteStep fs o S) rs.length (rs.map Draw.random ++ t)
      = some (rs.map (fun r => spin fs (r * S) o 0), t) := by
  induction rs with
  | nil => rfl
  | cons r rs ih =>
    rw [List.length_cons, repeatM_succ_some]
    refine ⟨spin fs (r * S) o 0, rs.map Draw.random ++ t, _, ?_, ih (fun q hq => hv q (by simp [hq])), rfl⟩
    unfold rouletteStep
    have : popRandom ((r :: rs).map Draw.random ++ t) = some (r, rs.map Draw.random ++ t) :=
      popRandom_some.2 ⟨rfl, hv r (by simp)⟩
    simp only [this]

theorem nodup_decomp_unique {o pre post pre' post' : List Nat} {j : Nat} (hnd : o.Nodup)
    (h1 : o = pre ++ j :: post) (h2 : o = pre' ++ j :: post') : pre = pre' ∧ post = post' := by
  subst h1
  have hj : j ∉ pre ∧ j ∉ post := by
    rw [List.nodup_append] at hnd
    obtain ⟨_, h2, h3⟩ := hnd
    rw [List.nodup_cons] at h2
    exact ⟨fun hm => h3 j hm j (by simp) rfl, h2.1⟩
  have := (List.append_cons_inj_of_notMem hj.1 hj.2).1 h2
  exact ⟨this.1, this.2.2⟩

/-! ### Stochastic universal sampling -/

theorem susWalk_iff (fs : List Rat) (p : Rat) (rest : List Nat) (cur : Nat) (s : Rat)
    (hpos : ∀ i ∈ rest, 0 < fs.getD i 0) (i : Nat) :
    susWalk fs p cur s rest = some i ↔
      (¬ s < p ∧ i = cur) ∨
      (s < p ∧ ∃ pre post, rest = pre ++ i :: post ∧ s + sumOn fs pre < p ∧
        p ≤ s + sumOn fs pre + fs.getD i 0) := by
  induction rest generalizing cur s with
  | nil =>
    simp only [susWalk]
    by_cases hs : s < p
    · simp [hs]
    · simp only [hs, ↓reduceIte, Option.some.injEq, not_false_eq_true, true_and, false_and, or_false]
      exact eq_comm
  | cons j rest ih =>
    simp only [susWalk]
    by_cases hs : s < p
    · simp only [hs, ↓reduceIte, not_true_eq_false, false_and, true_and, false_or]
      rw [ih j (s + fs.getD j 0) (fun x hx => hpos x (by simp [hx]))]
      constructor
      · rintro (⟨h1, rfl⟩ | ⟨h1, pre, post, rfl, h2, h3⟩)
        · exact ⟨[], rest, rfl, by rw [sumOn_nil, add_zero]; exact hs,
            by rw [sumOn_nil, add_zero]; exact not_lt.1 h1⟩
        · exact ⟨j :: pre, post, rfl, by rw [sumOn_cons]; linarith, by rw [sumOn_cons]; linarith⟩
      · rintro ⟨pre, post, heq, h2, h3⟩
        cases pre with
        | nil =>
          simp only [List.nil_append, List.cons.injEq] at heq
          obtain ⟨rfl, rfl⟩ := heq
          rw [sumOn_nil, add_zero] at h3
          exact Or.inl ⟨not_lt.2 h3, rfl⟩
        | cons a pre' =>
          simp only [List.cons_append, List.cons.injEq] at heq
          obtain ⟨rfl, rfl⟩ := heq
          rw [sumOn_cons] at h2 h3
          have : 0 ≤ sumOn fs pre' :=
            sumOn_nonneg (fun x hx => hpos x (by simp [hx]))
          exact Or.inr ⟨by linarith, pre', post, rfl, by linarith, by linarith⟩
    · simp only [hs, ↓reduceIte, Option.some.injEq, not_false_eq_true, true_and, false_and, or_false]
      exact eq_comm

/-- The pointer `p` selects the individual `i` of the sorted order `o = pre ++ i :: post` exactly
when `p` lies in `(sum pre, sum pre + fᵢ]` — the first individual also takes every `p ≤ f`. -/
theorem susPoint_iff (fs : List Rat) (o : List Nat) (p : Rat) (hpos : ∀ i ∈ o, 0 < fs.getD i 0) (i : Nat) :
    susPoint fs o p = some i ↔
      ∃ pre post, o = pre ++ i :: post ∧ (pre = [] ∨ sumOn fs pre < p) ∧
        p ≤ sumOn fs pre + fs.getD i 0 := by
  cases o with
  | nil => simp [susPoint]
  | cons c rest =>
    simp only [susPoint]
    rw [susWalk_iff fs p rest c _ (fun x hx => hpos x (by simp [hx]))]
    constructor
    · rintro (⟨h1, rfl⟩ | ⟨h1, pre, post, rfl, h2, h3⟩)
      · exact ⟨[], rest, rfl, Or.inl rfl, by rw [sumOn_nil, zero_add]; exact not_lt.1 h1⟩
      · exact ⟨c :: pre, post, rfl, Or.inr (by rw [sumOn_cons]; exact h2), by rw [sumOn_cons]; exact h3⟩
    · rintro ⟨pre, post, heq, h2, h3⟩
      cases pre with
      | nil =>
        simp only [List.nil_append, List.cons.injEq] at heq
        obtain ⟨rfl, rfl⟩ := heq
        rw [sumOn_nil, zero_add] at h3
        exact Or.inl ⟨not_lt.2 h3, rfl⟩
      | cons a pre' =>
        simp only [List.cons_append, List.cons.injEq] at heq
        obtain ⟨rfl, rfl⟩ := heq
        rcases h2 with h2 | h2
        · simp at h2
        · rw [sumOn_cons] at h2 h3
          have : 0 ≤ sumOn fs pre' :=
            sumOn_nonneg (fun x hx => hpos x (by simp [hx]))
          exact Or.inr ⟨by linarith, pre', post, rfl, h2, h3⟩

/-- A pointer not beyond the total is always assigned (the walk does not run past the end). -/
theorem susPoint_isSome (fs : List Rat) (o : List Nat) (p : Rat) (hne : o ≠ []) (h : p ≤ sumOn fs o) :
    ∃ i, susPoint fs o p = some i := by
  cases o with
  | nil => exact absurd rfl hne
  | cons c rest =>
    simp only [susPoint]
    rw [sumOn_cons] at h
    generalize fs.getD c 0 = s at h
    clear hne
    induction rest generalizing c s with
    | nil =>
      rw [sumOn_nil, add_zero] at h
      exact ⟨c, by simp [susWalk, not_lt.2 h]⟩
    | cons j rest ih =>
      simp only [susWalk]
      by_cases hs : s < p
      · rw [if_pos hs]
        exact ih j _ (by rw [sumOn_cons] at h; linarith)
      · exact ⟨c, if_neg hs⟩

/-- Step 1: the number of pointers given to `i` is the number of `m < k` whose pointer
`(r + m)·d` falls into `i`'s stretch of the wheel. -/
theorem sus_count_eq (fs : List Rat) (o pre post : List Nat) (i k : Nat) (r d : Rat)
    (hpos : ∀ j ∈ o, 0 < fs.getD j 0) (hnd : o.Nodup) (ho : o = pre ++ i :: post)
    (res : List Nat) (hres : (susPoints (0 + (d - 0) * r) d k).mapM (susPoint fs o) = some res) :
    res.count i = (List.range k).countP (fun (m : ℕ) =>
      decide ((pre = [] ∨ sumOn fs pre < (r + (m : ℚ)) * d) ∧
        (r + (m : ℚ)) * d ≤ sumOn fs pre + fs.getD i 0)) := by
  rw [mapM_count _ _ _ hres i]
  unfold susPoints
  rw [List.countP_map]
  apply List.countP_congr
  intro m _
  simp only [Function.comp_apply, decide_eq_true_eq]
  have hp : (0 + (d - 0) * r + (m : ℚ) * d) = (r + (m : ℚ)) * d := by ring
  rw [hp, susPoint_iff fs o _ hpos i]
  constructor
  · rintro ⟨pre', post', ho', h1, h2⟩
    obtain ⟨rfl, rfl⟩ := nodup_decomp_unique hnd ho ho'
    exact ⟨h1, h2⟩
  · rintro ⟨h1, h2⟩
    exact ⟨pre, post, ho, h1, h2⟩

/-- Step 2 (interior draw `0 < r < 1`): that number is `⌊A + q⌋ - ⌊A⌋` with `q = f/d`. -/
theorem sus_count_floor (k : ℕ) (r d C f : ℚ) (pre : List ℕ) (hk : 0 < k) (hd : 0 < d)
    (hr0 : 0 < r) (hr1 : r < 1) (hC : 0 ≤ C) (hf : 0 < f) (hCf : C + f ≤ k * d)
    (hpre : pre = [] → C = 0) :
    (((List.range k).countP (fun (m : ℕ) =>
      decide ((pre = [] ∨ C < (r + (m : ℚ)) * d) ∧ (r + (m : ℚ)) * d ≤ C + f)) : ℕ) : ℤ)
      = ⌊(C / d - r) + f / d⌋ - ⌊C / d - r⌋ := by
  set lo : ℤ := ⌊C / d - r⌋ with hlo
  set hi : ℤ := ⌊(C / d - r) + f / d⌋ with hhi
  have hcongr : (List.range k).countP (fun (m : ℕ) =>
      decide ((pre = [] ∨ C < (r + (m : ℚ)) * d) ∧ (r + (m : ℚ)) * d ≤ C + f))
      = (List.range k).countP (fun (m : ℕ) => decide (lo < (m : ℤ) ∧ (m : ℤ) ≤ hi)) := by
    apply List.countP_congr
    intro m _
    simp only [decide_eq_true_eq]
    have e1 : C < (r + (m : ℚ)) * d ↔ lo < (m : ℤ) := by
      rw [hlo, Int.floor_lt, Int.cast_natCast, sub_lt_iff_lt_add, div_lt_iff₀ hd]
      constructor <;> intro h <;> nlinarith
    have e2 : (r + (m : ℚ)) * d ≤ C + f ↔ (m : ℤ) ≤ hi := by
      rw [hhi, Int.le_floor, Int.cast_natCast]
      have : (C / d - r) + f / d = (C + f) / d - r := by ring
      rw [this, le_sub_iff_add_le, le_div_iff₀ hd]
      constructor <;> intro h <;> nlinarith
    rw [← e1, ← e2]
    constructor
    · rintro ⟨h1 | h1, h2⟩
      · have hm : (0 : ℚ) ≤ (m : ℚ) := Nat.cast_nonneg m
        exact ⟨by rw [hpre h1]; positivity, h2⟩
      · exact ⟨h1, h2⟩
    · rintro ⟨h1, h2⟩; exact ⟨Or.inr h1, h2⟩
  rw [hcongr]
  have hlo1 : -1 ≤ lo := by
    rw [hlo, Int.le_floor]
    have : 0 ≤ C / d := div_nonneg hC hd.le
    push_cast; linarith
  have hle : lo ≤ hi := by
    rw [hlo, hhi]
    apply Int.floor_le_floor
    have : 0 < f / d := div_pos hf hd
    linarith
  have hhik : hi + 1 ≤ (k : ℤ) := by
    rw [Int.add_one_le_iff, hhi, Int.floor_lt]
    have : (C / d - r) + f / d = (C + f) / d - r := by ring
    rw [this]
    have : (C + f) / d ≤ (k : ℚ) := by rw [div_le_iff₀ hd]; exact hCf
    push_cast; linarith
  rw [countP_range_Ioc k lo hi hlo1 hle, min_eq_right hhik, min_eq_right (by omega)]
  ring

/-- Step 2 for the boundary draw `r = 0`. -/
theorem sus_count_floor_r0 (k : ℕ) (d C f : ℚ) (pre : List ℕ) (hk : 0 < k) (hd : 0 < d)
    (hC : 0 ≤ C) (hf : 0 < f) (hCf : C + f ≤ k * d) (hpre : pre ≠ [] → 0 < C) :
    (((List.range k).countP (fun (m : ℕ) =>
      decide ((pre = [] ∨ C < ((0 : ℚ) + (m : ℚ)) * d) ∧ ((0 : ℚ) + (m : ℚ)) * d ≤ C + f)) : ℕ) : ℤ)
      = min (k : ℤ) (⌊(C + f) / d⌋ + 1) - (if pre = [] then 0 else ⌊C / d⌋ + 1) := by
  set lo : ℤ := if pre = [] then -1 else ⌊C / d⌋ with hlo
  set hi : ℤ := ⌊(C + f) / d⌋ with hhi
  have hcongr : (List.range k).countP (fun (m : ℕ) =>
      decide ((pre = [] ∨ C < ((0 : ℚ) + (m : ℚ)) * d) ∧ ((0 : ℚ) + (m : ℚ)) * d ≤ C + f))
      = (List.range k).countP (fun (m : ℕ) => decide (lo < (m : ℤ) ∧ (m : ℤ) ≤ hi)) := by
    apply List.countP_congr
    intro m _
    simp only [decide_eq_true_eq, zero_add]
    have e1 : C < (m : ℚ) * d ↔ ⌊C / d⌋ < (m : ℤ) := by
      rw [Int.floor_lt, Int.cast_natCast, div_lt_iff₀ hd]
    have e2 : (m : ℚ) * d ≤ C + f ↔ (m : ℤ) ≤ hi := by
      rw [hhi, Int.le_floor, Int.cast_natCast, le_div_iff₀ hd]
    rw [← e2]
    by_cases hp : pre = []
    · simp only [hp, true_or, true_and, hlo, ↓reduceIte]
      constructor
      · intro h; exact ⟨by omega, h⟩
      · intro h; exact h.2
    · simp only [hp, false_or, hlo, ↓reduceIte]
      rw [e1]
  rw [hcongr]
  have hlo1 : -1 ≤ lo := by
    rw [hlo]; split
    · exact le_refl _
    · have : (0 : ℤ) ≤ ⌊C / d⌋ := Int.floor_nonneg.2 (div_nonneg hC hd.le)
      omega
  have hle : lo ≤ hi := by
    have h0 : (0 : ℤ) ≤ hi := Int.floor_nonneg.2 (div_nonneg (by linarith) hd.le)
    rw [hlo]; split
    · omega
    · apply Int.floor_le_floor
      apply div_le_div_of_nonneg_right _ hd.le
      linarith
  have hlok : lo + 1 ≤ (k : ℤ) := by
    rw [hlo]; split
    · omega
    · next hp =>
      rw [Int.add_one_le_iff, Int.floor_lt, div_lt_iff₀ hd]
      push_cast; linarith
  rw [countP_range_Ioc k lo hi hlo1 hle, min_eq_right hlok, hlo]
  split <;> simp

theorem spin_mem {fs : List Rat} {u : Rat} {o : List Nat} {s : Rat} {i : Nat}
    (h : spin fs u o s = some i) : i ∈ o := by
  induction o generalizing s with
  | nil => simp [spin] at h
  | cons j rest ih =>
    simp only [spin] at h
    split at h
    · simp only [Option.some.injEq] at h; subst h; simp
    · exact List.mem_cons_of_mem _ (ih h)

theorem susWalk_mem {fs : List Rat} {p : Rat} {rest : List Nat} {cur : Nat} {s : Rat} {i : Nat}
    (h : susWalk fs p cur s rest = some i) : i = cur ∨ i ∈ rest := by
  induction rest generalizing cur s with
  | nil =>
    simp only [susWalk] at h
    split at h
    · simp at h
    · simp only [Option.some.injEq] at h; exact Or.inl h.symm
  | cons j rest ih =>
    simp only [susWalk] at h
    split at h
    · rcases ih h with h1 | h1
      · exact Or.inr (by simp [h1])
      · exact Or.inr (List.mem_cons_of_mem _ h1)
    · simp only [Option.some.injEq] at h; exact Or.inl h.symm

theorem susPoint_mem {fs : List Rat} {p : Rat} {o : List Nat} {i : Nat}
    (h : susPoint fs o p = some i) : i ∈ o := by
  cases o with
  | nil => simp [susPoint] at h
  | cons c rest =>
    simp only [susPoint] at h
    rcases susWalk_mem h with h1 | h1
    · simp [h1]
    · exact List.mem_cons_of_mem _ h1

/-! ### Unfolding the two operators -/

theorem wheel_facts {w : List Rat} {pop : Pop} {fs : List Rat} (hfs : firstVals w pop = some fs)
    (hpos : ∀ f ∈ fs, 0 < f) :
    (sortedDesc (fitLt pop) (List.range pop.length)).Nodup ∧
    (∀ j ∈ sortedDesc (fitLt pop) (List.range pop.length), 0 < fs.getD j 0) ∧
    sumOn fs (sortedDesc (fitLt pop) (List.range pop.length)) = fs.sum ∧
    pySum fs = fs.sum := by
  have hlen := firstVals_length hfs
  refine ⟨nodup_sortedDesc_range pop _, ?_, ?_, pySum_eq_sum fs⟩
  · intro j hj
    have hj' : j < fs.length := by rw [hlen]; exact (mem_sortedDesc_range pop _ j).1 hj
    rw [List.getD_eq_getElem?_getD, List.getElem?_eq_getElem hj']
    exact hpos _ (List.getElem_mem hj')
  · rw [sumOn_perm fs (sortedDesc_perm _ _), ← hlen, sumOn_range]

theorem selSUS_some_iff {w : List Rat} {pop : Pop} {fs : List Rat} {k : Nat} {t t' : Tape} {res : List Nat}
    (hk : k ≠ 0) (hfs : firstVals w pop = some fs) :
    selSUS w pop k t = some (res, t') ↔
      ∃ r, popRandom t = some (r, t') ∧
        (susPoints (0 + (pySum fs / (k : ℚ) - 0) * r) (pySum fs / (k : ℚ)) k).mapM
          (susPoint fs (sortedDesc (fitLt pop) (List.range pop.length))) = some res := by
  unfold selSUS
  simp only [hk, ↓reduceIte, hfs]
  cases hr : popRandom t with
  | none => simp
  | some p =>
    obtain ⟨r, t1⟩ := p
    simp only
    cases hm : (susPoints (0 + (pySum fs / (k : ℚ) - 0) * r) (pySum fs / (k : ℚ)) k).mapM
        (susPoint fs (sortedDesc (fitLt pop) (List.range pop.length))) with
    | none =>
      simp only [Option.some.injEq, Prod.mk.injEq, false_iff, not_exists, not_and, reduceCtorEq]
      rintro r' ⟨rfl, rfl⟩; rw [hm]; simp
    | some chosen =>
      simp only [Option.some.injEq, Prod.mk.injEq]
      constructor
      · rintro ⟨rfl, rfl⟩; exact ⟨r, ⟨rfl, rfl⟩, hm⟩
      · rintro ⟨r', ⟨rfl, rfl⟩, h2⟩
        rw [hm] at h2
        exact ⟨(Option.some.inj h2), rfl⟩

theorem selRoulette_some_iff {w : List Rat} {pop : Pop} {fs : List Rat} {k : Nat} {t t' : Tape}
    {res : List Nat} (hfs : firstVals w pop = some fs) :
    selRoulette w pop k t = some (res, t') ↔
      ∃ l, Selection.repeatM (rouletteStep fs (sortedDesc (fitLt pop) (List.range pop.length)) (pySum fs)) k t
        = some (l, t') ∧ res = l.filterMap id := by
  unfold selRoulette
  simp only [hfs]
  cases hm : Selection.repeatM (rouletteStep fs (sortedDesc (fitLt pop) (List.range pop.length)) (pySum fs)) k t with
  | none => simp
  | some p =>
    obtain ⟨l, t1⟩ := p
    simp only [Option.some.injEq, Prod.mk.injEq]
    constructor
    · rintro ⟨rfl, rfl⟩; exact ⟨l, ⟨rfl, rfl⟩, rfl⟩
    · rintro ⟨l', ⟨rfl, rfl⟩, rfl⟩; exact ⟨rfl, rfl⟩

end C06L
