import DeapModel.Lemmas.C15Gen1
/-!
C15 — the dynamic invariant of the sweep: cache validity below the bounds (`CV`), soundness of the `ignore`
marks (`IG`), and their preservation by `remove` / `reinsert`.
-/
namespace HvSweep
open Hypervolume
set_option linter.unusedVariables false

/-- area and volume tables have a row per node id and a column per dimension -/
def TShape (dims n : ℕ) (S : St) : Prop :=
  Shaped (n + 1) dims S.area ∧ Shaped (n + 1) dims S.volume ∧ S.ignore.length = n + 1

/-- **cache validity**: at every level `j + 1 ≥ 2` below `K`, the caches of every node of `A` whose coordinate is
strictly below the bound of that level hold the ideal values w.r.t. the node set `A` -/
def CV (C : Cargo) (ref : List ℚ) (pt : ℕ → List ℚ) (O : ℕ → List ℕ) (S : St) (K : ℕ) (A : List ℕ) : Prop :=
  ∀ j, 1 ≤ j → j + 1 < K → ∀ a ∈ A, ∀ b, S.bounds.getD (j + 1) none = some b → cg C a (j + 1) < b →
    ar S a (j + 1) = ARv ref pt O j A a ∧ vl S a (j + 1) = VOLv C ref pt O j A a

/-- `b` dominates `q` in the coordinates `0 .. m` and precedes it in the static orders `1 .. m` -/
def Dom (C : Cargo) (O : ℕ → List ℕ) (m b q : ℕ) : Prop :=
  b ≠ q ∧ cg C b 0 ≤ cg C q 0 ∧ ∀ j, 1 ≤ j → j ≤ m → pos O j b < pos O j q

/-- **soundness of the ignore marks** w.r.t. the node set `A` -/
def IG (C : Cargo) (O : ℕ → List ℕ) (S : St) (A : List ℕ) : Prop :=
  ∀ q ∈ A, 1 ≤ ign S q → ∃ b ∈ A, Dom C O (ign S q) b q

/-! ### what `remove` / `reinsert` do to the other fields -/

/-- the fields other than the pointers after removing / reinserting `x` in the dimensions `< k` -/
structure BFrame (C : Cargo) (x k : ℕ) (S T : St) : Prop where
  area : T.area = S.area
  volume : T.volume = S.volume
  ignore : T.ignore = S.ignore
  bounds_ge : ∀ j, k ≤ j → T.bounds.getD j none = S.bounds.getD j none
  bounds_lt : ∀ j, j < k → ∀ b', T.bounds.getD j none = some b' →
    ∃ b, S.bounds.getD j none = some b ∧ b' ≤ b ∧ b' ≤ cg C x j

theorem getD_some_lt {α : Type} (l : List (Option α)) (i : ℕ) (b : α) (h : l.getD i none = some b) : i < l.length := by
  by_contra hc
  rw [List.getD_eq_getElem?_getD, List.getElem?_eq_none (by omega)] at h
  cases h

theorem lowerBound_bframe (C : Cargo) (S : St) (x i : ℕ) :
    (lowerBound C S x i).area = S.area ∧ (lowerBound C S x i).volume = S.volume ∧
    (lowerBound C S x i).ignore = S.ignore ∧
    (∀ j, j ≠ i → (lowerBound C S x i).bounds.getD j none = S.bounds.getD j none) ∧
    (∀ b', (lowerBound C S x i).bounds.getD i none = some b' →
      ∃ b, S.bounds.getD i none = some b ∧ b' ≤ b ∧ b' ≤ cg C x i) := by
  unfold lowerBound
  cases hb : S.bounds.getD i none with
  | none =>
    have hbg : boundGt S i (cg C x i) = false := by unfold boundGt; rw [hb]
    rw [hbg, if_neg Bool.false_ne_true]
    exact ⟨rfl, rfl, rfl, fun _ _ => rfl, fun b' h => by rw [hb] at h; cases h⟩
  | some b =>
    by_cases hlt : cg C x i < b
    · have hbg : boundGt S i (cg C x i) = true := by unfold boundGt; rw [hb]; simpa using hlt
      rw [hbg, if_pos rfl]
      refine ⟨rfl, rfl, rfl, fun j hj => ?_, fun b' h => ?_⟩
      · show (S.bounds.set i _).getD j none = _
        exact getD_set_ne _ _ _ _ _ hj
      · have hi := getD_some_lt S.bounds i b hb
        have : (S.bounds.set i (some (cg C x i))).getD i none = some (cg C x i) := getD_set_self _ _ _ _ hi
        have h' : (S.bounds.set i (some (cg C x i))).getD i none = some b' := h
        rw [this] at h'
        cases h'
        exact ⟨b, rfl, le_of_lt hlt, le_refl _⟩
    · have hbg : boundGt S i (cg C x i) = false := by unfold boundGt; rw [hb]; simpa using hlt
      rw [hbg, if_neg Bool.false_ne_true]
      refine ⟨rfl, rfl, rfl, fun _ _ => rfl, fun b' h => ?_⟩
      rw [hb] at h
      cases h
      exact ⟨b, rfl, le_refl _, not_lt.mp hlt⟩

theorem remove_bframe (C : Cargo) (x : ℕ) : ∀ (k : ℕ) (S : St), BFrame C x k S (remove C S x k)
  | 0, S => ⟨rfl, rfl, rfl, fun _ _ => rfl, fun j hj => by omega⟩
  | k + 1, S => by
    rw [remove_succ]
    have ih := remove_bframe C x k S
    obtain ⟨l1, l2, l3, l4, l5⟩ := lowerBound_bframe C (unlink (remove C S x k) k x) x k
    refine ⟨l1.trans ih.area, l2.trans ih.volume, l3.trans ih.ignore, ?_, ?_⟩
    · intro j hj
      rw [rmStep, l4 j (by omega)]
      exact ih.bounds_ge j (by omega)
    · intro j hj b' hb'
      by_cases hjk : j = k
      · subst hjk
        obtain ⟨b, h1, h2, h3⟩ := l5 b' hb'
        have : (unlink (remove C S x j) j x).bounds = (remove C S x j).bounds := rfl
        rw [this, ih.bounds_ge j (le_refl _)] at h1
        exact ⟨b, h1, h2, h3⟩
      · rw [rmStep, l4 j hjk] at hb'
        exact ih.bounds_lt j (by omega) b' hb'

theorem reinsert_bframe (C : Cargo) (x : ℕ) : ∀ (k : ℕ) (S : St), BFrame C x k S (reinsert C S x k)
  | 0, S => ⟨rfl, rfl, rfl, fun _ _ => rfl, fun j hj => by omega⟩
  | k + 1, S => by
    rw [reinsert_succ]
    have ih := reinsert_bframe C x k S
    obtain ⟨l1, l2, l3, l4, l5⟩ := lowerBound_bframe C (relink (reinsert C S x k) k x) x k
    refine ⟨l1.trans ih.area, l2.trans ih.volume, l3.trans ih.ignore, ?_, ?_⟩
    · intro j hj
      rw [riStep, l4 j (by omega)]
      exact ih.bounds_ge j (by omega)
    · intro j hj b' hb'
      by_cases hjk : j = k
      · subst hjk
        obtain ⟨b, h1, h2, h3⟩ := l5 b' hb'
        have : (relink (reinsert C S x j) j x).bounds = (reinsert C S x j).bounds := rfl
        rw [this, ih.bounds_ge j (le_refl _)] at h1
        exact ⟨b, h1, h2, h3⟩
      · rw [riStep, l4 j hjk] at hb'
        exact ih.bounds_lt j (by omega) b' hb'

theorem ar_of_area {S T : St} (h : T.area = S.area) (a i : ℕ) : ar T a i = ar S a i := by unfold ar; rw [h]
theorem vl_of_volume {S T : St} (h : T.volume = S.volume) (a i : ℕ) : vl T a i = vl S a i := by unfold vl; rw [h]
theorem ign_of_ignore {S T : St} (h : T.ignore = S.ignore) (a : ℕ) : ign T a = ign S a := by unfold ign; rw [h]

section ctx
variable {C : Cargo} {dims n : ℕ} {O : ℕ → List ℕ} {pt : ℕ → List ℚ} {ref : List ℚ}

/-- removing (or inserting) a node `x` changes the set; the caches that stay claimed are those of nodes strictly
before `x`, whose prefixes do not contain `x` -/
theorem cv_change (g : GCtx C dims n O pt ref) {S T : St} {x k K : ℕ} (hK : K ≤ k) (hkd : k ≤ dims)
    (hf : BFrame C x k S T) {A B : List ℕ} (hx : x ∈ ids n) (hA : ∀ a ∈ A, a ∈ ids n) (hB : ∀ a ∈ B, a ∈ ids n)
    (hAB : ∀ a, a ≠ x → (a ∈ A ↔ a ∈ B)) (hcv : CV C ref pt O S K A) : CV C ref pt O T K B := by
  intro j hj1 hjK a ha b' hb' hlt
  have hjk : j + 1 < k := by omega
  have hjd : j + 1 < dims := by omega
  obtain ⟨b, hb, hb'b, hb'x⟩ := hf.bounds_lt (j + 1) hjk b' hb'
  have hax : a ≠ x := by
    intro e; rw [e] at hlt; linarith
  have haA : a ∈ A := (hAB a hax).mpr ha
  obtain ⟨e1, e2⟩ := hcv j hj1 hjK a haA b hb (lt_of_lt_of_le hlt hb'b)
  have hpos : pos O (j + 1) a < pos O (j + 1) x :=
    g.pos_lt_of_cg_lt hjd ((g.mem hjd a).mpr (hB a ha)) ((g.mem hjd x).mpr hx) (lt_of_lt_of_le hlt hb'x)
  have hsame : ∀ b0, pos O (j + 1) b0 ≤ pos O (j + 1) a → (b0 ∈ A ↔ b0 ∈ B) := by
    intro b0 hb0
    apply hAB
    intro e; rw [e] at hb0; omega
  rw [ar_of_area hf.area, vl_of_volume hf.volume, e1, e2]
  exact ⟨ARv_congr O j A B a hsame, VOLv_congr O j A B a hsame⟩

/-- cache validity only looks at the area / volume tables and the bounds of the levels concerned -/
theorem cv_frame {S T : St} {K : ℕ} {A : List ℕ}
    (h1 : ∀ a i, i < K → ar T a i = ar S a i) (h2 : ∀ a i, i < K → vl T a i = vl S a i)
    (h3 : ∀ i, i < K → T.bounds.getD i none = S.bounds.getD i none) (hcv : CV C ref pt O S K A) :
    CV C ref pt O T K A := by
  intro j hj1 hjK a ha b hb hlt
  rw [h3 (j + 1) hjK] at hb
  rw [h1 a (j + 1) hjK, h2 a (j + 1) hjK]
  exact hcv j hj1 hjK a ha b hb hlt

theorem cv_mono_level {S : St} {K K' : ℕ} {A : List ℕ} (h : K' ≤ K) (hcv : CV C ref pt O S K A) :
    CV C ref pt O S K' A :=
  fun j hj1 hjK => hcv j hj1 (by omega)

theorem cv_congr_set {S : St} {K : ℕ} {A B : List ℕ} (h : ∀ a, a ∈ A ↔ a ∈ B) (hcv : CV C ref pt O S K A) :
    CV C ref pt O S K B := by
  intro j hj1 hjK a ha b hb hlt
  obtain ⟨e1, e2⟩ := hcv j hj1 hjK a ((h a).mpr ha) b hb hlt
  rw [e1, e2]
  exact ⟨ARv_congr O j A B a (fun b0 _ => h b0), VOLv_congr O j A B a (fun b0 _ => h b0)⟩

/-- cache validity through a whole sequence of removals -/
theorem cv_removeSeq (g : GCtx C dims n O pt ref) {k : ℕ} (hkd : k ≤ dims) : ∀ (rs : List ℕ) (S : St) (A : List ℕ),
    (∀ a ∈ A, a ∈ ids n) → (∀ y ∈ rs, y ∈ ids n) → CV C ref pt O S k A →
    CV C ref pt O (removeSeq C k S rs) k (A.filter (fun a => decide (a ∉ rs)))
  | [], S, A, _, _, hcv => by
    apply cv_congr_set (A := A) _ hcv
    intro a; simp
  | x :: rs, S, A, hA, hrs, hcv => by
    rw [removeSeq_cons]
    have h1 : CV C ref pt O (remove C S x k) k (A.filter (fun a => decide (a ≠ x))) :=
      cv_change g (le_refl _) hkd (remove_bframe C x k S) (hrs x (by simp)) hA
        (fun a ha => hA a (List.mem_filter.mp ha).1)
        (fun a hax => by simp [hax]) hcv
    have h2 := cv_removeSeq g hkd rs (remove C S x k) (A.filter (fun a => decide (a ≠ x)))
      (fun a ha => hA a (List.mem_filter.mp ha).1) (fun y hy => hrs y (by simp [hy])) h1
    apply cv_congr_set _ h2
    intro a
    simp only [List.mem_filter, List.mem_cons, decide_eq_true_eq, not_or]
    tauto

/-! ### ignore marks -/

theorem ig_mono {S : St} {A B : List ℕ} (hAB : ∀ a ∈ A, a ∈ B) (hig : IG C O S A)
    (hnew : ∀ q ∈ B, q ∉ A → 1 ≤ ign S q → ∃ b ∈ B, Dom C O (ign S q) b q) : IG C O S B := by
  intro q hq hm
  by_cases hqA : q ∈ A
  · obtain ⟨b, hb, hd⟩ := hig q hqA hm
    exact ⟨b, hAB b hb, hd⟩
  · exact hnew q hq hqA hm

theorem ig_frame {S T : St} {A : List ℕ} (h : ∀ a ∈ A, ign T a = ign S a) (hig : IG C O S A) : IG C O T A := by
  intro q hq hm
  rw [h q hq] at hm ⊢
  exact hig q hq hm

theorem dom_mono {m m' b q : ℕ} (h : m' ≤ m) (hd : Dom C O m b q) : Dom C O m' b q :=
  ⟨hd.1, hd.2.1, fun j hj1 hjm => hd.2.2 j hj1 (by omega)⟩

/-- a dominated top node adds nothing to the area of its level: `AR(q) = AR(prev)` -/
theorem ARv_of_dominated (g : GCtx C dims n O pt ref) (j : ℕ) (hj : j + 1 < dims) (A : List ℕ)
    (hA : ∀ a ∈ A, a ∈ ids n) (l₁ l₂ : List ℕ) (a q : ℕ) (hL : RL O (j + 1) A = l₁ ++ a :: q :: l₂)
    (b m : ℕ) (hbA : b ∈ A) (hm : j + 1 ≤ m) (hd : Dom C O m b q) :
    ARv ref pt O j A q = ARv ref pt O j A a := by
  have hL' : RL O (j + 1) A = (l₁ ++ [a]) ++ q :: l₂ := by rw [hL]; simp
  have hm1 := mem_preSet_of_split g hj A hA l₁ (q :: l₂) a hL
  have hm2 := mem_preSet_of_split g hj A hA (l₁ ++ [a]) l₂ q hL'
  have hqL : q ∈ RL O (j + 1) A := by rw [hL]; simp
  have hqA : q ∈ A := ((mem_RL O (j + 1) A q).mp hqL).2
  have hqI := hA q hqA
  have hbI := hA b hbA
  -- b is at or before a
  have hbpos : pos O (j + 1) b < pos O (j + 1) q := hd.2.2 (j + 1) (by omega) hm
  have hbpre : b ∈ preSet O (j + 1) A a := by
    have : b ∈ preSet O (j + 1) A q := (mem_preSet O (j + 1) A q b).mpr ⟨hbA, le_of_lt hbpos⟩
    have := (hm2 b).mp this
    rcases List.mem_append.mp this with h | h
    · exact (hm1 b).mpr h
    · simp at h; exact absurd h hd.1
  have hmem : ∀ c, c ∈ preSet O (j + 1) A q ↔ c ∈ q :: preSet O (j + 1) A a := by
    intro c
    rw [hm2 c, List.mem_cons, hm1 c]
    simp only [List.mem_append, List.mem_singleton]
    tauto
  unfold ARv
  rw [Hj_congr ref pt j _ _ hmem]
  apply Hj_dominated g j (by omega) _ b q hbpre
  intro i hi
  have hid : i < dims := by omega
  have : cg C b i ≤ cg C q i := by
    rcases Nat.eq_zero_or_pos i with rfl | hpos
    · exact hd.2.1
    · exact g.cg_le_of_pos hid ((g.mem hid q).mpr hqI) ((g.mem hid b).mpr hbI) (le_of_lt (hd.2.2 i hpos (by omega)))
  rw [g.cgv b hbI i hid, g.cgv q hqI i hid] at this
  linarith

end ctx

/-! ### restricted lists: length, removal -/

section ctx2
variable {C : Cargo} {dims n : ℕ} {O : ℕ → List ℕ} {pt : ℕ → List ℚ} {ref : List ℚ}

theorem RL_nodup (g : GCtx C dims n O pt ref) {i : ℕ} (hi : i < dims) (A : List ℕ) : (RL O i A).Nodup :=
  (g.nodup hi).sublist (RL_sublist O i A)

theorem RL_perm (g : GCtx C dims n O pt ref) {i : ℕ} (hi : i < dims) (A : List ℕ) (hnd : A.Nodup)
    (hA : ∀ a ∈ A, a ∈ ids n) : (RL O i A).Perm A := by
  apply (List.perm_ext_iff_of_nodup (RL_nodup g hi A) hnd).mpr
  intro a
  rw [mem_RL]
  constructor
  · exact fun h => h.2
  · exact fun h => ⟨(g.mem hi a).mpr (hA a h), h⟩

theorem RL_sorted (g : GCtx C dims n O pt ref) {i : ℕ} (hi : i < dims) (A : List ℕ) :
    (RL O i A).Pairwise (fun a b => cg C a i ≤ cg C b i) :=
  (g.sorted i hi).sublist (RL_sublist O i A)

/-- removing the nodes `rs` from the restricted list gives the restricted list of what is left -/
theorem RL_diff (g : GCtx C dims n O pt ref) {i : ℕ} (hi : i < dims) (A B rs : List ℕ)
    (hB : ∀ a, a ∈ B ↔ a ∈ A ∧ a ∉ rs) : (RL O i A).diff rs = RL O i B := by
  rw [(RL_nodup g hi A).sdiff_eq_filter]
  unfold RL
  rw [List.filter_filter]
  apply List.filter_congr
  intro a _
  have := hB a
  by_cases h1 : a ∈ A <;> by_cases h2 : a ∈ rs <;> simp_all

end ctx2

/-! ### the interface of one level -/

/-- the precondition of `hvRecursive(k, ·)` when the lists `0 .. k` hold the node set `A` -/
structure Inv (C : Cargo) (dims n : ℕ) (O : ℕ → List ℕ) (pt : ℕ → List ℚ) (ref : List ℚ)
    (S : St) (k : ℕ) (A : List ℕ) : Prop where
  shape : Shape dims n S
  tshape : TShape dims n S
  nodup : A.Nodup
  sub : ∀ a ∈ A, a ∈ ids n
  lists : ∀ i ≤ k, DL n S i (RL O i A)
  cv : CV C ref pt O S (k + 1) A
  ig : IG C O S A

/-- what `hvRecursive(k, ·)` guarantees on return -/
structure Post (C : Cargo) (dims n : ℕ) (O : ℕ → List ℕ) (pt : ℕ → List ℚ) (ref : List ℚ)
    (S S' : St) (k : ℕ) (A : List ℕ) (v : ℚ) : Prop where
  val : v = Hj ref pt k A
  ptr : PtrEq S S'
  inv : Inv C dims n O pt ref S' k A
  ign_out : ∀ y, y ∉ A → y ≠ 0 → ign S' y = ign S y
  cache_hi : ∀ a i, k < i → ar S' a i = ar S a i ∧ vl S' a i = vl S a i
  bounds_hi : ∀ i, k < i → S'.bounds.getD i none = S.bounds.getD i none

/-- level `k` is correct on every admissible state -/
def LevelOK (C : Cargo) (dims n : ℕ) (O : ℕ → List ℕ) (pt : ℕ → List ℚ) (ref : List ℚ) (F k : ℕ) : Prop :=
  ∀ (S : St) (A : List ℕ), Inv C dims n O pt ref S k A → A ≠ [] →
    ∃ v S', hvRecursive C F k A.length S = some (v, S') ∧ Post C dims n O pt ref S S' k A v

end HvSweep
