/-
Helper lemmas for C06: sessions of selector calls over a family of fitness classes
(`Core/SelectionHist.lean`) and counting over the positions that hold one object.
-/
import DeapModel.Core.SelectionHist
import DeapModel.Lemmas.C01Class
import Mathlib.Algebra.BigOperators.Group.List.Basic
import Mathlib.Tactic.Linarith

set_option linter.unusedSectionVars false
set_option linter.unusedSimpArgs false
set_option linter.unusedVariables false

namespace C06L
open Selection Fitness

/-- A session runs its events one after the other: the world and the tape left by a prefix are what the
rest starts from. -/
theorem runHistory_append (tbl : ClassTable Rat) (h1 h2 : List Event) (t : Tape) :
    runHistory tbl (h1 ++ h2) t =
      match runHistory tbl h1 t with
      | none => none
      | some (tbl1, os1, t1) =>
        match runHistory tbl1 h2 t1 with
        | none => none
        | some (tbl2, os2, t2) => some (tbl2, os1 ++ os2, t2) := by
  induction h1 generalizing tbl t with
  | nil =>
    simp only [List.nil_append, runHistory]
    cases runHistory tbl h2 t with
    | none => rfl
    | some p => obtain ⟨a, b, c⟩ := p; simp
  | cons e es ih =>
    simp only [List.cons_append, runHistory]
    cases he : runEvent tbl e t with
    | none => rfl
    | some p =>
      obtain ⟨tbl1, o, t1⟩ := p
      simp only [ih]
      cases h1 : runHistory tbl1 es t1 with
      | none => rfl
      | some q =>
        obtain ⟨tbl2, os, t2⟩ := q
        simp only
        cases h2' : runHistory tbl2 h2 t2 with
        | none => rfl
        | some q2 =>
          obtain ⟨tbl3, os2, t3⟩ := q2
          cases o <;> simp

/-- The world after a session is the initial class table extended by the session's class statements —
selector calls leave nothing behind. -/
theorem runHistory_table (tbl : ClassTable Rat) (h : List Event) (t t' : Tape) (tbl' : ClassTable Rat)
    (os : List (List Nat)) (hr : runHistory tbl h t = some (tbl', os, t')) :
    tbl' = tbl ++ defsOf h := by
  induction h generalizing tbl t os with
  | nil => simp [runHistory] at hr; simp [defsOf, hr.1]
  | cons e es ih =>
    simp only [runHistory] at hr
    cases he : runEvent tbl e t with
    | none => simp [he] at hr
    | some p =>
      obtain ⟨tbl1, o, t1⟩ := p
      simp only [he] at hr
      cases h1 : runHistory tbl1 es t1 with
      | none => simp [h1] at hr
      | some q =>
        obtain ⟨tbl2, os2, t2⟩ := q
        simp only [h1, Option.some.injEq, Prod.mk.injEq] at hr
        have := ih tbl1 t1 os2 (by rw [h1, hr.1, hr.2.2])
        cases e with
        | defclass k =>
          simp only [runEvent] at he
          cases hd : defClass tbl k with
          | none => simp [hd] at he
          | some tb =>
            simp only [hd, Option.some.injEq, Prod.mk.injEq] at he
            rw [this, ← he.1, (C01.defClass_eq tbl tb k hd).1]
            simp [defsOf]
        | call c p s =>
          simp only [runEvent] at he
          cases hl : lookupWeights tbl c with
          | none => simp [hl] at he
          | some w =>
            simp only [hl] at he
            cases hs : runSel w p s t with
            | none => simp [hs] at he
            | some x =>
              obtain ⟨r, tx⟩ := x
              simp only [hs, Option.some.injEq, Prod.mk.injEq] at he
              rw [this, ← he.1]
              simp [defsOf]

theorem countP_mem_cons (a : Nat) (l res : List Nat) (hal : a ∉ l) :
    res.countP (fun x => decide (x ∈ a :: l)) = res.count a + res.countP (fun x => decide (x ∈ l)) := by
  induction res with
  | nil => simp
  | cons x xs ihx =>
    rw [List.countP_cons, List.countP_cons, List.count_cons, ihx]
    by_cases hxa : x = a
    · subst hxa
      simp [hal]
      omega
    · have hax : ¬ a = x := fun h => hxa h.symm
      by_cases hxl : x ∈ l
      · simp [hxa, hxl, hax]; omega
      · simp [hxa, hxl, hax]

/-- How often the positions `obj` (those holding one object) occur in a result. -/
theorem sum_count_eq_countP (obj res : List Nat) (hnd : obj.Nodup) :
    (obj.map (fun i => res.count i)).sum = res.countP (fun x => decide (x ∈ obj)) := by
  induction obj with
  | nil => simp
  | cons a l ih =>
    rw [List.map_cons, List.sum_cons, ih (List.nodup_cons.1 hnd).2,
      countP_mem_cons a l res (List.nodup_cons.1 hnd).1]

end C06L
