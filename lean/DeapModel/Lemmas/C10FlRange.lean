/-
C10 — the blend range clause under the standard model of floating-point arithmetic (`Lemmas/C10Fl.lean`):
`gamma` as the code computes it is within `gammaErr` of the exact `(1 + 2 alpha) r - alpha`, each child is within
`7/2 u (1 + |gamma|)(|x1| + |x2|) + 9/4 nu` of the exact combination, hence inside the parental interval widened by
`alpha` times its width plus `blendRangeErr` on each side.  The property theorems are in `Props/C10.lean`.
-/
import DeapModel.Lemmas.C10Fl

set_option linter.unusedSimpArgs false
set_option linter.unusedVariables false

namespace RealOps

/-- bound on `|gamma_computed - gamma_exact|` for `alpha ≥ 0`, `r ∈ [0, 1]` -/
noncomputable def gammaErr (u nu alpha : ℝ) : ℝ := 6 * u * (1 + 2 * alpha) + 4 * nu

/-- bound on the distance of a blend child from the exact child, `X = |x1| + |x2|` -/
noncomputable def blendRangeErr (u nu alpha X : ℝ) : ℝ :=
  (7 / 2 * u * (2 + alpha + gammaErr u nu alpha) + gammaErr u nu alpha) * X + 9 / 4 * nu

theorem abs_mul_le' {x y A B : ℝ} (hx : |x| ≤ A) (hy : |y| ≤ B) : |x * y| ≤ A * B := by
  rw [abs_mul]; exact mul_le_mul hx hy (abs_nonneg _) (le_trans (abs_nonneg _) hx)

theorem gammaErr_nonneg {u nu a : ℝ} (hu : 0 ≤ u) (hn : 0 ≤ nu) (ha : 0 ≤ a) : 0 ≤ gammaErr u nu a := by
  unfold gammaErr; positivity

/-- `gamma = (1. + 2. * alpha) * random.random() - alpha` (:255) with rounded operations -/
theorem gamma_core (M : FlModel) (hu : M.u ≤ 1 / 8) (a r : ℝ) (ha : 0 ≤ a) (hr0 : 0 ≤ r) (hr1 : r ≤ 1) :
    |M.fsub (M.fmul (M.fadd 1 (M.fmul 2 a)) r) a - ((1 + 2 * a) * r - a)| ≤ gammaErr M.u M.nu a := by
  have h0 := M.u_nonneg
  have hn := M.nu_nonneg
  obtain ⟨d1, e1, hd1, he1, q1⟩ := M.mul_spec 2 a
  obtain ⟨d2, hd2, q2⟩ := M.add_spec 1 (M.fmul 2 a)
  obtain ⟨d3, e3, hd3, he3, q3⟩ := M.mul_spec (M.fadd 1 (M.fmul 2 a)) r
  obtain ⟨d4, hd4, q4⟩ := M.sub_spec (M.fmul (M.fadd 1 (M.fmul 2 a)) r) a
  obtain ⟨a23, h23, r23⟩ := Rel.mul h0 (Rel.one hd2) (Rel.one hd3)
  have b23 : |a23| ≤ 5 / 2 * M.u := le_trans r23 (pow2_bound h0 hu)
  have c23 : |1 + a23| ≤ 81 / 64 := le_trans r23.one_add_le (sq_bound h0 hu)
  -- the difference before the last subtraction is rounded
  have key : M.fmul (M.fadd 1 (M.fmul 2 a)) r - a - ((1 + 2 * a) * r - a)
      = r * ((1 + 2 * a) * a23 + (2 * a * d1 + e1) * (1 + a23)) + e3 := by
    rw [q3, q2, q1]
    have t : (1 + (2 * a * (1 + d1) + e1)) * (1 + d2) * r * (1 + d3)
        = r * ((1 + (2 * a * (1 + d1) + e1)) * (1 + a23)) := by rw [← h23]; ring
    rw [t]; ring
  have hP : |(1 + 2 * a) * a23| ≤ (1 + 2 * a) * (5 / 2 * M.u) := by
    rw [abs_mul, abs_of_nonneg (by linarith : (0 : ℝ) ≤ 1 + 2 * a)]
    exact mul_le_mul_of_nonneg_left b23 (by linarith)
  have hq : |2 * a * d1 + e1| ≤ 2 * a * M.u + M.nu := by
    have h1 : |2 * a * d1| ≤ 2 * a * M.u := by
      rw [abs_mul, abs_of_nonneg (by linarith : (0 : ℝ) ≤ 2 * a)]
      exact mul_le_mul_of_nonneg_left hd1 (by linarith)
    linarith [abs_add_le (2 * a * d1) e1]
  have hQ : |(2 * a * d1 + e1) * (1 + a23)| ≤ (2 * a * M.u + M.nu) * (81 / 64) := abs_mul_le' hq c23
  have hr : |r| ≤ 1 := by rw [abs_of_nonneg hr0]; exact hr1
  have hPQ : |r * ((1 + 2 * a) * a23 + (2 * a * d1 + e1) * (1 + a23))|
      ≤ (1 + 2 * a) * (5 / 2 * M.u) + (2 * a * M.u + M.nu) * (81 / 64) := by
    have := abs_mul_le' hr (le_trans (abs_add_le _ _) (add_le_add hP hQ))
    linarith
  have hD : |M.fmul (M.fadd 1 (M.fmul 2 a)) r - a - ((1 + 2 * a) * r - a)|
      ≤ (1 + 2 * a) * (5 / 2 * M.u) + (2 * a * M.u + M.nu) * (81 / 64) + M.nu := by
    rw [key]
    linarith [abs_add_le (r * ((1 + 2 * a) * a23 + (2 * a * d1 + e1) * (1 + a23))) e3]
  -- the exact gamma lies in [-a, 1 + a]
  have hg : |(1 + 2 * a) * r - a| ≤ 1 + a := by
    rw [abs_le]; constructor <;> nlinarith
  have hd4' : |1 + d4| ≤ 9 / 8 := by
    have := abs_add_le 1 d4; rw [abs_one] at this; linarith
  set D := M.fmul (M.fadd 1 (M.fmul 2 a)) r - a - ((1 + 2 * a) * r - a) with hDdef
  have split : M.fsub (M.fmul (M.fadd 1 (M.fmul 2 a)) r) a - ((1 + 2 * a) * r - a)
      = D * (1 + d4) + ((1 + 2 * a) * r - a) * d4 := by
    rw [q4, hDdef]; ring
  rw [split]
  have hDnn : 0 ≤ (1 + 2 * a) * (5 / 2 * M.u) + (2 * a * M.u + M.nu) * (81 / 64) + M.nu := le_trans (abs_nonneg _) hD
  have s1 : |D * (1 + d4)| ≤ ((1 + 2 * a) * (5 / 2 * M.u) + (2 * a * M.u + M.nu) * (81 / 64) + M.nu) * (9 / 8) :=
    abs_mul_le' hD hd4'
  have s2 : |((1 + 2 * a) * r - a) * d4| ≤ (1 + a) * M.u := abs_mul_le' hg hd4
  have hau : 0 ≤ a * M.u := mul_nonneg ha h0
  unfold gammaErr
  have tri := abs_add_le (D * (1 + d4)) (((1 + 2 * a) * r - a) * d4)
  nlinarith [tri, s1, s2, hau, hn, h0]

/-- one blend child `(1 - g) * x + g * y` (:256-257, either child) with rounded operations -/
theorem child_core (M : FlModel) (hu : M.u ≤ 1 / 8) (g x y : ℝ) :
    |M.fadd (M.fmul (M.fsub 1 g) x) (M.fmul g y) - ((1 - g) * x + g * y)|
      ≤ 7 / 2 * M.u * (1 + |g|) * (|x| + |y|) + 9 / 4 * M.nu := by
  have h0 := M.u_nonneg
  have hn := M.nu_nonneg
  obtain ⟨d0, hd0, e0⟩ := M.sub_spec 1 g
  obtain ⟨d1, n1, hd1, hn1, e1⟩ := M.mul_spec (M.fsub 1 g) x
  obtain ⟨d2, n2, hd2, hn2, e2⟩ := M.mul_spec g y
  obtain ⟨d3, hd3, e3⟩ := M.add_spec (M.fmul (M.fsub 1 g) x) (M.fmul g y)
  obtain ⟨a01, h01, r01⟩ := Rel.mul h0 (Rel.one hd0) (Rel.one hd1)
  obtain ⟨a013, h013, r013⟩ := Rel.mul h0 r01 (Rel.one hd3)
  obtain ⟨a23, h23, r23⟩ := Rel.mul h0 (Rel.one hd2) (Rel.one hd3)
  have key : M.fadd (M.fmul (M.fsub 1 g) x) (M.fmul g y) - ((1 - g) * x + g * y)
      = (1 - g) * x * a013 + g * y * a23 + (n1 + n2) * (1 + d3) := by
    rw [e3, e1, e2, e0]
    have t1 : (1 - g) * (1 + d0) * x * (1 + d1) * (1 + d3) = (1 - g) * x * (1 + a013) := by
      rw [← h013, ← h01]; ring
    have t2 : g * y * (1 + d2) * (1 + d3) = g * y * (1 + a23) := by rw [← h23]; ring
    linear_combination t1 + t2
  rw [key]
  have b013 : |a013| ≤ 7 / 2 * M.u := le_trans r013 (pow3_bound h0 hu)
  have b23 : |a23| ≤ 7 / 2 * M.u := le_trans (le_trans r23 (pow2_bound h0 hu)) (by linarith)
  have hg1 : |1 - g| ≤ 1 + |g| := by
    have := abs_sub (1 : ℝ) g; rw [abs_one] at this; exact this
  have hgg : |g| ≤ 1 + |g| := by linarith
  have hd3' : |1 + d3| ≤ 9 / 8 := by
    have := abs_add_le 1 d3; rw [abs_one] at this; linarith
  have A1 : |(1 - g) * x * a013| ≤ (1 + |g|) * |x| * (7 / 2 * M.u) :=
    abs_mul_le' (abs_mul_le' hg1 (le_refl |x|)) b013
  have A2 : |g * y * a23| ≤ (1 + |g|) * |y| * (7 / 2 * M.u) :=
    abs_mul_le' (abs_mul_le' hgg (le_refl |y|)) b23
  have N : |(n1 + n2) * (1 + d3)| ≤ (2 * M.nu) * (9 / 8) :=
    abs_mul_le' (le_trans (abs_add_le _ _) (by linarith)) hd3'
  have tri : |(1 - g) * x * a013 + g * y * a23 + (n1 + n2) * (1 + d3)|
      ≤ |(1 - g) * x * a013| + |g * y * a23| + |(n1 + n2) * (1 + d3)| :=
    le_trans (abs_add_le _ _) (add_le_add (abs_add_le _ _) (le_refl _))
  have e : 7 / 2 * M.u * (1 + |g|) * (|x| + |y|)
      = (1 + |g|) * |x| * (7 / 2 * M.u) + (1 + |g|) * |y| * (7 / 2 * M.u) := by ring
  rw [e]; linarith

/-- the exact blend children lie in the widened parental interval (`-a ≤ g ≤ 1 + a`) -/
theorem exact_range {a g x1 x2 : ℝ} (g0 : -a ≤ g) (g1 : g ≤ 1 + a) :
    (min x1 x2 - a * |x1 - x2| ≤ (1 - g) * x1 + g * x2 ∧ (1 - g) * x1 + g * x2 ≤ max x1 x2 + a * |x1 - x2|) ∧
    (min x1 x2 - a * |x1 - x2| ≤ g * x1 + (1 - g) * x2 ∧ g * x1 + (1 - g) * x2 ≤ max x1 x2 + a * |x1 - x2|) := by
  rcases le_total x1 x2 with h | h
  · rw [min_eq_left h, max_eq_right h, abs_of_nonpos (sub_nonpos.2 h)]
    refine ⟨⟨?_, ?_⟩, ?_, ?_⟩ <;> nlinarith
  · rw [min_eq_right h, max_eq_left h, abs_of_nonneg (sub_nonneg.2 h)]
    refine ⟨⟨?_, ?_⟩, ?_, ?_⟩ <;> nlinarith

/-- a computed child against the exact child for the exact `gamma`: `c` computed with the computed `g`, `G` the
exact gamma with `|g - G| ≤ Eg`, `|G| ≤ 1 + a` -/
theorem child_vs_exact {u nu a Eg g G x y c : ℝ} (h0 : 0 ≤ u) (hE : 0 ≤ Eg)
    (hc : |c - ((1 - g) * x + g * y)| ≤ 7 / 2 * u * (1 + |g|) * (|x| + |y|) + 9 / 4 * nu)
    (hg : |g - G| ≤ Eg) (hG : |G| ≤ 1 + a) :
    |c - ((1 - G) * x + G * y)| ≤ (7 / 2 * u * (2 + a + Eg) + Eg) * (|x| + |y|) + 9 / 4 * nu := by
  have hX : 0 ≤ |x| + |y| := by positivity
  have habs : |g| ≤ 1 + a + Eg := by
    have := abs_add_le (g - G) G
    rw [sub_add_cancel] at this
    linarith
  have e : c - ((1 - G) * x + G * y) = (c - ((1 - g) * x + g * y)) + (g - G) * (y - x) := by ring
  have hyx : |y - x| ≤ |x| + |y| := by
    have := abs_sub y x; linarith
  have s2 : |(g - G) * (y - x)| ≤ Eg * (|x| + |y|) := abs_mul_le' hg hyx
  have s1 : 7 / 2 * u * (1 + |g|) * (|x| + |y|) ≤ 7 / 2 * u * (2 + a + Eg) * (|x| + |y|) := by
    apply mul_le_mul_of_nonneg_right _ hX
    apply mul_le_mul_of_nonneg_left _ (by linarith)
    linarith
  rw [e]
  have tri := abs_add_le (c - ((1 - g) * x + g * y)) ((g - G) * (y - x))
  have : (7 / 2 * u * (2 + a + Eg) + Eg) * (|x| + |y|)
      = 7 / 2 * u * (2 + a + Eg) * (|x| + |y|) + Eg * (|x| + |y|) := by ring
  rw [this]; linarith

/-- the other blend child `g * x + (1 - g) * y` (:257) with rounded operations -/
theorem child_core2 (M : FlModel) (hu : M.u ≤ 1 / 8) (g x y : ℝ) :
    |M.fadd (M.fmul g x) (M.fmul (M.fsub 1 g) y) - (g * x + (1 - g) * y)|
      ≤ 7 / 2 * M.u * (1 + |g|) * (|x| + |y|) + 9 / 4 * M.nu := by
  have h0 := M.u_nonneg
  have hn := M.nu_nonneg
  obtain ⟨d0, hd0, e0⟩ := M.sub_spec 1 g
  obtain ⟨d1, n1, hd1, hn1, e1⟩ := M.mul_spec g x
  obtain ⟨d2, n2, hd2, hn2, e2⟩ := M.mul_spec (M.fsub 1 g) y
  obtain ⟨d3, hd3, e3⟩ := M.add_spec (M.fmul g x) (M.fmul (M.fsub 1 g) y)
  obtain ⟨a02, h02, r02⟩ := Rel.mul h0 (Rel.one hd0) (Rel.one hd2)
  obtain ⟨a023, h023, r023⟩ := Rel.mul h0 r02 (Rel.one hd3)
  obtain ⟨a13, h13, r13⟩ := Rel.mul h0 (Rel.one hd1) (Rel.one hd3)
  have key : M.fadd (M.fmul g x) (M.fmul (M.fsub 1 g) y) - (g * x + (1 - g) * y)
      = g * x * a13 + (1 - g) * y * a023 + (n1 + n2) * (1 + d3) := by
    rw [e3, e1, e2, e0]
    have t1 : (1 - g) * (1 + d0) * y * (1 + d2) * (1 + d3) = (1 - g) * y * (1 + a023) := by
      rw [← h023, ← h02]; ring
    have t2 : g * x * (1 + d1) * (1 + d3) = g * x * (1 + a13) := by rw [← h13]; ring
    linear_combination t1 + t2
  rw [key]
  have b023 : |a023| ≤ 7 / 2 * M.u := le_trans r023 (pow3_bound h0 hu)
  have b13 : |a13| ≤ 7 / 2 * M.u := le_trans (le_trans r13 (pow2_bound h0 hu)) (by linarith)
  have hg1 : |1 - g| ≤ 1 + |g| := by
    have := abs_sub (1 : ℝ) g; rw [abs_one] at this; exact this
  have hgg : |g| ≤ 1 + |g| := by linarith
  have hd3' : |1 + d3| ≤ 9 / 8 := by
    have := abs_add_le 1 d3; rw [abs_one] at this; linarith
  have A1 : |g * x * a13| ≤ (1 + |g|) * |x| * (7 / 2 * M.u) :=
    abs_mul_le' (abs_mul_le' hgg (le_refl |x|)) b13
  have A2 : |(1 - g) * y * a023| ≤ (1 + |g|) * |y| * (7 / 2 * M.u) :=
    abs_mul_le' (abs_mul_le' hg1 (le_refl |y|)) b023
  have N : |(n1 + n2) * (1 + d3)| ≤ (2 * M.nu) * (9 / 8) :=
    abs_mul_le' (le_trans (abs_add_le _ _) (by linarith)) hd3'
  have tri : |g * x * a13 + (1 - g) * y * a023 + (n1 + n2) * (1 + d3)|
      ≤ |g * x * a13| + |(1 - g) * y * a023| + |(n1 + n2) * (1 + d3)| :=
    le_trans (abs_add_le _ _) (add_le_add (abs_add_le _ _) (le_refl _))
  have e : 7 / 2 * M.u * (1 + |g|) * (|x| + |y|)
      = (1 + |g|) * |x| * (7 / 2 * M.u) + (1 + |g|) * |y| * (7 / 2 * M.u) := by ring
  rw [e]; linarith

theorem fl_two {M : FlModel} : (two : FlNum M) = ⟨2⟩ := by
  show (⟨((2 : Nat) : ℝ)⟩ : FlNum M) = ⟨2⟩
  norm_num

/-- `cxBlend` / `cxESBlend` with rounded operations, one locus: for `alpha ≥ 0` and a draw in `[0, 1]` both children
lie in the parental interval widened by `alpha * |x1 - x2| + blendRangeErr` on each side -/
theorem blendPair_range_fl (M : FlModel) (hu : M.u ≤ 1 / 8) (alpha x1 x2 r : FlNum M) (ha : 0 ≤ alpha.val)
    (hr0 : 0 ≤ r.val) (hr1 : r.val ≤ 1) :
    let E := blendRangeErr M.u M.nu alpha.val (|x1.val| + |x2.val|)
    (min x1.val x2.val - alpha.val * |x1.val - x2.val| - E ≤ (blendPair alpha x1 x2 r).1.val ∧
      (blendPair alpha x1 x2 r).1.val ≤ max x1.val x2.val + alpha.val * |x1.val - x2.val| + E) ∧
    (min x1.val x2.val - alpha.val * |x1.val - x2.val| - E ≤ (blendPair alpha x1 x2 r).2.val ∧
      (blendPair alpha x1 x2 r).2.val ≤ max x1.val x2.val + alpha.val * |x1.val - x2.val| + E) := by
  intro E
  have h0 := M.u_nonneg
  have hn := M.nu_nonneg
  have hEg := gammaErr_nonneg h0 hn ha
  set G := (1 + 2 * alpha.val) * r.val - alpha.val with hG
  have hgam : (blendGamma alpha r).val = M.fsub (M.fmul (M.fadd 1 (M.fmul 2 alpha.val)) r.val) alpha.val := by
    simp only [blendGamma, fl_add, fl_sub, fl_mul, fl_one, fl_two]
  have hg := gamma_core M hu alpha.val r.val ha hr0 hr1
  rw [← hgam, ← hG] at hg
  have g0 : -alpha.val ≤ G := by rw [hG]; nlinarith
  have g1 : G ≤ 1 + alpha.val := by rw [hG]; nlinarith
  have hGabs : |G| ≤ 1 + alpha.val := by rw [abs_le]; constructor <;> linarith
  have c1 : (blendPair alpha x1 x2 r).1.val
      = M.fadd (M.fmul (M.fsub 1 (blendGamma alpha r).val) x1.val) (M.fmul (blendGamma alpha r).val x2.val) := by
    simp only [blendPair, fl_add, fl_sub, fl_mul, fl_one]
  have c2 : (blendPair alpha x1 x2 r).2.val
      = M.fadd (M.fmul (blendGamma alpha r).val x1.val) (M.fmul (M.fsub 1 (blendGamma alpha r).val) x2.val) := by
    simp only [blendPair, fl_add, fl_sub, fl_mul, fl_one]
  generalize (blendGamma alpha r).val = g at hg c1 c2
  have k1 := child_vs_exact h0 hEg (child_core M hu g x1.val x2.val) hg hGabs
  obtain ⟨⟨l1, u1⟩, l2, u2⟩ := exact_range (x1 := x1.val) (x2 := x2.val) g0 g1
  rw [← c1] at k1
  have a1 := abs_le.1 k1
  refine ⟨⟨by show _ - blendRangeErr _ _ _ _ ≤ _; unfold blendRangeErr; linarith [a1.1],
    by show _ ≤ _ + blendRangeErr _ _ _ _; unfold blendRangeErr; linarith [a1.2]⟩, ?_⟩
  -- second child: the same estimate, written out for `g * x1 + (1 - g) * x2`
  have k2 : |(blendPair alpha x1 x2 r).2.val - (g * x1.val + (1 - g) * x2.val)|
      ≤ 7 / 2 * M.u * (1 + |g|) * (|x1.val| + |x2.val|) + 9 / 4 * M.nu := by
    rw [c2]
    exact child_core2 M hu g x1.val x2.val
  have k2e := child_vs_exact (x := x2.val) (y := x1.val) (c := (blendPair alpha x1 x2 r).2.val) h0 hEg
    (by rw [show (1 - g) * x2.val + g * x1.val = g * x1.val + (1 - g) * x2.val by ring,
          show |x2.val| + |x1.val| = |x1.val| + |x2.val| by ring]; exact k2) hg hGabs
  rw [show (1 - G) * x2.val + G * x1.val = G * x1.val + (1 - G) * x2.val by ring,
    show |x2.val| + |x1.val| = |x1.val| + |x2.val| by ring] at k2e
  have a2 := abs_le.1 k2e
  exact ⟨by show _ - blendRangeErr _ _ _ _ ≤ _; unfold blendRangeErr; linarith [a2.1],
    by show _ ≤ _ + blendRangeErr _ _ _ _; unfold blendRangeErr; linarith [a2.2]⟩

end RealOps
