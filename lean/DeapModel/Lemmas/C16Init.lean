/-
C16 — helper lemmas for `Core/Init.lean` (the generator expressions of `tools.initRepeat` / `initCycle` as call sequences).
Core Lean only.
-/
import DeapModel.Core.Init

namespace Init

theorem runCalls_append {σ α : Type} (a b : List (Func σ α)) (s : σ) :
    runCalls (a ++ b) s = ((runCalls b (runCalls a s).1).1, (runCalls a s).2 ++ (runCalls b (runCalls a s).1).2) := by
  induction a generalizing s with
  | nil => simp [runCalls]
  | cons f fs ih => simp [runCalls, ih]

theorem runCalls_length {σ α : Type} (fs : List (Func σ α)) (s : σ) : (runCalls fs s).2.length = fs.length := by
  induction fs generalizing s with
  | nil => rfl
  | cons f fs ih => simp [runCalls, ih]

/-- the `i`-th result is the `i`-th function called on the state the calls before it left behind -/
theorem runCalls_get {σ α : Type} (fs : List (Func σ α)) (s : σ) (i : Nat) :
    (runCalls fs s).2[i]? = (fs[i]?).map (fun f => (f (runCalls (fs.take i) s).1).2) := by
  induction fs generalizing s i with
  | nil => simp [runCalls]
  | cons f fs ih =>
    cases i with
    | zero => simp [runCalls]
    | succ j => simp [runCalls, ih]

theorem repeatCalls_eq {σ α : Type} (func : Func σ α) (n : Nat) (s : σ) :
    repeatCalls func n s = runCalls (List.replicate n func) s := by
  induction n generalizing s with
  | zero => rfl
  | succ n ih => simp [repeatCalls, runCalls, List.replicate_succ, ih]

theorem cycleCalls_eq {σ α : Type} (fs : List (Func σ α)) (n : Nat) (s : σ) :
    cycleCalls fs n s = runCalls (List.replicate n fs).flatten s := by
  induction n generalizing s with
  | zero => rfl
  | succ n ih => simp [cycleCalls, List.replicate_succ, runCalls_append, ih]

end Init
