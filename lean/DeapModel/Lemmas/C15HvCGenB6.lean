import DeapModel.Lemmas.C15HvCGenB5
/-!
C15 — the general case of `hv_recursive` in `_hv.c` (`dim > 2`, l.710-819): the reinsertion loop l.780-808 as a
whole, and the assembly of the level theorem `GeneralStep_Statement` from the statements about the first phase
(`ResetLoopC_Statement`, `DeleteLoopC_Statement`, `AfterDeletionsC_Statement`, file `C15HvCGen0`).
-/
namespace HvC
set_option linter.unusedVariables false
open Hypervolume
open HvSweep (GCtx Hj RL preSet pos ARv VOLv ids Shaped)

section ctx
variable {C : Cargo} {R : List ℚ} {d n : ℕ} {O : ℕ → List ℕ}

/-- **the reinsertion loop** re-establishes the invariant for the whole list -/
theorem loopC_ok (c : CCtx C R d n O) (h3 : AfterDeletionsC_Statement) (j : ℕ) (hj2 : 2 ≤ j) (hj : j + 1 < d) (F : ℕ)
    (hrec : LevelOKC C R d n O F j) (A : List ℕ) (S₁ : St) (Rr : AfterResetC C R d n O j A S₁) :
    ∀ (todo d0 : List ℕ) (q : ℕ) (hvol : ℚ) (T : St) (fl : ℕ),
      LInvC C R d n O j A S₁ T d0 q todo hvol → todo.length ≤ fl →
      ∃ q' hv' T' d0', reinsLoop (hvRecursive C R F j) C (j + 1) fl ((todo ++ [0]).headD 0) q hvol (d0 ++ [q]).length T
          = some (q', hv', T') ∧ LInvC C R d n O j A S₁ T' d0' q' [] hv' := by
  intro todo
  induction todo with
  | nil =>
    intro d0 q hvol T fl I _
    refine ⟨q, hvol, T, d0, ?_, I⟩
    exact reinsLoop_zero_head _ C (j + 1) fl q hvol _ T
  | cons p todo ih =>
    intro d0 q hvol T fl I hfl
    obtain ⟨f, rfl⟩ : ∃ f, fl = f + 1 := ⟨fl - 1, by simp at hfl; omega⟩
    have hpL : p ∈ RL O (j + 1) A := by rw [I.split]; simp
    have hp0 : p ≠ 0 := by
      have := ((HvSweep.mem_ids n p).mp (Rr.inv.sub p ((HvSweep.mem_RL O (j + 1) A p).mp hpL).2)).1; omega
    obtain ⟨T5, hstep, I5, hnext⟩ := linvC_step c h3 j hj2 hj F hrec A S₁ Rr T d0 q p todo hvol I
    have hhead : ((p :: todo) ++ [0]).headD 0 = p := rfl
    rw [hhead, reinsLoop_succ, if_neg hp0, hstep]
    dsimp only
    rw [hnext]
    have hlen : (d0 ++ [q]).length + 1 = ((d0 ++ [q]) ++ [p]).length := by simp
    rw [hlen]
    exact ih (d0 ++ [q]) p _ _ f I5 (by simp at hfl; omega)

theorem gB_invC_tick {S : St} {k : ℕ} {A : List ℕ} (inv : InvC C R d n O S k A) (m : ℕ) : InvC C R d n O (tick S m) k A :=
  { shape := inv.shape
    tsh := ⟨inv.tsh.area, inv.tsh.vol, inv.tsh.ign, inv.tsh.domr, inv.tsh.bound⟩
    nodup := inv.nodup
    sub := inv.sub
    good := inv.good
    lists := inv.lists
    cv := inv.cv
    ig := inv.ig
    igd := inv.igd
    dm := inv.dm
    tree := inv.tree }

/-- **the general case at level `j + 1`** on a state satisfying the level invariant -/
theorem generalC_full (h1 : ResetLoopC_Statement) (h2 : DeleteLoopC_Statement) (h3 : AfterDeletionsC_Statement)
    (c : CCtx C R d n O) (j : ℕ) (hj2 : 2 ≤ j) (hj : j + 1 < d) (F : ℕ) (hF : n + 2 ≤ F)
    (hrec : LevelOKC C R d n O F j) (S : St) (A : List ℕ) (inv : InvC C R d n O S (j + 1) A) (hlenA : 2 ≤ A.length) :
    ∃ v S', general (hvRecursive C R F j) C R F (j + 1) A.length S = some (v, S') ∧
      PostC C R d n O S S' (j + 1) A v := by
  have hperm := HvSweep.RL_perm c.g hj A inv.nodup inv.sub
  have hLlen : (RL O (j + 1) A).length = A.length := hperm.length_eq
  have hLne : RL O (j + 1) A ≠ [] := by
    intro h; rw [h] at hLlen; simp at hLlen; omega
  have hLA : ∀ a, a ∈ RL O (j + 1) A ↔ a ∈ A := fun a => hperm.mem_iff
  have hLnd : (RL O (j + 1) A).Nodup := HvSweep.RL_nodup c.g hj A
  obtain ⟨pre, q0, hL⟩ : ∃ pre q0, RL O (j + 1) A = pre ++ [q0] :=
    ⟨_, _, (List.dropLast_append_getLast hLne).symm⟩
  have hdk := inv.lists (j + 1) (by omega) (le_refl _)
  have hLn : (RL O (j + 1) A).length ≤ n := HvSweep.dl_length_le hdk
  have hseg := hdk.1
  rw [hL] at hseg
  have hsp := (HvSweep.seg_append (toSw S) (j + 1) pre 0 q0 [] 0).mp hseg
  have hq0 : pv S (j + 1) 0 = q0 := hsp.2.2
  rw [general_eq, hq0]
  -- the reset loop
  have hnd_q : (q0 :: pre).Nodup := by
    have := hLnd; rw [hL] at this
    exact (List.perm_append_comm (l₁ := pre) (l₂ := [q0])).nodup_iff.mp this
  have hmem_q : ∀ a, a ∈ q0 :: pre ↔ a ∈ A := by
    intro a; rw [← hLA a, hL]; simp [or_comm]
  obtain ⟨S1, r1, rnx, rpv, rar, rvl, rbd, rdr, rtr, rcl, rilen, riout, riin⟩ :=
    h1 d n (j + 1) pre q0 S F hsp.1 (by rw [hL] at hLn; simp at hLn; omega) inv.shape inv.tsh.ign hnd_q
      (fun a ha => by
        have := (HvSweep.mem_ids n a).mp (inv.sub a ((hmem_q a).mp ha))
        exact ⟨by omega, this.2⟩)
  rw [r1]
  dsimp only
  have hsw1 : toSw S1 = toSw S := gB_toSw_eq_of rnx rpv
  have hign1 : ∀ y, ign S1 y = ign S y ∨ (y ∈ A ∧ ign S y < ((j + 1 : ℕ) : ℤ) ∧ ign S1 y = 0) := by
    intro y
    by_cases hy : y ∈ q0 :: pre
    · obtain ⟨e1, e2⟩ := riin y hy
      rcases lt_or_ge (ign S y) ((j + 1 : ℕ) : ℤ) with hlt | hge
      · exact Or.inr ⟨(hmem_q y).mp hy, hlt, e1 hlt⟩
      · exact Or.inl (e2 hge)
    · exact Or.inl (riout y hy)
  have Rr : AfterResetC C R d n O j A S1 :=
    { inv :=
        { shape := by unfold ShapeC; rw [hsw1]; exact inv.shape
          tsh := gB_tsh_of_fields inv.tsh rar rvl rilen rdr (by rw [rbd]; exact inv.tsh.bound)
          nodup := inv.nodup
          sub := inv.sub
          good := inv.good
          lists := by
            intro i hi1 hi2
            unfold DLc; rw [hsw1]; exact inv.lists i hi1 hi2
          cv := cvc_frame (S := S) (fun a i _ => gB_ar_of_area rar a i) (fun a i _ => gB_vl_of_vol rvl a i)
            (fun i _ => by rw [rbd]) inv.cv
          ig := by
            intro y hy hm
            rcases hign1 y with e | ⟨_, _, e0⟩
            · rw [e] at hm ⊢; exact inv.ig y hy hm
            · rw [e0] at hm; omega
          igd := by
            intro y hm
            rw [gB_dr_of_domr rdr y]
            rcases hign1 y with e | ⟨_, _, e0⟩
            · rw [e] at hm; exact inv.igd y hm
            · rw [e0] at hm; omega
          dm := dmc_frame (S := S) (fun a => gB_dr_of_domr rdr a) (by rw [rbd]) inv.dm
          tree := by rw [rtr]; exact inv.tree }
      zero_or_big := by
        intro y hy
        obtain ⟨e1, e2⟩ := riin y ((hmem_q y).mpr hy)
        rcases lt_or_ge (ign S y) ((j + 1 : ℕ) : ℤ) with hlt | hge
        · exact Or.inl (e1 hlt)
        · right; rw [e2 hge]; exact hge }
  -- the deletion loop
  have hseg1 : HvSweep.Seg (toSw S1) (j + 1) 0 (pre ++ q0 :: []) 0 := by rw [hsw1]; exact hseg
  obtain ⟨pre', q', rs, hr2, hnodes, hstop⟩ := h2 C (j + 1) A.length pre q0 [] 0 S1
    (by rw [← hLlen, hL]; simp) hseg1
  rw [hr2]
  dsimp only
  have hsplit : RL O (j + 1) A = pre' ++ q' :: rs.reverse := by rw [hL, hnodes]
  have hrs_len : rs.length ≤ F := by
    have := congrArg List.length hsplit
    simp at this
    omega
  -- the middle part: in both cases the loop invariant holds at the start of the reinsertion loop
  have hmid : ∃ (hv : ℚ) (Tm : St),
      startR (hvRecursive C R F j) C R (j + 1) q' (pre'.length + 1) (delSeq C (j + 1) S1 rs) = some (hv, Tm) ∧
        LInvC C R d n O j A S1 (setVl Tm q' (j + 1) hv) pre' q' rs.reverse hv := by
    rcases List.eq_nil_or_concat pre' with hnil | ⟨dA, p0, hcons⟩
    · subst hnil
      refine ⟨0, areaInit C R (delSeq C (j + 1) S1 rs) q' (j + 1), ?_, linvC_start_single c h3 j hj2 hj A S1 Rr q' rs hsplit⟩
      unfold startR
      rw [if_neg (by simp)]
    · rw [List.concat_eq_append] at hcons
      subst hcons
      obtain ⟨b, hb1, hb2, hb3⟩ := hstop dA p0 rfl
      exact linvC_start_multi c h3 j hj2 hj F hrec A S1 Rr dA p0 q' rs hsplit ⟨b, hb1, hb2, hb3⟩
  obtain ⟨hv, Tm, hm1, I0⟩ := hmid
  rw [hm1]
  dsimp only
  -- the reinsertion loop
  obtain ⟨q'', hv', T', d0', hr3, If⟩ := loopC_ok c h3 j hj2 hj F hrec A S1 Rr
    rs.reverse pre' q' hv (setVl Tm q' (j + 1) hv) F I0 (by simpa using hrs_len)
  have hlen' : (pre' ++ [q']).length = pre'.length + 1 := by simp
  rw [hlen'] at hr3
  rw [hr3]
  dsimp only
  -- the result
  have hfsplit : RL O (j + 1) A = d0' ++ [q''] := by have := If.split; simpa using this
  have hfmem : ∀ a, a ∈ d0' ++ [q''] ↔ a ∈ A := fun a => by rw [← hLA a, hfsplit]
  have hq''A : q'' ∈ A := (hfmem q'').mp (by simp)
  have hq''I := inv.sub q'' hq''A
  have hq''n : q'' ≤ n := ((HvSweep.mem_ids n q'').mp hq''I).2
  have hq''c := If.cache q'' (by simp)
  set Sf := setBound T' (j + 1) (cg C q'' (j + 1)) with hSf
  have harf : ∀ a i, ar Sf a i = ar T' a i := fun _ _ => rfl
  have hvlf : ∀ a i, vl Sf a i = vl T' a i := fun _ _ => rfl
  have hval : hv' + ar Sf q'' (j + 1) * (rf R (j + 1) - cg C q'' (j + 1)) = Hj R (spt C R) (j + 1) A := by
    rw [harf, If.hvol, hq''c.1]
    have := HvSweep.Hj_of_last c.g j hj A inv.sub d0' q'' hfsplit
    rw [c.cg_tr' hq''I hj (inv.good q'' hq''A _ hj)] at this
    rw [← this]; ring
  have hptr : PtrEqC S T' := by
    have := If.ptr
    simp only [List.reverse_nil, delSeq, List.foldl_nil] at this
    exact (ptrEqC_of_fields rnx rpv).trans this
  have hptrf : PtrEqC S Sf := hptr.trans (fun _ _ => ⟨rfl, rfl⟩)
  have hblen : j + 1 < T'.bound.length := by rw [If.inv.tsh.bound]; exact hj
  refine ⟨_, Sf, rfl, ?_⟩
  exact
    { val := hval
      ptr := hptrf
      inv :=
        { shape := If.inv.shape
          tsh := gB_tsh_setBound If.inv.tsh _ _
          nodup := inv.nodup
          sub := inv.sub
          good := inv.good
          lists := fun i hi1 hi2 => dlc_ptrEqC hptrf (inv.lists i hi1 hi2)
          cv := by
            have hlow : CVc C R O T' (j + 1) A := cvc_congr_set hfmem If.inv.cv
            intro j' hj'1 hj'K a ha b hb hlt
            rw [harf, hvlf]
            rcases Nat.lt_or_ge (j' + 1) (j + 1) with h | h
            · rw [gB_bound_setBound_ne T' (j + 1) (j' + 1) _ (by omega)] at hb
              exact hlow j' hj'1 h a ha b hb hlt
            · have : j' = j := by omega
              subst this
              exact If.cache a ((hfmem a).mpr ha)
          ig := igc_congr_set hfmem (igc_frame (S := T') (fun _ _ => rfl) If.inv.ig)
          igd := If.inv.igd
          dm := dmc_congr_set hfmem (dmc_frame (S := T') (fun _ => rfl)
            (gB_bound_setBound_ne T' (j + 1) 2 _ (by omega)) If.inv.dm)
          tree := If.inv.tree }
      ign_out := by
        intro y hy
        show ign T' y = _
        rw [If.f_ign y hy]
        exact riout y (fun h => hy ((hmem_q y).mp h))
      dr_out := by
        intro y hy
        show dr T' y = _
        rw [If.f_dr y hy]
        exact gB_dr_of_domr rdr y
      cache_hi := by
        intro a i hi
        obtain ⟨e1, e2⟩ := If.f_hi a i hi
        rw [harf, hvlf]
        exact ⟨e1.trans (gB_ar_of_area rar a i), e2.trans (gB_vl_of_vol rvl a i)⟩
      bound_hi := by
        intro i hi
        rw [gB_bound_setBound_ne T' (j + 1) i _ (by omega), If.f_bhi i (by omega), rbd] }

end ctx

/-- **the general case (`dim > 2`, l.710-819) at level `j + 1` meets the level interface, given that level `j` does** —
relative to the three statements about the first phase (reset loop, deletion loop, what the deletions leave) -/
theorem general_levelOK (h1 : ResetLoopC_Statement) (h2 : DeleteLoopC_Statement) (h3 : AfterDeletionsC_Statement) :
    GeneralStep_Statement := by
  intro C R d n O F j c hF hj2 hj hrec S A inv hlenA
  obtain ⟨k, rfl⟩ : ∃ k, j = k + 2 := ⟨j - 2, by omega⟩
  have hunf : hvRecursive C R F (k + 2 + 1) A.length S =
      general (hvRecursive C R F (k + 2)) C R F (k + 2 + 1) A.length (tick S (k + 2 + 1)) := rfl
  rw [hunf]
  obtain ⟨v, S', hrun, post⟩ := generalC_full h1 h2 h3 c (k + 2) hj2 hj F hF hrec (tick S (k + 2 + 1)) A
    (gB_invC_tick inv _) hlenA
  refine ⟨v, S', hrun, ?_⟩
  exact
    { val := post.val
      ptr := post.ptr
      inv := post.inv
      ign_out := post.ign_out
      dr_out := post.dr_out
      cache_hi := post.cache_hi
      bound_hi := post.bound_hi }

end HvC
