/-
C07 — `niching` (NSGA-III): invariants of the selection loop.
-/
import DeapModel.Core.Nsga3
import Mathlib.Data.List.Basic
import Mathlib.Data.List.Nodup
import Mathlib.Data.List.Perm.Subperm

set_option linter.unusedSectionVars false
set_option linter.unusedVariables false

namespace C07L
open Nsga3

section
variable {α : Type} [LT α] [DecidableLT α]

theorem foldl_best_mem (d : Nat → α) : ∀ (xs : List Nat) (best : Nat),
    xs.foldl (fun best q => if d q < d best then q else best) best ∈ best :: xs := by
  intro xs
  induction xs with
  | nil => intro best; simp
  | cons x xs ih =>
    intro best
    simp only [List.foldl_cons]
    have := ih (if d x < d best then x else best)
    rcases List.mem_cons.1 this with h | h
    · rw [h]; split <;> simp
    · exact List.mem_cons_of_mem _ (List.mem_cons_of_mem _ h)

theorem argminFirst_mem (d : Nat → α) (l : List Nat) (p : Nat) (h : argminFirst d l = some p) :
    p ∈ l := by
  cases l with
  | nil => simp [argminFirst] at h
  | cons x xs =>
    simp only [argminFirst, Option.some.injEq] at h
    rw [← h]; exact foldl_best_mem d xs x

theorem mem_members (L : Nat) (niches : Nat → Nat) (avail : Nat → Bool) (j p : Nat) :
    p ∈ members L niches avail j ↔ p < L ∧ niches p = j ∧ avail p = true := by
  simp [members, List.mem_filter, List.mem_range]

theorem pick_ok (L : Nat) (niches : Nat → Nat) (dist : Nat → α) (st st' : NState) (niche : Nat)
    (tape tape' : Tape) (h : pick L niches dist st niche tape = .ok (st', tape')) :
    ∃ p draw, tape = draw :: tape' ∧ p < L ∧ niches p = niche ∧ st.avail p = true ∧
      st' = { selected := st.selected ++ [p], avail := upd st.avail p false,
              counts := upd st.counts niche (st.counts niche + 1) } := by
  unfold pick at h
  cases tape with
  | nil => simp at h
  | cons draw t =>
    simp only [] at h
    split at h
    · simp at h
    · next hperm =>
      have hperm : draw.Perm (members L niches st.avail niche) := by
        have : draw.isPerm (members L niches st.avail niche) = true := by simpa using hperm
        exact List.isPerm_iff.1 this
      split at h
      · simp at h
      · next p hp =>
        have hmem : p ∈ draw := by
          split at hp
          · exact argminFirst_mem dist draw p hp
          · exact List.mem_of_head? hp
        have := (mem_members L niches st.avail niche p).1 (hperm.subset hmem)
        simp only [Except.ok.injEq, Prod.mk.injEq] at h
        exact ⟨p, draw, by rw [h.2], this.1, this.2.1, this.2.2, h.1.symm⟩

/-- invariant of the niching loop -/
structure NInv (L : Nat) (niches : Nat → Nat) (counts0 : Nat → Nat) (st : NState) : Prop where
  avail_iff : ∀ p, p < L → (st.avail p = true ↔ p ∉ st.selected)
  nodup : st.selected.Nodup
  lt : ∀ p ∈ st.selected, p < L
  counts : ∀ j, st.counts j = counts0 j + st.selected.countP (fun p => niches p == j)
  bal : ∀ a b, (∃ p ∈ st.selected, niches p = a) →
    (∃ q, q < L ∧ st.avail q = true ∧ niches q = b) → st.counts a ≤ st.counts b + 1

/-- every niche that still has an available candidate has at least `mc` members -/
def Floor (L : Nat) (niches : Nat → Nat) (st : NState) (mc : Nat) : Prop :=
  ∀ b, (∃ q, q < L ∧ st.avail q = true ∧ niches q = b) → mc ≤ st.counts b

theorem pick_inv (L : Nat) (niches : Nat → Nat) (dist : Nat → α) (counts0 : Nat → Nat)
    (st st' : NState) (niche mc : Nat) (tape tape' : Tape)
    (inv : NInv L niches counts0 st) (hmc : st.counts niche = mc) (hfl : Floor L niches st mc)
    (h : pick L niches dist st niche tape = .ok (st', tape')) :
    NInv L niches counts0 st' ∧ Floor L niches st' mc ∧
    st'.selected.length = st.selected.length + 1 ∧
    (∀ j, j ≠ niche → st'.counts j = st.counts j) ∧
    (∀ q, st'.avail q = true → st.avail q = true) ∧
    (∀ q, st.avail q = true → niches q ≠ niche → st'.avail q = true) := by
  obtain ⟨p, draw, _, hpL, hpn, hpa, rfl⟩ := pick_ok L niches dist st st' niche tape tape' h
  have hpsel : p ∉ st.selected := (inv.avail_iff p hpL).1 hpa
  have hav : ∀ q, upd st.avail p false q = true → st.avail q = true ∧ q ≠ p := by
    intro q hq
    unfold upd at hq
    split at hq
    · simp at hq
    · next hne => exact ⟨hq, hne⟩
  have hcnt : ∀ j, upd st.counts niche (st.counts niche + 1) j =
      if j = niche then st.counts niche + 1 else st.counts j := fun j => rfl
  refine ⟨⟨?_, ?_, ?_, ?_, ?_⟩, ?_, ?_, ?_, ?_, ?_⟩
  · intro q hq
    simp only [List.mem_append, List.mem_singleton, not_or]
    by_cases hqp : q = p
    · subst hqp; simp [upd]
    · simp only [upd, hqp, if_false]
      rw [inv.avail_iff q hq]; simp
  · exact List.nodup_append.2 ⟨inv.nodup, by simp, by
      intro a ha b hb; simp at hb; subst hb; intro hab; subst hab; exact hpsel ha⟩
  · intro q hq
    rcases List.mem_append.1 hq with h | h
    · exact inv.lt q h
    · simp at h; subst h; exact hpL
  · intro j
    simp only [List.countP_append, List.countP_singleton]
    rw [hcnt j, inv.counts j]
    by_cases hj : j = niche
    · subst hj; simp [hpn, inv.counts]; omega
    · have : (niches p == j) = false := by simp [hpn]; exact fun h => hj h.symm
      simp [hj, this]
  · intro a b ⟨x, hx, hxa⟩ ⟨q, hqL, hqa, hqb⟩
    obtain ⟨hqa', hqp⟩ := hav q hqa
    have hb_floor : mc ≤ st.counts b := hfl b ⟨q, hqL, hqa', hqb⟩
    have hb_mono : st.counts b ≤ upd st.counts niche (st.counts niche + 1) b := by
      rw [hcnt b]; split
      · next hbn => subst hbn; omega
      · exact Nat.le_refl _
    show upd st.counts niche (st.counts niche + 1) a ≤ upd st.counts niche (st.counts niche + 1) b + 1
    rw [hcnt a]
    by_cases han : a = niche
    · simp only [han, if_true]; omega
    · simp only [han, if_false]
      have hx' : x ∈ st.selected := by
        rcases List.mem_append.1 hx with h | h
        · exact h
        · simp at h; subst h; exact absurd (hpn.symm.trans hxa).symm han
      have := inv.bal a b ⟨x, hx', hxa⟩ ⟨q, hqL, hqa', hqb⟩
      omega
  · intro b ⟨q, hqL, hqa, hqb⟩
    obtain ⟨hqa', _⟩ := hav q hqa
    have := hfl b ⟨q, hqL, hqa', hqb⟩
    show mc ≤ upd st.counts niche (st.counts niche + 1) b
    rw [hcnt b]; split
    · next hbn => subst hbn; omega
    · exact this
  · simp
  · intro j hj; show upd st.counts niche (st.counts niche + 1) j = _; rw [hcnt j, if_neg hj]
  · intro q hq; exact (hav q hq).1
  · intro q hq hqn
    show upd st.avail p false q = true
    have : q ≠ p := by intro h; subst h; exact hqn hpn
    simp [upd, this, hq]

theorem pickAll_inv (L : Nat) (niches : Nat → Nat) (dist : Nat → α) (counts0 : Nat → Nat) (mc : Nat) :
    ∀ (js : List Nat) (st st' : NState) (tape tape' : Tape),
      NInv L niches counts0 st → js.Nodup → (∀ j ∈ js, st.counts j = mc) → Floor L niches st mc →
      pickAll L niches dist js st tape = .ok (st', tape') →
      NInv L niches counts0 st' ∧ st'.selected.length = st.selected.length + js.length := by
  intro js
  induction js with
  | nil =>
    intro st st' tape tape' inv _ _ _ h
    simp only [pickAll, Except.ok.injEq, Prod.mk.injEq] at h
    rw [← h.1]; exact ⟨inv, by simp⟩
  | cons j js ih =>
    intro st st' tape tape' inv hnd hmc hfl h
    unfold pickAll at h
    split at h
    · simp at h
    · next st1 t1 hp =>
      obtain ⟨inv1, hfl1, hlen1, hcnt1, _, _⟩ :=
        pick_inv L niches dist counts0 st st1 j mc tape t1 inv (hmc j (by simp)) hfl hp
      rw [List.nodup_cons] at hnd
      obtain ⟨a, b⟩ := ih st1 st' t1 tape' inv1 hnd.2 (by
        intro j' hj'
        rw [hcnt1 j' (by intro e; subst e; exact hnd.1 hj')]
        exact hmc j' (List.mem_cons_of_mem _ hj')) hfl1 h
      exact ⟨a, by rw [b, hlen1]; simp; omega⟩

theorem mem_availNiches (L nref : Nat) (niches : Nat → Nat) (avail : Nat → Bool) (j : Nat) :
    j ∈ availNiches L nref niches avail ↔
      j < nref ∧ ∃ q, q < L ∧ avail q = true ∧ niches q = j := by
  simp only [availNiches, List.mem_filter, List.mem_range, List.any_eq_true, Bool.and_eq_true,
    beq_iff_eq]

theorem round_inv (L k nref : Nat) (niches : Nat → Nat) (dist : Nat → α) (counts0 : Nat → Nat)
    (st st' : NState) (tape tape' : Tape) (inv : NInv L niches counts0 st)
    (hlen : st.selected.length < k)
    (h : round L k nref niches dist st tape = .ok (st', tape')) :
    NInv L niches counts0 st' ∧ st'.selected.length ≤ k ∧
      st.selected.length < st'.selected.length := by
  unfold round at h
  simp only [] at h
  split at h
  · simp at h
  · next hrange =>
    split at h
    · simp at h
    · next mc hmin =>
      cases tape with
      | nil => simp at h
      | cons draw t =>
        simp only [] at h
        split at h
        · simp at h
        · next hperm =>
          have hperm : draw.Perm ((availNiches L nref niches st.avail).filter
              (fun j => st.counts j == mc)) := by
            have : draw.isPerm ((availNiches L nref niches st.avail).filter
              (fun j => st.counts j == mc)) = true := by simpa using hperm
            exact List.isPerm_iff.1 this
          have hmin' := List.min?_eq_some_iff.1 hmin
          have hcand_nd : ((availNiches L nref niches st.avail).filter
              (fun j => st.counts j == mc)).Nodup :=
            List.Nodup.filter _ (List.Nodup.filter _ List.nodup_range)
          have hdraw_nd : draw.Nodup := hperm.nodup_iff.2 hcand_nd
          have htake_nd : (draw.take (k - st.selected.length)).Nodup :=
            (List.take_sublist _ _).nodup hdraw_nd
          have hfl : Floor L niches st mc := by
            intro b ⟨q, hqL, hqa, hqb⟩
            have hb : b < nref := by
              by_contra hc
              apply hrange
              simp only [List.any_eq_true, Bool.and_eq_true, decide_eq_true_eq, List.mem_range]
              exact ⟨q, hqL, hqa, by omega⟩
            have : b ∈ availNiches L nref niches st.avail :=
              (mem_availNiches L nref niches st.avail b).2 ⟨hb, q, hqL, hqa, hqb⟩
            exact hmin'.2 _ (List.mem_map.2 ⟨b, this, rfl⟩)
          have hmc : ∀ j ∈ draw.take (k - st.selected.length), st.counts j = mc := by
            intro j hj
            have := hperm.subset ((List.take_sublist _ _).subset hj)
            simpa using (List.mem_filter.1 this).2
          obtain ⟨a, b⟩ := pickAll_inv L niches dist counts0 mc _ st st' t tape' inv htake_nd hmc hfl h
          refine ⟨a, ?_, ?_⟩
          · rw [b, List.length_take]; omega
          · -- the candidate list is non-empty, so at least one niche is served
            obtain ⟨c, hc, _⟩ := List.mem_map.1 hmin'.1
            have hcm : c ∈ (availNiches L nref niches st.avail).filter (fun j => st.counts j == mc) := by
              rw [List.mem_filter]; exact ⟨hc, by simpa using ‹st.counts c = mc›⟩
            have : 0 < draw.length := by
              rw [hperm.length_eq]; exact List.length_pos_of_mem hcm
            rw [b, List.length_take]; omega

theorem nichingLoop_inv (L k nref : Nat) (niches : Nat → Nat) (dist : Nat → α) (counts0 : Nat → Nat) :
    ∀ (fuel : Nat) (st st' : NState) (tape : Tape),
      NInv L niches counts0 st → st.selected.length ≤ k →
      nichingLoop L k nref niches dist fuel st tape = .ok st' →
      NInv L niches counts0 st' ∧ st'.selected.length = k := by
  intro fuel
  induction fuel with
  | zero =>
    intro st st' tape inv hle h
    unfold nichingLoop at h
    split at h
    · simp at h
    · simp only [Except.ok.injEq] at h; subst h; exact ⟨inv, by omega⟩
  | succ f ih =>
    intro st st' tape inv hle h
    unfold nichingLoop at h
    split at h
    · next hlt =>
      simp only [] at h
      split at h
      · simp at h
      · next st1 t1 hr =>
        obtain ⟨inv1, hle1, _⟩ := round_inv L k nref niches dist counts0 st st1 tape t1 inv hlt hr
        exact ih st1 st' t1 inv1 hle1 h
    · simp only [Except.ok.injEq] at h; subst h; exact ⟨inv, by omega⟩

theorem NInv_init (L : Nat) (niches : Nat → Nat) (counts0 : Nat → Nat) :
    NInv L niches counts0 { selected := [], avail := fun _ => true, counts := counts0 } := by
  constructor <;> simp

/-- what `niching` guarantees whenever it returns -/
theorem niching_spec (L k nref : Nat) (niches : Nat → Nat) (dist : Nat → α) (counts0 : Nat → Nat)
    (tape : Tape) (st : NState) (h : niching L k nref niches dist counts0 tape = .ok st) :
    NInv L niches counts0 st ∧ st.selected.length = k :=
  nichingLoop_inv L k nref niches dist counts0 (k + 1) _ st tape (NInv_init L niches counts0)
    (by simp) h

/-! ### `niching` never raises and never runs out of fuel -/

/-- the only way to fail is an unsuitable tape -/
def Fine {β : Type} (r : Except Err β) : Prop := ∀ e, r = .error e → e = Err.badTape

theorem exists_not_mem' (N : Nat) (R : List Nat) (hnd : R.Nodup) (h : R.length < N) :
    ∃ x, x < N ∧ x ∉ R := by
  by_contra hc
  have hsub : List.range N ⊆ R := by
    intro x hx
    by_contra hx'
    exact hc ⟨x, List.mem_range.1 hx, hx'⟩
  have := ((List.nodup_range (n := N)).subperm hsub).length_le
  simp at this; omega

theorem pick_fine (L : Nat) (niches : Nat → Nat) (dist : Nat → α) (st : NState) (niche : Nat)
    (tape : Tape) (hmem : ∃ q, q < L ∧ st.avail q = true ∧ niches q = niche) :
    Fine (pick L niches dist st niche tape) := by
  intro e he
  unfold pick at he
  cases tape with
  | nil => simp only [Except.error.injEq] at he; exact he.symm
  | cons draw t =>
    simp only [] at he
    split at he
    · simp only [Except.error.injEq] at he; exact he.symm
    · next hperm =>
      have hperm : draw.Perm (members L niches st.avail niche) := by
        have : draw.isPerm (members L niches st.avail niche) = true := by simpa using hperm
        exact List.isPerm_iff.1 this
      obtain ⟨q, hqL, hqa, hqn⟩ := hmem
      have hq : q ∈ draw := hperm.symm.subset ((mem_members L niches st.avail niche q).2 ⟨hqL, hqn, hqa⟩)
      split at he
      · next hnone =>
        exfalso
        cases draw with
        | nil => simp at hq
        | cons x xs => split at hnone <;> simp [argminFirst] at hnone
      · simp at he

theorem pickAll_fine (L : Nat) (niches : Nat → Nat) (dist : Nat → α) (counts0 : Nat → Nat) (mc : Nat) :
    ∀ (js : List Nat) (st : NState) (tape : Tape),
      NInv L niches counts0 st → js.Nodup → (∀ j ∈ js, st.counts j = mc) → Floor L niches st mc →
      (∀ j ∈ js, ∃ q, q < L ∧ st.avail q = true ∧ niches q = j) →
      Fine (pickAll L niches dist js st tape) := by
  intro js
  induction js with
  | nil => intro st tape _ _ _ _ _ e he; simp [pickAll] at he
  | cons j js ih =>
    intro st tape inv hnd hmc hfl hmem e he
    unfold pickAll at he
    split at he
    · next e' hp =>
      simp only [Except.error.injEq] at he; subst he
      exact pick_fine L niches dist st j tape (hmem j (by simp)) _ hp
    · next st1 t1 hp =>
      obtain ⟨inv1, hfl1, _, hcnt1, _, hkeep⟩ :=
        pick_inv L niches dist counts0 st st1 j mc tape t1 inv (hmc j (by simp)) hfl hp
      rw [List.nodup_cons] at hnd
      refine ih st1 t1 inv1 hnd.2 ?_ hfl1 ?_ e he
      · intro j' hj'
        rw [hcnt1 j' (by intro e; subst e; exact hnd.1 hj')]
        exact hmc j' (List.mem_cons_of_mem _ hj')
      · intro j' hj'
        obtain ⟨q, hqL, hqa, hqn⟩ := hmem j' (List.mem_cons_of_mem _ hj')
        exact ⟨q, hqL, hkeep q hqa (by rw [hqn]; intro e; subst e; exact hnd.1 hj'), hqn⟩

theorem round_fine (L k nref : Nat) (niches : Nat → Nat) (dist : Nat → α) (counts0 : Nat → Nat)
    (st : NState) (tape : Tape) (inv : NInv L niches counts0 st)
    (hlen : st.selected.length < k) (hkL : k ≤ L) (hn : ∀ p, p < L → niches p < nref) :
    Fine (round L k nref niches dist st tape) := by
  intro e he
  unfold round at he
  simp only [] at he
  split at he
  · next hrange =>
    exfalso
    simp only [List.any_eq_true, Bool.and_eq_true, decide_eq_true_eq, List.mem_range] at hrange
    obtain ⟨q, hqL, _, hq⟩ := hrange
    have := hn q hqL; omega
  · next hrange =>
    split at he
    · next hmin =>
      exfalso
      obtain ⟨q, hqL, hqs⟩ := exists_not_mem' L st.selected inv.nodup (by omega)
      have hqa := (inv.avail_iff q hqL).2 hqs
      have : niches q ∈ availNiches L nref niches st.avail :=
        (mem_availNiches L nref niches st.avail _).2 ⟨hn q hqL, q, hqL, hqa, rfl⟩
      rw [List.min?_eq_none_iff, List.map_eq_nil_iff] at hmin
      rw [hmin] at this; simp at this
    · next mc hmin =>
      cases tape with
      | nil => simp only [Except.error.injEq] at he; exact he.symm
      | cons draw t =>
        simp only [] at he
        split at he
        · simp only [Except.error.injEq] at he; exact he.symm
        · next hperm =>
          have hperm : draw.Perm ((availNiches L nref niches st.avail).filter
              (fun j => st.counts j == mc)) := by
            have : draw.isPerm ((availNiches L nref niches st.avail).filter
              (fun j => st.counts j == mc)) = true := by simpa using hperm
            exact List.isPerm_iff.1 this
          have hmin' := List.min?_eq_some_iff.1 hmin
          have hcand_nd : ((availNiches L nref niches st.avail).filter
              (fun j => st.counts j == mc)).Nodup :=
            List.Nodup.filter _ (List.Nodup.filter _ List.nodup_range)
          have htake_nd : (draw.take (k - st.selected.length)).Nodup :=
            (List.take_sublist _ _).nodup (hperm.nodup_iff.2 hcand_nd)
          have hfl : Floor L niches st mc := by
            intro b ⟨q, hqL, hqa, hqb⟩
            have : b ∈ availNiches L nref niches st.avail :=
              (mem_availNiches L nref niches st.avail b).2 ⟨hqb ▸ hn q hqL, q, hqL, hqa, hqb⟩
            exact hmin'.2 _ (List.mem_map.2 ⟨b, this, rfl⟩)
          have hin : ∀ j ∈ draw.take (k - st.selected.length),
              j ∈ (availNiches L nref niches st.avail).filter (fun j => st.counts j == mc) :=
            fun j hj => hperm.subset ((List.take_sublist _ _).subset hj)
          refine pickAll_fine L niches dist counts0 mc _ st t inv htake_nd ?_ hfl ?_ e he
          · intro j hj; simpa using (List.mem_filter.1 (hin j hj)).2
          · intro j hj
            exact ((mem_availNiches L nref niches st.avail j).1 (List.mem_filter.1 (hin j hj)).1).2

theorem nichingLoop_fine (L k nref : Nat) (niches : Nat → Nat) (dist : Nat → α) (counts0 : Nat → Nat)
    (hkL : k ≤ L) (hn : ∀ p, p < L → niches p < nref) :
    ∀ (fuel : Nat) (st : NState) (tape : Tape),
      NInv L niches counts0 st → st.selected.length ≤ k → k - st.selected.length < fuel →
      Fine (nichingLoop L k nref niches dist fuel st tape) := by
  intro fuel
  induction fuel with
  | zero => intro st tape _ _ h; omega
  | succ f ih =>
    intro st tape inv hle hf e he
    unfold nichingLoop at he
    split at he
    · next hlt =>
      simp only [] at he
      split at he
      · next e' hr =>
        simp only [Except.error.injEq] at he; subst he
        exact round_fine L k nref niches dist counts0 st tape inv hlt hkL hn _ hr
      · next st1 t1 hr =>
        obtain ⟨inv1, hle1, hgt⟩ := round_inv L k nref niches dist counts0 st st1 tape t1 inv hlt hr
        exact ih st1 t1 inv1 hle1 (by omega) e he
    · simp at he

/-- `niching` terminates without raising for every tape (it can only reject the tape) -/
theorem niching_fine (L k nref : Nat) (niches : Nat → Nat) (dist : Nat → α) (counts0 : Nat → Nat)
    (tape : Tape) (hkL : k ≤ L) (hn : ∀ p, p < L → niches p < nref) :
    Fine (niching L k nref niches dist counts0 tape) :=
  nichingLoop_fine L k nref niches dist counts0 hkL hn (k + 1) _ tape (NInv_init L niches counts0)
    (by simp) (by simp)

end

end C07L
