import DeapModel.Lemmas.C15HvCGen0
import DeapModel.Lemmas.C15HvCRe0
/-!
C15 — `fpli_hv` of `_hv.c` in EVERY dimension, from the level interface: the induction over the levels of
`hv_recursive` (3-D base case, general step), and the glue to `setup_cdllist` + `filter`.
-/
namespace HvC
set_option linter.unusedVariables false
open Hypervolume
open HvSweep (GCtx Hj RL preSet pos ARv VOLv ids Shaped)

/-- **every level `2 ≤ k < d` of `hv_recursive` meets the level interface** — induction over the levels -/
theorem levels_okC (h3 : Dim3_Statement) (hg : GeneralStep_Statement) {C : Cargo} {R : List ℚ} {d n : ℕ}
    {O : ℕ → List ℕ} (c : CCtx C R d n O) (F : ℕ) (hF : n + 2 ≤ F) :
    ∀ (k : ℕ), 2 ≤ k → k < d → LevelOKC C R d n O F k
  | 0, h, _ => by omega
  | 1, h, _ => by omega
  | 2, _, _ => h3 C R d n O F c hF
  | k + 3, _, hk =>
    hg C R d n O F (k + 2) c hF (by omega) hk (levels_okC h3 hg c F hF (k + 2) (by omega) (by omega))

/-- coordinates of the translated cargo -/
theorem cg_trC (C : Cargo) (R : List ℚ) (a j : ℕ) (ha : a < C.length) (hp : j < (ptOf C a).length) (hr : j < R.length) :
    HvSweep.cg (trC C R) a j = cg C a j - rf R j := by
  unfold HvSweep.cg HvSweep.tget trC
  have : (C.map (fun p => List.zipWith (· - ·) p R)).getD a [] = List.zipWith (· - ·) (C.getD a []) R := by
    simp only [List.getD_eq_getElem?_getD, List.getElem?_map, List.getElem?_eq_getElem ha, Option.map_some,
      Option.getD_some]
  rw [this]
  exact HvSweep.getD_zipWith_sub (ptOf C a) R j hp hr

theorem hvCells_take_all (R : List ℚ) (P : List Pt) : hvCells (R.take R.length) P = hvCells R P := by
  rw [List.take_length]

/-- a point with every coordinate at or below the reference is its own clamp -/
theorem zipWith_min_eq_self : ∀ (p r : List ℚ), p.length = r.length → (∀ j < r.length, p.getD j 0 ≤ r.getD j 0) →
    List.zipWith min p r = p
  | [], _, _, _ => rfl
  | x :: p, [], h, _ => by simp at h
  | x :: p, y :: r, h, hle => by
    rw [List.zipWith_cons_cons, zipWith_min_eq_self p r (by simpa using h)
      (fun j hj => by simpa using hle (j + 1) (by simp; omega))]
    have : x ≤ y := by simpa using hle 0 (by simp)
    rw [min_eq_left this]

/-- **the glue to `setup_cdllist` + `filter`**: for every list of points with `d = ref.length ≥ 3` coordinates
(NO assumption on their position relative to the reference point) there are static orders `O` such that the static
context `CCtx` holds, and the state after `filter` satisfies the level interface `InvC` at the top level `d - 1` with the
surviving nodes `G` (those strictly below the reference in every coordinate). -/
theorem ready_ctx (data : List (List ℚ)) (R : List ℚ) (hd : 3 ≤ R.length) (hlen : ∀ p ∈ data, p.length = R.length) :
    let C : Cargo := [] :: data
    let res := filter C R R.length data.length (setupCdllist C R.length data.length)
    ∃ (O : ℕ → List ℕ) (G : List ℕ), CCtx C R R.length data.length O ∧
      InvC C R R.length data.length O res.2 (R.length - 1) G ∧ G.length = res.1 ∧
      G = (ids data.length).filter (goodUpTo C R R.length) := by
  intro C res
  have hR := ready data R
  have hC : C = [] :: data := rfl
  set n := data.length with hn
  set d := R.length with hdd
  have hres : res = filter C R d n (setupCdllist C d n) := rfl
  rw [← hC, ← hres] at hR
  -- the static orders
  classical
  let O : ℕ → List ℕ := fun j => if hj : j < d then (hR.lists j hj).choose else []
  have hO : ∀ j (hj : j < d), Order C n j (O j) ∧ DLc n res.2 j ((O j).filter (goodUpTo C R d)) := by
    intro j hj
    have : O j = (hR.lists j hj).choose := by simp [O, hj]
    rw [this]; exact (hR.lists j hj).choose_spec
  have hlenpt : ∀ a ∈ ids n, (ptOf C a).length = d := fun a ha => hlen _ (mem_data_of_mem_ids data a ha)
  have hCl : C.length = n + 1 := by simp [hC, hn]
  have haC : ∀ a ∈ ids n, a < C.length := by
    intro a ha
    have := (HvSweep.mem_ids n a).mp ha
    omega
  have hlens : ∀ a ∈ ids n, (spt C R a).length = d := by
    intro a ha
    rw [spt_eq C R a (haC a ha), List.length_zipWith, hlenpt a ha, min_self]
  have hsmin : ∀ a ∈ ids n, ∀ j < d, (spt C R a).getD j 0 = min (cg C a j) (rf R j) :=
    fun a ha j hj => spt_getD C R a j (by rw [hlens a ha]; exact hj)
  have hcg : ∀ a ∈ ids n, ∀ j < d, HvSweep.cg (stc C R) a j = (spt C R a).getD j 0 - R.getD j 0 := by
    intro a ha j hj
    have hcl : a < (clC C R).length := by unfold clC; rw [List.length_map]; exact haC a ha
    exact cg_trC (clC C R) R a j hcl (by rw [hlens a ha]; exact hj) hj
  have c : CCtx C R d n O :=
    { g :=
        { hdims := rfl
          perm := fun i hi => (hO i hi).1.perm
          sorted := by
            intro i hi
            have hs := (hO i hi).1.sorted
            have hp := (hO i hi).1.perm
            refine List.Pairwise.imp_of_mem ?_ hs
            intro a b ha hb hab
            rw [hcg a (hp.mem_iff.mp ha) i hi, hcg b (hp.mem_iff.mp hb) i hi,
              hsmin a (hp.mem_iff.mp ha) i hi, hsmin b (hp.mem_iff.mp hb) i hi]
            have := min_le_min_right (rf R i) hab
            linarith
          cgv := hcg
          len := hlens
          le := by
            intro a ha j hj
            rw [hsmin a ha j hj]
            exact min_le_right _ _ }
      srt := fun i hi => (hO i hi).1.sorted
      hd := hd }
  -- the node set
  set G := (ids n).filter (goodUpTo C R d) with hG
  have hGlen : G.length = res.1 := hR.count.symm
  have hRL : ∀ i < d, RL O i G = (O i).filter (goodUpTo C R d) := by
    intro i hi
    unfold HvSweep.RL
    apply List.filter_congr
    intro a ha
    have haI : a ∈ ids n := (hO i hi).1.perm.mem_iff.mp ha
    rw [hG]
    simp [List.mem_filter, haI]
  obtain ⟨e1, e2, e3, e4, e5, e6, e7⟩ := hR.same
  have hbnone : ∀ i, res.2.bound.getD i none = none := by
    intro i; rw [e4]; exact getD_replicate_none _ _
  have hign0 : ∀ x, ign res.2 x = 0 := by
    intro x
    show res.2.ignore.getD x 0 = 0
    rw [e1]; exact getD_replicate_int _ _
  have inv : InvC C R d n O res.2 (d - 1) G :=
    { shape := hR.shape
      tsh :=
        { area := by rw [e2]; exact HvSweep.shaped_replicate _ _ _
          vol := by rw [e3]; exact HvSweep.shaped_replicate _ _ _
          ign := by rw [e1]; simp [initSt, hn]
          domr := by rw [e5]; simp [initSt, hn]
          bound := by rw [e4]; simp [initSt, hdd] }
      nodup := (HvSweep.ids_nodup n).filter _
      sub := fun a ha => (List.mem_filter.mp ha).1
      good := fun a ha j hj => (goodUpTo_iff C R d a).mp (List.mem_filter.mp ha).2 j hj
      lists := by
        intro i _ hi
        rw [hRL i (by omega)]
        exact (hO i (by omega)).2
      cv := by
        intro j _ _ a _ b hb _
        rw [hbnone] at hb; cases hb
      ig := by
        intro q _ hq
        rw [hign0 q] at hq; omega
      igd := by
        intro q hq
        rw [hign0 q] at hq; omega
      dm := by
        intro a _ b hb _
        rw [hbnone] at hb; cases hb
      tree := by rw [e6]; rfl }
  exact ⟨O, G, c, inv, hGlen, rfl⟩

/-- **`fpli_hv` in three and more dimensions**, given that the 3-D base case and the general step meet the level
interface: for every list of points with `d = ref.length ≥ 3` coordinates — wherever they lie relative to the reference
point — the transcribed routine returns the specification. -/
theorem fpliHv_ge3 (h3 : Dim3_Statement) (hg : GeneralStep_Statement) (data : List (List ℚ)) (R : List ℚ)
    (hd : 3 ≤ R.length) (hlen : ∀ p ∈ data, p.length = R.length) :
    fpliHv data R = some (hvCells R data) := by
  unfold fpliHv
  rw [fpliHvSt_unfold]
  have hR := ready data R
  obtain ⟨O, G, c, inv, hGlen, hGdef⟩ := ready_ctx data R hd hlen
  set C : Cargo := [] :: data with hC
  set n := data.length with hn
  set d := R.length with hdd
  set res := filter C R d n (setupCdllist C d n) with hres
  obtain ⟨h0, h1⟩ := fpliHv_small data R (by omega) hR
  simp only
  by_cases hn0 : res.1 = 0
  · rw [if_pos hn0, h0 hn0]; rfl
  · rw [if_neg hn0]
    by_cases hn1 : res.1 = 1
    · rw [if_pos hn1, h1 hn1]; rfl
    · rw [if_neg hn1]
      have hlv := levels_okC h3 hg c (n + 2) (le_refl _) (d - 1) (by omega) (by omega)
      obtain ⟨v, S', hrun, post⟩ := hlv res.2 G inv (by rw [hGlen]; omega)
      rw [hGlen] at hrun
      rw [hrun]
      simp only [Option.map_some, Option.some.injEq]
      rw [post.val]
      unfold HvSweep.Hj
      have htake : R.take (d - 1 + 1) = R := by
        rw [show d - 1 + 1 = R.length by omega, List.take_length]
      rw [htake]
      -- a surviving node is its own clamp
      have hmap : G.map (spt C R) = G.map (ptOf C) := by
        apply List.map_congr_left
        intro a ha
        have haI := inv.sub a ha
        have haC : a < C.length := by
          have := (HvSweep.mem_ids n a).mp haI
          simp [hC]; omega
        rw [spt_eq C R a haC]
        apply zipWith_min_eq_self _ _ (hlen _ (mem_data_of_mem_ids data a haI))
        intro j hj
        exact (inv.good a ha j hj).le
      rw [hmap, hGdef]
      -- the survivors carry the whole hypervolume
      have hv := hvCells_data_eq_good data R (ids n) (List.Perm.refl _)
      rw [hv]

end HvC
