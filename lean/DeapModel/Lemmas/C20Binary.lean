/-
C20 — lemmas about the binary benchmarks (`Core/BenchBinary.lean`).
-/
import DeapModel.Core.BenchBinary
import Mathlib.Tactic.Ring
import Mathlib.Tactic.Linarith
import Mathlib.Algebra.Order.Field.Rat
import Mathlib.Tactic.Positivity
import Mathlib.Tactic.FieldSimp

set_option linter.unusedSimpArgs false

namespace C20L
open BenchBin

theorem ones_le (b : List Bool) : ones b ≤ b.length := List.count_le_length

theorem ones_replicate_true (k : Nat) : ones (List.replicate k true) = k := by simp [ones]
theorem ones_replicate_false (k : Nat) : ones (List.replicate k false) = 0 := by
  simp [ones, List.count_replicate]

theorem trap_le (b : List Bool) : trap b ≤ b.length := by
  have := ones_le b
  simp only [trap]; split <;> omega

theorem invTrap_le (b : List Bool) : invTrap b ≤ b.length := by
  have := ones_le b
  simp only [invTrap]; split <;> omega

theorem isum_eq (l : List Int) : isum l = l.sum := by
  unfold isum
  have : ∀ a : Int, l.foldl (· + ·) a = a + l.sum := by
    induction l with
    | nil => intro a; simp
    | cons x t ih => intro a; simp only [List.foldl_cons, List.sum_cons]; rw [ih]; omega
  simpa using this 0

theorem isum_map_le (L : List Nat) (f : Nat → Int) (c : Int) (h : ∀ i ∈ L, f i ≤ c) :
    (L.map f).sum ≤ c * L.length := by
  induction L with
  | nil => simp
  | cons a t ih =>
    simp only [List.map_cons, List.sum_cons, List.length_cons]
    have h1 := h a (by simp)
    have h2 := ih (fun i hi => h i (by simp [hi]))
    push_cast; linarith

theorem isum_map_const (L : List Nat) (f : Nat → Int) (c : Int) (h : ∀ i ∈ L, f i = c) :
    (L.map f).sum = c * L.length := by
  induction L with
  | nil => simp
  | cons a t ih =>
    simp only [List.map_cons, List.sum_cons, List.length_cons]
    rw [h a (by simp), ih (fun i hi => h i (by simp [hi]))]; push_cast; ring

theorem slice_length_le (l : List Bool) (i w : Nat) : (slice l i w).length ≤ w := by
  simp [slice]

theorem slice_length (l : List Bool) (i w : Nat) (h : i + w ≤ l.length) : (slice l i w).length = w := by
  simp [slice]; omega

theorem rangeStep_length (a b s : Nat) : (rangeStep a b s).length = (b - a + s - 1) / s := by
  simp [rangeStep]

theorem mem_rangeStep {a b s i : Nat} (h : i ∈ rangeStep a b s) : ∃ j, j < (b - a + s - 1) / s ∧ i = a + j * s := by
  simp only [rangeStep, List.mem_map, List.mem_range] at h
  obtain ⟨j, hj, rfl⟩ := h; exact ⟨j, hj, rfl⟩

/-! ### binary value of a block -/

def binStep (acc : Nat) (bit : Bool) : Nat := 2 * acc + bit.toNat

theorem binVal_eq (b : List Bool) : binVal b = b.foldl binStep 0 := rfl

theorem fold_lt (b : List Bool) (acc : Nat) : b.foldl binStep acc < (acc + 1) * 2 ^ b.length := by
  induction b generalizing acc with
  | nil => simp
  | cons bit t ih =>
    simp only [List.foldl_cons, List.length_cons]
    have := ih (binStep acc bit)
    have hb : binStep acc bit + 1 ≤ 2 * (acc + 1) := by cases bit <;> simp [binStep] <;> omega
    calc t.foldl binStep (binStep acc bit) < (binStep acc bit + 1) * 2 ^ t.length := this
      _ ≤ (2 * (acc + 1)) * 2 ^ t.length := Nat.mul_le_mul_right _ hb
      _ = (acc + 1) * 2 ^ (t.length + 1) := by ring

theorem fold_max_iff (b : List Bool) (acc : Nat) :
    b.foldl binStep acc + 1 = (acc + 1) * 2 ^ b.length ↔ b.all id = true := by
  induction b generalizing acc with
  | nil => simp
  | cons bit t ih =>
    simp only [List.foldl_cons, List.length_cons, List.all_cons, id, Bool.and_eq_true]
    cases bit with
    | true =>
      have e : binStep acc true + 1 = 2 * (acc + 1) := by simp [binStep]; omega
      have := ih (binStep acc true)
      rw [e] at this
      have e2 : (acc + 1) * 2 ^ (t.length + 1) = 2 * (acc + 1) * 2 ^ t.length := by ring
      rw [e2, this]; simp
    | false =>
      have hlt := fold_lt t (binStep acc false)
      have e : binStep acc false + 1 = 2 * acc + 1 := by simp [binStep]
      rw [e] at hlt
      have e2 : (acc + 1) * 2 ^ (t.length + 1) = (2 * acc + 1) * 2 ^ t.length + 2 ^ t.length := by ring
      have hp : 0 < 2 ^ t.length := Nat.pow_pos (by decide)
      constructor
      · intro h; rw [e2] at h; omega
      · intro h; exact absurd h.1 (by simp)

/-- the block value is below `2^n`, and equals `2^n - 1` exactly for the all-ones block -/
theorem binVal_lt (b : List Bool) : binVal b < 2 ^ b.length := by
  have := fold_lt b 0; simpa [binVal_eq] using this

theorem binVal_max_iff (b : List Bool) : binVal b = 2 ^ b.length - 1 ↔ b.all id = true := by
  have h := fold_max_iff b 0
  have hp : 0 < 2 ^ b.length := Nat.pow_pos (by decide)
  rw [← h, binVal_eq]; simp; omega

theorem binVal_replicate_false (n : Nat) : binVal (List.replicate n false) = 0 := by
  rw [binVal_eq]
  induction n with
  | zero => rfl
  | succ k ih => simp only [List.replicate_succ, List.foldl_cons]; simpa [binStep] using ih

/-- `int(value / max_value)` for a block of `order ≥ 1` bits -/
theorem block_quot (b : List Bool) (order : Nat) (ho : 1 ≤ order) (hl : b.length = order) :
    binVal b / (2 ^ order - 1) = if b.all id = true then 1 else 0 := by
  have hlt := binVal_lt b
  have hmax := binVal_max_iff b
  rw [hl] at hlt hmax
  have h2 : 2 ≤ 2 ^ order := by
    calc 2 = 2 ^ 1 := by norm_num
      _ ≤ 2 ^ order := Nat.pow_le_pow_right (by decide) ho
  split
  · next h => rw [hmax.2 h]; exact Nat.div_self (by omega)
  · next h =>
    have : binVal b ≠ 2 ^ order - 1 := fun e => h (hmax.1 e)
    exact Nat.div_eq_of_lt (by omega)

theorem natsum_foldl (l : List Nat) : l.foldl (· + ·) 0 = l.sum := by
  have : ∀ a : Nat, l.foldl (· + ·) a = a + l.sum := by
    induction l with
    | nil => intro a; simp
    | cons x t ih => intro a; simp only [List.foldl_cons, List.sum_cons]; rw [ih]; omega
  simpa using this 0

theorem sum_blocks (L : List Nat) (blk : Nat → List Bool) (order : Nat) (ho : 1 ≤ order)
    (h : ∀ i ∈ L, (blk i).length = order) :
    (L.map fun i => order * (binVal (blk i) / (2 ^ order - 1))).sum
      = order * L.countP (fun i => (blk i).all id) := by
  induction L with
  | nil => simp
  | cons a t ih =>
    simp only [List.map_cons, List.sum_cons, List.countP_cons]
    rw [ih (fun i hi => h i (by simp [hi])), block_quot _ order ho (h a (by simp))]
    split <;> simp [*]; ring

/-! ### windows of uniform strings, optimum strings of the Chuang functions, bin2float blocks -/

theorem slice_replicate (n i w : Nat) (b : Bool) :
    slice (List.replicate n b) i w = List.replicate (min w (n - i)) b := by
  simp [slice, List.drop_replicate, List.take_replicate]

theorem getLast?_replicate_succ (n : Nat) (b : Bool) : (List.replicate (n + 1) b).getLast? = some b := by
  rw [List.getLast?_eq_some_getLast (by simp)]; simp

theorem trap_rep_true (k : Nat) : trap (List.replicate k true) = k := by simp [trap, ones_replicate_true]

theorem invTrap_rep_false (k : Nat) : invTrap (List.replicate k false) = k := by simp [invTrap, ones_replicate_false]

theorem invTrap_rep_true (k : Nat) (hk : 1 ≤ k) : invTrap (List.replicate k true) = (k : Int) - 1 := by
  simp only [invTrap, ones_replicate_true]; split <;> omega

theorem drop_flatten_replicate (blk : List Bool) (k j : Nat) (h : j ≤ k) :
    (List.replicate k blk).flatten.drop (j * blk.length) = (List.replicate (k - j) blk).flatten := by
  induction j generalizing k with
  | zero => simp
  | succ i ih =>
    cases k with
    | zero => omega
    | succ m =>
      simp only [List.replicate_succ, List.flatten_cons]
      have : (i + 1) * blk.length = blk.length + i * blk.length := by ring
      rw [this, ← List.drop_drop, List.drop_left, ih m (by omega)]
      congr 2; omega

/-- the block selected by the pair of selector bits scores 4 on the matching uniform block -/
def sel (s : Bool) (blk : List Bool) : Int := if s = false then invTrap blk else trap blk

theorem sel_rep (s : Bool) : sel s (List.replicate 4 s) = 4 := by cases s <;> decide

/-- the j-th 8-bit block of the string `(a b)^k ++ t` with `|a| = |b| = 4` -/
theorem f2_blocks_gen (a b t : List Bool) (ha : a.length = 4) (hb : b.length = 4) (k j : Nat) (hj : j < k) :
    slice ((List.replicate k (a ++ b)).flatten ++ t) (j * 8) 4 = a ∧
    slice ((List.replicate k (a ++ b)).flatten ++ t) (j * 8 + 4) 4 = b := by
  have hab : (a ++ b).length = 8 := by simp [ha, hb]
  have hF : ((List.replicate k (a ++ b)).flatten).length = 8 * k := by
    simp [List.length_flatten, ha, hb]; ring
  have hd := drop_flatten_replicate (a ++ b) k j (by omega)
  rw [hab] at hd
  obtain ⟨m, hm⟩ : ∃ m, k - j = m + 1 := ⟨k - j - 1, by omega⟩
  rw [hm, List.replicate_succ, List.flatten_cons] at hd
  have hx : ((List.replicate k (a ++ b)).flatten ++ t).drop (j * 8)
      = a ++ (b ++ ((List.replicate m (a ++ b)).flatten ++ t)) := by
    rw [List.drop_append_of_le_length (by rw [hF]; omega), hd]; simp
  constructor
  · simp only [slice, hx]
    rw [List.take_append_of_le_length (by omega)]; rw [← ha]; simp
  · simp only [slice]
    rw [← List.drop_drop, hx, List.drop_left' ha]
    rw [List.take_append_of_le_length (by omega)]; rw [← hb]; simp

theorem f2_blocks (s2 s1 : Bool) (k j : Nat) (hj : j < k) :
    let x := (List.replicate k (List.replicate 4 s2 ++ List.replicate 4 s1)).flatten ++ [s2, s1]
    slice x (j * 8) 4 = List.replicate 4 s2 ∧ slice x (j * 8 + 4) 4 = List.replicate 4 s1 :=
  f2_blocks_gen _ _ _ (by simp) (by simp) k j hj

theorem getLast?_two (l : List Bool) : (l ++ [true, true]).getLast? = some true := by
  have : l ++ [true, true] = (l ++ [true]) ++ [true] := by simp
  rw [this, List.getLast?_concat]

/-- a 4-bit window inside the zero run of `[1,1] ++ 0^m ++ [1,1]` -/
theorem slice_mid (m i : Nat) (h1 : 2 ≤ i) (h2 : i + 4 ≤ m + 2) :
    slice ([true, true] ++ List.replicate m false ++ [true, true]) i 4 = List.replicate 4 false := by
  obtain ⟨d, rfl⟩ : ∃ d, i = 2 + d := ⟨i - 2, by omega⟩
  simp only [slice, List.append_assoc]
  rw [show [true, true] ++ (List.replicate m false ++ [true, true])
        = [true, true] ++ (List.replicate m false ++ [true, true]) from rfl]
  rw [← List.drop_drop]
  rw [List.drop_left' (by rfl : [true, true].length = 2)]
  rw [List.drop_append_of_le_length (by simp; omega)]
  rw [List.take_append_of_le_length (by simp; omega)]
  simp only [List.drop_replicate, List.take_replicate]
  congr 1; omega

theorem block_in_range {len nbits i : Nat} (hi : i < len / nbits) : i * nbits + nbits ≤ len := by
  have : (i + 1) * nbits ≤ len :=
    calc (i + 1) * nbits ≤ (len / nbits) * nbits := Nat.mul_le_mul_right _ hi
      _ ≤ len := Nat.div_mul_le_self _ _
  linarith [Nat.succ_mul i nbits]

theorem two_pow_sub_one_pos (n : Nat) (h : 1 ≤ n) : 1 ≤ 2 ^ n - 1 := by
  have : 2 ^ 1 ≤ 2 ^ n := Nat.pow_le_pow_right (by decide) h
  omega

end C20L
