/-
C08 at heap level — the last step to the property theorems: histories that start from the empty archive,
how statements about the pure archive read on the heap-level archive (`Rel`), and a concrete history
(the class table and heap of `C16.Ex`) on which every hypothesis of the heap-level theorems holds.
-/
import DeapModel.Lemmas.C08HeapRun
import DeapModel.Lemmas.C16Examples

set_option linter.unusedSectionVars false
set_option linter.unusedSimpArgs false
set_option linter.unusedVariables false

namespace C08H
open Heap Heap.Copy ArchiveHeap
open Archive (Ind HoF)
open Fitness (Fit)

variable {α : Type} [LinearOrder α]

/-- A similarity operator that is blind to identity in the sense of the pure theorems (`C08L.SimSym.same`). -/
theorem simErase_of_same {sim : Ind PV α → Ind PV α → Bool}
    (h : ∀ x x' y y', C08L.same x x' → C08L.same y y' → sim x y = sim x' y') : SimErase sim :=
  fun x x' y y' e1 e2 => h x x' y y' ⟨congrArg Prod.fst e1, congrArg Prod.snd e1⟩
    ⟨congrArg Prod.fst e2, congrArg Prod.snd e2⟩

/-- Histories that start from the empty archive, in an interpreter whose heap is `objs0`. -/
theorem run_from_empty {P : Params α} (hsim : SimErase P.sim) (hct : CTOk P.ct) (pf : Bool)
    {objs0 : Oid → Option Obj} {next0 : Nat} (hcl : Closed objs0 next0) (m b : Nat) (evs : List Ev)
    (hv : Valid P pf (emptyH m objs0 next0) evs) :
    match runH P pf (emptyH m objs0 next0) evs,
        pureRun P pf (Archive.empty m b) (histOf P pf (emptyH m objs0 next0) evs) with
    | some hs', some h' => Inv P next0 hs' ∧ Rel P hs' h' ∧ Mono (emptyH m objs0 next0) hs' ∧
        Stable (emptyH m objs0 next0) hs' ∧ (∀ s ∈ submittedOf evs, ¬ InLog hs'.log s) ∧
        (CallerOnly evs → h' = Archive.empty m b ∧ hs'.items = [] ∧ hs'.keys = [])
    | none, none => True
    | _, _ => False :=
  run_facts hsim hct pf evs _ _ (inv_empty P m hcl) (rel_empty P m b objs0 next0) hv

/-- The state reached from the empty archive satisfies the invariant (whatever the pure side does). -/
theorem inv_of_run {P : Params α} (hsim : SimErase P.sim) (hct : CTOk P.ct) (pf : Bool)
    {objs0 : Oid → Option Obj} {next0 : Nat} (hcl : Closed objs0 next0) (m : Nat) (evs : List Ev)
    (hv : Valid P pf (emptyH m objs0 next0) evs) {hs : HState}
    (hr : runH P pf (emptyH m objs0 next0) evs = some hs) :
    ∃ h, pureRun P pf (Archive.empty m 0) (histOf P pf (emptyH m objs0 next0) evs) = some h ∧
      Inv P next0 hs ∧ Rel P hs h ∧ ∀ s ∈ submittedOf evs, ¬ InLog hs.log s := by
  have := run_from_empty hsim hct pf hcl m 0 evs hv
  rw [hr] at this
  cases hp : pureRun P pf (Archive.empty m 0) (histOf P pf (emptyH m objs0 next0) evs) with
  | none => rw [hp] at this; exact this.elim
  | some h =>
    rw [hp] at this
    exact ⟨h, rfl, this.1, this.2.1, this.2.2.2.2.1⟩

theorem Lock.of_some {P : Params α} {base : Nat} {hs hs1 : HState} {r' : Option (HoF PV α)}
    (h : Lock P base hs (some hs1) r') : Inv P base hs1 ∧ HExt hs hs1 := by
  cases r' with
  | none => exact h.elim
  | some h' => exact ⟨h.1, h.2.2⟩

/-! ### Reading statements about the pure archive on the heap-level archive -/

section Transfer
variable {P : Params α} {hs : HState} {h : HoF PV α}

theorem Rel.mem_of_pure (hR : Rel P hs h) {it : Ind PV α} (hit : it ∈ h.items) :
    ∃ x ∈ hs.items, ∃ vx, viewInd P hs.objs x = some vx ∧ erase vx = erase it := by
  have h1 : some (erase it) ∈ h.items.map (fun it => some (erase it)) := List.mem_map.2 ⟨it, hit, rfl⟩
  rw [← hR.items] at h1
  obtain ⟨x, hx, e⟩ := List.mem_map.1 h1
  cases hv : viewInd P hs.objs x with
  | none => rw [hv] at e; simp at e
  | some vx =>
    rw [hv] at e
    simp only [Option.map_some, Option.some.injEq] at e
    exact ⟨x, hx, vx, (by first | rfl | exact hv), e⟩

theorem Rel.mem_of_heap (hR : Rel P hs h) {x : Oid} (hx : x ∈ hs.items) :
    ∃ it ∈ h.items, ∃ vx, viewInd P hs.objs x = some vx ∧ erase vx = erase it := by
  have h1 : (viewInd P hs.objs x).map erase ∈ hs.items.map (fun x => (viewInd P hs.objs x).map erase) :=
    List.mem_map.2 ⟨x, hx, rfl⟩
  rw [hR.items] at h1
  obtain ⟨it, hit, e⟩ := List.mem_map.1 h1
  cases hv : viewInd P hs.objs x with
  | none => rw [hv] at e; simp at e
  | some vx =>
    rw [hv] at e
    simp only [Option.map_some, Option.some.injEq] at e
    exact ⟨it, hit, vx, rfl, e.symm⟩

theorem Rel.last (hR : Rel P hs h) {w : Oid} (hw : hs.items.getLast? = some w) :
    ∃ it, h.items.getLast? = some it ∧ ∃ vw, viewInd P hs.objs w = some vw ∧ erase vw = erase it := by
  have hlast := congrArg List.getLast? hR.items
  rw [List.getLast?_map, List.getLast?_map, hw] at hlast
  cases hl : h.items.getLast? with
  | none => rw [hl] at hlast; simp at hlast
  | some it =>
    rw [hl] at hlast
    simp only [Option.map_some, Option.some.injEq] at hlast
    cases hv : viewInd P hs.objs w with
    | none => rw [hv] at hlast; simp at hlast
    | some vw =>
      rw [hv] at hlast
      simp only [Option.map_some, Option.some.injEq] at hlast
      exact ⟨it, rfl, vw, rfl, hlast⟩

/-- A pairwise statement about the members' contents. -/
theorem Rel.pairwise (hR : Rel P hs h) (R : PV × Fit α → PV × Fit α → Prop)
    (hp : h.items.Pairwise (fun a b => R (erase a) (erase b))) :
    hs.items.Pairwise (fun a b => ∀ va vb, viewInd P hs.objs a = some va → viewInd P hs.objs b = some vb →
      R (erase va) (erase vb)) := by
  have h1 : (h.items.map (fun it => some (erase it))).Pairwise
      (fun u v => ∀ eu ev, u = some eu → v = some ev → R eu ev) := by
    rw [List.pairwise_map]
    exact hp.imp (fun {a b} hab eu ev hu hv => by cases hu; cases hv; exact hab)
  rw [← hR.items, List.pairwise_map] at h1
  exact h1.imp (fun {a b} hab va vb ha hb => hab _ _ (by rw [ha]; rfl) (by rw [hb]; rfl))

end Transfer

/-! ### No mutable object is shared -/

section Share
variable {P : Params α} {base : Nat} {hs : HState}

/-- A mutable object reachable from a member lies in that member's range. -/
theorem Inv.member_range (hI : Inv P base hs) {x : Oid} (hx : x ∈ hs.items) :
    ∃ hi, (x, hi) ∈ hs.log ∧ ∀ y o, Reach hs.objs (.ref x) y → hs.objs y = some o → o.mutable = true →
      x ≤ y ∧ y < hi := by
  obtain ⟨hi, hm, hr⟩ := hI.members x hx
  refine ⟨hi, hm, fun y o hy ho hmut => ?_⟩
  rcases hr y hy with h | ⟨o', ho', hm'⟩
  · exact h
  · rw [ho] at ho'
    cases ho'
    rw [hmut] at hm'
    cases hm'

/-- Two entries of the log with different starts are disjoint ranges. -/
theorem Inv.ranges_disjoint (hI : Inv P base hs) {r s : Nat × Nat} (hr : r ∈ hs.log) (hs' : s ∈ hs.log)
    (hne : r.1 ≠ s.1) (y : Nat) : ¬ ((r.1 ≤ y ∧ y < r.2) ∧ (s.1 ≤ y ∧ y < s.2)) := by
  have hp := hI.logord
  have h1 := (hI.logwf r hr).2.1
  have h2 := (hI.logwf s hs').2.1
  have hrs : r ≠ s := fun e => hne (by rw [e])
  have : r.2 ≤ s.1 ∨ s.2 ≤ r.1 := by
    rw [List.pairwise_iff_getElem] at hp
    obtain ⟨i, hi, ei⟩ := List.getElem_of_mem hr
    obtain ⟨j, hj, ej⟩ := List.getElem_of_mem hs'
    rcases Nat.lt_trichotomy i j with hij | hij | hij
    · left; rw [← ei, ← ej]; exact hp i j hi hj hij
    · subst hij; exact absurd (ei.symm.trans ej) hrs
    · right; rw [← ei, ← ej]; exact hp j i hj hi hij
  omega

end Share

/-- The freshness clauses, read off the invariant. -/
theorem members_fresh_of_inv {P : Params α} {base : Nat} {hs : HState} (hI : Inv P base hs)
    (subm : List Oid) (hsub : ∀ s ∈ subm, ¬ InLog hs.log s) :
    (∀ r ∈ hs.log, base ≤ r.1 ∧ r.1 < r.2 ∧ r.2 ≤ hs.next) ∧ hs.log.Pairwise (fun r s => r.2 ≤ s.1) ∧
    (∀ x ∈ hs.items, ∃ hi, (x, hi) ∈ hs.log ∧
      ∀ y, Reach hs.objs (.ref x) y → (x ≤ y ∧ y < hi) ∨ Imm hs.objs y) ∧
    hs.items.Nodup ∧
    (∀ s ∈ subm, ∀ y, Reach hs.objs (.ref s) y → ¬ InLog hs.log y) ∧
    (∀ x ∈ hs.items, ∀ s ∈ subm, ∀ y o, Reach hs.objs (.ref x) y → Reach hs.objs (.ref s) y →
      hs.objs y = some o → o.mutable = false) ∧
    (∀ i j : Nat, i < j → ∀ xi xj, hs.items[i]? = some xi → hs.items[j]? = some xj →
      ∀ y o, Reach hs.objs (.ref xi) y → Reach hs.objs (.ref xj) y → hs.objs y = some o →
        o.mutable = false) := by
  have h5 : ∀ s ∈ subm, ∀ y, Reach hs.objs (.ref s) y → ¬ InLog hs.log y :=
    fun s hs' y hr => hI.reach_outside (.ref s) y hr (fun x hx => by cases hx; exact hsub s hs')
  refine ⟨hI.logwf, hI.logord, hI.members, hI.nodup, h5, ?_, ?_⟩
  · intro x hx s hs' y o hr1 hr2 ho
    cases hm : o.mutable with
    | false => rfl
    | true =>
      exfalso
      obtain ⟨hi, hmem, hrange⟩ := hI.member_range hx
      obtain ⟨h1, h2⟩ := hrange y o hr1 ho hm
      exact h5 s hs' y hr2 ⟨(x, hi), hmem, h1, h2⟩
  · intro i j hij xi xj hi hj y o hr1 hr2 ho
    cases hm : o.mutable with
    | false => rfl
    | true =>
      exfalso
      obtain ⟨hil, ei⟩ := List.getElem?_eq_some_iff.1 hi
      obtain ⟨hjl, ej⟩ := List.getElem?_eq_some_iff.1 hj
      have hne : xi ≠ xj := by
        rw [← ei, ← ej]
        exact List.pairwise_iff_getElem.1 hI.nodup i j hil hjl hij
      obtain ⟨hi1, hm1, hr1'⟩ := hI.member_range (List.mem_of_getElem? hi)
      obtain ⟨hi2, hm2, hr2'⟩ := hI.member_range (List.mem_of_getElem? hj)
      exact hI.ranges_disjoint hm1 hm2 hne y ⟨hr1' y o hr1 ho hm, hr2' y o hr2 ho hm⟩

/-- `keys[j].wvalues` is `items[n-1-j].fitness.wvalues`, whatever the heap holds now. -/
theorem value_mirror_of_inv {P : Params α} {base : Nat} {hs : HState} (hI : Inv P base hs) :
    hs.keys.map (fun k => some (fitAt P hs.objs k))
      = (hs.items.map (fun x => (viewInd P hs.objs x).map (·.fit))).reverse := by
  have h1 : hs.items.map (fun x => (viewInd P hs.objs x).map (·.fit))
      = (hs.items.map (instFit P hs.objs)).map (Option.map (fitAt P hs.objs)) := by
    rw [List.map_map]
    apply List.map_congr_left
    intro x hx
    obtain ⟨k, _, hk⟩ := hI.member_fit hx
    simp only [Function.comp, viewInd_of_instFit hk, hk, Option.map_some]
  rw [h1, ← List.map_reverse, ← hI.keyof, List.map_map]
  rfl

/-- What a continuation of a history keeps. -/
theorem continuation_facts {P : Params α} {base : Nat} (hsim : SimErase P.sim) (hct : CTOk P.ct) (pf : Bool)
    {st st₂ : HState} {hp : HoF PV α} (hI : Inv P base st) (hR : Rel P st hp) {evs₂ : List Ev}
    (hv : Valid P pf st evs₂) (hr : runH P pf st evs₂ = some st₂) :
    Inv P base st₂ ∧ Stable st st₂ ∧ (CallerOnly evs₂ → st₂.items = st.items ∧ st₂.keys = st.keys ∧ Rel P st₂ hp) := by
  have := run_facts hsim hct pf evs₂ st hp hI hR hv
  rw [hr] at this
  cases hq : pureRun P pf hp (histOf P pf st evs₂) with
  | none => rw [hq] at this; exact this.elim
  | some h2 =>
    rw [hq] at this
    obtain ⟨hI2, hR2, _, hS, _, hco⟩ := this
    refine ⟨hI2, hS, fun hc => ?_⟩
    obtain ⟨e1, e2, e3⟩ := hco hc
    subst e1
    exact ⟨e2, e3, hR2⟩

/-! ### A concrete history -/

namespace Ex

/-- The class table of `C16.Ex` (fitness class 0, list-based individual class 1 with `fitness` = attribute 1);
atoms denote themselves; similarity = equal fitness. -/
def P : Params Int := ⟨C16.Ex.ct, 3, 1, id, 3, fun a b => Fitness.eq a.fit b.fit⟩

/-- The individual at oid 1 (genome `[5, 6]`, fitness object 2 with `wvalues = [2]`) is shown; then it is
re-evaluated in place (`fitness.values` → `wvalues = [9]`), its genome is edited in place (`[7]`), and it is
shown again. -/
def evs : List Ev :=
  [.upd [1], .write 2 ⟨0, [.atom 9], [], true⟩, .write 1 ⟨1, [.atom 7], [(1, .ref 2)], true⟩, .upd [1]]

theorem simErase : SimErase P.sim := by
  intro x x' y y' e1 e2
  have h1 : x.fit = x'.fit := congrArg Prod.snd e1
  have h2 : y.fit = y'.fit := congrArg Prod.snd e2
  show Fitness.eq x.fit y.fit = Fitness.eq x'.fit y'.fit
  rw [h1, h2]

theorem copyOK_fit (objs : Oid → Option Obj) (w : Int) :
    CopyOK objs ⟨.fitness, [], [(7, .atom (-1))]⟩ ⟨0, [.atom w], [], true⟩ := by
  refine ⟨(fun _ p hp => by cases hp), (fun _ => ⟨rfl, fun _ => rfl, ?_⟩),
    (fun h => by cases h), (fun h => by cases h), (fun h => by cases h)⟩
  intro c hc
  simp at hc; subst hc; rfl

theorem copyOK_ind (objs : Oid → Option Obj) (items : List Val) :
    CopyOK objs ⟨.plain, [(1, 0)], [(9, .atom 3)]⟩ ⟨1, items, [(1, .ref 2)], true⟩ :=
  ⟨(fun h => by cases h), (fun h => by cases h), (fun h => by cases h), (fun h => by cases h),
    (fun h => by cases h)⟩

/-- An individual `⟨1, [atom g…], fitness ↦ 2⟩` at oid 1 with a fitness `⟨0, [atom w]⟩` at oid 2 can be
shown to an archive that has allocated nothing below 3. -/
theorem subm (hs : HState) (g : List Int) (w : Int)
    (h1 : hs.objs 1 = some ⟨1, g.map Val.atom, [(1, .ref 2)], true⟩)
    (h2 : hs.objs 2 = some ⟨0, [.atom w], [], true⟩) (hl : ∀ y, InLog hs.log y → 3 ≤ y) : Subm P hs 1 := by
  refine ⟨fun h => by have := hl 1 h; omega, ?_, 2, by simp only [instFit, h1, P, lookup]; rfl⟩
  refine ⟨_, _, h1, rfl, copyOK_ind _ _, ?_⟩
  intro c hc
  simp only [Obj.children, List.mem_append, List.mem_map, List.map_cons, List.map_nil,
    List.mem_singleton] at hc
  rcases hc with ⟨a, _, rfl⟩ | rfl
  · trivial
  · refine ⟨_, _, h2, rfl, copyOK_fit _ w, ?_⟩
    intro c hc
    simp [Obj.children] at hc
    subst hc
    trivial

/-- The history is admissible, for the hall of fame and for the Pareto archive. -/
theorem valid (pf : Bool) : Valid P pf (emptyH 2 C16.Ex.heap 3) evs := by
  have hI0 := inv_empty P 2 C16.Ex.heap_closed
  have hR0 := rel_empty P 2 0 C16.Ex.heap 3
  have hs0 : Subm P (emptyH 2 C16.Ex.heap 3) 1 :=
    subm _ [5, 6] 2 rfl rfl (fun y h => by obtain ⟨r, hr, _⟩ := h; cases hr)
  refine ⟨fun x hx => by simp at hx; subst hx; exact hs0, fun hs1 he1 => ?_⟩
  -- the state after the first update extends the initial one
  have hl := upd_lock simErase C16.Ex.ct_ok pf hI0 hR0 [1]
    (fun x hx => by simp at hx; subst hx; exact hs0)
  rw [he1] at hl
  obtain ⟨hI1, hE1⟩ := hl.of_some
  have ho1 : hs1.objs 1 = some ⟨1, [.atom 5, .atom 6], [(1, .ref 2)], true⟩ := hE1.objs 1 (by decide)
  have ho2 : hs1.objs 2 = some ⟨0, [.atom 2], [], true⟩ := hE1.objs 2 (by decide)
  have hlog1 : ∀ y, InLog hs1.log y → 3 ≤ y := by
    intro y hy
    rcases hE1.logNew y hy with h | h
    · obtain ⟨r, hr, _⟩ := h; cases hr
    · exact h
  have hn1 : ¬ InLog hs1.log 1 := fun h => by have := hlog1 1 h; omega
  have hn2 : ¬ InLog hs1.log 2 := fun h => by have := hlog1 2 h; omega
  refine ⟨⟨⟨_, ho2, rfl⟩, hn2, fun z hz => (by simp [Obj.children] at hz)⟩, fun hs2 he2 => ?_⟩
  cases he2
  have ho1' : write hs1.objs 2 ⟨0, [.atom 9], [], true⟩ 1
      = some ⟨1, [.atom 5, .atom 6], [(1, .ref 2)], true⟩ := by
    rw [write_other _ _ (by decide)]; exact ho1
  have ho2' : write hs1.objs 2 ⟨0, [.atom 9], [], true⟩ 2 = some ⟨0, [.atom 9], [], true⟩ := write_same _ _ _
  refine ⟨⟨⟨_, ho1', rfl⟩, hn1, fun z hz => ?_⟩, fun hs3 he3 => ?_⟩
  · simp [Obj.children] at hz
    subst hz
    exact ⟨by show (write hs1.objs 2 _ 2).isSome = true; rw [ho2']; rfl, hn2⟩
  cases he3
  refine ⟨fun x hx => ?_, fun _ _ => trivial⟩
  simp at hx
  subst hx
  have ho1'' : write (write hs1.objs 2 ⟨0, [.atom 9], [], true⟩) 1 ⟨1, [.atom 7], [(1, .ref 2)], true⟩ 1
      = some ⟨1, [.atom 7], [(1, .ref 2)], true⟩ := write_same _ _ _
  have ho2'' : write (write hs1.objs 2 ⟨0, [.atom 9], [], true⟩) 1 ⟨1, [.atom 7], [(1, .ref 2)], true⟩ 2
      = some ⟨0, [.atom 9], [], true⟩ := by
    rw [write_other _ _ (by decide)]; exact ho2'
  exact subm _ [7] 9 ho1'' ho2'' hlog1

/-- Equal fitness as similarity satisfies the reading's hypotheses on every universe. -/
theorem simHyp (U : List (Ind PV Int)) : C08L.SimHyp P.sim U where
  symm := by
    intro x y h
    have : Fitness.eq x.fit y.fit = true := h
    rw [C08L.eq_iff] at this
    show Fitness.eq y.fit x.fit = true
    rw [C08L.eq_iff]; exact this.symm
  same := by
    intro x x' y y' h1 h2
    show Fitness.eq x.fit y.fit = Fitness.eq x'.fit y'.fit
    rw [h1.2, h2.2]
  refl := by
    intro x
    show Fitness.eq x.fit x.fit = true
    rw [C08L.eq_iff]
  fit := by
    intro x _ y _ h
    have : Fitness.eq x.fit y.fit = true := h
    exact (C08L.eq_iff _ _).1 this

/-- What the archive saw: the individual with `wvalues = [2]`, later the same object with `[9]`. -/
theorem hist_fits (pf : Bool) :
    (histOf P pf (emptyH 2 C16.Ex.heap 3) evs).flatten.map (·.fit.wvalues) = [[2], [9]] := by
  cases pf <;> decide

theorem pfHyp (pf : Bool) : C08L.PfHyp P.sim 1 (histOf P pf (emptyH 2 C16.Ex.heap 3) evs).flatten where
  toSimBase := (simHyp []).toSimBase
  len := by
    intro x hx
    have : x.fit.wvalues ∈ (histOf P pf (emptyH 2 C16.Ex.heap 3) evs).flatten.map (·.fit.wvalues) :=
      List.mem_map.2 ⟨x, hx, rfl⟩
    rw [hist_fits] at this
    simp only [List.mem_cons, List.not_mem_nil, or_false] at this
    rcases this with h | h <;> rw [h] <;> rfl

end Ex

end C08H
