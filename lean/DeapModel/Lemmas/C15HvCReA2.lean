import DeapModel.Lemmas.C15HvCReA1
/-!
C15 — the re-entered 3-D base case of `_hv.c`: proof of `SweepBodyRe_Statement` (one iteration of the main loop
l.899-989 on an unmarked node, with what happened to `domr`, `area`, `vol`, `ignore`).
-/
namespace HvC
set_option linter.unusedVariables false
open Hypervolume
open HvSweep (Shape DL Seg Link DimEq ids)

/-! ### the predecessor in the ordered sequence -/

theorem listPrev_mem_ne : ∀ (l : List ℕ) (a : ℕ), listPrev l a ≠ 0 → l.Nodup → listPrev l a ∈ l ∧ listPrev l a ≠ a
  | [], _, h, _ => absurd rfl h
  | [_], _, h, _ => absurd rfl h
  | x :: y :: l, a, h, hnd => by
    by_cases hy : y = a
    · simp only [listPrev, if_pos hy] at h ⊢
      refine ⟨by simp, ?_⟩
      intro e
      rw [← hy] at e
      rw [e] at hnd
      simp at hnd
    · simp only [listPrev, if_neg hy] at h ⊢
      have ih := listPrev_mem_ne (y :: l) a h (List.nodup_cons.mp hnd).2
      exact ⟨List.mem_cons_of_mem _ ih.1, ih.2⟩

/-! ### what a run of `avl_unlink_node; domr := px2` does to the other tables -/

/-- `S'` arises from `S` by unlinking some tree members, each with `domr := px2` -/
def DrRel (px2 : ℚ) (S S' : St) : Prop :=
  S'.area = S.area ∧ S'.vol = S.vol ∧ S'.ignore = S.ignore ∧ S'.domr.length = S.domr.length ∧
  Frame S S' ∧
  (∀ y ∈ S'.tree, y ∈ S.tree) ∧ (S.tree.Nodup → S'.tree.Nodup) ∧
  (∀ y, (y ∉ S.tree ∨ y ∈ S'.tree) → dr S' y = dr S y) ∧
  (∀ y ∈ S.tree, y ∉ S'.tree → y < S.domr.length → dr S' y = px2)

theorem DrRel.refl (px2 : ℚ) (S : St) : DrRel px2 S S :=
  ⟨rfl, rfl, rfl, rfl, Frame.refl S, fun y h => h, fun h => h, fun y _ => rfl, fun y h1 h2 => absurd h1 h2⟩

theorem DrRel.trans {px2 : ℚ} {S T U : St} (h₁ : DrRel px2 S T) (h₂ : DrRel px2 T U) : DrRel px2 S U := by
  obtain ⟨a1, a2, a3, a4, aF, a5, a6, a7, a8⟩ := h₁
  obtain ⟨b1, b2, b3, b4, bF, b5, b6, b7, b8⟩ := h₂
  refine ⟨b1.trans a1, b2.trans a2, b3.trans a3, b4.trans a4, Frame.trans aF bF, fun y h => a5 y (b5 y h),
    fun h => b6 (a6 h), ?_, ?_⟩
  · intro y hy
    rcases hy with hy | hy
    · have hyT : y ∉ T.tree := fun hm => hy (a5 y hm)
      rw [b7 y (Or.inl hyT), a7 y (Or.inl hy)]
    · rw [b7 y (Or.inr hy), a7 y (Or.inr (b5 y hy))]
  · intro y hyS hyU hlen
    by_cases hyT : y ∈ T.tree
    · exact b8 y hyT hyU (by rw [a4]; exact hlen)
    · rw [b7 y (Or.inl hyT)]
      exact a8 y hyS hyT hlen

theorem DrRel.step (px2 : ℚ) (S : St) (t : ℕ) (hnd : S.tree.Nodup) (ht : t ∈ S.tree) :
    DrRel px2 S (setDr (avlUnlinkNode S t) t px2) := by
  refine ⟨rfl, rfl, rfl, ?_, ⟨rfl, rfl, rfl, rfl, rfl⟩, ?_, ?_, ?_, ?_⟩
  · show (S.domr.set t px2).length = _
    simp
  · intro y hy
    exact List.mem_of_mem_erase hy
  · intro h
    exact h.erase _
  · intro y hy
    have hne : y ≠ t := by
      rcases hy with hy | hy
      · intro e; exact hy (e ▸ ht)
      · exact ((List.Nodup.mem_erase_iff hnd).mp hy).1
    exact HvSweep.getD_set_ne _ _ _ _ _ hne
  · intro y hyS hyn hlen
    have hyt : y = t := by
      by_contra hne
      exact hyn ((List.Nodup.mem_erase_iff hnd).mpr ⟨hne, hyS⟩)
    rw [hyt] at hlen ⊢
    exact HvSweep.getD_set_self _ _ _ _ hlen

/-- **the loop l.955-968**, generic frame -/
theorem chainLoop_frame (C : Cargo) (nxt0 px0 px2 : ℚ) : ∀ (fuel tnode : ℕ) (cur prv : ℚ × ℚ) (hypera : ℚ) (S : St)
    (t' : ℕ) (cur' prv' : ℚ × ℚ) (h' : ℚ) (S' : St),
    S.tree.Nodup → tnode ∈ S.tree →
    chainLoop C nxt0 px0 px2 fuel tnode cur prv hypera S = some (t', cur', prv', h', S') →
    DrRel px2 S S' ∧ t' ∈ S'.tree := by
  intro fuel
  induction fuel with
  | zero =>
    intro tnode cur prv hypera S t' cur' prv' h' S' hnd ht hrun
    simp [chainLoop] at hrun
  | succ f ih =>
    intro tnode cur prv hypera S t' cur' prv' h' S' hnd ht hrun
    unfold chainLoop at hrun
    by_cases h1 : tpv S tnode = 0
    · rw [if_pos h1] at hrun
      simp only [Option.some.injEq, Prod.mk.injEq] at hrun
      obtain ⟨e1, _, _, _, e5⟩ := hrun
      subst e1; subst e5
      exact ⟨DrRel.refl _ _, ht⟩
    · rw [if_neg h1] at hrun
      simp only at hrun
      by_cases h2 : (item C (tpv S tnode)).1 < px0
      · rw [if_pos h2] at hrun
        simp only [Option.some.injEq, Prod.mk.injEq] at hrun
        obtain ⟨e1, _, _, _, e5⟩ := hrun
        subst e1; subst e5
        exact ⟨DrRel.refl _ _, ht⟩
      · rw [if_neg h2] at hrun
        have hp := listPrev_mem_ne S.tree tnode h1 hnd
        have hstep := DrRel.step px2 S tnode hnd ht
        have hmem : tpv S tnode ∈ (setDr (avlUnlinkNode S tnode) tnode px2).tree := by
          show tpv S tnode ∈ S.tree.erase tnode
          exact (List.Nodup.mem_erase_iff hnd).mpr ⟨hp.2, hp.1⟩
        obtain ⟨hr, hm⟩ := ih _ _ _ _ _ _ _ _ _ _ (hstep.2.2.2.2.2.2.1 hnd) hmem hrun
        exact ⟨DrRel.trans hstep hr, hm⟩

/-- **l.944-987**, generic frame: `pp` sits in the tree after `As`; whatever is unlinked gets `domr := pp.z` -/
theorem sweepTail_frame (C : Cargo) (R : List ℚ) (tfuel pp : ℕ) (hyperv hypera height : ℚ) (nxt : ℚ × ℚ) (tnode : ℕ)
    (S : St) (As B : List ℕ)
    (hT : S.tree = As ++ pp :: B) (hnd : S.tree.Nodup) (h0 : 0 ∉ S.tree)
    (htn : tnode = (As.getLast?).getD 0)
    (r : ℚ × ℚ × St) (hrun : sweepTail C R tfuel pp hyperv hypera height nxt tnode S = some r) :
    r.2.2.vol = S.vol ∧ r.2.2.area = HvSweep.tset S.area pp 2 r.2.1 ∧ r.2.2.ignore = S.ignore ∧
    r.2.2.domr.length = S.domr.length ∧ Frame S r.2.2 ∧
    (pp ∈ r.2.2.tree → pp < S.domr.length → dr r.2.2 pp = rf R 2) ∧
    (∀ y, y ≠ pp → (y ∉ S.tree ∨ y ∈ r.2.2.tree) → dr r.2.2 y = dr S y) ∧
    (∀ y ∈ S.tree, y ∉ r.2.2.tree → y < S.domr.length → dr r.2.2 y = cg C pp 2) := by
  -- the result is `setAr S' pp 2 r.2.1` with `S'` reached from `setDr S pp ref[2]` by unlinking
  have key : ∃ S', DrRel (cg C pp 2) (setDr S pp (rf R 2)) S' ∧ r.2.2 = setAr S' pp 2 r.2.1 := by
    unfold sweepTail at hrun
    simp only at hrun
    set S2 := setDr S pp (rf R 2) with hS2
    have hnd2 : S2.tree.Nodup := hnd
    by_cases h1 : tnode ≠ 0
    · rw [if_pos h1] at hrun
      by_cases h2 : (item C tnode).1 ≥ cg C pp 0
      · rw [if_pos h2] at hrun
        have htpv : tpv S2 pp = tnode := by
          rw [htn]; exact tpv_mid S2 As B pp hT hnd2
        have hmem : tpv S2 pp ∈ S2.tree := by
          have := listPrev_mem_ne S2.tree pp (by show tpv S2 pp ≠ 0; rw [htpv]; exact h1) hnd2
          exact this.1
        cases hcl : chainLoop C nxt.1 (cg C pp 0) (cg C pp 2) tfuel (tpv S2 pp) (item C (tpv S2 pp)) (item C tnode)
            hypera S2 with
        | none => rw [hcl] at hrun; simp at hrun
        | some res =>
          obtain ⟨t', cur', prv', h', S3⟩ := res
          rw [hcl] at hrun
          simp only at hrun
          obtain ⟨hr3, ht3⟩ := chainLoop_frame C nxt.1 (cg C pp 0) (cg C pp 2) tfuel _ _ _ _ S2 t' cur' prv' h' S3 hnd2 hmem hcl
          have hstep := DrRel.step (cg C pp 2) S3 t' (hr3.2.2.2.2.2.2.1 hnd2) ht3
          have hrel := DrRel.trans hr3 hstep
          by_cases h3 : tpv S3 t' = 0
          · rw [if_pos h3] at hrun
            simp only [Option.some.injEq] at hrun
            subst hrun
            exact ⟨_, hrel, rfl⟩
          · rw [if_neg h3] at hrun
            simp only [Option.some.injEq] at hrun
            subst hrun
            exact ⟨_, hrel, rfl⟩
      · rw [if_neg h2] at hrun
        simp only [Option.some.injEq] at hrun
        subst hrun
        exact ⟨_, DrRel.refl _ _, rfl⟩
    · rw [if_neg h1] at hrun
      simp only [Option.some.injEq] at hrun
      subst hrun
      exact ⟨_, DrRel.refl _ _, rfl⟩
  obtain ⟨S', ⟨a1, a2, a3, a4, aF, a5, a6, a7, a8⟩, hr⟩ := key
  have hlen2 : (setDr S pp (rf R 2)).domr.length = S.domr.length := by
    show (S.domr.set pp (rf R 2)).length = _
    simp
  rw [hr]
  refine ⟨a2, ?_, a3, a4.trans hlen2, Frame.trans ⟨rfl, rfl, rfl, rfl, rfl⟩ (Frame.trans aF ⟨rfl, rfl, rfl, rfl, rfl⟩),
    ?_, ?_, ?_⟩
  · show HvSweep.tset S'.area pp 2 _ = _
    rw [a1]; rfl
  · intro hm hlt
    have : dr S' pp = dr (setDr S pp (rf R 2)) pp := a7 pp (Or.inr hm)
    show dr S' pp = _
    rw [this]
    exact HvSweep.getD_set_self _ _ _ _ hlt
  · intro y hy hm
    have : dr S' y = dr (setDr S pp (rf R 2)) y := a7 y hm
    show dr S' y = _
    rw [this]
    exact HvSweep.getD_set_ne _ _ _ _ _ hy
  · intro y hyS hyn hlt
    exact a8 y hyS hyn (by rw [hlen2]; exact hlt)

/-! ### one iteration of the main loop (l.899-989) -/

theorem sweepBody_re : SweepBodyRe_Statement := by
  intro C R tfuel pp hyperv hypera S hne hnd h0 hppT hpp0 hst hpplt hign harea hfuel hh
  unfold sweepBody sweepBodyWith
  simp only
  set S0 := setVl S pp 2 hyperv with hS0
  have hT0 : S0.tree = S.tree := rfl
  have hign' : ¬ (2 : ℤ) ≤ ign S0 pp := hign
  rw [if_neg hign']
  have hsc : searchClosest C S0 (item C pp) = searchList C (item C pp) S.tree := rfl
  obtain ⟨As, B, hAB, hAs, hres⟩ := searchList_spec C (item C pp) S.tree hne
  have hheight : (if pp = pv S0 2 0 then rf R 2 - cg C pp 2 else cg C (nx S0 2 pp) 2 - cg C pp 2) = hgt C R S pp := rfl
  rw [hheight]
  have hitem : ∀ a, item C a = (cg C a 0, cg C a 1) := fun _ => rfl
  -- facts about the predecessors: they lie at or above pp, strictly above or strictly to the right
  have hAsfacts : ∀ e ∈ As, (item C pp).2 ≤ (item C e).2 ∧ ((item C pp).2 = (item C e).2 → (item C pp).1 < (item C e).1) :=
    fun e he => (cmpNeg_false_iff _ _).mp (hAs e he)
  -- the common continuation after `pp` has been linked between As and B
  have cont : ∀ (S1 : St) (nxt : ℚ × ℚ) (tnode : ℕ), S1.tree = As ++ pp :: B → Frame S0 S1 →
      S1.domr = S.domr → S1.vol = HvSweep.tset S.vol pp 2 hyperv → S1.area = S.area →
      tnode = (As.getLast?).getD 0 → nxt.1 = headX (rf R 0) (B.map (item C)) →
      (∀ b ∈ B, (item C pp).1 < (item C b).1 ∧ (item C b).2 < (item C pp).2) →
      ∃ r, sweepTail C R tfuel pp hyperv hypera (hgt C R S pp) nxt tnode S1 = some r ∧
        r.1 = hyperv + r.2.1 * hgt C R S pp ∧
        r.2.1 = hArea (rf R 0) (rf R 1) (r.2.2.tree.map (item C)) ∧
        PtrFrame S r.2.2 ∧
        r.2.2.tree ≠ [] ∧ r.2.2.tree.Nodup ∧ (∀ t ∈ r.2.2.tree, t = pp ∨ t ∈ S.tree) ∧
        Stair (r.2.2.tree.map (item C)) ∧
        (∀ q, (q = pp ∨ q ∈ S.tree) → ∃ t ∈ r.2.2.tree, (item C t).1 ≤ (item C q).1 ∧ (item C t).2 ≤ (item C q).2) ∧
        r.2.2.vol = HvSweep.tset S.vol pp 2 hyperv ∧ r.2.2.area = HvSweep.tset S.area pp 2 r.2.1 ∧
        (((∃ b ∈ S.tree, (item C b).1 ≤ (item C pp).1 ∧ (item C b).2 ≤ (item C pp).2) ∧ r.2.2.tree = S.tree ∧
            r.2.2.ignore = S.ignore.set pp 2 ∧ r.2.2.domr = S.domr.set pp (cg C pp 2)) ∨
         (r.2.2.ignore = S.ignore ∧ pp ∈ r.2.2.tree ∧ r.2.2.domr.length = S.domr.length ∧
            (∀ t ∈ S.tree, ¬ ((item C t).1 ≤ (item C pp).1 ∧ (item C t).2 ≤ (item C pp).2)) ∧
            (pp < S.domr.length → dr r.2.2 pp = rf R 2) ∧
            (∀ y, y ≠ pp → (y ∉ S.tree ∨ y ∈ r.2.2.tree) → dr r.2.2 y = dr S y) ∧
            (∀ a ∈ S.tree, a ∉ r.2.2.tree → (a < S.domr.length → dr r.2.2 a = cg C pp 2) ∧
               (item C pp).1 ≤ (item C a).1 ∧ (item C pp).2 ≤ (item C a).2 ∧ item C pp ≠ item C a))) := by
    intro S1 nxt tnode hT1 hF1 hdomr1 hvol1 harea1 htn hnxt hBfacts
    have hnd1 : S1.tree.Nodup := by
      rw [hT1]
      have := nodup_insert_mid (A := As) (D := []) (B := B) (pp := pp) (by simpa [← hAB] using hnd) (by simpa [← hAB] using hppT)
      exact this
    have h01 : 0 ∉ S1.tree := by
      rw [hT1]
      intro hm
      rcases List.mem_append.mp hm with h | h
      · exact h0 (by rw [hAB]; exact List.mem_append_left _ h)
      · rcases List.mem_cons.mp h with h | h
        · exact hpp0 h.symm
        · exact h0 (by rw [hAB]; exact List.mem_append_right _ h)
    obtain ⟨A, D, hAD, hD, hAlt, r, hrun, hr1, hr2, hrT, hrF⟩ := sweepTail_spec C R tfuel pp hyperv hypera (hgt C R S pp) nxt tnode
      S1 As B hT1 hnd1 h01 (by rw [← hAB]; exact hst) (by rw [← hAB]; exact harea) htn hnxt
      (by have : As.length ≤ S.tree.length := by rw [hAB]; simp
          omega) hh
    obtain ⟨fvol, farea, fign, flen, _, fpp, fother, fgone⟩ := sweepTail_frame C R tfuel pp hyperv hypera (hgt C R S pp) nxt tnode
      S1 As B hT1 hnd1 h01 htn r hrun
    have hTsplit : S.tree = A ++ D ++ B := by rw [hAB, hAD]
    have hppr : pp ∈ r.2.2.tree := by rw [hrT]; simp
    refine ⟨r, hrun, hr1, by rw [hrT]; exact hr2, ?_, ?_, ?_, ?_, ?_, ?_, ?_, ?_, ?_⟩
    · obtain ⟨a1, a2, a3, a4, a5⟩ := Frame.trans hF1 hrF
      exact ⟨a1, a2, a4, a5⟩
    · rw [hrT]; simp
    · rw [hrT]; exact nodup_insert_mid (by rw [← hTsplit]; exact hnd) (by rw [← hTsplit]; exact hppT)
    · intro t ht
      rw [hrT] at ht
      rcases List.mem_append.mp ht with h | h
      · exact Or.inr (by rw [hTsplit]; simp [h])
      · rcases List.mem_cons.mp h with h | h
        · exact Or.inl h
        · exact Or.inr (by rw [hTsplit]; simp [h])
    · -- the new tree is a staircase
      rw [hrT]
      have hstAB : Stair ((A ++ B).map (item C)) := by
        have hsub : ((A ++ B).map (item C)).Sublist (S.tree.map (item C)) := by
          rw [hTsplit, List.append_assoc]
          exact ((List.Sublist.refl A).append (List.sublist_append_right D B)).map _
        exact List.Pairwise.sublist hsub hst
      have hpw := List.pairwise_map.mp hstAB
      have hpw' := List.pairwise_append.mp hpw
      unfold Stair
      rw [List.pairwise_map]
      refine List.pairwise_append.mpr ⟨hpw'.1, List.pairwise_cons.mpr ⟨fun b hb => hBfacts b hb, hpw'.2.1⟩, ?_⟩
      intro a ha b hb
      rcases List.mem_cons.mp hb with rfl | hb
      · have hx := hAlt a ha
        have hf := hAsfacts a (by rw [hAD]; exact List.mem_append_left _ ha)
        refine ⟨hx, ?_⟩
        rcases lt_or_eq_of_le hf.1 with h | h
        · exact h
        · exact absurd (hf.2 h) (not_lt.mpr (le_of_lt hx))
      · exact hpw'.2.2 a ha b hb
    · intro q hq
      rw [hrT]
      rcases hq with rfl | hq
      · exact ⟨q, by simp, le_refl _, le_refl _⟩
      · rw [hTsplit] at hq
        rcases List.mem_append.mp hq with h | h
        · rcases List.mem_append.mp h with h | h
          · exact ⟨q, by simp [h], le_refl _, le_refl _⟩
          · exact ⟨pp, by simp, hD q h, (hAsfacts q (by rw [hAD]; exact List.mem_append_right _ h)).1⟩
        · exact ⟨q, by simp [h], le_refl _, le_refl _⟩
    · rw [fvol, hvol1]
    · rw [farea, harea1]
    · refine Or.inr ⟨?_, hppr, ?_, ?_, ?_, ?_, ?_⟩
      · rw [fign, hF1.2.2.1]; rfl
      · rw [flen, hdomr1]
      · intro t ht hdom
        rw [hAB] at ht
        rcases List.mem_append.mp ht with h | h
        · have hf := hAsfacts t h
          have heq : (item C pp).2 = (item C t).2 := le_antisymm hf.1 hdom.2
          exact absurd (hf.2 heq) (not_lt.mpr hdom.1)
        · exact absurd (hBfacts t h).1 (not_lt.mpr hdom.1)
      · intro hlt
        exact fpp hppr (by rw [hdomr1]; exact hlt)
      · intro y hy hm
        have hm1 : y ∉ S1.tree ∨ y ∈ r.2.2.tree := by
          rcases hm with hm | hm
          · left
            rw [hT1]
            intro hin
            rcases List.mem_append.mp hin with h | h
            · exact hm (by rw [hAB]; exact List.mem_append_left _ h)
            · rcases List.mem_cons.mp h with h | h
              · exact hy h
              · exact hm (by rw [hAB]; exact List.mem_append_right _ h)
          · exact Or.inr hm
        rw [fother y hy hm1]
        unfold dr
        rw [hdomr1]
      · intro a haS har
        have haD : a ∈ D := by
          rw [hTsplit] at haS
          rw [hrT] at har
          rcases List.mem_append.mp haS with h | h
          · rcases List.mem_append.mp h with h | h
            · exact absurd (List.mem_append_left _ h) har
            · exact h
          · exact absurd (List.mem_append_right _ (List.mem_cons_of_mem _ h)) har
        have haAs : a ∈ As := by rw [hAD]; exact List.mem_append_right _ haD
        have haS1 : a ∈ S1.tree := by rw [hT1]; exact List.mem_append_left _ haAs
        have hf := hAsfacts a haAs
        refine ⟨fun hlt => fgone a haS1 har (by rw [hdomr1]; exact hlt), hD a haD, hf.1, ?_⟩
        intro e
        have := hf.2 (by rw [e])
        rw [e] at this
        exact lt_irrefl _ this
  rcases hres with ⟨hB, A', a, hA', hr⟩ | ⟨b, B', hB, hcb, hr⟩
  · -- pp goes to the end of the tree
    subst hB
    simp only [List.append_nil] at hAB
    have hsc' : searchClosest C S0 (item C pp) = (a, 1) := hsc.trans hr
    rw [hsc']
    simp only
    have h10 : ¬ ((1 : ℤ) ≤ 0) := by decide
    simp only [if_neg h10]
    have hT0' : S0.tree = A' ++ a :: [] := by rw [hT0, hAB, hA']
    have htnx : tnx S0 a = 0 := by rw [tnx_mid S0 A' [] a hT0' (by rw [hT0]; exact hnd)]; rfl
    simp only [htnx, ne_eq, not_true_eq_false, if_false]
    have hpplt' : ¬ rf R 0 ≤ cg C pp 0 := not_le.mpr hpplt
    rw [if_neg hpplt']
    have haA' : a ∉ A' := by
      have := hnd
      rw [hAB, hA'] at this
      intro hm
      exact (List.nodup_append.mp this).2.2 a hm a (by simp) rfl
    have hT1 : (avlInsertAfter S0 a pp).tree = As ++ pp :: [] := by
      show insertAfter a pp S0.tree = _
      rw [hT0', insertAfter_mid a pp [] A' haA', hA']; simp
    exact cont (avlInsertAfter S0 a pp) (rf R 0, rf R 1) a hT1 ⟨rfl, rfl, rfl, rfl, rfl⟩ rfl rfl rfl (by rw [hA']; simp) rfl
      (fun b hb => absurd hb (List.not_mem_nil))
  · have hsc' : searchClosest C S0 (item C pp) = (b, -1) := hsc.trans hr
    rw [hsc']
    simp only
    have hm10 : ((-1 : ℤ) ≤ 0) := by decide
    simp only [if_pos hm10]
    have hcb' := (cmpNeg_true_iff _ _).mp hcb
    by_cases hdom : (item C b).1 ≤ cg C pp 0
    · -- pp is dominated by its successor
      rw [if_pos hdom]
      rw [ite_height _ _ _ hh]
      have hbS : b ∈ S.tree := by rw [hAB, hB]; simp
      have hby : (item C b).2 ≤ (item C pp).2 := by
        rcases hcb' with h | ⟨h, _⟩
        · exact le_of_lt h
        · exact le_of_eq h
      refine ⟨_, rfl, rfl, harea, ⟨rfl, rfl, rfl, rfl⟩, hne, hnd, fun t ht => Or.inr ht, hst, ?_, rfl, rfl,
        Or.inl ⟨⟨b, hbS, hdom, hby⟩, rfl, rfl, rfl⟩⟩
      intro q hq
      rcases hq with rfl | hq
      · exact ⟨b, hbS, hdom, hby⟩
      · exact ⟨q, hq, le_refl _, le_refl _⟩
    · rw [if_neg hdom]
      have hbx : (item C pp).1 < (item C b).1 := not_le.mp hdom
      have hby : (item C b).2 < (item C pp).2 := by
        rcases hcb' with h | ⟨_, h⟩
        · exact h
        · exact absurd h (not_le.mpr hbx)
      have hbAs : b ∉ As := by
        have := hnd
        rw [hAB, hB] at this
        intro hm
        exact (List.nodup_append.mp this).2.2 b hm b (by simp) rfl
      have hT1 : (avlInsertBefore S0 b pp).tree = As ++ pp :: B := by
        show insertBefore b pp S0.tree = _
        rw [hT0, hAB, hB, insertBefore_mid b pp B' As hbAs]
      have hnd1 : (avlInsertBefore S0 b pp).tree.Nodup := by
        rw [hT1]
        exact nodup_insert_mid (A := As) (D := []) (B := B) (by simpa [← hAB] using hnd) (by simpa [← hAB] using hppT)
      have htpv : tpv (avlInsertBefore S0 b pp) pp = (As.getLast?).getD 0 := tpv_mid _ As B pp hT1 hnd1
      rw [htpv]
      refine cont (avlInsertBefore S0 b pp) (item C b) _ hT1 ⟨rfl, rfl, rfl, rfl, rfl⟩ rfl rfl rfl rfl (by rw [hB]; rfl) ?_
      intro b' hb'
      rw [hB] at hb'
      rcases List.mem_cons.mp hb' with rfl | hb'
      · exact ⟨hbx, hby⟩
      · have hpw := List.pairwise_map.mp hst
        rw [hAB, hB] at hpw
        have := (List.pairwise_cons.mp (List.pairwise_append.mp hpw).2.1).1 b' hb'
        exact ⟨lt_trans hbx this.1, lt_trans this.2 hby⟩

end HvC
