/-
C13 helper lemmas (4): the three recombination-weight schemes of `computeParams` (cma.py:183-194).
-/
import DeapModel.Lemmas.C13Basic
import Mathlib.Tactic.Ring
import Mathlib.Tactic.Linarith
import Mathlib.Tactic.Positivity
import Mathlib.Analysis.SpecialFunctions.Log.Basic

open Cma C13L

namespace C13L

/-- the raw weight of rank `i+1` as a real function -/
noncomputable def rawW (sch : Scheme) (mu : Nat) (i : Nat) : ℝ :=
  match sch with
  | .superlinear => Real.log ((mu : ℝ) + 1 / 2) - Real.log ((i : ℝ) + 1)
  | .linear => (mu : ℝ) + 1 / 2 - ((i : ℝ) + 1)
  | .equal => 1

theorem rawWeights_eq (sch : Scheme) (mu : Nat) : (rawWeights sch mu : List ℝ) = tab mu (rawW sch mu) := by
  cases sch <;> simp only [rawWeights] <;> apply tab_congr <;> intro i <;> real_bridge <;> push_cast <;> rfl

theorem rawW_pos (sch : Scheme) (mu : Nat) (i : Fin mu) : 0 < rawW sch mu i.val := by
  have hi : ((i.val : ℝ) + 1) ≤ (mu : ℝ) := by exact_mod_cast i.isLt
  have h0 : (0 : ℝ) ≤ (i.val : ℝ) := Nat.cast_nonneg _
  cases sch <;> simp only [rawW]
  · have : Real.log ((i.val : ℝ) + 1) < Real.log ((mu : ℝ) + 1 / 2) :=
      Real.log_lt_log (by linarith) (by linarith)
    linarith
  · linarith
  · exact one_pos

theorem rawW_antitone (sch : Scheme) (mu : Nat) {i j : Nat} (h : i ≤ j) : rawW sch mu j ≤ rawW sch mu i := by
  have hij : (i : ℝ) ≤ (j : ℝ) := by exact_mod_cast h
  have h0 : (0 : ℝ) ≤ (i : ℝ) := Nat.cast_nonneg _
  cases sch <;> simp only [rawW]
  · have : Real.log ((i : ℝ) + 1) ≤ Real.log ((j : ℝ) + 1) := Real.log_le_log (by linarith) (by linarith)
    linarith
  · linarith
  · exact le_refl _

theorem normalise_tab (n : Nat) (f : Nat → ℝ) :
    normalise (tab n f) = tab n (fun i => f i / ∑ k : Fin n, f k.val) := by
  have : RealLike.sum (tab n f) = ∑ k : Fin n, f k.val := by rw [← sumTo_real]; rfl
  simp only [normalise, this]
  simp only [tab, List.map_map]
  rfl

theorem sum_rawW_pos (sch : Scheme) {mu : Nat} (hmu : 1 ≤ mu) : 0 < ∑ k : Fin mu, rawW sch mu k.val := by
  have : Nonempty (Fin mu) := ⟨⟨0, hmu⟩⟩
  exact Finset.sum_pos (fun k _ => rawW_pos sch mu k) Finset.univ_nonempty

/-- the normalised weights as computed by `computeParams` -/
theorem weights_eq (sch : Scheme) (mu : Nat) :
    (normalise (rawWeights sch mu) : List ℝ) = tab mu (fun i => rawW sch mu i / ∑ k : Fin mu, rawW sch mu k.val) := by
  rw [rawWeights_eq, normalise_tab]

theorem weights_facts (sch : Scheme) {mu : Nat} (hmu : 1 ≤ mu) :
    let W : List ℝ := normalise (rawWeights sch mu)
    W.length = mu ∧ (∀ i : Fin mu, 0 < vget W i.val) ∧
    (∀ i j : Fin mu, i ≤ j → vget W j.val ≤ vget W i.val) ∧ ∑ i : Fin mu, vget W i.val = 1 := by
  intro W
  have hS := sum_rawW_pos sch hmu
  have hW : W = tab mu (fun i => rawW sch mu i / ∑ k : Fin mu, rawW sch mu k.val) := weights_eq sch mu
  refine ⟨by rw [hW]; simp, ?_, ?_, ?_⟩
  · intro i; rw [hW, vget_tab_fin]; exact div_pos (rawW_pos sch mu i) hS
  · intro i j hij; rw [hW, vget_tab_fin, vget_tab_fin]
    exact div_le_div_of_nonneg_right (rawW_antitone sch mu hij) hS.le
  · rw [hW]; simp only [vget_tab_fin]
    rw [← Finset.sum_div, div_self hS.ne']

end C13L
