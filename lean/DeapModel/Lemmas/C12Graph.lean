/-
Helper lemmas for C12: `gp.graph` (`Core/GpGraph.lean`) — the stack loop computes the parent → child relation.
-/
import DeapModel.Lemmas.C11Basic
import DeapModel.Lemmas.C11Span
import DeapModel.Core.GpGraph

namespace GpTree

theorem popDone_succ (j r : Nat) (st : List (Nat × Nat)) : popDone ((j, r + 1) :: st) = (j, r + 1) :: st := by
  simp [popDone]

theorem popDone_zero (j : Nat) (st : List (Nat × Nat)) : popDone ((j, 0) :: st) = popDone st := by
  simp [popDone]

mutual
/-- one subtree: the loop emits the edge from the frame on top of the stack (if any), then the edges inside the
subtree, and goes on behind it with that frame decremented (and popped when it is complete) -/
theorem graphLoop_tree : ∀ (t : Tree) (rest : List Prim) (i : Nat) (st : List (Nat × Nat)), wf t = true →
    graphLoop (flatten t ++ rest) i st =
      edgeTo st i ++ (edgesT i t ++ graphLoop rest (i + t.size) (popDone (decTop st)))
  | .node p as, rest, i, st, hw => by
    simp only [wf, Bool.and_eq_true, beq_iff_eq] at hw
    simp only [flatten, List.cons_append, graphLoop, edgesT, Tree.size]
    rw [← hw.1, graphLoop_forest as rest (i + 1) i (decTop st) hw.2]
    simp [Nat.add_assoc, Nat.add_comm 1]
/-- the children of the node `par`, whose frame `(par, number of children)` is on top -/
theorem graphLoop_forest : ∀ (as : List Tree) (rest : List Prim) (o par : Nat) (st : List (Nat × Nat)),
    wfF as = true →
    graphLoop (flattenF as ++ rest) o (popDone ((par, as.length) :: st)) =
      edgesF par o as ++ graphLoop rest (o + sizeF as) (popDone st)
  | [], rest, o, par, st, _ => by
    simp [flattenF, edgesF, sizeF, popDone_zero]
  | a :: as, rest, o, par, st, hw => by
    simp only [wfF, Bool.and_eq_true] at hw
    simp only [flattenF, List.append_assoc, List.length_cons, popDone_succ, edgesF, sizeF]
    rw [graphLoop_tree a (flattenF as ++ rest) o _ hw.1]
    simp only [edgeTo, decTop, Nat.add_sub_cancel, List.cons_append, List.nil_append]
    rw [graphLoop_forest as rest (o + a.size) par st hw.2]
    simp [Nat.add_assoc]
end

theorem graphEdges_flatten (t : Tree) (hw : wf t = true) : graphEdges (flatten t) = edgesT 0 t := by
  have := graphLoop_tree t [] 0 [] hw
  simpa [graphEdges, edgeTo, graphLoop] using this

/-! ### the children of every node are reached exactly once, in index order -/

theorem range'_cons_append (o a b : Nat) :
    o :: (List.range' (o + 1) a ++ List.range' (o + (a + 1)) b) = List.range' o ((a + 1) + b) := by
  have h1 : o :: List.range' (o + 1) a = List.range' o (a + 1) := by
    rw [List.range'_succ]
  have h2 := List.range'_append_1 (s := o) (m := a + 1) (n := b)
  rw [← h2, ← h1]; rfl

mutual
theorem edgesT_snd : ∀ (o : Nat) (t : Tree), (edgesT o t).map Prod.snd = List.range' (o + 1) (t.size - 1)
  | o, .node p as => by
    simp only [edgesT, Tree.size]
    rw [edgesF_snd o (o + 1) as]
    congr 1; omega
theorem edgesF_snd : ∀ (par o : Nat) (ts : List Tree), (edgesF par o ts).map Prod.snd = List.range' o (sizeF ts)
  | _, _, [] => by simp [edgesF, sizeF]
  | par, o, t :: ts => by
    simp only [edgesF, sizeF, List.map_cons, List.map_append]
    rw [edgesT_snd o t, edgesF_snd par (o + t.size) ts]
    have hp := size_pos t
    obtain ⟨k, hk⟩ : ∃ k, t.size = k + 1 := ⟨t.size - 1, by omega⟩
    rw [hk]
    simpa using range'_cons_append o k (sizeF ts)
end

/-! ### an edge is exactly a (node, child) pair of the tree -/

theorem subAt_lt (t : Tree) (i : Nat) (s : Tree) (h : subAt t i = some s) : i < t.size := by
  obtain ⟨pre, post, e, hl⟩ := subAt_decomp t i s h
  have := congrArg List.length e
  simp [flatten_length] at this
  have := size_pos s
  omega

/-- `j` is the index of a child of the node with index `i` in the tree `t` (indices in prefix order, root = 0):
the subtree rooted at `i` is `s`, its children start at `i + 1`, each one behind the previous child's subtree -/
def IsChild (t : Tree) (i j : Nat) : Prop :=
  ∃ s, subAt t i = some s ∧ j ∈ childRoots (i + 1) s.children

mutual
theorem mem_edgesT : ∀ (o : Nat) (t : Tree) (i j : Nat),
    (i, j) ∈ edgesT o t ↔ o ≤ i ∧ ∃ s, subAt t (i - o) = some s ∧ j ∈ childRoots (i + 1) s.children
  | o, .node p as, i, j => by
    simp only [edgesT]
    rw [mem_edgesF o (o + 1) as i j]
    constructor
    · rintro (⟨rfl, hj⟩ | ⟨hle, s, hs, hj⟩)
      · exact ⟨Nat.le_refl _, .node p as, by simp [subAt], by simpa [Tree.children] using hj⟩
      · refine ⟨by omega, s, ?_, hj⟩
        simp only [subAt]
        rw [if_neg (by omega)]
        have : i - o - 1 = i - (o + 1) := by omega
        rw [this]; exact hs
    · rintro ⟨hle, s, hs, hj⟩
      simp only [subAt] at hs
      split at hs
      · rename_i h0
        have : i = o := by omega
        subst this
        simp at hs; subst hs
        exact Or.inl ⟨rfl, by simpa [Tree.children] using hj⟩
      · rename_i h0
        refine Or.inr ⟨by omega, s, ?_, hj⟩
        have : i - (o + 1) = i - o - 1 := by omega
        rw [this]; exact hs
theorem mem_edgesF : ∀ (par o : Nat) (ts : List Tree) (i j : Nat),
    (i, j) ∈ edgesF par o ts ↔
      (i = par ∧ j ∈ childRoots o ts) ∨
      (o ≤ i ∧ ∃ s, subAtF ts (i - o) = some s ∧ j ∈ childRoots (i + 1) s.children)
  | par, o, [], i, j => by simp [edgesF, childRoots, subAtF]
  | par, o, t :: ts, i, j => by
    simp only [edgesF, List.mem_cons, List.mem_append, Prod.mk.injEq, childRoots]
    rw [mem_edgesT o t i j, mem_edgesF par (o + t.size) ts i j]
    constructor
    · rintro (⟨rfl, rfl⟩ | ⟨hle, s, hs, hj⟩ | ⟨rfl, hj⟩ | ⟨hle, s, hs, hj⟩)
      · exact Or.inl ⟨rfl, Or.inl rfl⟩
      · refine Or.inr ⟨hle, s, ?_, hj⟩
        simp only [subAtF]
        rw [if_pos (subAt_lt t _ s hs)]; exact hs
      · exact Or.inl ⟨rfl, Or.inr hj⟩
      · refine Or.inr ⟨by omega, s, ?_, hj⟩
        simp only [subAtF]
        rw [if_neg (by omega)]
        have : i - o - t.size = i - (o + t.size) := by omega
        rw [this]; exact hs
    · rintro (⟨rfl, rfl | hj⟩ | ⟨hle, s, hs, hj⟩)
      · exact Or.inl ⟨rfl, rfl⟩
      · exact Or.inr (Or.inr (Or.inl ⟨rfl, hj⟩))
      · simp only [subAtF] at hs
        split at hs
        · exact Or.inr (Or.inl ⟨hle, s, hs, hj⟩)
        · rename_i hge
          refine Or.inr (Or.inr (Or.inr ⟨by omega, s, ?_, hj⟩))
          have : i - (o + t.size) = i - o - t.size := by omega
          rw [this]; exact hs
end

theorem mem_edgesT_zero (t : Tree) (i j : Nat) : (i, j) ∈ edgesT 0 t ↔ IsChild t i j := by
  rw [mem_edgesT 0 t i j]; simp [IsChild]

end GpTree
