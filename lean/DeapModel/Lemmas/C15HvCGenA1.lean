import DeapModel.Lemmas.C15HvCGen0
/-!
C15 — the general case of `hv_recursive` in `_hv.c`, first phase: the reset loop (l.719-722) and the deletion loop
(l.724-744) as runs along the list of the level; frame facts about `delete` / `delete_dom`.
-/
namespace HvC
set_option linter.unusedVariables false
open Hypervolume
open HvSweep (GCtx Hj RL preSet pos ARv VOLv ids Shaped Seg)

/-! ### the reset loop -/

theorem gA_ign_setIgn_self (S : St) (a : ℕ) (v : ℤ) (h : a < S.ignore.length) : ign (setIgn S a v) a = v := by
  unfold ign setIgn
  exact HvSweep.getD_set_self _ _ _ _ h

/-- the body of the reset loop -/
def gA_rsStep (k : ℕ) (S : St) (q : ℕ) : St := if ign S q < (k : ℤ) then setIgn S q 0 else S

theorem gA_rsStep_fields (k : ℕ) (S : St) (q : ℕ) :
    (gA_rsStep k S q).next = S.next ∧ (gA_rsStep k S q).prev = S.prev ∧ (gA_rsStep k S q).area = S.area ∧
    (gA_rsStep k S q).vol = S.vol ∧ (gA_rsStep k S q).bound = S.bound ∧ (gA_rsStep k S q).domr = S.domr ∧
    (gA_rsStep k S q).tree = S.tree ∧ (gA_rsStep k S q).calls = S.calls ∧
    (gA_rsStep k S q).ignore.length = S.ignore.length := by
  unfold gA_rsStep
  split
  · refine ⟨rfl, rfl, rfl, rfl, rfl, rfl, rfl, rfl, ?_⟩
    show (S.ignore.set q 0).length = _
    rw [List.length_set]
  · exact ⟨rfl, rfl, rfl, rfl, rfl, rfl, rfl, rfl, rfl⟩

theorem gA_rsStep_ign_ne (k : ℕ) (S : St) (q y : ℕ) (h : y ≠ q) : ign (gA_rsStep k S q) y = ign S y := by
  unfold gA_rsStep
  split
  · exact ign_setIgn_ne S q y 0 h
  · rfl

theorem gA_rsStep_ign_self (k : ℕ) (S : St) (q : ℕ) (h : q < S.ignore.length) :
    (ign S q < (k : ℤ) → ign (gA_rsStep k S q) q = 0) ∧ ((k : ℤ) ≤ ign S q → ign (gA_rsStep k S q) q = ign S q) := by
  unfold gA_rsStep
  constructor
  · intro hlt; rw [if_pos hlt]; exact gA_ign_setIgn_self S q 0 h
  · intro hge; rw [if_neg (by omega)]

theorem gA_resetLoop_succ (k f q : ℕ) (S : St) (hq : q ≠ 0) :
    resetLoop k (f + 1) q S = resetLoop k f (pv (gA_rsStep k S q) k q) (gA_rsStep k S q) := by
  show (if q = 0 then some S else _) = _
  rw [if_neg hq]
  rfl

theorem gA_resetLoop_zero (k f : ℕ) (S : St) : resetLoop k f 0 S = some S := by
  cases f <;> simp [resetLoop]

theorem resetLoopC : ResetLoopC_Statement := by
  intro d n k l
  induction l using List.reverseRecOn with
  | nil =>
    intro q S fuel hs hf hS hlen hnd hr
    obtain ⟨f, rfl⟩ : ∃ f, fuel = f + 1 := ⟨fuel - 1, by simp at hf; omega⟩
    have hq := hr q (by simp)
    obtain ⟨f1, f2, f3, f4, f5, f6, f7, f8, f9⟩ := gA_rsStep_fields k S q
    have hpv : pv (gA_rsStep k S q) k q = 0 := by
      have : pv S k q = 0 := hs.2
      unfold pv at this ⊢
      rw [f2]; exact this
    rw [gA_resetLoop_succ k f q S hq.1, hpv, gA_resetLoop_zero]
    refine ⟨_, rfl, f1, f2, f3, f4, f5, f6, f7, f8, by rw [f9]; exact hlen, ?_, ?_⟩
    · intro y hy
      exact gA_rsStep_ign_ne k S q y (fun e => hy (by simp [e]))
    · intro y hy
      have hyq : y = q := by simpa using hy
      subst hyq
      exact gA_rsStep_ign_self k S y (by rw [hlen]; omega)
  | append_singleton l b ih =>
    intro q S fuel hs hf hS hlen hnd hr
    obtain ⟨f, rfl⟩ : ∃ f, fuel = f + 1 := ⟨fuel - 1, by simp at hf; omega⟩
    have hs' := (HvSweep.seg_append (toSw S) k l 0 b [] q).mp hs
    have hq := hr q (by simp)
    have hnd' := List.nodup_cons.mp hnd
    have hqb : q ≠ b := fun e => hnd'.1 (by simp [e])
    obtain ⟨f1, f2, f3, f4, f5, f6, f7, f8, f9⟩ := gA_rsStep_fields k S q
    set S1 := gA_rsStep k S q with hS1
    have htoSw : toSw S1 = toSw S := by unfold toSw; rw [f1, f2]
    have hpv : pv S1 k q = b := by
      have : pv S k q = b := hs'.2.2
      unfold pv at this ⊢
      rw [f2]; exact this
    rw [gA_resetLoop_succ k f q S hq.1, ← hS1, hpv]
    have hnd_bl : (b :: l).Nodup := by
      have := hnd'.2
      rw [List.nodup_append] at this
      refine List.nodup_cons.mpr ⟨fun hb => this.2.2 b hb b (by simp) rfl, this.1⟩
    have hsh1 : ShapeC d n S1 := by unfold ShapeC; rw [htoSw]; exact hS
    obtain ⟨S', h1, g1, g2, g3, g4, g5, g6, g7, g8, g9, g10, g11⟩ := ih b S1 f (by rw [htoSw]; exact hs'.1)
      (by simp at hf; omega) hsh1 (by rw [f9]; exact hlen) hnd_bl
      (fun a ha => hr a (by
        rcases List.mem_cons.mp ha with rfl | ha
        · simp
        · simp [ha]))
    refine ⟨S', h1, g1.trans f1, g2.trans f2, g3.trans f3, g4.trans f4, g5.trans f5, g6.trans f6, g7.trans f7,
      g8.trans f8, g9, ?_, ?_⟩
    · intro y hy
      have hyq : y ≠ q := fun e => hy (by simp [e])
      have hybl : y ∉ b :: l := fun h => hy (by
        rcases List.mem_cons.mp h with rfl | h
        · simp
        · simp [h])
      rw [g10 y hybl, hS1, gA_rsStep_ign_ne k S q y hyq]
    · intro y hy
      by_cases hyq : y = q
      · subst hyq
        have hybl : y ∉ b :: l := by
          intro h
          rcases List.mem_cons.mp h with h | h
          · exact hqb h
          · exact hnd'.1 (by simp [h])
        rw [g10 y hybl, hS1]
        exact gA_rsStep_ign_self k S y (by rw [hlen]; omega)
      · have hybl : y ∈ b :: l := by
          rcases List.mem_cons.mp hy with h | h
          · exact absurd h hyq
          · rcases List.mem_append.mp h with h | h
            · exact List.mem_cons_of_mem _ h
            · simp at h; rw [h]; simp
        have := g11 y hybl
        rw [hS1, gA_rsStep_ign_ne k S q y hyq] at this
        exact this

/-! ### `delete` / `delete_dom`: the dimensions touched, the fields written -/

theorem gA_mem_dimRange (k i : ℕ) : i ∈ dimRange k ↔ 2 ≤ i ∧ i < k := by
  unfold dimRange stopDimension
  simp only [List.mem_map, List.mem_range]
  constructor
  · rintro ⟨a, ha, rfl⟩; omega
  · rintro ⟨h1, h2⟩; exact ⟨i - 2, by omega, by omega⟩

theorem gA_dimRange_nodup (k : ℕ) : (dimRange k).Nodup := by
  unfold dimRange
  exact (List.nodup_range).map (fun a b h => by simpa using h)

/-- the two pointer assignments of `delete` / `delete_dom` in dimension `i` -/
def gA_ulStep (x : ℕ) (S : St) (i : ℕ) : St :=
  let S' := setNx S i (pv S i x) (nx S i x)
  setPv S' i (nx S' i x) (pv S' i x)

/-- the body of the loop of `delete` -/
def gA_dlStep (C : Cargo) (x : ℕ) (S : St) (i : ℕ) : St := lowerBound C (gA_ulStep x S i) x i

theorem gA_delete_eq (C : Cargo) (S : St) (x k : ℕ) : delete C S x k = (dimRange k).foldl (gA_dlStep C x) S := rfl
theorem gA_deleteDom_eq (S : St) (x k : ℕ) : deleteDom S x k = (dimRange k).foldl (gA_ulStep x) S := rfl

/-- the fields other than the pointers and the bounds -/
def gA_Data (S T : St) : Prop :=
  T.ignore = S.ignore ∧ T.area = S.area ∧ T.vol = S.vol ∧ T.domr = S.domr ∧ T.tree = S.tree ∧ T.calls = S.calls

theorem gA_Data.refl (S : St) : gA_Data S S := ⟨rfl, rfl, rfl, rfl, rfl, rfl⟩
theorem gA_Data.trans {S T U : St} (h₁ : gA_Data S T) (h₂ : gA_Data T U) : gA_Data S U := by
  obtain ⟨a1, a2, a3, a4, a5, a6⟩ := h₁
  obtain ⟨b1, b2, b3, b4, b5, b6⟩ := h₂
  exact ⟨b1.trans a1, b2.trans a2, b3.trans a3, b4.trans a4, b5.trans a5, b6.trans a6⟩

theorem gA_ulStep_data (x : ℕ) (S : St) (i : ℕ) : gA_Data S (gA_ulStep x S i) ∧ (gA_ulStep x S i).bound = S.bound :=
  ⟨⟨rfl, rfl, rfl, rfl, rfl, rfl⟩, rfl⟩

theorem gA_lowerBound_ptr (C : Cargo) (S : St) (x i : ℕ) :
    (lowerBound C S x i).next = S.next ∧ (lowerBound C S x i).prev = S.prev ∧ gA_Data S (lowerBound C S x i) ∧
    (lowerBound C S x i).bound.length = S.bound.length := by
  unfold lowerBound
  split
  · refine ⟨rfl, rfl, ⟨rfl, rfl, rfl, rfl, rfl, rfl⟩, ?_⟩
    show (S.bound.set i _).length = _
    rw [List.length_set]
  · exact ⟨rfl, rfl, ⟨rfl, rfl, rfl, rfl, rfl, rfl⟩, rfl⟩

/-- what `lowerBound` does to the bounds -/
theorem gA_lowerBound_bound (C : Cargo) (S : St) (x i : ℕ) :
    (∀ j, j ≠ i → (lowerBound C S x i).bound.getD j none = S.bound.getD j none) ∧
    (∀ b', (lowerBound C S x i).bound.getD i none = some b' →
      ∃ b, S.bound.getD i none = some b ∧ b' ≤ b ∧ b' ≤ cg C x i) := by
  unfold lowerBound
  cases hb : S.bound.getD i none with
  | none =>
    have hbg : boundGt S i (cg C x i) = false := by unfold boundGt; rw [hb]
    rw [hbg, if_neg Bool.false_ne_true]
    exact ⟨fun _ _ => rfl, fun b' h => by rw [hb] at h; cases h⟩
  | some b =>
    by_cases hlt : cg C x i < b
    · have hbg : boundGt S i (cg C x i) = true := by unfold boundGt; rw [hb]; simpa using hlt
      rw [hbg, if_pos rfl]
      refine ⟨fun j hj => ?_, fun b' h => ?_⟩
      · show (S.bound.set i _).getD j none = _
        exact HvSweep.getD_set_ne _ _ _ _ _ hj
      · have hi := HvSweep.getD_some_lt S.bound i b hb
        have : (S.bound.set i (some (cg C x i))).getD i none = some (cg C x i) := HvSweep.getD_set_self _ _ _ _ hi
        have h' : (S.bound.set i (some (cg C x i))).getD i none = some b' := h
        rw [this] at h'
        cases h'
        exact ⟨b, rfl, le_of_lt hlt, le_refl _⟩
    · have hbg : boundGt S i (cg C x i) = false := by unfold boundGt; rw [hb]; simpa using hlt
      rw [hbg, if_neg Bool.false_ne_true]
      refine ⟨fun _ _ => rfl, fun b' h => ?_⟩
      rw [hb] at h
      cases h
      exact ⟨b, rfl, le_refl _, not_lt.mp hlt⟩

/-- the pointers of a dimension that is not touched -/
theorem gA_ulStep_other (x : ℕ) (S : St) (i j a : ℕ) (hj : j ≠ i) :
    nx (gA_ulStep x S i) j a = nx S j a ∧ pv (gA_ulStep x S i) j a = pv S j a := by
  unfold gA_ulStep
  simp only
  refine ⟨?_, ?_⟩
  · rw [nx_setPv, nx_setNx_ne _ _ _ _ _ _ (Or.inl hj)]
  · rw [pv_setPv_ne _ _ _ _ _ _ (Or.inl hj), pv_setNx]

theorem gA_dlStep_other (C : Cargo) (x : ℕ) (S : St) (i j a : ℕ) (hj : j ≠ i) :
    nx (gA_dlStep C x S i) j a = nx S j a ∧ pv (gA_dlStep C x S i) j a = pv S j a := by
  obtain ⟨h1, h2, _, _⟩ := gA_lowerBound_ptr C (gA_ulStep x S i) x i
  obtain ⟨e1, e2⟩ := gA_ulStep_other x S i j a hj
  unfold gA_dlStep
  refine ⟨?_, ?_⟩
  · rw [← e1]; unfold nx; rw [h1]
  · rw [← e2]; unfold pv; rw [h2]

/-- `delete_dom` over a list of dimensions: frame -/
theorem gA_ulFold_frame (x : ℕ) : ∀ (is : List ℕ) (S : St),
    gA_Data S (is.foldl (gA_ulStep x) S) ∧ (is.foldl (gA_ulStep x) S).bound = S.bound ∧
    ∀ j, j ∉ is → ∀ a, nx (is.foldl (gA_ulStep x) S) j a = nx S j a ∧ pv (is.foldl (gA_ulStep x) S) j a = pv S j a
  | [], S => ⟨gA_Data.refl S, rfl, fun _ _ _ => ⟨rfl, rfl⟩⟩
  | i :: is, S => by
    obtain ⟨h1, h2, h3⟩ := gA_ulFold_frame x is (gA_ulStep x S i)
    rw [List.foldl_cons]
    refine ⟨(gA_ulStep_data x S i).1.trans h1, h2.trans (gA_ulStep_data x S i).2, ?_⟩
    intro j hj a
    have hji : j ≠ i := fun e => hj (by simp [e])
    have hjs : j ∉ is := fun h => hj (by simp [h])
    obtain ⟨e1, e2⟩ := h3 j hjs a
    obtain ⟨o1, o2⟩ := gA_ulStep_other x S i j a hji
    exact ⟨e1.trans o1, e2.trans o2⟩

/-- `delete` over a list of dimensions: frame -/
theorem gA_dlFold_frame (C : Cargo) (x : ℕ) : ∀ (is : List ℕ) (S : St),
    gA_Data S (is.foldl (gA_dlStep C x) S) ∧ (is.foldl (gA_dlStep C x) S).bound.length = S.bound.length ∧
    (∀ j, j ∉ is → (is.foldl (gA_dlStep C x) S).bound.getD j none = S.bound.getD j none) ∧
    ∀ j, j ∉ is → ∀ a, nx (is.foldl (gA_dlStep C x) S) j a = nx S j a ∧ pv (is.foldl (gA_dlStep C x) S) j a = pv S j a
  | [], S => ⟨gA_Data.refl S, rfl, fun _ _ => rfl, fun _ _ _ => ⟨rfl, rfl⟩⟩
  | i :: is, S => by
    obtain ⟨h1, h2, h3, h4⟩ := gA_dlFold_frame C x is (gA_dlStep C x S i)
    obtain ⟨l1, l2, l3, l4⟩ := gA_lowerBound_ptr C (gA_ulStep x S i) x i
    obtain ⟨b1, b2⟩ := gA_lowerBound_bound C (gA_ulStep x S i) x i
    rw [List.foldl_cons]
    refine ⟨?_, ?_, ?_, ?_⟩
    · exact ((gA_ulStep_data x S i).1.trans l3).trans h1
    · rw [h2]; exact l4
    · intro j hj
      have hji : j ≠ i := fun e => hj (by simp [e])
      have hjs : j ∉ is := fun h => hj (by simp [h])
      rw [h3 j hjs]
      exact b1 j hji
    · intro j hj a
      have hji : j ≠ i := fun e => hj (by simp [e])
      have hjs : j ∉ is := fun h => hj (by simp [h])
      obtain ⟨e1, e2⟩ := h4 j hjs a
      obtain ⟨o1, o2⟩ := gA_dlStep_other C x S i j a hji
      exact ⟨e1.trans o1, e2.trans o2⟩

/-- one iteration of the deletion loop: nothing but the pointers and bounds of the dimensions `2 .. dim-1` is written -/
theorem gA_delStep_frame (C : Cargo) (dim : ℕ) (S : St) (x : ℕ) :
    gA_Data S (delStep C dim S x) ∧ (delStep C dim S x).bound.length = S.bound.length ∧
    (∀ j, (j < 2 ∨ dim ≤ j) → (delStep C dim S x).bound.getD j none = S.bound.getD j none) ∧
    ∀ j, (j < 2 ∨ dim ≤ j) → ∀ a, nx (delStep C dim S x) j a = nx S j a ∧ pv (delStep C dim S x) j a = pv S j a := by
  have hnot : ∀ j, (j < 2 ∨ dim ≤ j) → j ∉ dimRange dim := by
    intro j hj hm
    have := (gA_mem_dimRange dim j).mp hm
    omega
  unfold delStep
  split
  · rw [gA_deleteDom_eq]
    obtain ⟨h1, h2, h3⟩ := gA_ulFold_frame x (dimRange dim) S
    exact ⟨h1, by rw [h2], fun j hj => by rw [h2], fun j hj a => h3 j (hnot j hj) a⟩
  · rw [gA_delete_eq]
    obtain ⟨h1, h2, h3, h4⟩ := gA_dlFold_frame C x (dimRange dim) S
    exact ⟨h1, h2, fun j hj => h3 j (hnot j hj), fun j hj a => h4 j (hnot j hj) a⟩

theorem gA_delSeq_cons (C : Cargo) (dim : ℕ) (S : St) (x : ℕ) (rs : List ℕ) :
    delSeq C dim S (x :: rs) = delSeq C dim (delStep C dim S x) rs := rfl

theorem gA_delSeq_frame (C : Cargo) (dim : ℕ) : ∀ (rs : List ℕ) (S : St),
    gA_Data S (delSeq C dim S rs) ∧ (delSeq C dim S rs).bound.length = S.bound.length ∧
    (∀ j, (j < 2 ∨ dim ≤ j) → (delSeq C dim S rs).bound.getD j none = S.bound.getD j none) ∧
    ∀ j, (j < 2 ∨ dim ≤ j) → ∀ a, nx (delSeq C dim S rs) j a = nx S j a ∧ pv (delSeq C dim S rs) j a = pv S j a
  | [], S => ⟨gA_Data.refl S, rfl, fun _ _ => rfl, fun _ _ _ => ⟨rfl, rfl⟩⟩
  | x :: rs, S => by
    obtain ⟨h1, h2, h3, h4⟩ := gA_delSeq_frame C dim rs (delStep C dim S x)
    obtain ⟨e1, e2, e3, e4⟩ := gA_delStep_frame C dim S x
    rw [gA_delSeq_cons]
    exact ⟨e1.trans h1, h2.trans e2, fun j hj => (h3 j hj).trans (e3 j hj),
      fun j hj a => ⟨(h4 j hj a).1.trans (e4 j hj a).1, (h4 j hj a).2.trans (e4 j hj a).2⟩⟩

/-! ### the deletion loop -/

theorem deleteLoopC : DeleteLoopC_Statement := by
  intro C k len
  induction len using Nat.strong_induction_on with
  | _ len ih =>
    intro pre q suf p S hl hs
    match len, ih, hl with
    | 0, _, hl => omega
    | 1, _, hl =>
      have : pre = [] := List.length_eq_zero_iff.mp (by omega)
      subst this
      exact ⟨[], q, [], rfl, rfl, fun d0 p0 h => by simp at h⟩
    | len + 2, ih, hl =>
      have hpre : pre ≠ [] := by intro h; rw [h] at hl; simp at hl
      obtain ⟨pre0, q1, rfl⟩ : ∃ pre0 q1, pre = pre0 ++ [q1] :=
        ⟨pre.dropLast, pre.getLast hpre, (List.dropLast_append_getLast hpre).symm⟩
      have hpvS : pv S k q = q1 := by
        have := (HvSweep.seg_node (toSw S) k (pre0 ++ [q1]) 0 q suf 0 hs).1
        have h2 : pv S k q = HvSweep.pv (toSw S) k q := rfl
        rw [h2, this]; simp
      unfold deleteLoop
      split
      · obtain ⟨e1, e2, e3, e4⟩ := gA_delStep_frame C k S q
        have hfold : (if (k : ℤ) ≤ ign S q then deleteDom S q k else delete C S q k) = delStep C k S q := rfl
        dsimp only
        rw [hfold]
        set S1 := delStep C k S q with hS1
        have hpv : pv S1 k q = q1 := by rw [(e4 k (Or.inr (le_refl _)) q).2]; exact hpvS
        rw [hpv]
        have hs1 : Seg (toSw S1) k 0 (pre0 ++ q1 :: q :: suf) 0 := by
          have := HvSweep.seg_congr (S := toSw S) (T := toSw S1) (i := k) (fun a => e4 k (Or.inr (le_refl _)) a) _ 0 0 hs
          simpa using this
        obtain ⟨pre', q', rs', h1, h2, h3⟩ := ih (len + 1) (by omega) pre0 q1 (q :: suf) q S1
          (by simp at hl; omega) hs1
        refine ⟨pre', q', q :: rs', ?_, ?_, ?_⟩
        · rw [h1, gA_delSeq_cons]
          congr 1
          simp only [List.reverse_cons, List.append_assoc]
          cases rs'.reverse <;> simp
        · rw [List.reverse_cons, ← List.cons_append, ← List.append_assoc, ← h2]
        · intro d0 p0 hd
          obtain ⟨b, hb1, hb2, hb3⟩ := h3 d0 p0 hd
          refine ⟨b, ?_, hb2, hb3⟩
          rw [← e3 k (Or.inr (le_refl _))]; exact hb1
      · rename_i hcond
        refine ⟨pre0 ++ [q1], q, [], by simp [delSeq, hl], by simp, ?_⟩
        intro d0 p0 hd
        have hp0 : p0 = q1 := by
          have := congrArg List.getLast? hd
          simp at this
          exact this.symm
        have hc : (gtBound S k (cg C q k) || geBound S k (cg C (pv S k q) k)) = false := by
          simpa using hcond
        rw [Bool.or_eq_false_iff] at hc
        unfold gtBound geBound at hc
        cases hb : S.bound.getD k none with
        | none => rw [hb] at hc; simp at hc
        | some b =>
          rw [hb] at hc
          simp only [decide_eq_false_iff_not, not_lt, not_le] at hc
          exact ⟨b, rfl, hc.1, by rw [hp0, ← hpvS]; exact hc.2⟩

end HvC
