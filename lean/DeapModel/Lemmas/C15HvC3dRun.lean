import DeapModel.Lemmas.C15HvC3d
/-!
C15 — the 3-D base case of `_hv.c` run on a freshly set up list (`bound[2] = -DBL_MAX`): the main loop accumulates
`area of the staircase × thickness of the slab`, which is the slab decomposition of the 3-D hypervolume along the
third coordinate.
-/
namespace HvC
set_option linter.unusedVariables false
open Hypervolume
open HvSweep (Shape DL Seg Link DimEq ids)

theorem toSw_eq_of {S S' : St} (h1 : S'.next = S.next) (h2 : S'.prev = S.prev) : toSw S' = toSw S := by
  unfold toSw; rw [h1, h2]

/-- the projection of node `a` onto the first two coordinates -/
def pt2 (C : Cargo) (a : ℕ) : Pt := toPt (item C a)

/-- area dominated by the projections of the nodes `D` -/
def A2 (C : Cargo) (r₀ r₁ : ℚ) (D : List ℕ) : ℚ := hvCells [r₀, r₁] (D.map (pt2 C))
/-- volume dominated by the nodes `D` -/
def V3 (C : Cargo) (r₀ r₁ r₂ : ℚ) (D : List ℕ) : ℚ := hvCells [r₀, r₁, r₂] (D.map (ptOf C))

theorem len3_facts (p : Pt) (h : p.length = 3) :
    p.getLastD 0 = p.getD 2 0 ∧ p.dropLast = [p.getD 0 0, p.getD 1 0] := by
  match p, h with
  | [a, b, c], _ => exact ⟨rfl, rfl⟩

/-- the slab added by a node whose third coordinate is the largest so far -/
theorem V3_add_top (C : Cargo) (r₀ r₁ r₂ : ℚ) (pre : List ℕ) (p : ℕ)
    (hlen : ∀ a ∈ p :: pre, (ptOf C a).length = 3)
    (hz : ∀ s ∈ pre, cg C s 2 ≤ cg C p 2) (hr : cg C p 2 ≤ r₂) :
    V3 C r₀ r₁ r₂ (p :: pre) = V3 C r₀ r₁ r₂ pre + (r₂ - cg C p 2) * (A2 C r₀ r₁ (p :: pre) - A2 C r₀ r₁ pre) := by
  have hdrop : ∀ a ∈ p :: pre, (ptOf C a).dropLast = pt2 C a := fun a ha => (len3_facts _ (hlen a ha)).2
  have hlast : ∀ a ∈ p :: pre, (ptOf C a).getLastD 0 = cg C a 2 := fun a ha => (len3_facts _ (hlen a ha)).1
  have key := hvCells_add_top_slab_last r₂ [r₀, r₁] (pre.map (ptOf C)) (ptOf C p)
    (by
      intro s hs
      rcases List.mem_cons.mp hs with rfl | hs
      · exact hlen p (by simp)
      · obtain ⟨a, ha, rfl⟩ := List.mem_map.mp hs
        exact hlen a (by simp [ha]))
    (by
      intro s hs
      obtain ⟨a, ha, rfl⟩ := List.mem_map.mp hs
      rw [hlast a (by simp [ha]), hlast p (by simp)]
      exact hz a ha)
    (by rw [hlast p (by simp)]; exact hr)
  unfold V3 A2
  rw [List.map_cons]
  have e1 : ([r₀, r₁] ++ [r₂] : List ℚ) = [r₀, r₁, r₂] := rfl
  rw [e1] at key
  rw [key, hlast p (by simp)]
  have e2 : (ptOf C p :: pre.map (ptOf C)).map List.dropLast = (p :: pre).map (pt2 C) := by
    rw [← List.map_cons (f := ptOf C), List.map_map]
    apply List.map_congr_left
    intro a ha
    exact hdrop a ha
  have e3 : (pre.map (ptOf C)).map List.dropLast = pre.map (pt2 C) := by
    rw [List.map_map]
    apply List.map_congr_left
    intro a ha
    exact hdrop a (by simp [ha])
  rw [e2, e3]

/-- what the main loop keeps about the tree: a staircase of processed nodes that covers all processed nodes -/
structure TreeInv (C : Cargo) (r₀ r₁ : ℚ) (S : St) (pre : List ℕ) (hypera : ℚ) : Prop where
  ne : S.tree ≠ []
  nodup : S.tree.Nodup
  sub : ∀ t ∈ S.tree, t ∈ pre
  stair : Stair (S.tree.map (item C))
  cover : ∀ q ∈ pre, ∃ t ∈ S.tree, (item C t).1 ≤ (item C q).1 ∧ (item C t).2 ≤ (item C q).2
  area : hypera = hArea r₀ r₁ (S.tree.map (item C))

theorem dom_pt2 (C : Cargo) (r₀ r₁ : ℚ) (t q : ℕ) (h : (item C t).1 ≤ (item C q).1 ∧ (item C t).2 ≤ (item C q).2) :
    Dom [r₀, r₁] (pt2 C t) (pt2 C q) := ⟨h.1, h.2, trivial⟩

/-- the strip sum kept in `hypera` is the area dominated by the processed nodes -/
theorem TreeInv.area_eq {C : Cargo} {r₀ r₁ : ℚ} {S : St} {pre : List ℕ} {hypera : ℚ} (h : TreeInv C r₀ r₁ S pre hypera)
    (hlt : ∀ a ∈ pre, (item C a).1 < r₀ ∧ (item C a).2 < r₁) : hypera = A2 C r₀ r₁ pre := by
  rw [h.area, stair_area r₀ r₁ _ h.stair (by
    intro t ht
    obtain ⟨a, ha, rfl⟩ := List.mem_map.mp ht
    have := hlt a (h.sub a ha)
    exact ⟨le_of_lt this.1, le_of_lt this.2⟩)]
  unfold A2
  rw [List.map_map]
  symm
  apply hvCells_eq_of_cover
  · intro t ht
    obtain ⟨a, ha, rfl⟩ := List.mem_map.mp ht
    exact List.mem_map.mpr ⟨a, h.sub a ha, rfl⟩
  · intro p hp
    obtain ⟨q, hq, rfl⟩ := List.mem_map.mp hp
    obtain ⟨t, ht, hd⟩ := h.cover q hq
    exact ⟨pt2 C t, List.mem_map.mpr ⟨t, ht, rfl⟩, dom_pt2 C r₀ r₁ t q hd⟩

/-- the third coordinate at which the next slab starts: that of the next node, or the reference -/
def zOf (C : Cargo) (r₂ : ℚ) : List ℕ → ℚ
  | [] => r₂
  | a :: _ => cg C a 2

/-- **the main loop l.899-989** on the nodes `rest` still to come, `pre` being processed -/
theorem sweepLoop_spec (C : Cargo) (R : List ℚ) (n tfuel : ℕ) : ∀ (rest pre : List ℕ) (fuel : ℕ) (hyperv hypera : ℚ) (S : St),
    DLc n S 2 (pre ++ rest) →
    (pre ++ rest).Pairwise (fun a b => cg C a 2 ≤ cg C b 2) →
    (∀ a ∈ pre ++ rest, (item C a).1 < rf R 0 ∧ (item C a).2 < rf R 1 ∧ cg C a 2 ≤ rf R 2 ∧ (ptOf C a).length = 3) →
    (∀ a ∈ rest, ¬ (2 : ℤ) ≤ ign S a) →
    TreeInv C (rf R 0) (rf R 1) S pre hypera →
    hyperv + hypera * (rf R 2 - zOf C (rf R 2) rest) = V3 C (rf R 0) (rf R 1) (rf R 2) pre →
    rest.length ≤ fuel → n < tfuel →
    ∃ S', sweepLoop C R tfuel fuel (rest.headD 0) hyperv hypera S
      = some (V3 C (rf R 0) (rf R 1) (rf R 2) (pre ++ rest), S')
  | [], pre, fuel, hyperv, hypera, S, hD, hs, hfacts, hign, hT, hV, hf, htf => by
    refine ⟨S, ?_⟩
    simp only [zOf, sub_self, mul_zero, add_zero] at hV
    cases fuel <;> simp [sweepLoop, hV]
  | p :: rest, pre, fuel, hyperv, hypera, S, hD, hs, hfacts, hign, hT, hV, hf, htf => by
    obtain ⟨f, rfl⟩ : ∃ f, fuel = f + 1 := ⟨fuel - 1, by simp at hf; omega⟩
    have hndL : (pre ++ p :: rest).Nodup := hD.2.1
    have hp0 : p ≠ 0 := by
      have := (hD.2.2 p (by simp)).1
      omega
    have hppre : p ∉ pre := fun hm => (List.nodup_append.mp hndL).2.2 p hm p (by simp) rfl
    have hprest : p ∉ rest := (List.nodup_cons.mp (List.nodup_append.mp hndL).2.1).1
    have hpT : p ∉ S.tree := fun hm => hppre (hT.sub p hm)
    have h0T : 0 ∉ S.tree := by
      intro hm
      have := (hD.2.2 0 (List.mem_append_left _ (hT.sub 0 hm))).1
      omega
    have hpf := hfacts p (by simp)
    -- the pointers around p
    have hnode := HvSweep.seg_node (toSw S) 2 pre 0 p rest 0 hD.1
    have hnx : nx S 2 p = rest.headD 0 := by
      have := hnode.2.1
      cases rest with
      | nil => simpa using this
      | cons q rest => simpa using this
    have hlast : pv S 2 0 = (p :: rest).getLast (by simp) := by
      have := HvSweep.seg_pv_end (toSw S) 2 (pre ++ p :: rest) 0 0 hD.1
      rw [show HvSweep.pv (toSw S) 2 0 = pv S 2 0 from rfl] at this
      rw [this, List.getLast_cons (by simp), List.getLast_append_of_ne_nil (by simp)]
    have hhgt : hgt C R S p = zOf C (rf R 2) rest - cg C p 2 := by
      unfold hgt
      cases rest with
      | nil =>
        have : pv S 2 0 = p := by rw [hlast]; rfl
        rw [if_pos this.symm]; rfl
      | cons q rest' =>
        have hne : p ≠ pv S 2 0 := by
          rw [hlast, List.getLast_cons (by simp)]
          intro e
          exact hprest (e ▸ List.getLast_mem _)
        rw [if_neg hne, hnx]; rfl
    have hh : 0 ≤ hgt C R S p := by
      rw [hhgt]
      cases rest with
      | nil => simp only [zOf]; linarith [hpf.2.2.1]
      | cons q rest' =>
        simp only [zOf]
        have h1 := List.pairwise_append.mp hs
        have := (List.pairwise_cons.mp h1.2.1).1 q (by simp)
        linarith
    have htlen : S.tree.length < tfuel := by
      have h1 : S.tree.length ≤ pre.length := by
        apply List.Subperm.length_le
        exact List.subperm_of_subset hT.nodup (fun t ht => hT.sub t ht)
      have h2 : (pre ++ p :: rest).length ≤ n := HvSweep.dl_length_le hD
      simp at h2
      omega
    obtain ⟨r, hrun, hr1, hr2, hrF, hrI, hrne, hrnd, hrsub, hrst, hrcov⟩ :=
      sweepBody_spec C R tfuel p hyperv hypera S hT.ne hT.nodup h0T hpT hp0 hT.stair hpf.1
        (hign p (by simp)) hT.area htlen hh
    -- the invariants for the next iteration
    have hD' : DLc n r.2.2 2 ((pre ++ [p]) ++ rest) := by
      unfold DLc
      rw [toSw_eq_of hrF.1 hrF.2.1, List.append_assoc]
      exact hD
    have hT' : TreeInv C (rf R 0) (rf R 1) r.2.2 (pre ++ [p]) r.2.1 := by
      refine ⟨hrne, hrnd, ?_, hrst, ?_, hr2⟩
      · intro t ht
        rcases hrsub t ht with rfl | h
        · simp
        · exact List.mem_append_left _ (hT.sub t h)
      · intro q hq
        rcases List.mem_append.mp hq with h | h
        · obtain ⟨t, ht, hd⟩ := hT.cover q h
          obtain ⟨t', ht', hd'⟩ := hrcov t (Or.inr ht)
          exact ⟨t', ht', le_trans hd'.1 hd.1, le_trans hd'.2 hd.2⟩
        · simp at h; subst h
          exact hrcov q (Or.inl rfl)
    have hlt_pre : ∀ a ∈ pre, (item C a).1 < rf R 0 ∧ (item C a).2 < rf R 1 := fun a ha =>
      ⟨(hfacts a (List.mem_append_left _ ha)).1, (hfacts a (List.mem_append_left _ ha)).2.1⟩
    have hlt_pre' : ∀ a ∈ pre ++ [p], (item C a).1 < rf R 0 ∧ (item C a).2 < rf R 1 := by
      intro a ha
      rcases List.mem_append.mp ha with h | h
      · exact hlt_pre a h
      · simp at h; subst h; exact ⟨hpf.1, hpf.2.1⟩
    have hA2 : hypera = A2 C (rf R 0) (rf R 1) pre := hT.area_eq hlt_pre
    have hA2' : r.2.1 = A2 C (rf R 0) (rf R 1) (p :: pre) := by
      rw [hT'.area_eq hlt_pre']
      unfold A2
      exact hvCells_of_mem_iff _ _ _ (fun q => ((List.perm_append_singleton p pre).map _).mem_iff)
    have hslab := V3_add_top C (rf R 0) (rf R 1) (rf R 2) pre p
      (by
        intro a ha
        rcases List.mem_cons.mp ha with rfl | ha
        · exact hpf.2.2.2
        · exact (hfacts a (List.mem_append_left _ ha)).2.2.2)
      (fun s hs' => (List.pairwise_append.mp hs).2.2 s hs' p (by simp)) hpf.2.2.1
    have hVset : V3 C (rf R 0) (rf R 1) (rf R 2) (pre ++ [p]) = V3 C (rf R 0) (rf R 1) (rf R 2) (p :: pre) := by
      unfold V3
      exact hvCells_of_mem_iff _ _ _ (fun q => ((List.perm_append_singleton p pre).map _).mem_iff)
    have hV' : r.1 + r.2.1 * (rf R 2 - zOf C (rf R 2) rest) = V3 C (rf R 0) (rf R 1) (rf R 2) (pre ++ [p]) := by
      rw [hVset, hslab, ← hV, hr1, hhgt, ← hA2', ← hA2]
      simp only [zOf]
      ring
    obtain ⟨S', hfin⟩ := sweepLoop_spec C R n tfuel rest (pre ++ [p]) f r.1 r.2.1 r.2.2 hD'
      (by simpa using hs) (by simpa using hfacts)
      (by
        intro a ha
        rw [hrI a (fun e => hprest (e ▸ ha))]
        exact hign a (by simp [ha]))
      hT' hV' (by simp at hf; omega) htf
    refine ⟨S', ?_⟩
    unfold sweepLoop
    simp only [List.headD_cons, if_neg hp0, hrun]
    have hnx' : nx r.2.2 2 p = rest.headD 0 := by
      have : nx r.2.2 2 p = nx S 2 p := by unfold nx; rw [hrF.1]
      rw [this, hnx]
    rw [hnx', hfin]
    simp

end HvC

namespace HvC
set_option linter.unusedVariables false
open Hypervolume
open HvSweep (Shape DL Seg Link DimEq ids)

theorem ltBound_none (S : St) (x : ℚ) (h : S.bound.getD 2 none = none) : ltBound S 2 x = false := by
  unfold ltBound geBound; rw [h]; rfl

theorem geBound_none (S : St) (x : ℚ) (h : S.bound.getD 2 none = none) : geBound S 2 x = true := by
  unfold geBound; rw [h]

theorem V3_single (C : Cargo) (r₀ r₁ r₂ : ℚ) (a : ℕ) (hlen : (ptOf C a).length = 3)
    (h0 : cg C a 0 < r₀) (h1 : cg C a 1 < r₁) (h2 : cg C a 2 < r₂) :
    V3 C r₀ r₁ r₂ [a] = (r₀ - cg C a 0) * (r₁ - cg C a 1) * (r₂ - cg C a 2) := by
  unfold V3
  rw [List.map_cons, List.map_nil, hvCells_single]
  have hp : ptOf C a = [cg C a 0, cg C a 1, cg C a 2] := by
    have : ∀ p : Pt, p.length = 3 → p = [p.getD 0 0, p.getD 1 0, p.getD 2 0] := by
      intro p h
      match p, h with
      | [a, b, c], _ => rfl
    exact this _ hlen
  rw [hp]
  have hb : ∀ x y z : ℚ, boxVol [r₀, r₁, r₂] [x, y, z]
      = (if x < r₀ then r₀ - x else 0) * ((if y < r₁ then r₁ - y else 0) * ((if z < r₂ then r₂ - z else 0) * 1)) :=
    fun _ _ _ => rfl
  rw [hb, if_pos h0, if_pos h1, if_pos h2]
  ring

/-- **the 3-D base case entered with `bound[2] = -DBL_MAX`** (every `ignore` flag 0) returns the hypervolume of the
nodes of the list of dimension 2 -/
theorem dim3_fresh (C : Cargo) (R : List ℚ) (d n fuel : ℕ) (S : St) (a1 : ℕ) (rest : List ℕ)
    (hD : DLc n S 2 (a1 :: rest))
    (hs : (a1 :: rest).Pairwise (fun a b => cg C a 2 ≤ cg C b 2))
    (hfacts : ∀ a ∈ a1 :: rest, cg C a 0 < rf R 0 ∧ cg C a 1 < rf R 1 ∧ cg C a 2 < rf R 2 ∧ (ptOf C a).length = 3)
    (hbound : S.bound.getD 2 none = none)
    (hign : ∀ a, ign S a = 0)
    (hd : 2 < d) (hvol : HvSweep.Shaped (n + 1) d S.vol) (harea : HvSweep.Shaped (n + 1) d S.area)
    (hfuel : n < fuel) :
    ∃ S', dim3 C R fuel S = some (V3 C (rf R 0) (rf R 1) (rf R 2) (a1 :: rest), S') := by
  obtain ⟨f, rfl⟩ : ∃ f, fuel = f + 1 := ⟨fuel - 1, by omega⟩
  have ha1 := hfacts a1 (by simp)
  have ha1n : a1 ≤ n := (hD.2.2 a1 (by simp)).2
  have hnx0 : nx S 2 0 = a1 := hD.1.1.1
  unfold dim3
  simp only
  rw [ltBound_none S _ hbound]
  simp only [Bool.false_eq_true, if_false]
  rw [geBound_none S _ hbound, hnx0]
  simp only [if_true]
  -- the state after l.845-862
  set A1 : ℚ := (rf R 0 - cg C a1 0) * (rf R 1 - cg C a1 1) with hA1
  set S2 := setDr (avlInsertTop (setIgn (setIgn (setVl (setAr (setDr S a1 (rf R 2)) a1 2 A1) a1 2 0) a1 0) a1 0) a1) a1 (rf R 2)
    with hS2
  have hptr : toSw S2 = toSw S := rfl
  have hD2 : DLc n S2 2 (a1 :: rest) := hD
  have hb2 : S2.bound.getD 2 none = none := hbound
  have hnode := HvSweep.dl_nodeFacts hD2 (x := a1) (by simp)
  have hnx1 : nx S2 2 a1 = rest.headD 0 := by
    have := (HvSweep.seg_node (toSw S2) 2 [] 0 a1 rest 0 hD2.1).2.1
    cases rest with
    | nil => simpa using this
    | cons q rest => simpa using this
  have hrec : reconnectLoop C R (f + 1) (nx S2 2 a1) S2 = some (nx S2 2 a1, S2) := by
    unfold reconnectLoop reconnectLoopWith
    rw [ltBound_none S2 _ hb2]; simp
  rw [hrec]
  simp only
  have hpvnx : pv S2 2 (nx S2 2 a1) = a1 := hnode.pv_nx
  rw [hpvnx]
  have hvl : vl S2 a1 2 = 0 := by
    show HvSweep.tget (HvSweep.tset S.vol a1 2 0) a1 2 0 = 0
    exact HvSweep.tget_tset_self _ _ _ _ _ (by rw [hvol.1]; omega) (by rw [hvol.2 a1 (by omega)]; exact hd)
  have har : ar S2 a1 2 = A1 := by
    show HvSweep.tget (HvSweep.tset S.area a1 2 A1) a1 2 0 = A1
    exact HvSweep.tget_tset_self _ _ _ _ _ (by rw [harea.1]; omega) (by rw [harea.2 a1 (by omega)]; exact hd)
  rw [hvl, har]
  set S3 := setBound S2 2 (cg C (pv S2 2 0) 2) with hS3
  have hD3 : DLc n S3 2 ([a1] ++ rest) := hD
  have hheight : (if nx S2 2 a1 ≠ 0 then cg C (nx S2 2 a1) 2 - cg C a1 2 else rf R 2 - cg C a1 2)
      = zOf C (rf R 2) rest - cg C a1 2 := by
    rw [hnx1]
    cases rest with
    | nil => simp [zOf]
    | cons q rest' =>
      have hq0 : q ≠ 0 := by
        have := (hD.2.2 q (by simp)).1
        omega
      simp [zOf, hq0]
  rw [hheight]
  have hT3 : TreeInv C (rf R 0) (rf R 1) S3 [a1] A1 := by
    refine ⟨by show [a1] ≠ []; simp, by show [a1].Nodup; simp, ?_, ?_, ?_, ?_⟩
    · intro t ht; exact ht
    · show Stair ([a1].map (item C)); simp [Stair]
    · intro q hq; exact ⟨q, hq, le_refl _, le_refl _⟩
    · show A1 = hArea (rf R 0) (rf R 1) ([a1].map (item C))
      simp only [List.map_cons, List.map_nil, hArea, hA1, item]; ring
  have hV3 : (0 + A1 * (zOf C (rf R 2) rest - cg C a1 2)) + A1 * (rf R 2 - zOf C (rf R 2) rest)
      = V3 C (rf R 0) (rf R 1) (rf R 2) [a1] := by
    rw [V3_single C _ _ _ a1 ha1.2.2.2 ha1.1 ha1.2.1 ha1.2.2.1, hA1]; ring
  obtain ⟨S', hfin⟩ := sweepLoop_spec C R n (f + 1) rest [a1] (f + 1) (0 + A1 * (zOf C (rf R 2) rest - cg C a1 2)) A1 S3
    hD3 hs
    (fun a ha => ⟨(hfacts a ha).1, (hfacts a ha).2.1, le_of_lt (hfacts a ha).2.2.1, (hfacts a ha).2.2.2⟩)
    (by
      intro a ha
      have hne : a ≠ a1 := by
        intro e
        have := hD.2.1
        rw [e] at ha
        exact (List.nodup_cons.mp this).1 ha
      have : ign S3 a = ign S a := by
        show ign (setIgn (setIgn (setVl (setAr (setDr S a1 (rf R 2)) a1 2 A1) a1 2 0) a1 0) a1 0) a = ign S a
        rw [ign_setIgn_ne _ _ _ _ hne, ign_setIgn_ne _ _ _ _ hne]; rfl
      rw [this, hign a]; decide)
    hT3 hV3
    (by
      have := HvSweep.dl_length_le hD
      simp at this; omega)
    hfuel
  have hnx3 : nx S3 2 a1 = rest.headD 0 := hnx1
  rw [hnx3, hfin]
  exact ⟨_, rfl⟩

end HvC
